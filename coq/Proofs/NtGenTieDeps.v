(* Proofs/NtGenTieDeps.v — the three functions that Generated/NtGen.v calls through the LOCAL models of Model/NumTraits.v
   (`self.to_u128()`, `u32 -> Self` and `u128 -> Self` by `.into()`) are tied to the source elsewhere against OTHER hand models:
   `to_int!` in Proofs/ConvGenTieC19.v against Model/NumConv.v U_to_int, `from_uint!` in Proofs/LoopsTieC13.v against
   Model/Convert.v U_from_uint.  Here: the local models agree with those, for well-formed operands of every digit width whose
   relation to 128 is one of Rust's (wider than 128 bits, or dividing 128); the two models of `From<$uint>` are equal for
   EVERY value, digit width, digit count and both build modes (including the index panic for a value that does not fit). *)
From Bnum Require Import Base Prim.
From Bnum.Model Require Import Digit Core NumTraits.
From Bnum.Model Require Cast Convert NumConv.
From Bnum.Proofs Require Import CastLemmas ImpLemmas Convert NumConv NumTraits.

Lemma nt_to_u128_models_agree dbg w n a :
  0 < w -> (0 < n)%nat -> wf w n a -> 128 < w \/ (w | 128) ->
  NumTraits.U_to_u128 w a = NumConv.U_to_int dbg 128 false w a.
Proof.
  intros Hw Hn Ha Hdiv.
  assert (Hok : u128_width_ok w).
  { destruct Hdiv as [H|[q Hq]]; [left; exact H|right]. rewrite Hq. apply Z.mod_mul. lia. }
  rewrite (U_to_u128_spec w n a Hw Hok Hn Ha).
  pose proof (ToPrimitive_int_ok dbg w n false NumConv.PU128 a Hw Hn Hdiv Ha) as H.
  unfold NumConv.ToPrimitive_int in H. cbn [NumConv.pty_bits NumConv.pty_signed] in H. rewrite H.
  unfold prim_inb, source_value.
  pose proof (uval_bounds w n a ltac:(lia) Ha) as Hb.
  destruct (Z.leb_spec 0 (uval w a)); [reflexivity|lia].
Qed.

(* ---------- From<$uint> for $BUint<N>: the cons-building loop of Model/NumTraits.v against the indexed-store `while_` of
   Model/Convert.v, iteration by iteration ---------- *)
Local Ltac Zify.zify_post_hook ::= Z.div_mod_to_equations.

Lemma iter_cond w pb (i : nat) : 0 < w -> 0 < pb ->
  (Z.of_nat i * w <? pb) = (i <? Z.to_nat ((pb + w - 1) / w))%nat.
Proof.
  intros Hw Hpb. set (K := (pb + w - 1) / w).
  assert (HK : 0 <= K) by (apply Z.div_pos; lia).
  assert (H1 : K * w <= pb + w - 1) by (unfold K; nia).
  assert (H2 : pb + w - 1 < K * w + w) by (unfold K; nia).
  destruct (Z.ltb_spec (Z.of_nat i * w) pb); destruct (Nat.ltb_spec i (Z.to_nat K)); try reflexivity; nia.
Qed.

Lemma from_uint_loops_agree dbg pb w n v : 0 < w -> 0 < pb ->
  forall cnt i out fuel, length out = n -> skipn i out = repeat 0 (n - i) ->
    (i + cnt = Z.to_nat ((pb + w - 1) / w))%nat -> (cnt <= fuel)%nat ->
    Cast.while_ fuel (fun (i : nat) (_ : list Z) => Z.of_nat i * w <? pb)
      (fun i out => obind (Cast.shr_chk dbg pb v (Z.of_nat i * w)) (fun t =>
                    let d := ud w t in if negb (d =? 0) then Cast.wr out i d else Ret out)) i out =
    match from_uint_loop w cnt (n - i) (v / 2 ^ (Z.of_nat i * w)) with
    | Ret r => Ret (firstn i out ++ r)
    | Panic => Panic
    end.
Proof.
  intros Hw Hpb. pose proof (B_pos w ltac:(lia)) as HB.
  set (cond := fun (i : nat) (_ : list Z) => Z.of_nat i * w <? pb).
  set (body := fun (i : nat) (out : list Z) => obind (Cast.shr_chk dbg pb v (Z.of_nat i * w)) (fun t =>
                    let d := ud w t in if negb (d =? 0) then Cast.wr out i d else Ret out)).
  induction cnt as [|c IH]; intros i out fuel Hlen Htail Hcnt Hfuel.
  - cbn [from_uint_loop]. unfold ZERO. rewrite <- Htail, firstn_skipn.
    destruct fuel as [|f]; cbn [Cast.while_]; [reflexivity|].
    unfold cond at 1. rewrite iter_cond by lia. destruct (Nat.ltb_spec i (Z.to_nat ((pb + w - 1) / w))); [lia|reflexivity].
  - destruct fuel as [|f]; [lia|]. cbn [Cast.while_ from_uint_loop].
    unfold cond at 1. unfold body at 1. rewrite iter_cond by lia. destruct (Nat.ltb_spec i (Z.to_nat ((pb + w - 1) / w))) as [Hi|Hi]; [|lia].
    assert (Hlt : Z.of_nat i * w < pb).
    { pose proof (iter_cond w pb i Hw Hpb) as E. destruct (Nat.ltb_spec i (Z.to_nat ((pb + w - 1) / w))); [|lia].
      apply Z.ltb_lt. exact E. }
    unfold Cast.shr_chk. destruct (Z.ltb_spec (Z.of_nat i * w) pb); [|lia]. cbn [obind]. cbv zeta.
    unfold ud, u_shr.
    assert (Hnext : v / 2 ^ (Z.of_nat (S i) * w) = v / 2 ^ (Z.of_nat i * w) / B w).
    { rewrite Nat2Z.inj_succ. replace (Z.succ (Z.of_nat i) * w) with (Z.of_nat i * w + w) by lia.
      rewrite Z.pow_add_r by nia. unfold B in *.
      assert (0 < 2 ^ (Z.of_nat i * w)) by (apply Z.pow_pos_nonneg; nia).
      rewrite Z.div_div by lia. reflexivity. }
    set (t := v / 2 ^ (Z.of_nat i * w)) in *.
    destruct (n - i)%nat as [|m] eqn:Em.
    + (* index out of range *)
      destruct (Z.eqb_spec (t mod B w) 0) as [E0|E0]; cbn [negb obind].
      * rewrite (IH (S i) out f Hlen); [|replace (n - S i)%nat with 0%nat by lia; rewrite skipn_all2 by lia; reflexivity|lia|lia].
        replace (n - S i)%nat with 0%nat by lia. rewrite Hnext.
        destruct (from_uint_loop w c 0 (t / B w)); [|reflexivity].
        rewrite !firstn_all2 by lia. reflexivity.
      * unfold Cast.wr. destruct (Nat.ltb_spec i (length out)); [lia|reflexivity].
    + (* digit i exists and is still 0 *)
      assert (Hsplit : out = firstn i out ++ 0 :: skipn (S i) out).
      { rewrite <- (firstn_skipn i out) at 1. f_equal. rewrite skipn_S_tl, Htail. reflexivity. }
      assert (Hout' : (if negb (t mod B w =? 0) then Cast.wr out i (t mod B w) else Ret out) =
                      Ret (firstn i out ++ (t mod B w) :: skipn (S i) out)).
      { destruct (Z.eqb_spec (t mod B w) 0) as [E0|E0]; cbn [negb].
        - rewrite E0. rewrite <- Hsplit. reflexivity.
        - unfold Cast.wr. destruct (Nat.ltb_spec i (length out)); [reflexivity|lia]. }
      rewrite Hout'. cbn [obind].
      assert (Hfl : length (firstn i out) = i) by (rewrite firstn_length; lia).
      rewrite (IH (S i) (firstn i out ++ (t mod B w) :: skipn (S i) out) f).
      * replace (n - S i)%nat with m by lia. rewrite Hnext.
        destruct (from_uint_loop w c m (t / B w)) as [r|]; cbn [omap]; [|reflexivity].
        f_equal. replace (S i) with (length (firstn i out ++ [t mod B w])) at 1 by (rewrite app_length, Hfl; cbn [length]; lia).
        replace (firstn i out ++ t mod B w :: skipn (S i) out) with ((firstn i out ++ [t mod B w]) ++ skipn (S i) out)
          by (rewrite <- app_assoc; reflexivity).
        rewrite firstn_app, Nat.sub_diag, firstn_all. cbn [firstn]. rewrite app_nil_r, <- app_assoc. reflexivity.
      * rewrite app_length, Hfl. cbn [length]. rewrite skipn_length. lia.
      * replace (firstn i out ++ t mod B w :: skipn (S i) out) with ((firstn i out ++ [t mod B w]) ++ skipn (S i) out)
          by (rewrite <- app_assoc; reflexivity).
        rewrite skipn_app. rewrite skipn_all2 by (rewrite app_length, Hfl; cbn [length]; lia).
        rewrite app_length, Hfl. cbn [length app]. replace (S i - (i + 1))%nat with 0%nat by lia. rewrite skipn_O.
        rewrite skipn_S_tl, Htail. replace (n - S i)%nat with m by lia. reflexivity.
      * lia.
      * lia.
Qed.

Lemma nt_from_uint_models_agree dbg pb w n v : 0 < w -> 0 < pb ->
  NumTraits.U_from_uint w n pb v = Convert.U_from_uint dbg pb w n v.
Proof.
  intros Hw Hpb. unfold NumTraits.U_from_uint, Convert.U_from_uint. symmetry.
  etransitivity.
  - apply (from_uint_loops_agree dbg pb w n v Hw Hpb (Z.to_nat ((pb + w - 1) / w)) 0 (ZERO n) (Z.to_nat pb)).
    + unfold ZERO. apply repeat_length.
    + rewrite Nat.sub_0_r. reflexivity.
    + reflexivity.
    + assert ((pb + w - 1) / w <= pb) by nia. lia.
  - rewrite Nat.sub_0_r. change (Z.of_nat 0 * w) with 0. rewrite Z.pow_0_r, Z.div_1_r.
    destruct (from_uint_loop w _ n v); reflexivity.
Qed.

Theorem nt_local_models_agree :
  (forall dbg w n a, 0 < w -> (0 < n)%nat -> wf w n a -> 128 < w \/ (w | 128) ->
     NumTraits.U_to_u128 w a = NumConv.U_to_int dbg 128 false w a) /\
  (forall dbg w n v, 0 < w -> NumTraits.U_from_u32 w n v = Convert.U_from_uint dbg 32 w n v) /\
  (forall dbg w n v, 0 < w -> NumTraits.U_from_u128 w n v = Convert.U_from_uint dbg 128 w n v).
Proof.
  split; [exact nt_to_u128_models_agree|]. split.
  - intros. apply nt_from_uint_models_agree; lia.
  - intros. apply nt_from_uint_models_agree; lia.
Qed.

(* Proofs/ParseSpec.v — the reference semantics C10 is stated against: the integer grammar
   `sign? digit+`, the value a string denotes (Horner), the value of a digit slice.
   Definitions only; independent of the model. *)
From Bnum Require Import Base.

(* value of an ASCII digit character: 0-9, a-z, A-Z *)
Definition char_digit (b : Z) : option Z :=
  if (48 <=? b) && (b <=? 57) then Some (b - 48)
  else if (97 <=? b) && (b <=? 122) then Some (b - 87)
  else if (65 <=? b) && (b <=? 90) then Some (b - 55)
  else None.
Definition is_digit_char (r b : Z) : bool :=
  match char_digit b with Some d => d <? r | None => false end.
Definition dval (b : Z) : Z := match char_digit b with Some d => d | None => 0 end.

(* most significant digit first *)
Definition horner (r : Z) (ds : list Z) : Z := fold_left (fun a d => a * r + d) ds 0.

(* an optional sign: '+' (43), or '-' (45) for signed types *)
Definition sign_len (signed : bool) (s : list Z) : nat :=
  match s with
  | b :: _ => if (b =? 43) || (signed && (b =? 45)) then 1%nat else 0%nat
  | [] => 0%nat
  end.
Definition is_neg (signed : bool) (s : list Z) : bool :=
  match s with b :: _ => signed && (b =? 45) | [] => false end.
Definition body (signed : bool) (s : list Z) : list Z := skipn (sign_len signed s) s.

(* s is `sign? digit+` in radix r *)
Definition grammarb (signed : bool) (r : Z) (s : list Z) : bool :=
  match body signed s with
  | [] => false
  | b => forallb (is_digit_char r) b
  end.
(* the integer it denotes *)
Definition denote (signed : bool) (r : Z) (s : list Z) : Z :=
  let m := horner r (map dval (body signed s)) in if is_neg signed s then - m else m.

(* a byte string / digit slice *)
Definition bytes (s : list Z) : Prop := Forall (fun b => 0 <= b < 256) s.
(* every digit of a slice is below the radix *)
Definition digits_below (r : Z) (ds : list Z) : bool := forallb (fun d => d <? r) ds.

(* representation of a value in an n-digit type: the residue mod 2^BITS (two's complement for negatives) *)
Definition enc (w : Z) (n : nat) (v : Z) : list Z := digits_of w n (v mod Mod w n).

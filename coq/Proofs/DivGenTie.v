(* Proofs/DivGenTie.v — Knuth's Algorithm D: src/buint/div.rs basecase_div_rem with its nested items (struct Remainder,
   struct Mul, their methods, fn tuple_gt).
   Tie between the code GENERATED from /repo/src/buint/div.rs on every run (Generated/DivGen.v, by tools/rs2v_div.py) and
   the hand-written model Model/Div.v that the C03 theorems are about: for every digit width w > 0, every digit count N
   and all operands the dispatcher div_rem_unchecked can pass, with an iteration budget of at least N + 1 the generated
   function neither panics (no index out of bounds, no usize / digit subtraction below zero, no digit shift by >= the
   width) nor runs out of budget, and returns exactly what Div.basecase_div_rem returns.

   Representation: the generated code keeps `Remainder { first, rest }` as the pair (first, rest) and `Mul { last, rest }`
   as the pair (last, rest); the hand model keeps both as ONE digit list.  The relation is
       rrep (first, rest) = first :: rest            mrep (last, rest) = rest ++ [last].                              *)
From Bnum Require Import Base Prim.
From Bnum.Model Require Import DigitPrims LoopPrims Digit Core Shift AddSub Mul Imp ImpDiv.
From Bnum.Model Require Div.
From Bnum.Generated Require Import DigitGen DivGen.
From Bnum.Proofs Require Import DigitTie ImpLemmas DivAux DivKnuth.
From Bnum.Proofs Require Div.

Definition rrep (u : Z * list Z) : list Z := fst u :: snd u.
Definition mrep (m : Z * list Z) : list Z := snd m ++ [fst m].

(* ================= generic: a loop that updates an array in place, threading a value ================= *)

(* iteration k reads digit (start + k) of the array, writes fst (f k digit c) there and continues with snd (f k digit c) *)
Fixpoint run_ip {C : Type} (start : nat) (f : nat -> Z -> C -> Z * C) (k d : nat) (out : list Z) (c : C) : list Z * C :=
  match d with
  | O => (out, c)
  | S d' => let x := f k (nth (start + k) out 0) c in
            run_ip start f (S k) d' (list_set out (start + k) (fst x)) (snd x)
  end.

(* the same as a recursion over the window being rewritten *)
Fixpoint scan_at {C : Type} (f : nat -> Z -> C -> Z * C) (k : nat) (l : list Z) (d : nat) (c : C) {struct d} : list Z * C :=
  match d, l with
  | S d', x :: r => let y := f k x c in let r' := scan_at f (S k) r d' (snd y) in (fst y :: fst r', snd r')
  | _, _ => ([], c)
  end.

Lemma run_ip_eq {C : Type} start (f : nat -> Z -> C -> Z * C) : forall d k out c, (start + k + d <= length out)%nat ->
  run_ip start f k d out c =
  (firstn (start + k) out ++ fst (scan_at f k (skipn (start + k) out) d c) ++ skipn (start + k + d) out,
   snd (scan_at f k (skipn (start + k) out) d c)).
Proof.
  induction d as [|d IH]; intros k out c Hlen.
  - cbn [run_ip scan_at fst snd app]. rewrite Nat.add_0_r, firstn_skipn. reflexivity.
  - cbn [run_ip]. cbv zeta. rewrite IH by (rewrite list_set_length; lia).
    rewrite (skipn_nth_cons out (start + k)) by lia. cbn [scan_at]. cbv zeta. cbn [fst snd].
    replace (start + S k)%nat with (S (start + k)) by lia.
    rewrite firstn_S_list_set by lia. rewrite skipn_S_list_set. rewrite skipn_list_set_gt by lia.
    rewrite <- app_assoc. cbn [app].
    replace (S (start + k) + d)%nat with (start + k + S d)%nat by lia. reflexivity.
Qed.

Lemma scan_at_length {C : Type} (f : nat -> Z -> C -> Z * C) : forall d k l c, (d <= length l)%nat ->
  length (fst (scan_at f k l d c)) = d.
Proof.
  induction d as [|d IH]; intros k l c Hl; [reflexivity|].
  destruct l as [|x r]; [cbn [length] in Hl; lia|]. cbn [scan_at]. cbv zeta. cbn [fst length].
  rewrite IH by (cbn [length] in Hl; lia). reflexivity.
Qed.

(* reading the second operand from a fixed list b: the hand models' zipped scans *)
Lemma scan_at_scan2 {C : Type} (g : Z -> Z -> C -> Z * C) (b : list Z) : forall d k l c,
  (d <= length l)%nat -> (k + d <= length b)%nat ->
  scan_at (fun k x c => g x (nth k b 0) c) k l d c = scan2 g (firstn d l) (firstn d (skipn k b)) c.
Proof.
  induction d as [|d IH]; intros k l c Hl Hb; [destruct l; reflexivity|].
  destruct l as [|x r]; [cbn [length] in Hl; lia|].
  rewrite (skipn_nth_cons b k) by lia. cbn [scan_at firstn scan2]. cbv zeta.
  rewrite IH by (cbn [length] in Hl; lia). reflexivity.
Qed.

Lemma loop_inplace {St R C : Type} (arr : St -> list Z) (cv : St -> C) (ctr : St -> Z) (P : St -> Prop)
      (start cnt : nat) (f : nat -> Z -> C -> Z * C) (cond : St -> bool) (body : St -> res (flow St R)) :
  (forall s k, P s -> ctr s = Z.of_nat k -> (k < cnt)%nat -> cond s = true) ->
  (forall s, P s -> ctr s = Z.of_nat cnt -> cond s = false) ->
  (forall s k, P s -> ctr s = Z.of_nat k -> (k < cnt)%nat ->
     exists s', body s = Done (Continue s') /\ P s' /\ ctr s' = Z.of_nat (S k) /\
       arr s' = list_set (arr s) (start + k) (fst (f k (nth (start + k) (arr s) 0) (cv s))) /\
       cv s' = snd (f k (nth (start + k) (arr s) 0) (cv s))) ->
  forall d k s fuel, (k + d = cnt)%nat -> P s -> ctr s = Z.of_nat k -> (d <= fuel)%nat ->
  exists s', while_loop fuel cond body s = Done (Exited s') /\ P s' /\ ctr s' = Z.of_nat cnt /\
    (arr s', cv s') = run_ip start f k d (arr s) (cv s).
Proof.
  intros Hct Hcf Hb. induction d as [|d IH]; intros k s fuel Hk HP Hctr Hf.
  - assert (k = cnt) by lia. subst k. exists s.
    split; [destruct fuel; cbn [while_loop]; rewrite (Hcf s HP Hctr); reflexivity|].
    split; [exact HP|]. split; [exact Hctr | reflexivity].
  - destruct fuel as [|fuel]; [lia|]. cbn [while_loop]. rewrite (Hct s k HP Hctr) by lia.
    destruct (Hb s k HP Hctr ltac:(lia)) as (s1 & Hbody & HP1 & Hctr1 & Harr1 & Hcv1). rewrite Hbody.
    destruct (IH (S k) s1 fuel ltac:(lia) HP1 Hctr1 ltac:(lia)) as (s' & Hw & HP' & Hctr' & Hres).
    exists s'. split; [exact Hw|]. split; [exact HP'|]. split; [exact Hctr'|].
    rewrite Hres, Harr1, Hcv1. reflexivity.
Qed.

(* the loops of Remainder::shr: out[j] := h j out[j] for j = 0 .. n-1, state (out, j) *)
Fixpoint mapi (h : nat -> Z -> Z) (j : nat) (l : list Z) : list Z :=
  match l with [] => [] | x :: r => h j x :: mapi h (S j) r end.

Lemma mapi_length h : forall l j, length (mapi h j l) = length l.
Proof. induction l as [|x r IH]; intros j; cbn [mapi length]; [reflexivity | rewrite IH; reflexivity]. Qed.

Lemma nth_mapi h : forall l j i, (i < length l)%nat -> nth i (mapi h j l) 0 = h (j + i)%nat (nth i l 0).
Proof.
  induction l as [|x r IH]; intros j i Hi; cbn [length] in Hi; [lia|].
  destruct i; cbn [mapi nth]; [rewrite Nat.add_0_r; reflexivity|].
  rewrite IH by lia. f_equal. lia.
Qed.

Lemma loop_mapi {R : Type} (h : nat -> Z -> Z) (n : nat)
      (cond : list Z * Z -> bool) (body : list Z * Z -> res (flow (list Z * Z) R)) :
  (forall out i, cond (out, i) = (i <? Z.of_nat n)) ->
  (forall out j, (j < n)%nat -> length out = n ->
     body (out, Z.of_nat j) = Done (Continue (list_set out j (h j (nth j out 0)), Z.of_nat j + 1))) ->
  forall fuel k out, length out = n -> (k <= n)%nat -> (n - k <= fuel)%nat ->
  while_loop fuel cond body (out, Z.of_nat k) = Done (Exited (firstn k out ++ mapi h k (skipn k out), Z.of_nat n)).
Proof.
  intros Hc Hb fuel. induction fuel as [|fuel IH]; intros k out Hlen Hk Hf.
  - assert (k = n) by lia. subst k. cbn [while_loop]. rewrite Hc, Z.ltb_irrefl.
    rewrite skipn_all2 by lia. cbn [mapi]. rewrite app_nil_r, firstn_all2 by lia. reflexivity.
  - destruct (Nat.eq_dec k n) as [->|Hne].
    + cbn [while_loop]. rewrite Hc, Z.ltb_irrefl.
      rewrite skipn_all2 by lia. cbn [mapi]. rewrite app_nil_r, firstn_all2 by lia. reflexivity.
    + cbn [while_loop]. rewrite Hc. rewrite ltb_of_nat. destruct (Nat.ltb_spec k n) as [_|]; [|lia].
      rewrite Hb by lia. replace (Z.of_nat k + 1) with (Z.of_nat (S k)) by lia.
      rewrite IH by (try rewrite list_set_length; lia).
      rewrite firstn_S_list_set by lia. rewrite skipn_S_list_set.
      rewrite (skipn_nth_cons out k) by lia. cbn [mapi]. rewrite <- app_assoc. reflexivity.
Qed.

(* ================= list facts ================= *)

Lemma set_nth_as_list_set f l k : (k < length l)%nat -> set_nth k f l = list_set l k (f (nth k l 0)).
Proof.
  intros Hk. unfold set_nth. rewrite list_set_split by exact Hk.
  rewrite (skipn_nth_cons l k) by exact Hk. reflexivity.
Qed.

Lemma dg_add_loop_scan2 w a b c : add_loop w a b c = scan2 (carrying_add w) a b c.
Proof.
  revert b c. induction a as [|x a IH]; intros b c; [reflexivity|].
  destruct b as [|y b]; [reflexivity|]. cbn [add_loop scan2].
  destruct (carrying_add w x y c) as [s c1]. cbn [fst snd]. rewrite IH.
  destruct (scan2 (carrying_add w) a b c1). reflexivity.
Qed.

Lemma dg_sub_loop_scan2 w a b c : sub_loop w a b c = scan2 (borrowing_sub w) a b c.
Proof.
  revert b c. induction a as [|x a IH]; intros b c; [reflexivity|].
  destruct b as [|y b]; [reflexivity|]. cbn [sub_loop scan2].
  destruct (borrowing_sub w x y c) as [s c1]. cbn [fst snd]. rewrite IH.
  destruct (scan2 (borrowing_sub w) a b c1). reflexivity.
Qed.

(* writing digit p of a Remainder: `if p == 0 { self.first = x } else { self.rest[p - 1] = x }` *)
Lemma rrep_set_first (u : Z * list Z) x : rrep (x, snd u) = list_set (rrep u) 0 x.
Proof. reflexivity. Qed.

Lemma rrep_set_rest (u : Z * list Z) p x : rrep (fst u, list_set (snd u) p x) = list_set (rrep u) (S p) x.
Proof. reflexivity. Qed.

(* ================= the helpers, one by one ================= *)

(* Remainder::digit *)
Lemma gen_Remainder_digit w M fuel (u : Z * list Z) p : (p <= length (snd u))%nat ->
  DivGen.Remainder_digit w M fuel u (Z.of_nat p) = Done (nth p (rrep u) 0).
Proof.
  intros Hp. unfold DivGen.Remainder_digit, rrep. destruct p as [|p].
  - reflexivity.
  - destruct (Z.eqb_spec (Z.of_nat (S p)) 0) as [E|_]; [lia|].
    rewrite usub_ok by lia. cbn [bind]. replace (Z.of_nat (S p) - 1) with (Z.of_nat p) by lia.
    rewrite arr_get_nat by lia. reflexivity.
Qed.

(* Mul::digit *)
Lemma gen_Mul_digit w N fuel (m : Z * list Z) p : length (snd m) = N -> (p <= N)%nat ->
  DivGen.Mul_digit w (Z.of_nat N) fuel m (Z.of_nat p) = Done (nth p (mrep m) 0).
Proof.
  intros Hm Hp. unfold DivGen.Mul_digit, mrep.
  destruct (Z.eqb_spec (Z.of_nat p) (Z.of_nat N)) as [E|E].
  - apply Nat2Z.inj in E. subst p. rewrite app_nth2 by lia. rewrite Hm, Nat.sub_diag. reflexivity.
  - rewrite arr_get_nat by lia. cbn [bind]. rewrite app_nth1 by lia. reflexivity.
Qed.

(* fn tuple_gt *)
Lemma gen_tuple_gt w N fuel a b : DivGen.tuple_gt w N fuel a b = Done (Div.tuple_gt a b).
Proof. unfold DivGen.tuple_gt, Div.tuple_gt. rewrite !Z.gtb_ltb. reflexivity. Qed.

(* Remainder::new *)
Lemma gen_Remainder_new w n fuel a s : wf w n a -> (0 < n)%nat -> 0 <= s < w ->
  exists u, DivGen.Remainder_new w (Z.of_nat n) fuel a s = Done u /\ rrep u = Div.Remainder_new w a s.
Proof.
  intros [Ha _] Hn Hs. unfold DivGen.Remainder_new, Div.Remainder_new.
  change 0 with (Z.of_nat 0) at 1. rewrite arr_get_nat by lia. cbn [bind].
  rewrite dshl_ok by lia. cbn [bind]. rewrite usub_ok by lia. cbn [bind].
  eexists. split; [reflexivity|]. unfold rrep. cbn [fst snd]. destruct a; reflexivity.
Qed.
(* Mul::new *)
Lemma scan_at_mul w v q : forall d k l c, (d <= length l)%nat -> (k + d = length v)%nat ->
  fst (scan_at (fun k (_ : Z) c => carrying_mul w (nth k v 0) q c 0) k l d c) ++
  [snd (scan_at (fun k (_ : Z) c => carrying_mul w (nth k v 0) q c 0) k l d c)] = Div.mul_digit_loop w (skipn k v) q c.
Proof.
  induction d as [|d IH]; intros k l c Hl Hk.
  - rewrite skipn_all2 by lia. reflexivity.
  - destruct l as [|x r]; [cbn [length] in Hl; lia|].
    rewrite (skipn_nth_cons v k) by lia. cbn [scan_at Div.mul_digit_loop]. cbv zeta.
    destruct (carrying_mul w (nth k v 0) q c 0) as [p c1]. cbn [fst snd app].
    rewrite IH by (cbn [length] in Hl; lia). reflexivity.
Qed.

Lemma gen_Mul_new w n fuel v q : 0 < w -> wf w n v -> digit_ok w q -> (n <= fuel)%nat ->
  exists m, DivGen.Mul_new w (Z.of_nat n) fuel v q = Done m /\ length (snd m) = n /\ mrep m = Div.Mul_new w v q.
Proof.
  intros Hw [Hv Fv] Hq Hf. unfold DivGen.Mul_new. rewrite Nat2Z.id.
  match goal with |- context [while_loop fuel ?cnd ?bdy ?st0] =>
    edestruct (loop_inplace (fun s : Z * Z * list Z => snd s) (fun s => fst (fst s)) (fun s => snd (fst s))
                (fun s => length (snd s) = n /\ digit_ok w (fst (fst s))) 0 n
                (fun k (_ : Z) c => carrying_mul w (nth k v 0) q c 0) cnd bdy) with (d := n) (k := 0%nat) (s := st0) (fuel := fuel)
      as (s' & Hw' & HP' & Hctr' & Hres) end.
  - intros [[carry i] rest] k _ Hi Hk. cbn [fst snd] in Hi. subst i. apply Z.ltb_lt. lia.
  - intros [[carry i] rest] _ Hi. cbn [fst snd] in Hi. subst i. apply Z.ltb_irrefl.
  - intros [[carry i] rest] k [Hl Hc] Hi Hk. cbn [fst snd] in Hl, Hc, Hi. subst i. cbv beta iota. cbn [fst snd Nat.add].
    rewrite arr_get_nat by lia. cbn [bind].
    rewrite tie_carrying_mul; try assumption;
      [| apply Forall_nth_Z; [assumption | lia] | apply digit_ok_0; lia].
    pose proof (carrying_mul_spec w (nth k v 0) q carry ltac:(lia)
                  ltac:(apply Forall_nth_Z; [assumption | lia]) Hq Hc) as Hs.
    destruct (carrying_mul w (nth k v 0) q carry 0) as [p c1]. destruct Hs as (_ & Hc1 & _).
    rewrite arr_set_nat by lia. cbn [bind].
    eexists. split; [reflexivity|]. cbn [fst snd Nat.add].
    split; [split; [rewrite list_set_length; exact Hl | exact Hc1]|].
    split; [lia|]. split; reflexivity.
  - lia.
  - cbn [fst snd]. split; [apply repeat_length | apply digit_ok_0; lia].
  - reflexivity.
  - lia.
  - rewrite Hw'. cbn [bind]. destruct s' as [[carry' i'] rest']. cbn [fst snd] in *.
    eexists. split; [reflexivity|]. cbn [fst snd]. split; [apply HP'|].
    rewrite run_ip_eq in Hres by (rewrite repeat_length; lia).
    cbn [Nat.add firstn skipn app] in Hres.
    rewrite (skipn_all2 (n := n)) in Hres by (rewrite repeat_length; lia). rewrite app_nil_r in Hres.
    inversion Hres as [[Hr Hc]]. unfold mrep. cbn [fst snd].
    rewrite (scan_at_mul w v q n 0 (repeat 0 n) 0) by (try rewrite repeat_length; lia).
    reflexivity.
Qed.
(* Remainder::sub *)
Lemma gen_Remainder_sub w N fuel (u mul : Z * list Z) start range :
  length (snd u) = N -> length (snd mul) = N -> (start + range <= N)%nat -> (S range <= fuel)%nat ->
  exists u', DivGen.Remainder_sub w (Z.of_nat N) fuel u mul (Z.of_nat start) (Z.of_nat range) =
             Done (u', snd (Div.Remainder_sub w (rrep u) (mrep mul) start range)) /\
    length (snd u') = N /\ rrep u' = fst (Div.Remainder_sub w (rrep u) (mrep mul) start range).
Proof.
  intros Hu Hm Hsr Hf. unfold DivGen.Remainder_sub.
  match goal with |- context [while_loop fuel ?cnd ?bdy ?st0] =>
    edestruct (loop_inplace (fun s : bool * Z * (Z * list Z) => rrep (snd s)) (fun s => fst (fst s)) (fun s => snd (fst s))
                (fun s => length (snd (snd s)) = N) start (S range)
                (fun k x c => borrowing_sub w x (nth k (mrep mul) 0) c) cnd bdy)
      with (d := S range) (k := 0%nat) (s := st0) (fuel := fuel)
      as (s' & Hw' & HP' & Hctr' & Hres) end.
  - intros [[b i] self] k _ Hi Hk. cbn [fst snd] in Hi. subst i. apply Z.leb_le. lia.
  - intros [[b i] self] _ Hi. cbn [fst snd] in Hi. subst i. apply Z.leb_gt. lia.
  - intros [[b i] self] k Hl Hi Hk. cbn [fst snd] in Hl, Hi. subst i. cbv beta iota. cbn [fst snd].
    rewrite <- Nat2Z.inj_add. rewrite gen_Remainder_digit by lia. cbn [bind].
    rewrite (gen_Mul_digit w N fuel mul k Hm) by lia. cbn [bind].
    rewrite tie_borrowing_sub. replace (k + start)%nat with (start + k)%nat by lia.
    destruct (borrowing_sub w (nth (start + k) (rrep self) 0) (nth k (mrep mul) 0) b) as [sb ov].
    cbn [fst snd].
    destruct (Nat.eq_dec (start + k) 0) as [E0|E0].
    + assert (start = 0%nat) by lia. assert (k = 0%nat) by lia. subst start k.
      change (Z.of_nat 0) with 0. cbn [Z.eqb andb Nat.add].
      eexists. split; [reflexivity|]. cbn [fst snd]. split; [exact Hl|]. split; [reflexivity|].
      split; reflexivity.
    + assert (Ef : (Z.of_nat start =? 0) && (Z.of_nat k =? 0) = false).
      { destruct (Z.eqb_spec (Z.of_nat start) 0); destruct (Z.eqb_spec (Z.of_nat k) 0); try reflexivity; lia. }
      rewrite Ef. rewrite usub_ok by lia. cbn [bind].
      replace (Z.of_nat (start + k) - 1) with (Z.of_nat (start + k - 1)) by lia.
      rewrite arr_set_nat by lia. cbn [bind].
      eexists. split; [reflexivity|]. cbn [fst snd]. split; [rewrite list_set_length; exact Hl|].
      split; [lia|]. split; [|reflexivity].
      rewrite rrep_set_rest. f_equal. lia.
  - lia.
  - exact Hu.
  - reflexivity.
  - lia.
  - rewrite Hw'. cbn [bind]. destruct s' as [[b' i'] u']. cbn [fst snd] in *.
    rewrite run_ip_eq in Hres by (unfold rrep; cbn [length]; lia).
    rewrite scan_at_scan2 in Hres
      by (try rewrite skipn_length; unfold rrep, mrep; try rewrite app_length; cbn [length]; lia).
    rewrite Nat.add_0_r in Hres. cbn [skipn] in Hres.
    unfold Div.Remainder_sub. rewrite dg_sub_loop_scan2.
    replace (start + 0 + S range)%nat with (start + S range)%nat in Hres by lia.
    destruct (scan2 (borrowing_sub w) (firstn (S range) (skipn start (rrep u))) (firstn (S range) (mrep mul)) false)
      as [win' bo]. cbn [fst snd] in Hres |- *. inversion Hres as [[Hr Hb]].
    exists u'. split; [reflexivity|]. split; [exact HP' | reflexivity].
Qed.
(* Remainder::add *)
Lemma gen_Remainder_add w N fuel (u : Z * list Z) v start range :
  length (snd u) = N -> length v = N -> (start + range <= N)%nat -> (range <= fuel)%nat ->
  exists u', DivGen.Remainder_add w (Z.of_nat N) fuel u v (Z.of_nat start) (Z.of_nat range) = Done u' /\
    length (snd u') = N /\ rrep u' = Div.Remainder_add w (rrep u) v start range.
Proof.
  intros Hu Hv Hsr Hf. unfold DivGen.Remainder_add.
  match goal with |- context [while_loop fuel ?cnd ?bdy ?st0] =>
    edestruct (loop_inplace (fun s : bool * Z * (Z * list Z) => rrep (snd s)) (fun s => fst (fst s)) (fun s => snd (fst s))
                (fun s => length (snd (snd s)) = N) start range
                (fun k x c => carrying_add w x (nth k v 0) c) cnd bdy)
      with (d := range) (k := 0%nat) (s := st0) (fuel := fuel)
      as (s' & Hw' & HP' & Hctr' & Hres) end.
  - intros [[b i] self] k _ Hi Hk. cbn [fst snd] in Hi. subst i. apply Z.ltb_lt. lia.
  - intros [[b i] self] _ Hi. cbn [fst snd] in Hi. subst i. apply Z.ltb_irrefl.
  - intros [[b i] self] k Hl Hi Hk. cbn [fst snd] in Hl, Hi. subst i. cbv beta iota. cbn [fst snd].
    rewrite <- Nat2Z.inj_add. rewrite gen_Remainder_digit by lia. cbn [bind].
    rewrite arr_get_nat by lia. cbn [bind].
    rewrite tie_carrying_add. replace (k + start)%nat with (start + k)%nat by lia.
    destruct (carrying_add w (nth (start + k) (rrep self) 0) (nth k v 0) b) as [sb ov].
    cbn [fst snd].
    destruct (Nat.eq_dec (start + k) 0) as [E0|E0].
    + assert (start = 0%nat) by lia. assert (k = 0%nat) by lia. subst start k.
      change (Z.of_nat 0) with 0. cbn [Z.eqb andb Nat.add].
      eexists. split; [reflexivity|]. cbn [fst snd]. split; [exact Hl|]. split; [reflexivity|].
      split; reflexivity.
    + assert (Ef : (Z.of_nat start =? 0) && (Z.of_nat k =? 0) = false).
      { destruct (Z.eqb_spec (Z.of_nat start) 0); destruct (Z.eqb_spec (Z.of_nat k) 0); try reflexivity; lia. }
      rewrite Ef. rewrite usub_ok by lia. cbn [bind].
      replace (Z.of_nat (start + k) - 1) with (Z.of_nat (start + k - 1)) by lia.
      rewrite arr_set_nat by lia. cbn [bind].
      eexists. split; [reflexivity|]. cbn [fst snd]. split; [rewrite list_set_length; exact Hl|].
      split; [lia|]. split; [|reflexivity].
      rewrite rrep_set_rest. f_equal. lia.
  - lia.
  - exact Hu.
  - reflexivity.
  - lia.
  - rewrite Hw'. cbn [bind]. destruct s' as [[b' i'] u']. cbn [fst snd] in *.
    rewrite run_ip_eq in Hres by (unfold rrep; cbn [length]; lia).
    rewrite scan_at_scan2 in Hres
      by (try rewrite skipn_length; unfold rrep; cbn [length]; lia).
    rewrite Nat.add_0_r in Hres. cbn [skipn] in Hres.
    unfold Div.Remainder_add. rewrite dg_add_loop_scan2.
    replace (start + 0 + range)%nat with (start + range)%nat in Hres by lia.
    destruct (scan2 (carrying_add w) (firstn range (skipn start (rrep u))) (firstn range v) false)
      as [win' co]. cbn [fst snd] in Hres. cbv beta iota zeta. inversion Hres as [[Hr Hb]]. clear Hres.
    assert (Hlu' : length (rrep u') = S N) by (unfold rrep; cbn [length]; lia).
    destruct co.
    + rewrite set_nth_as_list_set by lia.
      destruct (Nat.eq_dec (start + range) 0) as [E0|E0].
      * assert (start = 0%nat) by lia. assert (range = 0%nat) by lia. subst start range.
        change (Z.of_nat 0) with 0. cbn [Z.eqb andb Nat.add].
        eexists. split; [reflexivity|]. split; [exact HP'|]. reflexivity.
      * assert (Ef : (Z.of_nat start =? 0) && (Z.of_nat range =? 0) = false).
        { destruct (Z.eqb_spec (Z.of_nat start) 0); destruct (Z.eqb_spec (Z.of_nat range) 0); try reflexivity; lia. }
        rewrite Ef. rewrite <- Nat2Z.inj_add. rewrite usub_ok by lia. cbn [bind].
        replace (Z.of_nat (range + start) - 1) with (Z.of_nat (start + range - 1)) by lia.
        rewrite arr_get_nat by lia. cbn [bind]. rewrite arr_set_nat by lia. cbn [bind].
        eexists. split; [reflexivity|]. cbn [fst snd]. split; [rewrite list_set_length; exact HP'|].
        rewrite rrep_set_rest. replace (S (start + range - 1)) with (start + range)%nat by lia.
        f_equal. unfold rrep, dg_add. replace (start + range)%nat with (S (start + range - 1)) at 2 by lia.
        reflexivity.
    + exists u'. split; [reflexivity|]. split; [exact HP' | reflexivity].
Qed.

(* Remainder::shr *)
Lemma shr_loop_length w s : forall U, length (Div.Remainder_shr_loop w s U) = (length U - 1)%nat.
Proof.
  induction U as [|d r IH]; [reflexivity|]. destruct r as [|d' r']; [reflexivity|].
  cbn [Div.Remainder_shr_loop length] in *. rewrite IH. lia.
Qed.

Lemma shr_loop_nth w s : forall U i, (S i < length U)%nat ->
  nth i (Div.Remainder_shr_loop w s U) 0 =
  (if 0 <? s then u_or (u_shr (nth i U 0) s) (u_shl w (nth (S i) U 0) (w - s)) else u_shr (nth i U 0) s).
Proof.
  induction U as [|d r IH]; intros i Hi; [cbn [length] in Hi; lia|].
  destruct r as [|d' r']; [cbn [length] in Hi; lia|].
  destruct i as [|i].
  - reflexivity.
  - cbn [Div.Remainder_shr_loop nth] in *. apply IH. cbn [length] in *. lia.
Qed.

Lemma gen_Remainder_shr w N fuel (u : Z * list Z) s : length (snd u) = N -> 0 <= s < w -> (N <= fuel)%nat ->
  DivGen.Remainder_shr w (Z.of_nat N) fuel u s = Done (Div.Remainder_shr w (rrep u) s).
Proof.
  intros Hu Hs Hf. unfold DivGen.Remainder_shr. rewrite Nat2Z.id.
  match goal with |- context [while_loop fuel ?cnd ?bdy (?o, 0)] =>
    pose proof (loop_mapi (fun j (_ : Z) => u_shr (nth j (rrep u) 0) s) N cnd bdy ltac:(intros; reflexivity)) as L1 end.
  match type of L1 with ?A -> _ => assert (B1' : A) end.
  { intros out j Hj Hl. cbv beta iota. rewrite gen_Remainder_digit by lia. cbn [bind].
    rewrite dshr_ok by lia. cbn [bind]. rewrite arr_set_nat by lia. reflexivity. }
  specialize (L1 B1' fuel 0%nat (ZERO N) ltac:(apply repeat_length) ltac:(lia) ltac:(lia)).
  change (Z.of_nat 0) with 0 in L1. cbn [firstn skipn app] in L1. rewrite L1. clear L1 B1'. cbn [bind].
  rewrite Z.gtb_ltb. unfold Div.Remainder_shr.
  destruct (Z.ltb_spec 0 s) as [Hpos|Hz].
  - match goal with |- context [while_loop fuel ?cnd ?bdy (?o, 0)] =>
      pose proof (loop_mapi (fun j x => dg_or w x (u_shl w (nth j (snd u) 0) (w - s))) N cnd bdy ltac:(intros; reflexivity)) as L2 end.
    match type of L2 with ?A -> _ => assert (B2 : A) end.
    { intros out j Hj Hl. cbv beta iota. rewrite arr_get_nat by lia. cbn [bind].
      rewrite usub_ok by lia. cbn [bind]. rewrite dshl_ok by lia. cbn [bind].
      rewrite arr_get_nat by lia. cbn [bind]. rewrite arr_set_nat by lia. reflexivity. }
    specialize (L2 B2 fuel 0%nat (mapi (fun j (_ : Z) => u_shr (nth j (rrep u) 0) s) 0 (ZERO N))
                  ltac:(rewrite mapi_length; apply repeat_length) ltac:(lia) ltac:(lia)).
    change (Z.of_nat 0) with 0 in L2. cbn [firstn skipn app] in L2. rewrite L2. clear L2 B2. cbn [bind]. f_equal.
    apply nth_ext with (d := 0) (d' := 0).
    + rewrite !mapi_length, shr_loop_length. unfold ZERO, rrep. rewrite repeat_length. cbn [length]. lia.
    + intros i Hi. rewrite !mapi_length in Hi. unfold ZERO in Hi. rewrite repeat_length in Hi.
      rewrite nth_mapi by (rewrite mapi_length; unfold ZERO; rewrite repeat_length; lia).
      rewrite nth_mapi by (unfold ZERO; rewrite repeat_length; lia).
      rewrite shr_loop_nth by (unfold rrep; cbn [length]; lia).
      destruct (Z.ltb_spec 0 s); [|lia]. cbn [Nat.add]. reflexivity.
  - f_equal. apply nth_ext with (d := 0) (d' := 0).
    + rewrite !mapi_length, shr_loop_length. unfold ZERO, rrep. rewrite repeat_length. cbn [length]. lia.
    + intros i Hi. rewrite !mapi_length in Hi. unfold ZERO in Hi. rewrite repeat_length in Hi.
      rewrite nth_mapi by (unfold ZERO; rewrite repeat_length; lia).
      rewrite shr_loop_nth by (unfold rrep; cbn [length]; lia).
      destruct (Z.ltb_spec 0 s); [lia|]. cbn [Nat.add]. reflexivity.
Qed.

(* ================= structural facts about the model (no arithmetic of Algorithm D is needed) ================= *)

Lemma dsub_ok a b : b <= a -> dsub a b = Done (a - b).
Proof. intros H. unfold dsub. destruct (Z.ltb_spec a b); [lia | reflexivity]. Qed.

Lemma shl_internal_wf w n v s : 0 < w -> wf w n v -> 0 <= s < w -> wf w n (shl_internal w v s).
Proof.
  intros Hw [Hl Hf] Hs. unfold shl_internal. cbv zeta. rewrite Z.div_small, Z.mod_small by lia.
  change (Z.to_nat 0) with 0%nat. rewrite Nat.sub_0_r, firstn_all. cbn [repeat app].
  destruct (Z.eqb_spec s 0) as [->|Hne].
  - rewrite firstn_all. split; assumption.
  - destruct (shl_bits_spec w s ltac:(lia) v 0 Hf) as (co & Hco & Hwf & Hval).
    { pose proof (pow2_pos s ltac:(lia)). lia. }
    rewrite firstn_all' by (destruct Hwf; lia). rewrite Hl in Hwf. exact Hwf.
Qed.

Lemma leading_zeros_range w x : 0 < x < B w -> 0 <= u_leading_zeros w x < w.
Proof. intros Hx. destruct (Div.bitlen_bounds w x Hx) as [H1 _]. unfold u_leading_zeros. lia. Qed.

Lemma div_rem_wide_digits w lo hi rhs : 0 < w ->
  digit_ok w (fst (div_rem_wide w lo hi rhs)) /\ digit_ok w (snd (div_rem_wide w lo hi rhs)).
Proof.
  intros Hw. unfold div_rem_wide, digit_ok. cbn [fst snd]. pose proof (B_pos w ltac:(lia)).
  split; apply Z.mod_pos_bound; lia.
Qed.

Lemma tuple_gt_pos w q v2 u2 r : 0 < w -> 0 <= q -> 0 <= r -> 0 <= u2 ->
  Div.tuple_gt (widening_mul w q v2) (u2, r) = true -> 1 <= q.
Proof.
  intros Hw Hq Hr Hu2 H. destruct (Z.eq_dec q 0) as [->|]; [|lia]. exfalso.
  pose proof (B_pos w ltac:(lia)) as HB.
  unfold widening_mul, Div.tuple_gt in H. cbv zeta in H. cbn [fst snd] in H.
  rewrite Z.mul_0_l, Z.mod_0_l, Z.div_0_l in H by lia.
  destruct (Z.ltb_spec r 0); [lia|]. destruct (Z.ltb_spec u2 0); [lia|].
  rewrite andb_false_r in H. discriminate.
Qed.

Lemma mul_by_zero w : forall v, Div.mul_digit_loop w v 0 0 = repeat 0 (S (length v)).
Proof.
  induction v as [|d r IH]; [reflexivity|]. cbn [Div.mul_digit_loop length repeat].
  unfold carrying_mul. rewrite Z.mul_0_r. cbn [Z.add]. rewrite Zmod_0_l, Zdiv_0_l, Zmod_0_l.
  rewrite IH. reflexivity.
Qed.

Lemma sub_zeros w : 0 <= w -> forall a k, Forall (digit_ok w) a -> (length a <= k)%nat ->
  sub_loop w a (repeat 0 k) false = (a, false).
Proof.
  intros Hw. induction a as [|x a IH]; intros k Fa Hk; [reflexivity|].
  destruct k as [|k]; [cbn [length] in Hk; lia|]. inversion Fa as [|? ? Hx Fa']; subst.
  cbn [repeat sub_loop]. unfold borrowing_sub, u_ovf_sub. rewrite Z.sub_0_r.
  unfold digit_ok in Hx. rewrite Z.mod_small by lia.
  destruct (Z.ltb_spec x 0); [lia|]. rewrite IH by (cbn [length] in Hk; auto; lia). reflexivity.
Qed.

Lemma sub_zero_no_borrow w N U v j n : 0 <= w -> Forall (digit_ok w) U -> length v = N -> (n <= N)%nat ->
  snd (Div.Remainder_sub w U (Div.Mul_new w v 0) j n) = false.
Proof.
  intros Hw FU Hv Hn. unfold Div.Remainder_sub, Div.Mul_new. rewrite mul_by_zero, firstn_repeat.
  rewrite sub_zeros; [reflexivity | exact Hw | apply Forall_firstn, Forall_skipn; exact FU |].
  rewrite firstn_length. lia.
Qed.

Lemma sub_loop_digits w : 0 < w -> forall a b c, Forall (digit_ok w) (fst (sub_loop w a b c)).
Proof.
  intros Hw. pose proof (B_pos w ltac:(lia)) as HB.
  induction a as [|x a IH]; intros b c; [constructor|]. destruct b as [|y b]; [constructor|].
  cbn [sub_loop]. destruct (borrowing_sub w x y c) as [s c1] eqn:E.
  specialize (IH b c1). destruct (sub_loop w a b c1) as [r cf]. cbn [fst] in *. constructor; [|exact IH].
  unfold borrowing_sub, u_ovf_sub in E. destruct c; inversion E; unfold digit_ok; apply Z.mod_pos_bound; lia.
Qed.

Lemma add_loop_digits w : 0 < w -> forall a b c, Forall (digit_ok w) (fst (add_loop w a b c)).
Proof.
  intros Hw. pose proof (B_pos w ltac:(lia)) as HB.
  induction a as [|x a IH]; intros b c; [constructor|]. destruct b as [|y b]; [constructor|].
  cbn [add_loop]. destruct (carrying_add w x y c) as [s c1] eqn:E.
  specialize (IH b c1). destruct (add_loop w a b c1) as [r cf]. cbn [fst] in *. constructor; [|exact IH].
  unfold carrying_add, u_ovf_add in E. destruct c; inversion E; unfold digit_ok; apply Z.mod_pos_bound; lia.
Qed.

Lemma Remainder_sub_digits w U M j n : 0 < w -> Forall (digit_ok w) U ->
  Forall (digit_ok w) (fst (Div.Remainder_sub w U M j n)).
Proof.
  intros Hw FU. unfold Div.Remainder_sub.
  pose proof (sub_loop_digits w Hw (firstn (S n) (skipn j U)) (firstn (S n) M) false) as H.
  destruct (sub_loop w (firstn (S n) (skipn j U)) (firstn (S n) M) false) as [win' bo]. cbn [fst] in *.
  apply Forall_app. split; [apply Forall_firstn; exact FU|].
  apply Forall_app. split; [exact H | apply Forall_skipn; exact FU].
Qed.

Lemma set_nth_digits w k U : 0 < w -> Forall (digit_ok w) U ->
  Forall (digit_ok w) (set_nth k (fun d => (d + 1) mod B w) U).
Proof.
  intros Hw FU. pose proof (B_pos w ltac:(lia)) as HB. unfold set_nth.
  apply Forall_app. split; [apply Forall_firstn; exact FU|].
  pose proof (Forall_skipn _ k U FU) as Hs. destruct (skipn k U) as [|d r]; [constructor|].
  inversion Hs; subst. constructor; [unfold digit_ok; apply Z.mod_pos_bound; lia | assumption].
Qed.

Lemma Remainder_add_digits w U v j n : 0 < w -> Forall (digit_ok w) U ->
  Forall (digit_ok w) (Div.Remainder_add w U v j n).
Proof.
  intros Hw FU. unfold Div.Remainder_add.
  pose proof (add_loop_digits w Hw (firstn n (skipn j U)) (firstn n v) false) as H.
  destruct (add_loop w (firstn n (skipn j U)) (firstn n v) false) as [win' co]. cbn [fst] in *.
  assert (F : Forall (digit_ok w) (firstn j U ++ win' ++ skipn (j + n) U)).
  { apply Forall_app. split; [apply Forall_firstn; exact FU|].
    apply Forall_app. split; [exact H | apply Forall_skipn; exact FU]. }
  destruct co; [apply set_nth_digits; assumption | exact F].
Qed.

Lemma upd_as_list_set j x q : (j < length q)%nat -> Div.upd j x q = list_set q j x.
Proof. intros Hj. unfold Div.upd. apply set_nth_as_list_set. exact Hj. Qed.

(* ================= the whole function =================
   Preconditions: only what makes the code total — the divisor's digit n-1 is its (non-zero) top digit as far as the
   normalising shift is concerned, 2 <= n, and the dividend has at least n significant digits (m = ldi + 1 - n does not
   underflow).  No arithmetic fact about Algorithm D (u >= v, the quotient-estimate bounds, ...) is needed: the two
   `q_hat -= 1` of D3 cannot underflow because tuple_gt(0 * v, _) is false, the one of D5 because subtracting 0 * v does
   not borrow.  The dispatcher's call (divgen_basecase_callsite below) satisfies them. *)
Theorem divgen_basecase w N a v n : 0 < w -> wf w N a -> wf w N v -> (2 <= n)%nat ->
  (n <= Div.last_digit_index a + 1)%nat -> Div.nth_d (n - 1) v <> 0 ->
  forall fuel, (S N <= fuel)%nat ->
  DivGen.basecase_div_rem w (Z.of_nat N) fuel a v (Z.of_nat n) = Done (Div.basecase_div_rem w a v n).
Proof.
  intros Hw Ha Hv Hn2 Hldi Htop fuel Hf.
  assert (Hw0 : 0 <= w) by lia. pose proof (B_pos w Hw0) as HB.
  destruct (Div.ldi_bounds w N a Hw0 Ha) as (_ & HkN & _).
  assert (HN : (Div.last_digit_index a < N)%nat).
  { destruct HkN as [H|H]; [exact H|]. subst N. destruct Ha as [Ha _]. destruct a; [|discriminate].
    cbn [Div.last_digit_index] in Hldi. lia. }
  clear HkN. pose proof Ha as [Hla Fa]. pose proof Hv as [Hlv Fv].
  unfold DivGen.basecase_div_rem, Div.basecase_div_rem. cbv zeta. rewrite Hla, Nat2Z.id.
  set (ldi := Div.last_digit_index a) in *.
  rewrite usub_ok by lia. cbn [bind].
  replace (Z.of_nat ldi + 1 - Z.of_nat n) with (Z.of_nat (ldi + 1 - n)) by lia.
  set (m := (ldi + 1 - n)%nat).
  rewrite usub_ok by lia. cbn [bind]. replace (Z.of_nat n - 1) with (Z.of_nat (n - 1)) by lia.
  rewrite arr_get_nat by lia. cbn [bind]. unfold Div.nth_d in *.
  assert (Hbt : 0 < nth (n - 1) v 0 < B w).
  { pose proof (Forall_nth_Z _ v (n - 1) Fv ltac:(lia)) as H. unfold digit_ok in H. lia. }
  pose proof (leading_zeros_range w _ Hbt) as Hs.
  set (s := u_leading_zeros w (nth (n - 1) v 0)) in *.
  pose proof (shl_internal_wf w N v s Hw Hv Hs) as [Hlv' Fv'].
  set (v' := shl_internal w v s) in *.
  rewrite arr_get_nat by lia. cbn [bind].
  rewrite usub_ok by lia. cbn [bind]. replace (Z.of_nat n - 2) with (Z.of_nat (n - 2)) by lia.
  rewrite arr_get_nat by lia. cbn [bind].
  set (v1 := nth (n - 1) v' 0). set (v2 := nth (n - 2) v' 0).
  assert (Hv1 : digit_ok w v1) by (apply Forall_nth_Z; [assumption | lia]).
  assert (Hv2 : digit_ok w v2) by (apply Forall_nth_Z; [assumption | lia]).
  destruct (gen_Remainder_new w N fuel a s Ha ltac:(lia) Hs) as (u0 & Hu0 & Hr0).
  rewrite Hu0. cbn [bind].
  destruct (Remainder_new_spec w N a s Hw ltac:(lia) Ha Hs) as [[Hlu0 Fu0] _]. rewrite <- Hr0 in *.
  replace (Z.of_nat m + 1) with (Z.of_nat (m + 1)) by lia.
  apply while_count_bind with (n := (m + 1)%nat) (k := 0%nat)
    (Inv := fun c '(q, j, u) =>
       j = Z.of_nat (m + 1 - c) /\ (c <= m + 1)%nat /\ length q = N /\ length (snd u) = N /\
       Forall (digit_ok w) (rrep u) /\
       Div.knuth_loop w (m + 1) n v' v1 v2 (rrep u0) (ZERO N) = Div.knuth_loop w (m + 1 - c) n v' v1 v2 (rrep u) q).
  - (* one iteration *)
    intros c [[q j] u] (-> & Hc & Hlq & Hlu & Fu & Heq) Hcond.
    rewrite gtb_of_nat_0 in Hcond. apply Nat.ltb_lt in Hcond. split; [lia|].
    destruct (m + 1 - c)%nat as [|j'] eqn:Ej; [lia|].
    rewrite usub_ok by lia. cbn [bind]. replace (Z.of_nat (S j') - 1) with (Z.of_nat j') by lia.
    rewrite <- !Nat2Z.inj_add. rewrite gen_Remainder_digit by lia. cbn [bind].
    cbn [Div.knuth_loop] in Heq. cbv zeta in Heq.
    set (qh := Div.knuth_qhat w (rrep u) j' n v1 v2) in *.
    (* the q_hat block *)
    match goal with |- context [bind (if nth (j' + n) (rrep u) 0 <? v1 then ?X else ?Y) _] =>
      assert (Hblock : (if nth (j' + n) (rrep u) 0 <? v1 then X else Y) = Done qh /\ digit_ok w qh) end.
    { unfold qh, Div.knuth_qhat, Div.nth_d. cbv zeta.
      assert (D0 : digit_ok w (nth (j' + n) (rrep u) 0)) by (apply Forall_nth_Z; [assumption | unfold rrep; cbn [length]; lia]).
      assert (D1 : digit_ok w (nth (j' + n - 1) (rrep u) 0)) by (apply Forall_nth_Z; [assumption | unfold rrep; cbn [length]; lia]).
      assert (D2 : digit_ok w (nth (j' + n - 2) (rrep u) 0)) by (apply Forall_nth_Z; [assumption | unfold rrep; cbn [length]; lia]).
      destruct (Z.ltb_spec (nth (j' + n) (rrep u) 0) v1) as [Hlt|Hge].
      2:{ split; [reflexivity|]. unfold digit_ok, u_max. lia. }
      rewrite usub_ok by lia. cbn [bind]. replace (Z.of_nat (j' + n) - 1) with (Z.of_nat (j' + n - 1)) by lia.
      rewrite gen_Remainder_digit by lia. cbn [bind].
      rewrite tie_div_rem_wide by assumption.
      pose proof (div_rem_wide_digits w (nth (j' + n - 1) (rrep u) 0) (nth (j' + n) (rrep u) 0) v1 Hw) as [Dq Dr].
      destruct (div_rem_wide w (nth (j' + n - 1) (rrep u) 0) (nth (j' + n) (rrep u) 0) v1) as [q0 r0].
      cbn [fst snd] in Dq, Dr.
      rewrite usub_ok by lia. cbn [bind]. replace (Z.of_nat (j' + n) - 2) with (Z.of_nat (j' + n - 2)) by lia.
      rewrite gen_Remainder_digit by lia. cbn [bind].
      rewrite tie_widening_mul by assumption. rewrite gen_tuple_gt. cbn [bind].
      unfold digit_ok in Dq, Dr, D2, Hv1.
      destruct (Div.tuple_gt (widening_mul w q0 v2) (nth (j' + n - 2) (rrep u) 0, r0)) eqn:T1.
      2:{ split; [reflexivity | exact Dq]. }
      pose proof (tuple_gt_pos w q0 v2 (nth (j' + n - 2) (rrep u) 0) r0 Hw ltac:(lia) ltac:(lia) ltac:(lia) T1) as Hq1.
      rewrite dsub_ok by lia. cbn [bind]. unfold dg_checked_add.
      destruct (Z.ltb_spec (r0 + v1) (B w)) as [Hr|Hr].
      2:{ split; [reflexivity | unfold digit_ok; lia]. }
      rewrite tie_widening_mul by (try assumption; unfold digit_ok; lia). rewrite gen_tuple_gt. cbn [bind].
      destruct (Div.tuple_gt (widening_mul w (q0 - 1) v2) (nth (j' + n - 2) (rrep u) 0, r0 + v1)) eqn:T2.
      2:{ split; [reflexivity | unfold digit_ok; lia]. }
      pose proof (tuple_gt_pos w (q0 - 1) v2 (nth (j' + n - 2) (rrep u) 0) (r0 + v1) Hw ltac:(lia) ltac:(lia) ltac:(lia) T2) as Hq2.
      rewrite dsub_ok by lia. cbn [bind]. split; [reflexivity | unfold digit_ok; lia]. }
    destruct Hblock as [Hblock Dqh]. rewrite Hblock. cbn [bind]. clear Hblock.
    (* D4: multiply and subtract *)
    destruct (gen_Mul_new w N fuel v' qh Hw (conj Hlv' Fv') Dqh ltac:(lia)) as (mm & Hmm & Hlmm & Hrmm).
    rewrite Hmm. cbn [bind].
    destruct (gen_Remainder_sub w N fuel u mm j' n Hlu Hlmm ltac:(lia) ltac:(lia)) as (u1 & Hs1 & Hlu1 & Hr1).
    rewrite Hs1. cbn [bind]. rewrite Hrmm in *.
    pose proof (Remainder_sub_digits w (rrep u) (Div.Mul_new w v' qh) j' n Hw Fu) as Fu1.
    pose proof (sub_zero_no_borrow w N (rrep u) v' j' n Hw0 Fu Hlv' ltac:(lia)) as Hnb.
    destruct (Div.Remainder_sub w (rrep u) (Div.Mul_new w v' qh) j' n) as [u1m ov] eqn:Es.
    cbn [fst snd] in Hr1, Fu1 |- *. subst u1m.
    destruct ov.
    + (* D5/D6: borrow, add back *)
      assert (Hq1 : 1 <= qh).
      { destruct (Z.eq_dec qh 0) as [E0|]; [|unfold digit_ok in Dqh; lia].
        rewrite E0 in Es. rewrite Es in Hnb. discriminate. }
      rewrite dsub_ok by lia. cbn [bind].
      destruct (gen_Remainder_add w N fuel u1 v' j' n Hlu1 Hlv' ltac:(lia) ltac:(lia)) as (u2 & Ha2 & Hlu2 & Hr2).
      rewrite Ha2. cbn [bind]. rewrite arr_set_nat by lia. cbn [bind].
      split; [f_equal; lia|]. split; [lia|]. split; [rewrite list_set_length; exact Hlq|]. split; [exact Hlu2|].
      split; [rewrite Hr2; apply Remainder_add_digits; assumption|].
      rewrite Heq. replace (m + 1 - S c)%nat with j' by lia. rewrite Hr2, upd_as_list_set by lia. reflexivity.
    + rewrite arr_set_nat by lia. cbn [bind].
      split; [f_equal; lia|]. split; [lia|]. split; [rewrite list_set_length; exact Hlq|]. split; [exact Hlu1|].
      split; [exact Fu1|].
      rewrite Heq. replace (m + 1 - S c)%nat with j' by lia. rewrite upd_as_list_set by lia. reflexivity.
  - (* after the loop: D8 unnormalise *)
    intros c [[q j] u] (-> & Hc & Hlq & Hlu & Fu & Heq) Hcond.
    rewrite gtb_of_nat_0 in Hcond. apply Nat.ltb_ge in Hcond.
    replace (m + 1 - c)%nat with 0%nat in Heq by lia. cbn [Div.knuth_loop] in Heq.
    rewrite gen_Remainder_shr by (try assumption; lia). cbn [bind]. rewrite Heq. reflexivity.
  - split; [f_equal; lia|]. split; [lia|]. split; [apply repeat_length|]. split; [|split; [exact Fu0|]].
    + unfold rrep in Hlu0. cbn [length] in Hlu0. lia.
    + rewrite Nat.sub_0_r. reflexivity.
  - lia.
Qed.

(* the externally tied callee unchecked_shl_internal is called within the range its tie (Proofs/LoopsTieC05.v:
   loops_unchecked_shl_internal, 0 <= rhs < BITS) is stated for *)
Lemma divgen_shl_amount_in_range w N v n : 0 < w -> wf w N v -> (1 <= n <= N)%nat -> Div.nth_d (n - 1) v <> 0 ->
  0 <= u_leading_zeros w (Div.nth_d (n - 1) v) < bits w N.
Proof.
  intros Hw [Hlv Fv] Hn Htop. unfold Div.nth_d in *.
  assert (Hbt : 0 < nth (n - 1) v 0 < B w).
  { pose proof (Forall_nth_Z _ v (n - 1) Fv ltac:(lia)) as H. unfold digit_ok in H. lia. }
  pose proof (leading_zeros_range w _ Hbt) as Hs. unfold bits. nia.
Qed.

(* the call site in div_rem_unchecked (src/buint/checked.rs):
     match self.cmp(&rhs) { .. Ordering::Greater => { let ldi = rhs.last_digit_index();
                                                       if ldi == 0 { .. } else { self.basecase_div_rem(rhs, ldi + 1) } } } *)
Theorem divgen_basecase_callsite w N a b : 0 < w -> wf w N a -> wf w N b ->
  ucmp a b = Gt -> Div.last_digit_index b <> 0%nat ->
  forall fuel, (S N <= fuel)%nat ->
  DivGen.basecase_div_rem w (Z.of_nat N) fuel a b (Z.of_nat (Div.last_digit_index b + 1)) =
  Done (Div.basecase_div_rem w a b (Div.last_digit_index b + 1)).
Proof.
  intros Hw Ha Hb Hcmp Hk0 fuel Hf. assert (Hw0 : 0 <= w) by lia.
  destruct (Div.ldi_shape w N b Hw0 Hb) as [(E & _) | (blo & btop & Eb & Hlblo & Hbnz & Hk)]; [contradiction|].
  apply divgen_basecase; try assumption; try lia.
  - rewrite (ucmp_spec w N a b Hw0 Ha Hb) in Hcmp. apply Z.compare_gt_iff in Hcmp.
    destruct (Div.ldi_bounds w N a Hw0 Ha) as (HAlt & _ & _).
    destruct (Div.ldi_bounds w N b Hw0 Hb) as (_ & _ & [Hb0|Hble]); [contradiction|].
    destruct (Nat.le_gt_cases (Div.last_digit_index b + 1) (Div.last_digit_index a + 1)) as [Hle|Hgt]; [exact Hle|].
    exfalso. pose proof (Mod_le w (S (Div.last_digit_index a)) (Div.last_digit_index b) Hw0 ltac:(lia)). lia.
  - replace (Div.last_digit_index b + 1 - 1)%nat with (Div.last_digit_index b) by lia.
    rewrite Eb at 2. rewrite nth_d_app by (symmetry; exact Hlblo). exact Hbnz.
Qed.

(* Proofs/DivGenTie.v — Knuth's Algorithm D: src/buint/div.rs basecase_div_rem with its nested items (struct Remainder,
   struct Mul, their methods, fn tuple_gt).
   Tie between the code GENERATED from /repo/src/buint/div.rs on every run (Generated/DivGen.v, by tools/rs2v_div.py) and
   the hand-written model Model/Div.v that the C03 theorems are about: for every digit width w > 0, every digit count N
   and all operands the dispatcher div_rem_unchecked can pass, with an iteration budget of at least N + 1 the generated
   function neither panics (no index out of bounds, no usize / digit subtraction below zero, no digit shift by >= the
   width) nor runs out of budget, and returns exactly what Div.basecase_div_rem returns.

   Representation: the generated code keeps `Remainder { first, rest }` as the pair (first, rest) and `Mul { last, rest }`
   as the pair (last, rest); the hand model keeps both as ONE digit list.  The relation is
       rrep (first, rest) = first :: rest            mrep (last, rest) = rest ++ [last].                              *)
From Bnum Require Import Base Prim.
From Bnum.Model Require Import DigitPrims LoopPrims Digit Core Shift AddSub Mul Imp ImpDiv.
From Bnum.Model Require Div.
From Bnum.Generated Require Import DigitGen DivGen.
From Bnum.Proofs Require Import DigitTie ImpLemmas DivAux DivKnuth.

Definition rrep (u : Z * list Z) : list Z := fst u :: snd u.
Definition mrep (m : Z * list Z) : list Z := snd m ++ [fst m].

(* ================= generic: a loop that updates an array in place, threading a value ================= *)

(* iteration k reads digit (start + k) of the array, writes fst (f k digit c) there and continues with snd (f k digit c) *)
Fixpoint run_ip {C : Type} (start : nat) (f : nat -> Z -> C -> Z * C) (k d : nat) (out : list Z) (c : C) : list Z * C :=
  match d with
  | O => (out, c)
  | S d' => let x := f k (nth (start + k) out 0) c in
            run_ip start f (S k) d' (list_set out (start + k) (fst x)) (snd x)
  end.

(* the same as a recursion over the window being rewritten *)
Fixpoint scan_at {C : Type} (f : nat -> Z -> C -> Z * C) (k : nat) (l : list Z) (d : nat) (c : C) {struct d} : list Z * C :=
  match d, l with
  | S d', x :: r => let y := f k x c in let r' := scan_at f (S k) r d' (snd y) in (fst y :: fst r', snd r')
  | _, _ => ([], c)
  end.

Lemma run_ip_eq {C : Type} start (f : nat -> Z -> C -> Z * C) : forall d k out c, (start + k + d <= length out)%nat ->
  run_ip start f k d out c =
  (firstn (start + k) out ++ fst (scan_at f k (skipn (start + k) out) d c) ++ skipn (start + k + d) out,
   snd (scan_at f k (skipn (start + k) out) d c)).
Proof.
  induction d as [|d IH]; intros k out c Hlen.
  - cbn [run_ip scan_at fst snd app]. rewrite Nat.add_0_r, firstn_skipn. reflexivity.
  - cbn [run_ip]. cbv zeta. rewrite IH by (rewrite list_set_length; lia).
    rewrite (skipn_nth_cons out (start + k)) by lia. cbn [scan_at]. cbv zeta. cbn [fst snd].
    replace (start + S k)%nat with (S (start + k)) by lia.
    rewrite firstn_S_list_set by lia. rewrite skipn_S_list_set. rewrite skipn_list_set_gt by lia.
    rewrite <- app_assoc. cbn [app].
    replace (S (start + k) + d)%nat with (start + k + S d)%nat by lia. reflexivity.
Qed.

Lemma scan_at_length {C : Type} (f : nat -> Z -> C -> Z * C) : forall d k l c, (d <= length l)%nat ->
  length (fst (scan_at f k l d c)) = d.
Proof.
  induction d as [|d IH]; intros k l c Hl; [reflexivity|].
  destruct l as [|x r]; [cbn [length] in Hl; lia|]. cbn [scan_at]. cbv zeta. cbn [fst length].
  rewrite IH by (cbn [length] in Hl; lia). reflexivity.
Qed.

(* reading the second operand from a fixed list b: the hand models' zipped scans *)
Lemma scan_at_scan2 {C : Type} (g : Z -> Z -> C -> Z * C) (b : list Z) : forall d k l c,
  (d <= length l)%nat -> (k + d <= length b)%nat ->
  scan_at (fun k x c => g x (nth k b 0) c) k l d c = scan2 g (firstn d l) (firstn d (skipn k b)) c.
Proof.
  induction d as [|d IH]; intros k l c Hl Hb; [destruct l; reflexivity|].
  destruct l as [|x r]; [cbn [length] in Hl; lia|].
  rewrite (skipn_nth_cons b k) by lia. cbn [scan_at firstn scan2]. cbv zeta.
  rewrite IH by (cbn [length] in Hl; lia). reflexivity.
Qed.

Lemma loop_inplace {St R C : Type} (arr : St -> list Z) (cv : St -> C) (ctr : St -> Z) (P : St -> Prop)
      (start cnt : nat) (f : nat -> Z -> C -> Z * C) (cond : St -> bool) (body : St -> res (flow St R)) :
  (forall s k, P s -> ctr s = Z.of_nat k -> (k < cnt)%nat -> cond s = true) ->
  (forall s, P s -> ctr s = Z.of_nat cnt -> cond s = false) ->
  (forall s k, P s -> ctr s = Z.of_nat k -> (k < cnt)%nat ->
     exists s', body s = Done (Continue s') /\ P s' /\ ctr s' = Z.of_nat (S k) /\
       arr s' = list_set (arr s) (start + k) (fst (f k (nth (start + k) (arr s) 0) (cv s))) /\
       cv s' = snd (f k (nth (start + k) (arr s) 0) (cv s))) ->
  forall d k s fuel, (k + d = cnt)%nat -> P s -> ctr s = Z.of_nat k -> (d <= fuel)%nat ->
  exists s', while_loop fuel cond body s = Done (Exited s') /\ P s' /\ ctr s' = Z.of_nat cnt /\
    (arr s', cv s') = run_ip start f k d (arr s) (cv s).
Proof.
  intros Hct Hcf Hb. induction d as [|d IH]; intros k s fuel Hk HP Hctr Hf.
  - assert (k = cnt) by lia. subst k. exists s.
    split; [destruct fuel; cbn [while_loop]; rewrite (Hcf s HP Hctr); reflexivity|].
    split; [exact HP|]. split; [exact Hctr | reflexivity].
  - destruct fuel as [|fuel]; [lia|]. cbn [while_loop]. rewrite (Hct s k HP Hctr) by lia.
    destruct (Hb s k HP Hctr ltac:(lia)) as (s1 & Hbody & HP1 & Hctr1 & Harr1 & Hcv1). rewrite Hbody.
    destruct (IH (S k) s1 fuel ltac:(lia) HP1 Hctr1 ltac:(lia)) as (s' & Hw & HP' & Hctr' & Hres).
    exists s'. split; [exact Hw|]. split; [exact HP'|]. split; [exact Hctr'|].
    rewrite Hres, Harr1, Hcv1. reflexivity.
Qed.

(* the loops of Remainder::shr: out[j] := h j out[j] for j = 0 .. n-1, state (out, j) *)
Fixpoint mapi (h : nat -> Z -> Z) (j : nat) (l : list Z) : list Z :=
  match l with [] => [] | x :: r => h j x :: mapi h (S j) r end.

Lemma mapi_length h : forall l j, length (mapi h j l) = length l.
Proof. induction l as [|x r IH]; intros j; cbn [mapi length]; [reflexivity | rewrite IH; reflexivity]. Qed.

Lemma nth_mapi h : forall l j i, (i < length l)%nat -> nth i (mapi h j l) 0 = h (j + i)%nat (nth i l 0).
Proof.
  induction l as [|x r IH]; intros j i Hi; cbn [length] in Hi; [lia|].
  destruct i; cbn [mapi nth]; [rewrite Nat.add_0_r; reflexivity|].
  rewrite IH by lia. f_equal. lia.
Qed.

Lemma loop_mapi {R : Type} (h : nat -> Z -> Z) (n : nat)
      (cond : list Z * Z -> bool) (body : list Z * Z -> res (flow (list Z * Z) R)) :
  (forall out i, cond (out, i) = (i <? Z.of_nat n)) ->
  (forall out j, (j < n)%nat -> length out = n ->
     body (out, Z.of_nat j) = Done (Continue (list_set out j (h j (nth j out 0)), Z.of_nat j + 1))) ->
  forall fuel k out, length out = n -> (k <= n)%nat -> (n - k <= fuel)%nat ->
  while_loop fuel cond body (out, Z.of_nat k) = Done (Exited (firstn k out ++ mapi h k (skipn k out), Z.of_nat n)).
Proof.
  intros Hc Hb fuel. induction fuel as [|fuel IH]; intros k out Hlen Hk Hf.
  - assert (k = n) by lia. subst k. cbn [while_loop]. rewrite Hc, Z.ltb_irrefl.
    rewrite skipn_all2 by lia. cbn [mapi]. rewrite app_nil_r, firstn_all2 by lia. reflexivity.
  - destruct (Nat.eq_dec k n) as [->|Hne].
    + cbn [while_loop]. rewrite Hc, Z.ltb_irrefl.
      rewrite skipn_all2 by lia. cbn [mapi]. rewrite app_nil_r, firstn_all2 by lia. reflexivity.
    + cbn [while_loop]. rewrite Hc. rewrite ltb_of_nat. destruct (Nat.ltb_spec k n) as [_|]; [|lia].
      rewrite Hb by lia. replace (Z.of_nat k + 1) with (Z.of_nat (S k)) by lia.
      rewrite IH by (try rewrite list_set_length; lia).
      rewrite firstn_S_list_set by lia. rewrite skipn_S_list_set.
      rewrite (skipn_nth_cons out k) by lia. cbn [mapi]. rewrite <- app_assoc. reflexivity.
Qed.

(* ================= list facts ================= *)

Lemma set_nth_as_list_set f l k : (k < length l)%nat -> set_nth k f l = list_set l k (f (nth k l 0)).
Proof.
  intros Hk. unfold set_nth. rewrite list_set_split by exact Hk.
  rewrite (skipn_nth_cons l k) by exact Hk. reflexivity.
Qed.

Lemma dg_add_loop_scan2 w a b c : add_loop w a b c = scan2 (carrying_add w) a b c.
Proof.
  revert b c. induction a as [|x a IH]; intros b c; [reflexivity|].
  destruct b as [|y b]; [reflexivity|]. cbn [add_loop scan2].
  destruct (carrying_add w x y c) as [s c1]. cbn [fst snd]. rewrite IH.
  destruct (scan2 (carrying_add w) a b c1). reflexivity.
Qed.

Lemma dg_sub_loop_scan2 w a b c : sub_loop w a b c = scan2 (borrowing_sub w) a b c.
Proof.
  revert b c. induction a as [|x a IH]; intros b c; [reflexivity|].
  destruct b as [|y b]; [reflexivity|]. cbn [sub_loop scan2].
  destruct (borrowing_sub w x y c) as [s c1]. cbn [fst snd]. rewrite IH.
  destruct (scan2 (borrowing_sub w) a b c1). reflexivity.
Qed.

(* writing digit p of a Remainder: `if p == 0 { self.first = x } else { self.rest[p - 1] = x }` *)
Lemma rrep_set_first (u : Z * list Z) x : rrep (x, snd u) = list_set (rrep u) 0 x.
Proof. reflexivity. Qed.

Lemma rrep_set_rest (u : Z * list Z) p x : rrep (fst u, list_set (snd u) p x) = list_set (rrep u) (S p) x.
Proof. reflexivity. Qed.

(* ================= the helpers, one by one ================= *)

(* Remainder::digit *)
Lemma gen_Remainder_digit w M fuel (u : Z * list Z) p : (p <= length (snd u))%nat ->
  DivGen.Remainder_digit w M fuel u (Z.of_nat p) = Done (nth p (rrep u) 0).
Proof.
  intros Hp. unfold DivGen.Remainder_digit, rrep. destruct p as [|p].
  - reflexivity.
  - destruct (Z.eqb_spec (Z.of_nat (S p)) 0) as [E|_]; [lia|].
    rewrite usub_ok by lia. cbn [bind]. replace (Z.of_nat (S p) - 1) with (Z.of_nat p) by lia.
    rewrite arr_get_nat by lia. reflexivity.
Qed.

(* Mul::digit *)
Lemma gen_Mul_digit w N fuel (m : Z * list Z) p : length (snd m) = N -> (p <= N)%nat ->
  DivGen.Mul_digit w (Z.of_nat N) fuel m (Z.of_nat p) = Done (nth p (mrep m) 0).
Proof.
  intros Hm Hp. unfold DivGen.Mul_digit, mrep.
  destruct (Z.eqb_spec (Z.of_nat p) (Z.of_nat N)) as [E|E].
  - apply Nat2Z.inj in E. subst p. rewrite app_nth2 by lia. rewrite Hm, Nat.sub_diag. reflexivity.
  - rewrite arr_get_nat by lia. cbn [bind]. rewrite app_nth1 by lia. reflexivity.
Qed.

(* fn tuple_gt *)
Lemma gen_tuple_gt w N fuel a b : DivGen.tuple_gt w N fuel a b = Done (Div.tuple_gt a b).
Proof. unfold DivGen.tuple_gt, Div.tuple_gt. rewrite !Z.gtb_ltb. reflexivity. Qed.

(* Remainder::new *)
Lemma gen_Remainder_new w n fuel a s : wf w n a -> (0 < n)%nat -> 0 <= s < w ->
  exists u, DivGen.Remainder_new w (Z.of_nat n) fuel a s = Done u /\ rrep u = Div.Remainder_new w a s.
Proof.
  intros [Ha _] Hn Hs. unfold DivGen.Remainder_new, Div.Remainder_new.
  change 0 with (Z.of_nat 0) at 1. rewrite arr_get_nat by lia. cbn [bind].
  rewrite dshl_ok by lia. cbn [bind]. rewrite usub_ok by lia. cbn [bind].
  eexists. split; [reflexivity|]. unfold rrep. cbn [fst snd]. destruct a; reflexivity.
Qed.
(* Mul::new *)
Lemma scan_at_mul w v q : forall d k l c, (d <= length l)%nat -> (k + d = length v)%nat ->
  fst (scan_at (fun k (_ : Z) c => carrying_mul w (nth k v 0) q c 0) k l d c) ++
  [snd (scan_at (fun k (_ : Z) c => carrying_mul w (nth k v 0) q c 0) k l d c)] = Div.mul_digit_loop w (skipn k v) q c.
Proof.
  induction d as [|d IH]; intros k l c Hl Hk.
  - rewrite skipn_all2 by lia. reflexivity.
  - destruct l as [|x r]; [cbn [length] in Hl; lia|].
    rewrite (skipn_nth_cons v k) by lia. cbn [scan_at Div.mul_digit_loop]. cbv zeta.
    destruct (carrying_mul w (nth k v 0) q c 0) as [p c1]. cbn [fst snd app].
    rewrite IH by (cbn [length] in Hl; lia). reflexivity.
Qed.

Lemma gen_Mul_new w n fuel v q : 0 < w -> wf w n v -> digit_ok w q -> (n <= fuel)%nat ->
  exists m, DivGen.Mul_new w (Z.of_nat n) fuel v q = Done m /\ length (snd m) = n /\ mrep m = Div.Mul_new w v q.
Proof.
  intros Hw [Hv Fv] Hq Hf. unfold DivGen.Mul_new. rewrite Nat2Z.id.
  match goal with |- context [while_loop fuel ?cnd ?bdy ?st0] =>
    edestruct (loop_inplace (fun s : Z * Z * list Z => snd s) (fun s => fst (fst s)) (fun s => snd (fst s))
                (fun s => length (snd s) = n /\ digit_ok w (fst (fst s))) 0 n
                (fun k (_ : Z) c => carrying_mul w (nth k v 0) q c 0) cnd bdy) with (d := n) (k := 0%nat) (s := st0) (fuel := fuel)
      as (s' & Hw' & HP' & Hctr' & Hres) end.
  - intros [[carry i] rest] k _ Hi Hk. cbn [fst snd] in Hi. subst i. apply Z.ltb_lt. lia.
  - intros [[carry i] rest] _ Hi. cbn [fst snd] in Hi. subst i. apply Z.ltb_irrefl.
  - intros [[carry i] rest] k [Hl Hc] Hi Hk. cbn [fst snd] in Hl, Hc, Hi. subst i. cbv beta iota. cbn [fst snd Nat.add].
    rewrite arr_get_nat by lia. cbn [bind].
    rewrite tie_carrying_mul; try assumption;
      [| apply Forall_nth_Z; [assumption | lia] | apply digit_ok_0; lia].
    pose proof (carrying_mul_spec w (nth k v 0) q carry ltac:(lia)
                  ltac:(apply Forall_nth_Z; [assumption | lia]) Hq Hc) as Hs.
    destruct (carrying_mul w (nth k v 0) q carry 0) as [p c1]. destruct Hs as (_ & Hc1 & _).
    rewrite arr_set_nat by lia. cbn [bind].
    eexists. split; [reflexivity|]. cbn [fst snd Nat.add].
    split; [split; [rewrite list_set_length; exact Hl | exact Hc1]|].
    split; [lia|]. split; reflexivity.
  - lia.
  - cbn [fst snd]. split; [apply repeat_length | apply digit_ok_0; lia].
  - reflexivity.
  - lia.
  - rewrite Hw'. cbn [bind]. destruct s' as [[carry' i'] rest']. cbn [fst snd] in *.
    eexists. split; [reflexivity|]. cbn [fst snd]. split; [apply HP'|].
    rewrite run_ip_eq in Hres by (rewrite repeat_length; lia).
    cbn [Nat.add firstn skipn app] in Hres.
    rewrite (skipn_all2 (n := n)) in Hres by (rewrite repeat_length; lia). rewrite app_nil_r in Hres.
    inversion Hres as [[Hr Hc]]. unfold mrep. cbn [fst snd].
    rewrite (scan_at_mul w v q n 0 (repeat 0 n) 0) by (try rewrite repeat_length; lia).
    reflexivity.
Qed.
(* Remainder::sub *)
Lemma gen_Remainder_sub w N fuel (u mul : Z * list Z) start range :
  length (snd u) = N -> length (snd mul) = N -> (start + range <= N)%nat -> (S range <= fuel)%nat ->
  exists u', DivGen.Remainder_sub w (Z.of_nat N) fuel u mul (Z.of_nat start) (Z.of_nat range) =
             Done (u', snd (Div.Remainder_sub w (rrep u) (mrep mul) start range)) /\
    length (snd u') = N /\ rrep u' = fst (Div.Remainder_sub w (rrep u) (mrep mul) start range).
Proof.
  intros Hu Hm Hsr Hf. unfold DivGen.Remainder_sub.
  match goal with |- context [while_loop fuel ?cnd ?bdy ?st0] =>
    edestruct (loop_inplace (fun s : bool * Z * (Z * list Z) => rrep (snd s)) (fun s => fst (fst s)) (fun s => snd (fst s))
                (fun s => length (snd (snd s)) = N) start (S range)
                (fun k x c => borrowing_sub w x (nth k (mrep mul) 0) c) cnd bdy)
      with (d := S range) (k := 0%nat) (s := st0) (fuel := fuel)
      as (s' & Hw' & HP' & Hctr' & Hres) end.
  - intros [[b i] self] k _ Hi Hk. cbn [fst snd] in Hi. subst i. apply Z.leb_le. lia.
  - intros [[b i] self] _ Hi. cbn [fst snd] in Hi. subst i. apply Z.leb_gt. lia.
  - intros [[b i] self] k Hl Hi Hk. cbn [fst snd] in Hl, Hi. subst i. cbv beta iota. cbn [fst snd].
    rewrite <- Nat2Z.inj_add. rewrite gen_Remainder_digit by lia. cbn [bind].
    rewrite (gen_Mul_digit w N fuel mul k Hm) by lia. cbn [bind].
    rewrite tie_borrowing_sub. replace (k + start)%nat with (start + k)%nat by lia.
    destruct (borrowing_sub w (nth (start + k) (rrep self) 0) (nth k (mrep mul) 0) b) as [sb ov].
    cbn [fst snd].
    destruct (Nat.eq_dec (start + k) 0) as [E0|E0].
    + assert (start = 0%nat) by lia. assert (k = 0%nat) by lia. subst start k.
      change (Z.of_nat 0) with 0. cbn [Z.eqb andb Nat.add].
      eexists. split; [reflexivity|]. cbn [fst snd]. split; [exact Hl|]. split; [reflexivity|].
      split; reflexivity.
    + assert (Ef : (Z.of_nat start =? 0) && (Z.of_nat k =? 0) = false).
      { destruct (Z.eqb_spec (Z.of_nat start) 0); destruct (Z.eqb_spec (Z.of_nat k) 0); try reflexivity; lia. }
      rewrite Ef. rewrite usub_ok by lia. cbn [bind].
      replace (Z.of_nat (start + k) - 1) with (Z.of_nat (start + k - 1)) by lia.
      rewrite arr_set_nat by lia. cbn [bind].
      eexists. split; [reflexivity|]. cbn [fst snd]. split; [rewrite list_set_length; exact Hl|].
      split; [lia|]. split; [|reflexivity].
      rewrite rrep_set_rest. f_equal. lia.
  - lia.
  - exact Hu.
  - reflexivity.
  - lia.
  - rewrite Hw'. cbn [bind]. destruct s' as [[b' i'] u']. cbn [fst snd] in *.
    rewrite run_ip_eq in Hres by (unfold rrep; cbn [length]; lia).
    rewrite scan_at_scan2 in Hres
      by (try rewrite skipn_length; unfold rrep, mrep; try rewrite app_length; cbn [length]; lia).
    rewrite Nat.add_0_r in Hres. cbn [skipn] in Hres.
    unfold Div.Remainder_sub. rewrite dg_sub_loop_scan2.
    replace (start + 0 + S range)%nat with (start + S range)%nat in Hres by lia.
    destruct (scan2 (borrowing_sub w) (firstn (S range) (skipn start (rrep u))) (firstn (S range) (mrep mul)) false)
      as [win' bo]. cbn [fst snd] in Hres |- *. inversion Hres as [[Hr Hb]].
    exists u'. split; [reflexivity|]. split; [exact HP' | reflexivity].
Qed.
(* Remainder::add *)
Lemma gen_Remainder_add w N fuel (u : Z * list Z) v start range :
  length (snd u) = N -> length v = N -> (start + range <= N)%nat -> (range <= fuel)%nat ->
  exists u', DivGen.Remainder_add w (Z.of_nat N) fuel u v (Z.of_nat start) (Z.of_nat range) = Done u' /\
    length (snd u') = N /\ rrep u' = Div.Remainder_add w (rrep u) v start range.
Proof.
  intros Hu Hv Hsr Hf. unfold DivGen.Remainder_add.
  match goal with |- context [while_loop fuel ?cnd ?bdy ?st0] =>
    edestruct (loop_inplace (fun s : bool * Z * (Z * list Z) => rrep (snd s)) (fun s => fst (fst s)) (fun s => snd (fst s))
                (fun s => length (snd (snd s)) = N) start range
                (fun k x c => carrying_add w x (nth k v 0) c) cnd bdy)
      with (d := range) (k := 0%nat) (s := st0) (fuel := fuel)
      as (s' & Hw' & HP' & Hctr' & Hres) end.
  - intros [[b i] self] k _ Hi Hk. cbn [fst snd] in Hi. subst i. apply Z.ltb_lt. lia.
  - intros [[b i] self] _ Hi. cbn [fst snd] in Hi. subst i. apply Z.ltb_irrefl.
  - intros [[b i] self] k Hl Hi Hk. cbn [fst snd] in Hl, Hi. subst i. cbv beta iota. cbn [fst snd].
    rewrite <- Nat2Z.inj_add. rewrite gen_Remainder_digit by lia. cbn [bind].
    rewrite arr_get_nat by lia. cbn [bind].
    rewrite tie_carrying_add. replace (k + start)%nat with (start + k)%nat by lia.
    destruct (carrying_add w (nth (start + k) (rrep self) 0) (nth k v 0) b) as [sb ov].
    cbn [fst snd].
    destruct (Nat.eq_dec (start + k) 0) as [E0|E0].
    + assert (start = 0%nat) by lia. assert (k = 0%nat) by lia. subst start k.
      change (Z.of_nat 0) with 0. cbn [Z.eqb andb Nat.add].
      eexists. split; [reflexivity|]. cbn [fst snd]. split; [exact Hl|]. split; [reflexivity|].
      split; reflexivity.
    + assert (Ef : (Z.of_nat start =? 0) && (Z.of_nat k =? 0) = false).
      { destruct (Z.eqb_spec (Z.of_nat start) 0); destruct (Z.eqb_spec (Z.of_nat k) 0); try reflexivity; lia. }
      rewrite Ef. rewrite usub_ok by lia. cbn [bind].
      replace (Z.of_nat (start + k) - 1) with (Z.of_nat (start + k - 1)) by lia.
      rewrite arr_set_nat by lia. cbn [bind].
      eexists. split; [reflexivity|]. cbn [fst snd]. split; [rewrite list_set_length; exact Hl|].
      split; [lia|]. split; [|reflexivity].
      rewrite rrep_set_rest. f_equal. lia.
  - lia.
  - exact Hu.
  - reflexivity.
  - lia.
  - rewrite Hw'. cbn [bind]. destruct s' as [[b' i'] u']. cbn [fst snd] in *.
    rewrite run_ip_eq in Hres by (unfold rrep; cbn [length]; lia).
    rewrite scan_at_scan2 in Hres
      by (try rewrite skipn_length; unfold rrep; cbn [length]; lia).
    rewrite Nat.add_0_r in Hres. cbn [skipn] in Hres.
    unfold Div.Remainder_add. rewrite dg_add_loop_scan2.
    replace (start + 0 + range)%nat with (start + range)%nat in Hres by lia.
    destruct (scan2 (carrying_add w) (firstn range (skipn start (rrep u))) (firstn range v) false)
      as [win' co]. cbn [fst snd] in Hres. cbv beta iota zeta. inversion Hres as [[Hr Hb]]. clear Hres.
    assert (Hlu' : length (rrep u') = S N) by (unfold rrep; cbn [length]; lia).
    destruct co.
    + rewrite set_nth_as_list_set by lia.
      destruct (Nat.eq_dec (start + range) 0) as [E0|E0].
      * assert (start = 0%nat) by lia. assert (range = 0%nat) by lia. subst start range.
        change (Z.of_nat 0) with 0. cbn [Z.eqb andb Nat.add].
        eexists. split; [reflexivity|]. split; [exact HP'|]. reflexivity.
      * assert (Ef : (Z.of_nat start =? 0) && (Z.of_nat range =? 0) = false).
        { destruct (Z.eqb_spec (Z.of_nat start) 0); destruct (Z.eqb_spec (Z.of_nat range) 0); try reflexivity; lia. }
        rewrite Ef. rewrite <- Nat2Z.inj_add. rewrite usub_ok by lia. cbn [bind].
        replace (Z.of_nat (range + start) - 1) with (Z.of_nat (start + range - 1)) by lia.
        rewrite arr_get_nat by lia. cbn [bind]. rewrite arr_set_nat by lia. cbn [bind].
        eexists. split; [reflexivity|]. cbn [fst snd]. split; [rewrite list_set_length; exact HP'|].
        rewrite rrep_set_rest. replace (S (start + range - 1)) with (start + range)%nat by lia.
        f_equal. unfold rrep, dg_add. replace (start + range)%nat with (S (start + range - 1)) at 2 by lia.
        reflexivity.
    + exists u'. split; [reflexivity|]. split; [exact HP' | reflexivity].
Qed.

(* Remainder::shr *)
Lemma shr_loop_length w s : forall U, length (Div.Remainder_shr_loop w s U) = (length U - 1)%nat.
Proof.
  induction U as [|d r IH]; [reflexivity|]. destruct r as [|d' r']; [reflexivity|].
  cbn [Div.Remainder_shr_loop length] in *. rewrite IH. lia.
Qed.

Lemma shr_loop_nth w s : forall U i, (S i < length U)%nat ->
  nth i (Div.Remainder_shr_loop w s U) 0 =
  (if 0 <? s then u_or (u_shr (nth i U 0) s) (u_shl w (nth (S i) U 0) (w - s)) else u_shr (nth i U 0) s).
Proof.
  induction U as [|d r IH]; intros i Hi; [cbn [length] in Hi; lia|].
  destruct r as [|d' r']; [cbn [length] in Hi; lia|].
  destruct i as [|i].
  - reflexivity.
  - cbn [Div.Remainder_shr_loop nth] in *. apply IH. cbn [length] in *. lia.
Qed.

Lemma gen_Remainder_shr w N fuel (u : Z * list Z) s : length (snd u) = N -> 0 <= s < w -> (N <= fuel)%nat ->
  DivGen.Remainder_shr w (Z.of_nat N) fuel u s = Done (Div.Remainder_shr w (rrep u) s).
Proof.
  intros Hu Hs Hf. unfold DivGen.Remainder_shr. rewrite Nat2Z.id.
  match goal with |- context [while_loop fuel ?cnd ?bdy (?o, 0)] =>
    pose proof (loop_mapi (fun j (_ : Z) => u_shr (nth j (rrep u) 0) s) N cnd bdy ltac:(intros; reflexivity)) as L1 end.
  match type of L1 with ?A -> _ => assert (B1' : A) end.
  { intros out j Hj Hl. cbv beta iota. rewrite gen_Remainder_digit by lia. cbn [bind].
    rewrite dshr_ok by lia. cbn [bind]. rewrite arr_set_nat by lia. reflexivity. }
  specialize (L1 B1' fuel 0%nat (ZERO N) ltac:(apply repeat_length) ltac:(lia) ltac:(lia)).
  change (Z.of_nat 0) with 0 in L1. cbn [firstn skipn app] in L1. rewrite L1. clear L1 B1'. cbn [bind].
  rewrite Z.gtb_ltb. unfold Div.Remainder_shr.
  destruct (Z.ltb_spec 0 s) as [Hpos|Hz].
  - match goal with |- context [while_loop fuel ?cnd ?bdy (?o, 0)] =>
      pose proof (loop_mapi (fun j x => dg_or w x (u_shl w (nth j (snd u) 0) (w - s))) N cnd bdy ltac:(intros; reflexivity)) as L2 end.
    match type of L2 with ?A -> _ => assert (B2 : A) end.
    { intros out j Hj Hl. cbv beta iota. rewrite arr_get_nat by lia. cbn [bind].
      rewrite usub_ok by lia. cbn [bind]. rewrite dshl_ok by lia. cbn [bind].
      rewrite arr_get_nat by lia. cbn [bind]. rewrite arr_set_nat by lia. reflexivity. }
    specialize (L2 B2 fuel 0%nat (mapi (fun j (_ : Z) => u_shr (nth j (rrep u) 0) s) 0 (ZERO N))
                  ltac:(rewrite mapi_length; apply repeat_length) ltac:(lia) ltac:(lia)).
    change (Z.of_nat 0) with 0 in L2. cbn [firstn skipn app] in L2. rewrite L2. clear L2 B2. cbn [bind]. f_equal.
    apply nth_ext with (d := 0) (d' := 0).
    + rewrite !mapi_length, shr_loop_length. unfold ZERO, rrep. rewrite repeat_length. cbn [length]. lia.
    + intros i Hi. rewrite !mapi_length in Hi. unfold ZERO in Hi. rewrite repeat_length in Hi.
      rewrite nth_mapi by (rewrite mapi_length; unfold ZERO; rewrite repeat_length; lia).
      rewrite nth_mapi by (unfold ZERO; rewrite repeat_length; lia).
      rewrite shr_loop_nth by (unfold rrep; cbn [length]; lia).
      destruct (Z.ltb_spec 0 s); [|lia]. cbn [Nat.add]. reflexivity.
  - f_equal. apply nth_ext with (d := 0) (d' := 0).
    + rewrite !mapi_length, shr_loop_length. unfold ZERO, rrep. rewrite repeat_length. cbn [length]. lia.
    + intros i Hi. rewrite !mapi_length in Hi. unfold ZERO in Hi. rewrite repeat_length in Hi.
      rewrite nth_mapi by (unfold ZERO; rewrite repeat_length; lia).
      rewrite shr_loop_nth by (unfold rrep; cbn [length]; lia).
      destruct (Z.ltb_spec 0 s); [lia|]. cbn [Nat.add]. reflexivity.
Qed.

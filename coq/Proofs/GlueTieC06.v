(* Proofs/GlueTieC06.v — glue functions of C06 (bits, bit, the bit counts of BInt, swap_bytes / reverse_bits of BInt, is_power_of_two, (checked_)next_power_of_two, is_zero / is_one, cast_signed / cast_unsigned, BInt bitand / bitor / bitxor / not): generated (Generated/Glue.v) = hand-written model.
   One file per property so that an edit of one family's source breaks only that property's check.
   Boiler-plate written by tools/mk_gluetie.py from its SPEC table; the statements are fixed by committing this file. *)
From Bnum Require Import Base Prim.
From Bnum.Model Require Import Digit Core Shift AddSub Mul Div Bits Pow.
From Bnum.Generated Require Import Glue.
From Bnum.Proofs Require Import GlueTieCommon.

Lemma glue_U_bits : forall w a, Glue.U_bits w a = bits_of w a.
Proof. glue_tac. Qed.
Lemma glue_U_next_power_of_two : forall dbg w a, Glue.U_next_power_of_two dbg w a = U_next_power_of_two dbg w a.
Proof. glue_tac. Qed.
Lemma glue_U_cast_signed : forall w a, Glue.U_cast_signed w a = a.
Proof. glue_tac. Qed.
Lemma glue_I_count_ones : forall w a, Glue.I_count_ones w a = count_ones a.
Proof. glue_tac. Qed.
Lemma glue_I_count_zeros : forall w a, Glue.I_count_zeros w a = count_zeros w a.
Proof. glue_tac. Qed.
Lemma glue_I_leading_zeros : forall w a, Glue.I_leading_zeros w a = leading_zeros w a.
Proof. glue_tac. Qed.
Lemma glue_I_trailing_zeros : forall w a, Glue.I_trailing_zeros w a = trailing_zeros w a.
Proof. glue_tac. Qed.
Lemma glue_I_leading_ones : forall w a, Glue.I_leading_ones w a = leading_ones w a.
Proof. glue_tac. Qed.
Lemma glue_I_trailing_ones : forall w a, Glue.I_trailing_ones w a = trailing_ones w a.
Proof. glue_tac. Qed.
Lemma glue_I_cast_unsigned : forall w a, Glue.I_cast_unsigned w a = a.
Proof. glue_tac. Qed.
Lemma glue_I_swap_bytes : forall w a, Glue.I_swap_bytes w a = swap_bytes w a.
Proof. glue_tac. Qed.
Lemma glue_I_reverse_bits : forall w a, Glue.I_reverse_bits w a = reverse_bits w a.
Proof. glue_tac. Qed.
Lemma glue_I_is_power_of_two : forall w a, Glue.I_is_power_of_two w a = I_is_power_of_two w a.
Proof. glue_tac. Qed.
Lemma glue_I_bits : forall w a, Glue.I_bits w a = bits_of w a.
Proof. glue_tac. Qed.
Lemma glue_I_bit : forall w a k, Glue.I_bit w a k = bit w a k.
Proof. glue_tac. Qed.
Lemma glue_I_is_zero : forall w a, Glue.I_is_zero w a = is_zero a.
Proof. glue_tac. Qed.
Lemma glue_I_is_one : forall w a, Glue.I_is_one w a = is_one a.
Proof. glue_tac. Qed.
Lemma glue_U_checked_next_power_of_two : forall w a, Glue.U_checked_next_power_of_two w a = U_checked_next_power_of_two w a.
Proof. glue_tac. Qed.
Lemma glue_I_bitand : forall w a b, Glue.I_bitand w a b = bitand a b.
Proof. glue_tac. Qed.
Lemma glue_I_bitor : forall w a b, Glue.I_bitor w a b = bitor a b.
Proof. glue_tac. Qed.
Lemma glue_I_bitxor : forall w a b, Glue.I_bitxor w a b = bitxor a b.
Proof. glue_tac. Qed.
Lemma glue_I_not : forall w a, Glue.I_not w a = bitnot w a.
Proof. glue_tac. Qed.

Definition glue_bits_statement : Prop :=
  (forall w a, Glue.U_bits w a = bits_of w a) /\
  (forall dbg w a, Glue.U_next_power_of_two dbg w a = U_next_power_of_two dbg w a) /\
  (forall w a, Glue.U_cast_signed w a = a) /\
  (forall w a, Glue.I_count_ones w a = count_ones a) /\
  (forall w a, Glue.I_count_zeros w a = count_zeros w a) /\
  (forall w a, Glue.I_leading_zeros w a = leading_zeros w a) /\
  (forall w a, Glue.I_trailing_zeros w a = trailing_zeros w a) /\
  (forall w a, Glue.I_leading_ones w a = leading_ones w a) /\
  (forall w a, Glue.I_trailing_ones w a = trailing_ones w a) /\
  (forall w a, Glue.I_cast_unsigned w a = a) /\
  (forall w a, Glue.I_swap_bytes w a = swap_bytes w a) /\
  (forall w a, Glue.I_reverse_bits w a = reverse_bits w a) /\
  (forall w a, Glue.I_is_power_of_two w a = I_is_power_of_two w a) /\
  (forall w a, Glue.I_bits w a = bits_of w a) /\
  (forall w a k, Glue.I_bit w a k = bit w a k) /\
  (forall w a, Glue.I_is_zero w a = is_zero a) /\
  (forall w a, Glue.I_is_one w a = is_one a) /\
  (forall w a, Glue.U_checked_next_power_of_two w a = U_checked_next_power_of_two w a) /\
  (forall w a b, Glue.I_bitand w a b = bitand a b) /\
  (forall w a b, Glue.I_bitor w a b = bitor a b) /\
  (forall w a b, Glue.I_bitxor w a b = bitxor a b) /\
  (forall w a, Glue.I_not w a = bitnot w a).
Theorem glue_bits_matches_model : glue_bits_statement.
Proof.
  unfold glue_bits_statement. repeat apply conj.
  - exact glue_U_bits.
  - exact glue_U_next_power_of_two.
  - exact glue_U_cast_signed.
  - exact glue_I_count_ones.
  - exact glue_I_count_zeros.
  - exact glue_I_leading_zeros.
  - exact glue_I_trailing_zeros.
  - exact glue_I_leading_ones.
  - exact glue_I_trailing_ones.
  - exact glue_I_cast_unsigned.
  - exact glue_I_swap_bytes.
  - exact glue_I_reverse_bits.
  - exact glue_I_is_power_of_two.
  - exact glue_I_bits.
  - exact glue_I_bit.
  - exact glue_I_is_zero.
  - exact glue_I_is_one.
  - exact glue_U_checked_next_power_of_two.
  - exact glue_I_bitand.
  - exact glue_I_bitor.
  - exact glue_I_bitxor.
  - exact glue_I_not.
Qed.

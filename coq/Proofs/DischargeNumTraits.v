(* Proofs/DischargeNumTraits.v — the premises of the C18 development (Proofs/NumTraitsDeps.v) discharged
   by the theorems of the owners of the other models: Proofs/Cmp.v (C07), Proofs/Shift.v (C05),
   Proofs/AddSub.v + Panics.v (C01), Proofs/Mul.v (C02), Proofs/Div.v / DivDigit.v / DivFinal.v (C03),
   Proofs/Bits.v (C06), Proofs/Pow.v + Discharge.v (C08).  Names are qualified (NumTraitsDeps.x_spec):
   ParseDeps / RadixOutDeps / RandomDeps / PowDeps define premises with the same short names and
   different statements. *)
From Bnum Require Import Base Prim.
From Bnum.Model Require Import Digit Core Shift AddSub Mul Div Bits Pow.
From Bnum.Proofs Require Cmp Shift AddSubLemmas AddSub Panics Mul DivSpec DivDigit Div SignedAux DivSigned
  DivFinal BitsLemmas Bits PowDeps Pow Discharge DischargeParse DischargeRadix NumTraitsDeps.

(* ---------- value-level bridges ---------- *)

Lemma inS_of_range M x : - (M / 2) <= x < M / 2 -> inS M x = true.
Proof. intros H. apply inS_true. exact H. Qed.

Lemma odd_2q1 q : Z.odd (2 * q + 1) = true.
Proof. rewrite Z.add_comm, Z.odd_add_mul_2. reflexivity. Qed.

(* the boolean guard of the signed-division premises = the Prop guard of DivSigned *)
Lemma div_guard_true w n a b :
  (sval w b =? 0) || ((sval w a =? - (Mod w n / 2)) && (sval w b =? -1)) = true ->
  sval w b = 0 \/ DivSigned.min_neg_one w n a b.
Proof.
  intros H. apply orb_true_iff in H. destruct H as [H|H].
  - left. apply Z.eqb_eq. exact H.
  - right. apply andb_true_iff in H. destruct H as [H1 H2]. split; apply Z.eqb_eq; assumption.
Qed.

Lemma div_guard_false w n a b :
  (sval w b =? 0) || ((sval w a =? - (Mod w n / 2)) && (sval w b =? -1)) = false ->
  sval w b <> 0 /\ ~ DivSigned.min_neg_one w n a b.
Proof.
  intros H. apply orb_false_iff in H. destruct H as [H1 H2]. apply Z.eqb_neq in H1. split; [exact H1|].
  intros [Ha Hb]. apply andb_false_iff in H2. destruct H2 as [H2|H2]; apply Z.eqb_neq in H2; contradiction.
Qed.

(* ---------- Core ---------- *)

Lemma ucmp_spec_holds : NumTraitsDeps.ucmp_spec.
Proof. intros w n a b Hw Ha Hb. apply (Cmp.ucmp_ok w n); [lia | assumption | assumption]. Qed.

Lemma icmp_spec_holds : NumTraitsDeps.icmp_spec.
Proof. intros w n a b Hw Hn Ha Hb. exact (Cmp.icmp_ok w n a b Hw Hn Ha Hb). Qed.

Lemma is_negative_spec_holds : NumTraitsDeps.is_negative_spec.
Proof. intros w n a Hw Hn Ha. exact (Cmp.is_negative_ok w n a Hw Hn Ha). Qed.

Lemma is_positive_spec_holds : NumTraitsDeps.is_positive_spec.
Proof. intros w n a Hw Hn Ha. exact (Cmp.is_positive_ok w n a Hw Hn Ha). Qed.

(* ---------- Shift ---------- *)

Lemma shr_internal_spec_holds : NumTraitsDeps.shr_internal_spec.
Proof. intros w n a s Hw Ha Hs. exact (Shift.shr_internal_ok w n a s Hw Ha Hs). Qed.

Lemma shl_internal_spec_holds : NumTraitsDeps.shl_internal_spec.
Proof. intros w n a s Hw Ha Hs. exact (Shift.shl_internal_ok w n a s Hw Ha Hs). Qed.

(* ---------- AddSub ---------- *)

Lemma U_add_spec_holds : NumTraitsDeps.U_add_spec.
Proof.
  intros dbg w n a b Hw Ha Hb Hfit.
  destruct (Panics.U_add_panics dbg w n a b Hw Ha Hb) as (_ & _ & H). exact (H Hfit).
Qed.

Lemma U_sub_spec_holds : NumTraitsDeps.U_sub_spec.
Proof.
  intros dbg w n a b Hw Ha Hb Hfit.
  destruct (Panics.U_sub_panics dbg w n a b Hw Ha Hb) as (_ & _ & H). exact (H Hfit).
Qed.

Lemma I_add_spec_holds : NumTraitsDeps.I_add_spec.
Proof.
  intros dbg w n a b Hw Hn Ha Hb Hfit.
  destruct (Panics.I_add_panics dbg w n a b Hw Hn Ha Hb) as (_ & _ & H). exact (H (inS_of_range _ _ Hfit)).
Qed.

Lemma I_sub_spec_holds : NumTraitsDeps.I_sub_spec.
Proof.
  intros dbg w n a b Hw Hn Ha Hb Hfit.
  destruct (Panics.I_sub_panics dbg w n a b Hw Hn Ha Hb) as (_ & _ & H). exact (H (inS_of_range _ _ Hfit)).
Qed.

Lemma I_neg_spec_holds : NumTraitsDeps.I_neg_spec.
Proof.
  intros dbg w n a Hw Hn Ha Hmin.
  pose proof (AddSub.I_overflowing_neg_ok w n a Hw Hn Ha) as Hok.
  pose proof (AddSub.I_neg_projections w a dbg) as Hp.
  destruct (I_overflowing_neg w a) as [r f]. destruct Hok as (Hr & Hv & Hf). destruct Hp as (_ & _ & _ & Hop).
  pose proof (sval_range w n a Hw Hn Ha) as Hrange.
  assert (Hin : - (Mod w n / 2) <= - sval w a < Mod w n / 2) by lia.
  rewrite (inS_of_range _ _ Hin) in Hf. cbn [negb] in Hf. subst f.
  exists r. split; [exact Hop|]. split; [exact Hr|].
  rewrite Hv. apply wrapS_id; [apply Mod_pos; lia | apply Mod_even; assumption | exact Hin].
Qed.

Lemma I_wrapping_neg_spec_holds : NumTraitsDeps.I_wrapping_neg_spec.
Proof. exact DischargeParse.I_wrapping_neg_spec_holds. Qed.

Lemma I_abs_spec_holds : NumTraitsDeps.I_abs_spec.
Proof.
  intros dbg w n a Hw Hn Ha Hmin.
  pose proof (AddSub.I_overflowing_abs_ok w n a Hw Hn Ha) as Hok.
  pose proof (AddSub.I_abs_projections w n a dbg Hw Hn Ha) as Hp.
  destruct (I_overflowing_abs w a) as [r f]. destruct Hok as (Hr & Hv & Hf). destruct Hp as (_ & _ & _ & Hop).
  pose proof (sval_range w n a Hw Hn Ha) as Hrange.
  assert (Hin : - (Mod w n / 2) <= Z.abs (sval w a) < Mod w n / 2) by lia.
  rewrite (inS_of_range _ _ Hin) in Hf. cbn [negb] in Hf. subst f.
  exists r. split; [exact Hop|]. split; [exact Hr|].
  rewrite Hv. apply wrapS_id; [apply Mod_pos; lia | apply Mod_even; assumption | exact Hin].
Qed.

Lemma I_unsigned_abs_spec_holds : NumTraitsDeps.I_unsigned_abs_spec.
Proof. intros w n a Hw Hn Ha. exact (AddSub.I_unsigned_abs_ok w n a Hw Hn Ha). Qed.

(* ---------- Mul ---------- *)

Lemma U_mul_spec_holds : NumTraitsDeps.U_mul_spec.
Proof.
  intros dbg w n a b Hw Ha Hb Hfit.
  pose proof (Mul.U_mul_ok dbg w n a b Hw Ha Hb) as H.
  pose proof (Mul.prod_nonneg w n a b Hw Ha Hb) as Hp.
  destruct (U_mul dbg w a b) as [r|].
  - destruct H as (Hr & Hv & _). exists r. split; [reflexivity|]. split; [exact Hr|].
    rewrite Hv. apply Z.mod_small. lia.
  - destruct H as (_ & H). lia.
Qed.

Lemma I_mul_spec_holds : NumTraitsDeps.I_mul_spec.
Proof.
  intros dbg w n a b Hw Hn Ha Hb Hfit.
  pose proof (Mul.I_mul_ok dbg w n a b Hw Hn Ha Hb) as H.
  destruct (I_mul dbg w a b) as [r|].
  - destruct H as (Hr & Hv & _). exists r. split; [reflexivity|]. split; [exact Hr|].
    rewrite Hv. apply wrapS_id; [apply Mod_pos; lia | apply Mod_even; assumption | exact Hfit].
  - destruct H as (_ & H). lia.
Qed.

(* ---------- Div ---------- *)

Lemma U_div_rem_unchecked_spec_holds : NumTraitsDeps.U_div_rem_unchecked_spec.
Proof.
  intros w n a b Hw Ha Hb Hnz.
  pose proof (Div.U_div_rem_unchecked_ok w Hw) as HS.
  destruct (HS n a b Ha Hb Hnz) as (Hq & Hr & _ & _).
  destruct (DivSpec.U_div_rem_spec_div w ltac:(lia) HS n a b Ha Hb Hnz) as (Hd & Hm).
  split; [exact Hq|]. split; [exact Hr|]. split; [exact Hd | exact Hm].
Qed.

Lemma div_rem_digit_spec_holds : NumTraitsDeps.div_rem_digit_spec.
Proof. exact DischargeRadix.div_digit_spec_holds. Qed.

Lemma I_div_spec_holds : NumTraitsDeps.I_div_spec.
Proof.
  intros dbg w n a b Hw Hn Ha Hb.
  destruct (DivFinal.I_div_ok_closed dbg w n a b Hw Hn Ha Hb) as (Hp & Hok).
  destruct ((sval w b =? 0) || ((sval w a =? - (Mod w n / 2)) && (sval w b =? -1))) eqn:E.
  - apply Hp. exact (div_guard_true w n a b E).
  - destruct (div_guard_false w n a b E) as (H1 & H2). exact (Hok H1 H2).
Qed.

Lemma I_rem_spec_holds : NumTraitsDeps.I_rem_spec.
Proof.
  intros dbg w n a b Hw Hn Ha Hb.
  destruct (DivFinal.I_rem_ok_closed dbg w n a b Hw Hn Ha Hb) as (Hp & Hok).
  destruct ((sval w b =? 0) || ((sval w a =? - (Mod w n / 2)) && (sval w b =? -1))) eqn:E.
  - apply Hp. exact (div_guard_true w n a b E).
  - destruct (div_guard_false w n a b E) as (H1 & H2). exact (Hok H1 H2).
Qed.

(* ---------- Bits ---------- *)

Lemma trailing_zeros_spec_holds : NumTraitsDeps.trailing_zeros_spec.
Proof.
  intros w n a Hw Ha Hnz.
  destruct (Bits.trailing_zeros_ok w n a Hw Ha) as (_ & H). destruct (H Hnz) as (Hr & Hm & Hb).
  split; [exact Hr|].
  destruct (DischargeParse.odd_multiple_of_pow2 _ _ (proj1 Hr) Hm Hb) as (q & Hq).
  exists (2 * q + 1). split; [rewrite Hq at 1; ring | apply odd_2q1].
Qed.

Lemma bits_of_spec_holds : NumTraitsDeps.bits_of_spec.
Proof.
  intros w n a Hw Ha Hpos.
  rewrite (Bits.bits_of_ok w n a Hw Ha).
  pose proof (uval_bounds w n a ltac:(lia) Ha) as Hb.
  destruct (BitsLemmas.bitlen_spec (uval w a) ltac:(lia)) as (H0 & Hlt & Hge).
  assert (Hbits : 0 <= bits w n) by (unfold bits; nia).
  pose proof (BitsLemmas.bitlen_le (uval w a) (bits w n) ltac:(lia) Hbits) as Hle.
  assert (HM : Mod w n = 2 ^ bits w n) by reflexivity.
  rewrite (BitsLemmas.bitlen_pos _ Hpos) in *.
  pose proof (Z.log2_nonneg (uval w a)).
  split; [split; [lia | apply Hle; lia]|]. split; [apply Hge; exact Hpos | exact Hlt].
Qed.

Lemma power_of_two_spec_holds : NumTraitsDeps.power_of_two_spec.
Proof.
  intros w n p Hw Hp. destruct (Bits.power_of_two_ok w n p Hw ltac:(lia)) as (H & _). apply H. lia.
Qed.

(* ---------- Pow ---------- *)

Lemma U_checked_pow_spec_holds : NumTraitsDeps.U_checked_pow_spec.
Proof.
  intros w n a e Hw Hn Ha He.
  pose proof (Pow.U_checked_pow_ok Discharge.mul_spec_holds w n a e Hw Hn Ha He) as H.
  destruct (Z.leb_spec (Mod w n) (uval w a ^ e)) as [Hge|Hlt].
  - rewrite H. exact Hge.
  - destruct H as (r & -> & Hr & Hv). split; [exact Hr|]. split; [exact Hv | exact Hlt].
Qed.

(* ---------- the records ---------- *)

Lemma deps_floor_holds : NumTraitsDeps.deps_floor.
Proof.
  exact (NumTraitsDeps.Build_deps_floor is_negative_spec_holds is_positive_spec_holds I_div_spec_holds
           I_rem_spec_holds I_add_spec_holds I_sub_spec_holds).
Qed.

Lemma deps_gcd_holds : NumTraitsDeps.deps_gcd.
Proof.
  exact (NumTraitsDeps.Build_deps_gcd ucmp_spec_holds U_sub_spec_holds trailing_zeros_spec_holds
           shr_internal_spec_holds shl_internal_spec_holds).
Qed.

Lemma deps_udiv_holds : NumTraitsDeps.deps_udiv.
Proof. exact (NumTraitsDeps.Build_deps_udiv U_div_rem_unchecked_spec_holds). Qed.

Lemma deps_signed_holds : NumTraitsDeps.deps_signed.
Proof.
  exact (NumTraitsDeps.Build_deps_signed is_negative_spec_holds I_unsigned_abs_spec_holds I_abs_spec_holds
           I_neg_spec_holds I_wrapping_neg_spec_holds).
Qed.

Lemma deps_roots_holds : NumTraitsDeps.deps_roots.
Proof.
  exact (NumTraitsDeps.Build_deps_roots ucmp_spec_holds U_div_rem_unchecked_spec_holds div_rem_digit_spec_holds
           U_add_spec_holds U_mul_spec_holds shr_internal_spec_holds shl_internal_spec_holds
           bits_of_spec_holds power_of_two_spec_holds U_checked_pow_spec_holds).
Qed.

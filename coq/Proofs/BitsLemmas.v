(* Proofs/BitsLemmas.v — specifications of the primitive (single word) bit
   operations of Prim.v, and value-level facts used by Proofs/Bits.v. *)
From Bnum Require Import Base Prim.
From Bnum.Proofs Require Import BitAddrC06.

(* ---------- powers of two ---------- *)

Lemma pow2_pos k : 0 <= k -> 0 < 2 ^ k.
Proof. intros; apply Z.pow_pos_nonneg; lia. Qed.

Lemma pow2_split a b : 0 <= a -> 0 <= b -> 2 ^ (a + b) = 2 ^ a * 2 ^ b.
Proof. intros; apply Z.pow_add_r; lia. Qed.

Lemma pow2_lt a b : 0 <= a < b -> 2 ^ a < 2 ^ b.
Proof. intros; apply Z.pow_lt_mono_r; lia. Qed.

Lemma pow2_le a b : 0 <= a <= b -> 2 ^ a <= 2 ^ b.
Proof. intros; apply Z.pow_le_mono_r; lia. Qed.

Lemma u_shl_1 w s : 0 <= s < w -> u_shl w 1 s = 2 ^ s.
Proof.
  intros Hs. unfold u_shl, B. rewrite Z.mul_1_l. apply Z.mod_small.
  split; [apply Z.lt_le_incl, pow2_pos; lia | apply pow2_lt; lia].
Qed.

Lemma u_shl_0 w s : 0 <= w -> u_shl w 0 s = 0.
Proof. intros Hw. unfold u_shl. rewrite Z.mul_0_l. apply Z.mod_0_l. pose proof (B_pos w Hw); lia. Qed.

Lemma digit_ok_pow2 w s : 0 <= s < w -> digit_ok w (2 ^ s).
Proof.
  intros Hs. unfold digit_ok, B. split; [apply Z.lt_le_incl, pow2_pos; lia | apply pow2_lt; lia].
Qed.

(* ---------- logic on digits ---------- *)

Lemma digit_ok_land w x y : 0 <= w -> digit_ok w x -> digit_ok w y -> digit_ok w (Z.land x y).
Proof.
  intros Hw Hx Hy. apply digit_ok_bits; auto. split.
  - apply Z.land_nonneg. left. unfold digit_ok in Hx; lia.
  - intros j Hj. rewrite Z.land_spec, (digit_testbit_high w x) by auto. reflexivity.
Qed.

Lemma digit_ok_lor w x y : 0 <= w -> digit_ok w x -> digit_ok w y -> digit_ok w (Z.lor x y).
Proof.
  intros Hw Hx Hy. apply digit_ok_bits; auto. split.
  - apply Z.lor_nonneg. unfold digit_ok in *; lia.
  - intros j Hj. rewrite Z.lor_spec, (digit_testbit_high w x), (digit_testbit_high w y) by auto.
    reflexivity.
Qed.

Lemma digit_ok_lxor w x y : 0 <= w -> digit_ok w x -> digit_ok w y -> digit_ok w (Z.lxor x y).
Proof.
  intros Hw Hx Hy. apply digit_ok_bits; auto. split.
  - apply Z.lxor_nonneg. unfold digit_ok in *; lia.
  - intros j Hj. rewrite Z.lxor_spec, (digit_testbit_high w x), (digit_testbit_high w y) by auto.
    reflexivity.
Qed.

Lemma digit_ok_not w x : 0 <= w -> digit_ok w x -> digit_ok w (u_not w x).
Proof. unfold digit_ok, u_not. intros; lia. Qed.

Lemma u_not_bits w x j : 0 <= w -> digit_ok w x -> 0 <= j < w ->
  Z.testbit (u_not w x) j = negb (Z.testbit x j).
Proof.
  intros Hw Hx Hj. unfold digit_ok, B in Hx. unfold u_not, B.
  assert (He : 2 ^ w - 1 - x = Z.lnot x mod 2 ^ w).
  { unfold Z.lnot. apply Z.mod_unique_pos with (q := -1); lia. }
  rewrite He, Z.mod_pow2_bits_low by lia. apply Z.lnot_spec. lia.
Qed.

Lemma land_pow2 d s : 0 <= s -> Z.land d (2 ^ s) = if Z.testbit d s then 2 ^ s else 0.
Proof.
  intros Hs. apply Z.bits_inj'. intros j Hj. rewrite Z.land_spec, Z.pow2_bits_eqb by lia.
  destruct (Z.eqb_spec s j) as [->|Hne].
  - destruct (Z.testbit d j); [rewrite Z.pow2_bits_true by lia | rewrite Z.testbit_0_l]; reflexivity.
  - rewrite andb_false_r. destruct (Z.testbit d s);
      [rewrite Z.pow2_bits_false by lia | rewrite Z.testbit_0_l]; reflexivity.
Qed.

Lemma land_pow2_eq0 d s : 0 <= s -> negb (Z.land d (2 ^ s) =? 0) = Z.testbit d s.
Proof.
  intros Hs. rewrite land_pow2 by lia. pose proof (pow2_pos s Hs).
  destruct (Z.testbit d s).
  - destruct (Z.eqb_spec (2 ^ s) 0); [lia | reflexivity].
  - reflexivity.
Qed.

(* ---------- population count ----------
   SPEC: popcount k x = number of positions i in [0, k) with bit i of x set. *)

Fixpoint popcount (k : nat) (x : Z) : Z :=
  match k with
  | O => 0
  | S k' => popcount k' x + Z.b2z (Z.testbit x (Z.of_nat k'))
  end.

Lemma popcount_range k x : 0 <= popcount k x <= Z.of_nat k.
Proof.
  induction k as [|k IH]; cbn [popcount]; [lia|].
  destruct (Z.testbit x (Z.of_nat k)); cbn [Z.b2z]; lia.
Qed.

Lemma popcount_ext k x y :
  (forall i, 0 <= i < Z.of_nat k -> Z.testbit x i = Z.testbit y i) -> popcount k x = popcount k y.
Proof.
  induction k as [|k IH]; intros H; cbn [popcount]; [reflexivity|].
  rewrite IH by (intros; apply H; lia). rewrite (H (Z.of_nat k)) by lia. reflexivity.
Qed.

Lemma popcount_add k1 k2 x :
  popcount (k1 + k2) x = popcount k1 x + popcount k2 (x / 2 ^ Z.of_nat k1).
Proof.
  induction k2 as [|k2 IH].
  - rewrite Nat.add_0_r. cbn [popcount]. lia.
  - replace (k1 + S k2)%nat with (S (k1 + k2)) by lia. cbn [popcount]. rewrite IH.
    rewrite Z.div_pow2_bits by lia. rewrite Nat2Z.inj_add.
    replace (Z.of_nat k1 + Z.of_nat k2) with (Z.of_nat k2 + Z.of_nat k1) by lia. lia.
Qed.

Lemma popcount_0 k : popcount k 0 = 0.
Proof. induction k as [|k IH]; cbn [popcount]; [reflexivity|]. rewrite IH, Z.testbit_0_l. reflexivity. Qed.

Lemma popcount_S_low k x : popcount (S k) x = Z.b2z (Z.odd x) + popcount k (x / 2).
Proof.
  change (S k) with (1 + k)%nat. rewrite popcount_add. cbn [popcount].
  change (Z.of_nat 0) with 0. rewrite Z.bit0_odd. change (Z.of_nat 1) with 1.
  rewrite Z.pow_1_r. lia.
Qed.

Lemma pos_xI_div2 p : Z.pos p~1 / 2 = Z.pos p.
Proof. rewrite Pos2Z.inj_xI. symmetry. apply Z.div_unique with 1; lia. Qed.
Lemma pos_xO_div2 p : Z.pos p~0 / 2 = Z.pos p.
Proof. rewrite Pos2Z.inj_xO. symmetry. apply Z.div_unique with 0; lia. Qed.

Lemma u_count_ones_step x : 0 <= x -> u_count_ones x = Z.b2z (Z.odd x) + u_count_ones (x / 2).
Proof.
  intros Hx. destruct x as [|p|p]; [reflexivity | | lia].
  destruct p as [q|q|].
  - rewrite pos_xI_div2. cbn [u_count_ones popcount_pos Z.odd Z.b2z]. reflexivity.
  - rewrite pos_xO_div2. cbn [u_count_ones popcount_pos Z.odd Z.b2z]. lia.
  - reflexivity.
Qed.

Lemma half_bound k x : 0 <= x < 2 ^ Z.of_nat (S k) -> 0 <= x / 2 < 2 ^ Z.of_nat k.
Proof.
  intros Hx. rewrite Nat2Z.inj_succ, Z.pow_succ_r in Hx by lia.
  split; [apply Z.div_pos; lia | apply Z.div_lt_upper_bound; lia].
Qed.

(* the primitive count_ones is the population count *)
Lemma u_count_ones_spec k x : 0 <= x < 2 ^ Z.of_nat k -> u_count_ones x = popcount k x.
Proof.
  revert x. induction k as [|k IH]; intros x Hx.
  - change (2 ^ Z.of_nat 0) with 1 in Hx. assert (x = 0) by lia. subst. reflexivity.
  - rewrite popcount_S_low, u_count_ones_step by lia. rewrite (IH (x / 2)) by (apply half_bound; auto).
    reflexivity.
Qed.

Lemma u_count_ones_nonneg x : 0 <= u_count_ones x.
Proof.
  destruct x as [|p|p]; cbn [u_count_ones]; try lia.
  induction p; cbn [popcount_pos]; lia.
Qed.

Lemma popcount_pos_ge1 p : 1 <= popcount_pos p.
Proof. induction p; cbn [popcount_pos]; lia. Qed.

Lemma u_count_ones_le w x : 0 <= w -> digit_ok w x -> u_count_ones x <= w.
Proof.
  intros Hw Hx. unfold digit_ok, B in Hx. rewrite <- (Z2Nat.id w Hw) in Hx.
  rewrite (u_count_ones_spec (Z.to_nat w)) by lia.
  pose proof (popcount_range (Z.to_nat w) x). lia.
Qed.

(* exactly one bit set <-> power of two *)
Lemma popcount_pos_1 p : popcount_pos p = 1 <-> exists k, 0 <= k /\ Z.pos p = 2 ^ k.
Proof.
  induction p as [q IH|q IH|].
  - cbn [popcount_pos]. pose proof (popcount_pos_ge1 q). split; [lia|].
    intros (k & Hk & He). destruct (Z.eq_dec k 0) as [->|Hk0].
    + change (2 ^ 0) with 1 in He. lia.
    + replace k with (Z.succ (k - 1)) in He by lia. rewrite Z.pow_succ_r in He by lia. lia.
  - cbn [popcount_pos]. rewrite IH. split.
    + intros (k & Hk & He). exists (Z.succ k). split; [lia|].
      rewrite Z.pow_succ_r by lia. lia.
    + intros (k & Hk & He). destruct (Z.eq_dec k 0) as [->|Hk0].
      * change (2 ^ 0) with 1 in He. lia.
      * exists (k - 1). split; [lia|].
        replace k with (Z.succ (k - 1)) in He by lia. rewrite Z.pow_succ_r in He by lia. lia.
  - cbn [popcount_pos]. split; [intros _; exists 0; split; [lia | reflexivity] | reflexivity].
Qed.

Lemma u_count_ones_1 x : u_count_ones x = 1 <-> exists k, 0 <= k /\ x = 2 ^ k.
Proof.
  destruct x as [|p|p]; cbn [u_count_ones].
  - split; [lia|]. intros (k & Hk & He). pose proof (pow2_pos k Hk). lia.
  - apply popcount_pos_1.
  - split; [lia|]. intros (k & Hk & He). pose proof (pow2_pos k Hk). lia.
Qed.

(* ---------- bit length ---------- *)

Lemma bitlen_0 : bitlen 0 = 0.
Proof. reflexivity. Qed.

Lemma bitlen_pos x : 0 < x -> bitlen x = Z.log2 x + 1.
Proof. intros Hx. unfold bitlen. destruct (Z.eqb_spec x 0); [lia | reflexivity]. Qed.

(* SPEC of bitlen: the least k with x < 2^k *)
Lemma bitlen_spec x : 0 <= x ->
  0 <= bitlen x /\ x < 2 ^ bitlen x /\ (0 < x -> 2 ^ (bitlen x - 1) <= x).
Proof.
  intros Hx. destruct (Z.eq_dec x 0) as [->|Hn].
  - rewrite bitlen_0. change (2 ^ 0) with 1. lia.
  - rewrite bitlen_pos by lia. pose proof (Z.log2_spec x ltac:(lia)) as [H1 H2].
    pose proof (Z.log2_nonneg x). replace (Z.log2 x + 1 - 1) with (Z.log2 x) by lia.
    replace (Z.log2 x + 1) with (Z.succ (Z.log2 x)) by lia. lia.
Qed.

Lemma bitlen_le x k : 0 <= x -> 0 <= k -> x < 2 ^ k -> bitlen x <= k.
Proof.
  intros Hx Hk Hlt. destruct (Z.eq_dec x 0) as [->|Hn]; [rewrite bitlen_0; lia|].
  rewrite bitlen_pos by lia. apply Z.log2_lt_pow2 in Hlt; lia.
Qed.

Lemma bitlen_top m l x : 0 <= m -> 0 <= l < 2 ^ m -> 0 < x ->
  bitlen (l + 2 ^ m * x) = m + bitlen x.
Proof.
  intros Hm Hl Hx. pose proof (pow2_pos m Hm) as HP.
  rewrite !bitlen_pos by nia.
  pose proof (Z.log2_spec x Hx) as [H1 H2]. pose proof (Z.log2_nonneg x) as H0.
  rewrite Z.pow_succ_r in H2 by lia.
  assert (Z.log2 (l + 2 ^ m * x) = m + Z.log2 x); [|lia].
  apply Z.log2_unique; [lia|].
  replace (Z.succ (m + Z.log2 x)) with (m + Z.succ (Z.log2 x)) by lia.
  rewrite !pow2_split, Z.pow_succ_r by lia. split; nia.
Qed.

(* ---------- trailing zeros ---------- *)

Lemma tz_pos_spec p : 0 <= tz_pos p /\ exists q, 0 <= q /\ Z.pos p = 2 ^ tz_pos p * (2 * q + 1).
Proof.
  induction p as [r IH|r IH|]; cbn [tz_pos].
  - split; [lia|]. exists (Z.pos r). split; [lia|]. change (2 ^ 0) with 1. lia.
  - destruct IH as [H0 (q & Hq & He)]. split; [lia|]. exists q. split; [lia|].
    replace (1 + tz_pos r) with (Z.succ (tz_pos r)) by lia. rewrite Z.pow_succ_r by lia.
    rewrite Pos2Z.inj_xO, He. ring.
  - split; [lia|]. exists 0. split; [lia|]. reflexivity.
Qed.

Lemma u_trailing_zeros_spec w x : 0 < x ->
  0 <= u_trailing_zeros w x /\ exists q, 0 <= q /\ x = 2 ^ u_trailing_zeros w x * (2 * q + 1).
Proof.
  intros Hx. destruct x as [|p|p]; try lia. cbn [u_trailing_zeros]. apply tz_pos_spec.
Qed.

Lemma u_trailing_zeros_lt w x : 0 <= w -> digit_ok w x -> 0 < x -> u_trailing_zeros w x < w.
Proof.
  intros Hw Hx H0. destruct (u_trailing_zeros_spec w x H0) as [Ht (q & Hq & He)].
  unfold digit_ok, B in Hx. destruct (Z_lt_le_dec (u_trailing_zeros w x) w) as [|Hge]; [assumption|].
  pose proof (pow2_le w (u_trailing_zeros w x) ltac:(lia)). nia.
Qed.

(* x = 2^k * odd  gives the usual characterisation of k *)
Lemma odd_part_spec x k q : 0 <= k -> x = 2 ^ k * (2 * q + 1) ->
  x mod 2 ^ k = 0 /\ Z.testbit x k = true.
Proof.
  intros Hk ->. split.
  - rewrite Z.mul_comm. apply Z.mod_mul. pose proof (pow2_pos k Hk); lia.
  - rewrite Z.mul_comm, Z.mul_pow2_bits by lia. rewrite Z.sub_diag, Z.bit0_odd.
    rewrite Z.add_comm, Z.odd_add_mul_2. reflexivity.
Qed.

Lemma odd_part_unique k1 q1 k2 q2 : 0 <= k1 -> 0 <= k2 ->
  2 ^ k1 * (2 * q1 + 1) = 2 ^ k2 * (2 * q2 + 1) -> k1 = k2.
Proof.
  intros H1 H2 He.
  destruct (odd_part_spec _ k1 q1 H1 eq_refl) as [Hm1 Hb1].
  destruct (odd_part_spec _ k2 q2 H2 eq_refl) as [Hm2 Hb2].
  rewrite He in Hm1, Hb1.
  destruct (Z.lt_trichotomy k1 k2) as [Hlt|[Heq|Hgt]]; [|exact Heq|]; exfalso.
  - assert (Hf : Z.testbit (2 ^ k2 * (2 * q2 + 1)) k1 = false).
    { rewrite Z.mul_comm, Z.mul_pow2_bits by lia. apply Z.testbit_neg_r. lia. }
    congruence.
  - rewrite <- He in Hb2. assert (Hf : Z.testbit (2 ^ k1 * (2 * q1 + 1)) k2 = false).
    { rewrite Z.mul_comm, Z.mul_pow2_bits by lia. apply Z.testbit_neg_r. lia. }
    congruence.
Qed.

(* ---------- reversing the order of k chunks of c bits (c = 1: reverse_bits, c = 8: swap_bytes) ---------- *)

Fixpoint rev_chunks (c : Z) (k : nat) (x : Z) : Z :=
  match k with
  | O => 0
  | S k' => (x mod 2 ^ c) * (2 ^ c) ^ Z.of_nat k' + rev_chunks c k' (x / 2 ^ c)
  end.

Lemma rev_bits_chunks k x : rev_bits k x = rev_chunks 1 k x.
Proof.
  revert x. induction k as [|k IH]; intros x; cbn [rev_bits rev_chunks]; [reflexivity|].
  rewrite IH. reflexivity.
Qed.

Lemma rev_bytes_chunks k x : rev_bytes k x = rev_chunks 8 k x.
Proof.
  revert x. induction k as [|k IH]; intros x; cbn [rev_bytes rev_chunks]; [reflexivity|].
  rewrite IH. reflexivity.
Qed.

Lemma rev_chunks_spec c k x : 0 < c ->
  0 <= rev_chunks c k x < 2 ^ (c * Z.of_nat k) /\
  forall i j, 0 <= i < Z.of_nat k -> 0 <= j < c ->
    Z.testbit (rev_chunks c k x) (c * i + j) = Z.testbit x (c * (Z.of_nat k - 1 - i) + j).
Proof.
  intros Hc. revert x. induction k as [|k IH]; intros x.
  - cbn [rev_chunks]. rewrite Z.mul_0_r. change (2 ^ 0) with 1. split; [lia|]. intros; lia.
  - cbn [rev_chunks]. destruct (IH (x / 2 ^ c)) as [Hb Hbits].
    rewrite <- Z.pow_mul_r by lia.
    set (m := c * Z.of_nat k) in *. assert (Hm : 0 <= m) by (unfold m; nia).
    pose proof (Z.mod_pos_bound x (2 ^ c) (pow2_pos c ltac:(lia))) as Hlo.
    set (lo := x mod 2 ^ c) in *. set (R := rev_chunks c k (x / 2 ^ c)) in *.
    replace (lo * 2 ^ m + R) with (R + 2 ^ m * lo) by ring.
    split.
    + replace (c * Z.of_nat (S k)) with (m + c) by (unfold m; lia).
      rewrite pow2_split by lia. pose proof (pow2_pos m Hm). nia.
    + intros i j Hi Hj. destruct (Z_lt_le_dec i (Z.of_nat k)) as [Hlt|Hge].
      * assert (0 <= c * i + j < m).
        { unfold m. assert (c * (i + 1) <= c * Z.of_nat k) by (apply Z.mul_le_mono_nonneg_l; lia).
          assert (0 <= c * i) by (apply Z.mul_nonneg_nonneg; lia). lia. }
        rewrite testbit_low by lia. unfold R. rewrite Hbits by lia.
        assert (0 <= c * (Z.of_nat k - 1 - i)) by (apply Z.mul_nonneg_nonneg; lia).
        rewrite Z.div_pow2_bits by lia. f_equal. lia.
      * assert (i = Z.of_nat k) by lia. subst i.
        rewrite testbit_high by (fold m; lia). fold m.
        replace (m + j - m) with j by lia. unfold lo. rewrite Z.mod_pow2_bits_low by lia.
        f_equal. lia.
Qed.

(* Proofs/PrintGenTieB.v — tie of the generated radix OUTPUT code (Generated/PrintGen.v) to Model/RadixOut.v, part B:
   to_inexact_bitwise_digits_le (radices 8, 32, 64, 128: bit slicing across digit boundaries, trailing-zero trimming). *)
From Bnum Require Import Base Prim.
From Bnum.Model Require Import Digit DigitPrims LoopPrims Core Imp ImpParse ImpDiv ImpPrint.
From Bnum.Model Require Div Bits RadixOut.
From Bnum.Generated Require Import DigitGen PrintGen.
From Bnum.Proofs Require Import ImpLemmas ImpLemmas2 PrintGenTieA.

(* ---------- the inner loop: while rbits >= bits { push; r >>= bits; if rbits > BITS { r = c >> ..}; rbits -= bits } ---------- *)

Definition inner_r2 (w bits c r rbits : Z) : Z := if w <? rbits then u_shr c (w - (rbits - bits)) else u_shr r bits.

Lemma sim_inexact_inner w bits mask c (cond : Z * list Z * Z -> bool) (body : Z * list Z * Z -> res (flow (Z * list Z * Z) (list Z))) :
  0 < bits ->
  (forall r out rbits, cond (r, out, rbits) = (bits <=? rbits)) ->
  (forall r out rbits, bits <= rbits < w + bits ->
     body (r, out, rbits) = Done (Continue (inner_r2 w bits c r rbits, out ++ [RadixOut.as_u8 (u_and r mask)], rbits - bits))) ->
  forall f r rbits out o r' rb', rbits < w + bits ->
  RadixOut.inexact_inner f w bits mask c r rbits = Some (o, r', rb') ->
  forall fuel, (f <= fuel)%nat ->
  while_loop fuel cond body (r, out, rbits) = Done (Exited (r', out ++ o, rb')).
Proof.
  intros Hbits Hc Hb. induction f as [|f IH]; intros r rbits out o r' rb' Hlt H fuel Hf; [discriminate|].
  cbn [RadixOut.inexact_inner] in H. cbv zeta in H. destruct (Z.leb_spec bits rbits) as [Hle|Hgt].
  - destruct fuel as [|fuel]; [lia|]. rewrite while_loop_S, Hc.
    destruct (Z.leb_spec bits rbits) as [_|]; [|lia]. rewrite Hb by lia.
    fold (inner_r2 w bits c r rbits) in H.
    destruct (RadixOut.inexact_inner f w bits mask c (inner_r2 w bits c r rbits) (rbits - bits)) as [[[o1 r1] rb1]|] eqn:E; [|discriminate].
    injection H as <- <- <-.
    rewrite (IH (inner_r2 w bits c r rbits) (rbits - bits) _ o1 r1 rb1 ltac:(lia) E) by lia. rewrite <- app_assoc. reflexivity.
  - injection H as <- <- <-. rewrite while_loop_cond_false by (rewrite Hc; apply Z.leb_gt; lia).
    rewrite app_nil_r. reflexivity.
Qed.

Lemma inexact_inner_range w bits mask c : forall f r rbits o r' rb', 0 <= rbits ->
  RadixOut.inexact_inner f w bits mask c r rbits = Some (o, r', rb') -> 0 <= rb' < bits /\ (length o <= f)%nat.
Proof.
  induction f as [|f IH]; intros r rbits o r' rb' H0 H; [discriminate|].
  cbn [RadixOut.inexact_inner] in H. cbv zeta in H. destruct (Z.leb_spec bits rbits) as [Hle|Hgt].
  - match type of H with match ?x with _ => _ end = _ => destruct x as [[[o1 r1] rb1]|] eqn:E; [|discriminate] end.
    injection H as <- <- <-. destruct (IH _ (rbits - bits) _ _ _ ltac:(lia) E) as [Hr Hl]. split; [exact Hr | cbn [length]; lia].
  - injection H as <- <- <-. split; [lia | cbn [length]; lia].
Qed.

(* ---------- the outer loop: for c in self.digits { r |= c << rbits; rbits += BITS; <inner> } ---------- *)

Lemma sim_inexact_outer w bits mask (body : Z -> Z * list Z * Z -> res (flow (Z * list Z * Z) (list Z))) :
  (forall c r out rbits o r' rb', 0 <= rbits < bits ->
     RadixOut.inexact_inner (Z.to_nat (2 * w)) w bits mask c (u_or r (u_shl w c rbits)) (rbits + w) = Some (o, r', rb') ->
     body c (r, out, rbits) = Done (Continue (r', out ++ o, rb'))) ->
  forall ds r out rbits o r' rb', 0 <= rbits < bits -> 0 <= w ->
  RadixOut.inexact_outer w bits mask ds r rbits = Some (o, r', rb') ->
  for_each ds body (r, out, rbits) = Done (Exited (r', out ++ o, rb'))
  /\ (rb' = 0 \/ 0 < rb' < bits) /\ (length o <= Z.to_nat (2 * w) * length ds)%nat.
Proof.
  intros Hb. induction ds as [|c ds IH]; intros r out rbits o r' rb' Hr Hw H.
  - cbn [RadixOut.inexact_outer] in H. injection H as <- <- <-. cbn [for_each length]. rewrite app_nil_r.
    split; [reflexivity|]. split; lia.
  - cbn [RadixOut.inexact_outer] in H. cbv zeta in H.
    match type of H with match ?x with _ => _ end = _ => destruct x as [[[o1 r1] rb1]|] eqn:E1; [|discriminate] end.
    match type of H with match ?x with _ => _ end = _ => destruct x as [[[o2 r2] rb2]|] eqn:E2; [|discriminate] end.
    injection H as <- <- <-.
    destruct (inexact_inner_range _ _ _ _ _ _ (rbits + w) _ _ _ ltac:(lia) E1) as [Hr1 Hl1].
    destruct (IH r1 (out ++ o1) rb1 o2 r2 rb2 Hr1 Hw E2) as (E & Hr2 & Hl2).
    cbn [for_each]. rewrite (Hb _ _ _ _ _ _ _ Hr E1). rewrite E, <- app_assoc.
    split; [reflexivity|]. split; [exact Hr2|]. rewrite app_length. cbn [length]. lia.
Qed.

(* ---------- while let Some(&0) = out.last() { out.pop(); } ---------- *)

Lemma vec_last_snoc (l : list Z) d : vec_last (l ++ [d]) = Some d.
Proof.
  unfold vec_last. rewrite last_last. destruct l; reflexivity.
Qed.

Lemma sim_trim (cond : list Z -> bool) (body : list Z -> res (flow (list Z) (list Z))) :
  (forall out, cond out = match vec_last out with Some x => x =? 0 | None => false end) ->
  (forall out, body out = Done (Continue (vec_pop out))) ->
  forall out fuel, (length out <= fuel)%nat ->
  while_loop fuel cond body out = Done (Exited (RadixOut.trim_trailing_zeros out)).
Proof.
  intros Hc Hb.
  assert (Hrev : forall l fuel, (length l <= fuel)%nat ->
            while_loop fuel cond body (rev l) = Done (Exited (rev (RadixOut.drop_leading_zeros l)))).
  { induction l as [|d l IH]; intros fuel Hf.
    - rewrite while_loop_cond_false by (rewrite Hc; reflexivity). reflexivity.
    - cbn [rev RadixOut.drop_leading_zeros length] in *. destruct (Z.eqb_spec d 0) as [->|Hd].
      + destruct fuel as [|fuel]; [lia|]. rewrite while_loop_S, Hc, vec_last_snoc. cbn [Z.eqb].
        rewrite Hb. unfold vec_pop. rewrite removelast_last. apply IH. lia.
      + rewrite while_loop_cond_false; [reflexivity|]. rewrite Hc, vec_last_snoc. apply Z.eqb_neq. exact Hd. }
  intros out fuel Hf. unfold RadixOut.trim_trailing_zeros. rewrite <- (Hrev (rev out) fuel) by (rewrite rev_length; exact Hf).
  rewrite rev_involutive. reflexivity.
Qed.

(* ---------- the function ---------- *)

Theorem gen_to_inexact_bitwise_digits_le w N fuel self bits out :
  0 < bits < w -> w + bits <= 256 -> (Z.to_nat (2 * w) * S (length self) <= fuel)%nat ->
  RadixOut.to_inexact_bitwise_digits_le w self bits = Some out ->
  PrintGen.to_inexact_bitwise_digits_le w N fuel self bits = Done out.
Proof.
  intros Hb H256 Hf H. unfold PrintGen.to_inexact_bitwise_digits_le. cbv zeta.
  destruct (gen_div_ceil w N fuel (Bits.bits_of w self) bits ltac:(lia)) as (cap & ->). straight.
  unfold RadixOut.to_inexact_bitwise_digits_le in H. cbv zeta in H.
  destruct (RadixOut.inexact_outer w bits (RadixOut.bit_mask w bits) self 0 0) as [[[o r'] rb']|] eqn:E; [|discriminate].
  injection H as <-.
  assert (Hf2 : (Z.to_nat (2 * w) <= fuel)%nat) by nia.
  match goal with |- context [for_each self ?b _] =>
    destruct (sim_inexact_outer w bits (RadixOut.bit_mask w bits) b) with (ds := self) (r := 0) (out := vec_with_capacity cap)
      (rbits := 0) (o := o) (r' := r') (rb' := rb') as (E' & Hrb & Hlen); [ | lia | lia | exact E | ] end.
  { intros c r out rbits o1 r1 rb1 Hr E1. cbv beta iota.
    rewrite dshl_ok by lia. rewrite bind_Done. unfold badd. destruct (Z.ltb_spec (rbits + w) 256); [|lia]. rewrite bind_Done.
    rewrite (sim_inexact_inner w bits (RadixOut.bit_mask w bits) c) with (f := Z.to_nat (2 * w)) (o := o1) (r' := r1) (rb' := rb1).
    - reflexivity.
    - lia.
    - intros r0 out0 rbits0. apply Z.geb_leb.
    - intros r0 out0 rbits0 Hr0. cbv beta iota. rewrite dshr_ok by lia. rewrite bind_Done. unfold inner_r2.
      rewrite Z.gtb_ltb. destruct (Z.ltb_spec w rbits0).
      + rewrite usub_ok by lia. rewrite bind_Done. rewrite usub_ok by lia. rewrite bind_Done.
        rewrite dshr_ok by lia. reflexivity.
      + rewrite usub_ok by lia. reflexivity.
    - lia.
    - exact E1.
    - exact Hf2. }
  rewrite E'. rewrite bind_Done. unfold vec_with_capacity in *. cbn [app] in *.
  destruct Hrb as [->|Hrb].
  - change (0 =? 0) with true. cbv iota. cbn [negb]. cbv iota. rewrite sim_trim; [reflexivity | reflexivity | reflexivity | nia].
  - destruct (Z.eqb_spec rb' 0) as [|_]; [lia|]. cbn [negb]. cbv iota.
    rewrite sim_trim; [reflexivity | reflexivity | reflexivity |]. unfold vec_push. rewrite app_length. cbn [length]. nia.
Qed.

(* Proofs/EndianGenTieI.v — src/bint/endian.rs: from_be / from_le / to_be / to_le and from_be_slice / from_le_slice (with the
   local macro set_digit! expanded at its two call sites per function), GENERATED from /repo/src on every run
   (Generated/EndianGen.v, by tools/rs2v_endian.py), equal the hand-written model Model/Endian.v, for every digit of 2^bs
   bytes, every digit count N >= 1 (`Self::N_MINUS_1 = N - 1` does not exist for N = 0), every byte slice. *)
From Bnum Require Import Base Prim.
From Bnum.Model Require Import LoopPrims Core Shift Imp ImpEndian Endian.
From Bnum.Model Require Convert.
From Bnum.Generated Require Import EndianGen.
From Bnum.Proofs Require Import ImpLemmas ImpLemmas2 EndianGenTieBase EndianGenTieU.

Lemma gen_I_from_be w N fuel x : EndianGen.I_from_be w N fuel x = Done (I_from_be w x).
Proof. reflexivity. Qed.
Lemma gen_I_from_le w N fuel x : EndianGen.I_from_le w N fuel x = Done (I_from_le x).
Proof. reflexivity. Qed.
Lemma gen_I_to_be w N fuel x : EndianGen.I_to_be w N fuel x = Done (I_to_be w x).
Proof. reflexivity. Qed.
Lemma gen_I_to_le w N fuel x : EndianGen.I_to_le w N fuel x = Done (I_to_le x).
Proof. reflexivity. Qed.

Lemma gen_I_from_le_slice w bs n slice fuel : byte_width w bs -> (0 < n)%nat ->
  (length slice <= fuel)%nat -> (dbytes w <= fuel)%nat ->
  EndianGen.I_from_le_slice w (Z.of_nat n) fuel slice = Done (I_from_le_slice w n slice).
Proof.
  intros Hbw Hn Hf1 Hf2.
  destruct (byte_width_facts w bs Hbw) as (HB & HS & Hpow & Hpos).
  pose proof (addr_div_mod w bs Hbw (length slice)) as [Hdm Hmod].
  unfold EndianGen.I_from_le_slice, I_from_le_slice, byte_is_negative, Convert.from_digits. cbv zeta.
  set (db := dbytes w) in *. set (len := length slice) in *. set (exact := (len / db)%nat) in *.
  rewrite eqb_of_nat_0, Nat2Z.id. destruct (len =? 0)%nat eqn:Elen; [reflexivity|]. apply Nat.eqb_neq in Elen.
  change 1 with (Z.of_nat 1) at 1. rewrite usub_nat by lia. cbn [bind]. rewrite arr_get_nat by (fold len; lia). cbn [bind].
  set (neg := sd 8 (nth (len - 1) slice 0) <? 0). set (sb := if neg then u_max w else 0).
  rewrite (addr_shr w bs Hbw). fold db. fold exact. rewrite HB, Nat2Z.id.
  rewrite (slice_loop_tie (I_set_digit w n neg sb) (fun i => u_from_le_bytes (sub_bytes slice (i * db) db)) n exact)
    with (out := repeat sb n).
  - destruct (slice_loop _ _ _ _ _) as [out|] eqn:Eloop; [|reflexivity]. cbn [bind].
    assert (Hlo : length out = n).
    { eapply (slice_loop_length (I_set_digit w n neg sb) _ n (I_set_digit_length w n neg sb)); [exact Eloop | apply repeat_length]. }
    rewrite usub_ok by lia. cbn [bind]. rewrite (addr_and w bs Hbw). fold db.
    rewrite eqb_of_nat_0.
    destruct (len mod db =? 0)%nat eqn:Erem; [reflexivity|]. apply Nat.eqb_neq in Erem.
    rewrite (addr_shl w bs Hbw). fold db.
    rewrite (copy_loop slice 0 (exact * db) 0 (len - exact * db) db) with (buf := repeat (if neg then 255 else 0) db).
    + cbn [bind]. rewrite (I_store_step w n neg sb exact _ out (fun o => Done (Some o)) (Done None) Hlo Hn).
      cbn [Nat.add firstn app]. rewrite firstn_all2 by (rewrite skipn_length; fold len; lia).
      rewrite skipn_repeat. destruct (I_set_digit _ _ _ _ _ _ _); reflexivity.
    + fold len. lia.
    + lia.
    + intros k buf Hk. cbv beta iota. apply Z.ltb_lt. lia.
    + intros buf. cbv beta iota. apply Z.ltb_ge. lia.
    + intros k buf Hk Hl. cbv beta iota. cbn [Nat.add].
      replace (Z.of_nat k + Z.of_nat (exact * db)) with (Z.of_nat (exact * db + k)) by lia.
      rewrite arr_get_nat by (fold len; lia). cbn [bind]. rewrite arr_set_nat by lia. cbn [bind].
      rewrite Nat2Z.inj_succ. reflexivity.
    + reflexivity.
    + lia.
    + apply repeat_length.
  - intros out i. apply ltb_of_nat.
  - apply I_set_digit_length.
  - intros out i Hi Hl. rewrite (addr_shl w bs Hbw). fold db.
    assert (Hin : (i * db + db <= len)%nat) by nia.
    rewrite (copy_loop slice (i * db) (i * db) 0 db db) with (buf := repeat 0 db).
    + cbn [bind]. rewrite (I_store_step w n neg sb i _ out (fun o => Done (Continue (o, Z.of_nat i + 1))) (Done (Return None)) Hl Hn).
      cbn [Nat.add firstn app]. rewrite skipn_repeat, Nat.sub_diag. cbn [repeat]. rewrite app_nil_r.
      unfold sub_bytes. rewrite Nat2Z.inj_succ. reflexivity.
    + fold len. lia.
    + lia.
    + intros k buf Hk. cbv beta iota. apply Z.ltb_lt. lia.
    + intros buf. cbv beta iota. apply Z.ltb_ge. lia.
    + intros k buf Hk Hlb. cbv beta iota. rewrite arr_get_nat by (fold len; lia). cbn [bind].
      rewrite usub_nat by lia. cbn [bind]. replace (i * db + k - i * db)%nat with k by lia.
      rewrite arr_set_nat by lia. cbn [bind Nat.add].
      replace (Z.of_nat (i * db + k) + 1) with (Z.of_nat (i * db + S k)) by lia. reflexivity.
    + reflexivity.
    + lia.
    + apply repeat_length.
  - reflexivity.
  - pose proof (exact_le_len len db Hpos). unfold exact. lia.
  - apply repeat_length.
Qed.

Lemma gen_I_from_be_slice w bs n slice fuel : byte_width w bs -> (0 < n)%nat ->
  (length slice <= fuel)%nat -> (dbytes w <= fuel)%nat ->
  EndianGen.I_from_be_slice w (Z.of_nat n) fuel slice = Done (I_from_be_slice w n slice).
Proof.
  intros Hbw Hn Hf1 Hf2.
  destruct (byte_width_facts w bs Hbw) as (HB & HS & Hpow & Hpos).
  pose proof (addr_div_mod w bs Hbw (length slice)) as [Hdm Hmod].
  unfold EndianGen.I_from_be_slice, I_from_be_slice, byte_is_negative, Convert.from_digits. cbv zeta.
  set (db := dbytes w) in *. set (len := length slice) in *. set (exact := (len / db)%nat) in *.
  rewrite eqb_of_nat_0, Nat2Z.id. destruct (len =? 0)%nat eqn:Elen; [reflexivity|]. apply Nat.eqb_neq in Elen.
  change 0 with (Z.of_nat 0) at 1. rewrite arr_get_nat by (fold len; lia). cbn [bind].
  set (neg := sd 8 (nth 0 slice 0) <? 0). set (sb := if neg then u_max w else 0).
  rewrite (addr_shr w bs Hbw). fold db. fold exact. rewrite HB, Nat2Z.id.
  assert (Hl0 : length (if neg then repeat (u_max w) n else repeat 0 n) = n) by (destruct neg; apply repeat_length).
  rewrite (slice_loop_tie (I_set_digit w n neg sb) (fun i => u_from_be_bytes (sub_bytes slice (len - db - i * db) db)) n exact)
    with (out := if neg then repeat (u_max w) n else repeat 0 n).
  - destruct (slice_loop _ _ _ _ _) as [out|] eqn:Eloop; [|reflexivity]. cbn [bind].
    assert (Hlo : length out = n).
    { eapply (slice_loop_length (I_set_digit w n neg sb) _ n (I_set_digit_length w n neg sb)); [exact Eloop | exact Hl0]. }
    rewrite usub_ok by lia. cbn [bind]. rewrite (addr_and w bs Hbw). fold db.
    rewrite eqb_of_nat_0.
    destruct (len mod db =? 0)%nat eqn:Erem; [reflexivity|]. apply Nat.eqb_neq in Erem.
    rewrite (copy_loop slice 0 0 (db - len mod db) (len mod db) db) with (buf := repeat (if neg then 255 else 0) db).
    + cbn [bind]. rewrite (I_store_step w n neg sb exact _ out (fun o => Done (Some o)) (Done None) Hlo Hn).
      cbn [skipn]. rewrite firstn_repeat, skipn_repeat.
      replace (Nat.min (db - len mod db) db) with (db - len mod db)%nat by lia.
      replace (db - (db - len mod db + len mod db))%nat with 0%nat by lia. cbn [repeat]. rewrite app_nil_r.
      destruct (I_set_digit _ _ _ _ _ _ _); reflexivity.
    + fold len. lia.
    + lia.
    + intros k buf Hk. cbv beta iota. apply Z.ltb_lt. lia.
    + intros buf. cbv beta iota. apply Z.ltb_ge. lia.
    + intros k buf Hk Hl. cbv beta iota. cbn [Nat.add].
      rewrite arr_get_nat by (fold len; lia). cbn [bind]. rewrite usub_nat by lia. cbn [bind].
      replace (Z.of_nat (db - len mod db) + Z.of_nat k) with (Z.of_nat (db - len mod db + k)) by lia.
      rewrite arr_set_nat by lia. cbn [bind]. rewrite Nat2Z.inj_succ. reflexivity.
    + reflexivity.
    + lia.
    + apply repeat_length.
  - intros out i. apply ltb_of_nat.
  - apply I_set_digit_length.
  - intros out i Hi Hl. rewrite (addr_shl w bs Hbw). fold db.
    assert (Hin : (i * db + db <= len)%nat) by nia.
    rewrite usub_nat by lia. cbn [bind].
    rewrite (copy_loop slice (len - db) (len - db - i * db) 0 db db) with (buf := repeat 0 db).
    + cbn [bind]. rewrite (I_store_step w n neg sb i _ out (fun o => Done (Continue (o, Z.of_nat i + 1))) (Done (Return None)) Hl Hn).
      cbn [Nat.add firstn app]. rewrite skipn_repeat, Nat.sub_diag. cbn [repeat]. rewrite app_nil_r.
      unfold sub_bytes. rewrite Nat2Z.inj_succ. reflexivity.
    + fold len. lia.
    + lia.
    + intros k buf Hk. cbv beta iota. apply Z.ltb_lt. fold len. lia.
    + intros buf. cbv beta iota. apply Z.ltb_ge. fold len. lia.
    + intros k buf Hk Hlb. cbv beta iota. rewrite usub_nat by lia. cbn [bind].
      replace (len - db + k - i * db)%nat with (len - db - i * db + k)%nat by lia.
      rewrite arr_get_nat by (fold len; lia). cbn [bind].
      rewrite usub_nat by lia. cbn [bind]. replace (len - db + k - (len - db))%nat with k by lia.
      rewrite arr_set_nat by lia. cbn [bind Nat.add].
      replace (Z.of_nat (len - db + k) + 1) with (Z.of_nat (len - db + S k)) by lia. reflexivity.
    + reflexivity.
    + lia.
    + apply repeat_length.
  - reflexivity.
  - pose proof (exact_le_len len db Hpos). unfold exact. lia.
  - exact Hl0.
Qed.

(* Proofs/Panics.v — C04: where the model panics, per build mode.  Corollaries of the flag-exactness
   theorems of C01 / C02 / C05 / C08 and of the operator layer Model/Ops.v. *)
From Bnum Require Import Base Prim.
From Bnum.Model Require Import Digit Core Shift AddSub Mul Div Bits Pow Ops.
From Bnum.Proofs Require Import AddSub Mul Shift.

(* generic shape: an inherent op that is `if f then (if dbg then Panic else Ret r) else Ret r` *)
Lemma inherent_panic_iff {A} (o : outcome A) (f dbg : bool) (r : A) :
  o = (if f then (if dbg then Panic else Ret r) else Ret r) ->
  (o = Panic <-> dbg = true /\ f = true) /\ (dbg = false -> o = Ret r) /\ (f = false -> o = Ret r).
Proof.
  intros ->. destruct f, dbg; repeat split; intros; try discriminate; try reflexivity;
    try (destruct H; discriminate); try (split; reflexivity).
Qed.

Theorem U_add_panics dbg w n a b : 0 < w -> wf w n a -> wf w n b ->
  (U_add dbg w a b = Panic <-> dbg = true /\ Mod w n <= uval w a + uval w b) /\
  (dbg = false -> U_add dbg w a b = Ret (U_wrapping_add w a b)) /\
  (uval w a + uval w b < Mod w n -> exists r, U_add dbg w a b = Ret r /\ wf w n r /\ uval w r = uval w a + uval w b).
Proof.
  intros Hw Ha Hb. pose proof (U_overflowing_add_ok w n a b Hw Ha Hb) as Hok.
  pose proof (U_add_projections w a b dbg) as Hp.
  destruct (U_overflowing_add w a b) as [r f]. destruct Hok as (Hr & Hv & Hf). destruct Hp as (_ & Hwr & _ & Hop).
  destruct (inherent_panic_iff _ _ _ _ Hop) as (P1 & P2 & P3).
  pose proof (uval_bounds w n a ltac:(lia) Ha). pose proof (uval_bounds w n b ltac:(lia) Hb).
  split; [|split].
  - rewrite P1, Hf, Z.leb_le. tauto.
  - intros Hd. rewrite Hwr. apply P2, Hd.
  - intros Hfit. exists r. split; [apply P3; rewrite Hf; apply Z.leb_gt; lia|]. split; [exact Hr|].
    rewrite Hv. apply Z.mod_small. lia.
Qed.

Theorem U_sub_panics dbg w n a b : 0 < w -> wf w n a -> wf w n b ->
  (U_sub dbg w a b = Panic <-> dbg = true /\ uval w a < uval w b) /\
  (dbg = false -> U_sub dbg w a b = Ret (U_wrapping_sub w a b)) /\
  (uval w b <= uval w a -> exists r, U_sub dbg w a b = Ret r /\ wf w n r /\ uval w r = uval w a - uval w b).
Proof.
  intros Hw Ha Hb. pose proof (U_overflowing_sub_ok w n a b Hw Ha Hb) as Hok.
  pose proof (U_sub_projections w a b dbg) as Hp.
  destruct (U_overflowing_sub w a b) as [r f]. destruct Hok as (Hr & Hv & Hf). destruct Hp as (_ & Hwr & _ & Hop).
  destruct (inherent_panic_iff _ _ _ _ Hop) as (P1 & P2 & P3).
  pose proof (uval_bounds w n a ltac:(lia) Ha). pose proof (uval_bounds w n b ltac:(lia) Hb).
  split; [|split].
  - rewrite P1, Hf, Z.ltb_lt. tauto.
  - intros Hd. rewrite Hwr. apply P2, Hd.
  - intros Hfit. exists r. split; [apply P3; rewrite Hf; apply Z.ltb_ge; lia|]. split; [exact Hr|].
    rewrite Hv. apply Z.mod_small. lia.
Qed.

Theorem I_add_panics dbg w n a b : 0 < w -> (0 < n)%nat -> wf w n a -> wf w n b ->
  (I_add dbg w a b = Panic <-> dbg = true /\ inS (Mod w n) (sval w a + sval w b) = false) /\
  (dbg = false -> I_add dbg w a b = Ret (I_wrapping_add w a b)) /\
  (inS (Mod w n) (sval w a + sval w b) = true ->
   exists r, I_add dbg w a b = Ret r /\ wf w n r /\ sval w r = sval w a + sval w b).
Proof.
  intros Hw Hn Ha Hb. pose proof (I_overflowing_add_ok w n a b Hw Hn Ha Hb) as Hok.
  pose proof (I_add_projections w n a b dbg Hw Hn Ha Hb) as Hp.
  destruct (I_overflowing_add w a b) as [r f]. destruct Hok as (Hr & Hv & Hf). destruct Hp as (_ & Hwr & _ & Hop).
  destruct (inherent_panic_iff _ _ _ _ Hop) as (P1 & P2 & P3).
  split; [|split].
  - rewrite P1, Hf. rewrite negb_true_iff. tauto.
  - intros Hd. rewrite Hwr. apply P2, Hd.
  - intros Hfit. exists r. split; [apply P3; rewrite Hf, Hfit; reflexivity|]. split; [exact Hr|].
    rewrite Hv. apply wrapS_id; [apply Mod_pos; lia | apply Mod_even; assumption | apply inS_true; exact Hfit].
Qed.

Theorem I_sub_panics dbg w n a b : 0 < w -> (0 < n)%nat -> wf w n a -> wf w n b ->
  (I_sub dbg w a b = Panic <-> dbg = true /\ inS (Mod w n) (sval w a - sval w b) = false) /\
  (dbg = false -> I_sub dbg w a b = Ret (I_wrapping_sub w a b)) /\
  (inS (Mod w n) (sval w a - sval w b) = true ->
   exists r, I_sub dbg w a b = Ret r /\ wf w n r /\ sval w r = sval w a - sval w b).
Proof.
  intros Hw Hn Ha Hb. pose proof (I_overflowing_sub_ok w n a b Hw Hn Ha Hb) as Hok.
  pose proof (I_sub_projections w n a b dbg Hw Hn Ha Hb) as Hp.
  destruct (I_overflowing_sub w a b) as [r f]. destruct Hok as (Hr & Hv & Hf). destruct Hp as (_ & Hwr & _ & Hop).
  destruct (inherent_panic_iff _ _ _ _ Hop) as (P1 & P2 & P3).
  split; [|split].
  - rewrite P1, Hf. rewrite negb_true_iff. tauto.
  - intros Hd. rewrite Hwr. apply P2, Hd.
  - intros Hfit. exists r. split; [apply P3; rewrite Hf, Hfit; reflexivity|]. split; [exact Hr|].
    rewrite Hv. apply wrapS_id; [apply Mod_pos; lia | apply Mod_even; assumption | apply inS_true; exact Hfit].
Qed.

(* unary minus and abs: the only unrepresentable input is MIN *)
Theorem I_neg_panics dbg w n a : 0 < w -> (0 < n)%nat -> wf w n a ->
  (I_neg dbg w a = Panic <-> dbg = true /\ sval w a = - (Mod w n / 2)) /\
  (dbg = false -> I_neg dbg w a = Ret (I_wrapping_neg w a)).
Proof.
  intros Hw Hn Ha. pose proof (I_overflowing_neg_ok w n a Hw Hn Ha) as Hok.
  pose proof (I_neg_projections w a dbg) as Hp.
  destruct (I_overflowing_neg w a) as [r f]. destruct Hok as (Hr & Hv & Hf). destruct Hp as (_ & Hwr & _ & Hop).
  destruct (inherent_panic_iff _ _ _ _ Hop) as (P1 & P2 & _).
  pose proof (sval_range w n a Hw Hn Ha) as Hrange.
  split.
  - rewrite P1, Hf, negb_true_iff.
    assert (inS (Mod w n) (- sval w a) = false <-> sval w a = - (Mod w n / 2)).
    { destruct (inS (Mod w n) (- sval w a)) eqn:E.
      - apply inS_true in E. split; [discriminate | lia].
      - split; [intros _|reflexivity]. destruct (Z.eq_dec (sval w a) (- (Mod w n / 2))) as [|NE]; [assumption|].
        assert (inS (Mod w n) (- sval w a) = true) by (apply inS_true; lia). congruence. }
    tauto.
  - intros Hd. rewrite Hwr. apply P2, Hd.
Qed.

Theorem I_abs_panics dbg w n a : 0 < w -> (0 < n)%nat -> wf w n a ->
  (I_abs dbg w a = Panic <-> dbg = true /\ sval w a = - (Mod w n / 2)) /\
  (dbg = false -> I_abs dbg w a = Ret (I_wrapping_abs w a)).
Proof.
  intros Hw Hn Ha. pose proof (I_overflowing_abs_ok w n a Hw Hn Ha) as Hok.
  pose proof (I_abs_projections w n a dbg Hw Hn Ha) as Hp.
  destruct (I_overflowing_abs w a) as [r f]. destruct Hok as (Hr & Hv & Hf). destruct Hp as (_ & Hwr & _ & Hop).
  destruct (inherent_panic_iff _ _ _ _ Hop) as (P1 & P2 & _).
  pose proof (sval_range w n a Hw Hn Ha) as Hrange.
  split.
  - rewrite P1, Hf, negb_true_iff.
    assert (inS (Mod w n) (Z.abs (sval w a)) = false <-> sval w a = - (Mod w n / 2)).
    { destruct (inS (Mod w n) (Z.abs (sval w a))) eqn:E.
      - apply inS_true in E. split; [discriminate | lia].
      - split; [intros _|reflexivity]. destruct (Z.eq_dec (sval w a) (- (Mod w n / 2))) as [|NE]; [assumption|].
        assert (inS (Mod w n) (Z.abs (sval w a)) = true) by (apply inS_true; lia). congruence. }
    tauto.
  - intros Hd. rewrite Hwr. apply P2, Hd.
Qed.

(* strict_* panic in BOTH build modes exactly on overflow *)
Theorem strict_add_sub_panics w n a b : 0 < w -> wf w n a -> wf w n b ->
  (U_strict_add w a b = Panic <-> Mod w n <= uval w a + uval w b) /\
  (U_strict_sub w a b = Panic <-> uval w a < uval w b).
Proof.
  intros Hw Ha Hb. split.
  - destruct (U_add_panics true w n a b Hw Ha Hb) as (P & _). unfold U_add in P. rewrite P. tauto.
  - destruct (U_sub_panics true w n a b Hw Ha Hb) as (P & _). unfold U_sub in P. rewrite P. tauto.
Qed.

(* ---- << and >> with a primitive-integer amount ---- *)

Definition amt_range (ty : amt_ty) (v : Z) : Prop :=
  match ty with
  | AU8 => 0 <= v < 256 | AU16 => 0 <= v < 65536 | AU32 => 0 <= v < 4294967296
  | AU64 | AUsize => 0 <= v < 18446744073709551616
  | AU128 => 0 <= v < 340282366920938463463374607431768211456
  | AI8 => - 128 <= v < 128 | AI16 => - 32768 <= v < 32768 | AI32 => - 2147483648 <= v < 2147483648
  | AI64 | AIsize => - 9223372036854775808 <= v < 9223372036854775808
  | AI128 => - 170141183460469231731687303715884105728 <= v < 170141183460469231731687303715884105728
  end.

Lemma pow2_32 : 2 ^ 32 = 4294967296.
Proof. reflexivity. Qed.

Definition small_amt (ty : amt_ty) : bool := match ty with AU8 | AU16 | AU32 => true | _ => false end.

Lemma amt_to_exptype_small dbg ty v : small_amt ty = true -> amt_to_exptype dbg ty v = Ret v.
Proof. destruct ty; intros H; try discriminate H; reflexivity. Qed.

Lemma amt_to_exptype_big dbg ty v : small_amt ty = false ->
  amt_to_exptype dbg ty v =
  if dbg then (if (0 <=? v) && (v <=? u32_max) then Ret v else Panic) else Ret (v mod 2 ^ 32).
Proof. destruct ty; intros H; try discriminate H; reflexivity. Qed.

Lemma small_amt_range ty v : small_amt ty = true -> amt_range ty v -> 0 <= v < 4294967296.
Proof. destruct ty; intros H; try discriminate H; cbn [amt_range]; lia. Qed.

Lemma amt_to_exptype_spec dbg ty v : amt_range ty v ->
  (amt_to_exptype dbg ty v = Panic <-> dbg = true /\ (v < 0 \/ 2 ^ 32 <= v)) /\
  (0 <= v < 2 ^ 32 -> amt_to_exptype dbg ty v = Ret v) /\
  (dbg = false -> amt_to_exptype dbg ty v = Ret (v mod 2 ^ 32)).
Proof.
  intros Hr. destruct (small_amt ty) eqn:Hs.
  - pose proof (small_amt_range ty v Hs Hr) as Hv. rewrite (amt_to_exptype_small dbg ty v Hs), pow2_32.
    split; [|split].
    + split; [discriminate | intros (_ & [?|?]); lia].
    + reflexivity.
    + intros _. rewrite Z.mod_small by lia. reflexivity.
  - rewrite (amt_to_exptype_big dbg ty v Hs). unfold u32_max. rewrite !pow2_32. destruct dbg.
    + destruct ((0 <=? v) && (v <=? 4294967296 - 1)) eqn:E.
      * apply andb_prop in E. destruct E as [E1 E2]. apply Z.leb_le in E1, E2.
        split; [split; [discriminate | intros (_ & [?|?]); lia] | split; [reflexivity | discriminate]].
      * assert (Hout : v < 0 \/ 4294967296 <= v).
        { apply andb_false_iff in E. destruct E as [E|E]; apply Z.leb_gt in E; lia. }
        split; [split; [intros _; split; [reflexivity | exact Hout] | reflexivity] | split; [intros; lia | discriminate]].
    + split; [split; [discriminate | intros (X & _); discriminate X] |
              split; [intros; rewrite Z.mod_small by lia; reflexivity | reflexivity]].
Qed.

Lemma prim_shift_shape (sh : bool -> Z -> outcome (list Z)) (wr : Z -> list Z) (post : Z -> list Z -> Prop)
      (nb : Z) dbg ty v :
  (forall d s, 0 <= s ->
     (sh d s = Panic <-> d = true /\ nb <= s) /\
     (s < nb -> exists r, sh d s = Ret r /\ post s r) /\
     (d = false -> sh d s = Ret (wr s))) ->
  nb < 2 ^ 32 -> amt_range ty v ->
  (obind (amt_to_exptype dbg ty v) (sh dbg) = Panic <-> dbg = true /\ (v < 0 \/ nb <= v)) /\
  (dbg = false -> obind (amt_to_exptype dbg ty v) (sh dbg) = Ret (wr (v mod 2 ^ 32))) /\
  (0 <= v < nb -> exists r, obind (amt_to_exptype dbg ty v) (sh dbg) = Ret r /\ post v r).
Proof.
  intros Hsh Hnb Hr. destruct (amt_to_exptype_spec dbg ty v Hr) as (E1 & E2 & E3).
  destruct dbg.
  - destruct (Z_lt_dec v 0) as [Hneg|Hnn]; [|destruct (Z_lt_dec v (2 ^ 32)) as [Hlt|Hge]].
    + assert (E : amt_to_exptype true ty v = Panic) by (apply E1; split; [reflexivity | left; exact Hneg]).
      rewrite E. cbn [obind]. split; [|split].
      * split; [intros _; split; [reflexivity | left; exact Hneg] | reflexivity].
      * discriminate.
      * intros Hv. lia.
    + rewrite E2 by lia. cbn [obind]. destruct (Hsh true v ltac:(lia)) as (P1 & P2 & _). split; [|split].
      * rewrite P1. split; intros (? & ?); split; auto; lia.
      * discriminate.
      * intros Hv. apply P2. lia.
    + assert (E : amt_to_exptype true ty v = Panic) by (apply E1; split; [reflexivity | right; lia]).
      rewrite E. cbn [obind]. split; [|split].
      * split; [intros _; split; [reflexivity | right; lia] | reflexivity].
      * discriminate.
      * intros Hv. lia.
  - rewrite E3 by reflexivity. cbn [obind].
    assert (Hm : 0 <= v mod 2 ^ 32) by (apply Z.mod_pos_bound; lia).
    destruct (Hsh false (v mod 2 ^ 32) Hm) as (P1 & _ & P3). split; [|split].
    + rewrite P1. split; intros (X & _); discriminate X.
    + intros _. apply P3. reflexivity.
    + intros Hv. rewrite Z.mod_small by lia. destruct (Hsh false v ltac:(lia)) as (_ & P2 & _). apply P2. lia.
Qed.

Theorem U_Shl_prim_panics dbg w n ty a v : 0 < w -> wf w n a -> bits w n < 2 ^ 32 -> amt_range ty v ->
  (U_Shl_prim dbg w ty a v = Panic <-> dbg = true /\ (v < 0 \/ bits w n <= v)) /\
  (dbg = false -> U_Shl_prim dbg w ty a v = Ret (U_wrapping_shl w a (v mod 2 ^ 32))) /\
  (0 <= v < bits w n -> exists r, U_Shl_prim dbg w ty a v = Ret r /\ wf w n r /\
                                  uval w r = (uval w a * 2 ^ v) mod Mod w n).
Proof.
  intros Hw Ha Hb Hr. unfold U_Shl_prim.
  apply (prim_shift_shape (fun d s => U_shl d w a s) (U_wrapping_shl w a)
           (fun s r => wf w n r /\ uval w r = (uval w a * 2 ^ s) mod Mod w n)); try assumption.
  intros d s Hs. exact (U_shl_ok d w n a s Hw Ha Hs).
Qed.

Theorem U_Shr_prim_panics dbg w n ty a v : 0 < w -> wf w n a -> bits w n < 2 ^ 32 -> amt_range ty v ->
  (U_Shr_prim dbg w ty a v = Panic <-> dbg = true /\ (v < 0 \/ bits w n <= v)) /\
  (dbg = false -> U_Shr_prim dbg w ty a v = Ret (U_wrapping_shr w a (v mod 2 ^ 32))) /\
  (0 <= v < bits w n -> exists r, U_Shr_prim dbg w ty a v = Ret r /\ wf w n r /\ uval w r = uval w a / 2 ^ v).
Proof.
  intros Hw Ha Hb Hr. unfold U_Shr_prim.
  apply (prim_shift_shape (fun d s => U_shr d w a s) (U_wrapping_shr w a)
           (fun s r => wf w n r /\ uval w r = uval w a / 2 ^ s)); try assumption.
  intros d s Hs. exact (U_shr_ok d w n a s Hw Ha Hs).
Qed.

Theorem I_Shl_prim_panics dbg w n ty a v : 0 < w -> wf w n a -> bits w n < 2 ^ 32 -> amt_range ty v ->
  (I_Shl_prim dbg w ty a v = Panic <-> dbg = true /\ (v < 0 \/ bits w n <= v)) /\
  (dbg = false -> I_Shl_prim dbg w ty a v = Ret (I_wrapping_shl w a (v mod 2 ^ 32))).
Proof.
  intros Hw Ha Hb Hr. unfold I_Shl_prim.
  destruct (prim_shift_shape (fun d s => I_shl d w a s) (I_wrapping_shl w a) (shl_post w n a) (bits w n) dbg ty v) as (P1 & P2 & _);
    try assumption; [|split; assumption].
  intros d s Hs. exact (I_shl_ok d w n a s Hw Ha Hs).
Qed.

Theorem I_Shr_prim_panics dbg w n ty a v : 0 < w -> wf w n a -> bits w n < 2 ^ 32 -> amt_range ty v ->
  (I_Shr_prim dbg w ty a v = Panic <-> dbg = true /\ (v < 0 \/ bits w n <= v)) /\
  (dbg = false -> I_Shr_prim dbg w ty a v = Ret (I_wrapping_shr w a (v mod 2 ^ 32))).
Proof.
  intros Hw Ha Hb Hr. unfold I_Shr_prim.
  destruct (prim_shift_shape (fun d s => I_shr d w a s) (I_wrapping_shr w a) (sar_post w n a) (bits w n) dbg ty v) as (P1 & P2 & _);
    try assumption; [|split; assumption].
  intros d s Hs. exact (I_shr_ok d w n a s Hw Ha Hs).
Qed.

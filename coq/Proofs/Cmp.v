(* Proofs/Cmp.v — C07: comparison, equality, hashing and sign predicates of
   BUint / BInt agree with the numeric value (uval / sval). *)
From Bnum Require Import Base Prim.
From Bnum.Model Require Import Core Shift Bits.

(* ---------- value-level arithmetic ---------- *)

Lemma lex_lt B x y p q : 0 <= x < B -> 0 <= y < B -> p < q -> x + B * p < y + B * q.
Proof. intros. nia. Qed.

Lemma top_lt M la lb s t : 0 <= la < M -> 0 <= lb < M -> s < t -> la + M * s < lb + M * t.
Proof. intros. nia. Qed.

Lemma cmp_shift p q c d : (p + c ?= q + c) = (p + d ?= q + d).
Proof.
  destruct (Z.compare_spec (p + c) (q + c)), (Z.compare_spec (p + d) (q + d)); try reflexivity; lia.
Qed.

Lemma B_even w : 0 < w -> B w = 2 * (B w / 2).
Proof.
  intros Hw. pose proof (Mod_even w 1 Hw ltac:(lia)) as H.
  unfold Mod in H. rewrite Z.mul_1_r in H. exact H.
Qed.

Lemma sd_range w x : 0 < w -> digit_ok w x -> - (B w / 2) <= sd w x < B w / 2.
Proof.
  intros Hw Hx. unfold sd. apply to_signed_range; auto using B_even. apply B_pos; lia.
Qed.

Lemma sd_cases w x : 0 < w -> digit_ok w x ->
  (x < B w / 2 /\ sd w x = x) \/ (B w / 2 <= x /\ sd w x = x - B w).
Proof.
  intros Hw Hx. unfold sd, to_signed. destruct (Z.ltb_spec x (B w / 2)); [left|right]; lia.
Qed.

Lemma sd_inj w x y : 0 < w -> digit_ok w x -> digit_ok w y -> sd w x = sd w y -> x = y.
Proof.
  intros Hw Hx Hy H. pose proof (B_even w Hw).
  destruct (sd_cases w x Hw Hx) as [[? ?]|[? ?]], (sd_cases w y Hw Hy) as [[? ?]|[? ?]];
    unfold digit_ok in *; lia.
Qed.

(* ---------- most-significant-digit decomposition ---------- *)

Lemma wf_snoc_inv w k ds : wf w (S k) ds ->
  exists lo x, ds = lo ++ [x] /\ wf w k lo /\ digit_ok w x.
Proof.
  intros [Hl Hf]. destruct (exists_last (l := ds)) as (lo & x & ->).
  { intros ->. discriminate. }
  exists lo, x. split; [reflexivity|].
  rewrite app_length in Hl. cbn [length] in Hl.
  apply Forall_app in Hf. destruct Hf as [Hlo Hx]. inversion Hx; subst.
  split; [split; [lia | assumption] | assumption].
Qed.

Lemma uval_snoc w k lo x : 0 <= w -> wf w k lo ->
  uval w (lo ++ [x]) = uval w lo + Mod w k * x.
Proof.
  intros Hw Hlo. rewrite uval_app by lia. rewrite (wf_length _ _ _ Hlo).
  cbn [uval]. ring.
Qed.

Lemma Mod_S_half w k : 0 < w -> Mod w (S k) / 2 = Mod w k * (B w / 2).
Proof.
  intros Hw. rewrite Mod_S by lia. pose proof (B_even w Hw) as He.
  rewrite He at 1. replace (2 * (B w / 2) * Mod w k) with (Mod w k * (B w / 2) * 2) by ring.
  apply Z.div_mul. lia.
Qed.

Lemma sval_snoc w k lo x : 0 < w -> wf w k lo -> digit_ok w x ->
  sval w (lo ++ [x]) = uval w lo + Mod w k * sd w x.
Proof.
  intros Hw Hlo Hx. unfold sval. rewrite app_length, (wf_length _ _ _ Hlo). cbn [length].
  replace (k + 1)%nat with (S k) by lia.
  rewrite (uval_snoc w k) by (auto; lia).
  pose proof (uval_bounds w k lo ltac:(lia) Hlo) as Hb.
  pose proof (Mod_pos w k ltac:(lia)) as HM.
  unfold to_signed. rewrite Mod_S_half by lia. rewrite Mod_S by lia.
  destruct (sd_cases w x Hw Hx) as [[Hlt ->]|[Hge ->]].
  - destruct (Z.ltb_spec (uval w lo + Mod w k * x) (Mod w k * (B w / 2))); [reflexivity | nia].
  - destruct (Z.ltb_spec (uval w lo + Mod w k * x) (Mod w k * (B w / 2))); [nia | ring].
Qed.

Lemma top_digit_snoc lo x : top_digit (lo ++ [x]) = x.
Proof. unfold top_digit. apply last_last. Qed.

(* ---------- unsigned comparison ---------- *)

Lemma ucmp_ok w n a b : 0 <= w -> wf w n a -> wf w n b ->
  ucmp a b = (uval w a ?= uval w b).
Proof.
  intros Hw. revert a b. induction n as [|n IH]; intros a b Ha Hb.
  - apply wf_inv_0 in Ha, Hb; subst. reflexivity.
  - destruct (wf_inv_S _ _ _ Ha) as (x & a' & -> & Hx & Ha').
    destruct (wf_inv_S _ _ _ Hb) as (y & b' & -> & Hy & Hb').
    cbn [ucmp uval]. rewrite (IH a' b' Ha' Hb'). unfold digit_ok in *.
    pose proof (B_pos w Hw) as HB.
    destruct (Z.compare_spec (uval w a') (uval w b')) as [He|Hlt|Hgt].
    + rewrite He. destruct (Z.ltb_spec y x).
      * symmetry. apply Z.compare_gt_iff. lia.
      * destruct (Z.ltb_spec x y).
        -- symmetry. apply Z.compare_lt_iff. lia.
        -- symmetry. apply Z.compare_eq_iff. lia.
    + symmetry. apply Z.compare_lt_iff. apply lex_lt; auto.
    + symmetry. apply Z.compare_gt_iff. apply lex_lt; auto.
Qed.

(* ---------- signed comparison ---------- *)

Lemma icmp_ok w n a b : 0 < w -> (0 < n)%nat -> wf w n a -> wf w n b ->
  icmp w a b = (sval w a ?= sval w b).
Proof.
  intros Hw Hn Ha Hb. destruct n as [|k]; [lia|].
  pose proof (ucmp_ok w (S k) a b ltac:(lia) Ha Hb) as Hu.
  destruct (wf_snoc_inv _ _ _ Ha) as (la & x & -> & Hla & Hx).
  destruct (wf_snoc_inv _ _ _ Hb) as (lb & y & -> & Hlb & Hy).
  unfold icmp, signed_digit. rewrite !top_digit_snoc. rewrite Hu.
  rewrite !(sval_snoc w k), !(uval_snoc w k) by (auto; lia).
  pose proof (uval_bounds w k la ltac:(lia) Hla) as Hba.
  pose proof (uval_bounds w k lb ltac:(lia) Hlb) as Hbb.
  destruct (Z.eqb_spec (sd w x) (sd w y)) as [He|Hne].
  - rewrite He. apply sd_inj in He; auto. subst y.
    apply cmp_shift.
  - destruct (Z.ltb_spec (sd w y) (sd w x)).
    + symmetry. apply Z.compare_gt_iff. apply top_lt; auto.
    + symmetry. apply Z.compare_lt_iff. apply top_lt; auto. lia.
Qed.

(* ---------- derived order operations, generic in the comparison ---------- *)

Lemma cmp_lt_ok p q : cmp_lt (p ?= q) = (p <? q).
Proof. unfold Z.ltb. destruct (p ?= q); reflexivity. Qed.
Lemma cmp_le_ok p q : cmp_le (p ?= q) = (p <=? q).
Proof. unfold Z.leb. destruct (p ?= q); reflexivity. Qed.
Lemma cmp_gt_ok p q : cmp_gt (p ?= q) = (q <? p).
Proof. rewrite Z.ltb_antisym. unfold Z.leb. destruct (p ?= q); reflexivity. Qed.
Lemma cmp_ge_ok p q : cmp_ge (p ?= q) = (q <=? p).
Proof. rewrite Z.leb_antisym. unfold Z.ltb. destruct (p ?= q); reflexivity. Qed.

Section Derived.
  Context (D : list Z -> Prop) (v : list Z -> Z) (cmp : list Z -> list Z -> comparison).
  Context (cmp_ok : forall a b, D a -> D b -> cmp a b = (v a ?= v b)).

  Lemma gen_lt a b : D a -> D b -> cmp_lt (cmp a b) = (v a <? v b).
  Proof. intros; rewrite cmp_ok by auto; apply cmp_lt_ok. Qed.
  Lemma gen_le a b : D a -> D b -> cmp_le (cmp a b) = (v a <=? v b).
  Proof. intros; rewrite cmp_ok by auto; apply cmp_le_ok. Qed.
  Lemma gen_gt a b : D a -> D b -> cmp_gt (cmp a b) = (v b <? v a).
  Proof. intros; rewrite cmp_ok by auto; apply cmp_gt_ok. Qed.
  Lemma gen_ge a b : D a -> D b -> cmp_ge (cmp a b) = (v b <=? v a).
  Proof. intros; rewrite cmp_ok by auto; apply cmp_ge_ok. Qed.

  Lemma gen_max a b : D a -> D b ->
    v (cmp_max (cmp a b) a b) = Z.max (v a) (v b) /\
    (cmp_max (cmp a b) a b = a \/ cmp_max (cmp a b) a b = b).
  Proof.
    intros Ha Hb. rewrite cmp_ok by auto. unfold cmp_max.
    destruct (Z.compare_spec (v a) (v b)); split; auto; lia.
  Qed.

  Lemma gen_min a b : D a -> D b ->
    v (cmp_min (cmp a b) a b) = Z.min (v a) (v b) /\
    (cmp_min (cmp a b) a b = a \/ cmp_min (cmp a b) a b = b).
  Proof.
    intros Ha Hb. rewrite cmp_ok by auto. unfold cmp_min.
    destruct (Z.compare_spec (v a) (v b)); split; auto; lia.
  Qed.

  Lemma gen_clamp a lo hi : D a -> D lo -> D hi ->
    (clamp cmp a lo hi = Panic <-> v hi < v lo) /\
    (v lo <= v hi -> exists r, clamp cmp a lo hi = Ret r /\
        v r = Z.max (v lo) (Z.min (v a) (v hi)) /\ (r = a \/ r = lo \/ r = hi)).
  Proof.
    intros Ha Hlo Hhi. unfold clamp. rewrite gen_le by auto.
    destruct (Z.leb_spec (v lo) (v hi)) as [Hle|Hlt].
    - split; [split; [discriminate | lia]|]. intros _.
      rewrite !cmp_ok by auto. eexists; split; [reflexivity|].
      destruct (Z.compare_spec (v a) (v lo)); destruct (Z.compare_spec (v a) (v hi));
        split; auto; lia.
    - split; [split; auto | lia].
  Qed.
End Derived.


(* ---------- equality ---------- *)

Lemma eq_digits_ok w n a b : wf w n a -> wf w n b -> (eq_digits a b = true <-> a = b).
Proof.
  revert a b. induction n as [|n IH]; intros a b Ha Hb.
  - apply wf_inv_0 in Ha, Hb; subst. split; reflexivity.
  - destruct (wf_inv_S _ _ _ Ha) as (x & a' & -> & Hx & Ha').
    destruct (wf_inv_S _ _ _ Hb) as (y & b' & -> & Hy & Hb').
    cbn [eq_digits]. destruct (Z.eqb_spec x y) as [->|Hne].
    + rewrite (IH a' b' Ha' Hb'). split; [intros ->; reflexivity | intros H; inversion H; reflexivity].
    + split; [discriminate | intros H; inversion H; contradiction].
Qed.

Lemma eq_uval w n a b : 0 <= w -> wf w n a -> wf w n b -> (a = b <-> uval w a = uval w b).
Proof. intros Hw Ha Hb. split; [intros ->; reflexivity | apply (uval_inj w n); auto]. Qed.

Lemma uval_sval_eq w n a b : 0 < w -> wf w n a -> wf w n b ->
  (uval w a = uval w b <-> sval w a = sval w b).
Proof.
  intros Hw Ha Hb. split; intros H.
  - unfold sval. rewrite (wf_length _ _ _ Ha), (wf_length _ _ _ Hb), H. reflexivity.
  - pose proof (sval_mod w n a Hw Ha) as Hma. pose proof (sval_mod w n b Hw Hb) as Hmb.
    rewrite H in Hma. rewrite Hma in Hmb.
    rewrite !Z.mod_small in Hmb by (apply uval_bounds; auto; lia). exact Hmb.
Qed.

Lemma eq_digits_uval w n a b : 0 <= w -> wf w n a -> wf w n b ->
  (eq_digits a b = true <-> uval w a = uval w b).
Proof. intros. rewrite (eq_digits_ok w n) by auto. apply (eq_uval w n); auto. Qed.

Lemma eq_digits_sval w n a b : 0 < w -> wf w n a -> wf w n b ->
  (eq_digits a b = true <-> sval w a = sval w b).
Proof.
  intros. rewrite (eq_digits_uval w n) by (auto; lia). apply uval_sval_eq with n; auto.
Qed.

(* ---------- hashing ----------
   `#[derive(Hash)]` on `struct BUint { digits: [Digit; N] }` (and on the BInt
   newtype around it) feeds the digit array, in index order, to the Hasher.  The
   stream below is therefore everything the Hasher sees; any deterministic
   Hasher maps equal streams to equal hashes. *)
Definition hash_stream (ds : list Z) : list Z := ds.

Lemma hash_eq_stream (a b : list Z) : a = b -> hash_stream a = hash_stream b.
Proof. intros ->; reflexivity. Qed.

Lemma hash_equal_values w n a b : 0 <= w -> wf w n a -> wf w n b ->
  uval w a = uval w b -> hash_stream a = hash_stream b.
Proof. intros Hw Ha Hb H. unfold hash_stream. apply (uval_inj w n); auto. Qed.

Lemma hash_equal_svalues w n a b : 0 < w -> wf w n a -> wf w n b ->
  sval w a = sval w b -> hash_stream a = hash_stream b.
Proof.
  intros Hw Ha Hb H. apply (hash_equal_values w n); auto; try lia.
  apply (uval_sval_eq w n); auto.
Qed.

(* ---------- constants and zero test ---------- *)

Lemma is_zero_ok w n ds : 0 <= w -> wf w n ds -> is_zero ds = (uval w ds =? 0).
Proof.
  intros Hw. revert ds. induction n as [|n IH]; intros ds H.
  - apply wf_inv_0 in H; subst. reflexivity.
  - destruct (wf_inv_S _ _ _ H) as (d & r & -> & Hd & Hr). cbn [is_zero uval].
    pose proof (uval_bounds w n r Hw Hr) as Hb. pose proof (B_pos w Hw) as HB.
    unfold digit_ok in Hd.
    destruct (Z.eqb_spec d 0) as [->|Hne].
    + rewrite (IH r Hr). destruct (Z.eqb_spec (uval w r) 0) as [->|Hr0].
      * symmetry. apply Z.eqb_eq. lia.
      * symmetry. apply Z.eqb_neq. nia.
    + symmetry. apply Z.eqb_neq. nia.
Qed.

Lemma uval_repeat_0 w n : uval w (repeat 0 n) = 0.
Proof. induction n as [|n IH]; cbn [repeat uval]; [reflexivity | rewrite IH; lia]. Qed.

Lemma wf_repeat w n d : digit_ok w d -> wf w n (repeat d n).
Proof.
  intros Hd. split; [apply repeat_length|]. apply Forall_forall. intros x Hx.
  apply repeat_spec in Hx. subst. exact Hd.
Qed.

Lemma uval_repeat_max w n : 0 <= w -> uval w (repeat (u_max w) n) = Mod w n - 1.
Proof.
  intros Hw. induction n as [|n IH]; cbn [repeat uval].
  - rewrite Mod_0. reflexivity.
  - rewrite IH, Mod_S by lia. unfold u_max. ring.
Qed.

Lemma digit_ok_0 w : 0 <= w -> digit_ok w 0.
Proof. intros Hw. pose proof (B_pos w Hw). unfold digit_ok. lia. Qed.

Lemma digit_ok_max w : 0 <= w -> digit_ok w (u_max w).
Proof. intros Hw. pose proof (B_pos w Hw). unfold digit_ok, u_max. lia. Qed.

Lemma digit_ok_1 w : 0 < w -> digit_ok w 1.
Proof. intros Hw. pose proof (B_ge_2 w Hw). unfold digit_ok. lia. Qed.

Lemma wf_ZERO w n : 0 <= w -> wf w n (ZERO n).
Proof. intros. apply wf_repeat, digit_ok_0; auto. Qed.
Lemma uval_ZERO w n : uval w (ZERO n) = 0.
Proof. apply uval_repeat_0. Qed.
Lemma wf_UMAX w n : 0 <= w -> wf w n (UMAX w n).
Proof. intros. apply wf_repeat, digit_ok_max; auto. Qed.
Lemma uval_UMAX w n : 0 <= w -> uval w (UMAX w n) = Mod w n - 1.
Proof. apply uval_repeat_max. Qed.
Lemma wf_ONE w n : 0 < w -> wf w n (ONE n).
Proof.
  intros Hw. destruct n as [|k]; [apply wf_nil|]. unfold ONE, from_digit.
  apply wf_cons. split; [apply digit_ok_1; auto | apply wf_repeat, digit_ok_0; lia].
Qed.
Lemma uval_ONE w k : uval w (ONE (S k)) = 1.
Proof. unfold ONE, from_digit. cbn [uval]. rewrite uval_repeat_0. lia. Qed.

Lemma sval_of_uval w n ds : wf w n ds -> sval w ds = to_signed (Mod w n) (uval w ds).
Proof. intros H. unfold sval. rewrite (wf_length _ _ _ H). reflexivity. Qed.

(* ---------- sign predicates ---------- *)

Lemma is_negative_ok w n a : 0 < w -> (0 < n)%nat -> wf w n a ->
  is_negative w a = (sval w a <? 0).
Proof.
  intros Hw Hn Ha. destruct n as [|k]; [lia|].
  destruct (wf_snoc_inv _ _ _ Ha) as (lo & x & -> & Hlo & Hx).
  unfold is_negative, signed_digit. rewrite top_digit_snoc, (sval_snoc w k) by auto.
  pose proof (uval_bounds w k lo ltac:(lia) Hlo) as Hb.
  destruct (Z.ltb_spec (sd w x) 0); destruct (Z.ltb_spec (uval w lo + Mod w k * sd w x) 0);
    try reflexivity; nia.
Qed.

Lemma is_positive_ok w n a : 0 < w -> (0 < n)%nat -> wf w n a ->
  is_positive w a = (0 <? sval w a).
Proof.
  intros Hw Hn Ha. destruct n as [|k]; [lia|].
  unfold is_positive, signed_digit. rewrite (is_zero_ok w (S k) a ltac:(lia) Ha).
  destruct (wf_snoc_inv _ _ _ Ha) as (lo & x & -> & Hlo & Hx). rewrite top_digit_snoc, (sval_snoc w k), (uval_snoc w k) by (auto; lia).
  pose proof (uval_bounds w k lo ltac:(lia) Hlo) as Hb.
  destruct (sd_cases w x Hw Hx) as [[Hlt Hs]|[Hge Hs]]; rewrite Hs; unfold digit_ok in Hx.
  - destruct (Z.ltb_spec 0 x); cbn [orb].
    + symmetry. apply Z.ltb_lt. nia.
    + assert (x = 0) by lia. subst x. rewrite Z.eqb_refl. cbn [andb].
      rewrite Z.mul_0_r, Z.add_0_r.
      destruct (Z.eqb_spec (uval w lo) 0); destruct (Z.ltb_spec 0 (uval w lo)); cbn [negb];
        try reflexivity; lia.
  - destruct (Z.ltb_spec 0 (x - B w)); [lia|].
    destruct (Z.eqb_spec (x - B w) 0); [lia|]. cbn [orb andb].
    symmetry. apply Z.ltb_ge. nia.
Qed.

Lemma zero_neither w n a : 0 < w -> (0 < n)%nat -> wf w n a -> sval w a = 0 ->
  is_positive w a = false /\ is_negative w a = false.
Proof.
  intros Hw Hn Ha H0. rewrite (is_positive_ok w n), (is_negative_ok w n) by auto.
  rewrite H0. split; reflexivity.
Qed.

Lemma signum_ok w n a : 0 < w -> (0 < n)%nat -> wf w n a ->
  wf w n (signum w a) /\ sval w (signum w a) = Z.sgn (sval w a).
Proof.
  intros Hw Hn Ha. unfold signum. rewrite (is_negative_ok w n) by auto.
  rewrite (is_zero_ok w n a ltac:(lia) Ha), (wf_length _ _ _ Ha).
  pose proof (sval_range w n a Hw Hn Ha) as Hr.
  pose proof (Mod_even w n Hw Hn) as He. pose proof (Mod_pos w n ltac:(lia)) as HM.
  pose proof (uval_bounds w n a ltac:(lia) Ha) as Hb.
  pose proof (sval_of_uval w n a Ha) as Hs. unfold to_signed in Hs.
  destruct (Z.ltb_spec (sval w a) 0) as [Hneg|Hnn].
  - split; [apply wf_UMAX; lia|]. unfold NEG_ONE.
    rewrite (sval_of_uval w n) by (apply wf_UMAX; lia). rewrite uval_UMAX by lia.
    unfold to_signed. destruct (Z.ltb_spec (Mod w n - 1) (Mod w n / 2)).
    + assert (Mod w n / 2 = 1) by lia. lia.
    + rewrite Z.sgn_neg by lia. lia.
  - destruct (Z.ltb_spec (uval w a) (Mod w n / 2)); [|lia].
    destruct (Z.eqb_spec (uval w a) 0) as [H0|Hn0].
    + split; [apply wf_ZERO; lia|]. rewrite (sval_of_uval w n) by (apply wf_ZERO; lia).
      rewrite uval_ZERO. unfold to_signed. rewrite Hs, H0. cbn [Z.sgn].
      destruct (Z.ltb_spec 0 (Mod w n / 2)); lia.
    + split; [apply wf_ONE; lia|]. rewrite (sval_of_uval w n) by (apply wf_ONE; lia).
      destruct n as [|k]; [lia|]. rewrite uval_ONE. unfold to_signed.
      rewrite Z.sgn_pos by lia.
      destruct (Z.ltb_spec 1 (Mod w (S k) / 2)); lia.
Qed.

(* ---------- instances of the derived operations ---------- *)

Section Inst.
  Context (w : Z) (n : nat) (Hw : 0 < w) (Hn : (0 < n)%nat).

  Let ucmp_ok' : forall a b, wf w n a -> wf w n b -> ucmp a b = (uval w a ?= uval w b).
  Proof. intros; apply (ucmp_ok w n); auto; lia. Qed.
  Let icmp_ok' : forall a b, wf w n a -> wf w n b -> icmp w a b = (sval w a ?= sval w b).
  Proof. intros; apply (icmp_ok w n); auto. Qed.

  Definition U_lt_ok := gen_lt (wf w n) (uval w) ucmp ucmp_ok'.
  Definition U_le_ok := gen_le (wf w n) (uval w) ucmp ucmp_ok'.
  Definition U_gt_ok := gen_gt (wf w n) (uval w) ucmp ucmp_ok'.
  Definition U_ge_ok := gen_ge (wf w n) (uval w) ucmp ucmp_ok'.
  Definition U_max_ok := gen_max (wf w n) (uval w) ucmp ucmp_ok'.
  Definition U_min_ok := gen_min (wf w n) (uval w) ucmp ucmp_ok'.
  Definition U_clamp_ok := gen_clamp (wf w n) (uval w) ucmp ucmp_ok'.
  Definition I_lt_ok := gen_lt (wf w n) (sval w) (icmp w) icmp_ok'.
  Definition I_le_ok := gen_le (wf w n) (sval w) (icmp w) icmp_ok'.
  Definition I_gt_ok := gen_gt (wf w n) (sval w) (icmp w) icmp_ok'.
  Definition I_ge_ok := gen_ge (wf w n) (sval w) (icmp w) icmp_ok'.
  Definition I_max_ok := gen_max (wf w n) (sval w) (icmp w) icmp_ok'.
  Definition I_min_ok := gen_min (wf w n) (sval w) (icmp w) icmp_ok'.
  Definition I_clamp_ok := gen_clamp (wf w n) (sval w) (icmp w) icmp_ok'.
End Inst.

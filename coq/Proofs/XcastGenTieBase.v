(* Proofs/XcastGenTieBase.v — lemmas shared by the ties of Generated/XcastGen.v (tools/rs2v_xcast.py): the checked operations of
   Model/Imp.v / Model/ImpXcast.v against the `outcome` primitives of the hand model (Model/Cast.v rd, wr, shl_chk, shr_chk), and the
   two loops of the *_as_different_digit_bigint! macros (split a wider digit / pack narrower digits), each proved ONCE against
   Cast.split_body / Cast.pack_body by induction on the hand model's own budget. *)
From Bnum Require Import Base Prim.
From Bnum.Model Require Import DigitPrims LoopPrims Core Imp ImpXcast.
From Bnum.Model Require Cast Convert.
From Bnum.Proofs Require Import ImpLemmas ImpLemmas2 ConvGenTieBase.

Lemma udiv_nat a b : (0 < b)%nat -> udiv (Z.of_nat a) (Z.of_nat b) = Done (Z.of_nat (a / b)).
Proof.
  intros Hb. unfold udiv. destruct (Z.eqb_spec (Z.of_nat b) 0) as [E|_]; [lia|]. rewrite Nat2Z.inj_div. reflexivity.
Qed.

Lemma urem_nat a b : (0 < b)%nat -> urem (Z.of_nat a) (Z.of_nat b) = Done (Z.of_nat (a mod b)).
Proof.
  intros Hb. unfold urem. destruct (Z.eqb_spec (Z.of_nat b) 0) as [E|_]; [lia|]. rewrite Nat2Z.inj_mod. reflexivity.
Qed.

Lemma udiv_pos a b : 0 < b -> udiv a b = Done (a / b).
Proof. intros Hb. unfold udiv. destruct (Z.eqb_spec b 0) as [E|_]; [lia|]. reflexivity. Qed.

Lemma shr_chk_lt dbg bits x s : s < bits -> Cast.shr_chk dbg bits x s = Ret (u_shr x s).
Proof. intros H. unfold Cast.shr_chk. destruct (Z.ltb_spec s bits); [|lia]. reflexivity. Qed.

Lemma wr_arr_set out i d : of_out (Cast.wr out i d) = arr_set out (Z.of_nat i) d.
Proof. exact (wr_as_arr_set out i d). Qed.

Lemma of_out_omap_obind {A C D} (g : C -> D) (o : outcome A) (k : A -> outcome C) :
  of_out (omap g (obind o k)) = bind (of_out o) (fun a => of_out (omap g (k a))).
Proof. destruct o; reflexivity. Qed.

Lemma eqb_of_nat a b : (Z.of_nat a =? Z.of_nat b) = (a =? b)%nat.
Proof. destruct (Z.eqb_spec (Z.of_nat a) (Z.of_nat b)), (Nat.eqb_spec a b); try reflexivity; lia. Qed.

(* mini_shift * (narrow width) stays below the wide width: mini_shift < dc, dc * narrow <= wide *)
Lemma mini_shift_range (dc i : nat) narrow wide : (0 < dc)%nat -> 0 < narrow -> Z.of_nat dc * narrow <= wide ->
  0 <= Z.of_nat (i mod dc) * narrow < wide.
Proof.
  intros Hdc Hn Hw. pose proof (Nat.mod_upper_bound i dc ltac:(lia)) as Hm. nia.
Qed.

(* ---------- the digit-splitting loop (the target digit is narrower): buint_ and bint_as_different_digit_bigint!, first branch ---------- *)
(* w = the width of the target digit ($Digit), ow = the width of the source digit ($OtherDigit) *)
Lemma split_loop_tie dbg w lg ow (dc stop : nat) from : 0 <= lg -> w = 2 ^ lg -> (0 < dc)%nat -> Z.of_nat dc * w <= ow ->
  forall f fuel i out, (stop <= i + f)%nat -> (f <= fuel)%nat ->
  bind (while_loop (R := list Z) fuel
          (fun '(out, i) => (i <? Z.of_nat stop))
          (fun '(out, i) =>
             t2' <- udiv i (Z.of_nat dc) ;;
             t3' <- arr_get from t2' ;;
             let wider_digit := t3' in
             t4' <- urem i (Z.of_nat dc) ;;
             let mini_shift := t4' in
             t5' <- dshr ow wider_digit (ix_shl mini_shift (digit_BIT_SHIFT w)) ;;
             let digit := (ud w t5') in
             out <- arr_set out i digit ;;
             let i := (i + 1) in
             Done (Continue (out, i)))
          (out, Z.of_nat i))
       (fun t' => match t' with Exited (out, i) => Done out | Returned r' => Done r' end)
  = of_out (Cast.while_ f (fun i _ => (i <? stop)%nat) (Cast.split_body dbg ow w dc from) i out).
Proof.
  intros Hlg Hw Hdc Hfit. assert (Hw0 : 0 < w) by (subst w; apply Z.pow_pos_nonneg; lia).
  induction f as [|f IH]; intros fuel i out Hend Hf.
  - cbn [Cast.while_ of_out]. rewrite while_loop_cond_false; [reflexivity|].
    rewrite ltb_of_nat. apply Nat.ltb_ge. lia.
  - cbn [Cast.while_]. destruct (Nat.ltb_spec i stop) as [Hlt|Hge].
    + destruct fuel as [|fuel]; [lia|]. rewrite while_loop_S. cbv beta iota.
      rewrite ltb_of_nat. destruct (Nat.ltb_spec i stop) as [_|?]; [|lia].
      rewrite of_out_obind. unfold Cast.split_body at 1. rewrite udiv_nat by exact Hdc. cbn [bind].
      rewrite of_out_obind, <- rd_as_arr_get. destruct (Cast.rd from (i / dc)) as [d|]; [|reflexivity]. cbn [of_out bind].
      rewrite urem_nat by exact Hdc. cbn [bind]. cbv zeta.
      rewrite (ix_shl_BIT_SHIFT w lg) by assumption.
      pose proof (mini_shift_range dc i w ow Hdc Hw0 Hfit) as Hr.
      rewrite dshr_ok by exact Hr. rewrite shr_chk_lt by lia. cbn [bind obind].
      rewrite <- wr_arr_set. destruct (Cast.wr out i _) as [out'|]; [|reflexivity]. cbn [of_out bind].
      replace (Z.of_nat i + 1) with (Z.of_nat (S i)) by lia. apply IH; lia.
    + cbn [of_out]. rewrite while_loop_cond_false; [reflexivity|].
      rewrite ltb_of_nat. apply Nat.ltb_ge. lia.
Qed.

(* ---------- the digit-packing loop (the target digit is at least as wide): second branch ---------- *)
(* the accumulation statement in one shape: `current_digit = h(current_digit, (g(from.digits[i]) as $Digit) << (mini_shift << BIT_SHIFT))`;
   buint macro: g = identity, h = |;  bint macro: g = !, h = fun cur t => cur & !t *)
Definition pack_comb (dbg : bool) (w ow : Z) (g : Z -> Z) (h : Z -> Z -> Z) (cur d : Z) (mini_shift : nat) : outcome Z :=
  obind (Cast.shl_chk dbg w (ud w (g d)) (Z.of_nat mini_shift * ow)) (fun t => Ret (h cur t)).

Lemma pack_or_comb dbg w ow : Cast.pack_or dbg ow w = pack_comb dbg w ow (fun x => x) (dg_or w).
Proof. reflexivity. Qed.

Lemma pack_and_comb dbg w ow : Cast.pack_and dbg ow w = pack_comb dbg w ow (u_not ow) (fun cur t => dg_and w cur (u_not w t)).
Proof. reflexivity. Qed.

Lemma pack_loop_tie dbg w ow lg' (dc stop : nat) from g h init :
  0 <= lg' -> ow = 2 ^ lg' -> (0 < dc)%nat -> Z.of_nat dc * ow <= w ->
  forall f fuel i out cur, (stop <= i + f)%nat -> (f <= fuel)%nat ->
  bind (while_loop (R := list Z) fuel
          (fun '(out, current_digit, i) => (i <? Z.of_nat stop))
          (fun '(out, current_digit, i) =>
             t9' <- urem i (Z.of_nat dc) ;;
             let mini_shift := t9' in
             t10' <- arr_get from i ;;
             t11' <- dshl w (ud w (g t10')) (ix_shl mini_shift (digit_BIT_SHIFT ow)) ;;
             let current_digit := (h current_digit t11') in
             t12' <- usub (Z.of_nat dc) 1 ;;
             t14' <- (if (mini_shift =? t12') then Done true else (t13' <- usub (Z.of_nat stop) 1 ;; Done (i =? t13'))) ;;
             if t14' then (
               t15' <- udiv i (Z.of_nat dc) ;;
               out <- arr_set out t15' current_digit ;;
               let current_digit := init in
               let i := (i + 1) in
               Done (Continue (out, current_digit, i))
             ) else (
               let i := (i + 1) in
               Done (Continue (out, current_digit, i))
             ))
          (out, cur, Z.of_nat i))
       (fun t' => match t' with Exited (out, current_digit, i) => Done out | Returned r' => Done r' end)
  = of_out (omap fst (Cast.while_ f (fun i _ => (i <? stop)%nat)
                        (Cast.pack_body dc stop from init (pack_comb dbg w ow g h)) i (out, cur))).
Proof.
  intros Hlg Hw Hdc Hfit. assert (Hw0 : 0 < ow) by (subst ow; apply Z.pow_pos_nonneg; lia).
  induction f as [|f IH]; intros fuel i out cur Hend Hf.
  - cbn [Cast.while_ omap fst of_out]. rewrite while_loop_cond_false; [reflexivity|].
    rewrite ltb_of_nat. apply Nat.ltb_ge. lia.
  - cbn [Cast.while_]. destruct (Nat.ltb_spec i stop) as [Hlt|Hge].
    + destruct fuel as [|fuel]; [lia|].
      match goal with |- context [while_loop _ _ ?b _] => set (body := b) end.
      rewrite while_loop_S. unfold body at 1. cbv beta iota.
      rewrite ltb_of_nat. destruct (Nat.ltb_spec i stop) as [_|?]; [|lia].
      rewrite of_out_omap_obind. unfold Cast.pack_body at 1. rewrite urem_nat by exact Hdc. cbn [bind]. cbv zeta.
      rewrite of_out_obind, <- rd_as_arr_get. destruct (Cast.rd from i) as [d|]; [|reflexivity]. cbn [of_out bind].
      rewrite (ix_shl_BIT_SHIFT ow lg') by assumption.
      pose proof (mini_shift_range dc i ow w Hdc Hw0 Hfit) as Hr.
      rewrite dshl_ok by exact Hr. unfold pack_comb at 1. rewrite shl_chk_in_range by lia. cbn [bind obind].
      replace 1 with (Z.of_nat 1) by reflexivity. rewrite !usub_nat by lia. cbn [bind].
      rewrite !eqb_of_nat.
      assert (Hc : forall c1 c2 : bool, (if c1 then Done true else Done c2) = Done (c1 || c2)) by (intros [|] c2; reflexivity).
      rewrite Hc. cbn [bind].
      destruct ((i mod dc =? dc - 1) || (i =? stop - 1))%nat.
      * rewrite udiv_nat by exact Hdc. cbn [bind]. rewrite <- wr_arr_set.
        destruct (Cast.wr out (i / dc) _) as [out'|]; [|reflexivity]. cbn [of_out bind obind].
        replace (Z.of_nat i + Z.of_nat 1) with (Z.of_nat (S i)) by lia. subst body. apply IH; lia.
      * replace (Z.of_nat i + Z.of_nat 1) with (Z.of_nat (S i)) by lia. subst body. apply IH; lia.
    + cbn [omap fst of_out]. rewrite while_loop_cond_false; [reflexivity|].
      rewrite ltb_of_nat. apply Nat.ltb_ge. lia.
Qed.

(* ---------- the loop bounds: stop_index never exceeds the size of the target (split) / of the source (pack) ---------- *)
Lemma split_stop_le w ow (n m : nat) : 0 < w -> w <= ow ->
  (Cast.split_stop ow m w n (Z.to_nat (ow / w)) <= n)%nat.
Proof.
  intros Hw Hle. unfold Cast.split_stop, bits. destruct (Z.ltb_spec (w * Z.of_nat n) (ow * Z.of_nat m)) as [H|H]; [lia|].
  assert (Hq : 0 <= ow / w) by (apply Z.div_pos; lia).
  assert (Hm : (ow / w) * w <= ow) by (rewrite Z.mul_comm; apply Z.mul_div_le; lia).
  assert (Z.of_nat (m * Z.to_nat (ow / w)) <= Z.of_nat n); [|lia].
  rewrite Nat2Z.inj_mul, Z2Nat.id by lia. nia.
Qed.

Lemma pack_stop_le w ow (n m : nat) : 0 < ow -> ow <= w ->
  (Cast.pack_stop ow m w n (Z.to_nat (w / ow)) <= m)%nat.
Proof.
  intros Hw Hle. unfold Cast.pack_stop, bits. destruct (Z.ltb_spec (w * Z.of_nat n) (ow * Z.of_nat m)) as [H|H]; [|lia].
  assert (Hq : 0 <= w / ow) by (apply Z.div_pos; lia).
  assert (Hm : (w / ow) * ow <= w) by (rewrite Z.mul_comm; apply Z.mul_div_le; lia).
  assert (Z.of_nat (n * Z.to_nat (w / ow)) <= Z.of_nat m); [|lia].
  rewrite Nat2Z.inj_mul, Z2Nat.id by lia. nia.
Qed.

(* the quotient of the digit widths as a digit count *)
Lemma divide_count_fit wide narrow : 0 < narrow -> narrow <= wide ->
  (0 < Z.to_nat (wide / narrow))%nat /\ Z.of_nat (Z.to_nat (wide / narrow)) * narrow <= wide /\
  Z.of_nat (Z.to_nat (wide / narrow)) = wide / narrow.
Proof.
  intros Hn Hle. assert (Hq : 0 < wide / narrow) by (apply Z.div_str_pos; lia).
  rewrite Z2Nat.id by lia. split; [lia|]. split; [|reflexivity]. rewrite Z.mul_comm. apply Z.mul_div_le. lia.
Qed.

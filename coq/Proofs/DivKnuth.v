(* Proofs/DivKnuth.v — list-level lemmas for Knuth D (Model/Div.v): Mul_new, Remainder_new/sub/add/shr,
   normalising shift, the quotient estimate on digit windows. *)
From Bnum Require Import Base Prim.
From Bnum.Model Require Import Digit Core Shift AddSub Mul Div.
From Bnum.Proofs Require Import DivAux DivValue DivDigit.

(* ---------- list helpers ---------- *)

Lemma firstn_exact {A} (a b : list A) : firstn (length a) (a ++ b) = a.
Proof. induction a; cbn [length firstn app]; [destruct b; reflexivity | f_equal; auto]. Qed.

Lemma skipn_exact {A} (a b : list A) : skipn (length a) (a ++ b) = b.
Proof. induction a; cbn [length skipn app]; auto. Qed.

Lemma firstn_exact' {A} k (a b : list A) : k = length a -> firstn k (a ++ b) = a.
Proof. intros ->. apply firstn_exact. Qed.

Lemma skipn_exact' {A} k (a b : list A) : k = length a -> skipn k (a ++ b) = b.
Proof. intros ->. apply skipn_exact. Qed.

Lemma firstn_all' {A} k (a : list A) : k = length a -> firstn k a = a.
Proof. intros ->. apply firstn_all. Qed.

Lemma nth_d_app k a b : k = length a -> nth_d k (a ++ b) = hd 0 b.
Proof.
  intros ->. unfold nth_d. rewrite app_nth2 by lia. rewrite Nat.sub_diag. destruct b; reflexivity.
Qed.

Lemma set_nth_app f k a d r : k = length a -> set_nth k f (a ++ d :: r) = a ++ f d :: r.
Proof. intros ->. unfold set_nth. rewrite firstn_exact, skipn_exact. reflexivity. Qed.

Lemma split_last3 {A} (l : list A) k : length l = (k + 3)%nat ->
  exists lo a b c, l = lo ++ [a; b; c] /\ length lo = k.
Proof.
  intros H. exists (firstn k l).
  pose proof (firstn_skipn k l) as E.
  assert (Hs : length (skipn k l) = 3%nat) by (rewrite skipn_length; lia).
  destruct (skipn k l) as [|a [|b [|c [|? ?]]]]; cbn in Hs; try lia.
  exists a, b, c. split; [auto | rewrite firstn_length; lia].
Qed.

Lemma split_last1 {A} (l : list A) k : length l = S k ->
  exists lo a, l = lo ++ [a] /\ length lo = k.
Proof.
  intros H. exists (firstn k l).
  pose proof (firstn_skipn k l) as E.
  assert (Hs : length (skipn k l) = 1%nat) by (rewrite skipn_length; lia).
  destruct (skipn k l) as [|a [|? ?]]; cbn in Hs; try lia.
  exists a. split; [auto | rewrite firstn_length; lia].
Qed.

Lemma wf_app_inv w a b : Forall (digit_ok w) (a ++ b) -> Forall (digit_ok w) a /\ Forall (digit_ok w) b.
Proof. apply Forall_app. Qed.

Lemma wf_of_Forall w l : Forall (digit_ok w) l -> wf w (length l) l.
Proof. intros; split; auto. Qed.

(* ---------- the lexicographic test ---------- *)

Lemma tuple_gt_spec Bw p u2 rh : 0 < Bw -> 0 <= u2 < Bw ->
  tuple_gt (p mod Bw, p / Bw) (u2, rh) = (rh * Bw + u2 <? p).
Proof.
  intros HB Hu2. pose proof (Z.div_mod p Bw ltac:(lia)). pose proof (Z.mod_pos_bound p Bw HB).
  unfold tuple_gt. cbn [fst snd].
  destruct (Z.ltb_spec rh (p / Bw)); destruct (Z.eqb_spec (p / Bw) rh);
    destruct (Z.ltb_spec u2 (p mod Bw)); destruct (Z.ltb_spec (rh * Bw + u2) p);
    cbn [orb andb]; try reflexivity; nia.
Qed.

Lemma qhat_calc_le Bw t u2 v1 v2 : qhat_calc Bw t u2 v1 v2 <= t / v1.
Proof.
  unfold qhat_calc.
  destruct (_ <? _); [|lia]. destruct (_ <? _); [|lia]. destruct (_ <? _); lia.
Qed.

Lemma knuth_qhat_eq w pre wlo u2 u1 u0 post j n v1 v2 :
  0 <= w -> j = length pre -> (n = length wlo + 2)%nat ->
  digit_ok w u2 -> digit_ok w u1 -> digit_ok w u0 -> 0 < v1 <= B w ->
  knuth_qhat w (pre ++ (wlo ++ [u2; u1; u0]) ++ post) j n v1 v2 =
  if u0 <? v1 then qhat_calc (B w) (u0 * B w + u1) u2 v1 v2 else B w - 1.
Proof.
  intros Hw Hj Hn Hu2 Hu1 Hu0 Hv1. unfold knuth_qhat.
  pose proof (B_pos w Hw) as HB.
  assert (E0 : nth_d (j + n) (pre ++ (wlo ++ [u2; u1; u0]) ++ post) = u0).
  { replace (pre ++ (wlo ++ [u2; u1; u0]) ++ post) with ((pre ++ wlo ++ [u2; u1]) ++ u0 :: post)
      by (rewrite <- !app_assoc; reflexivity).
    apply nth_d_app. rewrite !app_length. cbn [length]. lia. }
  assert (E1 : nth_d (j + n - 1) (pre ++ (wlo ++ [u2; u1; u0]) ++ post) = u1).
  { replace (pre ++ (wlo ++ [u2; u1; u0]) ++ post) with ((pre ++ wlo ++ [u2]) ++ u1 :: u0 :: post)
      by (rewrite <- !app_assoc; reflexivity).
    apply nth_d_app. rewrite !app_length. cbn [length]. lia. }
  assert (E2 : nth_d (j + n - 2) (pre ++ (wlo ++ [u2; u1; u0]) ++ post) = u2).
  { replace (pre ++ (wlo ++ [u2; u1; u0]) ++ post) with ((pre ++ wlo) ++ u2 :: u1 :: u0 :: post)
      by (rewrite <- !app_assoc; reflexivity).
    apply nth_d_app. rewrite !app_length. lia. }
  rewrite E0, E1, E2.
  destruct (Z.ltb_spec u0 v1) as [Hlt|Hge]; [|reflexivity].
  unfold digit_ok in *.
  rewrite div_rem_wide_spec by lia.
  replace (u1 + B w * u0) with (u0 * B w + u1) by lia.
  set (t := u0 * B w + u1).
  unfold qhat_calc, widening_mul.
  rewrite !tuple_gt_spec by lia.
  destruct (_ <? _); [|reflexivity].
  destruct (_ <? _); [|reflexivity].
  destruct (_ <? _); [lia | reflexivity].
Qed.

(* ---------- Mul::new ---------- *)

Lemma carrying_mul_spec w d q c : 0 <= w -> digit_ok w d -> digit_ok w q -> digit_ok w c ->
  let '(p, c') := carrying_mul w d q c 0 in
  digit_ok w p /\ digit_ok w c' /\ p + B w * c' = c + d * q.
Proof.
  intros Hw Hd Hq Hc. unfold carrying_mul, digit_ok in *. pose proof (B_pos w Hw) as HB.
  set (prod := c + 0 + d * q).
  assert (Hp : 0 <= prod < B w * B w) by (unfold prod; nia).
  pose proof (Z.div_mod prod (B w) ltac:(lia)). pose proof (Z.mod_pos_bound prod (B w) HB).
  assert (0 <= prod / B w < B w).
  { split; [apply Z.div_pos; lia | apply Z.div_lt_upper_bound; lia]. }
  rewrite (Z.mod_small (prod / B w)) by lia.
  split; [lia|]. split; [lia|]. unfold prod in *. lia.
Qed.

Lemma mul_digit_loop_spec w q : 0 <= w -> digit_ok w q -> forall v c, Forall (digit_ok w) v -> digit_ok w c ->
  wf w (S (length v)) (mul_digit_loop w v q c) /\
  uval w (mul_digit_loop w v q c) = uval w v * q + c.
Proof.
  intros Hw Hq. induction v as [|d r IH]; intros c Hv Hc.
  - cbn [mul_digit_loop length uval]. split; [|lia]. apply wf_cons. split; [auto | apply wf_nil].
  - inversion Hv as [|? ? Hd Hr]; subst. cbn [mul_digit_loop].
    pose proof (carrying_mul_spec w d q c Hw Hd Hq Hc) as H.
    destruct (carrying_mul w d q c 0) as [p c'].
    destruct H as (Hp & Hc' & Hv1).
    destruct (IH c' Hr Hc') as [Hwf Hval].
    cbn [length uval]. split; [apply wf_cons; auto|].
    rewrite Hval. nia.
Qed.

Lemma Mul_new_spec w n v q : 0 <= w -> wf w n v -> digit_ok w q ->
  wf w (S n) (Mul_new w v q) /\ uval w (Mul_new w v q) = uval w v * q.
Proof.
  intros Hw [Hl Hf] Hq. unfold Mul_new.
  destruct (mul_digit_loop_spec w q Hw Hq v 0 Hf (digit_ok_0 w Hw)) as [H1 H2].
  rewrite Hl in H1. split; [auto | lia].
Qed.

(* ---------- normalising left shift ---------- *)

Lemma shl_bits_spec w s : 0 < s < w -> forall ds c, Forall (digit_ok w) ds -> 0 <= c < 2 ^ s ->
  exists co, 0 <= co < 2 ^ s /\ wf w (length ds) (shl_bits w s ds c) /\
    uval w (shl_bits w s ds c) + Mod w (length ds) * co = uval w ds * 2 ^ s + c.
Proof.
  intros Hs. assert (Hw : 0 <= w) by lia.
  pose proof (pow2_pos s ltac:(lia)) as Hps. pose proof (pow2_pos (w - s) ltac:(lia)) as Hpws.
  pose proof (B_split w s ltac:(lia)) as HBs.
  induction ds as [|d r IH]; intros c Hf Hc.
  - exists c. cbn [shl_bits length uval]. rewrite Mod_0. split; [auto|]. split; [apply wf_nil | lia].
  - inversion Hf as [|? ? Hd Hr]; subst. cbn [shl_bits length].
    unfold digit_ok in Hd.
    assert (Hc' : 0 <= u_shr d (w - s) < 2 ^ s).
    { unfold u_shr. split; [apply Z.div_pos; lia | apply Z.div_lt_upper_bound; lia]. }
    destruct (IH (u_shr d (w - s)) Hr Hc') as (co & Hco & Hwf & Hval).
    exists co. split; [auto|].
    assert (Hdig : u_or (u_shl w d s) c = (d mod 2 ^ (w - s)) * 2 ^ s + c).
    { unfold u_or, u_shl. rewrite shl_mod by lia. apply lor_add_shifted; lia. }
    pose proof (Z.mod_pos_bound d (2 ^ (w - s)) Hpws) as Hm.
    pose proof (Z.div_mod d (2 ^ (w - s)) ltac:(lia)) as Hdm.
    split.
    + apply wf_cons. split; [|auto]. rewrite Hdig. unfold digit_ok. nia.
    + cbn [uval]. rewrite Hdig, Mod_S by lia. unfold u_shr in Hval |- *.
      assert (E1 : d * 2 ^ s = (d mod 2 ^ (w - s)) * 2 ^ s + B w * (d / 2 ^ (w - s))) by (rewrite HBs; nia).
      assert (E2 : B w * (uval w (shl_bits w s r (d / 2 ^ (w - s))) + Mod w (length r) * co)
                   = B w * (uval w r * 2 ^ s + d / 2 ^ (w - s))) by (rewrite Hval; reflexivity).
      lia.
Qed.

Lemma shl_internal_small w n v s : 0 < w -> wf w n v -> 0 <= s < w -> uval w v * 2 ^ s < Mod w n ->
  wf w n (shl_internal w v s) /\ uval w (shl_internal w v s) = uval w v * 2 ^ s.
Proof.
  intros Hw0 Hv Hs Hlt. assert (Hw : 0 <= w) by lia. destruct Hv as [Hl Hf].
  unfold shl_internal. cbv zeta. rewrite Z.div_small, Z.mod_small by lia.
  change (Z.to_nat 0) with 0%nat. rewrite Nat.sub_0_r, firstn_all.
  cbn [repeat app].
  destruct (Z.eqb_spec s 0) as [->|Hne].
  - rewrite firstn_all. split; [split; auto|]. change (2 ^ 0) with 1. lia.
  - destruct (shl_bits_spec w s ltac:(lia) v 0 Hf) as (co & Hco & Hwf & Hval).
    { pose proof (pow2_pos s ltac:(lia)). lia. }
    rewrite firstn_all' by (destruct Hwf; lia). rewrite Hl in *.
    pose proof (uval_bounds w n _ Hw Hwf). pose proof (Mod_pos w n Hw).
    assert (co = 0) by nia. subst co. split; [auto | lia].
Qed.

(* ---------- the right shift used by Remainder::new ---------- *)

Lemma shr_bits_spec w bs : 0 < bs < w -> forall rds ch, Forall (digit_ok w) rds -> 0 <= ch < 2 ^ bs ->
  exists lo, 0 <= lo < 2 ^ bs /\
    Forall (digit_ok w) (shr_bits w bs rds (ch * 2 ^ (w - bs))) /\
    length (shr_bits w bs rds (ch * 2 ^ (w - bs))) = length rds /\
    uval w (rev rds) + Mod w (length rds) * ch =
      2 ^ bs * uval w (rev (shr_bits w bs rds (ch * 2 ^ (w - bs)))) + lo.
Proof.
  intros Hbs. assert (Hw : 0 <= w) by lia.
  pose proof (pow2_pos bs ltac:(lia)) as Hps. pose proof (pow2_pos (w - bs) ltac:(lia)) as Hpws.
  pose proof (B_split w bs ltac:(lia)) as HBs.
  induction rds as [|d r IH]; intros ch Hf Hch.
  - exists ch. cbn [shr_bits length rev uval]. rewrite Mod_0. split; [auto|]. split; [constructor|].
    split; [reflexivity | lia].
  - inversion Hf as [|? ? Hd Hr]; subst. cbn [shr_bits length rev].
    unfold digit_ok in Hd.
    pose proof (Z.mod_pos_bound d (2 ^ bs) Hps) as Hm.
    pose proof (Z.div_mod d (2 ^ bs) ltac:(lia)) as Hdm.
    assert (Hcarry : u_shl w d (w - bs) = (d mod 2 ^ bs) * 2 ^ (w - bs)).
    { unfold u_shl. rewrite shl_mod by lia. do 3 f_equal. lia. }
    rewrite Hcarry.
    destruct (IH (d mod 2 ^ bs) Hr Hm) as (lo & Hlo & Hwf & Hlen & Hval).
    exists lo. split; [auto|].
    assert (Hq : 0 <= d / 2 ^ bs < 2 ^ (w - bs)).
    { split; [apply Z.div_pos; lia | apply Z.div_lt_upper_bound; lia]. }
    assert (Hdig : u_or (u_shr d bs) (ch * 2 ^ (w - bs)) = ch * 2 ^ (w - bs) + d / 2 ^ bs).
    { unfold u_or, u_shr. apply lor_add_shifted'; lia. }
    rewrite Hdig.
    split; [constructor; [unfold digit_ok; nia | auto]|].
    split; [lia|].
    rewrite !uval_app by auto. rewrite !rev_length, Hlen. cbn [uval]. rewrite Mod_S by lia.
    pose proof (Mod_pos w (length r) Hw). nia.
Qed.

Lemma Remainder_new_spec w n a s : 0 < w -> (2 <= n)%nat -> wf w n a -> 0 <= s < w ->
  wf w (S n) (Remainder_new w a s) /\ uval w (Remainder_new w a s) = uval w a * 2 ^ s.
Proof.
  intros Hw0 Hn Ha Hs. assert (Hw : 0 <= w) by lia. pose proof (B_pos w Hw) as HB.
  destruct (wf_inv_S w (n - 1) a ltac:(replace (S (n - 1)) with n by lia; auto))
    as (a0 & ar & -> & Ha0 & Har).
  destruct Ha as [Hl Hf]. unfold digit_ok in Ha0.
  unfold Remainder_new, U_wrapping_shr, U_overflowing_shr. cbn [hd].
  assert (Hbits : (bits w (length (a0 :: ar)) <=? w - s) = false).
  { apply Z.leb_gt. unfold bits. rewrite Hl. nia. }
  rewrite Hbits. cbn [fst]. unfold shr_pad_internal. rewrite Hl.
  destruct (Z.eq_dec s 0) as [->|Hne].
  - rewrite Z.sub_0_r, Z.div_same, Z_mod_same_full by lia.
    rewrite Z.eqb_refl. change (Z.to_nat 1) with 1%nat. cbn [skipn repeat].
    rewrite firstn_all' by (rewrite app_length; cbn [length] in *; lia).
    unfold u_shl. change (2 ^ 0) with 1. rewrite Z.mul_1_r, Z.mod_small by lia.
    split.
    + apply wf_cons. split; [exact Ha0|].
      replace n with ((n - 1) + 1)%nat by lia. apply wf_app; [auto|].
      apply wf_cons. split; [apply digit_ok_0; auto | apply wf_nil].
    + cbn [uval]. rewrite uval_app by auto. cbn [uval]. lia.
  - rewrite Z.div_small, Z.mod_small by lia.
    destruct (Z.eqb_spec (w - s) 0); [lia|].
    change (Z.to_nat 0) with 0%nat. cbn [skipn repeat]. rewrite app_nil_r.
    pose proof (shr_bits_spec w (w - s) ltac:(lia) (rev (a0 :: ar)) 0) as H.
    rewrite Z.mul_0_l in H.
    destruct H as (lo & Hlo & Hwf & Hlen & Hval); [apply Forall_rev; auto | |].
    { pose proof (pow2_pos (w - s) ltac:(lia)). lia. }
    rewrite rev_involutive, rev_length in *. rewrite Hl in *.
    set (low := rev (shr_bits w (w - s) (rev (a0 :: ar)) 0)) in *.
    assert (Hlow : wf w n low).
    { split; [unfold low; rewrite rev_length; lia | unfold low; apply Forall_rev; auto]. }
    rewrite firstn_all' by (destruct Hlow; lia).
    pose proof (pow2_pos s ltac:(lia)) as Hps. pose proof (pow2_pos (w - s) ltac:(lia)) as Hpws.
    pose proof (B_split w s ltac:(lia)) as HBs.
    assert (Hfirst : u_shl w a0 s = (a0 mod 2 ^ (w - s)) * 2 ^ s) by (unfold u_shl; apply shl_mod; lia).
    pose proof (Z.mod_pos_bound a0 (2 ^ (w - s)) Hpws) as Hm.
    split.
    + apply wf_cons. split; [|auto]. rewrite Hfirst. unfold digit_ok. nia.
    + cbn [uval] in *. rewrite Hfirst.
      assert (Hlo_eq : lo = a0 mod 2 ^ (w - s)).
      { apply (Z.mod_unique_pos _ _ (uval w low * 1 - uval w ar * 2 ^ s)); [lia|].
        rewrite HBs in Hval. nia. }
      rewrite HBs. rewrite HBs in Hval. nia.
Qed.

(* ---------- Remainder::shr ---------- *)

Lemma Remainder_shr_loop_spec w s : 0 <= s < w -> forall r d, Forall (digit_ok w) (d :: r) ->
  exists hi, 0 <= hi /\
    wf w (length r) (Remainder_shr_loop w s (d :: r)) /\
    2 ^ s * uval w (Remainder_shr_loop w s (d :: r)) + d mod 2 ^ s + Mod w (length r) * hi
      = uval w (d :: r).
Proof.
  intros Hs. assert (Hw : 0 <= w) by lia.
  pose proof (pow2_pos s ltac:(lia)) as Hps. pose proof (pow2_pos (w - s) ltac:(lia)) as Hpws.
  pose proof (B_split w s ltac:(lia)) as HBs.
  induction r as [|d' r IH]; intros d Hf.
  - inversion Hf as [|? ? Hd _]; subst. unfold digit_ok in Hd.
    exists (2 ^ s * (d / 2 ^ s)). cbn [Remainder_shr_loop length uval]. rewrite Mod_0.
    pose proof (Z.div_mod d (2 ^ s) ltac:(lia)). pose proof (Z.mod_pos_bound d (2 ^ s) Hps).
    assert (0 <= d / 2 ^ s) by (apply Z.div_pos; lia).
    split; [nia|]. split; [apply wf_nil | lia].
  - inversion Hf as [|? ? Hd Hf']; subst. unfold digit_ok in Hd.
    destruct (IH d' Hf') as (hi & Hhi & Hwf & Hval).
    inversion Hf' as [|? ? Hd' _]; subst. unfold digit_ok in Hd'.
    exists hi. split; [auto|].
    cbn [Remainder_shr_loop] in *. cbn [length].
    pose proof (Z.div_mod d (2 ^ s) ltac:(lia)) as Hdm. pose proof (Z.mod_pos_bound d (2 ^ s) Hps) as Hm.
    pose proof (Z.mod_pos_bound d' (2 ^ s) Hps) as Hm'.
    assert (Hq : 0 <= d / 2 ^ s < 2 ^ (w - s)).
    { split; [apply Z.div_pos; lia | apply Z.div_lt_upper_bound; lia]. }
    set (o := if 0 <? s then u_or (u_shr d s) (u_shl w d' (w - s)) else u_shr d s).
    assert (Ho : o = d / 2 ^ s + (d' mod 2 ^ s) * 2 ^ (w - s)).
    { unfold o. destruct (Z.ltb_spec 0 s).
      - unfold u_or, u_shr, u_shl. rewrite shl_mod by lia.
        replace (w - (w - s)) with s by lia. rewrite lor_add_shifted' by lia. lia.
      - assert (s = 0) by lia. subst s. unfold u_shr. change (2 ^ 0) with 1.
        rewrite Z.mod_1_r. lia. }
    split.
    + apply wf_cons. split; [|exact Hwf]. rewrite Ho. unfold digit_ok. nia.
    + cbn [uval] in *. rewrite Ho, Mod_S by lia.
      set (X := uval w (match r with
                        | [] => []
                        | _ :: _ => _ :: _ end)) in *.
      assert (E : B w * (2 ^ s * X + d' mod 2 ^ s + Mod w (length r) * hi) = B w * (d' + B w * uval w r))
        by (rewrite Hval; reflexivity).
      assert (E2 : 2 ^ s * (d' mod 2 ^ s * 2 ^ (w - s)) = B w * (d' mod 2 ^ s)) by (rewrite HBs; lia).
      nia.
Qed.

Lemma Remainder_shr_spec w n u s X : 0 < w -> 0 <= s < w -> wf w (S n) u ->
  uval w u = 2 ^ s * X -> uval w u < Mod w n ->
  wf w n (Remainder_shr w u s) /\ uval w (Remainder_shr w u s) = X.
Proof.
  intros Hw0 Hs Hu HX HXb. assert (Hw : 0 <= w) by lia.
  destruct (wf_inv_S _ _ _ Hu) as (d & r & -> & Hd & Hr).
  destruct Hu as [Hl Hf]. destruct Hr as [Hlr _]. unfold Remainder_shr.
  destruct (Remainder_shr_loop_spec w s Hs r d Hf) as (hi & Hhi & Hwf & Hval).
  rewrite Hlr in *. split; [auto|].
  pose proof (pow2_pos s ltac:(lia)) as Hps.
  pose proof (Z.mod_pos_bound d (2 ^ s) Hps) as Hm.
  pose proof (uval_bounds w n _ Hw Hwf) as Hb.
  pose proof (Mod_pos w n Hw).
  set (R := uval w (Remainder_shr_loop w s (d :: r))) in *.
  assert (hi = 0) by nia. subst hi.
  rewrite HX in Hval. nia.
Qed.

(* ---------- Remainder::sub / add on an explicit window ---------- *)

Lemma Remainder_sub_app w pre win post mul j n win' bo :
  j = length pre -> length win = S n ->
  sub_loop w win (firstn (S n) mul) false = (win', bo) ->
  Remainder_sub w (pre ++ win ++ post) mul j n = (pre ++ win' ++ post, bo).
Proof.
  intros Hj Hn E. unfold Remainder_sub.
  rewrite (firstn_exact' j pre) by auto. rewrite (skipn_exact' j pre) by auto.
  rewrite (firstn_exact' (S n) win) by auto.
  rewrite app_assoc. rewrite (skipn_exact' (j + S n)) by (rewrite app_length; lia).
  rewrite E. reflexivity.
Qed.

Lemma Remainder_add_app w pre win top post v j n win' co :
  j = length pre -> length win = n ->
  add_loop w win (firstn n v) false = (win', co) -> length win' = n ->
  Remainder_add w (pre ++ win ++ top :: post) v j n =
    pre ++ win' ++ (if co then (top + 1) mod B w else top) :: post.
Proof.
  intros Hj Hn E Hn'. unfold Remainder_add.
  rewrite (firstn_exact' j pre) by auto. rewrite (skipn_exact' j pre) by auto.
  rewrite (firstn_exact' n win) by auto.
  rewrite app_assoc. rewrite (skipn_exact' (j + n)) by (rewrite app_length; lia).
  rewrite E. destruct co; [|reflexivity].
  rewrite app_assoc. rewrite set_nth_app by (rewrite app_length; lia).
  rewrite <- app_assoc. reflexivity.
Qed.

(* ---------- one iteration of the j loop ---------- *)

Lemma quot_digit_bounds V W Bw : 0 < V -> 0 <= W < V * Bw ->
  0 <= W / V < Bw /\ (W / V) * V <= W /\ W < (W / V + 1) * V.
Proof.
  intros HV HW. pose proof (Z.div_mod W V ltac:(lia)). pose proof (Z.mod_pos_bound W V HV).
  split; [split; [apply Z.div_pos; lia | apply Z.div_lt_upper_bound; lia] | nia].
Qed.

Lemma step_noborrow V W q qh : 0 < V -> q <= qh -> qh * V <= W -> W < (q + 1) * V -> qh = q.
Proof. intros. nia. Qed.

Lemma step_borrow V W q qh : 0 < V -> qh <= q + 1 -> q * V <= W -> W < qh * V -> qh = q + 1.
Proof. intros. nia. Qed.

Lemma addback_value Bn Bw x R t1 c : 0 < Bn -> 0 <= x < Bn -> 0 <= R < Bn -> 0 <= t1 < Bw ->
  x + bz c * Bn + Bn * t1 = R + Bn * Bw -> c = true /\ t1 = Bw - 1 /\ x = R.
Proof.
  intros HBn Hx HR Ht E. destruct c; cbn [bz] in E.
  - assert (t1 = Bw - 1) by nia. subst. split; [auto|]. split; [auto|]. nia.
  - exfalso. nia.
Qed.

Lemma uval_top2 w vlo v2 v1 k : 0 <= w ->
  uval w (vlo ++ [v2; v1] ++ repeat 0 k) = uval w vlo + Mod w (length vlo) * (v2 + B w * v1).
Proof.
  intros Hw. rewrite uval_app by auto. cbn [app uval]. rewrite uval_repeat0. f_equal. f_equal. lia.
Qed.

Lemma uval_top3 w wlo u2 u1 u0 : 0 <= w ->
  uval w (wlo ++ [u2; u1; u0]) = uval w wlo + Mod w (length wlo) * (u2 + B w * (u0 * B w + u1)).
Proof.
  intros Hw. rewrite uval_app by auto. cbn [uval]. f_equal. f_equal. lia.
Qed.

Lemma knuth_step w N n j v vlo v2 v1 pre win post :
  0 < w -> (n = length vlo + 2)%nat -> (n <= N)%nat ->
  v = vlo ++ [v2; v1] ++ repeat 0 (N - n) -> wf w N v -> B w <= 2 * v1 ->
  j = length pre -> wf w (S n) win -> uval w win < uval w v * B w ->
  forall u1 overflow,
  Remainder_sub w (pre ++ win ++ post) (Mul_new w v (knuth_qhat w (pre ++ win ++ post) j n v1 v2)) j n
    = (u1, overflow) ->
  exists win' q',
    (if overflow then (knuth_qhat w (pre ++ win ++ post) j n v1 v2 - 1, Remainder_add w u1 v j n)
     else (knuth_qhat w (pre ++ win ++ post) j n v1 v2, u1)) = (q', pre ++ win' ++ post) /\
    wf w (S n) win' /\ 0 <= q' < B w /\
    uval w win = q' * uval w v + uval w win' /\ uval w win' < uval w v.
Proof.
  intros Hw0 Hn HnN Hv Hwfv Hnorm Hj Hwin HWV u1 overflow Esub.
  assert (Hw : 0 <= w) by lia. pose proof (B_pos w Hw) as HB.
  (* the divisor *)
  destruct Hwfv as [Hlv Hfv].
  assert (Hfv' : Forall (digit_ok w) vlo /\ digit_ok w v2 /\ digit_ok w v1).
  { rewrite Hv in Hfv. apply Forall_app in Hfv. destruct Hfv as [H1 H2].
    inversion H2 as [|? ? H3 H4]; subst. inversion H4; subst. auto. }
  destruct Hfv' as (Hfvlo & Hv2 & Hv1). unfold digit_ok in Hv2, Hv1.
  set (S := Mod w (length vlo)).
  assert (HS : 1 <= S) by (apply Mod_ge_1; auto).
  pose proof (uval_bounds w _ vlo Hw (wf_of_Forall _ _ Hfvlo)) as Hvlo. fold S in Hvlo.
  assert (HV : uval w v = uval w vlo + S * (v2 + B w * v1)) by (rewrite Hv; apply uval_top2; auto).
  set (V := uval w v) in *.
  assert (Hv1pos : 0 < v1) by lia.
  assert (HVpos : 0 < V) by nia.
  assert (HModn : Mod w n = S * (B w * B w)).
  { rewrite Hn. rewrite Mod_add, !Mod_S, Mod_0 by auto. unfold S. lia. }
  assert (HVn : V < Mod w n).
  { rewrite HModn. assert (H1 : v2 + B w * v1 <= B w * B w - 1) by nia.
    assert (H2 : S * (v2 + B w * v1) <= S * (B w * B w - 1)) by (apply Z.mul_le_mono_nonneg_l; lia).
    lia. }
  (* the window *)
  destruct Hwin as [Hlwin Hfwin].
  destruct (split_last3 win (length vlo) ltac:(lia)) as (wlo & u2 & u1' & u0 & Ewin & Hlwlo).
  assert (Hfw' : Forall (digit_ok w) wlo /\ digit_ok w u2 /\ digit_ok w u1' /\ digit_ok w u0).
  { rewrite Ewin in Hfwin. apply Forall_app in Hfwin. destruct Hfwin as [H1 H2].
    inversion H2 as [|? ? H3 H4]; subst. inversion H4 as [|? ? H5 H6]; subst. inversion H6; subst. auto. }
  destruct Hfw' as (Hfwlo & Hu2 & Hu1 & Hu0).
  pose proof (uval_bounds w _ wlo Hw (wf_of_Forall _ _ Hfwlo)) as Hwlo. rewrite Hlwlo in Hwlo. fold S in Hwlo.
  assert (HW : uval w win = uval w wlo + S * (u2 + B w * (u0 * B w + u1'))).
  { rewrite Ewin, uval_top3 by auto. rewrite Hlwlo. reflexivity. }
  set (W := uval w win) in *.
  assert (HW0 : 0 <= W) by (unfold digit_ok in *; nia).
  destruct (quot_digit_bounds V W (B w) HVpos ltac:(lia)) as (Hq & Hq1 & Hq2).
  set (q := W / V) in *.
  (* the estimate *)
  set (qh := knuth_qhat w (pre ++ win ++ post) j n v1 v2) in *.
  assert (Hqh : q <= qh <= q + 1 /\ 0 <= qh < B w).
  { unfold qh. rewrite Ewin. rewrite knuth_qhat_eq by (auto; lia).
    unfold digit_ok in *.
    destruct (Z.ltb_spec u0 v1) as [Hlt|Hge].
    - pose proof (qhat_calc_ok (B w) S (uval w wlo) (uval w vlo) u0 u1' u2 v1 v2 q) as H.
      cbv zeta in H. rewrite <- HW, <- HV in H.
      specialize (H HB HS Hwlo Hvlo ltac:(lia) Hu1 Hu2 Hv2 ltac:(lia) Hnorm ltac:(lia) Hq1 Hq2).
      split; [exact H|]. split; [lia|].
      pose proof (qhat_calc_le (B w) (u0 * B w + u1') u2 v1 v2).
      assert ((u0 * B w + u1') / v1 < B w).
      { apply Z.div_lt_upper_bound; [lia|].
        assert (u0 * B w <= (v1 - 1) * B w) by (apply Z.mul_le_mono_nonneg_r; lia). lia. }
      lia.
    - pose proof (qhat_max_ok (B w) S (uval w wlo) (uval w vlo) u0 u1' u2 v1 v2 q) as H.
      cbv zeta in H. rewrite <- HW, <- HV in H.
      specialize (H ltac:(lia) HS Hwlo Hvlo Hge Hu1 Hu2 Hv2 ltac:(lia) Hnorm HWV ltac:(lia) Hq1 Hq2).
      split; [exact H | lia]. }
  destruct Hqh as [Hqh1 Hqh2].
  (* the product *)
  destruct (Mul_new_spec w N v qh Hw (conj Hlv Hfv) Hqh2) as [Hmwf Hmval]. fold V in Hmval.
  assert (HMS : Mod w (Datatypes.S n) = B w * Mod w n) by (apply Mod_S; auto).
  assert (Hmlt : uval w (Mul_new w v qh) < Mod w (Datatypes.S n)) by (rewrite Hmval, HMS; nia).
  destruct (uval_firstn_small w (Datatypes.S N) (Datatypes.S n) _ Hw Hmwf ltac:(lia) Hmlt) as [Hmf _].
  pose proof (wf_firstn w _ (Datatypes.S n) _ Hmwf ltac:(lia)) as Hmfwf.
  (* the subtraction *)
  destruct (sub_loop w win (firstn (Datatypes.S n) (Mul_new w v qh)) false) as [win1 bo] eqn:Esl.
  rewrite (Remainder_sub_app w pre win post _ j n win1 bo Hj Hlwin Esl) in Esub.
  inversion Esub; subst u1 overflow; clear Esub.
  destruct (sub_loop_spec w Hw _ _ _ _ _ _ (conj Hlwin Hfwin) Hmfwf Esl) as [Hwin1 Hsval].
  cbn [bz] in Hsval. rewrite Z.sub_0_r, Hmf, Hmval in Hsval. fold W in Hsval.
  pose proof (uval_bounds w _ win1 Hw Hwin1) as Hb1.
  destruct bo; cbn [bz] in Hsval.
  - (* borrow: qh = q + 1, add back *)
    assert (Eqh : qh = q + 1) by (apply (step_borrow V W); try lia; nia).
    destruct Hwin1 as [Hlwin1 Hfwin1].
    destruct (split_last1 win1 n Hlwin1) as (wl1 & t1 & Ewin1 & Hlwl1).
    assert (Hfw1 : Forall (digit_ok w) wl1 /\ digit_ok w t1).
    { rewrite Ewin1 in Hfwin1. apply Forall_app in Hfwin1. destruct Hfwin1 as [H1 H2].
      inversion H2; subst. auto. }
    destruct Hfw1 as [Hfwl1 Ht1].
    pose proof (wf_firstn w N n v (conj Hlv Hfv) HnN) as Hvf.
    destruct (uval_firstn_small w N n v Hw (conj Hlv Hfv) HnN HVn) as [Hvfval _]. fold V in Hvfval.
    destruct (add_loop w wl1 (firstn n v) false) as [wl2 co] eqn:Eal.
    destruct (add_loop_spec w Hw _ _ _ _ _ _ (conj Hlwl1 Hfwl1) Hvf Eal) as [Hwl2 Haval].
    cbn [bz] in Haval. rewrite Z.add_0_r, Hvfval in Haval.
    pose proof (uval_bounds w _ wl2 Hw Hwl2) as Hb2.
    assert (Ew1 : uval w win1 = uval w wl1 + Mod w n * t1).
    { rewrite Ewin1, uval_app by auto. rewrite Hlwl1. cbn [uval]. lia. }
    destruct (addback_value (Mod w n) (B w) (uval w wl2) (W - q * V) t1 co) as (-> & -> & HR);
      [apply Mod_pos; auto | lia | nia | exact Ht1 | nia |].
    exists (wl2 ++ [0]), q.
    split.
    + f_equal; [lia|].
      rewrite Ewin1. rewrite <- !app_assoc. cbn [app].
      rewrite (Remainder_add_app w pre wl1 (B w - 1) post v j n wl2 true Hj Hlwl1 Eal (proj1 Hwl2)).
      replace (B w - 1 + 1) with (B w) by lia. rewrite Z_mod_same_full. reflexivity.
    + split.
      * replace (Datatypes.S n) with (n + 1)%nat by lia. apply wf_app; [auto|].
        apply wf_cons. split; [apply digit_ok_0; auto | apply wf_nil].
      * split; [lia|]. rewrite uval_app by auto. cbn [uval]. nia.
  - (* no borrow: qh = q *)
    assert (Eqh : qh = q) by (apply (step_noborrow V W); try lia; nia).
    exists win1, q. split; [rewrite Eqh; reflexivity|].
    split; [auto|]. split; [lia|]. nia.
Qed.

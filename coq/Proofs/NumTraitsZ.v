(* Proofs/NumTraitsZ.v — the arithmetic of C18 over Z (no digit lists):
   truncated -> floored division, binary gcd steps, the integer AM-GM inequality and the Newton
   iteration for integer k-th roots, and the specification of the bisection root `zroot`. *)
From Bnum Require Import Base Prim.
From Bnum.Model Require Import NumTraits.
From Coq Require Import Znumtheory.

(* ---------- floor from truncation ---------- *)

Lemma floor_of_trunc a b : b <> 0 ->
  if ((0 <? Z.rem a b) && (b <? 0)) || ((Z.rem a b <? 0) && (0 <? b))
  then a / b = Z.quot a b - 1 /\ a mod b = Z.rem a b + b
  else a / b = Z.quot a b /\ a mod b = Z.rem a b.
Proof.
  intros Hb.
  pose proof (Z.quot_rem a b Hb) as Hqr.
  pose proof (Z.rem_bound_abs a b Hb) as Habs.
  set (q := Z.quot a b) in *. set (r := Z.rem a b) in *.
  destruct (((0 <? r) && (b <? 0)) || ((r <? 0) && (0 <? b))) eqn:E.
  - assert (Hc : (0 < r /\ b < 0) \/ (r < 0 /\ 0 < b)).
    { apply orb_true_iff in E. destruct E as [E|E]; apply andb_true_iff in E; destruct E as [E1 E2];
        apply Z.ltb_lt in E1; apply Z.ltb_lt in E2; lia. }
    split.
    + symmetry. apply Z.div_unique with (r := r + b); lia.
    + symmetry. apply Z.mod_unique with (q := q - 1); lia.
  - assert (Hc : ~ ((0 < r /\ b < 0) \/ (r < 0 /\ 0 < b))).
    { intros [[H1 H2]|[H1 H2]]; apply Z.ltb_lt in H1, H2; rewrite H1, H2 in E; cbn in E; try discriminate.
      rewrite orb_true_r in E. discriminate. }
    split.
    + symmetry. apply Z.div_unique with (r := r); lia.
    + symmetry. apply Z.mod_unique with (q := q); lia.
Qed.

(* the floored quotient of two values of a signed type is representable unless it is MIN / -1 *)
Lemma floor_div_range H a b : 0 < H -> - H <= a < H -> - H <= b < H -> b <> 0 ->
  ~ (a = - H /\ b = -1) -> - H <= a / b < H.
Proof.
  intros HH Ha Hb Hb0 Hmin.
  destruct (Z.lt_trichotomy b 0) as [Hn|[?|Hp]]; [|lia|].
  - (* b < 0 *)
    pose proof (Z.div_mod a b Hb0) as Hdm. pose proof (Z.mod_neg_bound a b Hn) as Hm.
    split; nia.
  - pose proof (Z.div_mod a b Hb0) as Hdm. pose proof (Z.mod_pos_bound a b Hp) as Hm.
    split; nia.
Qed.

Lemma floor_mod_range H a b : - H <= b < H -> b <> 0 -> - H <= a mod b < H.
Proof.
  intros Hb Hb0. destruct (Z.lt_trichotomy b 0) as [Hn|[?|Hp]]; [|lia|].
  - pose proof (Z.mod_neg_bound a b Hn). lia.
  - pose proof (Z.mod_pos_bound a b Hp). lia.
Qed.

Lemma quot_range H a b : 0 < H -> - H <= a < H -> - H <= b < H -> b <> 0 ->
  ~ (a = - H /\ b = -1) -> - H <= Z.quot a b < H.
Proof.
  intros HH Ha Hb Hb0 Hmin.
  pose proof (Z.quot_rem a b Hb0) as Hqr.
  pose proof (Z.rem_bound_abs a b Hb0) as Habs.
  pose proof (Z.rem_sign_mul a b Hb0) as Hs.
  set (q := Z.quot a b) in *. set (r := Z.rem a b) in *.
  split; nia.
Qed.

(* ---------- gcd ---------- *)

Lemma odd_divisor_odd h y : Z.odd y = true -> (h | y) -> Z.odd h = true.
Proof.
  intros Hy [c Hc]. subst y. rewrite Z.odd_mul in Hy. apply andb_true_iff in Hy. tauto.
Qed.

Lemma odd_rel_prime_2 h : Z.odd h = true -> rel_prime h 2.
Proof.
  intros Hh. apply Zgcd_1_rel_prime.
  pose proof (Z.gcd_nonneg h 2) as Hnn.
  pose proof (Z.gcd_divide_r h 2) as Hd2. pose proof (Z.gcd_divide_l h 2) as Hdh.
  assert (Hle : Z.gcd h 2 <= 2) by (apply Z.divide_pos_le; [lia|exact Hd2]).
  assert (Hne0 : Z.gcd h 2 <> 0).
  { intros E. rewrite E in Hd2. destruct Hd2 as [c Hc]. lia. }
  assert (Hne2 : Z.gcd h 2 <> 2).
  { intros E. rewrite E in Hdh. pose proof (odd_divisor_odd 2 h Hh Hdh) as Ho. discriminate Ho. }
  lia.
Qed.

Lemma gcd_double_odd x y : Z.odd y = true -> Z.gcd (2 * x) y = Z.gcd x y.
Proof.
  intros Hy.
  apply Z.divide_antisym_nonneg; try apply Z.gcd_nonneg.
  - (* gcd (2x) y | gcd x y *)
    set (h := Z.gcd (2 * x) y).
    assert (Hhy : (h | y)) by apply Z.gcd_divide_r.
    assert (Hh2x : (h | 2 * x)) by apply Z.gcd_divide_l.
    apply Z.gcd_greatest; [|exact Hhy].
    apply Gauss with (b := 2); [exact Hh2x|].
    apply odd_rel_prime_2. apply odd_divisor_odd with y; assumption.
  - apply Z.gcd_greatest.
    + apply Z.divide_trans with x; [apply Z.gcd_divide_l | exists 2; lia].
    + apply Z.gcd_divide_r.
Qed.

Lemma gcd_pow2_odd k x y : 0 <= k -> Z.odd y = true -> Z.gcd (2 ^ k * x) y = Z.gcd x y.
Proof.
  intros Hk Hy. revert x. pattern k. apply natlike_ind; [| |exact Hk].
  - intros x. rewrite Z.pow_0_r, Z.mul_1_l. reflexivity.
  - intros j Hj IH x. rewrite Z.pow_succ_r by lia.
    replace (2 * 2 ^ j * x) with (2 * (2 ^ j * x)) by ring.
    rewrite gcd_double_odd by exact Hy. apply IH.
Qed.

Lemma gcd_sub_l a b : Z.gcd (a - b) b = Z.gcd a b.
Proof.
  replace (a - b) with (a + (-1) * b) by ring. rewrite Z.gcd_comm, Z.gcd_add_mult_diag_r. apply Z.gcd_comm.
Qed.

(* gcd (2^i x) (2^j y) = 2^min(i,j) gcd x y for odd x, y *)
Lemma gcd_split_pow2 i j x y : 0 <= i -> 0 <= j -> Z.odd x = true -> Z.odd y = true ->
  Z.gcd (2 ^ i * x) (2 ^ j * y) = 2 ^ (Z.min i j) * Z.gcd x y.
Proof.
  intros Hi Hj Hx Hy.
  destruct (Z.le_ge_cases i j) as [Hij|Hij].
  - rewrite Z.min_l by lia.
    replace (2 ^ j * y) with (2 ^ i * (2 ^ (j - i) * y)).
    2:{ rewrite Z.mul_assoc, <- Z.pow_add_r by lia. do 2 f_equal. lia. }
    rewrite Z.gcd_mul_mono_l_nonneg by (apply Z.pow_nonneg; lia).
    f_equal. rewrite Z.gcd_comm, gcd_pow2_odd by (auto; lia). apply Z.gcd_comm.
  - rewrite Z.min_r by lia.
    replace (2 ^ i * x) with (2 ^ j * (2 ^ (i - j) * x)).
    2:{ rewrite Z.mul_assoc, <- Z.pow_add_r by lia. do 2 f_equal. lia. }
    rewrite Z.gcd_mul_mono_l_nonneg by (apply Z.pow_nonneg; lia).
    f_equal. apply gcd_pow2_odd; auto; lia.
Qed.

Lemma odd_sub_even a b : Z.odd a = true -> Z.odd b = true -> Z.even (a - b) = true.
Proof.
  intros Ha Hb. rewrite Z.even_sub. rewrite <- !Z.negb_odd, Ha, Hb. reflexivity.
Qed.

(* one iteration of the binary gcd loop on odd a >= b: the new a = (a-b)/2^t is odd, the gcd is
   unchanged and the product a*b at least halves *)
Lemma gcd_step a b t m : Z.odd a = true -> Z.odd b = true -> 0 < b -> b < a -> 0 <= t ->
  a - b = 2 ^ t * m -> Z.odd m = true ->
  0 < m /\ Z.gcd m b = Z.gcd a b /\ 2 * (m * b) <= a * b.
Proof.
  intros Ha Hb Hb0 Hab Ht Hm Hmo.
  assert (Hpos : 0 < 2 ^ t) by (apply Z.pow_pos_nonneg; lia).
  assert (Hm0 : 0 < m) by nia.
  assert (Ht1 : 1 <= t).
  { destruct (Z.eq_dec t 0) as [->|]; [|lia]. rewrite Z.pow_0_r, Z.mul_1_l in Hm.
    pose proof (odd_sub_even a b Ha Hb) as He. rewrite Hm, <- Z.negb_odd, Hmo in He. discriminate. }
  assert (H2 : 2 <= 2 ^ t).
  { replace 2 with (2 ^ 1) at 1 by reflexivity. apply Z.pow_le_mono_r; lia. }
  split; [exact Hm0|]. split.
  - rewrite <- (gcd_pow2_odd t m b Ht Hb), <- Hm. apply gcd_sub_l.
  - nia.
Qed.

(* ---------- integer AM-GM and Newton's iteration for k-th roots ---------- *)

Lemma pow_le_mono_nat s r (k : nat) : 0 <= s <= r -> s ^ Z.of_nat k <= r ^ Z.of_nat k.
Proof. intros. apply Z.pow_le_mono_l. lia. Qed.

(* (k-1) s^k + r^k >= k r s^(k-1), written with j = k - 1 *)
Lemma am_gm_nat (j : nat) s r : 0 <= s -> 0 <= r ->
  Z.of_nat (S j) * r * s ^ Z.of_nat j <= Z.of_nat j * s ^ Z.of_nat (S j) + r ^ Z.of_nat (S j).
Proof.
  intros Hs Hr. induction j as [|j IH].
  - change (Z.of_nat 1) with 1. change (Z.of_nat 0) with 0.
    rewrite Z.pow_0_r, !Z.pow_1_r. lia.
  - rewrite !Nat2Z.inj_succ in *. rewrite !Z.pow_succ_r in * by lia.
    set (p := s ^ Z.of_nat j) in *. set (q := r ^ Z.of_nat j) in *.
    assert (Hp : 0 <= p) by (apply Z.pow_nonneg; lia).
    assert (Hq : 0 <= q) by (apply Z.pow_nonneg; lia).
    (* (s - r)(s^(j+1) - r^(j+1)) >= 0 *)
    assert (Hmono : 0 <= (s - r) * (s * p - r * q)).
    { destruct (Z.le_ge_cases s r) as [Hsr|Hsr].
      - assert (p <= q) by (apply Z.pow_le_mono_l; lia).
        assert (s * p <= r * q) by (apply Z.mul_le_mono_nonneg; lia).
        apply Z.mul_nonpos_nonpos; lia.
      - assert (q <= p) by (apply Z.pow_le_mono_l; lia).
        assert (r * q <= s * p) by (apply Z.mul_le_mono_nonneg; lia).
        apply Z.mul_nonneg_nonneg; lia. }
    set (J := Z.of_nat j) in *. assert (HJ : 0 <= J) by lia.
    assert (Hs' : s * (Z.succ J * r * p) <= s * (J * (s * p) + r * q))
      by (apply Z.mul_le_mono_nonneg_l; lia).
    unfold Z.succ in *. lia.
Qed.

Lemma am_gm k s r : 1 <= k -> 0 <= s -> 0 <= r ->
  k * r * s ^ (k - 1) <= (k - 1) * s ^ k + r ^ k.
Proof.
  intros Hk Hs Hr.
  pose proof (am_gm_nat (Z.to_nat (k - 1)) s r Hs Hr) as H.
  rewrite Nat2Z.inj_succ, Z2Nat.id in H by lia.
  replace (Z.succ (k - 1)) with k in H by lia. exact H.
Qed.

(* the Newton step for the k-th root of A: F s = ((k-1) s + A / s^(k-1)) / k *)
Definition newton (k A s : Z) : Z := ((k - 1) * s + A / s ^ (k - 1)) / k.

(* never below the floor root *)
Lemma newton_ge_root k A s R : 1 <= k -> 1 <= s -> 0 <= R -> R ^ k <= A -> R <= newton k A s.
Proof.
  intros Hk Hs HR HRA. unfold newton.
  set (p := s ^ (k - 1)).
  assert (Hp : 0 < p) by (apply Z.pow_pos_nonneg; lia).
  pose proof (am_gm k s R Hk ltac:(lia) HR) as Hag. fold p in Hag.
  assert (Hsk : s ^ k = s * p).
  { unfold p. replace k with (Z.succ (k - 1)) at 1 by lia. rewrite Z.pow_succ_r by lia. reflexivity. }
  rewrite Hsk in Hag.
  set (q := A / p).
  assert (Hq : p * q <= A < p * q + p).
  { unfold q. pose proof (Z.div_mod A p ltac:(lia)). pose proof (Z.mod_pos_bound A p Hp). lia. }
  apply Z.div_le_lower_bound; [lia|].
  (* k R <= (k-1) s + q *)
  destruct (Z_lt_le_dec ((k - 1) * s + q) (k * R)) as [Hlt|]; [exfalso|lia].
  assert (Hz : q + 1 <= k * R - (k - 1) * s) by lia.
  assert (p * (q + 1) <= p * (k * R - (k - 1) * s)) by (apply Z.mul_le_mono_nonneg_l; lia).
  nia.
Qed.

(* strictly decreasing above the floor root *)
Lemma newton_lt k A s R : 1 <= k -> 0 <= R -> 0 <= A -> A < (R + 1) ^ k -> R < s -> newton k A s < s.
Proof.
  intros Hk HR HA HRA Hs. unfold newton.
  set (p := s ^ (k - 1)).
  assert (Hp : 0 < p) by (apply Z.pow_pos_nonneg; lia).
  assert (Hsk : s ^ k = s * p).
  { unfold p. replace k with (Z.succ (k - 1)) at 1 by lia. rewrite Z.pow_succ_r by lia. reflexivity. }
  assert (Hle : (R + 1) ^ k <= s ^ k) by (apply Z.pow_le_mono_l; lia).
  set (q := A / p).
  assert (Hq : p * q <= A < p * q + p).
  { unfold q. pose proof (Z.div_mod A p ltac:(lia)). pose proof (Z.mod_pos_bound A p Hp). lia. }
  assert (Hqs : q < s) by nia.
  apply Z.div_lt_upper_bound; [lia|]. nia.
Qed.

(* the quotient in the step is small once s is at or above the root *)
Lemma newton_quot_bound k A s R : 1 <= k -> 1 <= R -> R <= s -> 0 <= A -> A / s ^ (k - 1) <= A / R ^ (k - 1).
Proof.
  intros Hk HR Hs HA.
  apply Z.div_le_compat_l; [exact HA|]. split.
  - apply Z.pow_pos_nonneg; lia.
  - apply Z.pow_le_mono_l; lia.
Qed.

(* uniqueness of the floor root *)
Lemma root_unique k A r1 r2 : 1 <= k -> 0 <= r1 -> 0 <= r2 ->
  r1 ^ k <= A < (r1 + 1) ^ k -> r2 ^ k <= A < (r2 + 1) ^ k -> r1 = r2.
Proof.
  intros Hk H1 H2 [Ha Hb] [Hc Hd].
  destruct (Z.lt_trichotomy r1 r2) as [Hlt|[?|Hlt]]; [exfalso|assumption|exfalso].
  - assert ((r1 + 1) ^ k <= r2 ^ k) by (apply Z.pow_le_mono_l; lia). lia.
  - assert ((r2 + 1) ^ k <= r1 ^ k) by (apply Z.pow_le_mono_l; lia). lia.
Qed.

Lemma pow_lt_inv k a b : 0 <= k -> 0 <= a -> 0 <= b -> a ^ k < b ^ k -> a < b.
Proof.
  intros Hk Ha Hb H. destruct (Z_lt_le_dec a b) as [|Hle]; [assumption|exfalso].
  assert (b ^ k <= a ^ k) by (apply Z.pow_le_mono_l; lia). lia.
Qed.

(* ---------- zroot: the floor k-th root by bisection ---------- *)

Lemma root_bisect_spec fuel k lo hi v : 1 <= k -> 0 <= lo -> lo < hi ->
  lo ^ k <= v < hi ^ k -> hi - lo <= 2 ^ Z.of_nat fuel ->
  let r := root_bisect fuel k lo hi v in 0 <= r /\ r ^ k <= v < (r + 1) ^ k.
Proof.
  intros Hk. revert lo hi. induction fuel as [|f IH]; intros lo hi Hlo Hlh Hinv Hsz; cbn [root_bisect].
  - change (2 ^ Z.of_nat 0) with 1 in Hsz. replace hi with (lo + 1) in Hinv by lia. split; [lia|exact Hinv].
  - destruct (Z.leb_spec (hi - lo) 1) as [H1|H1].
    + replace hi with (lo + 1) in Hinv by lia. split; [lia|exact Hinv].
    + rewrite Nat2Z.inj_succ, Z.pow_succ_r in Hsz by lia.
      set (mid := (lo + hi) / 2).
      assert (Hmid : lo < mid < hi).
      { unfold mid. pose proof (Z.div_mod (lo + hi) 2 ltac:(lia)). pose proof (Z.mod_pos_bound (lo + hi) 2 ltac:(lia)). lia. }
      assert (Hm2 : 2 * mid <= lo + hi < 2 * mid + 2).
      { unfold mid. pose proof (Z.div_mod (lo + hi) 2 ltac:(lia)). pose proof (Z.mod_pos_bound (lo + hi) 2 ltac:(lia)). lia. }
      destruct (Z.leb_spec (mid ^ k) v) as [Hle|Hgt].
      * apply IH; try lia.
      * apply IH; try lia.
Qed.

Theorem zroot_spec k v : 1 <= k -> 0 <= v ->
  0 <= zroot k v /\ zroot k v ^ k <= v < (zroot k v + 1) ^ k.
Proof.
  intros Hk Hv. unfold zroot.
  destruct (Z.leb_spec v 0) as [H0|H0].
  - assert (v = 0) by lia. subst v. rewrite Z.pow_0_l by lia. rewrite Z.add_0_l, Z.pow_1_l by lia. lia.
  - pose proof (Z.log2_spec v H0) as [Hl1 Hl2].
    pose proof (Z.log2_nonneg v) as Hl0.
    destruct (Z.ltb_spec (Z.log2 v) k) as [Hlk|Hlk].
    + rewrite Z.pow_1_l by lia. split; [lia|]. split; [lia|].
      change (1 + 1) with 2.
      assert (2 ^ Z.succ (Z.log2 v) <= 2 ^ k) by (apply Z.pow_le_mono_r; lia). lia.
    + set (e := Z.log2 v / k + 1).
      assert (He : 1 <= e).
      { unfold e. pose proof (Z.div_pos (Z.log2 v) k ltac:(lia) ltac:(lia)). lia. }
      assert (Hke : Z.log2 v < k * e).
      { unfold e. pose proof (Z.div_mod (Z.log2 v) k ltac:(lia)). pose proof (Z.mod_pos_bound (Z.log2 v) k ltac:(lia)). lia. }
      apply root_bisect_spec; try lia.
      * assert (2 ^ 1 <= 2 ^ e) by (apply Z.pow_le_mono_r; lia). change (2 ^ 1) with 2 in *. lia.
      * rewrite Z.pow_1_l by lia. split; [lia|].
        rewrite <- Z.pow_mul_r by lia.
        assert (2 ^ Z.succ (Z.log2 v) <= 2 ^ (e * k)) by (apply Z.pow_le_mono_r; lia). lia.
      * rewrite Z2Nat.id by lia. rewrite Z.pow_add_r by lia. change (2 ^ 1) with 2.
        assert (0 < 2 ^ e) by (apply Z.pow_pos_nonneg; lia). lia.
Qed.

Lemma zroot_le k v : 1 <= k -> 0 <= v -> zroot k v <= v.
Proof.
  intros Hk Hv. destruct (zroot_spec k v Hk Hv) as [H0 [H1 _]].
  destruct (Z.eq_dec (zroot k v) 0) as [->|Hne]; [lia|].
  assert (zroot k v ^ 1 <= zroot k v ^ k) by (apply Z.pow_le_mono_r; lia).
  rewrite Z.pow_1_r in *. lia.
Qed.

(* ---------- the doubling iteration ---------- *)

Lemma run_pow2_done {S R} (step : S -> S + R) d s r : step s = inr r -> run_pow2 step d s = inr r.
Proof.
  intros H. induction d as [|d IH]; cbn [run_pow2]; [exact H|]. rewrite IH. reflexivity.
Qed.

Lemma run_pow2_inv {S R} (step : S -> S + R) (Inv : S -> Prop) (m : S -> Z) (P : R -> Prop) :
  (forall s, Inv s -> 0 <= m s ->
     match step s with inl s' => Inv s' /\ 0 <= m s' < m s | inr r => P r end) ->
  forall d s, Inv s -> 0 <= m s ->
    match run_pow2 step d s with
    | inl s' => Inv s' /\ 0 <= m s' /\ m s' + 2 ^ Z.of_nat d <= m s
    | inr r => P r
    end.
Proof.
  intros Hstep. induction d as [|d IH]; intros s Hi Hm; cbn [run_pow2].
  - specialize (Hstep s Hi Hm). destruct (step s); [|exact Hstep].
    change (2 ^ Z.of_nat 0) with 1. destruct Hstep as [Hi' Hm']. split; [exact Hi'|lia].
  - pose proof (IH s Hi Hm) as H1. destruct (run_pow2 step d s) as [s'|r]; [|exact H1].
    destruct H1 as (Hi' & Hm' & Hd').
    pose proof (IH s' Hi' Hm') as H2. destruct (run_pow2 step d s') as [s''|r]; [|exact H2].
    destruct H2 as (Hi'' & Hm'' & Hd'').
    rewrite Nat2Z.inj_succ, Z.pow_succ_r by lia. split; [exact Hi''|lia].
Qed.

(* enough budget: the loop ends *)
Lemma run_pow2_ends {S R} (step : S -> S + R) (Inv : S -> Prop) (m : S -> Z) (P : R -> Prop) :
  (forall s, Inv s -> 0 <= m s ->
     match step s with inl s' => Inv s' /\ 0 <= m s' < m s | inr r => P r end) ->
  forall d s, Inv s -> 0 <= m s < 2 ^ Z.of_nat d -> exists r, run_pow2 step d s = inr r /\ P r.
Proof.
  intros Hstep d s Hi Hm.
  pose proof (run_pow2_inv step Inv m P Hstep d s Hi ltac:(lia)) as H.
  destruct (run_pow2 step d s) as [s'|r].
  - destruct H as (_ & H1 & H2). lia.
  - exists r. split; [reflexivity|exact H].
Qed.

(* Proofs/LoopsTie.v — the loop functions GENERATED from /repo/src/buint/*.rs on every run
   (Generated/Loops.v, by tools/rs2v_loops.py) equal the hand-written model, for every digit width,
   every digit count and all well-formed operands: with fuel >= N the generated function neither
   panics nor runs out of fuel and returns exactly what the model function returns. *)
From Bnum Require Import Base Prim.
From Bnum.Model Require Import DigitPrims LoopPrims Digit Core Shift AddSub Mul Bits Imp.
From Bnum.Model Require Div Ops.
From Bnum.Generated Require Import DigitGen Loops.
From Bnum.Proofs Require Import DigitTie ImpLemmas.

(* simplify the application of a generated loop body / condition to a state tuple *)
Ltac body_red := cbv beta iota.

(* ================= (a) src/buint/overflowing.rs ================= *)

Lemma add_loop_scan2 w a b c : add_loop w a b c = scan2 (carrying_add w) a b c.
Proof.
  revert b c. induction a as [|x a IH]; intros b c; [reflexivity|].
  destruct b as [|y b]; [reflexivity|]. cbn [add_loop scan2].
  destruct (carrying_add w x y c) as [s c1]. cbn [fst snd]. rewrite IH.
  destruct (scan2 (carrying_add w) a b c1). reflexivity.
Qed.

Lemma sub_loop_scan2 w a b c : sub_loop w a b c = scan2 (borrowing_sub w) a b c.
Proof.
  revert b c. induction a as [|x a IH]; intros b c; [reflexivity|].
  destruct b as [|y b]; [reflexivity|]. cbn [sub_loop scan2].
  destruct (borrowing_sub w x y c) as [s c1]. cbn [fst snd]. rewrite IH.
  destruct (scan2 (borrowing_sub w) a b c1). reflexivity.
Qed.

Lemma loops_overflowing_add w n a b : 0 < w -> wf w n a -> wf w n b ->
  forall fuel, (n <= fuel)%nat ->
  Loops.overflowing_add w (Z.of_nat n) fuel a b = Done (U_overflowing_add w a b).
Proof.
  intros Hw [Ha _] [Hb _] fuel Hf. subst n. unfold Loops.overflowing_add. rewrite Nat2Z.id.
  rewrite (loop_scan2_all (carrying_add w) a b); try first [assumption | apply repeat_length | reflexivity].
  - cbn [bind]. unfold U_overflowing_add. rewrite add_loop_scan2.
    destruct (scan2 (carrying_add w) a b false). reflexivity.
  - intros out c j Hj Hl. body_red. rewrite !arr_get_nat by lia. cbn [bind].
    rewrite arr_set_nat by lia. reflexivity.
Qed.

Lemma loops_overflowing_sub w n a b : 0 < w -> wf w n a -> wf w n b ->
  forall fuel, (n <= fuel)%nat ->
  Loops.overflowing_sub w (Z.of_nat n) fuel a b = Done (U_overflowing_sub w a b).
Proof.
  intros Hw [Ha _] [Hb _] fuel Hf. subst n. unfold Loops.overflowing_sub. rewrite Nat2Z.id.
  rewrite (loop_scan2_all (borrowing_sub w) a b); try first [assumption | apply repeat_length | reflexivity].
  - cbn [bind]. unfold U_overflowing_sub. rewrite sub_loop_scan2.
    destruct (scan2 (borrowing_sub w) a b false). reflexivity.
  - intros out c j Hj Hl. body_red. rewrite !arr_get_nat by lia. cbn [bind].
    rewrite arr_set_nat by lia. reflexivity.
Qed.

(* ================= (b) src/buint/const_trait_fillers.rs ================= *)

Lemma scan2_map2 (h : Z -> Z -> Z) a b :
  fst (scan2 (fun x y (_ : unit) => (h x y, tt)) a b tt) = map2 h a b.
Proof.
  revert b. induction a as [|x a IH]; intros b; [reflexivity|].
  destruct b as [|y b]; [reflexivity|]. cbn [scan2 map2 fst snd]. rewrite IH. reflexivity.
Qed.

Lemma loops_bitand w n a b : 0 < w -> wf w n a -> wf w n b ->
  forall fuel, (n <= fuel)%nat -> Loops.bitand w (Z.of_nat n) fuel a b = Done (bitand a b).
Proof.
  intros Hw [Ha _] [Hb _] fuel Hf. subst n. unfold Loops.bitand. rewrite Nat2Z.id.
  rewrite (loop_map2_all u_and a b); try first [assumption | apply repeat_length | reflexivity].
  - cbn [bind]. rewrite scan2_map2. reflexivity.
  - intros out j Hj Hl. body_red. rewrite !arr_get_nat by lia. cbn [bind].
    rewrite arr_set_nat by lia. reflexivity.
Qed.

Lemma loops_bitor w n a b : 0 < w -> wf w n a -> wf w n b ->
  forall fuel, (n <= fuel)%nat -> Loops.bitor w (Z.of_nat n) fuel a b = Done (bitor a b).
Proof.
  intros Hw [Ha _] [Hb _] fuel Hf. subst n. unfold Loops.bitor. rewrite Nat2Z.id.
  rewrite (loop_map2_all u_or a b); try first [assumption | apply repeat_length | reflexivity].
  - cbn [bind]. rewrite scan2_map2. reflexivity.
  - intros out j Hj Hl. body_red. rewrite !arr_get_nat by lia. cbn [bind].
    rewrite arr_set_nat by lia. reflexivity.
Qed.

Lemma loops_bitxor w n a b : 0 < w -> wf w n a -> wf w n b ->
  forall fuel, (n <= fuel)%nat -> Loops.bitxor w (Z.of_nat n) fuel a b = Done (bitxor a b).
Proof.
  intros Hw [Ha _] [Hb _] fuel Hf. subst n. unfold Loops.bitxor. rewrite Nat2Z.id.
  rewrite (loop_map2_all u_xor a b); try first [assumption | apply repeat_length | reflexivity].
  - cbn [bind]. rewrite scan2_map2. reflexivity.
  - intros out j Hj Hl. body_red. rewrite !arr_get_nat by lia. cbn [bind].
    rewrite arr_set_nat by lia. reflexivity.
Qed.

Lemma loops_not w n a : 0 < w -> wf w n a ->
  forall fuel, (n <= fuel)%nat -> Loops.not_ w (Z.of_nat n) fuel a = Done (bitnot w a).
Proof.
  intros Hw [Ha _] fuel Hf. subst n. unfold Loops.not_. rewrite Nat2Z.id.
  rewrite (loop_map1_all (u_not w) a); try first [assumption | apply repeat_length | reflexivity].
  intros out j Hj Hl. body_red. rewrite !arr_get_nat by lia. cbn [bind].
  rewrite arr_set_nat by lia. reflexivity.
Qed.

Lemma loops_eq w n a b : 0 < w -> wf w n a -> wf w n b ->
  forall fuel, (n <= fuel)%nat -> Loops.eq_ w (Z.of_nat n) fuel a b = Done (eq_digits a b).
Proof.
  intros Hw [Ha _] [Hb _] fuel Hf. unfold Loops.eq_.
  apply while_count_bind with (n := n) (k := 0%nat)
    (Inv := fun k i => i = Z.of_nat k /\ (k <= n)%nat /\ eq_digits a b = eq_digits (skipn k a) (skipn k b)).
  - intros k i (-> & Hk & Heq) Hc. rewrite ltb_of_nat in Hc. apply Nat.ltb_lt in Hc. split; [exact Hc|].
    rewrite !arr_get_nat by lia. cbn [bind].
    rewrite Heq. rewrite (skipn_nth_cons a k) by lia. rewrite (skipn_nth_cons b k) by lia. cbn [eq_digits].
    destruct (nth k a 0 =? nth k b 0); cbn [negb].
    + split; [lia|]. split; [lia | reflexivity].
    + reflexivity.
  - intros k i (-> & Hk & Heq) Hc. rewrite ltb_of_nat in Hc. apply Nat.ltb_ge in Hc.
    rewrite Heq. rewrite (skipn_all2 a) by lia. reflexivity.
  - split; [reflexivity|]. split; [lia | reflexivity].
  - lia.
Qed.

Lemma ucmp_snoc la lb x y : length la = length lb ->
  ucmp (la ++ [x]) (lb ++ [y]) = if y <? x then Gt else if x <? y then Lt else ucmp la lb.
Proof.
  revert lb. induction la as [|p la IH]; intros lb Hl; destruct lb as [|q lb]; try discriminate.
  - cbn [app ucmp]. destruct (y <? x); [reflexivity|]. destruct (x <? y); reflexivity.
  - cbn [app ucmp]. rewrite IH by (cbn [length] in Hl; lia).
    destruct (y <? x); [reflexivity|]. destruct (x <? y); reflexivity.
Qed.

Lemma loops_cmp w n a b : 0 < w -> wf w n a -> wf w n b ->
  forall fuel, (n <= fuel)%nat -> Loops.cmp w (Z.of_nat n) fuel a b = Done (ucmp a b).
Proof.
  intros Hw [Ha _] [Hb _] fuel Hf. unfold Loops.cmp.
  apply while_count_bind with (n := n) (k := 0%nat)
    (Inv := fun k i => i = Z.of_nat (n - k) /\ (k <= n)%nat /\
                       ucmp a b = ucmp (firstn (n - k) a) (firstn (n - k) b)).
  - intros k i (-> & Hk & Heq) Hc. rewrite gtb_of_nat_0 in Hc. apply Nat.ltb_lt in Hc. split; [lia|].
    change 1 with (Z.of_nat 1). rewrite usub_nat by lia. cbn [bind].
    rewrite !arr_get_nat by lia. cbn [bind].
    assert (E : forall l : list Z, (n - k - 1 < length l)%nat ->
                firstn (n - k) l = firstn (n - k - 1) l ++ [nth (n - k - 1) l 0]).
    { intros l Hl. replace (n - k)%nat with (S (n - k - 1)) at 1 by lia. apply firstn_S_snoc. exact Hl. }
    rewrite Heq. rewrite (E a) by lia. rewrite (E b) by lia.
    rewrite ucmp_snoc by (rewrite !firstn_length; lia).
    rewrite Z.gtb_ltb.
    destruct (nth (n - k - 1) b 0 <? nth (n - k - 1) a 0); [reflexivity|].
    destruct (nth (n - k - 1) a 0 <? nth (n - k - 1) b 0); [reflexivity|].
    split; [f_equal; lia|]. split; [lia|]. replace (n - S k)%nat with (n - k - 1)%nat by lia. reflexivity.
  - intros k i (-> & Hk & Heq) Hc. rewrite gtb_of_nat_0 in Hc. apply Nat.ltb_ge in Hc.
    rewrite Heq. replace (n - k)%nat with 0%nat by lia. reflexivity.
  - split; [f_equal; lia|]. split; [lia|]. rewrite Nat.sub_0_r. rewrite !firstn_all2 by lia. reflexivity.
  - lia.
Qed.

(* ================= (c) src/buint/mul.rs ================= *)

Lemma carrying_mul_ok w a b c d : 0 < w ->
  digit_ok w (fst (carrying_mul w a b c d)) /\ digit_ok w (snd (carrying_mul w a b c d)).
Proof.
  intros Hw. unfold carrying_mul, digit_ok. cbn [fst snd]. pose proof (B_pos w ltac:(lia)).
  split; apply Z.mod_pos_bound; lia.
Qed.

(* one row: the state of the inner loop after k iterations, in terms of what mul_row still has to do *)
Definition mul_inner_inv (w : Z) (n : nat) (b : list Z) (i : nat) (ai : Z) (ov0 : bool) (pre sfx0 : list Z)
           (k : nat) (s : bool * list Z * Z * Z) : Prop :=
  let '(ov, out, carry, j) := s in
  j = Z.of_nat k /\ (k <= n)%nat /\ ov = ov0 /\ length out = n /\ Forall (digit_ok w) out /\ digit_ok w carry /\
  firstn i out = pre /\
  mul_row w ai b sfx0 0 =
  (firstn k (skipn i out) ++ fst (fst (mul_row w ai (skipn k b) (skipn (i + k) out) carry)),
   snd (fst (mul_row w ai (skipn k b) (skipn (i + k) out) carry)),
   snd (mul_row w ai (skipn k b) (skipn (i + k) out) carry)).

Definition mul_inner_post (w : Z) (n : nat) (b : list Z) (i : nat) (ai : Z) (ov0 : bool) (pre sfx0 : list Z)
           (e : loop_exit (bool * list Z * Z * Z) (list Z * bool)) : Prop :=
  match e with
  | Exited (ov, out, carry, j) =>
      length out = n /\ Forall (digit_ok w) out /\ firstn i out = pre /\
      exists o, mul_row w ai b sfx0 0 = (skipn i out, carry, o) /\ ov = ov0 || o
  | Returned _ => False
  end.

Lemma loops_long_mul w n a b : 0 < w -> wf w n a -> wf w n b ->
  forall fuel, (n <= fuel)%nat -> Loops.long_mul w (Z.of_nat n) fuel a b = Done (long_mul w a b).
Proof.
  intros Hw [Ha Fa] [Hb Fb] fuel Hf. unfold Loops.long_mul. rewrite Nat2Z.id.
  apply while_count_bind with (n := n) (k := 0%nat)
    (Inv := fun k '(ov, out, carry, i) =>
       i = Z.of_nat k /\ (k <= n)%nat /\ length out = n /\ Forall (digit_ok w) out /\
       long_mul w a b = (firstn k out ++ fst (long_mul_loop w (skipn k a) b (skipn k out) ov),
                         snd (long_mul_loop w (skipn k a) b (skipn k out) ov))).
  - intros k [[[ov out] carry] i] (-> & Hk & Hlen & Fout & Heq) Hc.
    rewrite ltb_of_nat in Hc. apply Nat.ltb_lt in Hc. split; [exact Hc|].
    match goal with |- context [while_loop fuel ?c ?bd ?s0] =>
      assert (W : exists e, while_loop fuel c bd s0 = Done e /\
                            mul_inner_post w n b k (nth k a 0) ov (firstn k out) (skipn k out) e)
    end.
    { apply (while_count n (mul_inner_inv w n b k (nth k a 0) ov (firstn k out) (skipn k out))) with (k := 0%nat).
    + (* one inner iteration *)
      intros j [[[ov' out'] carry'] jz] (-> & Hj & -> & Hlen' & Fout' & Hcar & Hpre & Hrow) Hcj.
      rewrite ltb_of_nat in Hcj. apply Nat.ltb_lt in Hcj. split; [exact Hcj|].
      rewrite <- Nat2Z.inj_add, ltb_of_nat.
      rewrite (skipn_nth_cons b j) in Hrow by lia.
      destruct (Nat.ltb_spec (k + j) n) as [Hin|Hout].
      * rewrite !arr_get_nat by lia. cbn [bind].
        rewrite tie_carrying_mul; try assumption;
          try (apply Forall_nth_Z; [assumption | lia]).
        rewrite (skipn_nth_cons out' (k + j)) in Hrow by lia. cbn [mul_row] in Hrow.
        pose proof (carrying_mul_ok w (nth k a 0) (nth j b 0) carry' (nth (k + j) out' 0) Hw) as [Hp Hc'].
        destruct (carrying_mul w (nth k a 0) (nth j b 0) carry' (nth (k + j) out' 0)) as [p c1].
        cbn [fst snd] in Hp, Hc'.
        rewrite arr_set_nat by lia. cbn [bind].
        unfold mul_inner_inv.
        split; [lia|]. split; [lia|]. split; [reflexivity|]. split; [rewrite list_set_length; exact Hlen'|].
        split; [apply Forall_list_set; assumption|]. split; [exact Hc'|].
        split; [rewrite firstn_list_set_le by lia; exact Hpre|].
        rewrite Hrow. rewrite skipn_list_set_ge. rewrite firstn_S_list_set by (rewrite skipn_length; lia).
        replace (k + S j)%nat with (S (k + j)) by lia. rewrite skipn_list_set_gt by lia.
        destruct (mul_row w (nth k a 0) (skipn (S j) b) (skipn (S (k + j)) out') c1) as [[r cf] o].
        cbn [fst snd]. rewrite <- app_assoc. reflexivity.
      * rewrite (skipn_all2 out' (n := (k + j)%nat)) in Hrow by lia. cbn [mul_row] in Hrow.
        rewrite arr_get_nat by lia. cbn [bind].
        destruct (nth k a 0 =? 0) eqn:Ea; cbn [negb andb] in Hrow |- *.
        -- cbn [bind]. unfold mul_inner_inv.
           split; [lia|]. split; [lia|]. split; [reflexivity|]. split; [exact Hlen'|].
           split; [exact Fout'|]. split; [exact Hcar|]. split; [exact Hpre|].
           rewrite Hrow. rewrite (skipn_all2 out' (n := (k + S j)%nat)) by lia.
           rewrite !(firstn_all2 (skipn k out')) by (rewrite skipn_length; lia). reflexivity.
        -- rewrite arr_get_nat by lia. cbn [bind].
           destruct (nth j b 0 =? 0) eqn:Eb; cbn [negb] in Hrow |- *.
           ++ unfold mul_inner_inv.
              split; [lia|]. split; [lia|]. split; [reflexivity|]. split; [exact Hlen'|].
              split; [exact Fout'|]. split; [exact Hcar|]. split; [exact Hpre|].
              rewrite Hrow. rewrite (skipn_all2 out' (n := (k + S j)%nat)) by lia.
              rewrite !(firstn_all2 (skipn k out')) by (rewrite skipn_length; lia). reflexivity.
           ++ unfold mul_inner_post.
              split; [exact Hlen'|]. split; [exact Fout'|]. split; [exact Hpre|].
              exists true. split; [|rewrite orb_true_r; reflexivity].
              rewrite Hrow. cbn [fst snd]. rewrite app_nil_r.
              rewrite firstn_all2 by (rewrite skipn_length; lia). reflexivity.
    + (* inner loop exit: j = n *)
      intros j [[[ov' out'] carry'] jz] (-> & Hj & -> & Hlen' & Fout' & Hcar & Hpre & Hrow) Hcj.
      rewrite ltb_of_nat in Hcj. apply Nat.ltb_ge in Hcj. assert (j = n) by lia. subst j.
      unfold mul_inner_post.
      split; [exact Hlen'|]. split; [exact Fout'|]. split; [exact Hpre|].
      exists false. split; [|rewrite orb_false_r; reflexivity].
      rewrite Hrow. rewrite (skipn_all2 b) by lia. rewrite (skipn_all2 out' (n := (k + n)%nat)) by lia.
      cbn [mul_row fst snd]. rewrite app_nil_r.
      rewrite firstn_all2 by (rewrite skipn_length; lia). reflexivity.
    + (* inner invariant initially *)
      unfold mul_inner_inv.
      split; [reflexivity|]. split; [lia|]. split; [reflexivity|]. split; [exact Hlen|].
      split; [exact Fout|]. split; [unfold digit_ok; pose proof (B_pos w ltac:(lia)); lia|].
      split; [reflexivity|]. rewrite Nat.add_0_r. cbn [skipn firstn app].
      destruct (mul_row w (nth k a 0) b (skipn k out) 0) as [[r cf] o]. reflexivity.
    + lia. }
    destruct W as (e & He & HQ).
    (* after the inner loop *)
      rewrite He. cbn [bind]. destruct e as [[[[ov' out'] carry'] jz]|r]; [|contradiction].
      destruct HQ as (Hlen' & Fout' & Hpre & o & Hrow & ->).
      rewrite Heq. rewrite (skipn_nth_cons a k) by lia. cbn [long_mul_loop]. rewrite Hrow.
      assert (Hs : skipn k out' = nth k out' 0 :: skipn (S k) out') by (apply skipn_nth_cons; lia).
      rewrite Hs.
      assert (Hpre' : firstn (S k) out' = firstn k out ++ [nth k out' 0])
        by (rewrite firstn_S_snoc by lia; rewrite Hpre; reflexivity).
      destruct (carry' =? 0) eqn:Ec; cbn [negb].
      * split; [lia|]. split; [lia|]. split; [exact Hlen'|]. split; [exact Fout'|].
        rewrite Hpre'. rewrite orb_false_r.
        destruct (long_mul_loop w (skipn (S k) a) b (skipn (S k) out') (ov || o)) as [r o2].
        cbn [fst snd]. rewrite <- app_assoc. reflexivity.
      * split; [lia|]. split; [lia|]. split; [exact Hlen'|]. split; [exact Fout'|].
        rewrite Hpre'. rewrite orb_true_r.
        destruct (long_mul_loop w (skipn (S k) a) b (skipn (S k) out') true) as [r o2].
        cbn [fst snd]. rewrite <- app_assoc. reflexivity.
  - intros k [[[ov out] carry] i] (-> & Hk & Hlen & Fout & Heq) Hc.
    rewrite ltb_of_nat in Hc. apply Nat.ltb_ge in Hc. assert (k = n) by lia. subst k.
    rewrite Heq. rewrite (skipn_all2 a) by lia. cbn [long_mul_loop fst snd].
    rewrite firstn_all2 by lia. rewrite app_nil_r. reflexivity.
  - split; [reflexivity|]. split; [lia|]. split; [apply repeat_length|].
    split; [apply Forall_forall; intros x Hx; apply repeat_spec in Hx; subst x; unfold digit_ok;
            pose proof (B_pos w ltac:(lia)); lia|].
    unfold long_mul. cbn [skipn firstn app]. rewrite Ha.
    destruct (long_mul_loop w a b (ZERO n) false). reflexivity.
  - lia.
Qed.

(* ================= (d) src/buint/mod.rs: counting loops ================= *)

Lemma count_ones_sum l : count_ones l = sum_stop u_count_ones (fun _ => false) l.
Proof. induction l as [|d r IH]; cbn [count_ones sum_stop]; [reflexivity | rewrite IH; reflexivity]. Qed.
Lemma count_zeros_sum w l : count_zeros w l = sum_stop (u_count_zeros w) (fun _ => false) l.
Proof. induction l as [|d r IH]; cbn [count_zeros sum_stop]; [reflexivity | rewrite IH; reflexivity]. Qed.
Lemma trailing_zeros_sum w l : trailing_zeros w l = sum_stop (u_trailing_zeros w) (fun d => negb (d =? 0)) l.
Proof.
  induction l as [|d r IH]; cbn [trailing_zeros sum_stop]; [reflexivity|].
  rewrite IH. destruct (d =? 0); reflexivity.
Qed.
Lemma leading_zeros_rev_sum w l : leading_zeros_rev w l = sum_stop (u_leading_zeros w) (fun d => negb (d =? 0)) l.
Proof.
  induction l as [|d r IH]; cbn [leading_zeros_rev sum_stop]; [reflexivity|].
  rewrite IH. destruct (d =? 0); reflexivity.
Qed.
Lemma trailing_ones_sum w l : trailing_ones w l = sum_stop (u_trailing_ones w) (fun d => negb (d =? u_max w)) l.
Proof.
  induction l as [|d r IH]; cbn [trailing_ones sum_stop]; [reflexivity|].
  rewrite IH. destruct (d =? u_max w); reflexivity.
Qed.
Lemma leading_ones_rev_sum w l : leading_ones_rev w l = sum_stop (u_leading_ones w) (fun d => negb (d =? u_max w)) l.
Proof.
  induction l as [|d r IH]; cbn [leading_ones_rev sum_stop]; [reflexivity|].
  rewrite IH. destruct (d =? u_max w); reflexivity.
Qed.

(* upward counting loop, state (acc, i) *)
Ltac count_up h stop a :=
  apply (loop_fold_stop_bind (fun acc j => (acc, Z.of_nat j)) (fun acc j => (acc, Z.of_nat j))
           (fun d acc => acc + h d) stop a) with (v := fun acc => acc);
  [ reflexivity | lia
  | intros acc j Hj; rewrite ltb_of_nat; apply Nat.ltb_lt; lia
  | intros acc; rewrite ltb_of_nat; apply Nat.ltb_ge; lia
  | intros acc j Hj; body_red; rewrite arr_get_nat by lia; cbn [bind]; rewrite Nat2Z.inj_succ; reflexivity
  | intros; reflexivity | intros; reflexivity ].

(* downward counting loop `i = N; while i > 0 { i -= 1; .. }`, state (acc, i) *)
Ltac count_down h stop a n :=
  apply (loop_fold_stop_bind (fun acc j => (acc, Z.of_nat (n - j))) (fun acc j => (acc, Z.of_nat (n - S j)))
           (fun d acc => acc + h d) stop (rev a)) with (v := fun acc => acc);
  [ rewrite Nat.sub_0_r; reflexivity | rewrite rev_length; lia
  | intros acc j Hj; rewrite rev_length in Hj; rewrite gtb_of_nat_0; apply Nat.ltb_lt; lia
  | intros acc; rewrite rev_length; rewrite gtb_of_nat_0; apply Nat.ltb_ge; lia
  | intros acc j Hj; rewrite rev_length in Hj; body_red;
    change 1 with (Z.of_nat 1); rewrite usub_nat by lia; cbn [bind];
    replace (n - j - 1)%nat with (n - S j)%nat by lia;
    rewrite arr_get_nat by lia; cbn [bind];
    rewrite rev_nth by lia; replace (length a - S j)%nat with (n - S j)%nat by lia; reflexivity
  | intros; reflexivity | intros; reflexivity ].

Lemma loops_count_ones w n a : 0 < w -> wf w n a ->
  forall fuel, (n <= fuel)%nat -> Loops.count_ones w (Z.of_nat n) fuel a = Done (count_ones a).
Proof.
  intros Hw [Ha _] fuel Hf. unfold Loops.count_ones.
  rewrite count_ones_sum, <- (Z.add_0_l (sum_stop _ _ a)), <- fold_stop_sum.
  count_up u_count_ones (fun _ : Z => false) a.
Qed.

Lemma loops_count_zeros w n a : 0 < w -> wf w n a ->
  forall fuel, (n <= fuel)%nat -> Loops.count_zeros w (Z.of_nat n) fuel a = Done (count_zeros w a).
Proof.
  intros Hw [Ha _] fuel Hf. unfold Loops.count_zeros.
  rewrite count_zeros_sum, <- (Z.add_0_l (sum_stop _ _ a)), <- fold_stop_sum.
  count_up (u_count_zeros w) (fun _ : Z => false) a.
Qed.

Lemma loops_trailing_zeros w n a : 0 < w -> wf w n a ->
  forall fuel, (n <= fuel)%nat -> Loops.trailing_zeros w (Z.of_nat n) fuel a = Done (trailing_zeros w a).
Proof.
  intros Hw [Ha _] fuel Hf. unfold Loops.trailing_zeros.
  rewrite trailing_zeros_sum, <- (Z.add_0_l (sum_stop _ _ a)), <- fold_stop_sum.
  count_up (u_trailing_zeros w) (fun d => negb (d =? 0)) a.
Qed.

Lemma loops_trailing_ones w n a : 0 < w -> wf w n a ->
  forall fuel, (n <= fuel)%nat -> Loops.trailing_ones w (Z.of_nat n) fuel a = Done (trailing_ones w a).
Proof.
  intros Hw [Ha _] fuel Hf. unfold Loops.trailing_ones.
  rewrite trailing_ones_sum, <- (Z.add_0_l (sum_stop _ _ a)), <- fold_stop_sum.
  count_up (u_trailing_ones w) (fun d => negb (d =? u_max w)) a.
Qed.

Lemma loops_leading_zeros w n a : 0 < w -> wf w n a ->
  forall fuel, (n <= fuel)%nat -> Loops.leading_zeros w (Z.of_nat n) fuel a = Done (leading_zeros w a).
Proof.
  intros Hw [Ha _] fuel Hf. unfold Loops.leading_zeros, leading_zeros.
  rewrite leading_zeros_rev_sum, <- (Z.add_0_l (sum_stop _ _ (rev a))), <- fold_stop_sum.
  count_down (u_leading_zeros w) (fun d => negb (d =? 0)) a n.
Qed.

Lemma loops_leading_ones w n a : 0 < w -> wf w n a ->
  forall fuel, (n <= fuel)%nat -> Loops.leading_ones w (Z.of_nat n) fuel a = Done (leading_ones w a).
Proof.
  intros Hw [Ha _] fuel Hf. unfold Loops.leading_ones, leading_ones.
  rewrite leading_ones_rev_sum, <- (Z.add_0_l (sum_stop _ _ (rev a))), <- fold_stop_sum.
  count_down (u_leading_ones w) (fun d => negb (d =? u_max w)) a n.
Qed.

Lemma loops_is_power_of_two w n a : 0 < w -> wf w n a ->
  forall fuel, (n <= fuel)%nat -> Loops.is_power_of_two w (Z.of_nat n) fuel a = Done (U_is_power_of_two a).
Proof.
  intros Hw [Ha _] fuel Hf. unfold Loops.is_power_of_two.
  apply while_count_bind with (n := n) (k := 0%nat)
    (Inv := fun k '(i, ones) => i = Z.of_nat k /\ (k <= n)%nat /\
                                U_is_power_of_two a = is_power_of_two_loop (skipn k a) ones).
  - intros k [i ones] (-> & Hk & Heq) Hc. rewrite ltb_of_nat in Hc. apply Nat.ltb_lt in Hc. split; [exact Hc|].
    rewrite arr_get_nat by lia. cbn [bind].
    rewrite Heq. rewrite (skipn_nth_cons a k) by lia. cbn [is_power_of_two_loop].
    rewrite Z.gtb_ltb. destruct (1 <? ones + u_count_ones (nth k a 0)); [reflexivity|].
    split; [lia|]. split; [lia | reflexivity].
  - intros k [i ones] (-> & Hk & Heq) Hc. rewrite ltb_of_nat in Hc. apply Nat.ltb_ge in Hc.
    rewrite Heq. rewrite (skipn_all2 a) by lia. reflexivity.
  - split; [reflexivity|]. split; [lia | reflexivity].
  - lia.
Qed.

Lemma loops_is_zero w n a : 0 < w -> wf w n a ->
  forall fuel, (n <= fuel)%nat -> Loops.is_zero w (Z.of_nat n) fuel a = Done (is_zero a).
Proof.
  intros Hw [Ha _] fuel Hf. unfold Loops.is_zero.
  apply while_count_bind with (n := n) (k := 0%nat)
    (Inv := fun k i => i = Z.of_nat k /\ (k <= n)%nat /\ is_zero a = is_zero (skipn k a)).
  - intros k i (-> & Hk & Heq) Hc. rewrite ltb_of_nat in Hc. apply Nat.ltb_lt in Hc. split; [exact Hc|].
    rewrite arr_get_nat by lia. cbn [bind].
    rewrite Heq. rewrite (skipn_nth_cons a k) by lia. cbn [is_zero].
    destruct (nth k a 0 =? 0); cbn [negb]; [|reflexivity].
    split; [lia|]. split; [lia | reflexivity].
  - intros k i (-> & Hk & Heq) Hc. rewrite ltb_of_nat in Hc. apply Nat.ltb_ge in Hc.
    rewrite Heq. rewrite (skipn_all2 a) by lia. reflexivity.
  - split; [reflexivity|]. split; [lia | reflexivity].
  - lia.
Qed.

Lemma loops_is_one w n a : 0 < w -> wf w n a ->
  forall fuel, (n <= fuel)%nat -> Loops.is_one w (Z.of_nat n) fuel a = Done (is_one a).
Proof.
  intros Hw [Ha _] fuel Hf. unfold Loops.is_one.
  destruct a as [|d r].
  { cbn [length] in Ha. subst n. reflexivity. }
  cbn [length] in Ha. destruct (Z.eqb_spec (Z.of_nat n) 0) as [E|_]; [lia|].
  change 0 with (Z.of_nat 0) at 1. rewrite arr_get_nat by (cbn [length]; lia). cbn [bind nth is_one].
  destruct (d =? 1); cbn [negb]; [|reflexivity].
  apply while_count_bind with (n := n) (k := 1%nat)
    (Inv := fun k i => i = Z.of_nat k /\ (1 <= k <= n)%nat /\ is_zero r = is_zero (skipn k (d :: r))).
  - intros k i (-> & Hk & Heq) Hc. rewrite ltb_of_nat in Hc. apply Nat.ltb_lt in Hc. split; [exact Hc|].
    rewrite arr_get_nat by (cbn [length]; lia). cbn [bind].
    rewrite Heq. rewrite (skipn_nth_cons (d :: r) k) by (cbn [length]; lia). cbn [is_zero].
    destruct (nth k (d :: r) 0 =? 0); cbn [negb]; [|reflexivity].
    split; [lia|]. split; [lia | reflexivity].
  - intros k i (-> & Hk & Heq) Hc. rewrite ltb_of_nat in Hc. apply Nat.ltb_ge in Hc.
    rewrite Heq. rewrite (skipn_all2 (d :: r)) by (cbn [length]; lia). reflexivity.
  - split; [reflexivity|]. split; [lia | reflexivity].
  - lia.
Qed.

(* ================= (e) src/buint/mod.rs: shifts, rotations, byte / bit reversal ================= *)

(* the digit width is a power of two: `rhs >> BIT_SHIFT` is rhs / w and `rhs & BITS_MINUS_1` is rhs mod w *)
Lemma tz_pow2 m : u_trailing_zeros 32 (2 ^ Z.of_nat m) = Z.of_nat m.
Proof.
  induction m as [|m IH]; [reflexivity|].
  rewrite Nat2Z.inj_succ, Z.pow_succ_r by lia.
  assert (Hp : 0 < 2 ^ Z.of_nat m) by (apply Z.pow_pos_nonneg; lia).
  destruct (2 ^ Z.of_nat m) as [|p|p] eqn:E; try lia.
  change (2 * Z.pos p) with (Z.pos p~0). cbn [u_trailing_zeros tz_pos] in *. rewrite IH. lia.
Qed.

Lemma pow2_split w lg rhs : 0 <= lg -> w = 2 ^ lg -> 0 <= rhs ->
  ix_shr rhs (digit_BIT_SHIFT w) = rhs / w /\ ix_and rhs (digit_BITS_MINUS_1 w) = rhs mod w.
Proof.
  intros Hlg -> Hr. unfold ix_shr, ix_and, digit_BIT_SHIFT, digit_BITS_MINUS_1.
  rewrite <- (Z2Nat.id lg) at 1 by lia. rewrite tz_pow2, Z2Nat.id by lia.
  split; [apply Z.shiftr_div_pow2; lia|].
  replace (2 ^ lg - 1) with (Z.ones lg) by (rewrite Z.ones_equiv; lia). apply Z.land_ones; lia.
Qed.

Lemma shl_bits_scan1 w bs ds c :
  shl_bits w bs ds c = fst (scan1 (fun d c => (u_or (u_shl w d bs) c, u_shr d (w - bs))) ds c) /\
  shl_bits_carry w bs ds c = snd (scan1 (fun d c => (u_or (u_shl w d bs) c, u_shr d (w - bs))) ds c).
Proof.
  revert c. induction ds as [|d r IH]; intros c; [split; reflexivity|].
  cbn [shl_bits shl_bits_carry scan1 fst snd]. destruct (IH (u_shr d (w - bs))) as [-> ->]. split; reflexivity.
Qed.

Lemma shr_bits_scan1 w bs ds c :
  shr_bits w bs ds c = fst (scan1 (fun d c => (u_or (u_shr d bs) c, u_shl w d (w - bs))) ds c).
Proof.
  revert c. induction ds as [|d r IH]; intros c; [reflexivity|].
  cbn [shr_bits scan1 fst snd]. rewrite IH. reflexivity.
Qed.

Lemma loops_unchecked_shl_internal w lg n a rhs : 0 <= lg -> w = 2 ^ lg -> wf w n a ->
  0 <= rhs < bits w n ->
  forall fuel, (n <= fuel)%nat ->
  Loops.unchecked_shl_internal w (Z.of_nat n) fuel a rhs = Done (shl_internal w a rhs).
Proof.
  intros Hlg Hwl [Ha _] Hr fuel Hf.
  assert (Hw : 0 < w) by (subst w; apply Z.pow_pos_nonneg; lia).
  unfold Loops.unchecked_shl_internal, shl_internal. rewrite Nat2Z.id.
  destruct (pow2_split w lg rhs Hlg Hwl ltac:(lia)) as [-> ->].
  unfold bits in Hr.
  assert (Hq : 0 <= rhs / w < Z.of_nat n) by (split; [apply Z.div_pos; lia | apply Z.div_lt_upper_bound; lia]).
  pose proof (Z.mod_pos_bound rhs w Hw) as Hm.
  set (ds := Z.to_nat (rhs / w)). assert (Hds : rhs / w = Z.of_nat ds) by (unfold ds; lia).
  rewrite Hds. set (bs := rhs mod w) in *. rewrite Ha.
  set (src := firstn (n - ds) a).
  assert (Hsrc : length src = (n - ds)%nat) by (unfold src; rewrite firstn_length; lia).
  destruct (bs =? 0) eqn:Ebs; cbn [negb].
  - (* digit copy *)
    rewrite (loop_writes0 (fun out (_ : unit) j => (out, Z.of_nat (ds + j))) (fun j => (ds + j)%nat)
               (fun j c => (nth j src 0, tt)) _ _ (n - ds) n fuel (ZERO n) tt);
      try first [reflexivity | apply repeat_length | lia | (rewrite Nat.add_0_r; reflexivity)].
    + rewrite run_writes_up by (unfold ZERO; rewrite repeat_length; lia). cbn [bind fst snd].
      rewrite <- Hsrc. rewrite (scan_idx_scan1 (fun x (_ : unit) => (x, tt)) src) by (intros; reflexivity).
      rewrite (scan1_map (fun x => x)). cbn [fst]. rewrite map_id. rewrite Nat.add_0_r.
      unfold ZERO. rewrite firstn_repeat, skipn_repeat.
      replace (Nat.min ds n) with ds by lia. replace (n - (ds + length src))%nat with 0%nat by lia.
      cbn [repeat]. rewrite app_nil_r.
      rewrite firstn_all2 by (rewrite app_length, repeat_length; lia). reflexivity.
    + intros out c j Hj. rewrite ltb_of_nat. apply Nat.ltb_lt. lia.
    + intros out c. rewrite ltb_of_nat. apply Nat.ltb_ge. lia.
    + intros out c j Hj Hl. body_red. rewrite usub_nat by lia. cbn [bind].
      rewrite arr_get_nat by lia. cbn [bind]. rewrite arr_set_nat by lia. cbn [bind fst snd].
      replace (ds + j - ds)%nat with j by lia. unfold src. rewrite nth_firstn_lt by lia.
      rewrite Nat.add_succ_r, Nat2Z.inj_succ. reflexivity.
  - (* digit copy with bit shift *)
    apply Z.eqb_neq in Ebs. rewrite usub_ok by lia. cbn [bind].
    rewrite (loop_writes0 (fun out c j => (out, c, Z.of_nat (ds + j))) (fun j => (ds + j)%nat)
               (fun j c => (u_or (u_shl w (nth j src 0) bs) c, u_shr (nth j src 0) (w - bs)))
               _ _ (n - ds) n fuel (ZERO n) 0);
      try first [reflexivity | apply repeat_length | lia | (rewrite Nat.add_0_r; reflexivity)].
    + rewrite run_writes_up by (unfold ZERO; rewrite repeat_length; lia). cbn [bind fst snd].
      rewrite <- Hsrc.
      rewrite (scan_idx_scan1 (fun d c => (u_or (u_shl w d bs) c, u_shr d (w - bs))) src) by (intros; reflexivity).
      destruct (shl_bits_scan1 w bs src 0) as [<- _]. rewrite Nat.add_0_r.
      unfold ZERO. rewrite firstn_repeat, skipn_repeat.
      replace (Nat.min ds n) with ds by lia. replace (n - (ds + length src))%nat with 0%nat by lia.
      cbn [repeat]. rewrite app_nil_r.
      assert (Hlen : length (shl_bits w bs src 0) = length src).
      { destruct (shl_bits_scan1 w bs src 0) as [-> _].
        rewrite <- (scan_idx_scan1 _ src (fun j c => (u_or (u_shl w (nth j src 0) bs) c, u_shr (nth j src 0) (w - bs))) 0%nat)
          by (intros; reflexivity).
        apply scan_idx_length. }
      rewrite firstn_all2 by (rewrite app_length, repeat_length, Hlen; lia). reflexivity.
    + intros out c j Hj. rewrite ltb_of_nat. apply Nat.ltb_lt. lia.
    + intros out c. rewrite ltb_of_nat. apply Nat.ltb_ge. lia.
    + intros out c j Hj Hl. body_red. rewrite usub_nat by lia. cbn [bind].
      rewrite arr_get_nat by lia. cbn [bind]. rewrite dshl_ok by lia. cbn [bind].
      rewrite arr_set_nat by lia. cbn [bind]. rewrite dshr_ok by lia. cbn [bind fst snd].
      replace (ds + j - ds)%nat with j by lia. unfold src. rewrite nth_firstn_lt by lia.
      rewrite Nat.add_succ_r, Nat2Z.inj_succ. reflexivity.
Qed.

Lemma set_nth_list_set f l k : (k < length l)%nat -> set_nth k f l = list_set l k (f (nth k l 0)).
Proof.
  intros Hk. unfold set_nth. rewrite list_set_split by exact Hk.
  rewrite (skipn_nth_cons l k) by exact Hk. reflexivity.
Qed.

Lemma loops_unchecked_shr_pad_internal w lg n neg a rhs : 0 <= lg -> w = 2 ^ lg -> wf w n a ->
  0 <= rhs < bits w n ->
  forall fuel, (n <= fuel)%nat ->
  Loops.unchecked_shr_pad_internal w (Z.of_nat n) fuel neg a rhs = Done (shr_pad_internal w neg a rhs).
Proof.
  intros Hlg Hwl [Ha _] Hr fuel Hf.
  assert (Hw : 0 < w) by (subst w; apply Z.pow_pos_nonneg; lia).
  unfold Loops.unchecked_shr_pad_internal, shr_pad_internal. rewrite Nat2Z.id.
  destruct (pow2_split w lg rhs Hlg Hwl ltac:(lia)) as [-> ->].
  unfold bits in Hr.
  assert (Hq : 0 <= rhs / w < Z.of_nat n) by (split; [apply Z.div_pos; lia | apply Z.div_lt_upper_bound; lia]).
  pose proof (Z.mod_pos_bound rhs w Hw) as Hm.
  set (ds := Z.to_nat (rhs / w)). assert (Hds : rhs / w = Z.of_nat ds) by (unfold ds; lia).
  rewrite Hds. set (bs := rhs mod w) in *. rewrite Ha.
  set (pad := if neg then u_max w else 0).
  assert (Hout0 : (if neg then UMAX w n else ZERO n) = repeat pad n) by (unfold pad; destruct neg; reflexivity).
  rewrite Hout0.
  set (src := skipn ds a).
  assert (Hsrc : length src = (n - ds)%nat) by (unfold src; rewrite skipn_length; lia).
  destruct (bs =? 0) eqn:Ebs; cbn [negb].
  - (* digit copy *)
    rewrite (loop_writes0 (fun out (_ : unit) j => (out, Z.of_nat (ds + j))) (fun j => (0 + j)%nat)
               (fun j c => (nth j src 0, tt)) _ _ (n - ds) n fuel (repeat pad n) tt);
      try first [reflexivity | apply repeat_length | lia | (rewrite Nat.add_0_r; reflexivity)].
    + rewrite run_writes_up by (rewrite repeat_length; lia). cbn [bind fst snd].
      rewrite <- Hsrc. rewrite (scan_idx_scan1 (fun x (_ : unit) => (x, tt)) src) by (intros; reflexivity).
      rewrite (scan1_map (fun x => x)). cbn [fst Nat.add firstn app]. rewrite map_id.
      rewrite skipn_repeat. replace (n - length src)%nat with ds by lia.
      rewrite firstn_all2 by (rewrite app_length, repeat_length; lia). reflexivity.
    + intros out c j Hj. rewrite ltb_of_nat. apply Nat.ltb_lt. lia.
    + intros out c. rewrite ltb_of_nat. apply Nat.ltb_ge. lia.
    + intros out c j Hj Hl. body_red. rewrite arr_get_nat by lia. cbn [bind].
      rewrite usub_nat by lia. cbn [bind]. rewrite arr_set_nat by lia. cbn [bind fst snd Nat.add].
      replace (ds + j - ds)%nat with j by lia. unfold src. rewrite nth_skipn_add.
      rewrite Nat.add_succ_r, Nat2Z.inj_succ. reflexivity.
  - (* with bit shift: from the top digit of the window downwards *)
    apply Z.eqb_neq in Ebs. rewrite usub_ok by lia. cbn [bind].
    set (g := fun d c => (u_or (u_shr d bs) c, u_shl w d (w - bs))).
    rewrite (loop_writes0 (fun out c j => (out, c, Z.of_nat (ds + j))) (fun j => (n - ds - 1 - j)%nat)
               (fun j c => g (nth j (rev src) 0) c) _ _ (n - ds) n fuel (repeat pad n) 0);
      try first [reflexivity | apply repeat_length | lia | (rewrite Nat.add_0_r; reflexivity)].
    + rewrite run_writes_down by (try rewrite repeat_length; lia). cbn [bind fst snd].
      replace (n - ds - 0 - (n - ds))%nat with 0%nat by lia. rewrite Nat.sub_0_r. cbn [firstn app].
      rewrite skipn_repeat. replace (n - (n - ds))%nat with ds by lia.
      assert (Hsc : fst (scan_idx (fun j c => g (nth j (rev src) 0) c) 0 (n - ds) 0) = shr_bits w bs (rev src) 0).
      { rewrite <- Hsrc, <- rev_length. rewrite (scan_idx_scan1 g (rev src)) by (intros; reflexivity).
        rewrite shr_bits_scan1. reflexivity. }
      assert (Hlow : length (rev (shr_bits w bs (rev src) 0)) = (n - ds)%nat).
      { rewrite <- Hsc. rewrite rev_length. apply scan_idx_length. }
      rewrite Hsc. set (low := rev (shr_bits w bs (rev src) 0)) in *.
      destruct neg.
      * rewrite dshl_ok by lia. cbn [bind]. unfold ix_saturating_sub.
        destruct (Z.ltb_spec (Z.of_nat n) (Z.of_nat ds)) as [?|_]; [lia|].
        rewrite usub_ok by lia. cbn [bind].
        replace (Z.of_nat n - Z.of_nat ds - 1) with (Z.of_nat (n - ds - 1)) by lia.
        rewrite arr_get_nat by (rewrite app_length, repeat_length; lia). cbn [bind].
        rewrite arr_set_nat by (rewrite app_length, repeat_length; lia). cbn [bind].
        rewrite app_nth1 by lia. rewrite list_set_app_l by lia.
        rewrite set_nth_list_set by lia.
        rewrite firstn_all2 by (rewrite app_length, list_set_length, repeat_length; lia). reflexivity.
      * rewrite firstn_all2 by (rewrite app_length, repeat_length; lia). reflexivity.
    + intros out c j Hj. rewrite ltb_of_nat. apply Nat.ltb_lt. lia.
    + intros out c. rewrite ltb_of_nat. apply Nat.ltb_ge. lia.
    + intros out c j Hj Hl. body_red. rewrite (usub_ok (Z.of_nat n) 1) by lia. cbn [bind].
      rewrite usub_ok by lia. cbn [bind].
      replace (Z.of_nat n - 1 - Z.of_nat (ds + j)) with (Z.of_nat (n - ds - 1 - j)) by lia.
      rewrite <- Nat2Z.inj_add. rewrite arr_get_nat by lia. cbn [bind].
      rewrite dshr_ok by lia. cbn [bind]. rewrite arr_set_nat by lia. cbn [bind].
      rewrite dshl_ok by lia. cbn [bind].
      rewrite rev_nth by lia. rewrite Hsrc. unfold src. rewrite !nth_skipn_add.
      replace (ds + (n - ds - S j))%nat with (n - ds - 1 - j + ds)%nat by lia.
      unfold g. cbn [fst snd]. rewrite Nat.add_succ_r, Nat2Z.inj_succ. reflexivity.
Qed.

Lemma loops_rotate_digits_left w n a k : 0 < w -> wf w n a -> (k <= n)%nat ->
  forall fuel, (n <= fuel)%nat ->
  Loops.rotate_digits_left w (Z.of_nat n) fuel a (Z.of_nat k) = Done (rotate_digits_left a k).
Proof.
  intros Hw [Ha _] Hk fuel Hf. unfold Loops.rotate_digits_left, rotate_digits_left. rewrite Nat2Z.id, Ha.
  set (lo := firstn (n - k) a). set (hi := skipn (n - k) a).
  assert (Hlo : length lo = (n - k)%nat) by (unfold lo; rewrite firstn_length; lia).
  assert (Hhi : length hi = k) by (unfold hi; rewrite skipn_length; lia).
  (* first loop: out[k..n) := a[0..n-k) *)
  rewrite (loop_writes0 (fun out (_ : unit) j => (out, Z.of_nat (k + j))) (fun j => (k + j)%nat)
             (fun j c => (nth j lo 0, tt)) _ _ (n - k) n fuel (ZERO n) tt);
    try first [reflexivity | apply repeat_length | lia | (rewrite Nat.add_0_r; reflexivity)].
  - rewrite run_writes_up by (unfold ZERO; rewrite repeat_length; lia). cbn [bind fst snd].
    rewrite <- Hlo. rewrite (scan_idx_scan1 (fun x (_ : unit) => (x, tt)) lo) by (intros; reflexivity).
    rewrite (scan1_map (fun x => x)). cbn [fst]. rewrite map_id. rewrite Nat.add_0_r.
    unfold ZERO. rewrite firstn_repeat, skipn_repeat.
    replace (Nat.min k n) with k by lia. replace (n - (k + length lo))%nat with 0%nat by lia.
    cbn [repeat]. rewrite app_nil_r.
    rewrite usub_nat by lia. cbn [bind].
    (* second loop: out[0..k) := a[n-k..n) *)
    rewrite (loop_writes0 (fun out (_ : unit) j => (out, Z.of_nat (n - k + j))) (fun j => (0 + j)%nat)
               (fun j c => (nth j hi 0, tt)) _ _ k n fuel (repeat 0 k ++ lo) tt);
      try first [reflexivity | lia | (rewrite Nat.add_0_r; reflexivity) | (rewrite app_length, repeat_length; lia)].
    + rewrite run_writes_up by (rewrite app_length, repeat_length; lia). cbn [bind fst snd Nat.add firstn app].
      rewrite <- Hhi at 1. rewrite (scan_idx_scan1 (fun x (_ : unit) => (x, tt)) hi) by (intros; reflexivity).
      rewrite (scan1_map (fun x => x)). cbn [fst]. rewrite map_id.
      rewrite skipn_app, repeat_length, Nat.sub_diag. rewrite skipn_all2 by (rewrite repeat_length; lia).
      reflexivity.
    + intros out c j Hj. rewrite ltb_of_nat. apply Nat.ltb_lt. lia.
    + intros out c. rewrite ltb_of_nat. apply Nat.ltb_ge. lia.
    + intros out c j Hj Hl. body_red. rewrite arr_get_nat by lia. cbn [bind].
      rewrite usub_nat by lia. cbn [bind]. rewrite arr_set_nat by lia. cbn [bind fst snd Nat.add].
      replace (n - k + j - (n - k))%nat with j by lia. unfold hi. rewrite nth_skipn_add.
      rewrite Nat.add_succ_r, Nat2Z.inj_succ. reflexivity.
  - intros out c j Hj. rewrite ltb_of_nat. apply Nat.ltb_lt. lia.
  - intros out c. rewrite ltb_of_nat. apply Nat.ltb_ge. lia.
  - intros out c j Hj Hl. body_red. rewrite usub_nat by lia. cbn [bind].
    rewrite arr_get_nat by lia. cbn [bind]. rewrite arr_set_nat by lia. cbn [bind fst snd].
    replace (k + j - k)%nat with j by lia. unfold lo. rewrite nth_firstn_lt by lia.
    rewrite Nat.add_succ_r, Nat2Z.inj_succ. reflexivity.
Qed.

Lemma loops_swap_bytes w n a : 0 < w -> wf w n a ->
  forall fuel, (n <= fuel)%nat -> Loops.swap_bytes w (Z.of_nat n) fuel a = Done (swap_bytes w a).
Proof.
  intros Hw [Ha _] fuel Hf. unfold Loops.swap_bytes, swap_bytes. rewrite Nat2Z.id.
  rewrite <- Ha, <- rev_length.
  rewrite (loop_map1_all (u_swap_bytes w) (rev a)); try first [apply repeat_length | reflexivity | (rewrite rev_length; lia)].
  intros out j Hj Hl. rewrite rev_length in *. body_red.
  rewrite (usub_ok (Z.of_nat (length a)) 1) by lia. cbn [bind]. rewrite usub_ok by lia. cbn [bind].
  replace (Z.of_nat (length a) - 1 - Z.of_nat j) with (Z.of_nat (length a - S j)) by lia.
  rewrite arr_get_nat by lia. cbn [bind]. rewrite arr_set_nat by lia. cbn [bind].
  rewrite rev_nth by lia. reflexivity.
Qed.

Lemma loops_reverse_bits w n a : 0 < w -> wf w n a ->
  forall fuel, (n <= fuel)%nat -> Loops.reverse_bits w (Z.of_nat n) fuel a = Done (reverse_bits w a).
Proof.
  intros Hw [Ha _] fuel Hf. unfold Loops.reverse_bits, reverse_bits. rewrite Nat2Z.id.
  rewrite <- Ha, <- rev_length.
  rewrite (loop_map1_all (u_reverse_bits w) (rev a)); try first [apply repeat_length | reflexivity | (rewrite rev_length; lia)].
  intros out j Hj Hl. rewrite rev_length in *. body_red.
  rewrite (usub_ok (Z.of_nat (length a)) 1) by lia. cbn [bind]. rewrite usub_ok by lia. cbn [bind].
  replace (Z.of_nat (length a) - 1 - Z.of_nat j) with (Z.of_nat (length a - S j)) by lia.
  rewrite arr_get_nat by lia. cbn [bind]. rewrite arr_set_nat by lia. cbn [bind].
  rewrite rev_nth by lia. reflexivity.
Qed.

Lemma loops_unchecked_rotate_left w lg n a rhs : 0 <= lg -> w = 2 ^ lg -> wf w n a ->
  0 <= rhs <= bits w n ->
  forall fuel, (n <= fuel)%nat ->
  Loops.unchecked_rotate_left w (Z.of_nat n) fuel a rhs = Done (unchecked_rotate_left w a rhs).
Proof.
  intros Hlg Hwl Hwf Hr fuel Hf. pose proof Hwf as [Ha _].
  assert (Hw : 0 < w) by (subst w; apply Z.pow_pos_nonneg; lia).
  unfold Loops.unchecked_rotate_left, unchecked_rotate_left.
  destruct (pow2_split w lg rhs Hlg Hwl ltac:(lia)) as [-> ->].
  unfold bits in Hr.
  assert (Hq : 0 <= rhs / w <= Z.of_nat n).
  { split; [apply Z.div_pos; lia|]. apply Z.div_le_upper_bound; lia. }
  pose proof (Z.mod_pos_bound rhs w Hw) as Hm.
  set (ds := Z.to_nat (rhs / w)). assert (Hds : rhs / w = Z.of_nat ds) by (unfold ds; lia).
  rewrite Hds. set (bs := rhs mod w) in *.
  rewrite (loops_rotate_digits_left w n a ds Hw Hwf ltac:(lia) fuel Hf). cbn [bind].
  set (out0 := rotate_digits_left a ds).
  assert (Hout0 : length out0 = n).
  { unfold out0, rotate_digits_left. rewrite app_length, skipn_length, firstn_length. lia. }
  destruct (bs =? 0) eqn:Ebs; cbn [negb]; [reflexivity|].
  apply Z.eqb_neq in Ebs. rewrite usub_ok by lia. cbn [bind].
  assert (Hn : (0 < n)%nat).
  { destruct n; [|lia]. exfalso. assert (rhs = 0) by lia. subst rhs. unfold bs in Ebs.
    rewrite Z.mod_0_l in Ebs by lia. lia. }
  apply while_count_bind with (n := n) (k := 0%nat)
    (Inv := fun k '(out, carry, i) =>
       i = Z.of_nat k /\ (k <= n)%nat /\ length out = n /\ skipn k out = skipn k out0 /\
       shl_bits w bs out0 0 = firstn k out ++ shl_bits w bs (skipn k out0) carry /\
       shl_bits_carry w bs out0 0 = shl_bits_carry w bs (skipn k out0) carry).
  - intros k [[out carry] i] (-> & Hk & Hlen & Hsk & Hsb & Hsc) Hc.
    rewrite ltb_of_nat in Hc. apply Nat.ltb_lt in Hc. split; [exact Hc|].
    rewrite arr_get_nat by lia. cbn [bind]. rewrite dshl_ok by lia. cbn [bind].
    rewrite arr_set_nat by lia. cbn [bind]. rewrite dshr_ok by lia. cbn [bind].
    assert (Hd : nth k out 0 = nth k out0 0).
    { pose proof (nth_skipn_add out k 0) as H1. pose proof (nth_skipn_add out0 k 0) as H2.
      rewrite Nat.add_0_r in H1, H2. rewrite <- H1, <- H2, Hsk. reflexivity. }
    rewrite Hd. rewrite (skipn_nth_cons out0 k) in Hsb, Hsc by lia. cbn [shl_bits shl_bits_carry] in Hsb, Hsc.
    split; [lia|]. split; [lia|]. split; [rewrite list_set_length; exact Hlen|].
    split.
    { rewrite skipn_S_list_set. rewrite !skipn_S_tl, Hsk. reflexivity. }
    split.
    { rewrite Hsb. rewrite firstn_S_list_set by lia. rewrite <- app_assoc. reflexivity. }
    exact Hsc.
  - intros k [[out carry] i] (-> & Hk & Hlen & Hsk & Hsb & Hsc) Hc.
    rewrite ltb_of_nat in Hc. apply Nat.ltb_ge in Hc. assert (k = n) by lia. subst k.
    rewrite (skipn_all2 out0) in Hsb, Hsc by lia. cbn [shl_bits shl_bits_carry] in Hsb, Hsc.
    rewrite app_nil_r, firstn_all2 in Hsb by lia. rewrite Hsb, Hsc.
    destruct out as [|d t]; [cbn [length] in Hlen; lia|].
    change 0 with (Z.of_nat 0) at 1 2. rewrite arr_get_nat by (cbn [length]; lia). cbn [bind].
    rewrite arr_set_nat by (cbn [length]; lia). reflexivity.
  - split; [reflexivity|]. split; [lia|]. split; [exact Hout0|]. split; [reflexivity|].
    split; reflexivity.
  - lia.
Qed.

(* ================= (f) src/buint/ops.rs Add<Digit>, src/buint/checked.rs div_rem_digit, last_digit_index ================= *)

Lemma div_rem_wide_ok w lo hi rhs : 0 < w ->
  digit_ok w (fst (div_rem_wide w lo hi rhs)) /\ digit_ok w (snd (div_rem_wide w lo hi rhs)).
Proof.
  intros Hw. unfold div_rem_wide, digit_ok. cbn [fst snd]. pose proof (B_pos w ltac:(lia)).
  split; apply Z.mod_pos_bound; lia.
Qed.

(* no hypothesis on rhs is needed for the equality; the call sites pass a non-zero digit
   (Rust panics on division by zero inside div_rem_wide otherwise) *)
Lemma loops_div_rem_digit w n a rhs : 0 < w -> wf w n a ->
  forall fuel, (n <= fuel)%nat ->
  Loops.div_rem_digit w (Z.of_nat n) fuel a rhs = Done (Div.div_rem_digit w a rhs).
Proof.
  intros Hw [Ha Fa] fuel Hf. unfold Loops.div_rem_digit, Div.div_rem_digit. rewrite Nat2Z.id.
  apply while_count_bind with (n := n) (k := 0%nat)
    (Inv := fun k '(out, rem, i) =>
       i = Z.of_nat (n - k) /\ (k <= n)%nat /\ length out = n /\ digit_ok w rem /\
       Div.div_rem_digit_loop w (rev a) rhs 0 =
       (rev (skipn (n - k) out) ++ fst (Div.div_rem_digit_loop w (skipn k (rev a)) rhs rem),
        snd (Div.div_rem_digit_loop w (skipn k (rev a)) rhs rem))).
  - intros k [[out rem] i] (-> & Hk & Hlen & Hrem & Heq) Hc.
    rewrite gtb_of_nat_0 in Hc. apply Nat.ltb_lt in Hc. split; [lia|].
    rewrite (usub_ok (Z.of_nat (n - k)) 1) by lia. cbn [bind].
    replace (Z.of_nat (n - k) - 1) with (Z.of_nat (n - S k)) by lia.
    rewrite arr_get_nat by lia. cbn [bind].
    rewrite tie_div_rem_wide; try assumption; [|apply Forall_nth_Z; [assumption | lia]].
    rewrite (skipn_nth_cons (rev a) k) in Heq by (rewrite rev_length; lia). cbn [Div.div_rem_digit_loop] in Heq.
    rewrite rev_nth in Heq by lia. rewrite Ha in Heq.
    pose proof (div_rem_wide_ok w (nth (n - S k) a 0) rem rhs Hw) as [_ Hr'].
    destruct (div_rem_wide w (nth (n - S k) a 0) rem rhs) as [q r1]. cbn [fst snd] in Hr'.
    rewrite arr_set_nat by lia. cbn [bind].
    split; [reflexivity|]. split; [lia|]. split; [rewrite list_set_length; exact Hlen|]. split; [exact Hr'|].
    rewrite Heq. rewrite skipn_list_set_same by lia. replace (S (n - S k)) with (n - k)%nat by lia.
    destruct (Div.div_rem_digit_loop w (skipn (S k) (rev a)) rhs r1) as [qs rf].
    cbn [fst snd rev]. rewrite <- app_assoc. reflexivity.
  - intros k [[out rem] i] (-> & Hk & Hlen & Hrem & Heq) Hc.
    rewrite gtb_of_nat_0 in Hc. apply Nat.ltb_ge in Hc. assert (k = n) by lia. subst k.
    rewrite Heq. rewrite (skipn_all2 (rev a)) by (rewrite rev_length; lia). cbn [Div.div_rem_digit_loop fst snd].
    rewrite Nat.sub_diag. cbn [skipn]. rewrite app_nil_r, rev_involutive. reflexivity.
  - split; [f_equal; lia|]. split; [lia|]. split; [apply repeat_length|].
    split; [unfold digit_ok; pose proof (B_pos w ltac:(lia)); lia|].
    rewrite Nat.sub_0_r. rewrite skipn_all2 by (unfold ZERO; rewrite repeat_length; lia).
    cbn [rev app skipn]. destruct (Div.div_rem_digit_loop w (rev a) rhs 0). reflexivity.
  - lia.
Qed.

Lemma loops_last_digit_index w n a : 0 < w -> wf w n a ->
  forall fuel, (n <= fuel)%nat ->
  Loops.last_digit_index w (Z.of_nat n) fuel a = Done (Z.of_nat (Div.last_digit_index a)).
Proof.
  intros Hw [Ha _] fuel Hf. unfold Loops.last_digit_index.
  destruct a as [|d r].
  { cbn [length] in Ha. subst n. destruct fuel; reflexivity. }
  cbn [length] in Ha. cbn [Div.last_digit_index].
  apply while_count_bind with (n := n) (k := 1%nat)
    (Inv := fun k '(index, i) => i = Z.of_nat k /\ (1 <= k <= n)%nat /\ exists ix : nat, index = Z.of_nat ix /\
       Div.last_digit_index_from 1 r 0 = Div.last_digit_index_from k (skipn k (d :: r)) ix).
  - intros k [index i] (-> & Hk & ix & -> & Heq) Hc. rewrite ltb_of_nat in Hc. apply Nat.ltb_lt in Hc.
    split; [exact Hc|]. rewrite arr_get_nat by (cbn [length]; lia). cbn [bind].
    rewrite (skipn_nth_cons (d :: r) k) in Heq by (cbn [length]; lia). cbn [Div.last_digit_index_from] in Heq.
    destruct (nth k (d :: r) 0 =? 0); cbn [negb].
    + split; [lia|]. split; [lia|]. exists ix. split; [reflexivity | exact Heq].
    + split; [lia|]. split; [lia|]. exists k. split; [reflexivity | exact Heq].
  - intros k [index i] (-> & Hk & ix & -> & Heq) Hc. rewrite ltb_of_nat in Hc. apply Nat.ltb_ge in Hc.
    rewrite Heq. rewrite skipn_all2 by (cbn [length]; lia). reflexivity.
  - split; [reflexivity|]. split; [lia|]. exists 0%nat. split; reflexivity.
  - lia.
Qed.

Lemma add_digit_carry_false w l : Ops.add_digit_carry w l false = l.
Proof. destruct l; reflexivity. Qed.

(* `out.digits[0]` does not exist for N = 0 (index panic): the impl is only usable for N > 0 *)
Lemma loops_add_digit w n a d : 0 < w -> (0 < n)%nat -> wf w n a ->
  forall fuel, (n <= fuel)%nat ->
  Loops.add_digit w (Z.of_nat n) fuel a d = Done (Ops.U_Add_digit w a d).
Proof.
  intros Hw Hn [Ha _] fuel Hf. unfold Loops.add_digit.
  destruct a as [|x r]; [cbn [length] in Ha; lia|]. cbn [length] in Ha.
  change 0 with (Z.of_nat 0) at 1 2. rewrite arr_get_nat by (cbn [length]; lia). cbn [bind nth].
  rewrite arr_set_nat by (cbn [length]; lia). cbn [bind list_set Ops.U_Add_digit].
  change (DigitGen.carrying_add w) with (carrying_add w).
  destruct (carrying_add w x d false) as [s c0]. cbn [fst snd].
  apply while_count_bind with (n := n) (k := 1%nat)
    (Inv := fun k '(out, carry, i) =>
       i = Z.of_nat k /\ (1 <= k <= n)%nat /\ length out = n /\ skipn k out = skipn k (x :: r) /\
       s :: Ops.add_digit_carry w r c0 = firstn k out ++ Ops.add_digit_carry w (skipn k (x :: r)) carry).
  - intros k [[out carry] i] (-> & Hk & Hlen & Hsk & Heq) Hc.
    apply andb_true_iff in Hc. destruct Hc as [Hc ->]. rewrite ltb_of_nat in Hc. apply Nat.ltb_lt in Hc.
    split; [exact Hc|]. rewrite arr_get_nat by lia. cbn [bind].
    assert (Hd : nth k out 0 = nth k (x :: r) 0).
    { pose proof (nth_skipn_add out k 0) as H1. pose proof (nth_skipn_add (x :: r) k 0) as H2.
      rewrite Nat.add_0_r in H1, H2. rewrite <- H1, <- H2, Hsk. reflexivity. }
    rewrite Hd. rewrite (skipn_nth_cons (x :: r) k) in Heq by (cbn [length]; lia).
    cbn [Ops.add_digit_carry] in Heq.
    destruct (u_ovf_add w (nth k (x :: r) 0) 1) as [s1 c1]. cbn [fst snd].
    rewrite arr_set_nat by lia. cbn [bind].
    split; [lia|]. split; [lia|]. split; [rewrite list_set_length; exact Hlen|].
    split; [rewrite skipn_S_list_set; rewrite !skipn_S_tl, Hsk; reflexivity|].
    rewrite Heq. rewrite firstn_S_list_set by lia. rewrite <- app_assoc. reflexivity.
  - intros k [[out carry] i] (-> & Hk & Hlen & Hsk & Heq) Hc.
    rewrite Heq. apply andb_false_iff in Hc. destruct Hc as [Hc | ->].
    + rewrite ltb_of_nat in Hc. apply Nat.ltb_ge in Hc.
      rewrite skipn_all2 by (cbn [length]; lia). cbn [Ops.add_digit_carry].
      rewrite app_nil_r, firstn_all2 by lia. reflexivity.
    + rewrite add_digit_carry_false, <- Hsk, firstn_skipn. reflexivity.
  - split; [reflexivity|]. split; [lia|]. split; [cbn [length]; lia|]. split; reflexivity.
  - lia.
Qed.

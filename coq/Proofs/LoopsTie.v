(* Proofs/LoopsTie.v — the loop functions GENERATED from /repo/src/buint/*.rs on every run
   (Generated/Loops.v, by tools/rs2v_loops.py) equal the hand-written model, for every digit width,
   every digit count and all well-formed operands: with fuel >= N the generated function neither
   panics nor runs out of fuel and returns exactly what the model function returns. *)
From Bnum Require Import Base Prim.
From Bnum.Model Require Import DigitPrims LoopPrims Digit Core Shift AddSub Mul Bits Imp.
From Bnum.Generated Require Import DigitGen Loops.
From Bnum.Proofs Require Import DigitTie ImpLemmas.

(* simplify the application of a generated loop body / condition to a state tuple *)
Ltac body_red := cbv beta iota.

(* ================= (a) src/buint/overflowing.rs ================= *)

Lemma add_loop_scan2 w a b c : add_loop w a b c = scan2 (carrying_add w) a b c.
Proof.
  revert b c. induction a as [|x a IH]; intros b c; [reflexivity|].
  destruct b as [|y b]; [reflexivity|]. cbn [add_loop scan2].
  destruct (carrying_add w x y c) as [s c1]. cbn [fst snd]. rewrite IH.
  destruct (scan2 (carrying_add w) a b c1). reflexivity.
Qed.

Lemma sub_loop_scan2 w a b c : sub_loop w a b c = scan2 (borrowing_sub w) a b c.
Proof.
  revert b c. induction a as [|x a IH]; intros b c; [reflexivity|].
  destruct b as [|y b]; [reflexivity|]. cbn [sub_loop scan2].
  destruct (borrowing_sub w x y c) as [s c1]. cbn [fst snd]. rewrite IH.
  destruct (scan2 (borrowing_sub w) a b c1). reflexivity.
Qed.

Lemma loops_overflowing_add w n a b : 0 < w -> wf w n a -> wf w n b ->
  forall fuel, (n <= fuel)%nat ->
  Loops.overflowing_add w (Z.of_nat n) fuel a b = Done (U_overflowing_add w a b).
Proof.
  intros Hw [Ha _] [Hb _] fuel Hf. subst n. unfold Loops.overflowing_add. rewrite Nat2Z.id.
  rewrite (loop_scan2_all (carrying_add w) a b); try first [assumption | apply repeat_length | reflexivity].
  - cbn [bind]. unfold U_overflowing_add. rewrite add_loop_scan2.
    destruct (scan2 (carrying_add w) a b false). reflexivity.
  - intros out c j Hj Hl. body_red. rewrite !arr_get_nat by lia. cbn [bind].
    rewrite arr_set_nat by lia. reflexivity.
Qed.

Lemma loops_overflowing_sub w n a b : 0 < w -> wf w n a -> wf w n b ->
  forall fuel, (n <= fuel)%nat ->
  Loops.overflowing_sub w (Z.of_nat n) fuel a b = Done (U_overflowing_sub w a b).
Proof.
  intros Hw [Ha _] [Hb _] fuel Hf. subst n. unfold Loops.overflowing_sub. rewrite Nat2Z.id.
  rewrite (loop_scan2_all (borrowing_sub w) a b); try first [assumption | apply repeat_length | reflexivity].
  - cbn [bind]. unfold U_overflowing_sub. rewrite sub_loop_scan2.
    destruct (scan2 (borrowing_sub w) a b false). reflexivity.
  - intros out c j Hj Hl. body_red. rewrite !arr_get_nat by lia. cbn [bind].
    rewrite arr_set_nat by lia. reflexivity.
Qed.

(* ================= (b) src/buint/const_trait_fillers.rs ================= *)

Lemma scan2_map2 (h : Z -> Z -> Z) a b :
  fst (scan2 (fun x y (_ : unit) => (h x y, tt)) a b tt) = map2 h a b.
Proof.
  revert b. induction a as [|x a IH]; intros b; [reflexivity|].
  destruct b as [|y b]; [reflexivity|]. cbn [scan2 map2 fst snd]. rewrite IH. reflexivity.
Qed.

Lemma loops_bitand w n a b : 0 < w -> wf w n a -> wf w n b ->
  forall fuel, (n <= fuel)%nat -> Loops.bitand w (Z.of_nat n) fuel a b = Done (bitand a b).
Proof.
  intros Hw [Ha _] [Hb _] fuel Hf. subst n. unfold Loops.bitand. rewrite Nat2Z.id.
  rewrite (loop_map2_all u_and a b); try first [assumption | apply repeat_length | reflexivity].
  - cbn [bind]. rewrite scan2_map2. reflexivity.
  - intros out j Hj Hl. body_red. rewrite !arr_get_nat by lia. cbn [bind].
    rewrite arr_set_nat by lia. reflexivity.
Qed.

Lemma loops_bitor w n a b : 0 < w -> wf w n a -> wf w n b ->
  forall fuel, (n <= fuel)%nat -> Loops.bitor w (Z.of_nat n) fuel a b = Done (bitor a b).
Proof.
  intros Hw [Ha _] [Hb _] fuel Hf. subst n. unfold Loops.bitor. rewrite Nat2Z.id.
  rewrite (loop_map2_all u_or a b); try first [assumption | apply repeat_length | reflexivity].
  - cbn [bind]. rewrite scan2_map2. reflexivity.
  - intros out j Hj Hl. body_red. rewrite !arr_get_nat by lia. cbn [bind].
    rewrite arr_set_nat by lia. reflexivity.
Qed.

Lemma loops_bitxor w n a b : 0 < w -> wf w n a -> wf w n b ->
  forall fuel, (n <= fuel)%nat -> Loops.bitxor w (Z.of_nat n) fuel a b = Done (bitxor a b).
Proof.
  intros Hw [Ha _] [Hb _] fuel Hf. subst n. unfold Loops.bitxor. rewrite Nat2Z.id.
  rewrite (loop_map2_all u_xor a b); try first [assumption | apply repeat_length | reflexivity].
  - cbn [bind]. rewrite scan2_map2. reflexivity.
  - intros out j Hj Hl. body_red. rewrite !arr_get_nat by lia. cbn [bind].
    rewrite arr_set_nat by lia. reflexivity.
Qed.

Lemma loops_not w n a : 0 < w -> wf w n a ->
  forall fuel, (n <= fuel)%nat -> Loops.not_ w (Z.of_nat n) fuel a = Done (bitnot w a).
Proof.
  intros Hw [Ha _] fuel Hf. subst n. unfold Loops.not_. rewrite Nat2Z.id.
  rewrite (loop_map1_all (u_not w) a); try first [assumption | apply repeat_length | reflexivity].
  intros out j Hj Hl. body_red. rewrite !arr_get_nat by lia. cbn [bind].
  rewrite arr_set_nat by lia. reflexivity.
Qed.

Lemma loops_eq w n a b : 0 < w -> wf w n a -> wf w n b ->
  forall fuel, (n <= fuel)%nat -> Loops.eq_ w (Z.of_nat n) fuel a b = Done (eq_digits a b).
Proof.
  intros Hw [Ha _] [Hb _] fuel Hf. unfold Loops.eq_.
  apply while_count_bind with (n := n) (k := 0%nat)
    (Inv := fun k i => i = Z.of_nat k /\ (k <= n)%nat /\ eq_digits a b = eq_digits (skipn k a) (skipn k b)).
  - intros k i (-> & Hk & Heq) Hc. rewrite ltb_of_nat in Hc. apply Nat.ltb_lt in Hc. split; [exact Hc|].
    rewrite !arr_get_nat by lia. cbn [bind].
    rewrite Heq. rewrite (skipn_nth_cons a k) by lia. rewrite (skipn_nth_cons b k) by lia. cbn [eq_digits].
    destruct (nth k a 0 =? nth k b 0); cbn [negb].
    + split; [lia|]. split; [lia | reflexivity].
    + reflexivity.
  - intros k i (-> & Hk & Heq) Hc. rewrite ltb_of_nat in Hc. apply Nat.ltb_ge in Hc.
    rewrite Heq. rewrite (skipn_all2 a) by lia. reflexivity.
  - split; [reflexivity|]. split; [lia | reflexivity].
  - lia.
Qed.

Lemma ucmp_snoc la lb x y : length la = length lb ->
  ucmp (la ++ [x]) (lb ++ [y]) = if y <? x then Gt else if x <? y then Lt else ucmp la lb.
Proof.
  revert lb. induction la as [|p la IH]; intros lb Hl; destruct lb as [|q lb]; try discriminate.
  - cbn [app ucmp]. destruct (y <? x); [reflexivity|]. destruct (x <? y); reflexivity.
  - cbn [app ucmp]. rewrite IH by (cbn [length] in Hl; lia).
    destruct (y <? x); [reflexivity|]. destruct (x <? y); reflexivity.
Qed.

Lemma loops_cmp w n a b : 0 < w -> wf w n a -> wf w n b ->
  forall fuel, (n <= fuel)%nat -> Loops.cmp w (Z.of_nat n) fuel a b = Done (ucmp a b).
Proof.
  intros Hw [Ha _] [Hb _] fuel Hf. unfold Loops.cmp.
  apply while_count_bind with (n := n) (k := 0%nat)
    (Inv := fun k i => i = Z.of_nat (n - k) /\ (k <= n)%nat /\
                       ucmp a b = ucmp (firstn (n - k) a) (firstn (n - k) b)).
  - intros k i (-> & Hk & Heq) Hc. rewrite gtb_of_nat_0 in Hc. apply Nat.ltb_lt in Hc. split; [lia|].
    change 1 with (Z.of_nat 1). rewrite usub_nat by lia. cbn [bind].
    rewrite !arr_get_nat by lia. cbn [bind].
    assert (E : forall l : list Z, (n - k - 1 < length l)%nat ->
                firstn (n - k) l = firstn (n - k - 1) l ++ [nth (n - k - 1) l 0]).
    { intros l Hl. replace (n - k)%nat with (S (n - k - 1)) at 1 by lia. apply firstn_S_snoc. exact Hl. }
    rewrite Heq. rewrite (E a) by lia. rewrite (E b) by lia.
    rewrite ucmp_snoc by (rewrite !firstn_length; lia).
    rewrite Z.gtb_ltb.
    destruct (nth (n - k - 1) b 0 <? nth (n - k - 1) a 0); [reflexivity|].
    destruct (nth (n - k - 1) a 0 <? nth (n - k - 1) b 0); [reflexivity|].
    split; [f_equal; lia|]. split; [lia|]. replace (n - S k)%nat with (n - k - 1)%nat by lia. reflexivity.
  - intros k i (-> & Hk & Heq) Hc. rewrite gtb_of_nat_0 in Hc. apply Nat.ltb_ge in Hc.
    rewrite Heq. replace (n - k)%nat with 0%nat by lia. reflexivity.
  - split; [f_equal; lia|]. split; [lia|]. rewrite Nat.sub_0_r. rewrite !firstn_all2 by lia. reflexivity.
  - lia.
Qed.

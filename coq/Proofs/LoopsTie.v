(* Proofs/LoopsTie.v — the loop functions GENERATED from /repo/src/buint/*.rs on every run
   (Generated/Loops.v, by tools/rs2v_loops.py) equal the hand-written model, for every digit width,
   every digit count and all well-formed operands: with fuel >= N the generated function neither
   panics nor runs out of fuel and returns exactly what the model function returns. *)
From Bnum Require Import Base Prim.
From Bnum.Model Require Import DigitPrims LoopPrims Digit Core Shift AddSub Mul Bits Imp.
From Bnum.Generated Require Import DigitGen Loops.
From Bnum.Proofs Require Import DigitTie ImpLemmas.

(* simplify the application of a generated loop body / condition to a state tuple *)
Ltac body_red := cbv beta iota.

(* ================= (a) src/buint/overflowing.rs ================= *)

Lemma add_loop_scan2 w a b c : add_loop w a b c = scan2 (carrying_add w) a b c.
Proof.
  revert b c. induction a as [|x a IH]; intros b c; [reflexivity|].
  destruct b as [|y b]; [reflexivity|]. cbn [add_loop scan2].
  destruct (carrying_add w x y c) as [s c1]. cbn [fst snd]. rewrite IH.
  destruct (scan2 (carrying_add w) a b c1). reflexivity.
Qed.

Lemma sub_loop_scan2 w a b c : sub_loop w a b c = scan2 (borrowing_sub w) a b c.
Proof.
  revert b c. induction a as [|x a IH]; intros b c; [reflexivity|].
  destruct b as [|y b]; [reflexivity|]. cbn [sub_loop scan2].
  destruct (borrowing_sub w x y c) as [s c1]. cbn [fst snd]. rewrite IH.
  destruct (scan2 (borrowing_sub w) a b c1). reflexivity.
Qed.

Lemma loops_overflowing_add w n a b : 0 < w -> wf w n a -> wf w n b ->
  forall fuel, (n <= fuel)%nat ->
  Loops.overflowing_add w (Z.of_nat n) fuel a b = Done (U_overflowing_add w a b).
Proof.
  intros Hw [Ha _] [Hb _] fuel Hf. subst n. unfold Loops.overflowing_add. rewrite Nat2Z.id.
  rewrite (loop_scan2_all (carrying_add w) a b); try first [assumption | apply repeat_length | reflexivity].
  - cbn [bind]. unfold U_overflowing_add. rewrite add_loop_scan2.
    destruct (scan2 (carrying_add w) a b false). reflexivity.
  - intros out c j Hj Hl. body_red. rewrite !arr_get_nat by lia. cbn [bind].
    rewrite arr_set_nat by lia. reflexivity.
Qed.

Lemma loops_overflowing_sub w n a b : 0 < w -> wf w n a -> wf w n b ->
  forall fuel, (n <= fuel)%nat ->
  Loops.overflowing_sub w (Z.of_nat n) fuel a b = Done (U_overflowing_sub w a b).
Proof.
  intros Hw [Ha _] [Hb _] fuel Hf. subst n. unfold Loops.overflowing_sub. rewrite Nat2Z.id.
  rewrite (loop_scan2_all (borrowing_sub w) a b); try first [assumption | apply repeat_length | reflexivity].
  - cbn [bind]. unfold U_overflowing_sub. rewrite sub_loop_scan2.
    destruct (scan2 (borrowing_sub w) a b false). reflexivity.
  - intros out c j Hj Hl. body_red. rewrite !arr_get_nat by lia. cbn [bind].
    rewrite arr_set_nat by lia. reflexivity.
Qed.

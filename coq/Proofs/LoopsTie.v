(* Proofs/LoopsTie.v — umbrella: every loop function GENERATED from /repo/src/buint/*.rs on every run
   (Generated/Loops.v, by tools/rs2v_loops.py) equals the hand-written model.  The lemmas live in one file per
   property group, so that a behaviour-changing edit of the Rust source breaks the obligations of the property
   it belongs to and of no other:
     LoopsTieC01  overflowing_add, overflowing_sub, Add<Digit>            (Properties/C01.v)
     LoopsTieC02  long_mul                                                (Properties/C02.v)
     LoopsTieC05  unchecked_shl_internal, unchecked_shr_pad_internal, rotate_digits_left,
                  unchecked_rotate_left, swap_bytes, reverse_bits         (Properties/C05.v)
     LoopsTieC06  bitand, bitor, bitxor, not, eq, cmp, count_ones, count_zeros, leading_zeros,
                  trailing_zeros, leading_ones, trailing_ones, is_power_of_two, is_zero, is_one
                                                                          (Properties/C06.v)
     LoopsTieDiv  div_rem_digit, last_digit_index                         (not yet referenced by a Properties file) *)
From Bnum.Proofs Require Export LoopsTieC01 LoopsTieC02 LoopsTieC05 LoopsTieC06 LoopsTieDiv.
(* second batch (tools/LOOPS_TRANSLATOR.md):
     LoopsTieC01s  src/bint/overflowing.rs overflowing_add, overflowing_sub, overflowing_neg   (Properties/C01.v)
     LoopsTieC03b  checked_next_multiple_of                                                    (Properties/C03.v)
     LoopsTieC06b  from_digit, digits, from_digits, bit, set_bit, power_of_two, bits, checked_next_power_of_two  (C06)
     LoopsTieC08   overflowing_pow, checked_pow, wrapping_pow                                  (Properties/C08.v)
     LoopsTieC08b  checked_ilog2, iilog, checked_ilog10, checked_ilog                          (Properties/C08.v)
     LoopsTieC09   cast_up, cast_down, as_buint!                                               (Properties/C09.v)
     LoopsTieC13   from_uint!                                                                  (Properties/C13.v) *)
From Bnum.Proofs Require Export LoopsTieC01s LoopsTieC03b LoopsTieC06b LoopsTieC08 LoopsTieC08b LoopsTieC09 LoopsTieC13.

(* Proofs/NtGenTieI.v — tie, part 4: src/bint/numtraits.rs - `impl Signed` (abs, abs_sub, signum, is_positive, is_negative),
   `impl Integer` (div_floor / mod_floor with the sign correction, gcd, lcm, is_multiple_of, divides, is_even, is_odd,
   div_rem), the `PrimInt` shifts and `impl Roots` (sqrt: panic for a negative radicand; cbrt: negation; nth_root: the panics
   for n = 0 and for an even degree of a negative radicand, wrapping negation) for $BInt<N>, against Model/NumTraits.v TI_*.
   `N = Z.of_nat (length a)` wherever the code mentions a constant (Self::ZERO, Self::ONE) or calls a BUint function that does. *)
From Bnum Require Import Base Prim.
From Bnum.Model Require Import Digit DigitPrims Core Shift AddSub Mul Div Bits Pow Imp ImpParse NumTraits.
From Bnum.Model Require Ops.
From Bnum.Generated Require Import NtGen.
From Bnum.Proofs Require Import ImpLemmas ImpLemmas2 NtGenTieBase NtGenTieU NtGenTieRoots.

(* unsigned_abs keeps the number of digits (no well-formedness needed) *)
Lemma ineg_loop_length w : forall ds, length (fst (ineg_loop w ds)) = length ds.
Proof.
  induction ds as [|d r IH]; [reflexivity|].
  cbn [ineg_loop]. destruct r as [|d2 r2].
  - destruct (s_ovf_add w (sd w (u_not w d)) 1). reflexivity.
  - destruct (u_ovf_add w (u_not w d) 1) as [s o]. destruct o.
    + destruct (ineg_loop w (d2 :: r2)) as [r' f] eqn:E. cbn [fst length] in *. rewrite IH. reflexivity.
    + cbn [fst length]. unfold bitnot. rewrite map_length. reflexivity.
Qed.

Lemma I_unsigned_abs_length w a : length (I_unsigned_abs w a) = length a.
Proof.
  unfold I_unsigned_abs, I_wrapping_neg, I_overflowing_neg.
  destruct (is_negative w a); [apply ineg_loop_length|reflexivity].
Qed.

(* ---------- Signed ---------- *)
Lemma nt_I_abs dbg w N fuel a : NtGen.I_abs dbg w N fuel a = of_outcome (TI_abs dbg w a).
Proof. unfold NtGen.I_abs, TI_abs. apply bind_done_r. Qed.

Lemma nt_I_abs_sub dbg w fuel a b :
  NtGen.I_abs_sub dbg w (Z.of_nat (length a)) fuel a b = of_outcome (TI_abs_sub dbg w a b).
Proof.
  unfold NtGen.I_abs_sub, TI_abs_sub. rewrite Nat2Z.id.
  destruct (cmp_le (icmp w a b)); [reflexivity|apply bind_done_r].
Qed.

Lemma nt_I_signum w N fuel a : NtGen.I_signum w N fuel a = Done (TI_signum w a).
Proof. reflexivity. Qed.
Lemma nt_I_is_positive w N fuel a : NtGen.I_is_positive w N fuel a = Done (TI_is_positive w a).
Proof. reflexivity. Qed.
Lemma nt_I_is_negative w N fuel a : NtGen.I_is_negative w N fuel a = Done (TI_is_negative w a).
Proof. reflexivity. Qed.

(* ---------- Integer ---------- *)
Lemma nt_I_div_floor dbg w fuel a b :
  NtGen.I_div_floor dbg w (Z.of_nat (length a)) fuel a b = of_outcome (TI_div_floor dbg w a b).
Proof.
  unfold NtGen.I_div_floor, TI_div_floor, sign_mismatch. rewrite !nt_I_is_negative, !nt_I_is_positive.
  unfold TI_is_negative, TI_is_positive. rewrite Nat2Z.id.
  destruct (I_div dbg w a b) as [d|]; cbn [of_outcome bind obind]; [|reflexivity].
  destruct (I_rem dbg w a b) as [r|]; cbn [of_outcome bind obind]; [|reflexivity].
  destruct (is_positive w r), (is_negative w b), (is_negative w r), (is_positive w b); cbn [bind andb orb];
    try reflexivity; apply bind_done_r.
Qed.

Lemma nt_I_mod_floor dbg w N fuel a b :
  NtGen.I_mod_floor dbg w N fuel a b = of_outcome (TI_mod_floor dbg w a b).
Proof.
  unfold NtGen.I_mod_floor, TI_mod_floor, sign_mismatch. rewrite !nt_I_is_negative, !nt_I_is_positive.
  unfold TI_is_negative, TI_is_positive.
  destruct (I_rem dbg w a b) as [r|]; cbn [of_outcome bind obind]; [|reflexivity]. cbv zeta.
  destruct (is_positive w r), (is_negative w b), (is_negative w r), (is_positive w b); cbn [bind andb orb];
    try reflexivity; apply bind_done_r.
Qed.

Lemma nt_I_gcd dbg w N a b fuel : (gcd_fuel w (length a) <= fuel)%nat ->
  fo_matches (TI_gcd dbg w a b) (NtGen.I_gcd dbg w N fuel a b).
Proof.
  intros Hf. unfold NtGen.I_gcd, TI_gcd.
  apply fo_matches_fbind; [apply nt_U_gcd; rewrite I_unsigned_abs_length; exact Hf|].
  intros g. cbv zeta. rewrite bind_done_r. apply fo_matches_flift.
Qed.

Lemma nt_I_lcm dbg w a b fuel : (gcd_fuel w (length a) <= fuel)%nat ->
  fo_matches (TI_lcm dbg w a b) (NtGen.I_lcm dbg w (Z.of_nat (length a)) fuel a b).
Proof.
  intros Hf. unfold NtGen.I_lcm, TI_lcm.
  destruct (is_zero a || is_zero b)%bool; [rewrite Nat2Z.id; reflexivity|].
  apply fo_matches_fbind; [apply (nt_I_gcd dbg w _ a b fuel Hf)|].
  intros g. rewrite nt_I_div_floor.
  destruct (TI_div_floor dbg w a g) as [q|]; cbn [of_outcome bind obind flift fo_matches]; [|reflexivity].
  destruct (I_mul dbg w q b) as [p|]; cbn [of_outcome bind obind]; [|reflexivity].
  destruct (I_abs dbg w p); reflexivity.
Qed.

Lemma nt_I_is_multiple_of dbg w N fuel a b :
  NtGen.I_is_multiple_of dbg w N fuel a b = of_outcome (TI_is_multiple_of dbg w a b).
Proof.
  unfold NtGen.I_is_multiple_of, TI_is_multiple_of. rewrite nt_I_mod_floor.
  destruct (TI_mod_floor dbg w a b); reflexivity.
Qed.

Lemma nt_I_divides dbg w N fuel a b : NtGen.I_divides dbg w N fuel a b = of_outcome (TI_divides dbg w a b).
Proof. unfold NtGen.I_divides, TI_divides. rewrite bind_done_r. apply nt_I_is_multiple_of. Qed.

Lemma nt_I_is_even w N fuel a : (0 < length a)%nat -> NtGen.I_is_even w N fuel a = Done (TI_is_even a).
Proof. intros H. unfold NtGen.I_is_even, TI_is_even. rewrite bind_done_r. apply nt_U_is_even. exact H. Qed.

Lemma nt_I_is_odd w N fuel a : (0 < length a)%nat -> NtGen.I_is_odd w N fuel a = Done (TI_is_odd a).
Proof. intros H. unfold NtGen.I_is_odd, TI_is_odd. rewrite bind_done_r. apply nt_U_is_odd. exact H. Qed.

Lemma nt_I_div_rem dbg w N fuel a b : NtGen.I_div_rem dbg w N fuel a b = of_outcome (TI_div_rem dbg w a b).
Proof.
  unfold NtGen.I_div_rem, TI_div_rem.
  destruct (I_div dbg w a b) as [d|]; cbn [of_outcome bind obind]; [|reflexivity].
  destruct (I_rem dbg w a b) as [r|]; reflexivity.
Qed.

(* ---------- PrimInt shifts ---------- *)
Lemma nt_I_signed_shl dbg w N fuel a k : NtGen.I_signed_shl dbg w N fuel a k = of_outcome (TI_signed_shl dbg w a k).
Proof. unfold NtGen.I_signed_shl. apply bind_done_r. Qed.
Lemma nt_I_signed_shr dbg w N fuel a k : NtGen.I_signed_shr dbg w N fuel a k = of_outcome (TI_signed_shr dbg w a k).
Proof. unfold NtGen.I_signed_shr. apply bind_done_r. Qed.
Lemma nt_I_unsigned_shl dbg w N fuel a k : NtGen.I_unsigned_shl dbg w N fuel a k = of_outcome (TI_unsigned_shl dbg w a k).
Proof. unfold NtGen.I_unsigned_shl. apply bind_done_r. Qed.
Lemma nt_I_unsigned_shr dbg w N fuel a k : NtGen.I_unsigned_shr dbg w N fuel a k = of_outcome (TI_unsigned_shr dbg w a k).
Proof. unfold NtGen.I_unsigned_shr. apply bind_done_r. Qed.

(* ---------- Roots ---------- *)
Lemma nt_I_sqrt dbg w a fuel : (2 ^ fixpoint_depth w (length a) <= fuel)%nat ->
  fo_matches (TI_sqrt dbg w a) (NtGen.I_sqrt dbg w (Z.of_nat (length a)) fuel a).
Proof.
  intros Hf. unfold NtGen.I_sqrt, TI_sqrt. rewrite nt_I_is_negative. unfold TI_is_negative. cbn [bind].
  destruct (is_negative w a); [reflexivity|]. rewrite bind_done_r. apply nt_U_sqrt. exact Hf.
Qed.

Lemma nt_I_cbrt dbg w a fuel : (2 ^ fixpoint_depth w (length a) <= fuel)%nat ->
  fo_matches (TI_cbrt dbg w a) (NtGen.I_cbrt dbg w (Z.of_nat (length a)) fuel a).
Proof.
  intros Hf. unfold NtGen.I_cbrt, TI_cbrt. rewrite nt_I_is_negative. unfold TI_is_negative. cbn [bind].
  destruct (is_negative w a).
  - apply fo_matches_fbind.
    + rewrite <- (I_unsigned_abs_length w a). apply nt_U_cbrt. rewrite I_unsigned_abs_length. exact Hf.
    + intros out. cbv zeta. rewrite bind_done_r. apply fo_matches_flift.
  - rewrite bind_done_r. apply nt_U_cbrt. exact Hf.
Qed.

Lemma nt_I_nth_root dbg w a k fuel : 0 <= k -> (2 ^ fixpoint_depth w (length a) <= fuel)%nat ->
  fo_matches (TI_nth_root dbg w a k) (NtGen.I_nth_root dbg w (Z.of_nat (length a)) fuel a k).
Proof.
  intros Hk Hf. unfold NtGen.I_nth_root, TI_nth_root. rewrite nt_I_is_negative. unfold TI_is_negative. cbn [bind].
  destruct (is_negative w a).
  - destruct (k =? 0); [reflexivity|]. destruct (k =? 1); [reflexivity|]. destruct (Z.even k); [reflexivity|].
    apply fo_matches_fbind.
    + rewrite <- (I_unsigned_abs_length w a). apply nt_U_nth_root; [exact Hk|]. rewrite I_unsigned_abs_length. exact Hf.
    + intros out. reflexivity.
  - rewrite bind_done_r. apply nt_U_nth_root; assumption.
Qed.

(* ---------- summary ---------- *)
Theorem nt_I_matches_model :
  (forall dbg w N fuel a, NtGen.I_abs dbg w N fuel a = of_outcome (TI_abs dbg w a)) /\
  (forall dbg w fuel a b, NtGen.I_abs_sub dbg w (Z.of_nat (length a)) fuel a b = of_outcome (TI_abs_sub dbg w a b)) /\
  (forall w N fuel a, NtGen.I_signum w N fuel a = Done (TI_signum w a)) /\
  (forall w N fuel a, NtGen.I_is_positive w N fuel a = Done (TI_is_positive w a)) /\
  (forall w N fuel a, NtGen.I_is_negative w N fuel a = Done (TI_is_negative w a)) /\
  (forall dbg w fuel a b, NtGen.I_div_floor dbg w (Z.of_nat (length a)) fuel a b = of_outcome (TI_div_floor dbg w a b)) /\
  (forall dbg w N fuel a b, NtGen.I_mod_floor dbg w N fuel a b = of_outcome (TI_mod_floor dbg w a b)) /\
  (forall dbg w N a b fuel, (gcd_fuel w (length a) <= fuel)%nat ->
     match TI_gcd dbg w a b with
     | Some (Ret r) => NtGen.I_gcd dbg w N fuel a b = Done r
     | Some Panic => NtGen.I_gcd dbg w N fuel a b = Panicked
     | None => True
     end) /\
  (forall dbg w a b fuel, (gcd_fuel w (length a) <= fuel)%nat ->
     match TI_lcm dbg w a b with
     | Some (Ret r) => NtGen.I_lcm dbg w (Z.of_nat (length a)) fuel a b = Done r
     | Some Panic => NtGen.I_lcm dbg w (Z.of_nat (length a)) fuel a b = Panicked
     | None => True
     end) /\
  (forall dbg w N fuel a b, NtGen.I_is_multiple_of dbg w N fuel a b = of_outcome (TI_is_multiple_of dbg w a b)) /\
  (forall dbg w N fuel a b, NtGen.I_divides dbg w N fuel a b = of_outcome (TI_divides dbg w a b)) /\
  (forall w N fuel a, (0 < length a)%nat -> NtGen.I_is_even w N fuel a = Done (TI_is_even a)) /\
  (forall w N fuel a, (0 < length a)%nat -> NtGen.I_is_odd w N fuel a = Done (TI_is_odd a)) /\
  (forall dbg w N fuel a b, NtGen.I_div_rem dbg w N fuel a b = of_outcome (TI_div_rem dbg w a b)) /\
  (forall dbg w N fuel a k, NtGen.I_signed_shl dbg w N fuel a k = of_outcome (TI_signed_shl dbg w a k)) /\
  (forall dbg w N fuel a k, NtGen.I_signed_shr dbg w N fuel a k = of_outcome (TI_signed_shr dbg w a k)) /\
  (forall dbg w N fuel a k, NtGen.I_unsigned_shl dbg w N fuel a k = of_outcome (TI_unsigned_shl dbg w a k)) /\
  (forall dbg w N fuel a k, NtGen.I_unsigned_shr dbg w N fuel a k = of_outcome (TI_unsigned_shr dbg w a k)) /\
  (forall dbg w a fuel, (2 ^ fixpoint_depth w (length a) <= fuel)%nat ->
     match TI_sqrt dbg w a with
     | Some (Ret r) => NtGen.I_sqrt dbg w (Z.of_nat (length a)) fuel a = Done r
     | Some Panic => NtGen.I_sqrt dbg w (Z.of_nat (length a)) fuel a = Panicked
     | None => True
     end) /\
  (forall dbg w a fuel, (2 ^ fixpoint_depth w (length a) <= fuel)%nat ->
     match TI_cbrt dbg w a with
     | Some (Ret r) => NtGen.I_cbrt dbg w (Z.of_nat (length a)) fuel a = Done r
     | Some Panic => NtGen.I_cbrt dbg w (Z.of_nat (length a)) fuel a = Panicked
     | None => True
     end) /\
  (forall dbg w a k fuel, 0 <= k -> (2 ^ fixpoint_depth w (length a) <= fuel)%nat ->
     match TI_nth_root dbg w a k with
     | Some (Ret r) => NtGen.I_nth_root dbg w (Z.of_nat (length a)) fuel a k = Done r
     | Some Panic => NtGen.I_nth_root dbg w (Z.of_nat (length a)) fuel a k = Panicked
     | None => True
     end).
Proof.
  repeat split.
  - exact nt_I_abs.
  - exact nt_I_abs_sub.
  - exact nt_I_div_floor.
  - exact nt_I_mod_floor.
  - intros. apply (nt_I_gcd dbg w N a b fuel). assumption.
  - intros. apply (nt_I_lcm dbg w a b fuel). assumption.
  - exact nt_I_is_multiple_of.
  - exact nt_I_divides.
  - exact nt_I_is_even.
  - exact nt_I_is_odd.
  - exact nt_I_div_rem.
  - exact nt_I_signed_shl.
  - exact nt_I_signed_shr.
  - exact nt_I_unsigned_shl.
  - exact nt_I_unsigned_shr.
  - intros. apply nt_I_sqrt. assumption.
  - intros. apply nt_I_cbrt. assumption.
  - intros. apply nt_I_nth_root; assumption.
Qed.

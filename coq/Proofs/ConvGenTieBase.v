(* Proofs/ConvGenTieBase.v — lemmas shared by the ties of Generated/ConvGen.v (tools/rs2v_conv.py): the checked operations of
   Model/Imp.v / Model/ImpConv.v against the `outcome` primitives of the hand model (Model/Cast.v rd, shl_chk), the literals. *)
From Bnum Require Import Base Prim.
From Bnum.Model Require Import DigitPrims LoopPrims Core Imp ImpConv.
From Bnum.Model Require Cast Convert.
From Bnum.Proofs Require Import ImpLemmas ImpLemmas2.

(* how an `outcome` of the hand model is read in the res monad *)
Definition of_out {A} (o : outcome A) : res A := match o with Ret r => Done r | Panic => Panicked end.

Lemma of_out_obind {A C} (o : outcome A) (f : A -> outcome C) :
  of_out (obind o f) = bind (of_out o) (fun a => of_out (f a)).
Proof. destruct o; reflexivity. Qed.

Lemma of_out_omap {A C} (g : A -> C) (o : outcome A) :
  of_out (omap g o) = bind (of_out o) (fun a => Done (g a)).
Proof. destruct o; reflexivity. Qed.

(* ds[i] *)
Lemma rd_as_arr_get ds i : of_out (Cast.rd ds i) = arr_get ds (Z.of_nat i).
Proof.
  unfold Cast.rd. rewrite arr_get_cases by lia. rewrite Nat2Z.id.
  destruct (Nat.ltb_spec i (length ds)) as [Hlt|Hge].
  - destruct (nth_error ds i) as [d|] eqn:E.
    + cbn [of_out]. f_equal. symmetry. apply nth_error_nth. exact E.
    + apply nth_error_None in E. lia.
  - apply nth_error_None in Hge. rewrite Hge. reflexivity.
Qed.

(* x << s on a pb-bit pattern with the amount in range: the overflow check does not fire, in either build mode *)
Lemma pint_shl_ok pb x s : 0 <= s < pb -> pint_shl pb x s = Done (u_shl pb x s).
Proof.
  intros H. unfold pint_shl. destruct (Z.leb_spec 0 s); [|lia]. destruct (Z.ltb_spec s pb); [|lia]. reflexivity.
Qed.

Lemma shl_chk_in_range dbg pb x s : s < pb -> Cast.shl_chk dbg pb x s = Ret (u_shl pb x s).
Proof. intros H. unfold Cast.shl_chk. destruct (Z.ltb_spec s pb); [|lia]. reflexivity. Qed.

Lemma p_lit_0 pb : p_lit pb 0 = 0.
Proof. unfold p_lit. apply Zmod_0_l. Qed.

Lemma p_lit_m1 pb : 0 <= pb -> p_lit pb (-1) = u_not pb 0.
Proof.
  intros H. unfold p_lit, u_not, B. assert (0 < 2 ^ pb) by (apply Z.pow_pos_nonneg; lia).
  symmetry. apply Z.mod_unique with (q := -1); lia.
Qed.

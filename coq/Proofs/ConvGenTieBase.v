(* Proofs/ConvGenTieBase.v — lemmas shared by the ties of Generated/ConvGen.v (tools/rs2v_conv.py): the checked operations of
   Model/Imp.v / Model/ImpConv.v against the `outcome` primitives of the hand model (Model/Cast.v rd, shl_chk), the literals. *)
From Bnum Require Import Base Prim.
From Bnum.Model Require Import DigitPrims LoopPrims Core Imp ImpConv.
From Bnum.Model Require Cast Convert NumConv.
From Bnum.Proofs Require Import ImpLemmas ImpLemmas2.

(* how an `outcome` of the hand model is read in the res monad *)
Definition of_out {A} (o : outcome A) : res A := match o with Ret r => Done r | Panic => Panicked end.

Lemma of_out_obind {A C} (o : outcome A) (f : A -> outcome C) :
  of_out (obind o f) = bind (of_out o) (fun a => of_out (f a)).
Proof. destruct o; reflexivity. Qed.

Lemma of_out_omap {A C} (g : A -> C) (o : outcome A) :
  of_out (omap g o) = bind (of_out o) (fun a => Done (g a)).
Proof. destruct o; reflexivity. Qed.

Lemma bind_ext {A C} (x : res A) (f g : A -> res C) : (forall a, f a = g a) -> bind x f = bind x g.
Proof. intros H. destruct x; cbn [bind]; [apply H|reflexivity|reflexivity]. Qed.

Lemma bind_done_r {A} (x : res A) : bind x (fun a => Done a) = x.
Proof. destruct x; reflexivity. Qed.

(* ds[i] *)
Lemma rd_as_arr_get ds i : of_out (Cast.rd ds i) = arr_get ds (Z.of_nat i).
Proof.
  unfold Cast.rd. rewrite arr_get_cases by lia. rewrite Nat2Z.id.
  destruct (Nat.ltb_spec i (length ds)) as [Hlt|Hge].
  - destruct (nth_error ds i) as [d|] eqn:E.
    + cbn [of_out]. f_equal. symmetry. apply nth_error_nth. exact E.
    + apply nth_error_None in E. lia.
  - apply nth_error_None in Hge. rewrite Hge. reflexivity.
Qed.

(* x << s on a pb-bit pattern with the amount in range: the overflow check does not fire, in either build mode *)
Lemma pint_shl_ok pb x s : 0 <= s < pb -> pint_shl pb x s = Done (u_shl pb x s).
Proof.
  intros H. unfold pint_shl. destruct (Z.leb_spec 0 s); [|lia]. destruct (Z.ltb_spec s pb); [|lia]. reflexivity.
Qed.

Lemma shl_chk_in_range dbg pb x s : s < pb -> Cast.shl_chk dbg pb x s = Ret (u_shl pb x s).
Proof. intros H. unfold Cast.shl_chk. destruct (Z.ltb_spec s pb); [|lia]. reflexivity. Qed.

Lemma p_lit_0 pb : p_lit pb 0 = 0.
Proof. unfold p_lit. apply Zmod_0_l. Qed.

Lemma p_lit_m1 pb : 0 <= pb -> p_lit pb (-1) = u_not pb 0.
Proof.
  intros H. unfold p_lit, u_not, B. assert (0 < 2 ^ pb) by (apply Z.pow_pos_nonneg; lia).
  symmetry. apply Z.mod_unique with (q := -1); lia.
Qed.

(* ---------- the loops shared by the conversion macros ---------- *)

(* `while i < N { if ds[i] != padding { return err } i += 1 }` followed by K: Convert.pad_loop (true = fell through) *)
Lemma pad_loop_tie {R : Type} (err : R) (K : res R) ds padding :
  forall f fuel i, (length ds <= i + f)%nat -> (f <= fuel)%nat ->
  bind (while_loop (R := R) fuel
          (fun i => (i <? Z.of_nat (length ds)))
          (fun i =>
             t' <- arr_get ds i ;;
             if (negb (t' =? padding)) then (
               Done (Return err)
             ) else (
               let i := (i + 1) in
               Done (Continue i)
             ))
          (Z.of_nat i))
       (fun t' => match t' with Exited i => K | Returned r' => Done r' end)
  = bind (of_out (Convert.pad_loop f ds padding i)) (fun fell_through => if fell_through then K else Done err).
Proof.
  induction f as [|f IH]; intros fuel i Hend Hf.
  - cbn [Convert.pad_loop of_out bind]. rewrite while_loop_cond_false; [reflexivity|].
    rewrite ltb_of_nat. apply Nat.ltb_ge. lia.
  - cbn [Convert.pad_loop]. destruct (Nat.ltb_spec i (length ds)) as [Hlt|Hge].
    + destruct fuel as [|fuel]; [lia|]. rewrite while_loop_S. cbv beta.
      rewrite ltb_of_nat. destruct (Nat.ltb_spec i (length ds)) as [_|?]; [|lia].
      rewrite of_out_obind, <- rd_as_arr_get. destruct (Cast.rd ds i) as [d|]; [|reflexivity]. cbn [of_out bind].
      destruct (negb (d =? padding)); [reflexivity|]. cbv zeta.
      replace (Z.of_nat i + 1) with (Z.of_nat (S i)) by lia. apply IH; lia.
    + cbn [of_out bind]. rewrite while_loop_cond_false; [reflexivity|].
      rewrite ltb_of_nat. apply Nat.ltb_ge. lia.
Qed.

(* the two accumulation statements, `out |= ds[i] as $int << s` (g = identity, h = u_or) and
   `out &= !((!ds[i]) as $int << s)` (g = u_not w, h = fun out t => u_and out (u_not pb t)), in one shape;
   hb is the body of the hand model (Cast.v / Convert.v: try_or_body, try_and_body and the anonymous bodies of *_as_int_bits) *)
Definition acc_body (dbg : bool) (pb w : Z) (g : Z -> Z) (h : Z -> Z -> Z) (ds : list Z) (i : nat) (out : Z) : outcome Z :=
  obind (Cast.rd ds i) (fun d =>
  obind (Cast.shl_chk dbg pb (ud pb (g d)) (Z.of_nat i * w)) (fun t =>
  Ret (h out t))).

(* `loop { let shift = i << BIT_SHIFT; if i >= N || shift >= pb { break; } out = h(out, g(ds[i]) as $int << shift); i += 1; }`:
   Convert.loop_i with try_brk; the budget must exceed the model's (one more unit to reach the `break`) *)
Lemma try_loop_tie {R A : Type} dbg w lg pb g h ds (K : Z -> Z -> res A) (KR : R -> res A) : 0 <= lg -> w = 2 ^ lg ->
  forall f fuel i out, (length ds <= i + f)%nat -> (f < fuel)%nat ->
  bind (while_loop (R := R) fuel
          (fun '(i, out) => true)
          (fun '(i, out) =>
             let shift := (ix_shl i (digit_BIT_SHIFT w)) in
             if (orb (i >=? Z.of_nat (length ds)) (shift >=? pb)) then (
               Done (Break (i, out))
             ) else (
               t1' <- arr_get ds i ;;
               t2' <- pint_shl pb (ud pb (g t1')) shift ;;
               let out := (h out t2') in
               let i := (i + 1) in
               Done (Continue (i, out))
             ))
          (Z.of_nat i, out))
       (fun t' => match t' with Exited (i, out) => K i out | Returned r' => KR r' end)
  = bind (of_out (Convert.loop_i f (Convert.try_brk pb w (length ds)) (acc_body dbg pb w g h ds) i out))
         (fun st => K (Z.of_nat (snd st)) (fst st)).
Proof.
  intros Hlg Hw. assert (Hw0 : 0 < w) by (subst w; apply Z.pow_pos_nonneg; lia).
  assert (Hbrk : forall i, orb (Z.of_nat i >=? Z.of_nat (length ds)) (Z.of_nat i * w >=? pb)
                           = Convert.try_brk pb w (length ds) i).
  { intros i. unfold Convert.try_brk. rewrite !Z.geb_leb. f_equal.
    destruct (Z.leb_spec (Z.of_nat (length ds)) (Z.of_nat i)), (Nat.leb_spec (length ds) i); try reflexivity; lia. }
  induction f as [|f IH]; intros fuel i out Hend Hf.
  - cbn [Convert.loop_i of_out bind snd fst]. destruct fuel as [|fuel]; [lia|]. rewrite while_loop_S. cbv beta iota zeta.
    rewrite (ix_shl_BIT_SHIFT w lg) by assumption. rewrite Hbrk. unfold Convert.try_brk.
    destruct (Nat.leb_spec (length ds) i); [|lia]. reflexivity.
  - cbn [Convert.loop_i]. destruct fuel as [|fuel]; [lia|]. rewrite while_loop_S. cbv beta iota zeta.
    rewrite (ix_shl_BIT_SHIFT w lg) by assumption. rewrite Hbrk.
    destruct (Convert.try_brk pb w (length ds) i) eqn:Hb; [reflexivity|].
    unfold Convert.try_brk in Hb. apply orb_false_iff in Hb. destruct Hb as [Hi Hs].
    apply Z.leb_gt in Hs. unfold acc_body at 1.
    rewrite !of_out_obind, <- rd_as_arr_get. destruct (Cast.rd ds i) as [d|]; [|reflexivity]. cbn [of_out bind].
    rewrite pint_shl_ok by nia. rewrite shl_chk_in_range by exact Hs. cbn [of_out bind obind].
    replace (Z.of_nat i + 1) with (Z.of_nat (S i)) by lia. apply IH; lia.
Qed.

(* `while i << BIT_SHIFT < pb && i < N { out = h(out, g(ds[i]) as $int << (i << BIT_SHIFT)); i += 1; }` followed by reading
   the pattern as a value: Cast.while_ with as_int_cond *)
Lemma as_int_loop_tie dbg w lg pb ps g h ds : 0 <= lg -> w = 2 ^ lg ->
  forall f fuel i out, (length ds <= i + f)%nat -> (f <= fuel)%nat ->
  bind (while_loop (R := Z) fuel
          (fun '(i, out) => (andb ((ix_shl i (digit_BIT_SHIFT w)) <? pb) (i <? Z.of_nat (length ds))))
          (fun '(i, out) =>
             t1' <- arr_get ds i ;;
             t2' <- pint_shl pb (ud pb (g t1')) (ix_shl i (digit_BIT_SHIFT w)) ;;
             let out := (h out t2') in
             let i := (i + 1) in
             Done (Continue (i, out)))
          (Z.of_nat i, out))
       (fun t3' => match t3' with Exited (i, out) => Done (Cast.p_of_bits pb ps out) | Returned t4' => Done t4' end)
  = of_out (omap (Cast.p_of_bits pb ps)
      (Cast.while_ f (Cast.as_int_cond pb w (length ds)) (acc_body dbg pb w g h ds) i out)).
Proof.
  intros Hlg Hw. assert (Hw0 : 0 < w) by (subst w; apply Z.pow_pos_nonneg; lia).
  induction f as [|f IH]; intros fuel i out Hend Hf.
  - cbn [Cast.while_ omap of_out]. rewrite while_loop_cond_false; [reflexivity|].
    rewrite ltb_of_nat. destruct (Nat.ltb_spec i (length ds)); [lia|]. apply andb_false_r.
  - cbn [Cast.while_]. unfold Cast.as_int_cond at 1.
    destruct ((Z.of_nat i * w <? pb) && (i <? length ds)%nat) eqn:Hc.
    + destruct fuel as [|fuel]; [lia|]. rewrite while_loop_S. cbv beta iota.
      rewrite (ix_shl_BIT_SHIFT w lg) by assumption. rewrite ltb_of_nat, Hc.
      apply andb_true_iff in Hc. destruct Hc as [Hs Hi]. apply Z.ltb_lt in Hs. unfold acc_body at 1.
      rewrite <- rd_as_arr_get. destruct (Cast.rd ds i) as [d|]; [|reflexivity]. cbn [of_out bind obind].
      rewrite pint_shl_ok by nia. rewrite shl_chk_in_range by exact Hs. cbn [bind obind]. cbv zeta.
      replace (Z.of_nat i + 1) with (Z.of_nat (S i)) by lia.
      apply IH; lia.
    + cbn [omap of_out]. rewrite while_loop_cond_false; [reflexivity|].
      rewrite (ix_shl_BIT_SHIFT w lg) by assumption. rewrite ltb_of_nat. exact Hc.
Qed.

Lemma xorb_negb_eqb a b : xorb a b = negb (Bool.eqb a b).
Proof. destruct a, b; reflexivity. Qed.

(* ---------- primitive -> bnum: the loops that cut a primitive VALUE into digits ---------- *)

(* `int >> s` on the value of a pb-bit primitive with the amount in range: no overflow check fires, in either build mode *)
Lemma pshr_ok pb x s : 0 <= s < pb -> pshr pb x s = Done (x / 2 ^ s).
Proof.
  intros H. unfold pshr. destruct (Z.leb_spec 0 s); [|lia]. destruct (Z.ltb_spec s pb); [|lia]. reflexivity.
Qed.

Lemma shr_chk_in_range dbg pb x s : s < pb -> Cast.shr_chk dbg pb x s = Ret (x / 2 ^ s).
Proof. intros H. unfold Cast.shr_chk, u_shr. destruct (Z.ltb_spec s pb); [|lia]. reflexivity. Qed.

(* `while i << BIT_SHIFT < pb { let d = (int >> (i << BIT_SHIFT)) as Digit; if d != fill { if i < N { out[i] = d } else { return None } } i += 1 }`
   followed by K: NumConv.while_ret with from_body *)
Lemma from_loop_tie dbg w lg pb n int fill (K : list Z -> res (option (list Z))) : 0 <= lg -> w = 2 ^ lg ->
  forall f fuel i out, pb <= Z.of_nat (i + f) * w -> (f <= fuel)%nat ->
  bind (while_loop (R := (option (list Z))) fuel
          (fun '(out, i) => ((ix_shl i (digit_BIT_SHIFT w)) <? pb))
          (fun '(out, i) =>
             t1' <- pshr pb int (ix_shl i (digit_BIT_SHIFT w)) ;;
             let d := (ud w t1') in
             if (negb (d =? fill)) then (
               if (i <? Z.of_nat n) then (
                 out <- arr_set out i d ;;
                 let i := (i + 1) in
                 Done (Continue (out, i))
               ) else (
                 Done (Return None)
               )
             ) else (
               let i := (i + 1) in
               Done (Continue (out, i))
             ))
          (out, Z.of_nat i))
       (fun t2' => match t2' with Exited (out, i) => K out | Returned t3' => Done t3' end)
  = bind (of_out (NumConv.while_ret f (fun i => Z.of_nat i * w <? pb) (NumConv.from_body dbg pb w n int fill) i out))
         (fun r => match r with Some out => K out | None => Done None end).
Proof.
  intros Hlg Hw. assert (Hw0 : 0 < w) by (subst w; apply Z.pow_pos_nonneg; lia).
  induction f as [|f IH]; intros fuel i out Hend Hf.
  - cbn [NumConv.while_ret of_out bind]. rewrite while_loop_cond_false; [reflexivity|].
    rewrite (ix_shl_BIT_SHIFT w lg) by assumption. rewrite Nat.add_0_r in Hend. apply Z.ltb_ge. exact Hend.
  - cbn [NumConv.while_ret]. destruct (Z.ltb_spec (Z.of_nat i * w) pb) as [Hlt|Hge].
    + destruct fuel as [|fuel]; [lia|]. rewrite while_loop_S. cbv beta iota.
      rewrite (ix_shl_BIT_SHIFT w lg) by assumption.
      destruct (Z.ltb_spec (Z.of_nat i * w) pb) as [_|?]; [|lia].
      unfold NumConv.from_body at 1. rewrite pshr_ok by nia. rewrite shr_chk_in_range by exact Hlt.
      cbn [bind obind]. cbv zeta. replace (Z.of_nat i + 1) with (Z.of_nat (S i)) by lia.
      assert (Hnext : pb <= Z.of_nat (S i + f) * w) by (replace (S i + f)%nat with (i + S f)%nat by lia; exact Hend).
      destruct (negb (ud w (int / 2 ^ (Z.of_nat i * w)) =? fill)).
      * rewrite ltb_of_nat. destruct (i <? n)%nat.
        -- rewrite <- wr_as_arr_set. destruct (Cast.wr out i _) as [out'|]; [|reflexivity]. cbn [omap obind bind].
           apply IH; [exact Hnext|lia].
        -- reflexivity.
      * cbn [obind]. apply IH; [exact Hnext|lia].
    + cbn [of_out bind]. rewrite while_loop_cond_false; [reflexivity|].
      rewrite (ix_shl_BIT_SHIFT w lg) by assumption. apply Z.ltb_ge. exact Hge.
Qed.

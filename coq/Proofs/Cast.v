(* Proofs/Cast.v — Model/Cast.v = specification, for all digit widths, digit counts and inputs.
   Specification of every cast: the target holds (source value) mod 2^(target BITS), where the
   source value is uval (unsigned source) or sval (signed source); no model function can Panic. *)
From Bnum Require Import Base Prim.
From Bnum.Model Require Import Core Cast.
From Bnum.Proofs Require Import CastLemmas.

Local Open Scope Z_scope.

(* ================================================================== *)
(** * 6. Same digit type: cast_up, cast_down *)

Lemma cast_up_ok src m d : (length src < m)%nat ->
  cast_up src m d = Ret (src ++ repeat d (m - length src)).
Proof.
  intros Hlt. unfold cast_up, usize_sub.
  destruct (Nat.leb_spec (length src) m); [|lia]. cbn [obind].
  set (n := length src) in *. set (off := (m - n)%nat).
  pose (P := fun (i : nat) (digits : list Z) =>
               (off <= i <= m)%nat /\ digits = firstn (i - off) src ++ repeat d (m - (i - off))).
  destruct (while_inv P (fun i _ => (i <? m)%nat)
              (fun i digits => obind (if (off <=? i)%nat then Ret (i - off)%nat else Panic) (fun index =>
                               obind (rd src index) (fun d0 => wr digits index d0))) m) with
      (fuel := m) (i := off) (s := repeat d m) as (i' & s' & Hrun & [Hi' Hs'] & Hc).
  - intros i digits [Hi Hd] Hc. apply Nat.ltb_lt in Hc. split; [exact Hc|].
    destruct (Nat.leb_spec off i); [|lia]. cbn [obind].
    assert (Hidx : (i - off < n)%nat) by (unfold off; lia).
    rewrite rd_ok by (fold n; lia). cbn [obind].
    replace (m - (i - off))%nat with (S (m - (i - off) - 1)) in Hd by lia.
    assert (Hlen : length (firstn (i - off) src) = (i - off)%nat) by (apply firstn_length_le; fold n; lia).
    rewrite Hd. rewrite (wr_prefix _ _ _ _ _ Hlen). eexists; split; [reflexivity|].
    split; [lia|]. replace (S i - off)%nat with (S (i - off)) by lia.
    rewrite firstn_snoc by (fold n; lia). f_equal. f_equal. lia.
  - lia.
  - split; [unfold off; lia|]. rewrite Nat.sub_diag. cbn [firstn app]. f_equal. lia.
  - rewrite Hrun. apply Nat.ltb_ge in Hc. f_equal. rewrite Hs'.
    replace (i' - off)%nat with n by (unfold off; lia).
    unfold n, off. rewrite firstn_all. reflexivity.
Qed.

Lemma cast_down_ok src m : (m <= length src)%nat -> cast_down src m = Ret (firstn m src).
Proof.
  intros Hle. unfold cast_down, ZERO.
  pose (P := fun (i : nat) (out : list Z) => (i <= m)%nat /\ out = firstn i src ++ repeat 0 (m - i)).
  destruct (while_inv P (fun i _ => (i <? m)%nat)
              (fun i out => obind (rd src i) (fun d0 => wr out i d0)) m) with
      (fuel := m) (i := 0%nat) (s := repeat 0 m) as (i' & s' & Hrun & [Hi' Hs'] & Hc).
  - intros i out [Hi Hd] Hc. apply Nat.ltb_lt in Hc. split; [exact Hc|].
    rewrite rd_ok by lia. cbn [obind].
    replace (m - i)%nat with (S (m - i - 1)) in Hd by lia.
    assert (Hlen : length (firstn i src) = i) by (apply firstn_length_le; lia).
    rewrite Hd. rewrite (wr_prefix _ _ _ _ _ Hlen). eexists; split; [reflexivity|].
    split; [lia|]. rewrite firstn_snoc by lia. f_equal. f_equal. lia.
  - lia.
  - split; [lia|]. cbn [firstn app]. f_equal. lia.
  - rewrite Hrun. apply Nat.ltb_ge in Hc. f_equal. rewrite Hs'.
    replace i' with m by lia. rewrite Nat.sub_diag. cbn [repeat]. apply app_nil_r.
Qed.

Lemma Mod_le w a b : 0 <= w -> (a <= b)%nat -> Mod w a <= Mod w b.
Proof. intros. unfold Mod. apply pow2_le. nia. Qed.

Lemma Mod_split w a b : 0 <= w -> (a <= b)%nat -> Mod w b = Mod w a * Mod w (b - a).
Proof. intros. rewrite <- Mod_add by lia. f_equal. lia. Qed.

(* zero / sign extension by whole digits *)
Lemma extend_ok w n n' a (neg : bool) : 0 < w -> (n <= n')%nat -> wf w n a ->
  let r := a ++ repeat (if neg then u_max w else 0) (n' - n) in
  wf w n' r /\ uval w r = uval w a + (if neg then Mod w n' - Mod w n else 0).
Proof.
  intros Hw Hn H r. split.
  - replace n' with (n + (n' - n))%nat by lia. apply wf_app; auto.
    apply wf_repeat. destruct neg; [apply u_max_ok | apply zero_ok]; lia.
  - unfold r. rewrite uval_app by lia. rewrite (wf_length _ _ _ H).
    destruct neg.
    + rewrite uval_repeat_max by lia. rewrite (Mod_split w n n') by lia. lia.
    + rewrite uval_repeat_0. lia.
Qed.

Theorem U_cast_U_ok w n n' a : 0 < w -> wf w n a ->
  exists r, U_cast_U a n' = Ret r /\ wf w n' r /\ uval w r = uval w a mod Mod w n'.
Proof.
  intros Hw H. unfold U_cast_U. rewrite (wf_length _ _ _ H).
  pose proof (uval_bounds w n a ltac:(lia) H) as Hb.
  destruct (Nat.ltb_spec n n').
  - rewrite cast_up_ok by (rewrite (wf_length _ _ _ H); lia). rewrite (wf_length _ _ _ H).
    eexists; split; [reflexivity|].
    destruct (extend_ok w n n' a false Hw ltac:(lia) H) as [Hwf Hv]. split; [exact Hwf|].
    cbv zeta in Hv. rewrite Hv. pose proof (Mod_le w n n' ltac:(lia) ltac:(lia)).
    rewrite Z.mod_small; lia.
  - rewrite cast_down_ok by (rewrite (wf_length _ _ _ H); lia).
    eexists; split; [reflexivity|]. apply (uval_firstn w n); auto.
Qed.

Theorem U_cast_I_ok w n n' a : 0 < w -> (0 < n)%nat -> wf w n a ->
  exists r, U_cast_I w a n' = Ret r /\ wf w n' r /\ uval w r = sval w a mod Mod w n'.
Proof.
  intros Hw Hn H. unfold U_cast_I, to_bits. rewrite (wf_length _ _ _ H).
  pose proof (uval_bounds w n a ltac:(lia) H) as Hb.
  destruct (Nat.ltb_spec n n').
  - rewrite cast_up_ok by (rewrite (wf_length _ _ _ H); lia). rewrite (wf_length _ _ _ H).
    eexists; split; [reflexivity|].
    destruct (extend_ok w n n' a (is_negative w a) Hw ltac:(lia) H) as [Hwf Hv]. split; [exact Hwf|].
    cbv zeta in Hv. rewrite Hv. pose proof (Mod_le w n n' ltac:(lia) ltac:(lia)).
    destruct (sval_cases w n a Hw Hn H) as [(-> & Es & Hr) | (-> & Es & Hr)]; rewrite Es.
    + rewrite Z.mod_small; lia.
    + symmetry. apply mod_intro with (q := -1); lia.
  - rewrite cast_down_ok by (rewrite (wf_length _ _ _ H); lia).
    eexists; split; [reflexivity|]. destruct (uval_firstn w n a n' Hw H ltac:(lia)) as [Hwf Hv].
    split; [exact Hwf|]. rewrite Hv.
    pose proof (sval_mod w n a Hw H) as Hs.
    unfold Mod in *.
    rewrite <- (mod_mod_pow2 (sval w a) (w * Z.of_nat n') (w * Z.of_nat n)) by nia.
    rewrite Hs. rewrite mod_mod_pow2 by nia. reflexivity.
Qed.

(* ================================================================== *)
(** * 7. Different digit types: splitting wide digits *)

Lemma shr_chk_ok dbg bits x s : s < bits -> shr_chk dbg bits x s = Ret (x / 2 ^ s).
Proof. intros. unfold shr_chk, u_shr. destruct (Z.ltb_spec s bits); [reflexivity | lia]. Qed.

Lemma shl_chk_ok dbg bits x s : s < bits -> shl_chk dbg bits x s = Ret ((x * 2 ^ s) mod 2 ^ bits).
Proof. intros. unfold shl_chk, u_shl, B. destruct (Z.ltb_spec s bits); [reflexivity | lia]. Qed.

Lemma split_while_ok dbg w w' dc src n n' stop V neg :
  0 < w' -> (0 < dc)%nat -> w = Z.of_nat dc * w' -> wf w n src ->
  (stop <= n')%nat -> (stop <= n * dc)%nat ->
  V mod 2 ^ (w' * Z.of_nat stop) = uval w src mod 2 ^ (w' * Z.of_nat stop) ->
  high_pad V (w' * Z.of_nat stop) (w' * Z.of_nat n') neg ->
  while_ stop (fun i _ => (i <? stop)%nat) (split_body dbg w w' dc src) 0%nat
         (repeat (if neg then u_max w' else 0) n') = Ret (digits_of w' n' V).
Proof.
  intros Hw' Hdc Hw Hwf Hs1 Hs2 Hagree Hpad.
  assert (Hw0 : 0 < w) by nia.
  set (pad := if neg then u_max w' else 0). set (X := uval w src) in *.
  pose (P := fun (i : nat) (out : list Z) =>
               (i <= stop)%nat /\ out = digits_of w' i V ++ repeat pad (n' - i)).
  destruct (while_inv P (fun i _ => (i <? stop)%nat) (split_body dbg w w' dc src) stop) with
      (fuel := stop) (i := 0%nat) (s := repeat pad n') as (i' & s' & Hrun & [Hi' Hs'] & Hc).
  - intros i out [Hi Hout] Hc. apply Nat.ltb_lt in Hc. split; [exact Hc|].
    destruct (divmod_nat i dc Hdc) as [Ei Hm]. set (j := (i / dc)%nat) in *. set (m := (i mod dc)%nat) in *.
    assert (Hj : (j < n)%nat) by (apply div_lt_nat; lia).
    unfold split_body. fold j m.
    rewrite rd_ok by (rewrite (wf_length _ _ _ Hwf); exact Hj). cbn [obind].
    rewrite shr_chk_ok by nia. cbn [obind].
    rewrite (nth_bf w n src j Hw0 Hwf Hj). fold X.
    assert (Ed : ud w' (bf X (w * Z.of_nat j) w / 2 ^ (Z.of_nat m * w')) = bf V (w' * Z.of_nat i) w').
    { unfold ud, B. change ((bf X (w * Z.of_nat j) w / 2 ^ (Z.of_nat m * w')) mod 2 ^ w')
        with (bf (bf X (w * Z.of_nat j) w) (Z.of_nat m * w') w').
      rewrite bf_bf by nia.
      replace (w * Z.of_nat j + Z.of_nat m * w') with (w' * Z.of_nat i) by nia.
      symmetry. apply (bf_congr V X (w' * Z.of_nat stop)); auto; nia. }
    rewrite Ed.
    replace (n' - i)%nat with (S (n' - i - 1)) in Hout by lia.
    rewrite Hout. rewrite (wr_prefix _ _ _ _ _ (digits_of_length w' i V)).
    eexists; split; [reflexivity|]. split; [lia|].
    rewrite digits_of_snoc by lia. f_equal. f_equal. lia.
  - lia.
  - split; [lia|]. cbn [digits_of app]. f_equal. lia.
  - rewrite Hrun. apply Nat.ltb_ge in Hc. f_equal. rewrite Hs'.
    replace i' with stop by lia. symmetry. apply digits_of_pad; auto.
    apply high_pad_above; auto; lia.
Qed.

(* ================================================================== *)
(** * 8. Different digit types: packing narrow digits *)

(* what the accumulation statement must do: deposit d at field m of the accumulator *)
Definition comb_spec (neg : bool) (w w' : Z) (dc : nat) (comb : Z -> Z -> nat -> outcome Z) : Prop :=
  forall (m : nat) low d, (m < dc)%nat -> 0 <= low < 2 ^ (w * Z.of_nat m) -> 0 <= d < 2 ^ w ->
    comb (low + hi neg w' (w * Z.of_nat m)) d m
    = Ret (low + d * 2 ^ (w * Z.of_nat m) + hi neg w' (w * Z.of_nat (S m))).

Lemma pack_or_spec dbg w w' dc : 0 < w -> w' = Z.of_nat dc * w -> comb_spec false w w' dc (pack_or dbg w w').
Proof.
  intros Hw Hw' m low d Hm Hlow Hd. unfold hi, pack_or. rewrite !Z.add_0_r.
  assert (Hle : w * Z.of_nat m + w <= w') by nia.
  rewrite shl_chk_ok by nia. cbn [obind]. f_equal.
  pose proof (pow2_pos (w * Z.of_nat m) ltac:(nia)) as Hp.
  pose proof (pow2_le (w * Z.of_nat m + w) w' ltac:(nia)) as Hq. rewrite pow2_add in Hq by nia.
  unfold ud, B. rewrite (Z.mod_small d) by (pose proof (pow2_le w w' ltac:(nia)); lia).
  replace (Z.of_nat m * w) with (w * Z.of_nat m) by lia.
  rewrite Z.mod_small by nia.
  unfold u_or. apply lor_low_high; nia.
Qed.

Lemma pack_and_spec dbg w w' dc : 0 < w -> w' = Z.of_nat dc * w -> comb_spec true w w' dc (pack_and dbg w w').
Proof.
  intros Hw Hw' m low d Hm Hlow Hd. unfold hi, pack_and.
  assert (Hle : w * Z.of_nat m + w <= w') by nia.
  rewrite shl_chk_ok by nia. cbn [obind]. f_equal.
  pose proof (pow2_pos (w * Z.of_nat m) ltac:(nia)) as Hp.
  pose proof (pow2_le (w * Z.of_nat m + w) w' ltac:(nia)) as Hq. rewrite pow2_add in Hq by nia.
  unfold ud, u_not, B.
  rewrite (Z.mod_small (2 ^ w - 1 - d)) by (pose proof (pow2_le w w' ltac:(nia)); lia).
  replace (Z.of_nat m * w) with (w * Z.of_nat m) by lia.
  rewrite Z.mod_small by nia.
  unfold u_and. rewrite land_clear by nia.
  replace (w * Z.of_nat (S m)) with (w * Z.of_nat m + w) by lia. rewrite pow2_add by nia. lia.
Qed.

Lemma pack_while_ok w w' dc src n n' stop V neg comb :
  0 < w -> (0 < dc)%nat -> w' = Z.of_nat dc * w -> wf w n src ->
  (0 < stop <= n)%nat -> (forall i, (i < stop)%nat -> (i / dc < n')%nat) ->
  V mod 2 ^ (w * Z.of_nat stop) = uval w src mod 2 ^ (w * Z.of_nat stop) ->
  high_pad V (w * Z.of_nat stop) (w' * Z.of_nat n') neg ->
  comb_spec neg w w' dc comb ->
  omap fst (while_ stop (fun i _ => (i <? stop)%nat) (pack_body dc stop src (hi neg w' 0) comb) 0%nat
                   (repeat (if neg then u_max w' else 0) n', hi neg w' 0))
  = Ret (digits_of w' n' V).
Proof.
  intros Hw Hdc Hw' Hwf Hstop Hj Hagree Hpad Hcomb.
  assert (Hw'0 : 0 < w') by nia.
  set (pad := if neg then u_max w' else 0). set (X := uval w src) in *. set (init := hi neg w' 0).
  pose (P := fun (i : nat) (st : list Z * Z) =>
               (i <= stop)%nat /\
               ((i < stop)%nat /\
                fst st = digits_of w' (i / dc) V ++ repeat pad (n' - i / dc) /\
                snd st = bf V (w' * Z.of_nat (i / dc)) (w * Z.of_nat (i mod dc)) + hi neg w' (w * Z.of_nat (i mod dc))
                \/ i = stop /\ fst st = digits_of w' n' V)).
  destruct (while_inv P (fun i _ => (i <? stop)%nat) (pack_body dc stop src init comb) stop) with
      (fuel := stop) (i := 0%nat) (s := (repeat pad n', init)) as (i' & s' & Hrun & [Hi' Hs'] & Hc).
  - intros i [out cur] [Hi Hinv] Hc. apply Nat.ltb_lt in Hc. split; [exact Hc|].
    destruct Hinv as [(_ & Hout & Hcur) | [Habs _]]; [|lia]. cbn [fst snd] in Hout, Hcur.
    destruct (divmod_nat i dc Hdc) as [Ei Hm]. pose proof (Hj i Hc) as Hjn.
    pose proof (succ_div_mod i dc Hdc) as Hsucc.
    set (j := (i / dc)%nat) in *. set (m := (i mod dc)%nat) in *.
    unfold pack_body. fold m j.
    rewrite rd_ok by (rewrite (wf_length _ _ _ Hwf); lia). cbn [obind].
    assert (Hd : nth i src 0 = bf V (w * Z.of_nat i) w).
    { rewrite (nth_bf w n src i Hw Hwf ltac:(lia)). fold X.
      symmetry. apply (bf_congr V X (w * Z.of_nat stop)); auto; nia. }
    rewrite Hd, Hcur.
    rewrite Hcomb; [| exact Hm | apply bf_range; nia | apply bf_range; lia]. cbn [obind].
    assert (Elow : bf V (w' * Z.of_nat j) (w * Z.of_nat m) + bf V (w * Z.of_nat i) w * 2 ^ (w * Z.of_nat m)
                   = bf V (w' * Z.of_nat j) (w * Z.of_nat (S m))).
    { replace (w * Z.of_nat (S m)) with (w * Z.of_nat m + w) by lia.
      rewrite bf_split by nia. replace (w' * Z.of_nat j + w * Z.of_nat m) with (w * Z.of_nat i) by nia. lia. }
    rewrite Elow.
    (* the value of a finished target digit *)
    assert (Efull : forall r, w * Z.of_nat (S m) + r = w' ->
                      (r = 0 \/ S i = stop) ->
                      bf V (w' * Z.of_nat j) (w * Z.of_nat (S m)) + hi neg w' (w * Z.of_nat (S m))
                      = bf V (w' * Z.of_nat j) w').
    { intros r Er Hr.
      replace (bf V (w' * Z.of_nat j) w') with (bf V (w' * Z.of_nat j) (w * Z.of_nat (S m) + r)) by (f_equal; lia).
      rewrite bf_split by nia.
      replace (w' * Z.of_nat j + w * Z.of_nat (S m)) with (w * Z.of_nat (S i)) by nia.
      destruct Hr as [-> | Hlast].
      - rewrite bf_0. unfold hi. replace (w * Z.of_nat (S m)) with w' by lia. destruct neg; lia.
      - assert (Ei' : w * Z.of_nat (S i) = w' * Z.of_nat j + w * Z.of_nat (S m)) by nia.
        assert (w' * Z.of_nat j + w' <= w' * Z.of_nat n') by nia.
        assert (0 <= r) by nia.
        rewrite Hlast in Ei' |- *.
        rewrite (high_pad_bf V (w * Z.of_nat stop) (w' * Z.of_nat n') neg r) by (auto; first [lia | nia]).
        unfold hi. destruct neg; [|lia].
        replace (2 ^ w') with (2 ^ (w * Z.of_nat (S m)) * 2 ^ r) by (rewrite <- pow2_add by nia; f_equal; lia). lia. }
    assert (Hflush : forall out', out' = digits_of w' (S j) V ++ repeat pad (n' - S j) -> S i = stop ->
                                  out' = digits_of w' n' V).
    { intros out' -> Hlast. symmetry. apply digits_of_pad; [lia | lia |].
      apply high_pad_above; [lia|lia|]. apply (high_pad_mono V (w * Z.of_nat stop)); auto; nia. }
    assert (Hwr : forall c, wr out j c = Ret ((digits_of w' j V ++ [c]) ++ repeat pad (n' - S j))).
    { intros c. rewrite Hout. replace (n' - j)%nat with (S (n' - S j)) by lia.
      apply wr_prefix. apply digits_of_length. }
    destruct (Nat.eqb_spec m (dc - 1)) as [Em | Em]; cbn [orb].
    + (* a full digit *)
      destruct Hsucc as [Hsj Hsm].
      rewrite (Efull 0) by (first [nia | auto]).
      rewrite Hwr. cbn [obind]. eexists; split; [reflexivity|]. split; [lia|].
      rewrite <- digits_of_snoc by lia.
      destruct (Nat.eq_dec (S i) stop) as [Hlast | Hnl].
      * right. split; [exact Hlast|]. cbn [fst]. apply Hflush; auto.
      * left. split; [lia|]. cbn [fst snd]. rewrite Hsj, Hsm. split; [reflexivity|].
        rewrite Z.mul_0_r, bf_0. reflexivity.
    + destruct Hsucc as [Hsj Hsm].
      destruct (Nat.eqb_spec i (stop - 1)) as [Hl | Hnl].
      * (* the last, partial digit *)
        assert (Hlast : S i = stop) by lia.
        rewrite (Efull (w' - w * Z.of_nat (S m))) by (first [lia | auto]).
        rewrite Hwr. cbn [obind]. eexists; split; [reflexivity|]. split; [lia|].
        rewrite <- digits_of_snoc by lia.
        right. split; [exact Hlast|]. cbn [fst]. apply Hflush; auto.
      * eexists; split; [reflexivity|]. split; [lia|]. left. split; [lia|]. cbn [fst snd].
        rewrite Hsj, Hsm. split; [exact Hout | reflexivity].
  - lia.
  - split; [lia|]. left. split; [lia|]. cbn [fst snd].
    rewrite Nat.div_0_l, Nat.mod_0_l by lia. cbn [digits_of app]. split; [f_equal; lia|].
    change (Z.of_nat 0) with 0. rewrite !Z.mul_0_r, bf_0. reflexivity.
  - rewrite Hrun. cbn [omap]. apply Nat.ltb_ge in Hc. f_equal.
    destruct Hs' as [(Hlt & _) | (_ & Hfin)]; [lia | exact Hfin].
Qed.

(* ================================================================== *)
(** * 9. Different digit types: the four impls *)

Lemma trunc_facts X T : 0 <= T ->
  (X mod 2 ^ T) mod 2 ^ T = X mod 2 ^ T /\ high_pad (X mod 2 ^ T) T T false.
Proof.
  intros. pose proof (pow2_pos T ltac:(lia)). split; [apply Z.mod_mod; lia|].
  unfold high_pad. apply Z.div_small. apply Z.mod_pos_bound; lia.
Qed.

Lemma widen_facts X L T : 0 <= X < 2 ^ L -> high_pad X L T false.
Proof. intros. unfold high_pad. apply Z.div_small; lia. Qed.

Lemma neg_facts X L T : 0 <= L <= T -> 0 <= X < 2 ^ L ->
  let V := X + 2 ^ T - 2 ^ L in
  V mod 2 ^ L = X mod 2 ^ L /\ high_pad V L T true /\ 0 <= V < 2 ^ T.
Proof.
  intros HL HX V. pose proof (pow2_pos L ltac:(lia)). pose proof (pow2_pos (T - L) ltac:(lia)).
  assert (EV : V = X + (2 ^ (T - L) - 1) * 2 ^ L).
  { unfold V. rewrite (pow2_split L T) by lia. lia. }
  split; [|split].
  - rewrite EV. apply Z_mod_plus_full.
  - unfold high_pad. rewrite EV. rewrite Z.div_add by lia. rewrite Z.div_small by lia. lia.
  - rewrite EV. rewrite (pow2_split L T) by lia. nia.
Qed.

Lemma digits_of_result w n V : 0 < w -> 0 <= V < Mod w n ->
  wf w n (digits_of w n V) /\ uval w (digits_of w n V) = V.
Proof.
  intros. split; [apply digits_of_wf; lia|]. rewrite digits_of_uval by lia. apply Z.mod_small; lia.
Qed.

(* the quotient of the digit widths as a digit count *)
Lemma divide_count a b : 0 < b -> (b | a) -> 0 < a ->
  a = Z.of_nat (Z.to_nat (a / b)) * b /\ (0 < Z.to_nat (a / b))%nat.
Proof.
  intros Hb [q Hq] Ha. subst a. rewrite Z.div_mul by lia. assert (0 < q) by nia. split; lia.
Qed.

Lemma divide_le a b : 0 < a -> 0 < b -> (a | b) -> a <= b.
Proof. intros Ha Hb [q Hq]. subst b. assert (0 < q) by nia. nia. Qed.

(* unsigned source: the result holds uval mod 2^(target BITS) *)
Theorem U_castd_U_ok dbg w n w' n' a :
  0 < w -> 0 < w' -> (0 < n)%nat -> (0 < n')%nat -> (w' | w) \/ (w | w') -> wf w n a ->
  exists r, U_castd_U dbg w a w' n' = Ret r /\ wf w' n' r /\ uval w' r = uval w a mod Mod w' n'.
Proof.
  intros Hw Hw' Hn Hn' Hdiv Hwf.
  set (X := uval w a). set (T := w' * Z.of_nat n'). set (V := X mod 2 ^ T).
  pose proof (uval_bounds w n a ltac:(lia) Hwf) as HX. fold X in HX. unfold Mod in HX.
  assert (HT : 0 <= T) by (unfold T; nia).
  pose proof (pow2_pos T HT) as HpT.
  assert (HV : 0 <= V < Mod w' n') by (unfold V, Mod; fold T; apply Z.mod_pos_bound; lia).
  exists (digits_of w' n' V).
  split; [| replace (X mod Mod w' n') with V by reflexivity; apply digits_of_result; auto].
  unfold U_castd_U, ZERO.
  destruct (Z.ltb_spec w' w) as [Hlt | Hge].
  - (* split *)
    assert (Hd : (w' | w)) by (destruct Hdiv as [D | D]; [exact D | apply divide_le in D; lia]).
    destruct (divide_count w w' Hw' Hd Hw) as [Ew Hdc].
    unfold split_loop. rewrite (wf_length _ _ _ Hwf). set (dc := Z.to_nat (w / w')) in *.
    unfold split_stop, bits. fold T.
    destruct (Z.ltb_spec T (w * Z.of_nat n)) as [Htr | Hwd].
    + destruct (trunc_facts X T HT) as [F1 F2].
      apply (split_while_ok dbg w w' dc a n n' n' V false); auto; try lia.
      unfold T in Htr. nia.
    + assert (EL : w' * Z.of_nat (n * dc) = w * Z.of_nat n) by nia.
      assert (EV : V = X) by (unfold V; apply Z.mod_small; split; [lia|]; eapply Z.lt_le_trans; [apply HX|]; apply pow2_le; nia).
      apply (split_while_ok dbg w w' dc a n n' (n * dc)%nat V false); auto; try lia.
      * unfold T in Hwd. nia.
      * rewrite EV. reflexivity.
      * rewrite EL, EV. apply widen_facts. exact HX.
  - (* pack *)
    assert (Hd : (w | w')) by (destruct Hdiv as [D | D]; [apply divide_le in D; auto; assert (w = w') by lia; subst; apply Z.divide_refl | exact D]).
    destruct (divide_count w' w Hw Hd Hw') as [Ew Hdc].
    unfold pack_loop. rewrite (wf_length _ _ _ Hwf). set (dc := Z.to_nat (w' / w)) in *.
    unfold pack_stop, bits. fold T.
    change 0 with (hi false w' 0) at 2 3.
    destruct (Z.ltb_spec T (w * Z.of_nat n)) as [Htr | Hwd].
    + destruct (trunc_facts X T HT) as [F1 F2].
      assert (EL : w * Z.of_nat (n' * dc) = T) by (unfold T; nia).
      apply (pack_while_ok w w' dc a n n' (n' * dc)%nat V false); auto.
      * split; [nia|]. unfold T in Htr. nia.
      * intros i Hi. apply div_lt_nat; auto.
      * rewrite EL. exact F1.
      * rewrite EL. exact F2.
      * apply pack_or_spec; auto.
    + assert (EV : V = X) by (unfold V; apply Z.mod_small; split; [lia|]; eapply Z.lt_le_trans; [apply HX|]; apply pow2_le; nia).
      apply (pack_while_ok w w' dc a n n' n V false); auto.
      * intros i Hi. apply div_lt_nat; auto. unfold T in Hwd. nia.
      * rewrite EV. reflexivity.
      * rewrite EV. apply widen_facts. exact HX.
      * apply pack_or_spec; auto.
Qed.

(* signed source: the result holds sval mod 2^(target BITS) *)
Theorem U_castd_I_ok dbg w n w' n' a :
  0 < w -> 0 < w' -> (0 < n)%nat -> (0 < n')%nat -> (w' | w) \/ (w | w') -> wf w n a ->
  exists r, U_castd_I dbg w a w' n' = Ret r /\ wf w' n' r /\ uval w' r = sval w a mod Mod w' n'.
Proof.
  intros Hw Hw' Hn Hn' Hdiv Hwf.
  set (X := uval w a). set (T := w' * Z.of_nat n'). set (L := w * Z.of_nat n).
  pose proof (uval_bounds w n a ltac:(lia) Hwf) as HX. fold X in HX. unfold Mod in HX. fold L in HX.
  assert (HT : 0 <= T) by (unfold T; nia). assert (HL : 0 <= L) by (unfold L; nia).
  pose proof (pow2_pos T HT) as HpT. pose proof (pow2_pos L HL) as HpL.
  unfold U_castd_I, bits. rewrite (wf_length _ _ _ Hwf). fold T L.
  destruct (sval_cases w n a Hw Hn Hwf) as [(Eneg & Es & Hr) | (Eneg & Es & Hr)]; rewrite Eneg; cbn [negb orb].
  - (* non-negative: the unsigned routine, and sval = uval *)
    rewrite Es. apply (U_castd_U_ok dbg w n w' n' a); auto.
  - destruct (Z.leb_spec T L) as [Hle | Hgt].
    + (* not wider: the unsigned routine; sval = uval modulo 2^T *)
      destruct (U_castd_U_ok dbg w n w' n' a Hw Hw' Hn Hn' Hdiv Hwf) as (r & Hr1 & Hr2 & Hr3).
      exists r. split; [exact Hr1|]. split; [exact Hr2|]. rewrite Hr3, Es. fold X. unfold Mod. fold T L.
      rewrite (pow2_split T L) by lia.
      replace (X - 2 ^ T * 2 ^ (L - T)) with (X + (- 2 ^ (L - T)) * 2 ^ T) by lia.
      rewrite Z_mod_plus_full. reflexivity.
    + (* negative and strictly widening: ones above the source *)
      destruct (neg_facts X L T ltac:(lia) HX) as (F1 & F2 & F3). set (V := X + 2 ^ T - 2 ^ L) in *.
      exists (digits_of w' n' V).
      split; [| replace (sval w a mod Mod w' n') with V;
                [apply digits_of_result; auto|] ].
      2: { rewrite Es. fold X. unfold Mod. fold T L. symmetry. apply mod_intro with (q := -1); unfold V; lia. }
      unfold UMAX.
      destruct (Z.ltb_spec w' w) as [Hlt | Hge].
      * assert (Hd : (w' | w)) by (destruct Hdiv as [D | D]; [exact D | apply divide_le in D; lia]).
        destruct (divide_count w w' Hw' Hd Hw) as [Ew Hdc].
        unfold split_loop. rewrite (wf_length _ _ _ Hwf). set (dc := Z.to_nat (w / w')) in *.
        unfold split_stop, bits. fold T L.
        destruct (Z.ltb_spec T L); [lia|].
        assert (EL : w' * Z.of_nat (n * dc) = L) by (unfold L; nia).
        apply (split_while_ok dbg w w' dc a n n' (n * dc)%nat V true); auto; try lia.
        -- unfold T, L in Hgt. nia.
        -- rewrite EL. exact F1.
        -- rewrite EL. exact F2.
      * assert (Hd : (w | w')) by (destruct Hdiv as [D | D]; [apply divide_le in D; auto; assert (w = w') by lia; subst; apply Z.divide_refl | exact D]).
        destruct (divide_count w' w Hw Hd Hw') as [Ew Hdc].
        unfold pack_loop. rewrite (wf_length _ _ _ Hwf). set (dc := Z.to_nat (w' / w)) in *.
        unfold pack_stop, bits. fold T L.
        destruct (Z.ltb_spec T L); [lia|].
        replace (u_max w') with (hi true w' 0) by (unfold hi, u_max, B; rewrite Z.pow_0_r; reflexivity).
        apply (pack_while_ok w w' dc a n n' n V true); auto.
        -- intros i Hi. apply div_lt_nat; auto. unfold T, L in Hgt. nia.
        -- apply pack_and_spec; auto.
Qed.

(* ================================================================== *)
(** * 10. Primitive integer -> bnum *)

(* the values of the primitive type (pb, ps) *)
Definition prim_range (pb : Z) (ps : bool) (v : Z) : Prop :=
  if ps then - 2 ^ (pb - 1) <= v < 2 ^ (pb - 1) else 0 <= v < 2 ^ pb.

Lemma prim_range_weak pb ps v : 0 < pb -> prim_range pb ps v -> - 2 ^ pb <= v < 2 ^ pb.
Proof.
  intros Hpb H. unfold prim_range in H. pose proof (pow2_lt (pb - 1) pb ltac:(lia)).
  pose proof (pow2_pos (pb - 1) ltac:(lia)). destruct ps; lia.
Qed.

Theorem U_from_int_ok pb w n v :
  0 < w -> 0 < pb -> (pb <= w -> - 2 ^ w <= v < 2 ^ w) ->
  exists r, U_from_int pb w n v = Ret r /\ wf w n r /\ uval w r = v mod Mod w n.
Proof.
  intros Hw Hpb Hrange.
  set (T := w * Z.of_nat n). set (V := v mod 2 ^ T).
  assert (HT : 0 <= T) by (unfold T; nia). pose proof (pow2_pos T HT) as HpT.
  assert (HV : 0 <= V < Mod w n) by (unfold V, Mod; fold T; apply Z.mod_pos_bound; lia).
  exists (digits_of w n V).
  split; [| replace (v mod Mod w n) with V by reflexivity; apply digits_of_result; auto].
  unfold U_from_int, UMAX, ZERO.
  set (neg := v <? 0). set (pad := if neg then u_max w else 0).
  replace (if neg then repeat (u_max w) n else repeat 0 n) with (repeat pad n) by (unfold pad; destruct neg; reflexivity).
  pose (F := fun i : nat => if (i =? 0)%nat then v else if pb <=? w then 0 else v / 2 ^ (w * Z.of_nat i)).
  pose (P := fun (i : nat) (st : list Z * Z) =>
               (i <= n)%nat /\ fst st = digits_of w i V ++ repeat pad (n - i) /\ snd st = F i).
  destruct (while_inv P (fun i st => negb (snd st =? 0) && (i <? n)%nat) (as_buint_body pb w) n) with
      (fuel := n) (i := 0%nat) (s := (repeat pad n, v)) as (i' & [out' f'] & Hrun & (Hi' & Hout' & Hf') & Hc).
  - intros i [out f] (Hi & Hout & Hf) Hc. cbn [fst snd] in *.
    apply andb_true_iff in Hc. destruct Hc as [Hnz Hc]. apply Nat.ltb_lt in Hc.
    apply negb_true_iff, Z.eqb_neq in Hnz. split; [exact Hc|].
    unfold as_buint_body.
    assert (Hmask : u_and (ud w f) (u_max w) = bf V (w * Z.of_nat i) w).
    { rewrite land_max by (try lia; unfold ud; apply Z.mod_pos_bound; apply B_pos; lia).
      unfold ud, B. rewrite Hf. unfold F.
      destruct (Nat.eqb_spec i 0) as [-> | Hi0].
      - change (Z.of_nat 0) with 0. rewrite Z.mul_0_r, mod_as_bf.
        apply (bf_congr v V T); [lia | lia | unfold T; nia | unfold V; symmetry; apply Z.mod_mod; lia].
      - destruct (Z.leb_spec pb w); [rewrite Hf in Hnz; unfold F in Hnz; destruct (Nat.eqb_spec i 0); [lia|];
                                     destruct (Z.leb_spec pb w); lia|].
        change ((v / 2 ^ (w * Z.of_nat i)) mod 2 ^ w) with (bf v (w * Z.of_nat i) w).
        apply (bf_congr v V T); [nia | lia | unfold T; nia | unfold V; symmetry; apply Z.mod_mod; lia]. }
    rewrite Hmask.
    replace (n - i)%nat with (S (n - S i)) in Hout by lia.
    rewrite Hout. rewrite (wr_prefix _ _ _ _ _ (digits_of_length w i V)). cbn [obind].
    eexists; split; [reflexivity|]. split; [lia|]. cbn [fst snd]. split.
    + rewrite digits_of_snoc by lia. reflexivity.
    + unfold F. cbn [Nat.eqb]. destruct (Z.leb_spec pb w); [reflexivity|].
      unfold p_wrapping_shr. rewrite (Z.mod_small w pb) by lia. rewrite Hf. unfold F.
      destruct (Nat.eqb_spec i 0) as [-> | Hi0].
      * f_equal. f_equal. lia.
      * destruct (Z.leb_spec pb w); [lia|].
        pose proof (pow2_pos (w * Z.of_nat i) ltac:(nia)). pose proof (pow2_pos w ltac:(lia)).
        rewrite Z.div_div by lia. rewrite <- pow2_add by nia. f_equal. f_equal. lia.
  - lia.
  - split; [lia|]. cbn [fst snd digits_of app]. split; [f_equal; lia | reflexivity].
  - rewrite Hrun. cbn [omap fst]. f_equal. cbn [fst snd] in *. rewrite Hout'.
    symmetry. apply digits_of_pad; [lia | exact Hi' |].
    apply high_pad_above; [lia | exact Hi' |]. fold T.
    apply andb_false_iff in Hc. destruct Hc as [Hz | Hge].
    2: { apply Nat.ltb_ge in Hge. replace i' with n by lia. fold T. unfold high_pad.
         rewrite Z.sub_diag, Z.pow_0_r. rewrite Z.div_small by (unfold Mod in HV; fold T in HV; lia).
         destruct neg; reflexivity. }
    apply negb_false_iff, Z.eqb_eq in Hz. rewrite Hf' in Hz. unfold F in Hz.
    assert (HLT : 0 <= w * Z.of_nat i' <= T) by (unfold T; nia).
    pose proof (pow2_pos (w * Z.of_nat i') ltac:(lia)) as HpL.
    pose proof (pow2_le (w * Z.of_nat i') T HLT) as HLe.
    (* a non-negative v that fits below bit w*i' *)
    assert (Hnonneg : 0 <= v < 2 ^ (w * Z.of_nat i') -> high_pad V (w * Z.of_nat i') T neg).
    { intros Hv. replace neg with false by (unfold neg; symmetry; apply Z.ltb_ge; lia).
      replace V with v by (unfold V; symmetry; apply Z.mod_small; lia). apply widen_facts. exact Hv. }
    destruct (Nat.eqb_spec i' 0) as [-> | Hi0].
    + apply Hnonneg. subst v. change (Z.of_nat 0) with 0. rewrite Z.mul_0_r, Z.pow_0_r. lia.
    + destruct (Z.leb_spec pb w) as [Hle | Hgt].
      * specialize (Hrange Hle).
        assert (Hw_le : 2 ^ w <= 2 ^ (w * Z.of_nat i')) by (apply pow2_le; nia).
        destruct (Z_lt_ge_dec v 0) as [Hneg | Hpos].
        -- replace neg with true by (unfold neg; symmetry; apply Z.ltb_lt; lia).
           destruct (neg_facts (v + 2 ^ (w * Z.of_nat i')) (w * Z.of_nat i') T HLT ltac:(lia)) as (_ & F2 & F3).
           replace V with (v + 2 ^ (w * Z.of_nat i') + 2 ^ T - 2 ^ (w * Z.of_nat i')); [exact F2|].
           unfold V. symmetry. apply mod_intro with (q := -1); lia.
        -- apply Hnonneg. lia.
      * apply Hnonneg. apply Z.div_small_iff in Hz; lia.
Qed.

(* ================================================================== *)
(** * 11. bnum -> primitive integer *)

Lemma U_as_int_bits_ok dbg pb w n ds : 0 < w -> 0 < pb -> wf w n ds ->
  U_as_int_bits dbg pb w ds = Ret (uval w ds mod 2 ^ pb).
Proof.
  intros Hw Hpb Hwf. unfold U_as_int_bits. rewrite (wf_length _ _ _ Hwf).
  set (X := uval w ds).
  pose proof (uval_bounds w n ds ltac:(lia) Hwf) as HX. fold X in HX. unfold Mod in HX.
  pose (P := fun (i : nat) (out : Z) => (i <= n)%nat /\ out = (X mod 2 ^ (w * Z.of_nat i)) mod 2 ^ pb).
  destruct (while_inv P (as_int_cond pb w n)
              (fun i out => obind (rd ds i) (fun d =>
                            obind (shl_chk dbg pb (ud pb d) (Z.of_nat i * w)) (fun t => Ret (u_or out t)))) n) with
      (fuel := n) (i := 0%nat) (s := 0) as (i' & out' & Hrun & (Hi' & Hout') & Hc).
  - intros i out [Hi Hout] Hc. unfold as_int_cond in Hc. apply andb_true_iff in Hc.
    destruct Hc as [Hlt Hc]. apply Z.ltb_lt in Hlt. apply Nat.ltb_lt in Hc. split; [exact Hc|].
    rewrite rd_ok by (rewrite (wf_length _ _ _ Hwf); lia). cbn [obind].
    rewrite shl_chk_ok by lia. cbn [obind]. eexists; split; [reflexivity|]. split; [lia|].
    rewrite (nth_bf w n ds i Hw Hwf Hc). fold X.
    set (k := w * Z.of_nat i) in *. assert (Hk : 0 <= k) by (unfold k; nia).
    replace (Z.of_nat i * w) with k in * by (unfold k; lia).
    set (r := pb - k). assert (Hr : 0 < r) by (unfold r; lia).
    pose proof (pow2_pos k Hk) as Hpk. pose proof (pow2_lt k pb ltac:(lia)) as Hkpb.
    pose proof (Z.mod_pos_bound X (2 ^ k) Hpk) as HXl.
    assert (Eout : out = X mod 2 ^ k) by (rewrite Hout; apply Z.mod_small; lia).
    replace (w * Z.of_nat (S i)) with (k + w) by (unfold k; lia).
    rewrite (mod_as_bf X (k + w)), bf_split by lia. rewrite <- (mod_as_bf X k), Z.add_0_l.
    unfold ud, B. replace pb with (k + r) at 2 3 by (unfold r; lia).
    rewrite shifted_mod by lia.
    rewrite (mod_mod_pow2 _ r pb) by (unfold r; lia).
    unfold u_or. rewrite lor_low_high by lia.
    rewrite (Z.mul_comm (2 ^ k)). rewrite low_high_mod by lia. rewrite Eout. reflexivity.
  - lia.
  - split; [lia|]. change (Z.of_nat 0) with 0. rewrite Z.mul_0_r, Z.pow_0_r, Z.mod_1_r.
    symmetry. apply Z.mod_0_l. pose proof (pow2_pos pb); lia.
  - rewrite Hrun. f_equal. rewrite Hout'.
    unfold as_int_cond in Hc. apply andb_false_iff in Hc. destruct Hc as [Hge | Hge].
    + apply Z.ltb_ge in Hge. apply mod_mod_pow2. lia.
    + apply Nat.ltb_ge in Hge. replace i' with n by lia. rewrite (Z.mod_small X) by lia. reflexivity.
Qed.

Lemma I_as_int_bits_ok dbg pb w n ds : 0 < w -> 0 < pb -> (0 < n)%nat -> wf w n ds ->
  I_as_int_bits dbg pb w ds = Ret (sval w ds mod 2 ^ pb).
Proof.
  intros Hw Hpb Hn Hwf. unfold I_as_int_bits, to_bits. rewrite (wf_length _ _ _ Hwf).
  destruct (sval_cases w n ds Hw Hn Hwf) as [(-> & Es & _) | (-> & Es & _)].
  { rewrite Es. apply (U_as_int_bits_ok dbg pb w n); auto. }
  rewrite Es. set (X := uval w ds). unfold Mod. pose proof (pow2_pos pb ltac:(lia)) as Hppb.
  pose proof (uval_bounds w n ds ltac:(lia) Hwf) as HX. fold X in HX. unfold Mod in HX.
  pose (P := fun (i : nat) (out : Z) =>
               (i <= n)%nat /\ out = (X mod 2 ^ (w * Z.of_nat i) - 2 ^ (w * Z.of_nat i)) mod 2 ^ pb).
  destruct (while_inv P (as_int_cond pb w n)
              (fun i out => obind (rd ds i) (fun d =>
                            obind (shl_chk dbg pb (ud pb (u_not w d)) (Z.of_nat i * w)) (fun t =>
                            Ret (u_and out (u_not pb t))))) n) with
      (fuel := n) (i := 0%nat) (s := u_not pb 0) as (i' & out' & Hrun & (Hi' & Hout') & Hc).
  - intros i out [Hi Hout] Hc. unfold as_int_cond in Hc. apply andb_true_iff in Hc.
    destruct Hc as [Hlt Hc]. apply Z.ltb_lt in Hlt. apply Nat.ltb_lt in Hc. split; [exact Hc|].
    rewrite rd_ok by (rewrite (wf_length _ _ _ Hwf); lia). cbn [obind].
    rewrite shl_chk_ok by lia. cbn [obind]. eexists; split; [reflexivity|]. split; [lia|].
    rewrite (nth_bf w n ds i Hw Hwf Hc). fold X.
    set (k := w * Z.of_nat i) in *. assert (Hk : 0 <= k) by (unfold k; nia).
    replace (Z.of_nat i * w) with k in * by (unfold k; lia).
    set (r := pb - k). assert (Hr : 0 < r) by (unfold r; lia).
    pose proof (pow2_pos k Hk) as Hpk. pose proof (pow2_lt k pb ltac:(lia)) as Hkpb.
    pose proof (pow2_pos r ltac:(lia)) as Hpr.
    pose proof (Z.mod_pos_bound X (2 ^ k) Hpk) as HXl.
    assert (Epb : 2 ^ pb = 2 ^ k * 2 ^ r) by (rewrite <- pow2_add by lia; f_equal; unfold r; lia).
    assert (Eout : out = X mod 2 ^ k + (2 ^ pb - 2 ^ k)).
    { rewrite Hout. apply mod_intro with (q := -1); lia. }
    replace (w * Z.of_nat (S i)) with (k + w) by (unfold k; lia).
    rewrite (mod_as_bf X (k + w)), bf_split by lia. rewrite <- (mod_as_bf X k), Z.add_0_l.
    set (d := bf X k w). set (Xl := X mod 2 ^ k) in *.
    set (c := (2 ^ w - 1 - d) mod 2 ^ r).
    assert (Hcr : 0 <= c < 2 ^ r) by (apply Z.mod_pos_bound; lia).
    assert (Et : (ud pb (u_not w d) * 2 ^ k) mod 2 ^ pb = c * 2 ^ k).
    { unfold ud, u_not, B, c. replace pb with (k + r) by (unfold r; lia).
      rewrite shifted_mod by lia. rewrite mod_mod_pow2 by lia. reflexivity. }
    assert (Ew : (Xl + (d - 2 ^ w) * 2 ^ k) mod 2 ^ pb = Xl + ((d - 2 ^ w) mod 2 ^ r) * 2 ^ k).
    { replace pb with (k + r) by (unfold r; lia). apply low_high_mod; lia. }
    rewrite Et. unfold u_and, u_not, B. rewrite Eout. rewrite land_clear by (try lia; nia).
    replace (Xl + 2 ^ k * d - 2 ^ (k + w)) with (Xl + (d - 2 ^ w) * 2 ^ k) by (rewrite pow2_add by lia; lia).
    rewrite Ew.
    replace (d - 2 ^ w) with (-1 - (2 ^ w - 1 - d)) by lia. rewrite mod_compl by lia. fold c. nia.
  - lia.
  - split; [lia|]. change (Z.of_nat 0) with 0. rewrite Z.mul_0_r, Z.pow_0_r, Z.mod_1_r.
    unfold u_not, B. symmetry. apply mod_intro with (q := -1); lia.
  - rewrite Hrun. f_equal. rewrite Hout'.
    unfold as_int_cond in Hc. apply andb_false_iff in Hc. destruct Hc as [Hge | Hge].
    + apply Z.ltb_ge in Hge.
      assert (Hle : w * Z.of_nat i' <= w * Z.of_nat n) by nia.
      rewrite Zminus_mod, (Zminus_mod X). rewrite mod_mod_pow2 by lia.
      rewrite !pow2_mod_0 by lia. reflexivity.
    + apply Nat.ltb_ge in Hge. replace i' with n by lia. rewrite (Z.mod_small X) by lia. reflexivity.
Qed.

Lemma p_of_bits_ok pb ps x : 0 < pb ->
  let r := p_of_bits pb ps (x mod 2 ^ pb) in prim_range pb ps r /\ r mod 2 ^ pb = x mod 2 ^ pb.
Proof.
  intros Hpb r. pose proof (pow2_pos pb ltac:(lia)) as Hp.
  pose proof (Z.mod_pos_bound x (2 ^ pb) Hp) as Hb.
  unfold r, p_of_bits, prim_range. destruct ps.
  - unfold sd. change (B pb) with (2 ^ pb).
    assert (He : 2 ^ pb = 2 * 2 ^ (pb - 1)).
    { replace pb with (1 + (pb - 1)) at 1 by lia. rewrite pow2_add by lia. reflexivity. }
    assert (Hh : 2 ^ pb / 2 = 2 ^ (pb - 1)) by (rewrite He, Z.mul_comm, Z.div_mul by lia; reflexivity).
    split.
    + rewrite <- Hh. apply to_signed_range; [lia | lia | exact Hb].
    + rewrite to_signed_mod by lia. apply Z.mod_mod. lia.
  - split; [exact Hb | apply Z.mod_mod; lia].
Qed.

Theorem U_as_int_ok dbg pb ps w n ds : 0 < w -> 0 < pb -> wf w n ds ->
  exists r, U_as_int dbg pb ps w ds = Ret r /\ prim_range pb ps r /\ r mod 2 ^ pb = uval w ds mod 2 ^ pb.
Proof.
  intros Hw Hpb Hwf. unfold U_as_int. rewrite (U_as_int_bits_ok dbg pb w n ds Hw Hpb Hwf). cbn [omap].
  eexists; split; [reflexivity|]. apply p_of_bits_ok; auto.
Qed.

Theorem I_as_int_ok dbg pb ps w n ds : 0 < w -> 0 < pb -> (0 < n)%nat -> wf w n ds ->
  exists r, I_as_int dbg pb ps w ds = Ret r /\ prim_range pb ps r /\ r mod 2 ^ pb = sval w ds mod 2 ^ pb.
Proof.
  intros Hw Hpb Hn Hwf. unfold I_as_int. rewrite (I_as_int_bits_ok dbg pb w n ds Hw Hpb Hn Hwf). cbn [omap].
  eexists; split; [reflexivity|]. apply p_of_bits_ok; auto.
Qed.

(* ================================================================== *)
(** * 12. The property-level statements *)

Lemma omap_from_bits (o : outcome (list Z)) : omap from_bits o = o.
Proof. destruct o; reflexivity. Qed.

(* bnum -> bnum, every pair of configurations, every signedness *)
Theorem cast_ok dbg w n w' n' src_signed dst_signed a :
  0 < w -> 0 < w' -> (0 < n)%nat -> (0 < n')%nat -> (w' | w) \/ (w | w') -> wf w n a ->
  exists r, cast dbg w w' n' src_signed dst_signed a = Ret r /\ wf w' n' r /\
            uval w' r = source_value src_signed w a mod Mod w' n'.
Proof.
  intros Hw Hw' Hn Hn' Hdiv Hwf. unfold cast, source_value.
  unfold I_cast_U, I_cast_I, I_castd_U, I_castd_I. rewrite !omap_from_bits.
  destruct (Z.eqb_spec w w') as [<- | Hne].
  - destruct src_signed, dst_signed;
      first [apply (U_cast_I_ok w n n' a); assumption | apply (U_cast_U_ok w n n' a); assumption].
  - destruct src_signed, dst_signed;
      first [apply (U_castd_I_ok dbg w n w' n' a); assumption | apply (U_castd_U_ok dbg w n w' n' a); assumption].
Qed.

(* the target read with its own signedness equals the source value whenever that value is representable:
   zero extension of unsigned sources, sign extension of signed sources *)
Theorem cast_preserves_value dbg w n w' n' src_signed (dst_signed : bool) a :
  0 < w -> 0 < w' -> (0 < n)%nat -> (0 < n')%nat -> (w' | w) \/ (w | w') -> wf w n a ->
  (if dst_signed then - (Mod w' n' / 2) <= source_value src_signed w a < Mod w' n' / 2
   else 0 <= source_value src_signed w a < Mod w' n') ->
  exists r, cast dbg w w' n' src_signed dst_signed a = Ret r /\ wf w' n' r /\
            source_value dst_signed w' r = source_value src_signed w a.
Proof.
  intros Hw Hw' Hn Hn' Hdiv Hwf Hrep.
  destruct (cast_ok dbg w n w' n' src_signed dst_signed a Hw Hw' Hn Hn' Hdiv Hwf) as (r & Hr & Hwfr & Hv).
  exists r. split; [exact Hr|]. split; [exact Hwfr|].
  pose proof (Mod_pos w' n' ltac:(lia)) as HM. pose proof (Mod_even w' n' Hw' Hn') as He.
  unfold source_value at 1. destruct dst_signed.
  - unfold sval. rewrite (wf_length _ _ _ Hwfr), Hv. rewrite to_signed_of_mod by auto.
    apply wrapS_id; auto.
  - rewrite Hv. apply Z.mod_small. exact Hrep.
Qed.

(* truncation: a narrower-or-equal target keeps exactly the low bits of the source pattern *)
Theorem cast_truncates dbg w n w' n' src_signed dst_signed a :
  0 < w -> 0 < w' -> (0 < n)%nat -> (0 < n')%nat -> (w' | w) \/ (w | w') -> wf w n a ->
  bits w' n' <= bits w n ->
  exists r, cast dbg w w' n' src_signed dst_signed a = Ret r /\ wf w' n' r /\
            uval w' r = uval w a mod Mod w' n'.
Proof.
  intros Hw Hw' Hn Hn' Hdiv Hwf Hle.
  destruct (cast_ok dbg w n w' n' src_signed dst_signed a Hw Hw' Hn Hn' Hdiv Hwf) as (r & Hr & Hwfr & Hv).
  exists r. split; [exact Hr|]. split; [exact Hwfr|]. rewrite Hv.
  unfold source_value. destruct src_signed; [|reflexivity].
  unfold bits in Hle. unfold Mod.
  rewrite <- (mod_mod_pow2 (sval w a) (w' * Z.of_nat n') (w * Z.of_nat n)) by nia.
  pose proof (sval_mod w n a Hw Hwf) as Hs. unfold Mod in Hs. rewrite Hs.
  apply mod_mod_pow2. nia.
Qed.

Theorem cast_total dbg w n w' n' src_signed dst_signed a :
  0 < w -> 0 < w' -> (0 < n)%nat -> (0 < n')%nat -> (w' | w) \/ (w | w') -> wf w n a ->
  cast dbg w w' n' src_signed dst_signed a <> Panic.
Proof.
  intros Hw Hw' Hn Hn' Hdiv Hwf.
  destruct (cast_ok dbg w n w' n' src_signed dst_signed a Hw Hw' Hn Hn' Hdiv Hwf) as (r & Hr & _).
  rewrite Hr. discriminate.
Qed.

(* primitive -> bnum *)
Theorem from_prim_ok pb ps w n dst_signed v :
  0 < w -> 0 < pb -> prim_range pb ps v ->
  exists r, from_prim pb w n dst_signed v = Ret r /\ wf w n r /\ uval w r = v mod Mod w n.
Proof.
  intros Hw Hpb Hv. unfold from_prim, I_from_int. rewrite omap_from_bits.
  assert (H : exists r, U_from_int pb w n v = Ret r /\ wf w n r /\ uval w r = v mod Mod w n).
  { apply U_from_int_ok; auto. intros Hle. pose proof (prim_range_weak pb ps v Hpb Hv).
    pose proof (pow2_le pb w ltac:(lia)). lia. }
  destruct dst_signed; exact H.
Qed.

Theorem from_prim_preserves_value pb ps w n (dst_signed : bool) v :
  0 < w -> 0 < pb -> (0 < n)%nat -> prim_range pb ps v ->
  (if dst_signed then - (Mod w n / 2) <= v < Mod w n / 2 else 0 <= v < Mod w n) ->
  exists r, from_prim pb w n dst_signed v = Ret r /\ wf w n r /\ source_value dst_signed w r = v.
Proof.
  intros Hw Hpb Hn Hv Hrep.
  destruct (from_prim_ok pb ps w n dst_signed v Hw Hpb Hv) as (r & Hr & Hwfr & Hu).
  exists r. split; [exact Hr|]. split; [exact Hwfr|].
  pose proof (Mod_pos w n ltac:(lia)) as HM. pose proof (Mod_even w n Hw Hn) as He.
  unfold source_value. destruct dst_signed.
  - unfold sval. rewrite (wf_length _ _ _ Hwfr), Hu. rewrite to_signed_of_mod by auto. apply wrapS_id; auto.
  - rewrite Hu. apply Z.mod_small. exact Hrep.
Qed.

(* bnum -> primitive: the value of `x as iN / uN` *)
Definition prim_wrap (pb : Z) (ps : bool) (x : Z) : Z :=
  if ps then wrapS (2 ^ pb) x else wrapU (2 ^ pb) x.

Lemma p_of_bits_wrap pb ps x : 0 < pb -> p_of_bits pb ps (x mod 2 ^ pb) = prim_wrap pb ps x.
Proof.
  intros Hpb. unfold p_of_bits, prim_wrap, wrapU, sd. change (B pb) with (2 ^ pb). destruct ps; [|reflexivity].
  pose proof (pow2_pos pb ltac:(lia)).
  apply to_signed_of_mod; [lia|].
  replace pb with (1 + (pb - 1)) at 1 2 by lia. rewrite pow2_add by lia. change (2 ^ 1) with 2.
  rewrite (Z.mul_comm 2), Z.div_mul by lia. lia.
Qed.

Theorem to_prim_ok dbg pb ps w n src_signed a :
  0 < w -> 0 < pb -> (0 < n)%nat -> wf w n a ->
  exists r, to_prim dbg pb ps w src_signed a = Ret r /\
            r = prim_wrap pb ps (source_value src_signed w a) /\
            prim_range pb ps r /\ r mod 2 ^ pb = source_value src_signed w a mod 2 ^ pb.
Proof.
  intros Hw Hpb Hn Hwf. unfold to_prim, source_value, I_as_int, U_as_int. destruct src_signed.
  - rewrite (I_as_int_bits_ok dbg pb w n a Hw Hpb Hn Hwf). cbn [omap]. eexists; split; [reflexivity|].
    split; [apply p_of_bits_wrap; auto | apply p_of_bits_ok; auto].
  - rewrite (U_as_int_bits_ok dbg pb w n a Hw Hpb Hwf). cbn [omap]. eexists; split; [reflexivity|].
    split; [apply p_of_bits_wrap; auto | apply p_of_bits_ok; auto].
Qed.

Theorem to_prim_preserves_value dbg pb ps w n src_signed a :
  0 < w -> 0 < pb -> (0 < n)%nat -> wf w n a -> prim_range pb ps (source_value src_signed w a) ->
  to_prim dbg pb ps w src_signed a = Ret (source_value src_signed w a).
Proof.
  intros Hw Hpb Hn Hwf Hrep.
  destruct (to_prim_ok dbg pb ps w n src_signed a Hw Hpb Hn Hwf) as (r & Hr & Er & _).
  rewrite Hr, Er. f_equal. unfold prim_wrap, prim_range in *. pose proof (pow2_pos pb ltac:(lia)).
  assert (He : 2 ^ pb = 2 * 2 ^ (pb - 1)).
  { replace pb with (1 + (pb - 1)) at 1 by lia. rewrite pow2_add by lia. reflexivity. }
  assert (Hh : 2 ^ pb / 2 = 2 ^ (pb - 1)) by (rewrite He, Z.mul_comm, Z.div_mul by lia; reflexivity).
  destruct ps.
  - apply wrapS_id; [lia | lia | rewrite Hh; exact Hrep].
  - unfold wrapU. apply Z.mod_small. exact Hrep.
Qed.

(* bool, char *)
Theorem from_bool_ok w n (dst_signed b : bool) : 0 < w ->
  let r := if dst_signed then I_from_bool n b else U_from_bool n b in
  wf w n r /\ uval w r = (if b then 1 else 0) mod Mod w n.
Proof.
  intros Hw r. assert (E : r = U_from_bool n b) by (unfold r, I_from_bool, from_bits; destruct dst_signed; reflexivity).
  rewrite E. unfold U_from_bool, ONE, ZERO, from_digit. pose proof (B_ge_2 w Hw) as HB.
  destruct b.
  - destruct n as [|k].
    + split; [apply wf_nil|]. rewrite Mod_0, Z.mod_1_r. reflexivity.
    + split.
      * apply wf_cons. split; [unfold digit_ok; lia | apply wf_repeat; apply zero_ok; lia].
      * cbn [uval]. rewrite uval_repeat_0. rewrite Mod_S by lia. pose proof (Mod_pos w k ltac:(lia)).
        rewrite Z.mod_small by nia. lia.
  - split; [apply wf_repeat; apply zero_ok; lia|]. rewrite uval_repeat_0.
    symmetry. apply Z.mod_0_l. pose proof (Mod_pos w n ltac:(lia)). lia.
Qed.

(* a char is a Unicode scalar value: below 2^21, a fortiori a u32 *)
Theorem from_char_ok w n (dst_signed : bool) c : 0 < w -> 0 <= c < 1114112 ->
  exists r, (if dst_signed then I_from_char w n c else U_from_char w n c) = Ret r /\
            wf w n r /\ uval w r = c mod Mod w n.
Proof.
  intros Hw Hc. unfold I_from_char. rewrite omap_from_bits. unfold U_from_char.
  assert (H : exists r, U_from_int 32 w n c = Ret r /\ wf w n r /\ uval w r = c mod Mod w n).
  { apply U_from_int_ok; [lia | lia |]. intros Hle. pose proof (pow2_le 32 w ltac:(lia)).
    change (2 ^ 32) with 4294967296 in *. lia. }
  destruct dst_signed; exact H.
Qed.

(* reinterpretations: the digit array is unchanged *)
Theorem reinterpret_id a :
  cast_signed a = a /\ cast_unsigned a = a /\ to_bits a = a /\ from_bits a = a.
Proof. repeat split; reflexivity. Qed.

(* same bit pattern, read with the other signedness: values agree modulo 2^BITS *)
Theorem reinterpret_value w n a : 0 < w -> wf w n a ->
  sval w (cast_signed a) mod Mod w n = uval w a mod Mod w n /\
  uval w (cast_unsigned a) mod Mod w n = sval w a mod Mod w n.
Proof.
  intros Hw Hwf. unfold cast_signed, cast_unsigned, from_bits, to_bits.
  rewrite (sval_mod w n a Hw Hwf). split; reflexivity.
Qed.

(* totality of the remaining entry points *)
Theorem to_prim_total dbg pb ps w n src_signed a :
  0 < w -> 0 < pb -> (0 < n)%nat -> wf w n a -> to_prim dbg pb ps w src_signed a <> Panic.
Proof.
  intros Hw Hpb Hn Hwf. destruct (to_prim_ok dbg pb ps w n src_signed a Hw Hpb Hn Hwf) as (r & Hr & _).
  rewrite Hr. discriminate.
Qed.

Theorem from_prim_total pb ps w n dst_signed v :
  0 < w -> 0 < pb -> prim_range pb ps v -> from_prim pb w n dst_signed v <> Panic.
Proof.
  intros Hw Hpb Hv. destruct (from_prim_ok pb ps w n dst_signed v Hw Hpb Hv) as (r & Hr & _).
  rewrite Hr. discriminate.
Qed.

(* ================================================================== *)
(** * 13. The divisibility hypothesis for the digit types that exist *)

(* same digit type: no hypothesis on the width *)
Theorem cast_same_digit_ok dbg w n n' src_signed dst_signed a :
  0 < w -> (0 < n)%nat -> (0 < n')%nat -> wf w n a ->
  exists r, cast dbg w w n' src_signed dst_signed a = Ret r /\ wf w n' r /\
            uval w r = source_value src_signed w a mod Mod w n'.
Proof.
  intros Hw Hn Hn' Hwf. apply (cast_ok dbg w n w n'); auto. left. apply Z.divide_refl.
Qed.

(* Rust's digit types have power-of-two widths (8, 16, 32, 64): one always divides the other *)
Lemma pow2_divide k k' : 0 <= k -> 0 <= k' -> (2 ^ k' | 2 ^ k) \/ (2 ^ k | 2 ^ k').
Proof.
  intros Hk Hk'. destruct (Z_le_gt_dec k k').
  - right. exists (2 ^ (k' - k)). rewrite <- pow2_add by lia. f_equal. lia.
  - left. exists (2 ^ (k - k')). rewrite <- pow2_add by lia. f_equal. lia.
Qed.

Theorem cast_pow2_ok dbg k n k' n' src_signed dst_signed a :
  0 <= k -> 0 <= k' -> (0 < n)%nat -> (0 < n')%nat -> wf (2 ^ k) n a ->
  exists r, cast dbg (2 ^ k) (2 ^ k') n' src_signed dst_signed a = Ret r /\ wf (2 ^ k') n' r /\
            uval (2 ^ k') r = source_value src_signed (2 ^ k) a mod Mod (2 ^ k') n'.
Proof.
  intros Hk Hk' Hn Hn' Hwf.
  apply (cast_ok dbg (2 ^ k) n (2 ^ k') n'); auto using pow2_pos, pow2_divide.
Qed.

(* Proofs/Cast.v — Model/Cast.v = specification, for all digit widths, digit counts and inputs.
   Specification of every cast: the target holds (source value) mod 2^(target BITS), where the
   source value is uval (unsigned source) or sval (signed source); no model function can Panic. *)
From Bnum Require Import Base Prim.
From Bnum.Model Require Import Core Cast.
From Bnum.Proofs Require Import CastLemmas.

Local Open Scope Z_scope.

(* ================================================================== *)
(** * 6. Same digit type: cast_up, cast_down *)

Lemma cast_up_ok src m d : (length src < m)%nat ->
  cast_up src m d = Ret (src ++ repeat d (m - length src)).
Proof.
  intros Hlt. unfold cast_up, usize_sub.
  destruct (Nat.leb_spec (length src) m); [|lia]. cbn [obind].
  set (n := length src) in *. set (off := (m - n)%nat).
  pose (P := fun (i : nat) (digits : list Z) =>
               (off <= i <= m)%nat /\ digits = firstn (i - off) src ++ repeat d (m - (i - off))).
  destruct (while_inv P (fun i _ => (i <? m)%nat)
              (fun i digits => obind (if (off <=? i)%nat then Ret (i - off)%nat else Panic) (fun index =>
                               obind (rd src index) (fun d0 => wr digits index d0))) m) with
      (fuel := m) (i := off) (s := repeat d m) as (i' & s' & Hrun & [Hi' Hs'] & Hc).
  - intros i digits [Hi Hd] Hc. apply Nat.ltb_lt in Hc. split; [exact Hc|].
    destruct (Nat.leb_spec off i); [|lia]. cbn [obind].
    assert (Hidx : (i - off < n)%nat) by (unfold off; lia).
    rewrite rd_ok by (fold n; lia). cbn [obind].
    replace (m - (i - off))%nat with (S (m - (i - off) - 1)) in Hd by lia.
    assert (Hlen : length (firstn (i - off) src) = (i - off)%nat) by (apply firstn_length_le; fold n; lia).
    rewrite Hd. rewrite (wr_prefix _ _ _ _ _ Hlen). eexists; split; [reflexivity|].
    split; [lia|]. replace (S i - off)%nat with (S (i - off)) by lia.
    rewrite firstn_snoc by (fold n; lia). f_equal. f_equal. lia.
  - lia.
  - split; [unfold off; lia|]. rewrite Nat.sub_diag. cbn [firstn app]. f_equal. lia.
  - rewrite Hrun. apply Nat.ltb_ge in Hc. f_equal. rewrite Hs'.
    replace (i' - off)%nat with n by (unfold off; lia).
    unfold n, off. rewrite firstn_all. reflexivity.
Qed.

Lemma cast_down_ok src m : (m <= length src)%nat -> cast_down src m = Ret (firstn m src).
Proof.
  intros Hle. unfold cast_down, ZERO.
  pose (P := fun (i : nat) (out : list Z) => (i <= m)%nat /\ out = firstn i src ++ repeat 0 (m - i)).
  destruct (while_inv P (fun i _ => (i <? m)%nat)
              (fun i out => obind (rd src i) (fun d0 => wr out i d0)) m) with
      (fuel := m) (i := 0%nat) (s := repeat 0 m) as (i' & s' & Hrun & [Hi' Hs'] & Hc).
  - intros i out [Hi Hd] Hc. apply Nat.ltb_lt in Hc. split; [exact Hc|].
    rewrite rd_ok by lia. cbn [obind].
    replace (m - i)%nat with (S (m - i - 1)) in Hd by lia.
    assert (Hlen : length (firstn i src) = i) by (apply firstn_length_le; lia).
    rewrite Hd. rewrite (wr_prefix _ _ _ _ _ Hlen). eexists; split; [reflexivity|].
    split; [lia|]. rewrite firstn_snoc by lia. f_equal. f_equal. lia.
  - lia.
  - split; [lia|]. cbn [firstn app]. f_equal. lia.
  - rewrite Hrun. apply Nat.ltb_ge in Hc. f_equal. rewrite Hs'.
    replace i' with m by lia. rewrite Nat.sub_diag. cbn [repeat]. apply app_nil_r.
Qed.

Lemma Mod_le w a b : 0 <= w -> (a <= b)%nat -> Mod w a <= Mod w b.
Proof. intros. unfold Mod. apply pow2_le. nia. Qed.

Lemma Mod_split w a b : 0 <= w -> (a <= b)%nat -> Mod w b = Mod w a * Mod w (b - a).
Proof. intros. rewrite <- Mod_add by lia. f_equal. lia. Qed.

(* zero / sign extension by whole digits *)
Lemma extend_ok w n n' a (neg : bool) : 0 < w -> (n <= n')%nat -> wf w n a ->
  let r := a ++ repeat (if neg then u_max w else 0) (n' - n) in
  wf w n' r /\ uval w r = uval w a + (if neg then Mod w n' - Mod w n else 0).
Proof.
  intros Hw Hn H r. split.
  - replace n' with (n + (n' - n))%nat by lia. apply wf_app; auto.
    apply wf_repeat. destruct neg; [apply u_max_ok | apply zero_ok]; lia.
  - unfold r. rewrite uval_app by lia. rewrite (wf_length _ _ _ H).
    destruct neg.
    + rewrite uval_repeat_max by lia. rewrite (Mod_split w n n') by lia. lia.
    + rewrite uval_repeat_0. lia.
Qed.

Theorem U_cast_U_ok w n n' a : 0 < w -> wf w n a ->
  exists r, U_cast_U a n' = Ret r /\ wf w n' r /\ uval w r = uval w a mod Mod w n'.
Proof.
  intros Hw H. unfold U_cast_U. rewrite (wf_length _ _ _ H).
  pose proof (uval_bounds w n a ltac:(lia) H) as Hb.
  destruct (Nat.ltb_spec n n').
  - rewrite cast_up_ok by (rewrite (wf_length _ _ _ H); lia). rewrite (wf_length _ _ _ H).
    eexists; split; [reflexivity|].
    destruct (extend_ok w n n' a false Hw ltac:(lia) H) as [Hwf Hv]. split; [exact Hwf|].
    cbv zeta in Hv. rewrite Hv. pose proof (Mod_le w n n' ltac:(lia) ltac:(lia)).
    rewrite Z.mod_small; lia.
  - rewrite cast_down_ok by (rewrite (wf_length _ _ _ H); lia).
    eexists; split; [reflexivity|]. apply (uval_firstn w n); auto.
Qed.

Theorem U_cast_I_ok w n n' a : 0 < w -> (0 < n)%nat -> wf w n a ->
  exists r, U_cast_I w a n' = Ret r /\ wf w n' r /\ uval w r = sval w a mod Mod w n'.
Proof.
  intros Hw Hn H. unfold U_cast_I, to_bits. rewrite (wf_length _ _ _ H).
  pose proof (uval_bounds w n a ltac:(lia) H) as Hb.
  destruct (Nat.ltb_spec n n').
  - rewrite cast_up_ok by (rewrite (wf_length _ _ _ H); lia). rewrite (wf_length _ _ _ H).
    eexists; split; [reflexivity|].
    destruct (extend_ok w n n' a (is_negative w a) Hw ltac:(lia) H) as [Hwf Hv]. split; [exact Hwf|].
    cbv zeta in Hv. rewrite Hv. pose proof (Mod_le w n n' ltac:(lia) ltac:(lia)).
    destruct (sval_cases w n a Hw Hn H) as [(-> & Es & Hr) | (-> & Es & Hr)]; rewrite Es.
    + rewrite Z.mod_small; lia.
    + symmetry. apply mod_intro with (q := -1); lia.
  - rewrite cast_down_ok by (rewrite (wf_length _ _ _ H); lia).
    eexists; split; [reflexivity|]. destruct (uval_firstn w n a n' Hw H ltac:(lia)) as [Hwf Hv].
    split; [exact Hwf|]. rewrite Hv.
    pose proof (sval_mod w n a Hw H) as Hs.
    unfold Mod in *.
    rewrite <- (mod_mod_pow2 (sval w a) (w * Z.of_nat n') (w * Z.of_nat n)) by nia.
    rewrite Hs. rewrite mod_mod_pow2 by nia. reflexivity.
Qed.

(* ================================================================== *)
(** * 7. Different digit types: splitting wide digits *)

Lemma shr_chk_ok dbg bits x s : s < bits -> shr_chk dbg bits x s = Ret (x / 2 ^ s).
Proof. intros. unfold shr_chk, u_shr. destruct (Z.ltb_spec s bits); [reflexivity | lia]. Qed.

Lemma shl_chk_ok dbg bits x s : s < bits -> shl_chk dbg bits x s = Ret ((x * 2 ^ s) mod 2 ^ bits).
Proof. intros. unfold shl_chk, u_shl, B. destruct (Z.ltb_spec s bits); [reflexivity | lia]. Qed.

Lemma split_while_ok dbg w w' dc src n n' stop V neg :
  0 < w' -> (0 < dc)%nat -> w = Z.of_nat dc * w' -> wf w n src ->
  (stop <= n')%nat -> (stop <= n * dc)%nat ->
  V mod 2 ^ (w' * Z.of_nat stop) = uval w src mod 2 ^ (w' * Z.of_nat stop) ->
  high_pad V (w' * Z.of_nat stop) (w' * Z.of_nat n') neg ->
  while_ stop (fun i _ => (i <? stop)%nat) (split_body dbg w w' dc src) 0%nat
         (repeat (if neg then u_max w' else 0) n') = Ret (digits_of w' n' V).
Proof.
  intros Hw' Hdc Hw Hwf Hs1 Hs2 Hagree Hpad.
  assert (Hw0 : 0 < w) by nia.
  set (pad := if neg then u_max w' else 0). set (X := uval w src) in *.
  pose (P := fun (i : nat) (out : list Z) =>
               (i <= stop)%nat /\ out = digits_of w' i V ++ repeat pad (n' - i)).
  destruct (while_inv P (fun i _ => (i <? stop)%nat) (split_body dbg w w' dc src) stop) with
      (fuel := stop) (i := 0%nat) (s := repeat pad n') as (i' & s' & Hrun & [Hi' Hs'] & Hc).
  - intros i out [Hi Hout] Hc. apply Nat.ltb_lt in Hc. split; [exact Hc|].
    destruct (divmod_nat i dc Hdc) as [Ei Hm]. set (j := (i / dc)%nat) in *. set (m := (i mod dc)%nat) in *.
    assert (Hj : (j < n)%nat) by (apply div_lt_nat; lia).
    unfold split_body. fold j m.
    rewrite rd_ok by (rewrite (wf_length _ _ _ Hwf); exact Hj). cbn [obind].
    rewrite shr_chk_ok by nia. cbn [obind].
    rewrite (nth_bf w n src j Hw0 Hwf Hj). fold X.
    assert (Ed : ud w' (bf X (w * Z.of_nat j) w / 2 ^ (Z.of_nat m * w')) = bf V (w' * Z.of_nat i) w').
    { unfold ud, B. change ((bf X (w * Z.of_nat j) w / 2 ^ (Z.of_nat m * w')) mod 2 ^ w')
        with (bf (bf X (w * Z.of_nat j) w) (Z.of_nat m * w') w').
      rewrite bf_bf by nia.
      replace (w * Z.of_nat j + Z.of_nat m * w') with (w' * Z.of_nat i) by nia.
      symmetry. apply (bf_congr V X (w' * Z.of_nat stop)); auto; nia. }
    rewrite Ed.
    replace (n' - i)%nat with (S (n' - i - 1)) in Hout by lia.
    rewrite Hout. rewrite (wr_prefix _ _ _ _ _ (digits_of_length w' i V)).
    eexists; split; [reflexivity|]. split; [lia|].
    rewrite digits_of_snoc by lia. f_equal. f_equal. lia.
  - lia.
  - split; [lia|]. cbn [digits_of app]. f_equal. lia.
  - rewrite Hrun. apply Nat.ltb_ge in Hc. f_equal. rewrite Hs'.
    replace i' with stop by lia. symmetry. apply digits_of_pad; auto.
    apply high_pad_above; auto; lia.
Qed.

(* ================================================================== *)
(** * 8. Different digit types: packing narrow digits *)

(* what the accumulation statement must do: deposit d at field m of the accumulator *)
Definition comb_spec (neg : bool) (w w' : Z) (dc : nat) (comb : Z -> Z -> nat -> outcome Z) : Prop :=
  forall (m : nat) low d, (m < dc)%nat -> 0 <= low < 2 ^ (w * Z.of_nat m) -> 0 <= d < 2 ^ w ->
    comb (low + hi neg w' (w * Z.of_nat m)) d m
    = Ret (low + d * 2 ^ (w * Z.of_nat m) + hi neg w' (w * Z.of_nat (S m))).

Lemma pack_or_spec dbg w w' dc : 0 < w -> w' = Z.of_nat dc * w -> comb_spec false w w' dc (pack_or dbg w w').
Proof.
  intros Hw Hw' m low d Hm Hlow Hd. unfold hi, pack_or. rewrite !Z.add_0_r.
  assert (Hle : w * Z.of_nat m + w <= w') by nia.
  rewrite shl_chk_ok by nia. cbn [obind]. f_equal.
  pose proof (pow2_pos (w * Z.of_nat m) ltac:(nia)) as Hp.
  pose proof (pow2_le (w * Z.of_nat m + w) w' ltac:(nia)) as Hq. rewrite pow2_add in Hq by nia.
  unfold ud, B. rewrite (Z.mod_small d) by (pose proof (pow2_le w w' ltac:(nia)); lia).
  replace (Z.of_nat m * w) with (w * Z.of_nat m) by lia.
  rewrite Z.mod_small by nia.
  unfold u_or. apply lor_low_high; nia.
Qed.

Lemma pack_and_spec dbg w w' dc : 0 < w -> w' = Z.of_nat dc * w -> comb_spec true w w' dc (pack_and dbg w w').
Proof.
  intros Hw Hw' m low d Hm Hlow Hd. unfold hi, pack_and.
  assert (Hle : w * Z.of_nat m + w <= w') by nia.
  rewrite shl_chk_ok by nia. cbn [obind]. f_equal.
  pose proof (pow2_pos (w * Z.of_nat m) ltac:(nia)) as Hp.
  pose proof (pow2_le (w * Z.of_nat m + w) w' ltac:(nia)) as Hq. rewrite pow2_add in Hq by nia.
  unfold ud, u_not, B.
  rewrite (Z.mod_small (2 ^ w - 1 - d)) by (pose proof (pow2_le w w' ltac:(nia)); lia).
  replace (Z.of_nat m * w) with (w * Z.of_nat m) by lia.
  rewrite Z.mod_small by nia.
  unfold u_and. rewrite land_clear by nia.
  replace (w * Z.of_nat (S m)) with (w * Z.of_nat m + w) by lia. rewrite pow2_add by nia. lia.
Qed.

Lemma pack_while_ok w w' dc src n n' stop V neg comb :
  0 < w -> (0 < dc)%nat -> w' = Z.of_nat dc * w -> wf w n src ->
  (0 < stop <= n)%nat -> (forall i, (i < stop)%nat -> (i / dc < n')%nat) ->
  V mod 2 ^ (w * Z.of_nat stop) = uval w src mod 2 ^ (w * Z.of_nat stop) ->
  high_pad V (w * Z.of_nat stop) (w' * Z.of_nat n') neg ->
  comb_spec neg w w' dc comb ->
  omap fst (while_ stop (fun i _ => (i <? stop)%nat) (pack_body dc stop src (hi neg w' 0) comb) 0%nat
                   (repeat (if neg then u_max w' else 0) n', hi neg w' 0))
  = Ret (digits_of w' n' V).
Proof.
  intros Hw Hdc Hw' Hwf Hstop Hj Hagree Hpad Hcomb.
  assert (Hw'0 : 0 < w') by nia.
  set (pad := if neg then u_max w' else 0). set (X := uval w src) in *. set (init := hi neg w' 0).
  pose (P := fun (i : nat) (st : list Z * Z) =>
               (i <= stop)%nat /\
               ((i < stop)%nat /\
                fst st = digits_of w' (i / dc) V ++ repeat pad (n' - i / dc) /\
                snd st = bf V (w' * Z.of_nat (i / dc)) (w * Z.of_nat (i mod dc)) + hi neg w' (w * Z.of_nat (i mod dc))
                \/ i = stop /\ fst st = digits_of w' n' V)).
  destruct (while_inv P (fun i _ => (i <? stop)%nat) (pack_body dc stop src init comb) stop) with
      (fuel := stop) (i := 0%nat) (s := (repeat pad n', init)) as (i' & s' & Hrun & [Hi' Hs'] & Hc).
  - intros i [out cur] [Hi Hinv] Hc. apply Nat.ltb_lt in Hc. split; [exact Hc|].
    destruct Hinv as [(_ & Hout & Hcur) | [Habs _]]; [|lia]. cbn [fst snd] in Hout, Hcur.
    destruct (divmod_nat i dc Hdc) as [Ei Hm]. pose proof (Hj i Hc) as Hjn.
    pose proof (succ_div_mod i dc Hdc) as Hsucc.
    set (j := (i / dc)%nat) in *. set (m := (i mod dc)%nat) in *.
    unfold pack_body. fold m j.
    rewrite rd_ok by (rewrite (wf_length _ _ _ Hwf); lia). cbn [obind].
    assert (Hd : nth i src 0 = bf V (w * Z.of_nat i) w).
    { rewrite (nth_bf w n src i Hw Hwf ltac:(lia)). fold X.
      symmetry. apply (bf_congr V X (w * Z.of_nat stop)); auto; nia. }
    rewrite Hd, Hcur.
    rewrite Hcomb; [| exact Hm | apply bf_range; nia | apply bf_range; lia]. cbn [obind].
    assert (Elow : bf V (w' * Z.of_nat j) (w * Z.of_nat m) + bf V (w * Z.of_nat i) w * 2 ^ (w * Z.of_nat m)
                   = bf V (w' * Z.of_nat j) (w * Z.of_nat (S m))).
    { replace (w * Z.of_nat (S m)) with (w * Z.of_nat m + w) by lia.
      rewrite bf_split by nia. replace (w' * Z.of_nat j + w * Z.of_nat m) with (w * Z.of_nat i) by nia. lia. }
    rewrite Elow.
    (* the value of a finished target digit *)
    assert (Efull : forall r, w * Z.of_nat (S m) + r = w' ->
                      (r = 0 \/ S i = stop) ->
                      bf V (w' * Z.of_nat j) (w * Z.of_nat (S m)) + hi neg w' (w * Z.of_nat (S m))
                      = bf V (w' * Z.of_nat j) w').
    { intros r Er Hr.
      replace (bf V (w' * Z.of_nat j) w') with (bf V (w' * Z.of_nat j) (w * Z.of_nat (S m) + r)) by (f_equal; lia).
      rewrite bf_split by nia.
      replace (w' * Z.of_nat j + w * Z.of_nat (S m)) with (w * Z.of_nat (S i)) by nia.
      destruct Hr as [-> | Hlast].
      - rewrite bf_0. unfold hi. replace (w * Z.of_nat (S m)) with w' by lia. destruct neg; lia.
      - assert (Ei' : w * Z.of_nat (S i) = w' * Z.of_nat j + w * Z.of_nat (S m)) by nia.
        assert (w' * Z.of_nat j + w' <= w' * Z.of_nat n') by nia.
        assert (0 <= r) by nia.
        rewrite Hlast in Ei' |- *.
        rewrite (high_pad_bf V (w * Z.of_nat stop) (w' * Z.of_nat n') neg r) by (auto; first [lia | nia]).
        unfold hi. destruct neg; [|lia].
        replace (2 ^ w') with (2 ^ (w * Z.of_nat (S m)) * 2 ^ r) by (rewrite <- pow2_add by nia; f_equal; lia). lia. }
    assert (Hflush : forall out', out' = digits_of w' (S j) V ++ repeat pad (n' - S j) -> S i = stop ->
                                  out' = digits_of w' n' V).
    { intros out' -> Hlast. symmetry. apply digits_of_pad; [lia | lia |].
      apply high_pad_above; [lia|lia|]. apply (high_pad_mono V (w * Z.of_nat stop)); auto; nia. }
    assert (Hwr : forall c, wr out j c = Ret ((digits_of w' j V ++ [c]) ++ repeat pad (n' - S j))).
    { intros c. rewrite Hout. replace (n' - j)%nat with (S (n' - S j)) by lia.
      apply wr_prefix. apply digits_of_length. }
    destruct (Nat.eqb_spec m (dc - 1)) as [Em | Em]; cbn [orb].
    + (* a full digit *)
      destruct Hsucc as [Hsj Hsm].
      rewrite (Efull 0) by (first [nia | auto]).
      rewrite Hwr. cbn [obind]. eexists; split; [reflexivity|]. split; [lia|].
      rewrite <- digits_of_snoc by lia.
      destruct (Nat.eq_dec (S i) stop) as [Hlast | Hnl].
      * right. split; [exact Hlast|]. cbn [fst]. apply Hflush; auto.
      * left. split; [lia|]. cbn [fst snd]. rewrite Hsj, Hsm. split; [reflexivity|].
        rewrite Z.mul_0_r, bf_0. reflexivity.
    + destruct Hsucc as [Hsj Hsm].
      destruct (Nat.eqb_spec i (stop - 1)) as [Hl | Hnl].
      * (* the last, partial digit *)
        assert (Hlast : S i = stop) by lia.
        rewrite (Efull (w' - w * Z.of_nat (S m))) by (first [lia | auto]).
        rewrite Hwr. cbn [obind]. eexists; split; [reflexivity|]. split; [lia|].
        rewrite <- digits_of_snoc by lia.
        right. split; [exact Hlast|]. cbn [fst]. apply Hflush; auto.
      * eexists; split; [reflexivity|]. split; [lia|]. left. split; [lia|]. cbn [fst snd].
        rewrite Hsj, Hsm. split; [exact Hout | reflexivity].
  - lia.
  - split; [lia|]. left. split; [lia|]. cbn [fst snd].
    rewrite Nat.div_0_l, Nat.mod_0_l by lia. cbn [digits_of app]. split; [f_equal; lia|].
    change (Z.of_nat 0) with 0. rewrite !Z.mul_0_r, bf_0. reflexivity.
  - rewrite Hrun. cbn [omap]. apply Nat.ltb_ge in Hc. f_equal.
    destruct Hs' as [(Hlt & _) | (_ & Hfin)]; [lia | exact Hfin].
Qed.

(* ================================================================== *)
(** * 9. Different digit types: the four impls *)

Lemma trunc_facts X T : 0 <= T ->
  (X mod 2 ^ T) mod 2 ^ T = X mod 2 ^ T /\ high_pad (X mod 2 ^ T) T T false.
Proof.
  intros. pose proof (pow2_pos T ltac:(lia)). split; [apply Z.mod_mod; lia|].
  unfold high_pad. apply Z.div_small. apply Z.mod_pos_bound; lia.
Qed.

Lemma widen_facts X L T : 0 <= X < 2 ^ L -> high_pad X L T false.
Proof. intros. unfold high_pad. apply Z.div_small; lia. Qed.

Lemma neg_facts X L T : 0 <= L <= T -> 0 <= X < 2 ^ L ->
  let V := X + 2 ^ T - 2 ^ L in
  V mod 2 ^ L = X mod 2 ^ L /\ high_pad V L T true /\ 0 <= V < 2 ^ T.
Proof.
  intros HL HX V. pose proof (pow2_pos L ltac:(lia)). pose proof (pow2_pos (T - L) ltac:(lia)).
  assert (EV : V = X + (2 ^ (T - L) - 1) * 2 ^ L).
  { unfold V. rewrite (pow2_split L T) by lia. lia. }
  split; [|split].
  - rewrite EV. apply Z_mod_plus_full.
  - unfold high_pad. rewrite EV. rewrite Z.div_add by lia. rewrite Z.div_small by lia. lia.
  - rewrite EV. rewrite (pow2_split L T) by lia. nia.
Qed.

Lemma digits_of_result w n V : 0 < w -> 0 <= V < Mod w n ->
  wf w n (digits_of w n V) /\ uval w (digits_of w n V) = V.
Proof.
  intros. split; [apply digits_of_wf; lia|]. rewrite digits_of_uval by lia. apply Z.mod_small; lia.
Qed.

(* the quotient of the digit widths as a digit count *)
Lemma divide_count a b : 0 < b -> (b | a) -> 0 < a ->
  a = Z.of_nat (Z.to_nat (a / b)) * b /\ (0 < Z.to_nat (a / b))%nat.
Proof.
  intros Hb [q Hq] Ha. subst a. rewrite Z.div_mul by lia. assert (0 < q) by nia. split; lia.
Qed.

Lemma divide_le a b : 0 < a -> 0 < b -> (a | b) -> a <= b.
Proof. intros Ha Hb [q Hq]. subst b. assert (0 < q) by nia. nia. Qed.

(* unsigned source: the result holds uval mod 2^(target BITS) *)
Theorem U_castd_U_ok dbg w n w' n' a :
  0 < w -> 0 < w' -> (0 < n)%nat -> (0 < n')%nat -> (w' | w) \/ (w | w') -> wf w n a ->
  exists r, U_castd_U dbg w a w' n' = Ret r /\ wf w' n' r /\ uval w' r = uval w a mod Mod w' n'.
Proof.
  intros Hw Hw' Hn Hn' Hdiv Hwf.
  set (X := uval w a). set (T := w' * Z.of_nat n'). set (V := X mod 2 ^ T).
  pose proof (uval_bounds w n a ltac:(lia) Hwf) as HX. fold X in HX. unfold Mod in HX.
  assert (HT : 0 <= T) by (unfold T; nia).
  pose proof (pow2_pos T HT) as HpT.
  assert (HV : 0 <= V < Mod w' n') by (unfold V, Mod; fold T; apply Z.mod_pos_bound; lia).
  exists (digits_of w' n' V).
  split; [| replace (X mod Mod w' n') with V by reflexivity; apply digits_of_result; auto].
  unfold U_castd_U, ZERO.
  destruct (Z.ltb_spec w' w) as [Hlt | Hge].
  - (* split *)
    assert (Hd : (w' | w)) by (destruct Hdiv as [D | D]; [exact D | apply divide_le in D; lia]).
    destruct (divide_count w w' Hw' Hd Hw) as [Ew Hdc].
    unfold split_loop. rewrite (wf_length _ _ _ Hwf). set (dc := Z.to_nat (w / w')) in *.
    unfold split_stop, bits. fold T.
    destruct (Z.ltb_spec T (w * Z.of_nat n)) as [Htr | Hwd].
    + destruct (trunc_facts X T HT) as [F1 F2].
      apply (split_while_ok dbg w w' dc a n n' n' V false); auto; try lia.
      unfold T in Htr. nia.
    + assert (EL : w' * Z.of_nat (n * dc) = w * Z.of_nat n) by nia.
      assert (EV : V = X) by (unfold V; apply Z.mod_small; split; [lia|]; eapply Z.lt_le_trans; [apply HX|]; apply pow2_le; nia).
      apply (split_while_ok dbg w w' dc a n n' (n * dc)%nat V false); auto; try lia.
      * unfold T in Hwd. nia.
      * rewrite EV. reflexivity.
      * rewrite EL, EV. apply widen_facts. exact HX.
  - (* pack *)
    assert (Hd : (w | w')) by (destruct Hdiv as [D | D]; [apply divide_le in D; auto; assert (w = w') by lia; subst; apply Z.divide_refl | exact D]).
    destruct (divide_count w' w Hw Hd Hw') as [Ew Hdc].
    unfold pack_loop. rewrite (wf_length _ _ _ Hwf). set (dc := Z.to_nat (w' / w)) in *.
    unfold pack_stop, bits. fold T.
    change 0 with (hi false w' 0) at 2 3.
    destruct (Z.ltb_spec T (w * Z.of_nat n)) as [Htr | Hwd].
    + destruct (trunc_facts X T HT) as [F1 F2].
      assert (EL : w * Z.of_nat (n' * dc) = T) by (unfold T; nia).
      apply (pack_while_ok w w' dc a n n' (n' * dc)%nat V false); auto.
      * split; [nia|]. unfold T in Htr. nia.
      * intros i Hi. apply div_lt_nat; auto.
      * rewrite EL. exact F1.
      * rewrite EL. exact F2.
      * apply pack_or_spec; auto.
    + assert (EV : V = X) by (unfold V; apply Z.mod_small; split; [lia|]; eapply Z.lt_le_trans; [apply HX|]; apply pow2_le; nia).
      apply (pack_while_ok w w' dc a n n' n V false); auto.
      * intros i Hi. apply div_lt_nat; auto. unfold T in Hwd. nia.
      * rewrite EV. reflexivity.
      * rewrite EV. apply widen_facts. exact HX.
      * apply pack_or_spec; auto.
Qed.

(* signed source: the result holds sval mod 2^(target BITS) *)
Theorem U_castd_I_ok dbg w n w' n' a :
  0 < w -> 0 < w' -> (0 < n)%nat -> (0 < n')%nat -> (w' | w) \/ (w | w') -> wf w n a ->
  exists r, U_castd_I dbg w a w' n' = Ret r /\ wf w' n' r /\ uval w' r = sval w a mod Mod w' n'.
Proof.
  intros Hw Hw' Hn Hn' Hdiv Hwf.
  set (X := uval w a). set (T := w' * Z.of_nat n'). set (L := w * Z.of_nat n).
  pose proof (uval_bounds w n a ltac:(lia) Hwf) as HX. fold X in HX. unfold Mod in HX. fold L in HX.
  assert (HT : 0 <= T) by (unfold T; nia). assert (HL : 0 <= L) by (unfold L; nia).
  pose proof (pow2_pos T HT) as HpT. pose proof (pow2_pos L HL) as HpL.
  unfold U_castd_I, bits. rewrite (wf_length _ _ _ Hwf). fold T L.
  destruct (sval_cases w n a Hw Hn Hwf) as [(Eneg & Es & Hr) | (Eneg & Es & Hr)]; rewrite Eneg; cbn [negb orb].
  - (* non-negative: the unsigned routine, and sval = uval *)
    rewrite Es. apply (U_castd_U_ok dbg w n w' n' a); auto.
  - destruct (Z.leb_spec T L) as [Hle | Hgt].
    + (* not wider: the unsigned routine; sval = uval modulo 2^T *)
      destruct (U_castd_U_ok dbg w n w' n' a Hw Hw' Hn Hn' Hdiv Hwf) as (r & Hr1 & Hr2 & Hr3).
      exists r. split; [exact Hr1|]. split; [exact Hr2|]. rewrite Hr3, Es. fold X. unfold Mod. fold T L.
      rewrite (pow2_split T L) by lia.
      replace (X - 2 ^ T * 2 ^ (L - T)) with (X + (- 2 ^ (L - T)) * 2 ^ T) by lia.
      rewrite Z_mod_plus_full. reflexivity.
    + (* negative and strictly widening: ones above the source *)
      destruct (neg_facts X L T ltac:(lia) HX) as (F1 & F2 & F3). set (V := X + 2 ^ T - 2 ^ L) in *.
      exists (digits_of w' n' V).
      split; [| replace (sval w a mod Mod w' n') with V;
                [apply digits_of_result; auto|] ].
      2: { rewrite Es. fold X. unfold Mod. fold T L. symmetry. apply mod_intro with (q := -1); unfold V; lia. }
      unfold UMAX.
      destruct (Z.ltb_spec w' w) as [Hlt | Hge].
      * assert (Hd : (w' | w)) by (destruct Hdiv as [D | D]; [exact D | apply divide_le in D; lia]).
        destruct (divide_count w w' Hw' Hd Hw) as [Ew Hdc].
        unfold split_loop. rewrite (wf_length _ _ _ Hwf). set (dc := Z.to_nat (w / w')) in *.
        unfold split_stop, bits. fold T L.
        destruct (Z.ltb_spec T L); [lia|].
        assert (EL : w' * Z.of_nat (n * dc) = L) by (unfold L; nia).
        apply (split_while_ok dbg w w' dc a n n' (n * dc)%nat V true); auto; try lia.
        -- unfold T, L in Hgt. nia.
        -- rewrite EL. exact F1.
        -- rewrite EL. exact F2.
      * assert (Hd : (w | w')) by (destruct Hdiv as [D | D]; [apply divide_le in D; auto; assert (w = w') by lia; subst; apply Z.divide_refl | exact D]).
        destruct (divide_count w' w Hw Hd Hw') as [Ew Hdc].
        unfold pack_loop. rewrite (wf_length _ _ _ Hwf). set (dc := Z.to_nat (w' / w)) in *.
        unfold pack_stop, bits. fold T L.
        destruct (Z.ltb_spec T L); [lia|].
        replace (u_max w') with (hi true w' 0) by (unfold hi, u_max, B; rewrite Z.pow_0_r; reflexivity).
        apply (pack_while_ok w w' dc a n n' n V true); auto.
        -- intros i Hi. apply div_lt_nat; auto. unfold T, L in Hgt. nia.
        -- apply pack_and_spec; auto.
Qed.

(* Proofs/Fmt.v — property C12: what the formatting traits hand to std's pad_integral.
   Specification side: canonical numerals of Proofs/RadixSpec.v (canonical_le: digits below the radix,
   positional value, "0" for zero, no leading zero), `trimmed_of` (trailing-character trimming, stated by
   what it produces, not how) and `exp_body_spec` (the d.ddde<k> form).
   Model side: Model/Fmt.v.  The heart is `fmt_method_ok` (hex_concat): the concatenation of the top
   non-zero digit's numeral with the zero-padded numerals of all lower digits is the canonical numeral
   of the whole value. *)
From Bnum Require Import Base Prim.
From Bnum.Model Require Import Digit Core Shift AddSub Mul Div Bits RadixOut Fmt.
From Bnum.Proofs Require Import RadixSpec RadixOutDeps RadixOut.
From Bnum.Proofs Require DivDigit Cmp AddSub.

(* ================= the premises of the radix-output theorems, discharged ================= *)

Lemma radix_div_digit_holds : div_digit_spec.
Proof.
  intros w n a d Hw Ha Hd.
  destruct (DivDigit.div_rem_digit_ok w n a d Hw Ha Hd) as (Hq & He & Hr).
  split; [exact Hq|]. set (q := uval w (fst (div_rem_digit w a d))) in *.
  set (r := snd (div_rem_digit w a d)) in *. split.
  - apply (Z.div_unique_pos (uval w a) d q r); lia.
  - apply (Z.mod_unique_pos (uval w a) d q r); lia.
Qed.

Lemma radix_is_negative_holds : is_negative_spec.
Proof. intros w n a Hw Hn Ha. exact (Cmp.is_negative_ok w n a Hw Hn Ha). Qed.

Lemma radix_unsigned_abs_holds : unsigned_abs_spec.
Proof. intros w n a Hw Hn Ha. exact (AddSub.I_unsigned_abs_ok w n a Hw Hn Ha). Qed.

(* ================= small list facts ================= *)

Lemma len_app (a b : list Z) : len (a ++ b) = len a + len b.
Proof. unfold len. rewrite app_length. lia. Qed.
Lemma len_map (f : Z -> Z) l : len (map f l) = len l.
Proof. unfold len. rewrite map_length. reflexivity. Qed.
Lemma len_rev (l : list Z) : len (rev l) = len l.
Proof. unfold len. rewrite rev_length. reflexivity. Qed.
Lemma len_nonneg (l : list Z) : 0 <= len l.
Proof. unfold len. lia. Qed.
Lemma len_fill_n c k : 0 <= k -> len (fill_n c k) = k.
Proof. intros H. unfold len, fill_n. rewrite repeat_length. lia. Qed.
Lemma fill_n_nonpos c k : k <= 0 -> fill_n c k = [].
Proof.
  intros H. unfold fill_n. replace (Z.to_nat k) with O; [reflexivity|].
  destruct k; cbn; lia.
Qed.

Lemma rev_repeat (c : Z) k : rev (repeat c k) = repeat c k.
Proof.
  induction k as [|k IH]; [reflexivity|]. cbn [repeat rev]. rewrite IH.
  clear IH. induction k as [|k IH]; [reflexivity|]. cbn [repeat app]. f_equal. exact IH.
Qed.
Lemma map_repeat (f : Z -> Z) c k : map f (repeat c k) = repeat (f c) k.
Proof. induction k as [|k IH]; [reflexivity|]. cbn [repeat map]. f_equal. exact IH. Qed.

Lemma list_Z_eqb_eq a b : list_Z_eqb a b = true <-> a = b.
Proof.
  revert b. induction a as [|x a IH]; intros [|y b]; cbn [list_Z_eqb]; split; intros H;
    try reflexivity; try discriminate.
  - apply andb_true_iff in H. destruct H as [H1 H2]. apply Z.eqb_eq in H1. apply IH in H2. congruence.
  - inversion H; subst. rewrite Z.eqb_refl. apply (IH b). reflexivity.
Qed.

Lemma is_nil_false_iff {A} (l : list A) : is_nil l = false <-> l <> [].
Proof. destruct l; cbn; split; congruence. Qed.

(* ================= std's numeral of a primitive: it is the canonical numeral ================= *)

Lemma numeral_le_fuel_spec r : 2 <= r -> forall fuel x, 0 <= x < 2 ^ Z.of_nat fuel ->
  digits_in r (numeral_le_fuel fuel r x) /\ horner_le r (numeral_le_fuel fuel r x) = x /\
  (numeral_le_fuel fuel r x <> [] -> last (numeral_le_fuel fuel r x) 0 <> 0) /\
  (x = 0 -> numeral_le_fuel fuel r x = []).
Proof.
  intros Hr. induction fuel as [|f IH]; intros x Hx.
  - change (Z.of_nat 0) with 0 in Hx. rewrite Z.pow_0_r in Hx. assert (x = 0) by lia. subst x.
    cbn [numeral_le_fuel horner_le]. repeat split; try constructor; congruence.
  - cbn [numeral_le_fuel]. destruct (Z.eqb_spec x 0) as [E|N].
    + subst x. cbn [horner_le]. repeat split; try constructor; congruence.
    + rewrite Nat2Z.inj_succ, Z.pow_succ_r in Hx by lia.
      assert (Hq : 0 <= x / r < 2 ^ Z.of_nat f).
      { split; [apply Z.div_pos; lia|]. apply Z.div_lt_upper_bound; [lia|].
        assert (0 < 2 ^ Z.of_nat f) by (apply Z.pow_pos_nonneg; lia). nia. }
      destruct (IH (x / r) Hq) as (D & V & L & Z0).
      pose proof (Z.mod_pos_bound x r ltac:(lia)) as Hm.
      split; [constructor; [lia | exact D]|]. split.
      * cbn [horner_le]. rewrite V. pose proof (Z.div_mod x r ltac:(lia)). lia.
      * split; [|intros; lia]. intros _.
        destruct (numeral_le_fuel f r (x / r)) as [|y t] eqn:E.
        -- cbn [last]. cbn [horner_le] in V. pose proof (Z.div_mod x r ltac:(lia)). lia.
        -- rewrite last_cons_nonempty by discriminate. apply L. discriminate.
Qed.

Lemma prim_numeral_canonical r x : 2 <= r -> 0 <= x -> canonical_le r x (prim_numeral_le r x).
Proof.
  intros Hr Hx. unfold prim_numeral_le.
  assert (Hb : 0 <= x < 2 ^ Z.of_nat (S (Z.to_nat (Z.log2 x)))).
  { split; [exact Hx|]. rewrite Nat2Z.inj_succ, Z2Nat.id by apply Z.log2_nonneg.
    destruct (Z.eq_dec x 0) as [->|N]; [cbn; lia|]. apply Z.log2_spec. lia. }
  destruct (numeral_le_fuel_spec r Hr _ x Hb) as (D & V & L & Z0).
  destruct (numeral_le_fuel (S (Z.to_nat (Z.log2 x))) r x) as [|y t] eqn:E.
  - cbn [horner_le] in V. subst x. apply canonical_zero. lia.
  - repeat split; try assumption.
    + intros E0. specialize (Z0 E0). discriminate.
    + intros _. apply L. discriminate.
Qed.

(* every non-negative value has a canonical numeral (the theorems below are not vacuous) *)
Lemma canonical_exists r x : 2 <= r -> 0 <= x -> exists ds, canonical_le r x ds.
Proof. intros Hr Hx. exists (prim_numeral_le r x). apply prim_numeral_canonical; assumption. Qed.

(* ================= digit characters ================= *)

Lemma digit_char_0 upper : digit_char upper 0 = 48.
Proof. destruct upper; reflexivity. Qed.

Lemma ascii_upper_spec d : 0 <= d < 36 ->
  (d < 10 /\ ascii_upper d = 48 + d) \/ (10 <= d /\ ascii_upper d = 65 + (d - 10)).
Proof. intros H. unfold ascii_upper. destruct (Z.ltb_spec d 10); [left | right]; lia. Qed.

(* a decimal digit prints as '0' only if it is 0 *)
Lemma ascii_lower_48 d : 0 <= d < 10 -> ascii_lower d = 48 -> d = 0.
Proof. intros H. unfold ascii_lower. destruct (Z.ltb_spec d 10); lia. Qed.

(* ================= fixed-width numerals: zero padding of an interior digit ================= *)

(* a numeral without a leading zero is at least r^(length - 1) *)
Lemma horner_lower r ds : 2 <= r -> digits_in r ds -> ds <> [] -> last ds 0 <> 0 ->
  r ^ (Z.of_nat (length ds) - 1) <= horner_le r ds.
Proof.
  intros Hr H. induction H as [|d t Hd Ht IH]; intros Hne Hl; [congruence|].
  destruct t as [|e t'].
  - cbn [length last horner_le] in *. change (Z.of_nat 1 - 1) with 0. rewrite Z.pow_0_r. lia.
  - rewrite last_cons_nonempty in Hl by discriminate.
    specialize (IH ltac:(discriminate) Hl).
    cbn [horner_le]. cbn [horner_le] in IH.
    replace (Z.of_nat (length (d :: e :: t')) - 1) with (Z.succ (Z.of_nat (length (e :: t')) - 1))
      by (cbn [length]; lia).
    rewrite Z.pow_succ_r by (cbn [length]; lia). nia.
Qed.

Lemma canonical_length_le r p d ds : 2 <= r -> 1 <= p -> 0 <= d < r ^ p -> canonical_le r d ds ->
  Z.of_nat (length ds) <= p.
Proof.
  intros Hr Hp Hd (D & V & Z0 & L). destruct (Z.eq_dec d 0) as [E|N].
  - rewrite (Z0 E). cbn [length]. lia.
  - assert (Hne : ds <> []) by (intros ->; cbn [horner_le] in V; lia).
    pose proof (horner_lower r ds Hr D Hne (L ltac:(lia))) as Hlow. rewrite V in Hlow.
    destruct (Z_le_gt_dec (Z.of_nat (length ds)) p) as [?|G]; [assumption|exfalso].
    assert (r ^ p <= r ^ (Z.of_nat (length ds) - 1)) by (apply Z.pow_le_mono_r; lia). lia.
Qed.

(* the p-digit expansion of d: its canonical numeral followed by zeros *)
Lemma fixed_width r p d ds : 2 <= r -> 1 <= p -> 0 <= d < r ^ p -> canonical_le r d ds ->
  let fx := ds ++ repeat 0 (Z.to_nat (p - Z.of_nat (length ds))) in
  Z.of_nat (length fx) = p /\ digits_in r fx /\ horner_le r fx = d.
Proof.
  intros Hr Hp Hd C. pose proof (canonical_length_le r p d ds Hr Hp Hd C) as Hl.
  destruct C as (D & V & _ & _). cbn zeta. split; [|split].
  - rewrite app_length, repeat_length. lia.
  - apply digits_in_app. split; [exact D|]. apply Forall_forall. intros x Hx.
    apply repeat_spec in Hx. lia.
  - rewrite horner_app, horner_repeat0. lia.
Qed.

(* `{:01$x}`: the characters of the fixed-width expansion *)
Lemma fmt_prim_pad_fixed r upper p d : 2 <= r -> 1 <= p -> 0 <= d < r ^ p ->
  fmt_prim_pad r upper p d =
  map (digit_char upper) (rev (prim_numeral_le r d ++
                               repeat 0 (Z.to_nat (p - Z.of_nat (length (prim_numeral_le r d)))))).
Proof.
  intros Hr Hp Hd. unfold fmt_prim_pad, fmt_prim.
  rewrite rev_app_distr, map_app, rev_repeat, map_repeat, digit_char_0.
  rewrite len_map, len_rev. reflexivity.
Qed.

(* ================= fmt_method!: hex_concat ================= *)

(* value of a most-significant-first digit list continuing from `hi` *)
Fixpoint be_val (Bv hi : Z) (l : list Z) : Z :=
  match l with [] => hi | d :: t => be_val Bv (hi * Bv + d) t end.

Lemma be_val_app Bv hi l1 l2 : be_val Bv hi (l1 ++ l2) = be_val Bv (be_val Bv hi l1) l2.
Proof. revert hi. induction l1 as [|d t IH]; intros hi; [reflexivity|]. cbn [app be_val]. apply IH. Qed.

Lemma be_val_rev w a : be_val (B w) 0 (rev a) = uval w a.
Proof.
  induction a as [|d t IH]; [reflexivity|].
  cbn [rev uval]. rewrite be_val_app, IH. cbn [be_val]. lia.
Qed.

(* the loop invariant: nothing written yet and the digits so far are all zero, or the canonical numeral
   of the (non-zero) value of the digits so far *)
Definition fm_inv (r : Z) (upper : bool) (fs : list Z) (hi : Z) : Prop :=
  (hi = 0 /\ fs = []) \/
  (0 < hi /\ exists ds, canonical_le r hi ds /\ fs = map (digit_char upper) (rev ds)).

Lemma fm_step r upper p w d fs hi : 2 <= r -> 1 <= p -> r ^ p = B w -> 0 <= d < B w ->
  fm_inv r upper fs hi ->
  fm_inv r upper
    (if is_nil fs then (if d =? 0 then fs else fs ++ fmt_prim r upper d) else fs ++ fmt_prim_pad r upper p d)
    (hi * B w + d).
Proof.
  intros Hr Hp HB Hd [[-> ->]|(Hhi & ds & C & ->)].
  - cbn [is_nil app]. destruct (Z.eqb_spec d 0) as [->|N].
    + left. split; [lia | reflexivity].
    + right. split; [lia|]. exists (prim_numeral_le r d). split; [|reflexivity].
      replace (0 * B w + d) with d by lia. apply prim_numeral_canonical; lia.
  - pose proof (canonical_nonempty _ _ _ C) as Hne.
    assert (Hnn : is_nil (map (digit_char upper) (rev ds)) = false).
    { apply is_nil_false_iff. intros E. apply map_eq_nil in E.
      apply (f_equal (@rev Z)) in E. rewrite rev_involutive in E. exact (Hne E). }
    rewrite Hnn. right. pose proof (B_pos w) as HBp.
    assert (0 < B w) by (rewrite <- HB; apply Z.pow_pos_nonneg; lia).
    split; [nia|].
    rewrite <- HB in Hd.
    pose proof (prim_numeral_canonical r d Hr ltac:(lia)) as Cd.
    destruct (fixed_width r p d _ Hr Hp Hd Cd) as (Lf & Df & Vf). cbn zeta in Lf, Df, Vf.
    set (fx := prim_numeral_le r d ++ repeat 0 (Z.to_nat (p - Z.of_nat (length (prim_numeral_le r d))))) in *.
    exists (fx ++ ds). split.
    + destruct C as (D & V & Z0 & L). apply canonical_exists_pos.
      * rewrite <- HB. nia.
      * apply digits_in_app. split; assumption.
      * rewrite horner_app, Vf, V, Lf, HB. lia.
      * rewrite last_app_nonempty by exact Hne. apply L. exact Hhi.
    + rewrite (fmt_prim_pad_fixed r upper p d Hr Hp Hd). fold fx.
      rewrite rev_app_distr, map_app. reflexivity.
Qed.

Lemma fm_loop r upper p w : 2 <= r -> 1 <= p -> r ^ p = B w -> forall l fs hi,
  Forall (digit_ok w) l -> fm_inv r upper fs hi ->
  fm_inv r upper (fmt_method_loop r upper p l fs) (be_val (B w) hi l).
Proof.
  intros Hr Hp HB. induction l as [|d t IH]; intros fs hi Hl Hinv; [exact Hinv|].
  inversion Hl as [|? ? Hd Ht]; subst. cbn [fmt_method_loop be_val].
  apply IH; [exact Ht|]. apply fm_step; assumption.
Qed.

(* hex_concat, for every radix r with r^p = 2^w: the body is the canonical radix-r numeral of the value *)
Theorem fmt_method_ok r upper p prefix w n a : 2 <= r -> 1 <= p -> r ^ p = B w -> wf w n a ->
  exists ds, canonical_le r (uval w a) ds /\
             fmt_method r upper p prefix a = (true, prefix, map (digit_char upper) (rev ds)).
Proof.
  intros Hr Hp HB [_ Ha]. unfold fmt_method.
  assert (Hrev : Forall (digit_ok w) (rev a)).
  { apply Forall_forall. intros x Hx. apply in_rev in Hx. revert x Hx. apply Forall_forall. exact Ha. }
  pose proof (fm_loop r upper p w Hr Hp HB (rev a) [] 0 Hrev (or_introl (conj eq_refl eq_refl))) as Hinv.
  rewrite be_val_rev in Hinv. destruct Hinv as [[E ->]|(Hpos & ds & C & ->)].
  - exists [0]. rewrite E. split; [apply canonical_zero; lia|]. cbn [is_nil rev app map].
    rewrite digit_char_0. reflexivity.
  - exists ds. split; [exact C|].
    assert (Hnn : is_nil (map (digit_char upper) (rev ds)) = false).
    { apply is_nil_false_iff. intros E. apply map_eq_nil in E.
      apply (f_equal (@rev Z)) in E. rewrite rev_involutive in E.
      exact (canonical_nonempty _ _ _ C E). }
    rewrite Hnn. reflexivity.
Qed.

Lemma hex_radix_pow w : 0 < w -> w mod 4 = 0 -> 16 ^ hex_padding w = B w /\ 1 <= hex_padding w.
Proof.
  intros Hw Hm. unfold hex_padding, B.
  assert (Hq : w = 4 * (w / 4)) by (apply Z_div_exact_2; lia).
  split; [|lia]. change 16 with (2 ^ 4). rewrite <- Z.pow_mul_r by lia. f_equal. lia.
Qed.

(* the form used below: for EVERY canonical numeral of the value (there is exactly one) *)
Lemma with_unique r x (P : list Z -> Prop) : 2 <= r ->
  (exists ds, canonical_le r x ds /\ P ds) -> forall ds, canonical_le r x ds -> P ds.
Proof. intros Hr (ds0 & C0 & H) ds C. rewrite (canonical_unique r x ds ds0 Hr C C0). exact H. Qed.

Theorem U_fmt_LowerHex_ok w n a : 0 < w -> w mod 4 = 0 -> wf w n a ->
  forall ds, canonical_le 16 (uval w a) ds ->
  U_fmt_LowerHex w a = Some (Ret (true, str_0x, map ascii_lower (rev ds))).
Proof.
  intros Hw Hm Ha. destruct (hex_radix_pow w Hw Hm) as [HB Hp].
  apply with_unique; [lia|].
  destruct (fmt_method_ok 16 false (hex_padding w) str_0x w n a ltac:(lia) Hp HB Ha) as (ds & C & E).
  exists ds. split; [exact C|]. unfold U_fmt_LowerHex. rewrite E. reflexivity.
Qed.

Theorem U_fmt_UpperHex_ok w n a : 0 < w -> w mod 4 = 0 -> wf w n a ->
  forall ds, canonical_le 16 (uval w a) ds ->
  U_fmt_UpperHex w a = Some (Ret (true, str_0x, map ascii_upper (rev ds))).
Proof.
  intros Hw Hm Ha. destruct (hex_radix_pow w Hw Hm) as [HB Hp].
  apply with_unique; [lia|].
  destruct (fmt_method_ok 16 true (hex_padding w) str_0x w n a ltac:(lia) Hp HB Ha) as (ds & C & E).
  exists ds. split; [exact C|]. unfold U_fmt_UpperHex. rewrite E. reflexivity.
Qed.

Theorem U_fmt_Binary_ok w n a : 0 < w -> wf w n a ->
  forall ds, canonical_le 2 (uval w a) ds ->
  U_fmt_Binary w a = Some (Ret (true, str_0b, map ascii_lower (rev ds))).
Proof.
  intros Hw Ha. apply with_unique; [lia|].
  destruct (fmt_method_ok 2 false w str_0b w n a ltac:(lia) ltac:(lia) eq_refl Ha) as (ds & C & E).
  exists ds. split; [exact C|]. unfold U_fmt_Binary. rewrite E. reflexivity.
Qed.

(* ================= Display, Debug, Octal: through to_str_radix ================= *)

Theorem U_fmt_Display_ok w n a : 8 <= w -> wf w n a ->
  forall ds, canonical_le 10 (uval w a) ds ->
  U_fmt_Display w a = Some (Ret (true, [], map ascii_lower (rev ds))).
Proof.
  intros Hw Ha. apply with_unique; [lia|].
  destruct (U_to_str_radix_ok radix_div_digit_holds w n a 10 Hw Ha ltac:(lia)) as (ds & C & E).
  exists ds. split; [exact C|]. unfold U_fmt_Display. rewrite E. reflexivity.
Qed.

Theorem U_fmt_Octal_ok w n a : 8 <= w -> wf w n a ->
  forall ds, canonical_le 8 (uval w a) ds ->
  U_fmt_Octal w a = Some (Ret (true, str_0o, map ascii_lower (rev ds))).
Proof.
  intros Hw Ha. apply with_unique; [lia|].
  destruct (U_to_str_radix_ok radix_div_digit_holds w n a 8 Hw Ha ltac:(lia)) as (ds & C & E).
  exists ds. split; [exact C|]. unfold U_fmt_Octal. rewrite E. reflexivity.
Qed.

(* ================= the exponent forms ================= *)

(* `t` is `full` with its trailing c's removed — stated by the result, not by the procedure *)
Definition trimmed_of (c : Z) (full t : list Z) : Prop :=
  (exists j, full = t ++ repeat c j) /\ last t 0 <> c.

(* body = d [. rest] e k   where the decimal numeral of x is d :: rest0, rest is rest0 without its trailing
   '0's, and k (printed in decimal) is the number of digits after the first *)
Definition exp_body_spec (e x : Z) (body : list Z) : Prop :=
  exists ds d rest0 rest ks,
    canonical_le 10 x ds /\ map ascii_lower (rev ds) = d :: rest0 /\
    trimmed_of 48 rest0 rest /\ canonical_le 10 (len rest0) ks /\
    body = d :: match rest with [] => [] | _ => 46 :: rest end ++ [e] ++ map ascii_lower (rev ks).

Lemma drop_while_eq_spec c l :
  exists k, l = repeat c k ++ drop_while_eq c l /\ hd 0 (drop_while_eq c l) <> c \/
            (exists k, l = repeat c k /\ drop_while_eq c l = []).
Proof.
  induction l as [|d t IH]; cbn [drop_while_eq].
  - exists O. right. exists O. split; reflexivity.
  - destruct (Z.eqb_spec d c) as [->|N].
    + destruct IH as (k & [(E1 & E2)|(k' & E1 & E2)]).
      * exists (S k). left. cbn [repeat app]. split; [f_equal; exact E1 | exact E2].
      * exists O. right. exists (S k'). cbn [repeat]. split; [f_equal; exact E1 | exact E2].
    + exists O. left. split; [reflexivity | exact N].
Qed.

Lemma trim_end_matches_spec c l : c <> 0 -> trimmed_of c l (trim_end_matches c l).
Proof.
  intros Hc. unfold trim_end_matches, trimmed_of.
  destruct (drop_while_eq_spec c (rev l)) as (k & [(E1 & E2)|(k' & E1 & E2)]).
  - split.
    + exists k. rewrite <- (rev_involutive l) at 1. rewrite E1 at 1.
      rewrite rev_app_distr, rev_repeat. reflexivity.
    + rewrite last_rev_hd. exact E2.
  - rewrite E2. cbn [rev last]. split; [|congruence].
    exists k'. rewrite <- (rev_involutive l), E1, rev_repeat. reflexivity.
Qed.

Lemma last_app_repeat (t : list Z) c j : (0 < j)%nat -> last (t ++ repeat c j) 0 = c.
Proof.
  intros Hj. destruct j as [|j]; [lia|]. rewrite last_app_nonempty by (cbn [repeat]; discriminate).
  clear Hj. induction j as [|j IH]; [reflexivity|].
  change (repeat c (S (S j))) with (c :: repeat c (S j)).
  rewrite last_cons_nonempty by (cbn [repeat]; discriminate). exact IH.
Qed.

(* the specification determines the trimmed string *)
Lemma trimmed_of_unique c full t1 t2 : trimmed_of c full t1 -> trimmed_of c full t2 -> t1 = t2.
Proof.
  assert (H : forall t1 t2 j1 j2, (j1 <= j2)%nat -> t1 ++ repeat c j1 = t2 ++ repeat c j2 ->
              last t1 0 <> c -> t1 = t2).
  { intros u1 u2 j1 j2 Hj E L1.
    replace j2 with ((j2 - j1) + j1)%nat in E by lia. rewrite repeat_app, app_assoc in E.
    apply app_inv_tail in E. destruct (Nat.eq_dec (j2 - j1) 0) as [Z0|NZ].
    - rewrite Z0, app_nil_r in E. exact E.
    - exfalso. apply L1. rewrite E. apply last_app_repeat. lia. }
  intros [(j1 & E1) L1] [(j2 & E2) L2]. rewrite E1 in E2.
  destruct (Nat.le_ge_cases j1 j2) as [Hj|Hj].
  - exact (H t1 t2 j1 j2 Hj E2 L1).
  - symmetry. exact (H t2 t1 j2 j1 Hj (eq_sym E2) L2).
Qed.

Lemma drop_while_eq_snoc c l d : d <> c -> drop_while_eq c (l ++ [d]) = drop_while_eq c l ++ [d].
Proof.
  intros Hd. induction l as [|x t IH]; cbn [app drop_while_eq].
  - destruct (Z.eqb_spec d c); [contradiction | reflexivity].
  - destruct (Z.eqb_spec x c); [exact IH | reflexivity].
Qed.

Lemma trim_end_matches_cons c d l : d <> c -> trim_end_matches c (d :: l) = d :: trim_end_matches c l.
Proof.
  intros Hd. unfold trim_end_matches. cbn [rev]. rewrite drop_while_eq_snoc by exact Hd.
  rewrite rev_app_distr. reflexivity.
Qed.

Lemma fmt_usize_ok k : 0 <= k -> forall ks, canonical_le 10 k ks -> fmt_usize k = map ascii_lower (rev ks).
Proof.
  intros Hk. apply with_unique; [lia|]. exists (prim_numeral_le 10 k).
  split; [apply prim_numeral_canonical; lia | reflexivity].
Qed.

(* the decimal string of a canonical numeral: first character, and it is '0' only for zero *)
Lemma decimal_head x ds : canonical_le 10 x ds ->
  exists d rest0, map ascii_lower (rev ds) = d :: rest0 /\ (0 < x -> d <> 48).
Proof.
  intros (D & V & Z0 & L).
  assert (Hne : ds <> []) by (apply (canonical_nonempty 10 x); repeat split; assumption).
  destruct (rev ds) as [|y t] eqn:E.
  { exfalso. apply Hne. apply (f_equal (@rev Z)) in E. rewrite rev_involutive in E. exact E. }
  exists (ascii_lower y), (map ascii_lower t). split; [reflexivity|].
  intros Hx Hy. specialize (L Hx).
  assert (Hl : last ds 0 = y).
  { rewrite <- (rev_involutive ds), E. rewrite last_rev_hd. reflexivity. }
  assert (Hin : In y ds) by (apply in_rev; rewrite E; left; reflexivity).
  pose proof (proj1 (Forall_forall _ _) D y Hin) as Hy10.
  apply (ascii_lower_48 y Hy10) in Hy. congruence.
Qed.

Theorem exp_buf_ok e x ds : canonical_le 10 x ds ->
  exists body, exp_buf e (map ascii_lower (rev ds)) = Ret body /\ exp_body_spec e x body.
Proof.
  intros C. destruct (decimal_head x ds C) as (d & rest0 & Es & Hd).
  pose proof C as (D & V & Z0 & L).
  assert (Hx : 0 <= x) by (rewrite <- V; apply horner_nonneg; [lia | exact D]).
  unfold exp_buf. rewrite Es.
  destruct (Z.eq_dec x 0) as [E0|N0].
  - (* zero: "0e0" *)
    rewrite (Z0 E0) in Es. cbn [rev app map] in Es. inversion Es; subst d rest0.
    cbn [list_Z_eqb]. rewrite Z.eqb_refl. cbn [andb].
    eexists. split; [reflexivity|].
    exists ds, 48, [], [], [0]. split; [exact C|]. split; [rewrite (Z0 E0); reflexivity|].
    split; [split; [exists O; reflexivity | cbn; lia]|].
    split; [apply canonical_zero; lia|]. reflexivity.
  - specialize (Hd ltac:(lia)).
    assert (Hneq : list_Z_eqb (d :: rest0) [48] = false).
    { destruct (list_Z_eqb (d :: rest0) [48]) eqn:E; [|reflexivity].
      apply list_Z_eqb_eq in E. inversion E. contradiction. }
    rewrite Hneq. cbn [is_nil].
    rewrite (trim_end_matches_cons 48 d rest0 Hd).
    pose proof (trim_end_matches_spec 48 rest0 ltac:(lia)) as Ht.
    set (rest := trim_end_matches 48 rest0) in *.
    assert (Hk : len (d :: rest0) - 1 = len rest0) by (unfold len; cbn [length]; lia).
    rewrite Hk.
    destruct (canonical_exists 10 (len rest0) ltac:(lia) (len_nonneg _)) as (ks & Ck).
    rewrite (fmt_usize_ok (len rest0) (len_nonneg _) ks Ck).
    destruct rest as [|y t] eqn:Er.
    + cbn [length Nat.eqb firstn app]. eexists. split; [reflexivity|].
      exists ds, d, rest0, [], ks.
      split; [exact C|]. split; [exact Es|]. split; [exact Ht|]. split; [exact Ck|]. reflexivity.
    + cbn [length Nat.eqb is_nil firstn skipn app]. eexists. split; [reflexivity|].
      exists ds, d, rest0, (y :: t), ks.
      split; [exact C|]. split; [exact Es|]. split; [exact Ht|]. split; [exact Ck|]. reflexivity.
Qed.

Theorem exp_fmt_ok e w n a : 8 <= w -> wf w n a ->
  exists body, exp_fmt e w a = Some (Ret (true, [], body)) /\ exp_body_spec e (uval w a) body.
Proof.
  intros Hw Ha.
  destruct (U_to_str_radix_ok radix_div_digit_holds w n a 10 Hw Ha ltac:(lia)) as (ds & C & E).
  destruct (exp_buf_ok e (uval w a) ds C) as (body & Eb & S).
  exists body. split; [|exact S]. unfold exp_fmt. rewrite E, Eb. reflexivity.
Qed.

(* the exponent-form specification determines the body *)
Theorem exp_body_spec_unique e x b1 b2 : exp_body_spec e x b1 -> exp_body_spec e x b2 -> b1 = b2.
Proof.
  intros (ds1 & d1 & r1 & t1 & k1 & C1 & E1 & T1 & K1 & ->) (ds2 & d2 & r2 & t2 & k2 & C2 & E2 & T2 & K2 & ->).
  pose proof (canonical_unique 10 x ds1 ds2 ltac:(lia) C1 C2) as Eds. subst ds2.
  rewrite E1 in E2. inversion E2; subst d2 r2.
  pose proof (trimmed_of_unique 48 r1 t1 t2 T1 T2) as Et. subst t2.
  pose proof (canonical_unique 10 _ k1 k2 ltac:(lia) K1 K2) as Ek. subst k2. reflexivity.
Qed.

(* ================= signed types ================= *)

(* what the theorems need of std's pad_integral: without flags, a non-negative number is written as is *)
Definition pad_noflags_id (pad : padder) : Prop :=
  forall prefix body, pad no_flags true prefix body = body.

Lemma pad_integral_ref_noflags : pad_noflags_id pad_integral_ref.
Proof. intros prefix body. reflexivity. Qed.

Lemma uval_sval_mod w n a : 0 < w -> wf w n a -> uval w a = sval w a mod Mod w n.
Proof.
  intros Hw Ha. rewrite (sval_mod w n a Hw Ha). symmetry. apply Z.mod_small.
  apply uval_bounds; [lia | exact Ha].
Qed.

(* Binary / Octal / LowerHex / UpperHex of a signed value: the two's complement bit pattern *)
Theorem I_fmt_LowerHex_ok w n a : 0 < w -> w mod 4 = 0 -> wf w n a ->
  forall ds, canonical_le 16 (sval w a mod Mod w n) ds ->
  I_fmt_LowerHex w a = Some (Ret (true, str_0x, map ascii_lower (rev ds))).
Proof. intros Hw Hm Ha. rewrite <- (uval_sval_mod w n a Hw Ha). exact (U_fmt_LowerHex_ok w n a Hw Hm Ha). Qed.
Theorem I_fmt_UpperHex_ok w n a : 0 < w -> w mod 4 = 0 -> wf w n a ->
  forall ds, canonical_le 16 (sval w a mod Mod w n) ds ->
  I_fmt_UpperHex w a = Some (Ret (true, str_0x, map ascii_upper (rev ds))).
Proof. intros Hw Hm Ha. rewrite <- (uval_sval_mod w n a Hw Ha). exact (U_fmt_UpperHex_ok w n a Hw Hm Ha). Qed.
Theorem I_fmt_Binary_ok w n a : 0 < w -> wf w n a ->
  forall ds, canonical_le 2 (sval w a mod Mod w n) ds ->
  I_fmt_Binary w a = Some (Ret (true, str_0b, map ascii_lower (rev ds))).
Proof. intros Hw Ha. rewrite <- (uval_sval_mod w n a Hw Ha). exact (U_fmt_Binary_ok w n a Hw Ha). Qed.
Theorem I_fmt_Octal_ok w n a : 8 <= w -> wf w n a ->
  forall ds, canonical_le 8 (sval w a mod Mod w n) ds ->
  I_fmt_Octal w a = Some (Ret (true, str_0o, map ascii_lower (rev ds))).
Proof. intros Hw Ha. rewrite <- (uval_sval_mod w n a ltac:(lia) Ha). exact (U_fmt_Octal_ok w n a Hw Ha). Qed.

Lemma nonneg_flag w n a : 0 < w -> (0 < n)%nat -> wf w n a -> negb (is_negative w a) = (0 <=? sval w a).
Proof.
  intros Hw Hn Ha. rewrite (Cmp.is_negative_ok w n a Hw Hn Ha).
  destruct (Z.ltb_spec (sval w a) 0), (Z.leb_spec 0 (sval w a)); try reflexivity; lia.
Qed.

(* Display / Debug of a signed value: sign flag and the decimal numeral of the magnitude *)
Theorem I_fmt_Display_ok pad w n a : pad_noflags_id pad -> 8 <= w -> (0 < n)%nat -> wf w n a ->
  forall ds, canonical_le 10 (Z.abs (sval w a)) ds ->
  I_fmt_Display pad w a = Some (Ret (0 <=? sval w a, [], map ascii_lower (rev ds))).
Proof.
  intros Hpad Hw Hn Ha ds C.
  destruct (AddSub.I_unsigned_abs_ok w n a ltac:(lia) Hn Ha) as [Hwf Hv].
  rewrite <- Hv in C. unfold I_fmt_Display.
  rewrite (U_fmt_Display_ok w n _ Hw Hwf ds C). cbn [oomap option_map omap to_string].
  rewrite Hpad, (nonneg_flag w n a ltac:(lia) Hn Ha). reflexivity.
Qed.

Theorem I_exp_fmt_ok pad e w n a : pad_noflags_id pad -> 8 <= w -> (0 < n)%nat -> wf w n a ->
  exists body,
    oomap (fun t => (negb (is_negative w a), @nil Z, to_string pad t)) (exp_fmt e w (I_unsigned_abs w a)) =
      Some (Ret (0 <=? sval w a, @nil Z, body)) /\
    exp_body_spec e (Z.abs (sval w a)) body.
Proof.
  intros Hpad Hw Hn Ha.
  destruct (AddSub.I_unsigned_abs_ok w n a ltac:(lia) Hn Ha) as [Hwf Hv].
  destruct (exp_fmt_ok e w n _ Hw Hwf) as (body & E & S).
  exists body. rewrite <- Hv. split; [|exact S]. rewrite E. cbn [oomap option_map omap to_string].
  rewrite Hpad, (nonneg_flag w n a ltac:(lia) Hn Ha). reflexivity.
Qed.

(* ================= facts about the transcription of pad_integral (sanity; it stays trusted) ================= *)

Definition sign_of (fl : fmt_flags) (nonneg : bool) : list Z :=
  if negb nonneg then [45] else if ff_plus fl then [43] else [].
Definition prefix_of (fl : fmt_flags) (prefix : list Z) : list Z := if ff_alt fl then prefix else [].
Definition natural_len (fl : fmt_flags) (nonneg : bool) (prefix body : list Z) : Z :=
  len body + len (sign_of fl nonneg) + len (prefix_of fl prefix).

(* no width, or a width that the text already reaches: sign, prefix, body *)
Lemma pad_integral_ref_unpadded fl nonneg prefix body :
  (ff_width fl = None \/ exists m, ff_width fl = Some m /\ m <= natural_len fl nonneg prefix body) ->
  pad_integral_ref fl nonneg prefix body = sign_of fl nonneg ++ prefix_of fl prefix ++ body.
Proof.
  unfold pad_integral_ref, natural_len, sign_of, prefix_of. intros [->|(m & -> & Hm)]; [reflexivity|].
  destruct (Z.leb_spec m (len body + len (if negb nonneg then [45] else if ff_plus fl then [43] else []) +
                          len (if ff_alt fl then prefix else []))); [reflexivity | lia].
Qed.

(* the output is never shorter than the width and never longer than needed *)
Lemma pad_integral_ref_length fl nonneg prefix body m : ff_width fl = Some m ->
  len (pad_integral_ref fl nonneg prefix body) = Z.max m (natural_len fl nonneg prefix body).
Proof.
  intros Hm. unfold pad_integral_ref, natural_len. rewrite Hm. fold (sign_of fl nonneg) (prefix_of fl prefix).
  set (s := sign_of fl nonneg). set (p := prefix_of fl prefix).
  destruct (Z.leb_spec m (len body + len s + len p)) as [H|H].
  - rewrite !len_app. lia.
  - destruct (ff_zero fl).
    + rewrite !len_app, len_fill_n by lia. lia.
    + unfold padding_split. set (k := m - (len body + len s + len p)).
      assert (0 <= k / 2 <= k) by (split; [apply Z.div_pos; lia | apply Z.div_le_upper_bound; lia]).
      destruct (ff_align fl =? 1); [|destruct (ff_align fl =? 2)];
        rewrite !len_app, !len_fill_n by lia; lia.
Qed.

(* `{:01$x}` of a digit is pad_integral with the '0' flag and the width *)
Lemma fmt_prim_pad_is_pad_integral r upper pad d :
  fmt_prim_pad r upper pad d =
  pad_integral_ref (mk_flags 32 0 false false true (Some pad)) true str_0x (fmt_prim r upper d).
Proof.
  unfold fmt_prim_pad, pad_integral_ref. cbn [ff_width ff_zero ff_alt ff_plus negb len length app].
  change (Z.of_nat 0) with 0. rewrite !Z.add_0_r.
  destruct (Z.leb_spec pad (len (fmt_prim r upper d))) as [H|H]; [|reflexivity].
  rewrite fill_n_nonpos by lia. reflexivity.
Qed.

(* ================= whole output strings ================= *)

Theorem U_format_ok pad fl tr w a t :
  U_fmt tr w a = Some (Ret t) -> U_format pad fl tr w a = Some (Ret (render pad fl t)).
Proof. intros E. unfold U_format. rewrite E. reflexivity. Qed.
Theorem I_format_ok pad fl tr w a t :
  I_fmt pad tr w a = Some (Ret t) -> I_format pad fl tr w a = Some (Ret (render pad fl t)).
Proof. intros E. unfold I_format. rewrite E. reflexivity. Qed.

(* two instances with the dispatch spelled out: the flags only enter through std's pad_integral *)
Theorem U_format_LowerHex_ok pad fl w n a : 0 < w -> w mod 4 = 0 -> wf w n a ->
  forall ds, canonical_le 16 (uval w a) ds ->
  U_format pad fl 4 w a = Some (Ret (pad fl true str_0x (map ascii_lower (rev ds)))).
Proof.
  intros Hw Hm Ha ds C. apply (U_format_ok pad fl 4 w a (true, str_0x, map ascii_lower (rev ds))).
  change (U_fmt 4 w a) with (U_fmt_LowerHex w a). exact (U_fmt_LowerHex_ok w n a Hw Hm Ha ds C).
Qed.
Theorem I_format_Display_ok pad fl w n a : pad_noflags_id pad -> 8 <= w -> (0 < n)%nat -> wf w n a ->
  forall ds, canonical_le 10 (Z.abs (sval w a)) ds ->
  I_format pad fl 0 w a = Some (Ret (pad fl (0 <=? sval w a) [] (map ascii_lower (rev ds)))).
Proof.
  intros Hp Hw Hn Ha ds C. apply (I_format_ok pad fl 0 w a (0 <=? sval w a, [], map ascii_lower (rev ds))).
  change (I_fmt pad 0 w a) with (I_fmt_Display pad w a). exact (I_fmt_Display_ok pad w n a Hp Hw Hn Ha ds C).
Qed.

(* Proofs/PrintGenTie.v — umbrella: the radix OUTPUT code regenerated from /repo/src/buint/radix.rs and /repo/src/bint/radix.rs on
   every run (Generated/PrintGen.v, tools/rs2v_print.py) equals the hand-written model Model/RadixOut.v.
   Parts: PrintGenTieA (for-loop rules, ilog2, div_ceil, to_bitwise_digits_le), B (to_inexact_bitwise_digits_le),
   C (to_radix_digits_le), D (to_radix_le / to_radix_be / to_str_radix, signed wrappers). *)
From Bnum Require Import Base Prim.
From Bnum.Model Require Import Core Imp.
From Bnum.Model Require RadixOut.
From Bnum.Generated Require Import PrintGen.
From Bnum.Proofs Require Export PrintGenTieA PrintGenTieB PrintGenTieC PrintGenTieD.

(* the public entry points, for every digit width of bnum, every digit count, every well-formed operand and EVERY radix
   (the assert_range! panic included), with an iteration budget of 2 w (n + 1) + 1 *)
Theorem print_C11_match_model w n fuel a radix :
  8 <= w <= 248 -> wf w n a -> (Z.to_nat (2 * w) * S n + 1 <= fuel)%nat ->
  PrintGen.to_radix_le w (Z.of_nat n) fuel a radix = oo_res (RadixOut.U_to_radix_le w a radix) /\
  PrintGen.to_radix_be w (Z.of_nat n) fuel a radix = oo_res (RadixOut.U_to_radix_be w a radix) /\
  PrintGen.to_str_radix w (Z.of_nat n) fuel a radix = oo_res (RadixOut.U_to_str_radix w a radix) /\
  PrintGen.I_to_radix_le w (Z.of_nat n) fuel a radix = oo_res (RadixOut.I_to_radix_le w a radix) /\
  PrintGen.I_to_radix_be w (Z.of_nat n) fuel a radix = oo_res (RadixOut.I_to_radix_be w a radix) /\
  ((0 < n)%nat -> PrintGen.I_to_str_radix w (Z.of_nat n) fuel a radix = oo_res (RadixOut.I_to_str_radix w a radix)).
Proof.
  intros Hw Ha Hf. change (print_fuel w n <= fuel)%nat in Hf.
  split; [apply gen_to_radix_le; assumption|]. split; [apply gen_to_radix_be; assumption|].
  split; [apply gen_to_str_radix; assumption|]. split; [apply gen_I_to_radix_le; assumption|].
  split; [apply gen_I_to_radix_be; assumption|]. intros Hn. apply gen_I_to_str_radix; assumption.
Qed.

(* the three digit loops on their own: no well-formedness, no arithmetic - wherever the model's own budget suffices *)
Theorem print_C11_loops_match_model w N fuel self :
  (forall bits out, 0 < bits < w -> self <> [] -> (Z.to_nat w <= fuel)%nat ->
     RadixOut.to_bitwise_digits_le w self bits = Some out ->
     PrintGen.to_bitwise_digits_le w N fuel self bits = Done out) /\
  (forall bits out, 0 < bits < w -> w + bits <= 256 -> (Z.to_nat (2 * w) * S (length self) <= fuel)%nat ->
     RadixOut.to_inexact_bitwise_digits_le w self bits = Some out ->
     PrintGen.to_inexact_bitwise_digits_le w N fuel self bits = Done out) /\
  (forall radix out, 0 < w -> 2 <= radix < 2 ^ 32 -> radix mod B w <> 0 -> self <> [] ->
     (Z.to_nat w <= fuel)%nat -> (S (Z.to_nat (bits w (length self))) <= fuel)%nat ->
     RadixOut.to_radix_digits_le w self radix = Some out ->
     PrintGen.to_radix_digits_le w N fuel self radix = Done out).
Proof.
  split; [intros; apply gen_to_bitwise_digits_le; assumption|].
  split; [intros; apply gen_to_inexact_bitwise_digits_le; assumption|].
  intros; apply gen_to_radix_digits_le; assumption.
Qed.

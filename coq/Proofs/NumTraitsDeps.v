(* Proofs/NumTraitsDeps.v — facts about functions modelled in OTHER files (Core, Shift, AddSub, Mul,
   Div, Bits, Pow) that the C18 theorems use.  They are being proved by the owners of those files;
   here they are plain propositions (`Definition x_spec : Prop`), taken as explicit premises of the
   C18 theorems — never axioms.  Each is the value-level contract of one model function. *)
From Bnum Require Import Base Prim.
From Bnum.Model Require Import Digit Core Shift AddSub Mul Div Bits Pow.

(* ---- Core ---- *)
Definition ucmp_spec : Prop := forall w n a b, 0 < w -> wf w n a -> wf w n b ->
  ucmp a b = (uval w a ?= uval w b).
Definition icmp_spec : Prop := forall w n a b, 0 < w -> (0 < n)%nat -> wf w n a -> wf w n b ->
  icmp w a b = (sval w a ?= sval w b).
Definition is_negative_spec : Prop := forall w n a, 0 < w -> (0 < n)%nat -> wf w n a ->
  is_negative w a = (sval w a <? 0).
Definition is_positive_spec : Prop := forall w n a, 0 < w -> (0 < n)%nat -> wf w n a ->
  is_positive w a = (0 <? sval w a).

(* ---- Shift ---- *)
Definition shr_internal_spec : Prop := forall w n a s, 0 < w -> wf w n a -> 0 <= s < bits w n ->
  wf w n (shr_pad_internal w false a s) /\ uval w (shr_pad_internal w false a s) = uval w a / 2 ^ s.
Definition shl_internal_spec : Prop := forall w n a s, 0 < w -> wf w n a -> 0 <= s < bits w n ->
  wf w n (shl_internal w a s) /\ uval w (shl_internal w a s) = (uval w a * 2 ^ s) mod Mod w n.

(* ---- AddSub ---- *)
Definition U_add_spec : Prop := forall dbg w n a b, 0 < w -> wf w n a -> wf w n b ->
  uval w a + uval w b < Mod w n ->
  exists r, U_add dbg w a b = Ret r /\ wf w n r /\ uval w r = uval w a + uval w b.
Definition U_sub_spec : Prop := forall dbg w n a b, 0 < w -> wf w n a -> wf w n b ->
  uval w b <= uval w a ->
  exists r, U_sub dbg w a b = Ret r /\ wf w n r /\ uval w r = uval w a - uval w b.
Definition I_add_spec : Prop := forall dbg w n a b, 0 < w -> (0 < n)%nat -> wf w n a -> wf w n b ->
  - (Mod w n / 2) <= sval w a + sval w b < Mod w n / 2 ->
  exists r, I_add dbg w a b = Ret r /\ wf w n r /\ sval w r = sval w a + sval w b.
Definition I_sub_spec : Prop := forall dbg w n a b, 0 < w -> (0 < n)%nat -> wf w n a -> wf w n b ->
  - (Mod w n / 2) <= sval w a - sval w b < Mod w n / 2 ->
  exists r, I_sub dbg w a b = Ret r /\ wf w n r /\ sval w r = sval w a - sval w b.
Definition I_neg_spec : Prop := forall dbg w n a, 0 < w -> (0 < n)%nat -> wf w n a ->
  sval w a <> - (Mod w n / 2) ->
  exists r, I_neg dbg w a = Ret r /\ wf w n r /\ sval w r = - sval w a.
Definition I_wrapping_neg_spec : Prop := forall w n a, 0 < w -> (0 < n)%nat -> wf w n a ->
  wf w n (I_wrapping_neg w a) /\ uval w (I_wrapping_neg w a) = (- uval w a) mod Mod w n.
Definition I_abs_spec : Prop := forall dbg w n a, 0 < w -> (0 < n)%nat -> wf w n a ->
  sval w a <> - (Mod w n / 2) ->
  exists r, I_abs dbg w a = Ret r /\ wf w n r /\ sval w r = Z.abs (sval w a).
Definition I_unsigned_abs_spec : Prop := forall w n a, 0 < w -> (0 < n)%nat -> wf w n a ->
  wf w n (I_unsigned_abs w a) /\ uval w (I_unsigned_abs w a) = Z.abs (sval w a).

(* ---- Mul ---- *)
Definition U_mul_spec : Prop := forall dbg w n a b, 0 < w -> wf w n a -> wf w n b ->
  uval w a * uval w b < Mod w n ->
  exists r, U_mul dbg w a b = Ret r /\ wf w n r /\ uval w r = uval w a * uval w b.
Definition I_mul_spec : Prop := forall dbg w n a b, 0 < w -> (0 < n)%nat -> wf w n a -> wf w n b ->
  - (Mod w n / 2) <= sval w a * sval w b < Mod w n / 2 ->
  exists r, I_mul dbg w a b = Ret r /\ wf w n r /\ sval w r = sval w a * sval w b.

(* ---- Div ---- *)
Definition U_div_rem_unchecked_spec : Prop := forall w n a b, 0 < w -> wf w n a -> wf w n b ->
  uval w b <> 0 ->
  wf w n (fst (U_div_rem_unchecked w a b)) /\ wf w n (snd (U_div_rem_unchecked w a b)) /\
  uval w (fst (U_div_rem_unchecked w a b)) = uval w a / uval w b /\
  uval w (snd (U_div_rem_unchecked w a b)) = uval w a mod uval w b.
Definition div_rem_digit_spec : Prop := forall w n a d, 0 < w -> wf w n a -> 0 < d < B w ->
  wf w n (fst (div_rem_digit w a d)) /\ uval w (fst (div_rem_digit w a d)) = uval w a / d /\
  snd (div_rem_digit w a d) = uval w a mod d.
(* truncated signed division: total except for a zero divisor and MIN / -1, which panic *)
Definition I_div_spec : Prop := forall dbg w n a b, 0 < w -> (0 < n)%nat -> wf w n a -> wf w n b ->
  if (sval w b =? 0) || ((sval w a =? - (Mod w n / 2)) && (sval w b =? -1)) then I_div dbg w a b = Panic
  else exists q, I_div dbg w a b = Ret q /\ wf w n q /\ sval w q = Z.quot (sval w a) (sval w b).
Definition I_rem_spec : Prop := forall dbg w n a b, 0 < w -> (0 < n)%nat -> wf w n a -> wf w n b ->
  if (sval w b =? 0) || ((sval w a =? - (Mod w n / 2)) && (sval w b =? -1)) then I_rem dbg w a b = Panic
  else exists r, I_rem dbg w a b = Ret r /\ wf w n r /\ sval w r = Z.rem (sval w a) (sval w b).

(* ---- Bits ---- *)
Definition trailing_zeros_spec : Prop := forall w n a, 0 < w -> wf w n a -> uval w a <> 0 ->
  0 <= trailing_zeros w a < bits w n /\
  exists m, uval w a = 2 ^ trailing_zeros w a * m /\ Z.odd m = true.
Definition bits_of_spec : Prop := forall w n a, 0 < w -> wf w n a -> 0 < uval w a ->
  0 < bits_of w a <= bits w n /\ 2 ^ (bits_of w a - 1) <= uval w a < 2 ^ bits_of w a.
Definition power_of_two_spec : Prop := forall w n p, 0 < w -> 0 <= p < bits w n ->
  exists r, power_of_two w n p = Ret r /\ wf w n r /\ uval w r = 2 ^ p.

(* ---- Pow ---- *)
Definition U_checked_pow_spec : Prop := forall w n a e, 0 < w -> (0 < n)%nat -> wf w n a -> 0 <= e ->
  match U_checked_pow w a e with
  | Some p => wf w n p /\ uval w p = uval w a ^ e /\ uval w a ^ e < Mod w n
  | None => Mod w n <= uval w a ^ e
  end.

(* the premises of each group of theorems *)
Record deps_floor : Prop := {
  df_neg : is_negative_spec; df_pos : is_positive_spec;
  df_div : I_div_spec; df_rem : I_rem_spec; df_add : I_add_spec; df_sub : I_sub_spec }.
Record deps_gcd : Prop := {
  dg_ucmp : ucmp_spec; dg_sub : U_sub_spec; dg_tz : trailing_zeros_spec;
  dg_shr : shr_internal_spec; dg_shl : shl_internal_spec }.
Record deps_udiv : Prop := { du_divrem : U_div_rem_unchecked_spec }.
Record deps_signed : Prop := {
  ds_neg : is_negative_spec; ds_uabs : I_unsigned_abs_spec; ds_abs : I_abs_spec;
  ds_ineg : I_neg_spec; ds_wneg : I_wrapping_neg_spec }.
Record deps_roots : Prop := {
  dr_ucmp : ucmp_spec; dr_divrem : U_div_rem_unchecked_spec; dr_digit : div_rem_digit_spec;
  dr_add : U_add_spec; dr_mul : U_mul_spec; dr_shr : shr_internal_spec; dr_shl : shl_internal_spec;
  dr_bits : bits_of_spec; dr_p2 : power_of_two_spec; dr_pow : U_checked_pow_spec }.

(* Proofs/RadixSpec.v — the specification side of property C11: positional value of a digit
   sequence (Horner), the canonical digit sequence of a value, its uniqueness, and list facts
   (append, trailing zeros) used by Proofs/RadixOut.v.  No model function is mentioned here. *)
From Bnum Require Import Base.

(* value of a little-endian digit sequence in radix r *)
Fixpoint horner_le (r : Z) (ds : list Z) : Z :=
  match ds with
  | [] => 0
  | d :: t => d + r * horner_le r t
  end.

Definition digits_in (r : Z) (ds : list Z) : Prop := Forall (fun d => 0 <= d < r) ds.

(* the canonical little-endian numeral of x >= 0 in radix r: digits below r, value x,
   "0" for zero, no most-significant zero otherwise *)
Definition canonical_le (r x : Z) (ds : list Z) : Prop :=
  digits_in r ds /\ horner_le r ds = x /\ (x = 0 -> ds = [0]) /\ (0 < x -> last ds 0 <> 0).

Lemma horner_app r a b : horner_le r (a ++ b) = horner_le r a + r ^ Z.of_nat (length a) * horner_le r b.
Proof.
  induction a as [|x a IH]; cbn [horner_le app length].
  - change (Z.of_nat 0) with 0. rewrite Z.pow_0_r. lia.
  - rewrite IH, Nat2Z.inj_succ, Z.pow_succ_r by lia. ring.
Qed.

Lemma horner_nonneg r ds : 0 <= r -> digits_in r ds -> 0 <= horner_le r ds.
Proof.
  intros Hr H. induction H as [|d t Hd Ht IH]; cbn [horner_le]; [lia|]. nia.
Qed.

Lemma horner_bound r ds : 0 < r -> digits_in r ds -> horner_le r ds < r ^ Z.of_nat (length ds).
Proof.
  intros Hr H. induction H as [|d t Hd Ht IH]; cbn [horner_le length].
  - change (Z.of_nat 0) with 0. rewrite Z.pow_0_r. lia.
  - rewrite Nat2Z.inj_succ, Z.pow_succ_r by lia. nia.
Qed.

Lemma horner_repeat0 r k : horner_le r (repeat 0 k) = 0.
Proof. induction k as [|k IH]; cbn [repeat horner_le]; [reflexivity | rewrite IH; lia]. Qed.

Lemma digits_in_app r a b : digits_in r (a ++ b) <-> digits_in r a /\ digits_in r b.
Proof. apply Forall_app. Qed.

(* a sequence of non-negative digits of value 0 has no non-zero last element *)
Lemma horner_zero_last r ds : 0 < r -> digits_in r ds -> horner_le r ds = 0 -> last ds 0 = 0.
Proof.
  intros Hr H. induction H as [|d t Hd Ht IH]; intros Hz; [reflexivity|].
  cbn [horner_le] in Hz. pose proof (horner_nonneg r t ltac:(lia) Ht) as Hn.
  assert (horner_le r t = 0) by nia. assert (d = 0) by nia. subst d.
  destruct t as [|e t']; [reflexivity|]. cbn [last]. apply IH; assumption.
Qed.

Lemma last_cons_nonempty (d : Z) t : t <> [] -> last (d :: t) 0 = last t 0.
Proof. destruct t; [congruence | reflexivity]. Qed.

(* two digit sequences without a most-significant zero and with the same value are identical *)
Lemma horner_inj r : 2 <= r -> forall a b,
  digits_in r a -> digits_in r b ->
  (a <> [] -> last a 0 <> 0) -> (b <> [] -> last b 0 <> 0) ->
  horner_le r a = horner_le r b -> a = b.
Proof.
  intros Hr. induction a as [|x a IH]; intros b Ha Hb La Lb He.
  - destruct b as [|y b]; [reflexivity|]. exfalso. apply Lb; [discriminate|].
    apply horner_zero_last with r; [lia | assumption | symmetry; exact He].
  - destruct b as [|y b].
    + exfalso. apply La; [discriminate|]. apply horner_zero_last with r; [lia | assumption | exact He].
    + inversion Ha as [|? ? Hx Ha']; subst. inversion Hb as [|? ? Hy Hb']; subst.
      cbn [horner_le] in He.
      assert (Hk : horner_le r a = horner_le r b).
      { set (k := horner_le r a - horner_le r b). assert (x - y + r * k = 0) by (unfold k; lia).
        assert (k = 0) by nia. unfold k in *; lia. }
      assert (x = y) by (rewrite Hk in He; lia). subst y. f_equal.
      apply IH; try assumption.
      * intros Hne. rewrite <- (last_cons_nonempty x a Hne). apply La; discriminate.
      * intros Hne. rewrite <- (last_cons_nonempty x b Hne). apply Lb; discriminate.
Qed.

Theorem canonical_unique r x a b : 2 <= r -> canonical_le r x a -> canonical_le r x b -> a = b.
Proof.
  intros Hr (Ha & Va & Za & La) (Hb & Vb & Zb & Lb).
  assert (Hx : 0 <= x) by (rewrite <- Va; apply horner_nonneg; [lia | assumption]).
  destruct (Z.eq_dec x 0) as [E|NE].
  - rewrite (Za E), (Zb E). reflexivity.
  - apply (horner_inj r Hr a b Ha Hb).
    + intros _. apply La. lia.
    + intros _. apply Lb. lia.
    + congruence.
Qed.

Lemma canonical_exists_pos r x ds : 0 < x ->
  digits_in r ds -> horner_le r ds = x -> last ds 0 <> 0 -> canonical_le r x ds.
Proof. intros Hx H1 H2 H3. repeat split; auto. lia. Qed.

Lemma canonical_zero r : 0 < r -> canonical_le r 0 [0].
Proof.
  intros Hr. repeat split; auto.
  - constructor; [lia | constructor].
  - cbn [horner_le]. lia.
  - lia.
Qed.

(* last of an append *)
Lemma last_app_nonempty (a b : list Z) : b <> [] -> last (a ++ b) 0 = last b 0.
Proof.
  intros Hb. induction a as [|x a IH]; [reflexivity|].
  cbn [app]. rewrite last_cons_nonempty; [exact IH|]. destruct a; destruct b; cbn; congruence.
Qed.

(* positional value against the base-2^w value of a digit array *)
Lemma horner_uval w ds : horner_le (B w) ds = uval w ds.
Proof. induction ds as [|d t IH]; cbn [horner_le uval]; [reflexivity | rewrite IH; reflexivity]. Qed.

(* Proofs/Mul.v — C02: Model/Mul.v = exact multiplication. *)
From Bnum Require Import Base Prim.
From Bnum.Model Require Import Digit Core Shift AddSub Mul.
From Bnum.Proofs Require Import MulAux.

(* ================= digit level ================= *)

Lemma carrying_mul_spec w a b c cur lo hi : 0 < w ->
  digit_ok w a -> digit_ok w b -> digit_ok w c -> digit_ok w cur ->
  carrying_mul w a b c cur = (lo, hi) ->
  digit_ok w lo /\ digit_ok w hi /\ lo + B w * hi = c + cur + a * b.
Proof.
  intros Hw Ha Hb Hc Hcur E. unfold carrying_mul in E. unfold digit_ok in *.
  pose proof (B_ge_2 w Hw) as HB.
  set (prod := c + cur + a * b) in *.
  assert (Hp : 0 <= prod < B w * B w) by (unfold prod; nia).
  assert (Hq : 0 <= prod / B w < B w).
  { split; [apply Z.div_pos; lia | apply Z.div_lt_upper_bound; lia]. }
  rewrite (Z.mod_small (prod / B w)) in E by lia.
  inversion E; subst; clear E.
  pose proof (Z.mod_pos_bound prod (B w) ltac:(lia)).
  pose proof (Z.div_mod prod (B w) ltac:(lia)). lia.
Qed.

(* ================= one row ================= *)

Lemma mul_zero_test a u : negb (a * u =? 0) = negb (a =? 0) && negb (u =? 0).
Proof.
  destruct (Z.eqb_spec a 0); destruct (Z.eqb_spec u 0); destruct (Z.eqb_spec (a * u) 0);
    cbn [negb andb]; try reflexivity; nia.
Qed.

(* out-of-range columns: the `break` and the plain scan agree *)
Lemma mul_row_nil w ai b carry : 0 <= w -> Forall (digit_ok w) b ->
  mul_row w ai b [] carry = ([], carry, negb (ai =? 0) && negb (uval w b =? 0)).
Proof.
  intros Hw H. pose proof (B_pos w Hw) as HB.
  induction H as [|bj b' Hbj Hb' IH]; cbn [mul_row uval].
  - rewrite andb_false_r. reflexivity.
  - pose proof (uval_nonneg w b' Hw Hb') as Hu. unfold digit_ok in Hbj.
    destruct (Z.eqb_spec ai 0) as [Ea|Ea]; cbn [negb andb].
    + rewrite IH. destruct (Z.eqb_spec ai 0); [reflexivity | lia].
    + destruct (Z.eqb_spec bj 0) as [Eb|Eb]; cbn [negb].
      * rewrite IH. destruct (Z.eqb_spec ai 0); [lia|]. cbn [negb andb]. subst bj.
        destruct (Z.eqb_spec (uval w b') 0); destruct (Z.eqb_spec (0 + B w * uval w b') 0);
          try reflexivity; nia.
      * destruct (Z.eqb_spec (bj + B w * uval w b') 0); [nia | reflexivity].
Qed.

Lemma mul_row_spec w ai : 0 < w -> digit_ok w ai -> forall b k s carry r cf ov,
  Forall (digit_ok w) b -> wf w k s -> (k <= length b)%nat -> digit_ok w carry ->
  mul_row w ai b s carry = (r, cf, ov) ->
  wf w k r /\ digit_ok w cf /\
  uval w r + Mod w k * cf = uval w s + carry + ai * uval w (firstn k b) /\
  ov = negb (ai * uval w (skipn k b) =? 0).
Proof.
  intros Hw Hai. induction b as [|bj b' IH]; intros k s carry r cf ov Hb Hs Hk Hc E.
  - cbn [length] in Hk. assert (k = 0)%nat by lia. subst k. apply wf_inv_0 in Hs. subst s.
    cbn [mul_row] in E. inversion E; subst; clear E.
    cbn [firstn skipn uval]. rewrite Mod_0. rewrite Z.mul_0_r.
    split; [apply wf_nil|]. split; [exact Hc|]. split; [lia | reflexivity].
  - destruct k as [|k'].
    + apply wf_inv_0 in Hs. subst s. rewrite mul_row_nil in E by (auto; lia).
      inversion E; subst; clear E. cbn [firstn skipn]. rewrite Mod_0.
      split; [apply wf_nil|]. split; [exact Hc|]. split; [cbn [uval]; lia|].
      symmetry. apply mul_zero_test.
    + destruct (wf_inv_S _ _ _ Hs) as (o & s' & -> & Ho & Hs').
      inversion Hb as [|? ? Hbj Hb']; subst. cbn [length] in Hk.
      cbn [mul_row] in E.
      destruct (carrying_mul w ai bj carry o) as [p c] eqn:E1.
      destruct (mul_row w ai b' s' c) as [[r' cf'] ov'] eqn:E2.
      inversion E; subst; clear E.
      destruct (carrying_mul_spec _ _ _ _ _ _ _ Hw Hai Hbj Hc Ho E1) as (Hp & Hcd & Hsum).
      destruct (IH k' s' c r' cf ov Hb' Hs' ltac:(lia) Hcd E2) as (Wr & Hcf & Hsum' & Hov).
      split; [apply wf_cons; auto|]. split; [exact Hcf|]. split; [|exact Hov].
      cbn [firstn uval]. rewrite Mod_S by lia.
      assert (B w * (uval w r' + Mod w k' * cf) =
              B w * (uval w s' + c + ai * uval w (firstn k' b'))) by (f_equal; exact Hsum').
      lia.
Qed.

(* ================= all rows ================= *)

(* the arithmetic heart of the row step: T is the exact running total *)
Lemma row_step_arith Bw Mk d Y X T : 0 < Bw -> 0 < Mk -> 0 <= d < Bw -> 0 <= Y -> 0 <= X ->
  T = d + Bw * Y + Bw * Mk * X ->
  T mod (Bw * Mk) = d + Bw * (Y mod Mk) /\
  (Bw * Mk <=? T) = negb (X =? 0) || (Mk <=? Y).
Proof.
  intros HB HM Hd HY HX HT.
  pose proof (Z.mod_pos_bound Y Mk HM) as Hm. pose proof (Z.div_mod Y Mk ltac:(lia)) as Hdm.
  split.
  - symmetry. apply Z.mod_unique_pos with (q := X + Y / Mk); nia.
  - destruct (Z.eqb_spec X 0) as [EX|EX]; cbn [negb orb].
    + subst X. destruct (Z.leb_spec (Bw * Mk) T); destruct (Z.leb_spec Mk Y); try reflexivity; nia.
    + destruct (Z.leb_spec (Bw * Mk) T); [reflexivity | nia].
Qed.

Lemma long_mul_loop_spec w b : 0 < w -> Forall (digit_ok w) b -> forall a k s ovf r f,
  wf w k a -> wf w k s -> (k <= length b)%nat ->
  long_mul_loop w a b s ovf = (r, f) ->
  wf w k r /\ uval w r = (uval w s + uval w a * uval w b) mod Mod w k /\
  f = ovf || (Mod w k <=? uval w s + uval w a * uval w b).
Proof.
  intros Hw Hb. pose proof (B_pos w ltac:(lia)) as HB.
  induction a as [|ai a' IH]; intros k s ovf r f Ha Hs Hk E.
  - destruct Ha as [Hl _]. cbn [length] in Hl. subst k. apply wf_inv_0 in Hs. subst s.
    cbn [long_mul_loop] in E. inversion E; subst; clear E.
    split; [apply wf_nil|]. rewrite Mod_0. cbn [uval]. rewrite Z.mod_1_r.
    split; [reflexivity|]. replace (0 + 0 * uval w b) with 0 by lia.
    change (1 <=? 0) with false. rewrite orb_false_r. reflexivity.
  - destruct k as [|k']; [destruct Ha as [Hl _]; discriminate|].
    apply wf_cons in Ha. destruct Ha as [Hai Ha'].
    cbn [long_mul_loop] in E.
    destruct (mul_row w ai b s 0) as [[s1 carry] ov1] eqn:E1.
    destruct (mul_row_spec w ai Hw Hai b (S k') s 0 s1 carry ov1 Hb Hs Hk (digit_ok_0 w ltac:(lia)) E1)
      as (Ws1 & Hcarry & Hsum & Hov).
    destruct (wf_inv_S _ _ _ Ws1) as (d & rest & -> & Hd & Wrest).
    destruct (long_mul_loop w a' b rest (ovf || ov1 || negb (carry =? 0))) as [r' o] eqn:E2.
    inversion E; subst r f; clear E.
    destruct (IH k' rest _ r' o Ha' Wrest ltac:(lia) E2) as (Wr' & Ur' & Fo).
    pose proof (uval_split w (S k') b ltac:(lia) Hk) as Hsplit.
    set (lo := uval w (firstn (S k') b)) in *. set (hi := uval w (skipn (S k') b)) in *.
    assert (Hhi : 0 <= hi) by (apply uval_nonneg; [lia | apply Forall_skipn; exact Hb]).
    pose proof (uval_nonneg w rest ltac:(lia) (wf_Forall _ _ _ Wrest)) as HR.
    pose proof (uval_nonneg w a' ltac:(lia) (wf_Forall _ _ _ Ha')) as HA'.
    pose proof (uval_nonneg w b ltac:(lia) Hb) as HBv.
    pose proof (Mod_pos w k' ltac:(lia)) as HMk.
    cbn [uval] in Hsum |- *. rewrite (Mod_S w k') in Hsum, Hsplit |- * by lia.
    set (Bv := uval w b) in *. set (R := uval w rest) in *. set (A' := uval w a') in *.
    set (Mk := Mod w k') in *. set (S0 := uval w s) in *.
    unfold digit_ok in Hd, Hai, Hcarry.
    assert (HX : 0 <= carry + ai * hi) by nia.
    assert (HY : 0 <= R + A' * Bv) by nia.
    assert (HT : S0 + (ai + B w * A') * Bv =
                 d + B w * (R + A' * Bv) + B w * Mk * (carry + ai * hi)).
    { rewrite Hsplit. nia. }
    destruct (row_step_arith (B w) Mk d (R + A' * Bv) (carry + ai * hi) _ HB HMk Hd HY HX HT)
      as [Hmod Hflag].
    split; [apply wf_cons; auto|]. split.
    + rewrite Hmod, Ur'. reflexivity.
    + rewrite Fo, Hflag, Hov. fold hi.
      assert (Hz : negb (carry + ai * hi =? 0) = negb (ai * hi =? 0) || negb (carry =? 0)).
      { destruct (Z.eqb_spec (carry + ai * hi) 0); destruct (Z.eqb_spec (ai * hi) 0);
          destruct (Z.eqb_spec carry 0); cbn [negb orb]; try reflexivity; nia. }
      rewrite Hz. rewrite !orb_assoc. reflexivity.
Qed.

(* ================= item 1: long_mul ================= *)

Theorem long_mul_ok w n a b : 0 < w -> wf w n a -> wf w n b ->
  let '(r, f) := long_mul w a b in
  wf w n r /\ uval w r = (uval w a * uval w b) mod Mod w n /\
  f = (Mod w n <=? uval w a * uval w b).
Proof.
  intros Hw Ha Hb. destruct (long_mul w a b) as [r f] eqn:E. unfold long_mul in E.
  rewrite (wf_length _ _ _ Ha) in E.
  destruct (long_mul_loop_spec w b Hw (wf_Forall _ _ _ Hb) a n (ZERO n) false r f Ha
              (wf_ZERO w n ltac:(lia)) ltac:(rewrite (wf_length _ _ _ Hb); lia) E) as (Wr & Ur & Fr).
  rewrite uval_ZERO in Ur, Fr. cbn [orb] in Fr.
  replace (0 + uval w a * uval w b) with (uval w a * uval w b) in * by lia. auto.
Qed.

Theorem U_overflowing_mul_ok w n a b : 0 < w -> wf w n a -> wf w n b ->
  let '(r, f) := U_overflowing_mul w a b in
  wf w n r /\ uval w r = (uval w a * uval w b) mod Mod w n /\
  f = (Mod w n <=? uval w a * uval w b).
Proof. exact (long_mul_ok w n a b). Qed.

(* ================= item 4, unsigned projections ================= *)

Lemma prod_nonneg w n a b : 0 < w -> wf w n a -> wf w n b -> 0 <= uval w a * uval w b.
Proof.
  intros Hw Ha Hb. pose proof (uval_bounds w _ _ ltac:(lia) Ha). pose proof (uval_bounds w _ _ ltac:(lia) Hb). nia.
Qed.

Theorem U_checked_mul_ok w n a b : 0 < w -> wf w n a -> wf w n b ->
  match U_checked_mul w a b with
  | None => Mod w n <= uval w a * uval w b
  | Some r => wf w n r /\ uval w r = uval w a * uval w b /\ uval w a * uval w b < Mod w n
  end.
Proof.
  intros Hw Ha Hb. pose proof (U_overflowing_mul_ok w n a b Hw Ha Hb) as H.
  pose proof (prod_nonneg w n a b Hw Ha Hb) as Hp.
  unfold U_checked_mul, tuple_to_option. destruct (U_overflowing_mul w a b) as [r f].
  destruct H as (Wr & Ur & Fr). cbn [fst snd].
  destruct (Z.leb_spec (Mod w n) (uval w a * uval w b)); subst f; [assumption|].
  rewrite Z.mod_small in Ur by lia. auto.
Qed.

Theorem U_wrapping_mul_ok w n a b : 0 < w -> wf w n a -> wf w n b ->
  wf w n (U_wrapping_mul w a b) /\
  uval w (U_wrapping_mul w a b) = (uval w a * uval w b) mod Mod w n.
Proof.
  intros Hw Ha Hb. pose proof (U_overflowing_mul_ok w n a b Hw Ha Hb) as H.
  unfold U_wrapping_mul. destruct (U_overflowing_mul w a b) as [r f]. cbn [fst]. tauto.
Qed.

Theorem U_saturating_mul_ok w n a b : 0 < w -> wf w n a -> wf w n b ->
  wf w n (U_saturating_mul w a b) /\
  uval w (U_saturating_mul w a b) = Z.min (Mod w n - 1) (uval w a * uval w b).
Proof.
  intros Hw Ha Hb. pose proof (U_overflowing_mul_ok w n a b Hw Ha Hb) as H.
  pose proof (prod_nonneg w n a b Hw Ha Hb) as Hp.
  unfold U_saturating_mul, saturate_up. destruct (U_overflowing_mul w a b) as [r f].
  destruct H as (Wr & Ur & Fr). cbn [fst snd].
  destruct (Z.leb_spec (Mod w n) (uval w a * uval w b)); subst f.
  - rewrite (wf_length _ _ _ Wr). split; [apply wf_UMAX; lia|].
    rewrite uval_UMAX by lia. lia.
  - split; [exact Wr|]. rewrite Ur, Z.mod_small by lia. lia.
Qed.

Theorem U_strict_mul_ok w n a b : 0 < w -> wf w n a -> wf w n b ->
  match U_strict_mul w a b with
  | Panic => Mod w n <= uval w a * uval w b
  | Ret r => wf w n r /\ uval w r = uval w a * uval w b /\ uval w a * uval w b < Mod w n
  end.
Proof.
  intros Hw Ha Hb. pose proof (U_checked_mul_ok w n a b Hw Ha Hb) as H.
  unfold U_strict_mul, option_expect. destruct (U_checked_mul w a b); exact H.
Qed.

(* if flag then (if dbg then Panic else Ret wrapped) else Ret exact *)
Theorem U_mul_ok dbg w n a b : 0 < w -> wf w n a -> wf w n b ->
  match U_mul dbg w a b with
  | Panic => dbg = true /\ Mod w n <= uval w a * uval w b
  | Ret r => wf w n r /\ uval w r = (uval w a * uval w b) mod Mod w n /\
             (dbg = true -> uval w a * uval w b < Mod w n /\ uval w r = uval w a * uval w b)
  end.
Proof.
  intros Hw Ha Hb. unfold U_mul. destruct dbg.
  - pose proof (U_strict_mul_ok w n a b Hw Ha Hb) as H.
    pose proof (prod_nonneg w n a b Hw Ha Hb) as Hp.
    destruct (U_strict_mul w a b) as [r|]; [|auto].
    destruct H as (Wr & Ur & Hlt). split; [exact Wr|]. split; [|auto].
    rewrite Z.mod_small by lia. exact Ur.
  - destruct (U_wrapping_mul_ok w n a b Hw Ha Hb) as [Wr Ur].
    split; [exact Wr|]. split; [exact Ur | discriminate].
Qed.

(* ================= item 2: widening / carrying ================= *)

Lemma wide_row_mul_row w ai b : forall s t z carry, length s = length b ->
  wide_row w ai b (s ++ t :: z) carry =
  let '(r, cf, _) := mul_row w ai b s carry in r ++ cf :: z.
Proof.
  induction b as [|bj b' IH]; intros s t z carry Hl.
  - destruct s; [|discriminate]. reflexivity.
  - destruct s as [|o s']; [discriminate|]. cbn [length] in Hl.
    cbn [app wide_row mul_row]. destruct (carrying_mul w ai bj carry o) as [p c].
    rewrite IH by lia. destruct (mul_row w ai b' s' c) as [[r cf] ov]. reflexivity.
Qed.

Lemma wide_loop_spec w b : 0 < w -> Forall (digit_ok w) b -> forall a k s,
  wf w k a -> wf w (length b) s ->
  wf w (length b + k) (wide_loop w a b (s ++ repeat 0 k)) /\
  uval w (wide_loop w a b (s ++ repeat 0 k)) = uval w s + uval w a * uval w b.
Proof.
  intros Hw Hb. induction a as [|ai a' IH]; intros k s Ha Hs.
  - destruct Ha as [Hl _]. cbn [length] in Hl. subst k. cbn [repeat wide_loop uval].
    rewrite app_nil_r, Nat.add_0_r. split; [exact Hs | lia].
  - destruct k as [|k']; [destruct Ha as [Hl _]; discriminate|].
    apply wf_cons in Ha. destruct Ha as [Hai Ha'].
    cbn [repeat wide_loop]. rewrite wide_row_mul_row by (apply (wf_length _ _ _ Hs)).
    destruct (mul_row w ai b s 0) as [[r1 cf] ov] eqn:E1.
    destruct (mul_row_spec w ai Hw Hai b (length b) s 0 r1 cf ov Hb Hs (le_n _)
                (digit_ok_0 w ltac:(lia)) E1) as (Wr1 & Hcf & Hsum & _).
    rewrite firstn_all in Hsum.
    replace (r1 ++ cf :: repeat 0 k') with ((r1 ++ [cf]) ++ repeat 0 k')
      by (rewrite <- app_assoc; reflexivity).
    assert (W2 : wf w (length b + 1) (r1 ++ [cf])).
    { apply wf_app; [exact Wr1|]. apply wf_cons. split; [exact Hcf | apply wf_nil]. }
    assert (U2 : uval w (r1 ++ [cf]) = uval w r1 + Mod w (length b) * cf).
    { rewrite uval_app by lia. rewrite (wf_length _ _ _ Wr1). cbn [uval]. lia. }
    replace (length b + 1)%nat with (S (length b)) in W2 by lia.
    destruct (wf_inv_S _ _ _ W2) as (d & s' & Es & Hd & Ws'). rewrite Es in U2 |- *.
    cbn [app]. destruct (IH k' s' Ha' Ws') as (Wr & Ur).
    split.
    + replace (length b + S k')%nat with (S (length b + k')) by lia. apply wf_cons; auto.
    + cbn [uval] in U2 |- *. rewrite Ur. lia.
Qed.

Theorem U_widening_mul_ok w n a b : 0 < w -> wf w n a -> wf w n b ->
  let '(lo, hi) := U_widening_mul w a b in
  wf w n lo /\ wf w n hi /\ uval w lo + Mod w n * uval w hi = uval w a * uval w b.
Proof.
  intros Hw Ha Hb. unfold U_widening_mul. rewrite (wf_length _ _ _ Ha).
  unfold ZERO. rewrite repeat_app.
  pose proof (wide_loop_spec w b Hw (wf_Forall _ _ _ Hb) a n (repeat 0 n) Ha) as H.
  rewrite (wf_length _ _ _ Hb) in H.
  destruct (H (wf_repeat w 0 n (digit_ok_0 w ltac:(lia)))) as (Wr & Ur).
  rewrite uval_repeat0 in Ur.
  destruct (wf_split w n n _ ltac:(lia) Wr) as (W1 & W2 & Us).
  split; [exact W1|]. split; [exact W2|]. lia.
Qed.

Theorem U_carrying_mul_ok w n a b c : 0 < w -> wf w n a -> wf w n b -> wf w n c ->
  let '(lo, hi) := U_carrying_mul w a b c in
  wf w n lo /\ wf w n hi /\
  uval w lo + Mod w n * uval w hi = uval w a * uval w b + uval w c.
Proof.
  intros Hw Ha Hb Hc. pose proof (U_widening_mul_ok w n a b Hw Ha Hb) as H.
  unfold U_carrying_mul. destruct (U_widening_mul w a b) as [low high].
  destruct H as (Wl & Wh & Hprod). unfold U_overflowing_add.
  destruct (add_loop w low c false) as [low' ov] eqn:E1.
  destruct (add_loop_spec w Hw n low c false low' ov Wl Hc E1) as (Wl' & Hsum).
  destruct ov.
  - unfold U_wrapping_add, U_overflowing_add. rewrite (wf_length _ _ _ Ha).
    destruct (add_loop w high (ONE n) false) as [h' o2] eqn:E2. cbn [fst].
    assert (Hn : (0 < n)%nat).
    { destruct n; [|lia]. apply wf_inv_0 in Wl, Hc. subst. cbn [add_loop] in E1. discriminate. }
    destruct (add_loop_spec w Hw n high (ONE n) false h' o2 Wh (wf_ONE w n Hw) E2) as (Wh' & Hsum2).
    rewrite (uval_ONE w n Hn) in Hsum2.
    split; [exact Wl'|]. split; [exact Wh'|].
    pose proof (uval_bounds w _ _ ltac:(lia) Ha). pose proof (uval_bounds w _ _ ltac:(lia) Hb).
    pose proof (uval_bounds w _ _ ltac:(lia) Hc). pose proof (uval_bounds w _ _ ltac:(lia) Wl').
    pose proof (uval_bounds w _ _ ltac:(lia) Wh'). pose proof (uval_bounds w _ _ ltac:(lia) Wh).
    pose proof (uval_bounds w _ _ ltac:(lia) Wl).
    set (M := Mod w n) in *.
    destruct o2; [|lia]. exfalso.
    (* hi + 1 = M would force A*B + C >= M*M *)
    assert (uval w high = M - 1) by lia.
    assert (uval w a * uval w b <= (M - 1) * (M - 1)) by nia. nia.
  - split; [exact Wl'|]. split; [exact Wh|]. lia.
Qed.

(* ================= item 3: signed multiplication ================= *)

Lemma is_negative_uval' w n a : 0 < w -> (0 < n)%nat -> wf w n a ->
  is_negative w a = (Mod w n / 2 <=? uval w a).
Proof. intros Hw Hn Ha. destruct n as [|k]; [lia|]. apply is_negative_uval; auto. Qed.

Lemma inS_false M x : inS M x = false <-> x < - (M / 2) \/ M / 2 <= x.
Proof.
  unfold inS. rewrite andb_false_iff, Z.leb_gt, Z.ltb_ge. tauto.
Qed.

Lemma flag_same M h P : M = 2 * h -> 0 < h -> 0 <= P ->
  (M <=? P) || (h <=? P mod M) = negb ((- h <=? P) && (P <? h)).
Proof.
  intros HM Hh HP. destruct (Z.leb_spec M P); cbn [orb].
  - destruct (Z.leb_spec (- h) P); destruct (Z.ltb_spec P h); cbn [negb andb]; try reflexivity; lia.
  - rewrite Z.mod_small by lia.
    destruct (Z.leb_spec h P); destruct (Z.leb_spec (- h) P); destruct (Z.ltb_spec P h);
      cbn [negb andb]; try reflexivity; lia.
Qed.

Lemma flag_diff_none M h P : M = 2 * h -> 0 < h -> 0 <= P -> P mod M = h ->
  (M <=? P) = negb ((- h <=? - P) && (- P <? h)).
Proof.
  intros HM Hh HP Hm. destruct (Z.leb_spec M P).
  - destruct (Z.leb_spec (- h) (- P)); destruct (Z.ltb_spec (- P) h); cbn [negb andb]; try reflexivity; lia.
  - rewrite Z.mod_small in Hm by lia.
    destruct (Z.leb_spec (- h) (- P)); destruct (Z.ltb_spec (- P) h); cbn [negb andb]; try reflexivity; lia.
Qed.

Lemma flag_diff_some M h P : M = 2 * h -> 0 < h -> 0 <= P -> P mod M <> h ->
  (M <=? P) || (h <=? P mod M) = negb ((- h <=? - P) && (- P <? h)).
Proof.
  intros HM Hh HP Hm. destruct (Z.leb_spec M P); cbn [orb].
  - destruct (Z.leb_spec (- h) (- P)); destruct (Z.ltb_spec (- P) h); cbn [negb andb]; try reflexivity; lia.
  - rewrite Z.mod_small in * by lia.
    destruct (Z.leb_spec h P); destruct (Z.leb_spec (- h) (- P)); destruct (Z.ltb_spec (- P) h);
      cbn [negb andb]; try reflexivity; lia.
Qed.

Theorem I_overflowing_mul_ok w n a b : 0 < w -> (0 < n)%nat -> wf w n a -> wf w n b ->
  let '(r, f) := I_overflowing_mul w a b in
  wf w n r /\ sval w r = wrapS (Mod w n) (sval w a * sval w b) /\
  f = negb (inS (Mod w n) (sval w a * sval w b)).
Proof.
  intros Hw Hn Ha Hb. unfold I_overflowing_mul.
  destruct (I_unsigned_abs_spec w n a Hw Hn Ha) as [Wa Ua].
  destruct (I_unsigned_abs_spec w n b Hw Hn Hb) as [Wb Ub].
  pose proof (U_overflowing_mul_ok w n _ _ Hw Wa Wb) as H.
  destruct (U_overflowing_mul w (I_unsigned_abs w a) (I_unsigned_abs w b)) as [out ovf].
  destruct H as (Wo & Uo & Fo). rewrite Ua, Ub in Uo, Fo.
  rewrite (is_negative_sval w n a Hw Hn Ha), (is_negative_sval w n b Hw Hn Hb).
  rewrite (is_negative_uval' w n out Hw Hn Wo).
  pose proof (Mod_even w n Hw Hn) as He. pose proof (Mod_pos w n ltac:(lia)) as HM.
  unfold inS.
  set (SA := sval w a) in *. set (SB := sval w b) in *. set (M := Mod w n) in *.
  remember (M / 2) as h eqn:Eh.
  set (P := Z.abs SA * Z.abs SB) in *.
  assert (HP : 0 <= P) by (unfold P; pose proof (Z.abs_nonneg SA); pose proof (Z.abs_nonneg SB); nia).
  destruct (Bool.eqb (SA <? 0) (SB <? 0)) eqn:Es.
  - assert (EP : P = SA * SB).
    { unfold P. destruct (Z.ltb_spec SA 0); destruct (Z.ltb_spec SB 0); try discriminate Es.
      - rewrite (Z.abs_neq SA), (Z.abs_neq SB) by lia. ring.
      - rewrite (Z.abs_eq SA), (Z.abs_eq SB) by lia. ring. }
    split; [exact Wo|]. split.
    + apply sval_unique; auto. fold M. rewrite Uo, Z.mod_mod, EP by lia. reflexivity.
    + rewrite Fo, Uo, <- EP. apply flag_same; lia.
  - assert (EP : SA * SB = - P).
    { unfold P. destruct (Z.ltb_spec SA 0); destruct (Z.ltb_spec SB 0); try discriminate Es.
      - rewrite (Z.abs_neq SA), (Z.abs_eq SB) by lia. ring.
      - rewrite (Z.abs_eq SA), (Z.abs_neq SB) by lia. ring. }
    pose proof (I_checked_neg_uval w n out Hw Hn Wo) as Hc. fold M in Hc. rewrite <- Eh in Hc.
    destruct (I_checked_neg w out) as [m|].
    + destruct Hc as (Wm & Um & Hne). split; [exact Wm|]. split.
      * apply sval_unique; auto. fold M.
        rewrite Um, Z.mod_mod, Uo, opp_mod_idemp, EP by lia. reflexivity.
      * rewrite Fo, Uo, EP. apply flag_diff_some; lia.
    + split; [exact Wo|]. split.
      * apply sval_unique; auto. fold M. rewrite EP, <- (opp_mod_idemp P), <- Uo, Hc by lia.
        replace (- h) with (h + (-1) * M) by lia. rewrite Z_mod_plus_full. reflexivity.
      * rewrite Fo, EP. apply flag_diff_none; lia.
Qed.

(* ================= item 4, signed projections ================= *)

Theorem I_checked_mul_ok w n a b : 0 < w -> (0 < n)%nat -> wf w n a -> wf w n b ->
  match I_checked_mul w a b with
  | None => sval w a * sval w b < - (Mod w n / 2) \/ Mod w n / 2 <= sval w a * sval w b
  | Some r => wf w n r /\ sval w r = sval w a * sval w b /\
              - (Mod w n / 2) <= sval w a * sval w b < Mod w n / 2
  end.
Proof.
  intros Hw Hn Ha Hb. pose proof (I_overflowing_mul_ok w n a b Hw Hn Ha Hb) as H.
  unfold I_checked_mul, tuple_to_option. destruct (I_overflowing_mul w a b) as [r f].
  destruct H as (Wr & Sr & Fr). cbn [fst snd].
  destruct (inS (Mod w n) (sval w a * sval w b)) eqn:Ei; subst f; cbn [negb].
  - apply inS_true in Ei. split; [exact Wr|]. split; [|exact Ei].
    rewrite Sr. apply wrapS_id; auto; [apply Mod_pos; lia | apply Mod_even; auto].
  - apply inS_false in Ei. exact Ei.
Qed.

(* wrapping_mul is the unsigned product of the bit patterns, read back as signed *)
Theorem I_wrapping_mul_ok w n a b : 0 < w -> (0 < n)%nat -> wf w n a -> wf w n b ->
  wf w n (I_wrapping_mul w a b) /\
  sval w (I_wrapping_mul w a b) = wrapS (Mod w n) (sval w a * sval w b).
Proof.
  intros Hw Hn Ha Hb. unfold I_wrapping_mul.
  destruct (U_wrapping_mul_ok w n a b Hw Ha Hb) as [Wr Ur].
  pose proof (Mod_pos w n ltac:(lia)) as HM.
  split; [exact Wr|]. apply sval_unique; auto.
  rewrite Ur, Z.mod_mod by lia.
  rewrite (Zmult_mod (sval w a) (sval w b)).
  rewrite (sval_mod _ _ _ Hw Ha), (sval_mod _ _ _ Hw Hb), <- Zmult_mod. reflexivity.
Qed.

Theorem I_saturating_mul_ok w n a b : 0 < w -> (0 < n)%nat -> wf w n a -> wf w n b ->
  wf w n (I_saturating_mul w a b) /\
  sval w (I_saturating_mul w a b) =
    Z.max (- (Mod w n / 2)) (Z.min (Mod w n / 2 - 1) (sval w a * sval w b)).
Proof.
  intros Hw Hn Ha Hb. pose proof (I_checked_mul_ok w n a b Hw Hn Ha Hb) as H.
  unfold I_saturating_mul. destruct (I_checked_mul w a b) as [r|].
  - destruct H as (Wr & Sr & Hr). split; [exact Wr|]. rewrite Sr. lia.
  - rewrite (is_negative_sval w n a Hw Hn Ha), (is_negative_sval w n b Hw Hn Hb).
    rewrite (wf_length _ _ _ Ha).
    destruct (IMAX_spec w n Hw Hn) as [Wmax Smax]. destruct (IMIN_spec w n Hw Hn) as [Wmin Smin].
    pose proof (Mod_even w n Hw Hn) as He. pose proof (Mod_pos w n ltac:(lia)) as HM.
    set (SA := sval w a) in *. set (SB := sval w b) in *.
    destruct (Z.ltb_spec SA 0); destruct (Z.ltb_spec SB 0); cbn [Bool.eqb].
    + split; [exact Wmax|]. rewrite Smax. assert (0 <= SA * SB) by nia. lia.
    + split; [exact Wmin|]. rewrite Smin. assert (SA * SB <= 0) by nia. lia.
    + split; [exact Wmin|]. rewrite Smin. assert (SA * SB <= 0) by nia. lia.
    + split; [exact Wmax|]. rewrite Smax. assert (0 <= SA * SB) by nia. lia.
Qed.

Theorem I_strict_mul_ok w n a b : 0 < w -> (0 < n)%nat -> wf w n a -> wf w n b ->
  match I_strict_mul w a b with
  | Panic => sval w a * sval w b < - (Mod w n / 2) \/ Mod w n / 2 <= sval w a * sval w b
  | Ret r => wf w n r /\ sval w r = sval w a * sval w b /\
             - (Mod w n / 2) <= sval w a * sval w b < Mod w n / 2
  end.
Proof.
  intros Hw Hn Ha Hb. pose proof (I_checked_mul_ok w n a b Hw Hn Ha Hb) as H.
  unfold I_strict_mul, option_expect. destruct (I_checked_mul w a b); exact H.
Qed.

Theorem I_mul_ok dbg w n a b : 0 < w -> (0 < n)%nat -> wf w n a -> wf w n b ->
  match I_mul dbg w a b with
  | Panic => dbg = true /\
             (sval w a * sval w b < - (Mod w n / 2) \/ Mod w n / 2 <= sval w a * sval w b)
  | Ret r => wf w n r /\ sval w r = wrapS (Mod w n) (sval w a * sval w b) /\
             (dbg = true -> - (Mod w n / 2) <= sval w a * sval w b < Mod w n / 2 /\
                            sval w r = sval w a * sval w b)
  end.
Proof.
  intros Hw Hn Ha Hb. unfold I_mul. destruct dbg.
  - pose proof (I_strict_mul_ok w n a b Hw Hn Ha Hb) as H.
    destruct (I_strict_mul w a b) as [r|]; [|auto].
    destruct H as (Wr & Sr & Hr). split; [exact Wr|]. split; [|auto].
    rewrite Sr. symmetry. apply wrapS_id; auto; [apply Mod_pos; lia | apply Mod_even; auto].
  - destruct (I_wrapping_mul_ok w n a b Hw Hn Ha Hb) as [Wr Sr].
    split; [exact Wr|]. split; [exact Sr | discriminate].
Qed.

(* Proofs/GlueTieC04.v — glue functions of C04 (the operator trait impls of src/int/ops.rs (impls!), src/buint/ops.rs, src/bint/ops.rs that forward to the inherent methods: Add Sub Mul Div Rem Neg Not BitAnd BitOr BitXor, Div / Rem by a digit, Shl / Shr for the twelve primitive amount types (shift_impl!, try_shift_impl! expansions: widening cast, or u32::try_from + expect in debug builds and `as u32` otherwise)): generated (Generated/Glue.v) = hand-written model.
   One file per property so that an edit of one family's source breaks only that property's check.
   Boiler-plate written by tools/mk_gluetie.py from its SPEC table; the statements are fixed by committing this file. *)
From Bnum Require Import Base Prim.
From Bnum.Model Require Import Digit Core Shift AddSub Mul Div Bits Pow.
From Bnum.Generated Require Import Glue.
From Bnum.Proofs Require Import GlueTieCommon.

From Bnum.Model Require Ops.
(* try_shift_impl!: `result_expect!(u32::try_from(rhs))` in debug builds / `rhs as u32` otherwise = Ops.amt_to_exptype *)
Ltac glue_amt_tac :=
  intros;
  lazymatch goal with
  | |- ?l = ?r => let hl := glue_head l in let hr := glue_head r in unfold hl, hr
  end;
  unfold Ops.amt_to_exptype, option_expect;
  lazymatch goal with
  | |- context [if ?d then _ else _] =>
      destruct d; [ match goal with |- context [if ?c then Some _ else None] => destruct c end | ]; reflexivity
  end.

Lemma glue_U_Add_add : forall dbg w a b, Glue.U_Add_add dbg w a b = U_add dbg w a b.
Proof. glue_tac. Qed.
Lemma glue_U_Mul_mul : forall dbg w a b, Glue.U_Mul_mul dbg w a b = U_mul dbg w a b.
Proof. glue_tac. Qed.
Lemma glue_U_Sub_sub : forall dbg w a b, Glue.U_Sub_sub dbg w a b = U_sub dbg w a b.
Proof. glue_tac. Qed.
Lemma glue_I_Add_add : forall dbg w a b, Glue.I_Add_add dbg w a b = I_add dbg w a b.
Proof. glue_tac. Qed.
Lemma glue_I_Mul_mul : forall dbg w a b, Glue.I_Mul_mul dbg w a b = I_mul dbg w a b.
Proof. glue_tac. Qed.
Lemma glue_I_Sub_sub : forall dbg w a b, Glue.I_Sub_sub dbg w a b = I_sub dbg w a b.
Proof. glue_tac. Qed.
Lemma glue_U_Not_ref_not : forall w a, Glue.U_Not_ref_not w a = bitnot w a.
Proof. glue_tac. Qed.
Lemma glue_I_Not_ref_not : forall w a, Glue.I_Not_ref_not w a = bitnot w a.
Proof. glue_tac. Qed.
Lemma glue_U_Shl_ExpType_shl : forall dbg w a k, Glue.U_Shl_ExpType_shl dbg w a k = Ops.U_Shl_prim dbg w Ops.AU32 a k.
Proof. glue_tac. Qed.
Lemma glue_U_Shr_ExpType_shr : forall dbg w a k, Glue.U_Shr_ExpType_shr dbg w a k = Ops.U_Shr_prim dbg w Ops.AU32 a k.
Proof. glue_tac. Qed.
Lemma glue_I_Shl_ExpType_shl : forall dbg w a k, Glue.I_Shl_ExpType_shl dbg w a k = Ops.I_Shl_prim dbg w Ops.AU32 a k.
Proof. glue_tac. Qed.
Lemma glue_I_Shr_ExpType_shr : forall dbg w a k, Glue.I_Shr_ExpType_shr dbg w a k = Ops.I_Shr_prim dbg w Ops.AU32 a k.
Proof. glue_tac. Qed.
Lemma glue_U_BitAnd_bitand : forall w a b, Glue.U_BitAnd_bitand w a b = bitand a b.
Proof. glue_tac. Qed.
Lemma glue_U_BitOr_bitor : forall w a b, Glue.U_BitOr_bitor w a b = bitor a b.
Proof. glue_tac. Qed.
Lemma glue_U_BitXor_bitxor : forall w a b, Glue.U_BitXor_bitxor w a b = bitxor a b.
Proof. glue_tac. Qed.
Lemma glue_U_Div_div : forall w a b, Glue.U_Div_div w a b = U_div w a b.
Proof. glue_tac. Qed.
Lemma glue_U_Rem_rem : forall w a b, Glue.U_Rem_rem w a b = U_rem w a b.
Proof. glue_tac. Qed.
Lemma glue_U_Not_not : forall w a, Glue.U_Not_not w a = bitnot w a.
Proof. glue_tac. Qed.
Lemma glue_U_Div_digit_div : forall w a k, Glue.U_Div_digit_div w a k = Ops.U_Div_digit w a k.
Proof. glue_tac. Qed.
Lemma glue_U_Rem_digit_rem : forall w a k, Glue.U_Rem_digit_rem w a k = Ops.U_Rem_digit w a k.
Proof. glue_tac. Qed.
Lemma glue_I_Neg_neg : forall dbg w a, Glue.I_Neg_neg dbg w a = I_neg dbg w a.
Proof. glue_tac. Qed.
Lemma glue_I_Neg_ref_neg : forall dbg w a, Glue.I_Neg_ref_neg dbg w a = I_neg dbg w a.
Proof. glue_tac. Qed.
Lemma glue_I_BitAnd_bitand : forall w a b, Glue.I_BitAnd_bitand w a b = bitand a b.
Proof. glue_tac. Qed.
Lemma glue_I_BitOr_bitor : forall w a b, Glue.I_BitOr_bitor w a b = bitor a b.
Proof. glue_tac. Qed.
Lemma glue_I_BitXor_bitxor : forall w a b, Glue.I_BitXor_bitxor w a b = bitxor a b.
Proof. glue_tac. Qed.
Lemma glue_I_Div_div : forall dbg w a b, Glue.I_Div_div dbg w a b = I_div dbg w a b.
Proof. glue_tac. Qed.
Lemma glue_I_Rem_rem : forall dbg w a b, Glue.I_Rem_rem dbg w a b = I_rem dbg w a b.
Proof. glue_tac. Qed.
Lemma glue_I_Not_not : forall w a, Glue.I_Not_not w a = bitnot w a.
Proof. glue_tac. Qed.
Lemma glue_U_Shl_u8_shl : forall dbg w a k, Glue.U_Shl_u8_shl dbg w a k = Ops.U_Shl_prim dbg w Ops.AU8 a k.
Proof. glue_tac. Qed.
Lemma glue_I_Shl_u8_shl : forall dbg w a k, Glue.I_Shl_u8_shl dbg w a k = Ops.I_Shl_prim dbg w Ops.AU8 a k.
Proof. glue_tac. Qed.
Lemma glue_U_Shl_u16_shl : forall dbg w a k, Glue.U_Shl_u16_shl dbg w a k = Ops.U_Shl_prim dbg w Ops.AU16 a k.
Proof. glue_tac. Qed.
Lemma glue_I_Shl_u16_shl : forall dbg w a k, Glue.I_Shl_u16_shl dbg w a k = Ops.I_Shl_prim dbg w Ops.AU16 a k.
Proof. glue_tac. Qed.
Lemma glue_U_Shl_i8_shl : forall dbg w a k, Glue.U_Shl_i8_shl dbg w a k = Ops.U_Shl_prim dbg w Ops.AI8 a k.
Proof. glue_amt_tac. Qed.
Lemma glue_I_Shl_i8_shl : forall dbg w a k, Glue.I_Shl_i8_shl dbg w a k = Ops.I_Shl_prim dbg w Ops.AI8 a k.
Proof. glue_amt_tac. Qed.
Lemma glue_U_Shl_i16_shl : forall dbg w a k, Glue.U_Shl_i16_shl dbg w a k = Ops.U_Shl_prim dbg w Ops.AI16 a k.
Proof. glue_amt_tac. Qed.
Lemma glue_I_Shl_i16_shl : forall dbg w a k, Glue.I_Shl_i16_shl dbg w a k = Ops.I_Shl_prim dbg w Ops.AI16 a k.
Proof. glue_amt_tac. Qed.
Lemma glue_U_Shl_i32_shl : forall dbg w a k, Glue.U_Shl_i32_shl dbg w a k = Ops.U_Shl_prim dbg w Ops.AI32 a k.
Proof. glue_amt_tac. Qed.
Lemma glue_I_Shl_i32_shl : forall dbg w a k, Glue.I_Shl_i32_shl dbg w a k = Ops.I_Shl_prim dbg w Ops.AI32 a k.
Proof. glue_amt_tac. Qed.
Lemma glue_U_Shl_isize_shl : forall dbg w a k, Glue.U_Shl_isize_shl dbg w a k = Ops.U_Shl_prim dbg w Ops.AIsize a k.
Proof. glue_amt_tac. Qed.
Lemma glue_I_Shl_isize_shl : forall dbg w a k, Glue.I_Shl_isize_shl dbg w a k = Ops.I_Shl_prim dbg w Ops.AIsize a k.
Proof. glue_amt_tac. Qed.
Lemma glue_U_Shl_i64_shl : forall dbg w a k, Glue.U_Shl_i64_shl dbg w a k = Ops.U_Shl_prim dbg w Ops.AI64 a k.
Proof. glue_amt_tac. Qed.
Lemma glue_I_Shl_i64_shl : forall dbg w a k, Glue.I_Shl_i64_shl dbg w a k = Ops.I_Shl_prim dbg w Ops.AI64 a k.
Proof. glue_amt_tac. Qed.
Lemma glue_U_Shl_i128_shl : forall dbg w a k, Glue.U_Shl_i128_shl dbg w a k = Ops.U_Shl_prim dbg w Ops.AI128 a k.
Proof. glue_amt_tac. Qed.
Lemma glue_I_Shl_i128_shl : forall dbg w a k, Glue.I_Shl_i128_shl dbg w a k = Ops.I_Shl_prim dbg w Ops.AI128 a k.
Proof. glue_amt_tac. Qed.
Lemma glue_U_Shl_usize_shl : forall dbg w a k, Glue.U_Shl_usize_shl dbg w a k = Ops.U_Shl_prim dbg w Ops.AUsize a k.
Proof. glue_amt_tac. Qed.
Lemma glue_I_Shl_usize_shl : forall dbg w a k, Glue.I_Shl_usize_shl dbg w a k = Ops.I_Shl_prim dbg w Ops.AUsize a k.
Proof. glue_amt_tac. Qed.
Lemma glue_U_Shl_u64_shl : forall dbg w a k, Glue.U_Shl_u64_shl dbg w a k = Ops.U_Shl_prim dbg w Ops.AU64 a k.
Proof. glue_amt_tac. Qed.
Lemma glue_I_Shl_u64_shl : forall dbg w a k, Glue.I_Shl_u64_shl dbg w a k = Ops.I_Shl_prim dbg w Ops.AU64 a k.
Proof. glue_amt_tac. Qed.
Lemma glue_U_Shl_u128_shl : forall dbg w a k, Glue.U_Shl_u128_shl dbg w a k = Ops.U_Shl_prim dbg w Ops.AU128 a k.
Proof. glue_amt_tac. Qed.
Lemma glue_I_Shl_u128_shl : forall dbg w a k, Glue.I_Shl_u128_shl dbg w a k = Ops.I_Shl_prim dbg w Ops.AU128 a k.
Proof. glue_amt_tac. Qed.
Lemma glue_U_Shr_u8_shr : forall dbg w a k, Glue.U_Shr_u8_shr dbg w a k = Ops.U_Shr_prim dbg w Ops.AU8 a k.
Proof. glue_tac. Qed.
Lemma glue_I_Shr_u8_shr : forall dbg w a k, Glue.I_Shr_u8_shr dbg w a k = Ops.I_Shr_prim dbg w Ops.AU8 a k.
Proof. glue_tac. Qed.
Lemma glue_U_Shr_u16_shr : forall dbg w a k, Glue.U_Shr_u16_shr dbg w a k = Ops.U_Shr_prim dbg w Ops.AU16 a k.
Proof. glue_tac. Qed.
Lemma glue_I_Shr_u16_shr : forall dbg w a k, Glue.I_Shr_u16_shr dbg w a k = Ops.I_Shr_prim dbg w Ops.AU16 a k.
Proof. glue_tac. Qed.
Lemma glue_U_Shr_i8_shr : forall dbg w a k, Glue.U_Shr_i8_shr dbg w a k = Ops.U_Shr_prim dbg w Ops.AI8 a k.
Proof. glue_amt_tac. Qed.
Lemma glue_I_Shr_i8_shr : forall dbg w a k, Glue.I_Shr_i8_shr dbg w a k = Ops.I_Shr_prim dbg w Ops.AI8 a k.
Proof. glue_amt_tac. Qed.
Lemma glue_U_Shr_i16_shr : forall dbg w a k, Glue.U_Shr_i16_shr dbg w a k = Ops.U_Shr_prim dbg w Ops.AI16 a k.
Proof. glue_amt_tac. Qed.
Lemma glue_I_Shr_i16_shr : forall dbg w a k, Glue.I_Shr_i16_shr dbg w a k = Ops.I_Shr_prim dbg w Ops.AI16 a k.
Proof. glue_amt_tac. Qed.
Lemma glue_U_Shr_i32_shr : forall dbg w a k, Glue.U_Shr_i32_shr dbg w a k = Ops.U_Shr_prim dbg w Ops.AI32 a k.
Proof. glue_amt_tac. Qed.
Lemma glue_I_Shr_i32_shr : forall dbg w a k, Glue.I_Shr_i32_shr dbg w a k = Ops.I_Shr_prim dbg w Ops.AI32 a k.
Proof. glue_amt_tac. Qed.
Lemma glue_U_Shr_isize_shr : forall dbg w a k, Glue.U_Shr_isize_shr dbg w a k = Ops.U_Shr_prim dbg w Ops.AIsize a k.
Proof. glue_amt_tac. Qed.
Lemma glue_I_Shr_isize_shr : forall dbg w a k, Glue.I_Shr_isize_shr dbg w a k = Ops.I_Shr_prim dbg w Ops.AIsize a k.
Proof. glue_amt_tac. Qed.
Lemma glue_U_Shr_i64_shr : forall dbg w a k, Glue.U_Shr_i64_shr dbg w a k = Ops.U_Shr_prim dbg w Ops.AI64 a k.
Proof. glue_amt_tac. Qed.
Lemma glue_I_Shr_i64_shr : forall dbg w a k, Glue.I_Shr_i64_shr dbg w a k = Ops.I_Shr_prim dbg w Ops.AI64 a k.
Proof. glue_amt_tac. Qed.
Lemma glue_U_Shr_i128_shr : forall dbg w a k, Glue.U_Shr_i128_shr dbg w a k = Ops.U_Shr_prim dbg w Ops.AI128 a k.
Proof. glue_amt_tac. Qed.
Lemma glue_I_Shr_i128_shr : forall dbg w a k, Glue.I_Shr_i128_shr dbg w a k = Ops.I_Shr_prim dbg w Ops.AI128 a k.
Proof. glue_amt_tac. Qed.
Lemma glue_U_Shr_usize_shr : forall dbg w a k, Glue.U_Shr_usize_shr dbg w a k = Ops.U_Shr_prim dbg w Ops.AUsize a k.
Proof. glue_amt_tac. Qed.
Lemma glue_I_Shr_usize_shr : forall dbg w a k, Glue.I_Shr_usize_shr dbg w a k = Ops.I_Shr_prim dbg w Ops.AUsize a k.
Proof. glue_amt_tac. Qed.
Lemma glue_U_Shr_u64_shr : forall dbg w a k, Glue.U_Shr_u64_shr dbg w a k = Ops.U_Shr_prim dbg w Ops.AU64 a k.
Proof. glue_amt_tac. Qed.
Lemma glue_I_Shr_u64_shr : forall dbg w a k, Glue.I_Shr_u64_shr dbg w a k = Ops.I_Shr_prim dbg w Ops.AU64 a k.
Proof. glue_amt_tac. Qed.
Lemma glue_U_Shr_u128_shr : forall dbg w a k, Glue.U_Shr_u128_shr dbg w a k = Ops.U_Shr_prim dbg w Ops.AU128 a k.
Proof. glue_amt_tac. Qed.
Lemma glue_I_Shr_u128_shr : forall dbg w a k, Glue.I_Shr_u128_shr dbg w a k = Ops.I_Shr_prim dbg w Ops.AU128 a k.
Proof. glue_amt_tac. Qed.

Definition glue_ops_statement : Prop :=
  (forall dbg w a b, Glue.U_Add_add dbg w a b = U_add dbg w a b) /\
  (forall dbg w a b, Glue.U_Mul_mul dbg w a b = U_mul dbg w a b) /\
  (forall dbg w a b, Glue.U_Sub_sub dbg w a b = U_sub dbg w a b) /\
  (forall dbg w a b, Glue.I_Add_add dbg w a b = I_add dbg w a b) /\
  (forall dbg w a b, Glue.I_Mul_mul dbg w a b = I_mul dbg w a b) /\
  (forall dbg w a b, Glue.I_Sub_sub dbg w a b = I_sub dbg w a b) /\
  (forall w a, Glue.U_Not_ref_not w a = bitnot w a) /\
  (forall w a, Glue.I_Not_ref_not w a = bitnot w a) /\
  (forall dbg w a k, Glue.U_Shl_ExpType_shl dbg w a k = Ops.U_Shl_prim dbg w Ops.AU32 a k) /\
  (forall dbg w a k, Glue.U_Shr_ExpType_shr dbg w a k = Ops.U_Shr_prim dbg w Ops.AU32 a k) /\
  (forall dbg w a k, Glue.I_Shl_ExpType_shl dbg w a k = Ops.I_Shl_prim dbg w Ops.AU32 a k) /\
  (forall dbg w a k, Glue.I_Shr_ExpType_shr dbg w a k = Ops.I_Shr_prim dbg w Ops.AU32 a k) /\
  (forall w a b, Glue.U_BitAnd_bitand w a b = bitand a b) /\
  (forall w a b, Glue.U_BitOr_bitor w a b = bitor a b) /\
  (forall w a b, Glue.U_BitXor_bitxor w a b = bitxor a b) /\
  (forall w a b, Glue.U_Div_div w a b = U_div w a b) /\
  (forall w a b, Glue.U_Rem_rem w a b = U_rem w a b) /\
  (forall w a, Glue.U_Not_not w a = bitnot w a) /\
  (forall w a k, Glue.U_Div_digit_div w a k = Ops.U_Div_digit w a k) /\
  (forall w a k, Glue.U_Rem_digit_rem w a k = Ops.U_Rem_digit w a k) /\
  (forall dbg w a, Glue.I_Neg_neg dbg w a = I_neg dbg w a) /\
  (forall dbg w a, Glue.I_Neg_ref_neg dbg w a = I_neg dbg w a) /\
  (forall w a b, Glue.I_BitAnd_bitand w a b = bitand a b) /\
  (forall w a b, Glue.I_BitOr_bitor w a b = bitor a b) /\
  (forall w a b, Glue.I_BitXor_bitxor w a b = bitxor a b) /\
  (forall dbg w a b, Glue.I_Div_div dbg w a b = I_div dbg w a b) /\
  (forall dbg w a b, Glue.I_Rem_rem dbg w a b = I_rem dbg w a b) /\
  (forall w a, Glue.I_Not_not w a = bitnot w a) /\
  (forall dbg w a k, Glue.U_Shl_u8_shl dbg w a k = Ops.U_Shl_prim dbg w Ops.AU8 a k) /\
  (forall dbg w a k, Glue.I_Shl_u8_shl dbg w a k = Ops.I_Shl_prim dbg w Ops.AU8 a k) /\
  (forall dbg w a k, Glue.U_Shl_u16_shl dbg w a k = Ops.U_Shl_prim dbg w Ops.AU16 a k) /\
  (forall dbg w a k, Glue.I_Shl_u16_shl dbg w a k = Ops.I_Shl_prim dbg w Ops.AU16 a k) /\
  (forall dbg w a k, Glue.U_Shl_i8_shl dbg w a k = Ops.U_Shl_prim dbg w Ops.AI8 a k) /\
  (forall dbg w a k, Glue.I_Shl_i8_shl dbg w a k = Ops.I_Shl_prim dbg w Ops.AI8 a k) /\
  (forall dbg w a k, Glue.U_Shl_i16_shl dbg w a k = Ops.U_Shl_prim dbg w Ops.AI16 a k) /\
  (forall dbg w a k, Glue.I_Shl_i16_shl dbg w a k = Ops.I_Shl_prim dbg w Ops.AI16 a k) /\
  (forall dbg w a k, Glue.U_Shl_i32_shl dbg w a k = Ops.U_Shl_prim dbg w Ops.AI32 a k) /\
  (forall dbg w a k, Glue.I_Shl_i32_shl dbg w a k = Ops.I_Shl_prim dbg w Ops.AI32 a k) /\
  (forall dbg w a k, Glue.U_Shl_isize_shl dbg w a k = Ops.U_Shl_prim dbg w Ops.AIsize a k) /\
  (forall dbg w a k, Glue.I_Shl_isize_shl dbg w a k = Ops.I_Shl_prim dbg w Ops.AIsize a k) /\
  (forall dbg w a k, Glue.U_Shl_i64_shl dbg w a k = Ops.U_Shl_prim dbg w Ops.AI64 a k) /\
  (forall dbg w a k, Glue.I_Shl_i64_shl dbg w a k = Ops.I_Shl_prim dbg w Ops.AI64 a k) /\
  (forall dbg w a k, Glue.U_Shl_i128_shl dbg w a k = Ops.U_Shl_prim dbg w Ops.AI128 a k) /\
  (forall dbg w a k, Glue.I_Shl_i128_shl dbg w a k = Ops.I_Shl_prim dbg w Ops.AI128 a k) /\
  (forall dbg w a k, Glue.U_Shl_usize_shl dbg w a k = Ops.U_Shl_prim dbg w Ops.AUsize a k) /\
  (forall dbg w a k, Glue.I_Shl_usize_shl dbg w a k = Ops.I_Shl_prim dbg w Ops.AUsize a k) /\
  (forall dbg w a k, Glue.U_Shl_u64_shl dbg w a k = Ops.U_Shl_prim dbg w Ops.AU64 a k) /\
  (forall dbg w a k, Glue.I_Shl_u64_shl dbg w a k = Ops.I_Shl_prim dbg w Ops.AU64 a k) /\
  (forall dbg w a k, Glue.U_Shl_u128_shl dbg w a k = Ops.U_Shl_prim dbg w Ops.AU128 a k) /\
  (forall dbg w a k, Glue.I_Shl_u128_shl dbg w a k = Ops.I_Shl_prim dbg w Ops.AU128 a k) /\
  (forall dbg w a k, Glue.U_Shr_u8_shr dbg w a k = Ops.U_Shr_prim dbg w Ops.AU8 a k) /\
  (forall dbg w a k, Glue.I_Shr_u8_shr dbg w a k = Ops.I_Shr_prim dbg w Ops.AU8 a k) /\
  (forall dbg w a k, Glue.U_Shr_u16_shr dbg w a k = Ops.U_Shr_prim dbg w Ops.AU16 a k) /\
  (forall dbg w a k, Glue.I_Shr_u16_shr dbg w a k = Ops.I_Shr_prim dbg w Ops.AU16 a k) /\
  (forall dbg w a k, Glue.U_Shr_i8_shr dbg w a k = Ops.U_Shr_prim dbg w Ops.AI8 a k) /\
  (forall dbg w a k, Glue.I_Shr_i8_shr dbg w a k = Ops.I_Shr_prim dbg w Ops.AI8 a k) /\
  (forall dbg w a k, Glue.U_Shr_i16_shr dbg w a k = Ops.U_Shr_prim dbg w Ops.AI16 a k) /\
  (forall dbg w a k, Glue.I_Shr_i16_shr dbg w a k = Ops.I_Shr_prim dbg w Ops.AI16 a k) /\
  (forall dbg w a k, Glue.U_Shr_i32_shr dbg w a k = Ops.U_Shr_prim dbg w Ops.AI32 a k) /\
  (forall dbg w a k, Glue.I_Shr_i32_shr dbg w a k = Ops.I_Shr_prim dbg w Ops.AI32 a k) /\
  (forall dbg w a k, Glue.U_Shr_isize_shr dbg w a k = Ops.U_Shr_prim dbg w Ops.AIsize a k) /\
  (forall dbg w a k, Glue.I_Shr_isize_shr dbg w a k = Ops.I_Shr_prim dbg w Ops.AIsize a k) /\
  (forall dbg w a k, Glue.U_Shr_i64_shr dbg w a k = Ops.U_Shr_prim dbg w Ops.AI64 a k) /\
  (forall dbg w a k, Glue.I_Shr_i64_shr dbg w a k = Ops.I_Shr_prim dbg w Ops.AI64 a k) /\
  (forall dbg w a k, Glue.U_Shr_i128_shr dbg w a k = Ops.U_Shr_prim dbg w Ops.AI128 a k) /\
  (forall dbg w a k, Glue.I_Shr_i128_shr dbg w a k = Ops.I_Shr_prim dbg w Ops.AI128 a k) /\
  (forall dbg w a k, Glue.U_Shr_usize_shr dbg w a k = Ops.U_Shr_prim dbg w Ops.AUsize a k) /\
  (forall dbg w a k, Glue.I_Shr_usize_shr dbg w a k = Ops.I_Shr_prim dbg w Ops.AUsize a k) /\
  (forall dbg w a k, Glue.U_Shr_u64_shr dbg w a k = Ops.U_Shr_prim dbg w Ops.AU64 a k) /\
  (forall dbg w a k, Glue.I_Shr_u64_shr dbg w a k = Ops.I_Shr_prim dbg w Ops.AU64 a k) /\
  (forall dbg w a k, Glue.U_Shr_u128_shr dbg w a k = Ops.U_Shr_prim dbg w Ops.AU128 a k) /\
  (forall dbg w a k, Glue.I_Shr_u128_shr dbg w a k = Ops.I_Shr_prim dbg w Ops.AU128 a k).
Theorem glue_ops_matches_model : glue_ops_statement.
Proof.
  unfold glue_ops_statement. repeat apply conj.
  - exact glue_U_Add_add.
  - exact glue_U_Mul_mul.
  - exact glue_U_Sub_sub.
  - exact glue_I_Add_add.
  - exact glue_I_Mul_mul.
  - exact glue_I_Sub_sub.
  - exact glue_U_Not_ref_not.
  - exact glue_I_Not_ref_not.
  - exact glue_U_Shl_ExpType_shl.
  - exact glue_U_Shr_ExpType_shr.
  - exact glue_I_Shl_ExpType_shl.
  - exact glue_I_Shr_ExpType_shr.
  - exact glue_U_BitAnd_bitand.
  - exact glue_U_BitOr_bitor.
  - exact glue_U_BitXor_bitxor.
  - exact glue_U_Div_div.
  - exact glue_U_Rem_rem.
  - exact glue_U_Not_not.
  - exact glue_U_Div_digit_div.
  - exact glue_U_Rem_digit_rem.
  - exact glue_I_Neg_neg.
  - exact glue_I_Neg_ref_neg.
  - exact glue_I_BitAnd_bitand.
  - exact glue_I_BitOr_bitor.
  - exact glue_I_BitXor_bitxor.
  - exact glue_I_Div_div.
  - exact glue_I_Rem_rem.
  - exact glue_I_Not_not.
  - exact glue_U_Shl_u8_shl.
  - exact glue_I_Shl_u8_shl.
  - exact glue_U_Shl_u16_shl.
  - exact glue_I_Shl_u16_shl.
  - exact glue_U_Shl_i8_shl.
  - exact glue_I_Shl_i8_shl.
  - exact glue_U_Shl_i16_shl.
  - exact glue_I_Shl_i16_shl.
  - exact glue_U_Shl_i32_shl.
  - exact glue_I_Shl_i32_shl.
  - exact glue_U_Shl_isize_shl.
  - exact glue_I_Shl_isize_shl.
  - exact glue_U_Shl_i64_shl.
  - exact glue_I_Shl_i64_shl.
  - exact glue_U_Shl_i128_shl.
  - exact glue_I_Shl_i128_shl.
  - exact glue_U_Shl_usize_shl.
  - exact glue_I_Shl_usize_shl.
  - exact glue_U_Shl_u64_shl.
  - exact glue_I_Shl_u64_shl.
  - exact glue_U_Shl_u128_shl.
  - exact glue_I_Shl_u128_shl.
  - exact glue_U_Shr_u8_shr.
  - exact glue_I_Shr_u8_shr.
  - exact glue_U_Shr_u16_shr.
  - exact glue_I_Shr_u16_shr.
  - exact glue_U_Shr_i8_shr.
  - exact glue_I_Shr_i8_shr.
  - exact glue_U_Shr_i16_shr.
  - exact glue_I_Shr_i16_shr.
  - exact glue_U_Shr_i32_shr.
  - exact glue_I_Shr_i32_shr.
  - exact glue_U_Shr_isize_shr.
  - exact glue_I_Shr_isize_shr.
  - exact glue_U_Shr_i64_shr.
  - exact glue_I_Shr_i64_shr.
  - exact glue_U_Shr_i128_shr.
  - exact glue_I_Shr_i128_shr.
  - exact glue_U_Shr_usize_shr.
  - exact glue_I_Shr_usize_shr.
  - exact glue_U_Shr_u64_shr.
  - exact glue_I_Shr_u64_shr.
  - exact glue_U_Shr_u128_shr.
  - exact glue_I_Shr_u128_shr.
Qed.

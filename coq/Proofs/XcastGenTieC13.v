(* Proofs/XcastGenTieC13.v — checked conversions BETWEEN bnum integer types (property C13): the tie between the functions GENERATED
   from /repo/src/buint/convert.rs and /repo/src/bint/convert.rs on every run (Generated/XcastGen.v, by tools/rs2v_xcast.py) and the
   hand-written model (Model/Convert.v):
     uint_try_from_uint! / uint_try_from_int! / int_try_from_uint! / int_try_from_int!  (BTryFrom; source $From<$N>: digit width ow, m digits;
       target Self = $To<M>: digit width w, n digits)             Convert.U_btry_from_U, U_btry_from_I, I_btry_from_U, I_btry_from_I
     From<bool> for $BUint<N> / $BInt<N>, From<char> for $BUint<N>  Convert.U_conv_from_bool, I_conv_from_bool, U_conv_from_char
   `Self::cast_from(from)` is, in both, the hand model's Cast.cast (tied to the cast code in XcastGenTieC09.v).  The generated code
   panics when an ExpType subtraction underflows, the hand model only with dbg = true: the ties hold for BOTH values of dbg - for a
   well-formed source `BITS - leading_zeros()` cannot underflow, and `Self::BITS - 1` does not for a target with at least one digit. *)
From Bnum Require Import Base Prim.
From Bnum.Model Require Import DigitPrims LoopPrims Core Imp ImpXcast.
From Bnum.Model Require Bits Cast Convert.
From Bnum.Generated Require Import DigitGen XcastGen.
From Bnum.Proofs Require Import ImpLemmas ImpLemmas2 ConvGenTieBase XcastGenTieBase.
From Bnum.Proofs Require BitsLemmas Bits.

Lemma bitlen_nonneg x : 0 <= bitlen x.
Proof. unfold bitlen. destruct (x =? 0); [lia|]. pose proof (Z.log2_nonneg x). lia. Qed.

Lemma leading_zeros_le_bits w n a : 0 < w -> wf w n a -> Bits.leading_zeros w a <= bits w n.
Proof. intros Hw Ha. rewrite (Bits.leading_zeros_ok w n a Hw Ha). pose proof (bitlen_nonneg (uval w a)). lia. Qed.

Lemma leading_ones_le_bits w n a : 0 < w -> wf w n a -> Bits.leading_ones w a <= bits w n.
Proof. intros Hw Ha. rewrite (Bits.leading_ones_ok w n a Hw Ha). pose proof (bitlen_nonneg (Mod w n - 1 - uval w a)). lia. Qed.

(* a - b on ExpType with b <= a: no overflow check fires, in either build mode *)
Lemma exp_sub_ok dbg a b : b <= a -> Convert.exp_sub dbg a b = Ret (a - b).
Proof. intros H. unfold Convert.exp_sub. destruct (Z.leb_spec b a); [reflexivity|lia]. Qed.

(* Ok(Self::cast_from(from)) *)
Lemma ok_cast_tie dbg ow w n ss ds from :
  bind (of_outcome (Cast.cast dbg ow w n ss ds from)) (fun t => Done (Convert.Ok t)) = of_out (Convert.ok_cast dbg ow w n ss ds from).
Proof. unfold Convert.ok_cast. destruct (Cast.cast dbg ow w n ss ds from); reflexivity. Qed.

Lemma xcast_U_btry_from_U dbg w ow n m from fuel : 0 < ow -> wf ow m from ->
  XcastGen.U_btry_from_U dbg w (Z.of_nat n) fuel ow (Z.of_nat m) from = of_out (Convert.U_btry_from_U dbg ow from w n).
Proof.
  intros How Hwf. pose proof (leading_zeros_le_bits ow m from How Hwf) as Hlz.
  unfold XcastGen.U_btry_from_U, Convert.U_btry_from_U. rewrite (wf_length _ _ _ Hwf), Nat2Z.id. unfold bits in *.
  destruct (ow * Z.of_nat m <=? w * Z.of_nat n); cbn [Convert.or_else bind obind].
  - apply ok_cast_tie.
  - rewrite usub_ok, exp_sub_ok by exact Hlz. cbn [bind obind omap].
    destruct (ow * Z.of_nat m - Bits.leading_zeros ow from <=? w * Z.of_nat n); [apply ok_cast_tie|reflexivity].
Qed.

Lemma ix_saturating_sub_exp a b : ix_saturating_sub a b = Convert.exp_saturating_sub a b.
Proof. unfold ix_saturating_sub, Convert.exp_saturating_sub. destruct (Z.ltb_spec a b); lia. Qed.

Lemma xcast_U_btry_from_I dbg w ow n m from fuel : 0 < ow -> wf ow m from ->
  XcastGen.U_btry_from_I dbg w (Z.of_nat n) fuel ow (Z.of_nat m) from = of_out (Convert.U_btry_from_I dbg ow from w n).
Proof.
  intros How Hwf. pose proof (leading_zeros_le_bits ow m from How Hwf) as Hlz.
  unfold XcastGen.U_btry_from_I, Convert.U_btry_from_I. rewrite (wf_length _ _ _ Hwf), Nat2Z.id. unfold bits in *.
  destruct (is_negative ow from); [reflexivity|]. rewrite ix_saturating_sub_exp.
  destruct (Convert.exp_saturating_sub (ow * Z.of_nat m) 1 <=? w * Z.of_nat n); cbn [Convert.or_else bind obind].
  - apply ok_cast_tie.
  - rewrite usub_ok, exp_sub_ok by exact Hlz. cbn [bind obind omap].
    destruct (ow * Z.of_nat m - Bits.leading_zeros ow from <=? w * Z.of_nat n); [apply ok_cast_tie|reflexivity].
Qed.

Lemma xcast_I_btry_from_U dbg w ow n m from fuel : 0 < ow -> wf ow m from -> 0 < w -> (0 < n)%nat ->
  XcastGen.I_btry_from_U dbg w (Z.of_nat n) fuel ow (Z.of_nat m) from = of_out (Convert.I_btry_from_U dbg ow from w n).
Proof.
  intros How Hwf Hw Hn. pose proof (leading_zeros_le_bits ow m from How Hwf) as Hlz.
  unfold XcastGen.I_btry_from_U, Convert.I_btry_from_U. rewrite (wf_length _ _ _ Hwf), Nat2Z.id. unfold bits in *.
  assert (Hsb : 1 <= w * Z.of_nat n) by nia.
  rewrite !usub_ok, !exp_sub_ok by assumption. cbn [bind obind].
  destruct (ow * Z.of_nat m <=? w * Z.of_nat n - 1); cbn [Convert.or_else bind obind].
  - apply ok_cast_tie.
  - cbn [bind obind omap].
    destruct (ow * Z.of_nat m - Bits.leading_zeros ow from <=? w * Z.of_nat n - 1); [apply ok_cast_tie|reflexivity].
Qed.

Lemma xcast_I_btry_from_I dbg w ow n m from fuel : 0 < ow -> wf ow m from -> 0 < w -> (0 < n)%nat ->
  XcastGen.I_btry_from_I dbg w (Z.of_nat n) fuel ow (Z.of_nat m) from = of_out (Convert.I_btry_from_I dbg ow from w n).
Proof.
  intros How Hwf Hw Hn. pose proof (leading_zeros_le_bits ow m from How Hwf) as Hlz.
  pose proof (leading_ones_le_bits ow m from How Hwf) as Hlo.
  unfold XcastGen.I_btry_from_I, Convert.I_btry_from_I. rewrite (wf_length _ _ _ Hwf), Nat2Z.id. unfold bits in *.
  assert (Hsb : 1 <= w * Z.of_nat n) by nia.
  destruct (ow * Z.of_nat m <=? w * Z.of_nat n); [apply ok_cast_tie|].
  destruct (is_negative ow from); rewrite !usub_ok, !exp_sub_ok by assumption; cbn [bind obind].
  - destruct (ow * Z.of_nat m - Bits.leading_ones ow from <=? w * Z.of_nat n - 1); [apply ok_cast_tie|reflexivity].
  - destruct (ow * Z.of_nat m - Bits.leading_zeros ow from <=? w * Z.of_nat n - 1); [apply ok_cast_tie|reflexivity].
Qed.

(* ---- From<bool>, From<char> ---- *)
Lemma xcast_U_conv_from_bool w n b fuel : XcastGen.U_conv_from_bool w (Z.of_nat n) fuel b = Done (Convert.U_conv_from_bool n b).
Proof. unfold XcastGen.U_conv_from_bool, Convert.U_conv_from_bool. rewrite Nat2Z.id. reflexivity. Qed.

Lemma xcast_I_conv_from_bool w n b fuel : XcastGen.I_conv_from_bool w (Z.of_nat n) fuel b = Done (Convert.I_conv_from_bool n b).
Proof. unfold XcastGen.I_conv_from_bool, Convert.I_conv_from_bool. rewrite Nat2Z.id. reflexivity. Qed.

Lemma xcast_U_conv_from_char w n c fuel : XcastGen.U_conv_from_char w (Z.of_nat n) fuel c = of_out (Convert.U_conv_from_char w n c).
Proof.
  unfold XcastGen.U_conv_from_char, Convert.U_conv_from_char. rewrite Nat2Z.id.
  change (of_outcome (Cast.U_from_char w n c)) with (of_out (Cast.U_from_char w n c)). apply bind_done_r.
Qed.

(* the dispatcher of the hand model (what the operation `btry_from` of the C13 table runs) against the four generated impls *)
Definition xbtry_resolved (ss ds : bool) : bool -> Z -> Z -> nat -> Z -> Z -> list Z -> res (Convert.result (list Z)) :=
  match ss, ds with
  | false, false => XcastGen.U_btry_from_U
  | true, false => XcastGen.U_btry_from_I
  | false, true => XcastGen.I_btry_from_U
  | true, true => XcastGen.I_btry_from_I
  end.

Lemma xcast_btry_from dbg ss ds w ow n m from fuel : 0 < ow -> wf ow m from -> 0 < w -> (0 < n)%nat ->
  xbtry_resolved ss ds dbg w (Z.of_nat n) fuel ow (Z.of_nat m) from = of_out (Convert.btry_from dbg ow w n ss ds from).
Proof.
  intros How Hwf Hw Hn. unfold Convert.btry_from. destruct ss, ds; cbn [xbtry_resolved].
  - apply xcast_I_btry_from_I; assumption.
  - apply xcast_U_btry_from_I; assumption.
  - apply xcast_I_btry_from_U; assumption.
  - apply xcast_U_btry_from_U; assumption.
Qed.

(* ---------- all obligations of the group in one statement ---------- *)
Theorem xcast_C13_match_model w ow : 0 < w -> 0 < ow ->
  (forall dbg n m from fuel, wf ow m from ->
     XcastGen.U_btry_from_U dbg w (Z.of_nat n) fuel ow (Z.of_nat m) from =
     match Convert.U_btry_from_U dbg ow from w n with Ret r => Done r | Panic => Panicked end) /\
  (forall dbg n m from fuel, wf ow m from ->
     XcastGen.U_btry_from_I dbg w (Z.of_nat n) fuel ow (Z.of_nat m) from =
     match Convert.U_btry_from_I dbg ow from w n with Ret r => Done r | Panic => Panicked end) /\
  (forall dbg n m from fuel, wf ow m from -> (0 < n)%nat ->
     XcastGen.I_btry_from_U dbg w (Z.of_nat n) fuel ow (Z.of_nat m) from =
     match Convert.I_btry_from_U dbg ow from w n with Ret r => Done r | Panic => Panicked end) /\
  (forall dbg n m from fuel, wf ow m from -> (0 < n)%nat ->
     XcastGen.I_btry_from_I dbg w (Z.of_nat n) fuel ow (Z.of_nat m) from =
     match Convert.I_btry_from_I dbg ow from w n with Ret r => Done r | Panic => Panicked end) /\
  (forall n b fuel, XcastGen.U_conv_from_bool w (Z.of_nat n) fuel b = Done (Convert.U_conv_from_bool n b)) /\
  (forall n b fuel, XcastGen.I_conv_from_bool w (Z.of_nat n) fuel b = Done (Convert.I_conv_from_bool n b)) /\
  (forall n c fuel, XcastGen.U_conv_from_char w (Z.of_nat n) fuel c =
     match Convert.U_conv_from_char w n c with Ret r => Done r | Panic => Panicked end) /\
  (forall dbg (ss ds : bool) n m from fuel, wf ow m from -> (0 < n)%nat ->
     (match ss, ds with
      | false, false => XcastGen.U_btry_from_U
      | true, false => XcastGen.U_btry_from_I
      | false, true => XcastGen.I_btry_from_U
      | true, true => XcastGen.I_btry_from_I
      end) dbg w (Z.of_nat n) fuel ow (Z.of_nat m) from =
     match Convert.btry_from dbg ow w n ss ds from with Ret r => Done r | Panic => Panicked end).
Proof.
  intros Hw How. repeat split; intros.
  - apply xcast_U_btry_from_U; assumption.
  - apply xcast_U_btry_from_I; assumption.
  - apply xcast_I_btry_from_U; assumption.
  - apply xcast_I_btry_from_I; assumption.
  - apply xcast_U_conv_from_bool.
  - apply xcast_I_conv_from_bool.
  - apply xcast_U_conv_from_char.
  - apply (xcast_btry_from dbg ss ds); assumption.
Qed.

(* Proofs/ParseGenTie.v — umbrella of the tie between the parsing code GENERATED from /repo/src on every run
   (Generated/ParseGen.v, by tools/rs2v_parse.py) and the hand-written model Model/Parse.v: all obligations of property
   C10's group in one statement (the one Properties/C10.v: C10_parse_rs_matches_model restates).
   Result relations (Proofs/ParseGenTieA.v): pout_of maps Done (ROk a) / Done (RErr k) / Panicked / NoFuel to
   POk a / PErr (code of k) / PPanic / PFuel; pout_val maps Done a / Panicked / NoFuel to POk a / PPanic / PFuel. *)
From Bnum Require Import Base Prim.
From Bnum.Model Require Import Imp ImpParse Parse.
From Bnum.Generated Require Import ParseGen.
From Bnum.Proofs Require Import ParseSpec.
From Bnum.Proofs Require Export ParseGenTieA ParseGenTieB ParseGenTieC ParseGenTieD.

Theorem parse_C10_match_model (dbg : bool) w n : 8 <= w ->
  (* helpers *)
  (forall N fuel fs b, ParseGen.byte_to_digit w N fuel fs b = Done (Parse.byte_to_digit fs b)) /\
  (forall N fuel a, 0 < a < 2 ^ 32 -> ParseGen.ilog2 w N fuel a = Done (Z.log2 a)) /\
  (forall N fuel radix x, (S (Z.to_nat w) <= fuel)%nat -> Parse.radix_base w radix = Some x ->
     ParseGen.radix_base w N fuel radix = Done x) /\
  (* from_buf_radix_internal::<FROM_STR, BE>: all three arms *)
  (forall fs be buf radix sign fuel,
     2 <= radix <= 256 -> bytes buf -> (sign = true -> (1 <= length buf)%nat) ->
     (length buf + n + Z.to_nat w + 2 <= fuel)%nat ->
     pout_of (ParseGen.from_buf_radix_internal dbg w (Z.of_nat n) fuel fs be buf radix sign)
     = Parse.from_buf_radix_internal fs be dbg w n buf radix sign) /\
  (* BUint: from_str_radix, parse_bytes, parse_str_radix, FromStr, from_radix_be, from_radix_le *)
  (forall s radix fuel, bytes s -> (length s + n + Z.to_nat w + 2 <= fuel)%nat ->
     pout_of (ParseGen.from_str_radix dbg w (Z.of_nat n) fuel s radix) = U_from_str_radix dbg w n s radix /\
     pout_val (ParseGen.parse_bytes dbg w (Z.of_nat n) fuel s radix) = U_parse_bytes dbg w n s radix /\
     pout_val (ParseGen.parse_str_radix dbg w (Z.of_nat n) fuel s radix) = U_parse_str_radix dbg w n s radix /\
     pout_of (ParseGen.from_str dbg w (Z.of_nat n) fuel s) = U_from_str dbg w n s /\
     pout_val (ParseGen.from_radix_be dbg w (Z.of_nat n) fuel s radix) = U_from_radix_be dbg w n s radix /\
     pout_val (ParseGen.from_radix_le dbg w (Z.of_nat n) fuel s radix) = U_from_radix_le dbg w n s radix /\
     pout_val (ParseGen.I_from_radix_be dbg w (Z.of_nat n) fuel s radix) = I_from_radix_be dbg w n s radix /\
     pout_val (ParseGen.I_from_radix_le dbg w (Z.of_nat n) fuel s radix) = I_from_radix_le dbg w n s radix) /\
  (* BInt (sign handling, NegOverflow): from_str_radix, parse_bytes, parse_str_radix, FromStr *)
  (forall s radix fuel, (0 < n)%nat -> bytes s -> (length s + n + Z.to_nat w + 2 <= fuel)%nat ->
     pout_of (ParseGen.I_from_str_radix dbg w (Z.of_nat n) fuel s radix) = I_from_str_radix dbg w n s radix /\
     pout_val (ParseGen.I_parse_bytes dbg w (Z.of_nat n) fuel s radix) = I_parse_bytes dbg w n s radix /\
     pout_val (ParseGen.I_parse_str_radix dbg w (Z.of_nat n) fuel s radix) = I_parse_str_radix dbg w n s radix /\
     pout_of (ParseGen.I_from_str dbg w (Z.of_nat n) fuel s) = I_from_str dbg w n s).
Proof.
  intros Hw. repeat split; intros.
  - apply gen_byte_to_digit.
  - apply gen_ilog2; assumption.
  - apply gen_radix_base; assumption.
  - apply gen_from_buf_radix_internal; assumption.
  - apply gen_from_str_radix; assumption.
  - apply gen_parse_bytes; assumption.
  - apply gen_parse_str_radix; assumption.
  - apply gen_from_str; assumption.
  - apply gen_from_radix_be; assumption.
  - apply gen_from_radix_le; assumption.
  - apply gen_I_from_radix_be; assumption.
  - apply gen_I_from_radix_le; assumption.
  - apply gen_I_from_str_radix; assumption.
  - apply gen_I_parse_bytes; assumption.
  - apply gen_I_parse_str_radix; assumption.
  - apply gen_I_from_str; assumption.
Qed.

(* Proofs/ParseDeps.v — facts about functions modelled in OTHER files (AddSub, Bits, Core) that the
   C10 theorems use.  They are being proved by the owners of those files; here they are explicit
   premises (Definitions of type Prop), never axioms: every C10 theorem that needs one has the
   form  `<x>_spec -> forall ..., ...`. *)
From Bnum Require Import Base Prim.
From Bnum.Model Require Import Digit Core Shift AddSub Bits.

(* BUint::overflowing_add (C01) *)
Definition U_overflowing_add_spec : Prop :=
  forall w n a b, 0 < w -> wf w n a -> wf w n b ->
  let '(r, f) := U_overflowing_add w a b in
  wf w n r /\ uval w r = (uval w a + uval w b) mod Mod w n /\ f = (Mod w n <=? uval w a + uval w b).

(* BUint::bit (C06) *)
Definition bit_spec : Prop :=
  forall w n ds i, 0 < w -> wf w n ds -> 0 <= i < bits w n ->
  bit w ds i = Ret (Z.testbit (uval w ds) i).

(* BUint::trailing_zeros (C06): BITS for zero, else the exponent of the largest power of two dividing the value *)
Definition trailing_zeros_spec : Prop :=
  forall w n ds, 0 < w -> wf w n ds ->
  (uval w ds = 0 -> trailing_zeros w ds = bits w n) /\
  (uval w ds <> 0 -> 0 <= trailing_zeros w ds /\
                     exists q, uval w ds = (2 * q + 1) * 2 ^ trailing_zeros w ds).

(* BInt::wrapping_neg (C01) *)
Definition I_wrapping_neg_spec : Prop :=
  forall w n a, 0 < w -> (0 < n)%nat -> wf w n a ->
  wf w n (I_wrapping_neg w a) /\ uval w (I_wrapping_neg w a) = (- uval w a) mod Mod w n.

(* BInt::is_negative (C07) *)
Definition is_negative_spec : Prop :=
  forall w n a, 0 < w -> (0 < n)%nat -> wf w n a ->
  is_negative w a = (Mod w n / 2 <=? uval w a).

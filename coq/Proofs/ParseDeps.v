(* Proofs/ParseDeps.v — facts about functions modelled in OTHER files (AddSub, Bits, Core) that the
   C10 theorems use.  They are being proved by the owners of those files; here they are explicit
   premises (Definitions of type Prop), never axioms: every C10 theorem that needs one has the
   form  `<x>_spec -> forall ..., ...`. *)
From Bnum Require Import Base Prim.
From Bnum.Model Require Import Digit Core Shift AddSub Bits.

(* BUint::overflowing_add (C01) *)
Definition U_overflowing_add_spec : Prop :=
  forall w n a b, 0 < w -> wf w n a -> wf w n b ->
  let '(r, f) := U_overflowing_add w a b in
  wf w n r /\ uval w r = (uval w a + uval w b) mod Mod w n /\ f = (Mod w n <=? uval w a + uval w b).

(* BUint::bit (C06) *)
Definition bit_spec : Prop :=
  forall w n ds i, 0 < w -> wf w n ds -> 0 <= i < bits w n ->
  bit w ds i = Ret (Z.testbit (uval w ds) i).

(* BUint::trailing_zeros (C06): BITS for zero, else the exponent of the largest power of two dividing the value *)
Definition trailing_zeros_spec : Prop :=
  forall w n ds, 0 < w -> wf w n ds ->
  (uval w ds = 0 -> trailing_zeros w ds = bits w n) /\
  (uval w ds <> 0 -> 0 <= trailing_zeros w ds /\
                     exists q, uval w ds = (2 * q + 1) * 2 ^ trailing_zeros w ds).

(* BInt::wrapping_neg (C01) *)
Definition I_wrapping_neg_spec : Prop :=
  forall w n a, 0 < w -> (0 < n)%nat -> wf w n a ->
  wf w n (I_wrapping_neg w a) /\ uval w (I_wrapping_neg w a) = (- uval w a) mod Mod w n.

(* BInt::is_negative (C07) *)
Definition is_negative_spec : Prop :=
  forall w n a, 0 < w -> (0 < n)%nat -> wf w n a ->
  is_negative w a = (Mod w n / 2 <=? uval w a).

(* The premises are universally quantified, so no example can establish them; as a sanity check of
   their statements they are evaluated here on every value of an 8-bit one-digit type and of a
   3-digit type with 3-bit digits (the models are generic in w). *)
Definition all_vals (w : Z) (n : nat) : list (list Z) :=
  map (fun v => digits_of w n (Z.of_nat v)) (seq 0 (Z.to_nat (Mod w n))).
Definition chk_tz w n ds :=
  let u := uval w ds in let t := trailing_zeros w ds in
  if u =? 0 then t =? bits w n else (0 <=? t) && (u mod 2 ^ t =? 0) && Z.odd (u / 2 ^ t).
Definition chk_bit w n ds :=
  forallb (fun i => match bit w ds (Z.of_nat i) with
                    | Ret b => Bool.eqb b (Z.testbit (uval w ds) (Z.of_nat i))
                    | Panic => false end) (seq 0 (Z.to_nat (bits w n))).
Definition chk_neg w n ds :=
  wfb w n (I_wrapping_neg w ds) && (uval w (I_wrapping_neg w ds) =? (- uval w ds) mod Mod w n).
Definition chk_isneg w n ds := Bool.eqb (is_negative w ds) (Mod w n / 2 <=? uval w ds).
Definition chk_add w n a b :=
  let '(r, f) := U_overflowing_add w a b in
  wfb w n r && (uval w r =? (uval w a + uval w b) mod Mod w n) && Bool.eqb f (Mod w n <=? uval w a + uval w b).
Example deps_instances_8_1 :
  forallb (fun ds => chk_tz 8 1 ds && chk_bit 8 1 ds && chk_neg 8 1 ds && chk_isneg 8 1 ds) (all_vals 8 1) = true.
Proof. vm_compute. reflexivity. Qed.
Example deps_instances_3_3 :
  forallb (fun ds => chk_tz 3 3 ds && chk_bit 3 3 ds && chk_neg 3 3 ds && chk_isneg 3 3 ds) (all_vals 3 3) = true.
Proof. vm_compute. reflexivity. Qed.
Example deps_instances_add_4_2 :
  forallb (fun a => forallb (fun b => chk_add 4 2 a b) (all_vals 4 2)) (all_vals 4 2) = true.
Proof. vm_compute. reflexivity. Qed.

(* Proofs/PrintGenTieC.v — tie of the generated radix OUTPUT code (Generated/PrintGen.v) to Model/RadixOut.v, part C:
   to_radix_digits_le (repeated div_rem_digit by radix_base_half, inner digit splitting). *)
From Bnum Require Import Base Prim.
From Bnum.Model Require Import Digit DigitPrims LoopPrims Core Imp ImpParse ImpDiv ImpPrint.
From Bnum.Model Require Div Bits RadixOut.
From Bnum.Generated Require Import DigitGen PrintGen.
From Bnum.Generated Require ParseGen.
From Bnum.Proofs Require Import ImpLemmas ImpLemmas2 PrintGenTieA.
From Bnum.Proofs Require ParseGenTieHalf.

(* ---------- for _ in 0..power { out.push((r % radix) as u8); r /= radix; } ---------- *)

Fixpoint radix_rest (cnt : nat) (radix r : Z) : Z :=
  match cnt with O => r | S c => radix_rest c radix (r / radix) end.

Lemma sim_radix_chunk radix (body : Z -> Z * list Z -> res (flow (Z * list Z) (list Z))) :
  (forall x r out, body x (r, out) = Done (Continue (r / radix, out ++ [RadixOut.as_u8 (r mod radix)]))) ->
  forall (l : list Z) r out,
  for_each l body (r, out) = Done (Exited (radix_rest (length l) radix r, out ++ RadixOut.radix_chunk (length l) radix r)).
Proof.
  intros Hb. induction l as [|x l IH]; intros r out.
  - cbn [for_each length RadixOut.radix_chunk radix_rest]. rewrite app_nil_r. reflexivity.
  - cbn [for_each length RadixOut.radix_chunk radix_rest]. rewrite Hb, IH, <- app_assoc. reflexivity.
Qed.

(* ---------- while r != 0 { out.push((r % radix) as u8); r /= radix; } ---------- *)

Lemma sim_radix_top radix (cond : Z * list Z -> bool) (body : Z * list Z -> res (flow (Z * list Z) (list Z))) :
  (forall r out, cond (r, out) = negb (r =? 0)) ->
  (forall r out, body (r, out) = Done (Continue (r / radix, out ++ [RadixOut.as_u8 (r mod radix)]))) ->
  forall f r out l, RadixOut.radix_top f radix r = Some l ->
  forall fuel, (f <= fuel)%nat ->
  while_loop fuel cond body (r, out) = Done (Exited (0, out ++ l)).
Proof.
  intros Hc Hb. induction f as [|f IH]; intros r out l H fuel Hf.
  - cbn [RadixOut.radix_top] in H. destruct (Z.eqb_spec r 0) as [->|]; [|discriminate]. injection H as <-.
    rewrite while_loop_cond_false by (rewrite Hc; reflexivity). rewrite app_nil_r. reflexivity.
  - cbn [RadixOut.radix_top] in H. destruct (Z.eqb_spec r 0) as [->|Hr].
    + injection H as <-. rewrite while_loop_cond_false by (rewrite Hc; reflexivity). rewrite app_nil_r. reflexivity.
    + destruct fuel as [|fuel]; [lia|]. rewrite while_loop_S, Hc, Hb.
      destruct (Z.eqb_spec r 0) as [|_]; [contradiction|]. cbn [negb].
      destruct (RadixOut.radix_top f radix (r / radix)) as [l'|] eqn:E; [|discriminate].
      cbn [option_map] in H. injection H as <-.
      rewrite (IH _ _ l' E) by lia. rewrite <- app_assoc. reflexivity.
Qed.

(* ---------- while copy.last_digit_index() > 0 { (q, r) = copy.div_rem_digit(base); <chunk>; copy = q } ---------- *)

Lemma div_rem_digit_loop_length w rhs : forall l rem, length (fst (Div.div_rem_digit_loop w l rhs rem)) = length l.
Proof.
  induction l as [|d l IH]; intros rem; [reflexivity|].
  cbn [Div.div_rem_digit_loop]. destruct (div_rem_wide w d rem rhs) as [q r1].
  specialize (IH r1). destruct (Div.div_rem_digit_loop w l rhs r1) as [qs rf]. cbn [fst length] in *. lia.
Qed.

Lemma div_rem_digit_length w ds rhs : length (fst (Div.div_rem_digit w ds rhs)) = length ds.
Proof.
  unfold Div.div_rem_digit. pose proof (div_rem_digit_loop_length w rhs (rev ds) 0) as H.
  destruct (Div.div_rem_digit_loop w (rev ds) rhs 0) as [qs r]. cbn [fst] in *. rewrite rev_length in *. exact H.
Qed.

Lemma sim_radix_digits_loop {A} w base power radix (cond : list Z * list Z -> bool)
      (body : list Z * list Z -> res (flow (list Z * list Z) (list Z))) (after : loop_exit (list Z * list Z) (list Z) -> res A)
      (fin : list Z -> A) :
  (forall copy out, cond (copy, out) = (0 <? Div.last_digit_index copy)%nat) ->
  (forall copy out, body (copy, out) =
     Done (Continue (fst (Div.div_rem_digit w copy base),
                     out ++ RadixOut.radix_chunk power radix (snd (Div.div_rem_digit w copy base))))) ->
  (forall copy out l, copy <> [] -> RadixOut.radix_top (Z.to_nat w) radix (hd 0 copy) = Some l ->
     after (Exited (copy, out)) = Done (fin (out ++ l))) ->
  forall f copy out l, copy <> [] ->
  RadixOut.radix_digits_loop f w base power radix copy = Some l ->
  forall fuel, (f <= fuel)%nat ->
  bind (while_loop fuel cond body (copy, out)) after = Done (fin (out ++ l)).
Proof.
  intros Hc Hb Ha. induction f as [|f IH]; intros copy out l Hne H fuel Hf; [discriminate|].
  cbn [RadixOut.radix_digits_loop] in H. destruct (0 <? Div.last_digit_index copy)%nat eqn:Ec.
  - destruct fuel as [|fuel]; [lia|]. rewrite while_loop_S, Hc, Ec, Hb.
    pose proof (div_rem_digit_length w copy base) as Hl.
    destruct (Div.div_rem_digit w copy base) as [q r]. cbn [fst snd] in *.
    destruct (RadixOut.radix_digits_loop f w base power radix q) as [l'|] eqn:E; [|discriminate].
    cbn [option_map] in H. injection H as <-.
    rewrite app_assoc. apply IH; [ | exact E | lia].
    intros ->. cbn [length] in Hl. destruct copy; [congruence | discriminate].
  - rewrite while_loop_cond_false by (rewrite Hc; exact Ec). cbn [bind]. apply Ha; assumption.
Qed.

(* ---------- the function ---------- *)

Theorem gen_to_radix_digits_le w N fuel self radix out :
  0 < w -> 2 <= radix < 2 ^ 32 -> radix mod B w <> 0 -> self <> [] ->
  (Z.to_nat w <= fuel)%nat -> (S (Z.to_nat (bits w (length self))) <= fuel)%nat ->
  RadixOut.to_radix_digits_le w self radix = Some out ->
  PrintGen.to_radix_digits_le w N fuel self radix = Done out.
Proof.
  intros Hw Hr Hr0 Hne Hf1 Hf2 H. unfold PrintGen.to_radix_digits_le. cbv zeta.
  rewrite gen_ilog2 by lia. rewrite bind_Done.
  assert (Hlog : RadixOut.ilog2_u32 radix <> 0).
  { rewrite ilog2_u32_log2 by lia. pose proof (Z.log2_le_mono 2 radix ltac:(lia)) as Hm. change (Z.log2 2) with 1 in Hm. lia. }
  destruct (gen_div_ceil w N fuel (Bits.bits_of w self) _ Hlog) as (cap & ->). rewrite bind_Done.
  unfold RadixOut.to_radix_digits_le in H.
  destruct (RadixOut.radix_base_half w radix) as [[base power]|] eqn:Eh; [|discriminate]. cbv zeta in H.
  rewrite (ParseGenTieHalf.gen_radix_base_half w N fuel radix base power Hw Hf1 Eh). rewrite bind_Done. cbv beta iota.
  unfold vec_with_capacity. change (ud w radix) with (radix mod B w).
  apply (sim_radix_digits_loop w base power (radix mod B w)) with (fin := fun l => l) (out := @nil Z) (l := out)
    (f := S (Z.to_nat (bits w (length self)))); [ | | | exact Hne | exact H | exact Hf2].
  - intros copy o. apply gtb_of_nat_0.
  - intros copy o. cbv beta iota. destruct (Div.div_rem_digit w copy base) as [q r]. cbn [fst snd].
    rewrite (sim_radix_chunk (radix mod B w)).
    2:{ intros x r0 o0. unfold urem, udiv. destruct (Z.eqb_spec (radix mod B w) 0) as [|_]; [contradiction|]. reflexivity. }
    rewrite bind_Done, range_length, Z.sub_0_r, Nat2Z.id. reflexivity.
  - intros copy o l Hc Hl. rewrite arr_get_ok by (destruct copy; [congruence | cbn [length]; lia]). rewrite bind_Done.
    change (Z.to_nat 0) with 0%nat.
    rewrite (sim_radix_top (radix mod B w)) with (f := Z.to_nat w) (l := l).
    + reflexivity.
    + intros r o0. reflexivity.
    + intros r o0. unfold urem, udiv. destruct (Z.eqb_spec (radix mod B w) 0) as [|_]; [contradiction|]. reflexivity.
    + destruct copy; [congruence | exact Hl].
    + exact Hf1.
Qed.

(* The comparison of the model is a total order on well-formed digit arrays, consistent with arithmetic:
   corollaries of ucmp_ok / icmp_ok / eq_uval (Proofs/Cmp.v).  Used by Properties/C07.v. *)
From Bnum Require Import Base Prim.
From Bnum.Model Require Import Core Shift Bits.
From Bnum.Proofs Require Import Cmp.

Section UOrder.
  Context (w : Z) (n : nat) (Hw : 0 <= w).
  Let ok : forall a b, wf w n a -> wf w n b -> ucmp a b = (uval w a ?= uval w b).
  Proof. intros; apply (ucmp_ok w n); auto. Qed.

  Lemma ucmp_refl a : wf w n a -> ucmp a a = Eq.
  Proof. intros Ha. rewrite ok by auto. apply Z.compare_refl. Qed.

  Lemma ucmp_antisym a b : wf w n a -> wf w n b -> ucmp b a = CompOpp (ucmp a b).
  Proof. intros Ha Hb. rewrite !ok by auto. apply Z.compare_antisym. Qed.

  Lemma ucmp_eq_iff a b : wf w n a -> wf w n b -> (ucmp a b = Eq <-> a = b).
  Proof.
    intros Ha Hb. rewrite ok by auto. rewrite Z.compare_eq_iff.
    symmetry. apply (eq_uval w n); auto.
  Qed.

  Lemma ucmp_trans a b c o : wf w n a -> wf w n b -> wf w n c ->
    ucmp a b = o -> ucmp b c = o -> ucmp a c = o.
  Proof.
    intros Ha Hb Hc. rewrite !ok by auto. intros H1 H2.
    destruct o.
    - apply Z.compare_eq_iff in H1. apply Z.compare_eq_iff in H2. apply Z.compare_eq_iff. congruence.
    - apply Z.compare_lt_iff in H1. apply Z.compare_lt_iff in H2. apply Z.compare_lt_iff. eapply Z.lt_trans; eauto.
    - apply Z.compare_gt_iff in H1. apply Z.compare_gt_iff in H2. apply Z.compare_gt_iff. eapply Z.lt_trans; eauto.
  Qed.

  Lemma ucmp_total a b : wf w n a -> wf w n b ->
    (ucmp a b = Lt /\ ucmp b a = Gt) \/ (a = b /\ ucmp a b = Eq) \/ (ucmp a b = Gt /\ ucmp b a = Lt).
  Proof.
    intros Ha Hb. pose proof (ucmp_antisym a b Ha Hb) as Hs.
    pose proof (ucmp_eq_iff a b Ha Hb) as He.
    destruct (ucmp a b); cbn in Hs; [right; left; split; [apply He|]|left|right; right]; auto.
  Qed.

  (* consistent with arithmetic: a < b exactly when b's value exceeds a's by a positive amount *)
  Lemma ucmp_lt_arith a b : wf w n a -> wf w n b ->
    (ucmp a b = Lt <-> exists d, 0 < d /\ uval w b = uval w a + d).
  Proof.
    intros Ha Hb. rewrite ok by auto. rewrite Z.compare_lt_iff. split.
    - intros H. exists (uval w b - uval w a). lia.
    - intros [d [Hd He]]. lia.
  Qed.
End UOrder.

Section IOrder.
  Context (w : Z) (n : nat) (Hw : 0 < w) (Hn : (0 < n)%nat).
  Let ok : forall a b, wf w n a -> wf w n b -> icmp w a b = (sval w a ?= sval w b).
  Proof. intros; apply (icmp_ok w n); auto. Qed.

  Lemma icmp_refl a : wf w n a -> icmp w a a = Eq.
  Proof. intros Ha. rewrite ok by auto. apply Z.compare_refl. Qed.

  Lemma icmp_antisym a b : wf w n a -> wf w n b -> icmp w b a = CompOpp (icmp w a b).
  Proof. intros Ha Hb. rewrite !ok by auto. apply Z.compare_antisym. Qed.

  Lemma icmp_eq_iff a b : wf w n a -> wf w n b -> (icmp w a b = Eq <-> a = b).
  Proof.
    intros Ha Hb. rewrite ok by auto. rewrite Z.compare_eq_iff.
    rewrite <- (uval_sval_eq w n a b) by auto.
    symmetry. apply (eq_uval w n); auto; lia.
  Qed.

  Lemma icmp_trans a b c o : wf w n a -> wf w n b -> wf w n c ->
    icmp w a b = o -> icmp w b c = o -> icmp w a c = o.
  Proof.
    intros Ha Hb Hc. rewrite !ok by auto. intros H1 H2.
    destruct o.
    - apply Z.compare_eq_iff in H1. apply Z.compare_eq_iff in H2. apply Z.compare_eq_iff. congruence.
    - apply Z.compare_lt_iff in H1. apply Z.compare_lt_iff in H2. apply Z.compare_lt_iff. eapply Z.lt_trans; eauto.
    - apply Z.compare_gt_iff in H1. apply Z.compare_gt_iff in H2. apply Z.compare_gt_iff. eapply Z.lt_trans; eauto.
  Qed.

  Lemma icmp_total a b : wf w n a -> wf w n b ->
    (icmp w a b = Lt /\ icmp w b a = Gt) \/ (a = b /\ icmp w a b = Eq) \/ (icmp w a b = Gt /\ icmp w b a = Lt).
  Proof.
    intros Ha Hb. pose proof (icmp_antisym a b Ha Hb) as Hs.
    pose proof (icmp_eq_iff a b Ha Hb) as He.
    destruct (icmp w a b); cbn in Hs; [right; left; split; [apply He|]|left|right; right]; auto.
  Qed.

  Lemma icmp_lt_arith a b : wf w n a -> wf w n b ->
    (icmp w a b = Lt <-> exists d, 0 < d /\ sval w b = sval w a + d).
  Proof.
    intros Ha Hb. rewrite ok by auto. rewrite Z.compare_lt_iff. split.
    - intros H. exists (sval w b - sval w a). lia.
    - intros [d [Hd He]]. lia.
  Qed.
End IOrder.

(* Proofs/GlueTieC01.v — glue functions of C01 (add / sub / neg / abs, comparisons, carrying_add / borrowing_sub): generated (Generated/Glue.v) = hand-written model.
   Split out of Proofs/GlueTie.v so that an edit of one family's source breaks only that property's check. *)
From Bnum Require Import Base Prim.
From Bnum.Model Require Import Digit Core Shift AddSub Mul Div Bits Pow.
From Bnum.Generated Require Import Glue.
From Bnum.Proofs Require Import GlueTieCommon.

(* ---------- add / sub / neg / abs families, comparisons, carrying_add / borrowing_sub ---------- *)
Lemma glue_U_checked_add : forall w a b, Glue.U_checked_add w a b = U_checked_add w a b.
Proof. glue_tac. Qed.
Lemma glue_U_checked_add_signed : forall w a b, Glue.U_checked_add_signed w a b = U_checked_add_signed w a b.
Proof. glue_tac. Qed.
Lemma glue_U_checked_sub : forall w a b, Glue.U_checked_sub w a b = U_checked_sub w a b.
Proof. glue_tac. Qed.
Lemma glue_U_checked_neg : forall w a, Glue.U_checked_neg w a = U_checked_neg a.
Proof. glue_tac. Qed.
Lemma glue_U_wrapping_add : forall w a b, Glue.U_wrapping_add w a b = U_wrapping_add w a b.
Proof. glue_tac. Qed.
Lemma glue_U_wrapping_add_signed : forall w a b, Glue.U_wrapping_add_signed w a b = U_wrapping_add_signed w a b.
Proof. glue_tac. Qed.
Lemma glue_U_wrapping_sub : forall w a b, Glue.U_wrapping_sub w a b = U_wrapping_sub w a b.
Proof. glue_tac. Qed.
Lemma glue_U_wrapping_neg : forall w a, Glue.U_wrapping_neg w a = U_wrapping_neg w a.
Proof. glue_tac. Qed.
Lemma glue_U_saturate_up : forall w p, Glue.U_saturate_up w p = saturate_up w p.
Proof. intros w [r f]. reflexivity. Qed.
Lemma glue_U_saturate_down : forall w p, Glue.U_saturate_down w p = saturate_down p.
Proof. intros w [r f]. reflexivity. Qed.
Lemma glue_U_saturating_add : forall w a b, Glue.U_saturating_add w a b = U_saturating_add w a b.
Proof. glue_tac. Qed.
Lemma glue_U_saturating_add_signed : forall w a b, Glue.U_saturating_add_signed w a b = U_saturating_add_signed w a b.
Proof. glue_tac. Qed.
Lemma glue_U_saturating_sub : forall w a b, Glue.U_saturating_sub w a b = U_saturating_sub w a b.
Proof. glue_tac. Qed.
Lemma glue_U_strict_add : forall w a b, Glue.U_strict_add w a b = U_strict_add w a b.
Proof. glue_tac. Qed.
Lemma glue_U_strict_sub : forall w a b, Glue.U_strict_sub w a b = U_strict_sub w a b.
Proof. glue_tac. Qed.
Lemma glue_U_strict_neg : forall w a, Glue.U_strict_neg w a = U_strict_neg a.
Proof. glue_tac. Qed.
Lemma glue_I_strict_add : forall w a b, Glue.I_strict_add w a b = I_strict_add w a b.
Proof. glue_tac. Qed.
Lemma glue_I_strict_sub : forall w a b, Glue.I_strict_sub w a b = I_strict_sub w a b.
Proof. glue_tac. Qed.
Lemma glue_I_strict_neg : forall w a, Glue.I_strict_neg w a = I_strict_neg w a.
Proof. glue_tac. Qed.
Lemma glue_U_strict_add_signed : forall w a b, Glue.U_strict_add_signed w a b = option_expect (U_checked_add_signed w a b).
Proof. glue_tac. Qed.
Lemma glue_I_strict_abs : forall w a, Glue.I_strict_abs w a = I_strict_abs w a.
Proof. glue_tac. Qed.
Lemma glue_I_strict_add_unsigned : forall w a b, Glue.I_strict_add_unsigned w a b = option_expect (I_checked_add_unsigned w a b).
Proof. glue_tac. Qed.
Lemma glue_I_strict_sub_unsigned : forall w a b, Glue.I_strict_sub_unsigned w a b = option_expect (I_checked_sub_unsigned w a b).
Proof. glue_tac. Qed.
Lemma glue_U_add : forall dbg w a b, Glue.U_add dbg w a b = U_add dbg w a b.
Proof. glue_tac. Qed.
Lemma glue_U_sub : forall dbg w a b, Glue.U_sub dbg w a b = U_sub dbg w a b.
Proof. glue_tac. Qed.
Lemma glue_I_add : forall dbg w a b, Glue.I_add dbg w a b = I_add dbg w a b.
Proof. glue_tac. Qed.
Lemma glue_I_sub : forall dbg w a b, Glue.I_sub dbg w a b = I_sub dbg w a b.
Proof. glue_tac. Qed.
Lemma glue_U_max : forall w a b, Glue.U_max w a b = cmp_max (ucmp a b) a b.
Proof. glue_tac. Qed.
Lemma glue_U_min : forall w a b, Glue.U_min w a b = cmp_min (ucmp a b) a b.
Proof. glue_tac. Qed.
Lemma glue_U_clamp : forall w a lo hi, Glue.U_clamp w a lo hi = clamp ucmp a lo hi.
Proof. glue_tac. Qed.
Lemma glue_U_lt : forall w a b, Glue.U_lt w a b = cmp_lt (ucmp a b).
Proof. glue_tac. Qed.
Lemma glue_U_le : forall w a b, Glue.U_le w a b = cmp_le (ucmp a b).
Proof. glue_tac. Qed.
Lemma glue_U_gt : forall w a b, Glue.U_gt w a b = cmp_gt (ucmp a b).
Proof. glue_tac. Qed.
Lemma glue_U_ge : forall w a b, Glue.U_ge w a b = cmp_ge (ucmp a b).
Proof. glue_tac. Qed.
Lemma glue_I_max : forall w a b, Glue.I_max w a b = cmp_max (icmp w a b) a b.
Proof. glue_tac. Qed.
Lemma glue_I_min : forall w a b, Glue.I_min w a b = cmp_min (icmp w a b) a b.
Proof. glue_tac. Qed.
Lemma glue_I_clamp : forall w a lo hi, Glue.I_clamp w a lo hi = clamp (icmp w) a lo hi.
Proof. glue_tac. Qed.
Lemma glue_I_lt : forall w a b, Glue.I_lt w a b = cmp_lt (icmp w a b).
Proof. glue_tac. Qed.
Lemma glue_I_le : forall w a b, Glue.I_le w a b = cmp_le (icmp w a b).
Proof. glue_tac. Qed.
Lemma glue_I_gt : forall w a b, Glue.I_gt w a b = cmp_gt (icmp w a b).
Proof. glue_tac. Qed.
Lemma glue_I_ge : forall w a b, Glue.I_ge w a b = cmp_ge (icmp w a b).
Proof. glue_tac. Qed.
Lemma glue_U_carrying_add : forall w a b c, Glue.U_carrying_add w a b c = U_carrying_add w a b c.
Proof. glue_tac. Qed.
Lemma glue_U_borrowing_sub : forall w a b c, Glue.U_borrowing_sub w a b c = U_borrowing_sub w a b c.
Proof. glue_tac. Qed.
Lemma glue_I_carrying_add : forall w a b c, Glue.I_carrying_add w a b c = I_carrying_add w a b c.
Proof. glue_tac. Qed.
Lemma glue_I_borrowing_sub : forall w a b c, Glue.I_borrowing_sub w a b c = I_borrowing_sub w a b c.
Proof. glue_tac. Qed.
Lemma glue_I_checked_add : forall w a b, Glue.I_checked_add w a b = I_checked_add w a b.
Proof. glue_tac. Qed.
Lemma glue_I_checked_add_unsigned : forall w a b, Glue.I_checked_add_unsigned w a b = I_checked_add_unsigned w a b.
Proof. glue_tac. Qed.
Lemma glue_I_checked_sub : forall w a b, Glue.I_checked_sub w a b = I_checked_sub w a b.
Proof. glue_tac. Qed.
Lemma glue_I_checked_sub_unsigned : forall w a b, Glue.I_checked_sub_unsigned w a b = I_checked_sub_unsigned w a b.
Proof. glue_tac. Qed.
Lemma glue_I_checked_neg : forall w a, Glue.I_checked_neg w a = I_checked_neg w a.
Proof. glue_tac. Qed.
Lemma glue_I_checked_abs : forall w a, Glue.I_checked_abs w a = I_checked_abs w a.
Proof. glue_tac. Qed.
Lemma glue_I_wrapping_add : forall w a b, Glue.I_wrapping_add w a b = I_wrapping_add w a b.
Proof. glue_tac. Qed.
Lemma glue_I_wrapping_add_unsigned : forall w a b, Glue.I_wrapping_add_unsigned w a b = I_wrapping_add_unsigned w a b.
Proof. glue_tac. Qed.
Lemma glue_I_wrapping_sub : forall w a b, Glue.I_wrapping_sub w a b = I_wrapping_sub w a b.
Proof. glue_tac. Qed.
Lemma glue_I_wrapping_sub_unsigned : forall w a b, Glue.I_wrapping_sub_unsigned w a b = I_wrapping_sub_unsigned w a b.
Proof. glue_tac. Qed.
Lemma glue_I_wrapping_neg : forall w a, Glue.I_wrapping_neg w a = I_wrapping_neg w a.
Proof. glue_tac. Qed.
Lemma glue_I_wrapping_abs : forall w a, Glue.I_wrapping_abs w a = I_wrapping_abs w a.
Proof. glue_tac. Qed.
Lemma glue_I_saturating_add : forall w a b, Glue.I_saturating_add w a b = I_saturating_add w a b.
Proof. glue_tac. Qed.
Lemma glue_I_saturating_add_unsigned : forall w a b, Glue.I_saturating_add_unsigned w a b = I_saturating_add_unsigned w a b.
Proof. glue_tac. Qed.
Lemma glue_I_saturating_sub : forall w a b, Glue.I_saturating_sub w a b = I_saturating_sub w a b.
Proof. glue_tac. Qed.
Lemma glue_I_saturating_sub_unsigned : forall w a b, Glue.I_saturating_sub_unsigned w a b = I_saturating_sub_unsigned w a b.
Proof. glue_tac. Qed.
Lemma glue_I_saturating_neg : forall w a, Glue.I_saturating_neg w a = I_saturating_neg w a.
Proof. glue_tac. Qed.
Lemma glue_I_saturating_abs : forall w a, Glue.I_saturating_abs w a = I_saturating_abs w a.
Proof. glue_tac. Qed.
Lemma glue_U_overflowing_add_signed : forall w a b, Glue.U_overflowing_add_signed w a b = U_overflowing_add_signed w a b.
Proof. glue_tac. Qed.
Lemma glue_U_overflowing_neg : forall w a, Glue.U_overflowing_neg w a = U_overflowing_neg w a.
Proof. glue_tac. Qed.
Lemma glue_I_overflowing_add_unsigned : forall w a b, Glue.I_overflowing_add_unsigned w a b = I_overflowing_add_unsigned w a b.
Proof. glue_tac. Qed.
Lemma glue_I_overflowing_sub_unsigned : forall w a b, Glue.I_overflowing_sub_unsigned w a b = I_overflowing_sub_unsigned w a b.
Proof. glue_tac. Qed.
Lemma glue_I_overflowing_abs : forall w a, Glue.I_overflowing_abs w a = I_overflowing_abs w a.
Proof. glue_tac. Qed.


Definition glue_addsub_statement : Prop :=
  (forall w a b, Glue.U_checked_add w a b = U_checked_add w a b) /\
  (forall w a b, Glue.U_checked_add_signed w a b = U_checked_add_signed w a b) /\
  (forall w a b, Glue.U_checked_sub w a b = U_checked_sub w a b) /\
  (forall w a, Glue.U_checked_neg w a = U_checked_neg a) /\
  (forall w a b, Glue.U_wrapping_add w a b = U_wrapping_add w a b) /\
  (forall w a b, Glue.U_wrapping_add_signed w a b = U_wrapping_add_signed w a b) /\
  (forall w a b, Glue.U_wrapping_sub w a b = U_wrapping_sub w a b) /\
  (forall w a, Glue.U_wrapping_neg w a = U_wrapping_neg w a) /\
  (forall w p, Glue.U_saturate_up w p = saturate_up w p) /\
  (forall w p, Glue.U_saturate_down w p = saturate_down p) /\
  (forall w a b, Glue.U_saturating_add w a b = U_saturating_add w a b) /\
  (forall w a b, Glue.U_saturating_add_signed w a b = U_saturating_add_signed w a b) /\
  (forall w a b, Glue.U_saturating_sub w a b = U_saturating_sub w a b) /\
  (forall w a b, Glue.U_strict_add w a b = U_strict_add w a b) /\
  (forall w a b, Glue.U_strict_sub w a b = U_strict_sub w a b) /\
  (forall w a, Glue.U_strict_neg w a = U_strict_neg a) /\
  (forall w a b, Glue.I_strict_add w a b = I_strict_add w a b) /\
  (forall w a b, Glue.I_strict_sub w a b = I_strict_sub w a b) /\
  (forall w a, Glue.I_strict_neg w a = I_strict_neg w a) /\
  (forall w a b, Glue.U_strict_add_signed w a b = option_expect (U_checked_add_signed w a b)) /\
  (forall w a, Glue.I_strict_abs w a = I_strict_abs w a) /\
  (forall w a b, Glue.I_strict_add_unsigned w a b = option_expect (I_checked_add_unsigned w a b)) /\
  (forall w a b, Glue.I_strict_sub_unsigned w a b = option_expect (I_checked_sub_unsigned w a b)) /\
  (forall dbg w a b, Glue.U_add dbg w a b = U_add dbg w a b) /\
  (forall dbg w a b, Glue.U_sub dbg w a b = U_sub dbg w a b) /\
  (forall dbg w a b, Glue.I_add dbg w a b = I_add dbg w a b) /\
  (forall dbg w a b, Glue.I_sub dbg w a b = I_sub dbg w a b) /\
  (forall w a b, Glue.U_max w a b = cmp_max (ucmp a b) a b) /\
  (forall w a b, Glue.U_min w a b = cmp_min (ucmp a b) a b) /\
  (forall w a lo hi, Glue.U_clamp w a lo hi = clamp ucmp a lo hi) /\
  (forall w a b, Glue.U_lt w a b = cmp_lt (ucmp a b)) /\
  (forall w a b, Glue.U_le w a b = cmp_le (ucmp a b)) /\
  (forall w a b, Glue.U_gt w a b = cmp_gt (ucmp a b)) /\
  (forall w a b, Glue.U_ge w a b = cmp_ge (ucmp a b)) /\
  (forall w a b, Glue.I_max w a b = cmp_max (icmp w a b) a b) /\
  (forall w a b, Glue.I_min w a b = cmp_min (icmp w a b) a b) /\
  (forall w a lo hi, Glue.I_clamp w a lo hi = clamp (icmp w) a lo hi) /\
  (forall w a b, Glue.I_lt w a b = cmp_lt (icmp w a b)) /\
  (forall w a b, Glue.I_le w a b = cmp_le (icmp w a b)) /\
  (forall w a b, Glue.I_gt w a b = cmp_gt (icmp w a b)) /\
  (forall w a b, Glue.I_ge w a b = cmp_ge (icmp w a b)) /\
  (forall w a b c, Glue.U_carrying_add w a b c = U_carrying_add w a b c) /\
  (forall w a b c, Glue.U_borrowing_sub w a b c = U_borrowing_sub w a b c) /\
  (forall w a b c, Glue.I_carrying_add w a b c = I_carrying_add w a b c) /\
  (forall w a b c, Glue.I_borrowing_sub w a b c = I_borrowing_sub w a b c) /\
  (forall w a b, Glue.I_checked_add w a b = I_checked_add w a b) /\
  (forall w a b, Glue.I_checked_add_unsigned w a b = I_checked_add_unsigned w a b) /\
  (forall w a b, Glue.I_checked_sub w a b = I_checked_sub w a b) /\
  (forall w a b, Glue.I_checked_sub_unsigned w a b = I_checked_sub_unsigned w a b) /\
  (forall w a, Glue.I_checked_neg w a = I_checked_neg w a) /\
  (forall w a, Glue.I_checked_abs w a = I_checked_abs w a) /\
  (forall w a b, Glue.I_wrapping_add w a b = I_wrapping_add w a b) /\
  (forall w a b, Glue.I_wrapping_add_unsigned w a b = I_wrapping_add_unsigned w a b) /\
  (forall w a b, Glue.I_wrapping_sub w a b = I_wrapping_sub w a b) /\
  (forall w a b, Glue.I_wrapping_sub_unsigned w a b = I_wrapping_sub_unsigned w a b) /\
  (forall w a, Glue.I_wrapping_neg w a = I_wrapping_neg w a) /\
  (forall w a, Glue.I_wrapping_abs w a = I_wrapping_abs w a) /\
  (forall w a b, Glue.I_saturating_add w a b = I_saturating_add w a b) /\
  (forall w a b, Glue.I_saturating_add_unsigned w a b = I_saturating_add_unsigned w a b) /\
  (forall w a b, Glue.I_saturating_sub w a b = I_saturating_sub w a b) /\
  (forall w a b, Glue.I_saturating_sub_unsigned w a b = I_saturating_sub_unsigned w a b) /\
  (forall w a, Glue.I_saturating_neg w a = I_saturating_neg w a) /\
  (forall w a, Glue.I_saturating_abs w a = I_saturating_abs w a) /\
  (forall w a b, Glue.U_overflowing_add_signed w a b = U_overflowing_add_signed w a b) /\
  (forall w a, Glue.U_overflowing_neg w a = U_overflowing_neg w a) /\
  (forall w a b, Glue.I_overflowing_add_unsigned w a b = I_overflowing_add_unsigned w a b) /\
  (forall w a b, Glue.I_overflowing_sub_unsigned w a b = I_overflowing_sub_unsigned w a b) /\
  (forall w a, Glue.I_overflowing_abs w a = I_overflowing_abs w a).
Theorem glue_addsub_matches_model : glue_addsub_statement.
Proof.
  unfold glue_addsub_statement. repeat apply conj.
  - exact glue_U_checked_add.
  - exact glue_U_checked_add_signed.
  - exact glue_U_checked_sub.
  - exact glue_U_checked_neg.
  - exact glue_U_wrapping_add.
  - exact glue_U_wrapping_add_signed.
  - exact glue_U_wrapping_sub.
  - exact glue_U_wrapping_neg.
  - exact glue_U_saturate_up.
  - exact glue_U_saturate_down.
  - exact glue_U_saturating_add.
  - exact glue_U_saturating_add_signed.
  - exact glue_U_saturating_sub.
  - exact glue_U_strict_add.
  - exact glue_U_strict_sub.
  - exact glue_U_strict_neg.
  - exact glue_I_strict_add.
  - exact glue_I_strict_sub.
  - exact glue_I_strict_neg.
  - exact glue_U_strict_add_signed.
  - exact glue_I_strict_abs.
  - exact glue_I_strict_add_unsigned.
  - exact glue_I_strict_sub_unsigned.
  - exact glue_U_add.
  - exact glue_U_sub.
  - exact glue_I_add.
  - exact glue_I_sub.
  - exact glue_U_max.
  - exact glue_U_min.
  - exact glue_U_clamp.
  - exact glue_U_lt.
  - exact glue_U_le.
  - exact glue_U_gt.
  - exact glue_U_ge.
  - exact glue_I_max.
  - exact glue_I_min.
  - exact glue_I_clamp.
  - exact glue_I_lt.
  - exact glue_I_le.
  - exact glue_I_gt.
  - exact glue_I_ge.
  - exact glue_U_carrying_add.
  - exact glue_U_borrowing_sub.
  - exact glue_I_carrying_add.
  - exact glue_I_borrowing_sub.
  - exact glue_I_checked_add.
  - exact glue_I_checked_add_unsigned.
  - exact glue_I_checked_sub.
  - exact glue_I_checked_sub_unsigned.
  - exact glue_I_checked_neg.
  - exact glue_I_checked_abs.
  - exact glue_I_wrapping_add.
  - exact glue_I_wrapping_add_unsigned.
  - exact glue_I_wrapping_sub.
  - exact glue_I_wrapping_sub_unsigned.
  - exact glue_I_wrapping_neg.
  - exact glue_I_wrapping_abs.
  - exact glue_I_saturating_add.
  - exact glue_I_saturating_add_unsigned.
  - exact glue_I_saturating_sub.
  - exact glue_I_saturating_sub_unsigned.
  - exact glue_I_saturating_neg.
  - exact glue_I_saturating_abs.
  - exact glue_U_overflowing_add_signed.
  - exact glue_U_overflowing_neg.
  - exact glue_I_overflowing_add_unsigned.
  - exact glue_I_overflowing_sub_unsigned.
  - exact glue_I_overflowing_abs.
Qed.

(* ==== round 2 (tools/mk_gluetie.py) ==== *)
(* abs, unsigned_abs, abs_diff, midpoint of buint/mod.rs and bint/mod.rs; BInt::neg; unchecked_add / unchecked_sub *)
Lemma glue_U_midpoint : forall dbg w a b, Glue.U_midpoint dbg w a b = U_midpoint dbg w a b.
Proof. glue_tac. Qed.
Lemma glue_U_abs_diff : forall w a b, Glue.U_abs_diff w a b = U_abs_diff w a b.
Proof. glue_tac. Qed.
Lemma glue_I_unsigned_abs : forall w a, Glue.I_unsigned_abs w a = I_unsigned_abs w a.
Proof. glue_tac. Qed.
Lemma glue_I_abs : forall dbg w a, Glue.I_abs dbg w a = I_abs dbg w a.
Proof. glue_tac. Qed.
Lemma glue_I_midpoint : forall dbg w a b, Glue.I_midpoint dbg w a b = I_midpoint dbg w a b.
Proof. glue_tac. Qed.
Lemma glue_I_abs_diff : forall w a b, Glue.I_abs_diff w a b = I_abs_diff w a b.
Proof. glue_tac. Qed.
Lemma glue_I_neg : forall dbg w a, Glue.I_neg dbg w a = I_neg dbg w a.
Proof. glue_tac. Qed.
Lemma glue_U_unchecked_add : forall w a b, Glue.U_unchecked_add w a b = U_checked_add w a b.
Proof. glue_tac. Qed.
Lemma glue_U_unchecked_sub : forall w a b, Glue.U_unchecked_sub w a b = U_checked_sub w a b.
Proof. glue_tac. Qed.
Lemma glue_I_unchecked_add : forall w a b, Glue.I_unchecked_add w a b = I_checked_add w a b.
Proof. glue_tac. Qed.
Lemma glue_I_unchecked_sub : forall w a b, Glue.I_unchecked_sub w a b = I_checked_sub w a b.
Proof. glue_tac. Qed.

Definition glue_addsub2_statement : Prop :=
  (forall dbg w a b, Glue.U_midpoint dbg w a b = U_midpoint dbg w a b) /\
  (forall w a b, Glue.U_abs_diff w a b = U_abs_diff w a b) /\
  (forall w a, Glue.I_unsigned_abs w a = I_unsigned_abs w a) /\
  (forall dbg w a, Glue.I_abs dbg w a = I_abs dbg w a) /\
  (forall dbg w a b, Glue.I_midpoint dbg w a b = I_midpoint dbg w a b) /\
  (forall w a b, Glue.I_abs_diff w a b = I_abs_diff w a b) /\
  (forall dbg w a, Glue.I_neg dbg w a = I_neg dbg w a) /\
  (forall w a b, Glue.U_unchecked_add w a b = U_checked_add w a b) /\
  (forall w a b, Glue.U_unchecked_sub w a b = U_checked_sub w a b) /\
  (forall w a b, Glue.I_unchecked_add w a b = I_checked_add w a b) /\
  (forall w a b, Glue.I_unchecked_sub w a b = I_checked_sub w a b).
Theorem glue_addsub2_matches_model : glue_addsub2_statement.
Proof.
  unfold glue_addsub2_statement. repeat apply conj.
  - exact glue_U_midpoint.
  - exact glue_U_abs_diff.
  - exact glue_I_unsigned_abs.
  - exact glue_I_abs.
  - exact glue_I_midpoint.
  - exact glue_I_abs_diff.
  - exact glue_I_neg.
  - exact glue_U_unchecked_add.
  - exact glue_U_unchecked_sub.
  - exact glue_I_unchecked_add.
  - exact glue_I_unchecked_sub.
Qed.
(* ==== end of round 2 ==== *)

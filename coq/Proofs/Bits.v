(* Proofs/Bits.v — C06: bitwise logic, bit counts and bit manipulation of
   BUint / BInt act on the exact bit pattern of the value. *)
From Bnum Require Import Base Prim.
From Bnum.Model Require Import Core Shift Bits.
From Bnum.Proofs Require Import BitAddrC06 BitsLemmas Cmp.

(* ================= logic ================= *)

Lemma map2_length f a b : length a = length b -> length (map2 f a b) = length a.
Proof.
  revert b. induction a as [|x a IH]; intros [|y b] H; cbn [map2 length] in *; try lia.
  rewrite IH; lia.
Qed.

Lemma map2_wf f w n a b :
  (forall x y, digit_ok w x -> digit_ok w y -> digit_ok w (f x y)) ->
  wf w n a -> wf w n b -> wf w n (map2 f a b).
Proof.
  intros Hf. revert a b. induction n as [|n IH]; intros a b Ha Hb.
  - apply wf_inv_0 in Ha, Hb; subst. apply wf_nil.
  - destruct (wf_inv_S _ _ _ Ha) as (x & a' & -> & Hx & Ha').
    destruct (wf_inv_S _ _ _ Hb) as (y & b' & -> & Hy & Hb').
    cbn [map2]. apply wf_cons. split; auto.
Qed.

Lemma map2_nth f a b k : f 0 0 = 0 -> length a = length b ->
  nth k (map2 f a b) 0 = f (nth k a 0) (nth k b 0).
Proof.
  intros H0. revert b k. induction a as [|x a IH]; intros [|y b] k Hl; cbn [length] in Hl; try lia.
  - destruct k; cbn [map2 nth]; auto.
  - destruct k; cbn [map2 nth]; [reflexivity|]. apply IH. lia.
Qed.

Section Logic.
  Context (f : Z -> Z -> Z) (g : bool -> bool -> bool).
  Context (f00 : f 0 0 = 0).
  Context (fbits : forall x y j, Z.testbit (f x y) j = g (Z.testbit x j) (Z.testbit y j)).
  Context (w : Z) (Hw : 0 < w).
  Context (fok : forall x y, digit_ok w x -> digit_ok w y -> digit_ok w (f x y)).

  Lemma map2_testbit n a b i : wf w n a -> wf w n b -> 0 <= i ->
    Z.testbit (uval w (map2 f a b)) i = g (Z.testbit (uval w a) i) (Z.testbit (uval w b) i).
  Proof.
    intros Ha Hb Hi. pose proof (map2_wf f w n a b fok Ha Hb) as Hr.
    rewrite !(testbit_uval w n) by auto.
    rewrite map2_nth by (auto; rewrite (wf_length _ _ _ Ha), (wf_length _ _ _ Hb); reflexivity).
    apply fbits.
  Qed.
End Logic.

Lemma bitand_ok w n a b : 0 < w -> wf w n a -> wf w n b ->
  wf w n (bitand a b) /\ uval w (bitand a b) = Z.land (uval w a) (uval w b) /\
  forall i, 0 <= i -> Z.testbit (uval w (bitand a b)) i = Z.testbit (uval w a) i && Z.testbit (uval w b) i.
Proof.
  intros Hw Ha Hb. unfold bitand, u_and.
  assert (Hok : forall x y, digit_ok w x -> digit_ok w y -> digit_ok w (Z.land x y))
    by (intros; apply digit_ok_land; auto; lia).
  assert (Hb' : forall i, 0 <= i -> Z.testbit (uval w (map2 Z.land a b)) i =
                 Z.testbit (uval w a) i && Z.testbit (uval w b) i).
  { intros i Hi. apply (map2_testbit Z.land andb eq_refl Z.land_spec w Hw Hok n); auto. }
  split; [apply map2_wf; auto|]. split; [|exact Hb'].
  apply Z.bits_inj'. intros i Hi. rewrite Hb', Z.land_spec by lia. reflexivity.
Qed.

Lemma bitor_ok w n a b : 0 < w -> wf w n a -> wf w n b ->
  wf w n (bitor a b) /\ uval w (bitor a b) = Z.lor (uval w a) (uval w b) /\
  forall i, 0 <= i -> Z.testbit (uval w (bitor a b)) i = Z.testbit (uval w a) i || Z.testbit (uval w b) i.
Proof.
  intros Hw Ha Hb. unfold bitor, u_or.
  assert (Hok : forall x y, digit_ok w x -> digit_ok w y -> digit_ok w (Z.lor x y))
    by (intros; apply digit_ok_lor; auto; lia).
  assert (Hb' : forall i, 0 <= i -> Z.testbit (uval w (map2 Z.lor a b)) i =
                 Z.testbit (uval w a) i || Z.testbit (uval w b) i).
  { intros i Hi. apply (map2_testbit Z.lor orb eq_refl Z.lor_spec w Hw Hok n); auto. }
  split; [apply map2_wf; auto|]. split; [|exact Hb'].
  apply Z.bits_inj'. intros i Hi. rewrite Hb', Z.lor_spec by lia. reflexivity.
Qed.

Lemma bitxor_ok w n a b : 0 < w -> wf w n a -> wf w n b ->
  wf w n (bitxor a b) /\ uval w (bitxor a b) = Z.lxor (uval w a) (uval w b) /\
  forall i, 0 <= i -> Z.testbit (uval w (bitxor a b)) i = xorb (Z.testbit (uval w a) i) (Z.testbit (uval w b) i).
Proof.
  intros Hw Ha Hb. unfold bitxor, u_xor.
  assert (Hok : forall x y, digit_ok w x -> digit_ok w y -> digit_ok w (Z.lxor x y))
    by (intros; apply digit_ok_lxor; auto; lia).
  assert (Hb' : forall i, 0 <= i -> Z.testbit (uval w (map2 Z.lxor a b)) i =
                 xorb (Z.testbit (uval w a) i) (Z.testbit (uval w b) i)).
  { intros i Hi. apply (map2_testbit Z.lxor xorb eq_refl Z.lxor_spec w Hw Hok n); auto. }
  split; [apply map2_wf; auto|]. split; [|exact Hb'].
  apply Z.bits_inj'. intros i Hi. rewrite Hb', Z.lxor_spec by lia. reflexivity.
Qed.

Lemma bitnot_wf w n a : 0 <= w -> wf w n a -> wf w n (bitnot w a).
Proof.
  intros Hw. revert a. induction n as [|n IH]; intros a Ha.
  - apply wf_inv_0 in Ha; subst. apply wf_nil.
  - destruct (wf_inv_S _ _ _ Ha) as (x & a' & -> & Hx & Ha'). unfold bitnot. cbn [map].
    apply wf_cons. split; [apply digit_ok_not; auto | apply IH; auto].
Qed.

Lemma bitnot_uval w n a : 0 <= w -> wf w n a -> uval w (bitnot w a) = Mod w n - 1 - uval w a.
Proof.
  intros Hw. revert a. induction n as [|n IH]; intros a Ha.
  - apply wf_inv_0 in Ha; subst. rewrite Mod_0. reflexivity.
  - destruct (wf_inv_S _ _ _ Ha) as (x & a' & -> & Hx & Ha'). unfold bitnot in *. cbn [map uval].
    rewrite (IH a' Ha'), Mod_S by lia. unfold u_not. ring.
Qed.

Lemma bitnot_testbit w n a i : 0 < w -> wf w n a -> 0 <= i < w * Z.of_nat n ->
  Z.testbit (uval w (bitnot w a)) i = negb (Z.testbit (uval w a) i).
Proof.
  intros Hw Ha Hi. pose proof (bitnot_wf w n a ltac:(lia) Ha) as Hr.
  rewrite !(testbit_uval w n) by (auto; lia). unfold bitnot.
  assert (Hk : (Z.to_nat (i / w) < length a)%nat).
  { rewrite (wf_length _ _ _ Ha). apply Nat.ltb_lt. apply (proj2 (idx_nat_lt w n i Hw ltac:(lia))). lia. }
  rewrite (nth_indep _ 0 (u_not w 0)) by (rewrite map_length; exact Hk).
  rewrite map_nth. apply u_not_bits; [lia | apply (nth_digit_ok w n); auto; lia |].
  apply Z.mod_pos_bound; lia.
Qed.

Lemma bitnot_ok w n a : 0 < w -> wf w n a ->
  wf w n (bitnot w a) /\ uval w (bitnot w a) = Mod w n - 1 - uval w a /\
  forall i, 0 <= i < w * Z.of_nat n -> Z.testbit (uval w (bitnot w a)) i = negb (Z.testbit (uval w a) i).
Proof.
  intros Hw Ha. split; [apply bitnot_wf; auto; lia|]. split; [apply bitnot_uval; auto; lia|].
  intros; apply (bitnot_testbit w n); auto.
Qed.

(* ================= is_zero / is_one ================= *)

Lemma is_one_ok w n a : 0 < w -> wf w n a -> is_one a = (uval w a =? 1).
Proof.
  intros Hw Ha. destruct n as [|n].
  - apply wf_inv_0 in Ha; subst. reflexivity.
  - destruct (wf_inv_S _ _ _ Ha) as (d & r & -> & Hd & Hr). cbn [is_one uval].
    rewrite (is_zero_ok w n r ltac:(lia) Hr).
    pose proof (uval_bounds w n r ltac:(lia) Hr) as Hb. pose proof (B_ge_2 w Hw) as HB.
    unfold digit_ok in Hd.
    destruct (Z.eqb_spec d 1) as [->|Hne].
    + destruct (Z.eqb_spec (uval w r) 0) as [->|Hr0].
      * symmetry. apply Z.eqb_eq. lia.
      * symmetry. apply Z.eqb_neq. nia.
    + symmetry. apply Z.eqb_neq. destruct (Z.eq_dec (uval w r) 0) as [E|E]; [rewrite E; lia | nia].
Qed.

(* ================= counts ================= *)

Definition nbits (w : Z) (n : nat) : nat := Z.to_nat (bits w n).

Lemma nbits_S w n : 0 <= w -> nbits w (S n) = (Z.to_nat w + nbits w n)%nat.
Proof. intros Hw. unfold nbits, bits. rewrite <- Z2Nat.inj_add by nia. f_equal. lia. Qed.

Lemma count_ones_ok w n a : 0 < w -> wf w n a ->
  count_ones a = popcount (nbits w n) (uval w a).
Proof.
  intros Hw. revert a. induction n as [|n IH]; intros a Ha.
  - apply wf_inv_0 in Ha; subst. unfold nbits, bits. rewrite Z.mul_0_r. reflexivity.
  - destruct (wf_inv_S _ _ _ Ha) as (d & r & -> & Hd & Hr). cbn [count_ones uval].
    rewrite nbits_S, popcount_add by lia. rewrite Z2Nat.id by lia.
    unfold digit_ok, B in Hd. unfold B. rewrite split_div by lia.
    rewrite <- (IH r Hr). f_equal.
    rewrite (u_count_ones_spec (Z.to_nat w)) by (rewrite Z2Nat.id; lia).
    apply popcount_ext. intros i Hi. rewrite testbit_low by lia. reflexivity.
Qed.

Lemma count_ones_whole w n a : 0 < w -> wf w n a -> count_ones a = u_count_ones (uval w a).
Proof.
  intros Hw Ha. rewrite (count_ones_ok w n) by auto.
  symmetry. apply u_count_ones_spec. unfold nbits, bits.
  pose proof (uval_bounds w n a ltac:(lia) Ha) as Hb. unfold Mod in Hb.
  rewrite Z2Nat.id by nia. exact Hb.
Qed.

Lemma count_zeros_ones w a : count_zeros w a = w * Z.of_nat (length a) - count_ones a.
Proof.
  induction a as [|d r IH]; cbn [count_zeros count_ones length]; [lia|].
  rewrite IH. lia.
Qed.

Lemma count_zeros_ok w n a : 0 < w -> wf w n a ->
  count_zeros w a = bits w n - popcount (nbits w n) (uval w a).
Proof.
  intros Hw Ha. rewrite count_zeros_ones, (wf_length _ _ _ Ha), (count_ones_ok w n) by auto.
  reflexivity.
Qed.

(* ---- leading zeros ---- *)

Lemma leading_zeros_snoc w lo x :
  leading_zeros w (lo ++ [x]) =
  if x =? 0 then u_leading_zeros w x + leading_zeros w lo else u_leading_zeros w x.
Proof. unfold leading_zeros. rewrite rev_app_distr. reflexivity. Qed.

Lemma Mod_pow w k : Mod w k = 2 ^ (w * Z.of_nat k).
Proof. reflexivity. Qed.

Lemma leading_zeros_ok w n a : 0 < w -> wf w n a ->
  leading_zeros w a = bits w n - bitlen (uval w a).
Proof.
  intros Hw. revert a. induction n as [|k IH]; intros a Ha.
  - apply wf_inv_0 in Ha; subst. unfold bits, leading_zeros. cbn [rev leading_zeros_rev uval].
    rewrite bitlen_0. lia.
  - destruct (wf_snoc_inv _ _ _ Ha) as (lo & x & -> & Hlo & Hx).
    rewrite leading_zeros_snoc, (uval_snoc w k) by (auto; lia).
    pose proof (uval_bounds w k lo ltac:(lia) Hlo) as Hb. rewrite Mod_pow in *.
    unfold u_leading_zeros, bits. unfold digit_ok in Hx.
    destruct (Z.eqb_spec x 0) as [->|Hne].
    + rewrite (IH lo Hlo). unfold bits. rewrite Z.mul_0_r, Z.add_0_r, bitlen_0. lia.
    + rewrite bitlen_top by nia. lia.
Qed.

Lemma bits_of_ok w n a : 0 < w -> wf w n a -> bits_of w a = bitlen (uval w a).
Proof.
  intros Hw Ha. unfold bits_of. rewrite (wf_length _ _ _ Ha), (leading_zeros_ok w n) by auto. lia.
Qed.

(* ---- trailing zeros ---- *)

Lemma trailing_zeros_ZERO w n : trailing_zeros w (ZERO n) = bits w n.
Proof.
  unfold ZERO, bits. induction n as [|n IH]; cbn [repeat trailing_zeros]; [lia|].
  rewrite Z.eqb_refl, IH. cbn [u_trailing_zeros]. lia.
Qed.

Lemma uval_0_ZERO w n a : 0 <= w -> wf w n a -> uval w a = 0 -> a = ZERO n.
Proof.
  intros Hw Ha H0. apply (uval_inj w n); auto; [apply wf_ZERO; auto|].
  rewrite uval_ZERO. exact H0.
Qed.

Lemma trailing_zeros_nz w n a : 0 < w -> wf w n a -> uval w a <> 0 ->
  0 <= trailing_zeros w a < bits w n /\
  exists q, 0 <= q /\ uval w a = 2 ^ trailing_zeros w a * (2 * q + 1).
Proof.
  intros Hw. revert a. induction n as [|n IH]; intros a Ha Hnz.
  - apply wf_inv_0 in Ha; subst. cbn [uval] in Hnz. lia.
  - destruct (wf_inv_S _ _ _ Ha) as (d & r & -> & Hd & Hr). cbn [trailing_zeros uval] in *.
    unfold bits. rewrite Nat2Z.inj_succ.
    pose proof (uval_bounds w n r ltac:(lia) Hr) as Hb.
    destruct (Z.eqb_spec d 0) as [->|Hne].
    + assert (Hr0 : uval w r <> 0) by (intros E; rewrite E in Hnz; lia).
      destruct (IH r Hr Hr0) as [Ht (q & Hq & He)]. unfold bits in Ht.
      cbn [u_trailing_zeros]. split; [lia|]. exists q. split; [lia|].
      rewrite pow2_split by lia. unfold B. rewrite He at 1. ring.
    + unfold digit_ok in Hd. assert (Hd0 : 0 < d) by lia.
      destruct (u_trailing_zeros_spec w d Hd0) as [Ht (q & Hq & He)].
      pose proof (u_trailing_zeros_lt w d ltac:(lia) Hd Hd0) as Hlt.
      set (t := u_trailing_zeros w d) in *. split; [nia|].
      exists (q + 2 ^ (w - t - 1) * uval w r). split.
      * pose proof (pow2_pos (w - t - 1) ltac:(lia)). nia.
      * unfold B. replace w with (t + (1 + (w - t - 1))) at 1 by lia.
        rewrite !pow2_split by lia. change (2 ^ 1) with 2. rewrite He at 1. ring.
Qed.

Lemma trailing_zeros_ok w n a : 0 < w -> wf w n a ->
  (uval w a = 0 -> trailing_zeros w a = bits w n) /\
  (uval w a <> 0 -> 0 <= trailing_zeros w a < bits w n /\
     uval w a mod 2 ^ trailing_zeros w a = 0 /\ Z.testbit (uval w a) (trailing_zeros w a) = true).
Proof.
  intros Hw Ha. split.
  - intros H0. rewrite (uval_0_ZERO w n a ltac:(lia) Ha H0). apply trailing_zeros_ZERO.
  - intros Hnz. destruct (trailing_zeros_nz w n a Hw Ha Hnz) as [Ht (q & Hq & He)].
    split; [exact Ht|]. apply (odd_part_spec _ _ q); [lia | exact He].
Qed.

(* k is the greatest exponent with 2^k | A *)
Lemma trailing_zeros_greatest w n a j : 0 < w -> wf w n a -> uval w a <> 0 ->
  0 <= j -> (uval w a mod 2 ^ j = 0 <-> j <= trailing_zeros w a).
Proof.
  intros Hw Ha Hnz Hj. destruct (trailing_zeros_nz w n a Hw Ha Hnz) as [Ht (q & Hq & He)].
  set (t := trailing_zeros w a) in *. split.
  - intros Hm. destruct (Z_le_gt_dec j t) as [|Hgt]; [assumption|exfalso].
    apply Z.mod_divide in Hm; [|pose proof (pow2_pos j Hj); lia]. destruct Hm as [c Hc].
    assert (Hbit : Z.testbit (uval w a) t = true) by (apply (odd_part_spec _ _ q); [lia | exact He]).
    rewrite Hc, Z.mul_pow2_bits in Hbit by lia. rewrite Z.testbit_neg_r in Hbit by lia. discriminate.
  - intros Hle. rewrite He. replace t with (j + (t - j)) by lia. rewrite pow2_split by lia.
    rewrite <- Z.mul_assoc, Z.mul_comm. apply Z.mod_mul. pose proof (pow2_pos j Hj). lia.
Qed.

(* ---- leading / trailing ones: the same counts on the complement ---- *)

Lemma u_not_eq0 w d : (u_not w d =? 0) = (d =? u_max w).
Proof.
  unfold u_not, u_max. destruct (Z.eqb_spec (B w - 1 - d) 0), (Z.eqb_spec d (B w - 1)); try reflexivity; lia.
Qed.

Lemma leading_ones_rev_not w l : leading_ones_rev w l = leading_zeros_rev w (map (u_not w) l).
Proof.
  induction l as [|d r IH]; cbn [leading_ones_rev leading_zeros_rev map]; [reflexivity|].
  rewrite u_not_eq0, IH. reflexivity.
Qed.

Lemma leading_ones_not w a : leading_ones w a = leading_zeros w (bitnot w a).
Proof.
  unfold leading_ones, leading_zeros, bitnot. rewrite <- map_rev. apply leading_ones_rev_not.
Qed.

Lemma trailing_ones_not w a : trailing_ones w a = trailing_zeros w (bitnot w a).
Proof.
  unfold bitnot. induction a as [|d r IH]; cbn [trailing_ones trailing_zeros map]; [reflexivity|].
  rewrite u_not_eq0, IH. reflexivity.
Qed.

Lemma leading_ones_ok w n a : 0 < w -> wf w n a ->
  leading_ones w a = bits w n - bitlen (Mod w n - 1 - uval w a).
Proof.
  intros Hw Ha. rewrite leading_ones_not, (leading_zeros_ok w n) by (auto; apply bitnot_wf; auto; lia).
  rewrite (bitnot_uval w n) by (auto; lia). reflexivity.
Qed.

Lemma trailing_ones_ok w n a : 0 < w -> wf w n a ->
  let c := Mod w n - 1 - uval w a in
  (c = 0 -> trailing_ones w a = bits w n) /\
  (c <> 0 -> 0 <= trailing_ones w a < bits w n /\
     c mod 2 ^ trailing_ones w a = 0 /\ Z.testbit c (trailing_ones w a) = true).
Proof.
  intros Hw Ha c. subst c. rewrite trailing_ones_not, <- (bitnot_uval w n) by (auto; lia).
  apply (trailing_zeros_ok w n); auto. apply bitnot_wf; auto; lia.
Qed.

(* ================= bit / set_bit / power_of_two ================= *)

Lemma set_nth_0 f d r : set_nth 0 f (d :: r) = f d :: r.
Proof. reflexivity. Qed.
Lemma set_nth_S i f d r : set_nth (S i) f (d :: r) = d :: set_nth i f r.
Proof. reflexivity. Qed.

Lemma set_nth_nth f ds i k : (i < length ds)%nat ->
  nth k (set_nth i f ds) 0 = if (k =? i)%nat then f (nth i ds 0) else nth k ds 0.
Proof.
  revert i k. induction ds as [|d r IH]; intros i k Hi; cbn [length] in Hi; [lia|].
  destruct i as [|i].
  - rewrite set_nth_0. destruct k; reflexivity.
  - rewrite set_nth_S. destruct k as [|k]; [reflexivity|]. cbn [nth]. rewrite IH by lia. reflexivity.
Qed.

Lemma set_nth_wf w n f ds i : wf w n ds -> (i < n)%nat -> digit_ok w (f (nth i ds 0)) ->
  wf w n (set_nth i f ds).
Proof.
  revert ds i. induction n as [|n IH]; intros ds i H Hi Hf; [lia|].
  destruct (wf_inv_S _ _ _ H) as (d & r & -> & Hd & Hr). destruct i as [|i].
  - rewrite set_nth_0. apply wf_cons. split; auto.
  - rewrite set_nth_S. apply wf_cons. split; auto. apply IH; auto. lia.
Qed.

Lemma nth_ZERO n k : nth k (ZERO n) 0 = 0.
Proof.
  unfold ZERO. revert k. induction n as [|n IH]; intros k; cbn [repeat].
  - destruct k; reflexivity.
  - destruct k; cbn [nth]; auto.
Qed.

Lemma idx_eq w i j : 0 < w -> (i = j <-> i / w = j / w /\ i mod w = j mod w).
Proof.
  intros Hw. split; [intros ->; auto|]. intros [Hq Hm].
  rewrite (Z.div_mod i w), (Z.div_mod j w) by lia. rewrite Hq, Hm. reflexivity.
Qed.

Lemma bit_ok w n a i : 0 < w -> wf w n a -> 0 <= i ->
  bit w a i = if i <? bits w n then Ret (Z.testbit (uval w a) i) else Panic.
Proof.
  intros Hw Ha Hi. unfold bit. rewrite (wf_length _ _ _ Ha).
  pose proof (idx_nat_lt w n i Hw Hi) as Hlt. unfold bits.
  destruct (Z.ltb_spec i (w * Z.of_nat n)) as [H|H].
  - rewrite (proj2 Hlt H). f_equal.
    pose proof (Z.mod_pos_bound i w Hw) as Hm.
    rewrite u_shl_1 by lia. unfold u_and. rewrite land_pow2_eq0 by lia.
    rewrite (testbit_uval w n) by auto. reflexivity.
  - destruct (Nat.ltb (Z.to_nat (i / w)) n) eqn:E; [|reflexivity].
    apply (proj1 (idx_nat_lt w n i Hw Hi)) in E. lia.
Qed.

Definition set_bit_fn (w shift : Z) (value : bool) (d : Z) : Z :=
  u_or (u_and d (u_not w (u_shl w 1 shift))) (u_shl w (if value then 1 else 0) shift).

Lemma set_bit_fn_ok w s v d : 0 < w -> 0 <= s < w -> digit_ok w d ->
  digit_ok w (set_bit_fn w s v d) /\
  forall t, 0 <= t < w -> Z.testbit (set_bit_fn w s v d) t = if t =? s then v else Z.testbit d t.
Proof.
  intros Hw Hs Hd. unfold set_bit_fn, u_or, u_and. rewrite u_shl_1 by lia.
  pose proof (digit_ok_pow2 w s Hs) as Hp.
  pose proof (digit_ok_not w (2 ^ s) ltac:(lia) Hp) as Hnp.
  assert (Hv : digit_ok w (u_shl w (if v then 1 else 0) s)).
  { destruct v; [rewrite u_shl_1 by lia; exact Hp | rewrite u_shl_0 by lia; apply digit_ok_0; lia]. }
  split.
  - apply digit_ok_lor; [lia | apply digit_ok_land; auto; lia | exact Hv].
  - intros t Ht. rewrite Z.lor_spec, Z.land_spec, u_not_bits by (auto; lia).
    rewrite Z.pow2_bits_eqb by lia. rewrite (Z.eqb_sym t s).
    destruct v.
    + rewrite u_shl_1, Z.pow2_bits_eqb by lia.
      destruct (Z.eqb_spec s t); cbn [negb]; [rewrite andb_false_r | rewrite andb_true_r, orb_false_r];
        reflexivity.
    + rewrite u_shl_0, Z.testbit_0_l by lia.
      destruct (Z.eqb_spec s t); cbn [negb]; [rewrite andb_false_r | rewrite andb_true_r, orb_false_r];
        reflexivity.
Qed.

Lemma set_bit_ok w n a i v : 0 < w -> wf w n a -> 0 <= i ->
  (i < bits w n -> exists r, set_bit w a i v = Ret r /\ wf w n r /\
     forall j, 0 <= j -> Z.testbit (uval w r) j = if j =? i then v else Z.testbit (uval w a) j) /\
  (bits w n <= i -> set_bit w a i v = Panic).
Proof.
  intros Hw Ha Hi. unfold set_bit. rewrite (wf_length _ _ _ Ha).
  pose proof (idx_nat_lt w n i Hw Hi) as Hlt. unfold bits.
  pose proof (Z.mod_pos_bound i w Hw) as Hm.
  fold (set_bit_fn w (i mod w) v).
  split.
  - intros H. rewrite (proj2 Hlt H). eexists; split; [reflexivity|].
    assert (Hk : (Z.to_nat (i / w) < n)%nat) by (apply Nat.ltb_lt, Hlt; exact H).
    destruct (set_bit_fn_ok w (i mod w) v (nth (Z.to_nat (i / w)) a 0) Hw Hm
                (nth_digit_ok w n a _ ltac:(lia) Ha)) as [Hok Hbits].
    assert (Hr : wf w n (set_nth (Z.to_nat (i / w)) (set_bit_fn w (i mod w) v) a))
      by (apply set_nth_wf; auto).
    split; [exact Hr|]. intros j Hj.
    rewrite !(testbit_uval w n) by auto.
    rewrite set_nth_nth by (rewrite (wf_length _ _ _ Ha); exact Hk).
    pose proof (Z.mod_pos_bound j w Hw) as Hjm.
    pose proof (Z.div_pos i w Hi Hw). pose proof (Z.div_pos j w Hj Hw).
    destruct (Nat.eqb_spec (Z.to_nat (j / w)) (Z.to_nat (i / w))) as [Eq|Ne].
    + rewrite Hbits by lia. assert (Hq : j / w = i / w) by lia. rewrite Eq.
      destruct (Z.eqb_spec (j mod w) (i mod w)) as [Em|Nm].
      * assert (j = i) by (apply (idx_eq w j i Hw); auto). subst j. rewrite Z.eqb_refl. reflexivity.
      * destruct (Z.eqb_spec j i) as [->|]; [contradiction | reflexivity].
    + destruct (Z.eqb_spec j i) as [->|]; [contradiction | reflexivity].
  - intros H. destruct (Nat.ltb (Z.to_nat (i / w)) n) eqn:E; [|reflexivity].
    apply (proj1 (idx_nat_lt w n i Hw Hi)) in E. lia.
Qed.

Lemma power_of_two_ok w n k : 0 < w -> 0 <= k ->
  (k < bits w n -> exists r, power_of_two w n k = Ret r /\ wf w n r /\ uval w r = 2 ^ k) /\
  (bits w n <= k -> power_of_two w n k = Panic).
Proof.
  intros Hw Hk. unfold power_of_two.
  pose proof (idx_nat_lt w n k Hw Hk) as Hlt. unfold bits.
  pose proof (Z.mod_pos_bound k w Hw) as Hm.
  split.
  - intros H. rewrite (proj2 Hlt H). eexists; split; [reflexivity|].
    assert (Hi : (Z.to_nat (k / w) < n)%nat) by (apply Nat.ltb_lt, Hlt; exact H).
    rewrite u_shl_1 by lia.
    assert (Hr : wf w n (set_nth (Z.to_nat (k / w)) (fun _ => 2 ^ (k mod w)) (ZERO n))).
    { apply set_nth_wf; auto; [apply wf_ZERO; lia | apply digit_ok_pow2; lia]. }
    split; [exact Hr|]. apply Z.bits_inj'. intros j Hj.
    rewrite (testbit_uval w n) by auto.
    rewrite set_nth_nth by (unfold ZERO; rewrite repeat_length; exact Hi).
    rewrite Z.pow2_bits_eqb by lia.
    pose proof (Z.mod_pos_bound j w Hw) as Hjm.
    pose proof (Z.div_pos k w Hk Hw). pose proof (Z.div_pos j w Hj Hw).
    destruct (Nat.eqb_spec (Z.to_nat (j / w)) (Z.to_nat (k / w))) as [Eq|Ne].
    + rewrite Z.pow2_bits_eqb by lia. assert (Hq : j / w = k / w) by lia.
      destruct (Z.eqb_spec (k mod w) (j mod w)) as [Em|Nm].
      * assert (k = j) by (apply (idx_eq w k j Hw); auto). subst j. rewrite Z.eqb_refl. reflexivity.
      * destruct (Z.eqb_spec k j) as [->|]; [contradiction | reflexivity].
    + rewrite nth_ZERO, Z.testbit_0_l.
      destruct (Z.eqb_spec k j) as [->|]; [contradiction | reflexivity].
  - intros H. destruct (Nat.ltb (Z.to_nat (k / w)) n) eqn:E; [|reflexivity].
    apply (proj1 (idx_nat_lt w n k Hw Hk)) in E. lia.
Qed.

(* ================= is_power_of_two ================= *)

Lemma count_ones_nonneg a : 0 <= count_ones a.
Proof.
  induction a as [|d r IH]; cbn [count_ones]; [lia|]. pose proof (u_count_ones_nonneg d). lia.
Qed.

Lemma is_power_of_two_loop_ok ds ones : 0 <= ones ->
  is_power_of_two_loop ds ones = (ones + count_ones ds =? 1).
Proof.
  revert ones. induction ds as [|d r IH]; intros ones H0; cbn [is_power_of_two_loop count_ones].
  - rewrite Z.add_0_r. reflexivity.
  - pose proof (u_count_ones_nonneg d). pose proof (count_ones_nonneg r).
    destruct (Z.ltb_spec 1 (ones + u_count_ones d)).
    + symmetry. apply Z.eqb_neq. lia.
    + rewrite IH by lia. f_equal. lia.
Qed.

Lemma U_is_power_of_two_ok w n a : 0 < w -> wf w n a ->
  (U_is_power_of_two a = true <-> exists k, 0 <= k /\ uval w a = 2 ^ k).
Proof.
  intros Hw Ha. unfold U_is_power_of_two. rewrite is_power_of_two_loop_ok by lia.
  rewrite Z.add_0_l, Z.eqb_eq, (count_ones_whole w n) by auto. apply u_count_ones_1.
Qed.

Lemma sval_nonneg_uval w n a : 0 < w -> (0 < n)%nat -> wf w n a -> 0 <= sval w a -> sval w a = uval w a.
Proof.
  intros Hw Hn Ha H0. rewrite (sval_of_uval w n) in * by auto. unfold to_signed in *.
  pose proof (uval_bounds w n a ltac:(lia) Ha).
  destruct (Z.ltb_spec (uval w a) (Mod w n / 2)); lia.
Qed.

Lemma I_is_power_of_two_ok w n a : 0 < w -> (0 < n)%nat -> wf w n a ->
  (I_is_power_of_two w a = true <-> 0 < sval w a /\ exists k, 0 <= k /\ sval w a = 2 ^ k).
Proof.
  intros Hw Hn Ha. unfold I_is_power_of_two.
  rewrite andb_true_iff, (U_is_power_of_two_ok w n) by auto.
  rewrite (is_negative_ok w n) by auto. rewrite negb_true_iff, Z.ltb_ge. split.
  - intros [H0 (k & Hk & He)]. rewrite (sval_nonneg_uval w n) by auto.
    pose proof (pow2_pos k Hk). split; [lia|]. exists k; auto.
  - intros [H0 (k & Hk & He)]. split; [lia|]. exists k. split; [exact Hk|].
    rewrite <- (sval_nonneg_uval w n) by (auto; lia). exact He.
Qed.

(* ================= next_power_of_two ================= *)

(* SPEC: the least power of two >= x (1 for x = 0) *)
Definition next_pow2 (x : Z) : Z := 2 ^ Z.log2_up x.

Lemma next_pow2_spec x : 0 <= x ->
  x <= next_pow2 x /\ (exists k, 0 <= k /\ next_pow2 x = 2 ^ k) /\
  (forall j, 0 <= j -> x <= 2 ^ j -> next_pow2 x <= 2 ^ j).
Proof.
  intros Hx. unfold next_pow2. pose proof (Z.log2_up_nonneg x) as Hl.
  split; [|split].
  - destruct (Z_le_gt_dec x 1).
    + pose proof (pow2_pos (Z.log2_up x) Hl). lia.
    + apply Z.log2_up_spec. lia.
  - exists (Z.log2_up x). auto.
  - intros j Hj Hle. destruct (Z_le_gt_dec x 1) as [H1|H1].
    + replace (Z.log2_up x) with 0; [change (2 ^ 0) with 1; pose proof (pow2_pos j Hj); lia|].
      destruct (Z.eq_dec x 1) as [->|]; [reflexivity|]. symmetry. apply Z.log2_up_nonpos. lia.
    + pose proof (Z.log2_up_spec x ltac:(lia)) as [Hs _].
      apply pow2_le. split; [lia|].
      assert (2 ^ Z.pred (Z.log2_up x) < 2 ^ j) by lia.
      apply Z.pow_lt_mono_r_iff in H; lia.
Qed.

Lemma log2_up_not_pow2 x : 0 <= x -> (forall k, 0 <= k -> x <> 2 ^ k) -> Z.log2_up x = bitlen x.
Proof.
  intros Hx Hnp. destruct (Z.eq_dec x 0) as [->|H0]; [reflexivity|].
  destruct (Z.eq_dec x 1) as [->|H1]; [exfalso; apply (Hnp 0); [lia | reflexivity]|].
  rewrite Z.log2_up_eqn, bitlen_pos by lia.
  pose proof (Z.log2_spec x ltac:(lia)) as [Ha Hb]. pose proof (Z.log2_nonneg x) as Hl.
  specialize (Hnp (Z.log2 x) Hl).
  assert (Z.log2 (Z.pred x) = Z.log2 x); [|lia].
  apply Z.log2_unique; lia.
Qed.

Lemma U_checked_next_power_of_two_ok w n a : 0 < w -> wf w n a ->
  (next_pow2 (uval w a) < Mod w n ->
     exists r, U_checked_next_power_of_two w a = Ret (Some r) /\ wf w n r /\ uval w r = next_pow2 (uval w a)) /\
  (Mod w n <= next_pow2 (uval w a) -> U_checked_next_power_of_two w a = Ret None).
Proof.
  intros Hw Ha. unfold U_checked_next_power_of_two.
  pose proof (uval_bounds w n a ltac:(lia) Ha) as Hb.
  destruct (U_is_power_of_two a) eqn:Ep.
  - apply (U_is_power_of_two_ok w n) in Ep; auto. destruct Ep as (k & Hk & He).
    assert (Hn : next_pow2 (uval w a) = uval w a).
    { unfold next_pow2. rewrite He, Z.log2_up_pow2 by lia. reflexivity. }
    rewrite Hn. split; [|lia]. intros _. exists a. auto.
  - assert (Hnp : forall k, 0 <= k -> uval w a <> 2 ^ k).
    { intros k Hk He. assert (U_is_power_of_two a = true); [|congruence].
      apply (U_is_power_of_two_ok w n); auto. exists k; auto. }
    rewrite (bits_of_ok w n), (wf_length _ _ _ Ha) by auto.
    unfold next_pow2. rewrite log2_up_not_pow2 by (auto; lia).
    assert (Hbits : 0 <= bits w n) by (unfold bits; nia).
    pose proof (bitlen_le (uval w a) (bits w n) ltac:(lia) Hbits ltac:(apply Hb)) as Hle.
    destruct (bitlen_spec (uval w a) ltac:(lia)) as [Hl0 _].
    unfold Mod. fold (bits w n).
    destruct (Z.eqb_spec (bitlen (uval w a)) (bits w n)) as [E|E].
    + rewrite E. split; [lia | reflexivity].
    + assert (Hlt : bitlen (uval w a) < bits w n) by lia.
      pose proof (pow2_lt (bitlen (uval w a)) (bits w n) ltac:(lia)).
      split; [|lia]. intros _.
      destruct (power_of_two_ok w n (bitlen (uval w a)) Hw Hl0) as [Hp _].
      destruct (Hp Hlt) as (r & Hr & Hwf & Hv). rewrite Hr. cbn [omap]. exists r. auto.
Qed.

Lemma U_wrapping_next_power_of_two_ok w n a : 0 < w -> wf w n a ->
  (next_pow2 (uval w a) < Mod w n ->
     exists r, U_wrapping_next_power_of_two w a = Ret r /\ wf w n r /\ uval w r = next_pow2 (uval w a)) /\
  (Mod w n <= next_pow2 (uval w a) -> U_wrapping_next_power_of_two w a = Ret (ZERO n)).
Proof.
  intros Hw Ha. unfold U_wrapping_next_power_of_two.
  destruct (U_checked_next_power_of_two_ok w n a Hw Ha) as [H1 H2]. split.
  - intros H. destruct (H1 H) as (r & -> & Hr). exists r. auto.
  - intros H. rewrite (H2 H). cbn [omap]. rewrite (wf_length _ _ _ Ha). reflexivity.
Qed.

Lemma U_next_power_of_two_ok dbg w n a : 0 < w -> wf w n a ->
  (next_pow2 (uval w a) < Mod w n ->
     exists r, U_next_power_of_two dbg w a = Ret r /\ wf w n r /\ uval w r = next_pow2 (uval w a)) /\
  (Mod w n <= next_pow2 (uval w a) ->
     U_next_power_of_two dbg w a = if dbg then Panic else Ret (ZERO n)).
Proof.
  intros Hw Ha. unfold U_next_power_of_two.
  destruct (U_checked_next_power_of_two_ok w n a Hw Ha) as [H1 H2].
  destruct (U_wrapping_next_power_of_two_ok w n a Hw Ha) as [H3 H4].
  destruct dbg.
  - split.
    + intros H. destruct (H1 H) as (r & -> & Hr). exists r. auto.
    + intros H. rewrite (H2 H). reflexivity.
  - split; auto.
Qed.

(* ================= swap_bytes / reverse_bits ================= *)

(* both reverse the digit order and reverse the order of the c-bit chunks inside each digit *)
Definition rev_list (c : Z) (m : nat) (ds : list Z) : list Z := map (rev_chunks c m) (rev ds).

Lemma reverse_bits_rev_list w ds : reverse_bits w ds = rev_list 1 (Z.to_nat w) ds.
Proof.
  unfold reverse_bits, rev_list, u_reverse_bits. apply map_ext. intros; apply rev_bits_chunks.
Qed.

Lemma swap_bytes_rev_list w ds : swap_bytes w ds = rev_list 8 (Z.to_nat (w / 8)) ds.
Proof.
  unfold swap_bytes, rev_list, u_swap_bytes. apply map_ext. intros; apply rev_bytes_chunks.
Qed.

Section RevList.
  Context (c : Z) (m : nat) (w : Z) (Hc : 0 < c) (Hm : (0 < m)%nat) (Hwc : w = c * Z.of_nat m).

  Lemma rl_w_pos : 0 < w.
  Proof. rewrite Hwc. apply Z.mul_pos_pos; lia. Qed.

  Lemma rev_list_wf n a : wf w n a -> wf w n (rev_list c m a).
  Proof.
    intros [Hl Hf]. split.
    - unfold rev_list. rewrite map_length, rev_length. exact Hl.
    - apply Forall_forall. intros x Hx. unfold rev_list in Hx. apply in_map_iff in Hx.
      destruct Hx as (y & <- & _). unfold digit_ok, B. rewrite Hwc. apply rev_chunks_spec. exact Hc.
  Qed.

  Lemma rev_list_nth n a q : wf w n a -> (q < n)%nat ->
    nth q (rev_list c m a) 0 = rev_chunks c m (nth (n - 1 - q) a 0).
  Proof.
    intros Ha Hq. unfold rev_list. pose proof (wf_length _ _ _ Ha) as Hl.
    rewrite (nth_indep _ 0 (rev_chunks c m 0)) by (rewrite map_length, rev_length; lia).
    rewrite map_nth. rewrite rev_nth by lia. do 2 f_equal. lia.
  Qed.

  Lemma chunk_pos_bound t j : 0 <= t < Z.of_nat m -> 0 <= j < c -> 0 <= c * t + j < w.
  Proof.
    intros Ht Hj. rewrite Hwc.
    assert (c * (t + 1) <= c * Z.of_nat m) by (apply Z.mul_le_mono_nonneg_l; lia).
    assert (0 <= c * t) by (apply Z.mul_nonneg_nonneg; lia). lia.
  Qed.

  Lemma rev_list_testbit_digit n a Q t j : wf w n a -> (Q < n)%nat ->
    0 <= t < Z.of_nat m -> 0 <= j < c ->
    Z.testbit (uval w (rev_list c m a)) (w * Z.of_nat Q + (c * t + j)) =
    Z.testbit (uval w a) (w * Z.of_nat (n - 1 - Q) + (c * (Z.of_nat m - 1 - t) + j)).
  Proof.
    intros Ha HQ Ht Hj. pose proof rl_w_pos as Hw.
    rewrite (testbit_uval_digit w n) by (auto using rev_list_wf, chunk_pos_bound).
    rewrite (testbit_uval_digit w n) by (auto; apply chunk_pos_bound; lia).
    rewrite (rev_list_nth n) by auto.
    apply rev_chunks_spec; auto.
  Qed.

  Lemma rev_list_testbit n a I j : wf w n a ->
    0 <= I < Z.of_nat m * Z.of_nat n -> 0 <= j < c ->
    Z.testbit (uval w (rev_list c m a)) (c * I + j) =
    Z.testbit (uval w a) (c * (Z.of_nat m * Z.of_nat n - 1 - I) + j).
  Proof.
    intros Ha HI Hj.
    pose proof (Z.div_mod I (Z.of_nat m) ltac:(lia)) as HE.
    pose proof (Z.mod_pos_bound I (Z.of_nat m) ltac:(lia)) as Ht.
    assert (Hq : 0 <= I / Z.of_nat m < Z.of_nat n).
    { split; [apply Z.div_pos; lia | apply Z.div_lt_upper_bound; lia]. }
    set (q := I / Z.of_nat m) in *. set (t := I mod Z.of_nat m) in *.
    replace (c * I + j) with (w * Z.of_nat (Z.to_nat q) + (c * t + j))
      by (rewrite Z2Nat.id, Hwc, HE by lia; ring).
    rewrite (rev_list_testbit_digit n) by (auto; lia).
    f_equal. replace (Z.of_nat (n - 1 - Z.to_nat q)) with (Z.of_nat n - 1 - q) by lia.
    rewrite Hwc, HE. ring.
  Qed.

  Lemma rev_list_involutive n a : wf w n a -> rev_list c m (rev_list c m a) = a.
  Proof.
    intros Ha. pose proof rl_w_pos as Hw.
    pose proof (rev_list_wf n a Ha) as Hr. pose proof (rev_list_wf n _ Hr) as Hrr.
    apply (wf_eq_bits w n); auto. intros p Hp.
    pose proof (Z.div_mod p c ltac:(lia)) as HE.
    pose proof (Z.mod_pos_bound p c Hc) as Hj.
    assert (HI : 0 <= p / c < Z.of_nat m * Z.of_nat n).
    { split; [apply Z.div_pos; lia | apply Z.div_lt_upper_bound; [lia|]].
      rewrite Hwc in Hp. lia. }
    rewrite HE at 1. rewrite (rev_list_testbit n) by auto.
    rewrite (rev_list_testbit n) by (auto; lia).
    f_equal. lia.
  Qed.
End RevList.

Lemma reverse_bits_ok w n a : 0 < w -> wf w n a ->
  wf w n (reverse_bits w a) /\
  (forall i, 0 <= i < bits w n ->
     Z.testbit (uval w (reverse_bits w a)) i = Z.testbit (uval w a) (bits w n - 1 - i)) /\
  reverse_bits w (reverse_bits w a) = a.
Proof.
  intros Hw Ha. rewrite !reverse_bits_rev_list.
  assert (Hwc : w = 1 * Z.of_nat (Z.to_nat w)) by lia.
  assert (Hm : (0 < Z.to_nat w)%nat) by lia.
  split; [apply (rev_list_wf 1 _ w); auto; lia|]. split.
  - intros i Hi. unfold bits in *.
    replace i with (1 * i + 0) at 1 by lia.
    rewrite (rev_list_testbit 1 _ w ltac:(lia) Hm Hwc n) by (auto; lia).
    f_equal. lia.
  - apply (rev_list_involutive 1 _ w ltac:(lia) Hm Hwc n); auto.
Qed.

Lemma swap_bytes_ok w n a : 0 < w -> w mod 8 = 0 -> wf w n a ->
  let nbytes := w / 8 * Z.of_nat n in
  wf w n (swap_bytes w a) /\
  (forall i j, 0 <= i < nbytes -> 0 <= j < 8 ->
     Z.testbit (uval w (swap_bytes w a)) (8 * i + j) = Z.testbit (uval w a) (8 * (nbytes - 1 - i) + j)) /\
  swap_bytes w (swap_bytes w a) = a.
Proof.
  intros Hw H8 Ha nbytes. subst nbytes. rewrite !swap_bytes_rev_list.
  pose proof (Z.div_mod w 8 ltac:(lia)) as HE. rewrite H8, Z.add_0_r in HE.
  assert (Hwc : w = 8 * Z.of_nat (Z.to_nat (w / 8))) by lia.
  assert (Hm : (0 < Z.to_nat (w / 8))%nat) by lia.
  split; [apply (rev_list_wf 8 _ w); auto; lia|]. split.
  - intros i j Hi Hj.
    rewrite (rev_list_testbit 8 _ w ltac:(lia) Hm Hwc n) by (auto; lia).
    f_equal. lia.
  - apply (rev_list_involutive 8 _ w ltac:(lia) Hm Hwc n); auto.
Qed.

(* byte i of x *)
Definition byte_of (x i : Z) : Z := (x / 256 ^ i) mod 256.

Lemma byte_of_bits x i j : 0 <= i -> 0 <= j ->
  Z.testbit (byte_of x i) j = if j <? 8 then Z.testbit x (8 * i + j) else false.
Proof.
  intros Hi Hj. unfold byte_of. change 256 with (2 ^ 8). rewrite <- Z.pow_mul_r by lia.
  destruct (Z.ltb_spec j 8).
  - rewrite Z.mod_pow2_bits_low, Z.div_pow2_bits by lia. f_equal. lia.
  - apply Z.mod_pow2_bits_high. lia.
Qed.

Lemma swap_bytes_byte w n a i : 0 < w -> w mod 8 = 0 -> wf w n a ->
  0 <= i < w / 8 * Z.of_nat n ->
  byte_of (uval w (swap_bytes w a)) i = byte_of (uval w a) (w / 8 * Z.of_nat n - 1 - i).
Proof.
  intros Hw H8 Ha Hi. destruct (swap_bytes_ok w n a Hw H8 Ha) as [_ [Hb _]].
  apply Z.bits_inj'. intros j Hj. rewrite !byte_of_bits by lia.
  destruct (Z.ltb_spec j 8); [|reflexivity]. apply Hb; lia.
Qed.

(* ================= which indices panic: exactly those whose digit index is past the array ================= *)

Lemma bit_panic_iff w n a i : 0 < w -> wf w n a -> 0 <= i ->
  (bit w a i = Panic <-> Z.of_nat n <= i / w).
Proof.
  intros Hw Ha Hi. rewrite (bit_ok w n) by auto. pose proof (idx_lt w (Z.of_nat n) i Hw Hi) as HL.
  unfold bits. destruct (Z.ltb_spec i (w * Z.of_nat n)) as [H|H].
  - split; [discriminate | lia].
  - split; [lia | reflexivity].
Qed.

Lemma set_bit_panic_iff w n a i v : 0 < w -> wf w n a -> 0 <= i ->
  (set_bit w a i v = Panic <-> Z.of_nat n <= i / w).
Proof.
  intros Hw Ha Hi. destruct (set_bit_ok w n a i v Hw Ha Hi) as [H1 H2].
  pose proof (idx_lt w (Z.of_nat n) i Hw Hi) as HL. unfold bits in *.
  destruct (Z_lt_le_dec i (w * Z.of_nat n)) as [H|H].
  - destruct (H1 H) as (r & -> & _). split; [discriminate | lia].
  - rewrite (H2 H). split; [lia | reflexivity].
Qed.

Lemma power_of_two_panic_iff w n k : 0 < w -> 0 <= k ->
  (power_of_two w n k = Panic <-> Z.of_nat n <= k / w).
Proof.
  intros Hw Hk. destruct (power_of_two_ok w n k Hw Hk) as [H1 H2].
  pose proof (idx_lt w (Z.of_nat n) k Hw Hk) as HL. unfold bits in *.
  destruct (Z_lt_le_dec k (w * Z.of_nat n)) as [H|H].
  - destruct (H1 H) as (r & -> & _). split; [discriminate | lia].
  - rewrite (H2 H). split; [lia | reflexivity].
Qed.

Lemma count_ones_whole_popcount w n a : 0 < w -> wf w n a ->
  popcount (nbits w n) (uval w a) = u_count_ones (uval w a).
Proof. intros Hw Ha. rewrite <- (count_ones_ok w n), (count_ones_whole w n) by auto. reflexivity. Qed.

(* Proofs/Bits.v — C06: bitwise logic, bit counts and bit manipulation of
   BUint / BInt act on the exact bit pattern of the value. *)
From Bnum Require Import Base Prim.
From Bnum.Model Require Import Core Shift Bits.
From Bnum.Proofs Require Import BitAddr BitsLemmas Cmp.

(* ================= logic ================= *)

Lemma map2_length f a b : length a = length b -> length (map2 f a b) = length a.
Proof.
  revert b. induction a as [|x a IH]; intros [|y b] H; cbn [map2 length] in *; try lia.
  rewrite IH; lia.
Qed.

Lemma map2_wf f w n a b :
  (forall x y, digit_ok w x -> digit_ok w y -> digit_ok w (f x y)) ->
  wf w n a -> wf w n b -> wf w n (map2 f a b).
Proof.
  intros Hf. revert a b. induction n as [|n IH]; intros a b Ha Hb.
  - apply wf_inv_0 in Ha, Hb; subst. apply wf_nil.
  - destruct (wf_inv_S _ _ _ Ha) as (x & a' & -> & Hx & Ha').
    destruct (wf_inv_S _ _ _ Hb) as (y & b' & -> & Hy & Hb').
    cbn [map2]. apply wf_cons. split; auto.
Qed.

Lemma map2_nth f a b k : f 0 0 = 0 -> length a = length b ->
  nth k (map2 f a b) 0 = f (nth k a 0) (nth k b 0).
Proof.
  intros H0. revert b k. induction a as [|x a IH]; intros [|y b] k Hl; cbn [length] in Hl; try lia.
  - destruct k; cbn [map2 nth]; auto.
  - destruct k; cbn [map2 nth]; [reflexivity|]. apply IH. lia.
Qed.

Section Logic.
  Context (f : Z -> Z -> Z) (g : bool -> bool -> bool).
  Context (f00 : f 0 0 = 0).
  Context (fbits : forall x y j, Z.testbit (f x y) j = g (Z.testbit x j) (Z.testbit y j)).
  Context (w : Z) (Hw : 0 < w).
  Context (fok : forall x y, digit_ok w x -> digit_ok w y -> digit_ok w (f x y)).

  Lemma map2_testbit n a b i : wf w n a -> wf w n b -> 0 <= i ->
    Z.testbit (uval w (map2 f a b)) i = g (Z.testbit (uval w a) i) (Z.testbit (uval w b) i).
  Proof.
    intros Ha Hb Hi. pose proof (map2_wf f w n a b fok Ha Hb) as Hr.
    rewrite !(testbit_uval w n) by auto.
    rewrite map2_nth by (auto; rewrite (wf_length _ _ _ Ha), (wf_length _ _ _ Hb); reflexivity).
    apply fbits.
  Qed.
End Logic.

Lemma bitand_ok w n a b : 0 < w -> wf w n a -> wf w n b ->
  wf w n (bitand a b) /\ uval w (bitand a b) = Z.land (uval w a) (uval w b) /\
  forall i, 0 <= i -> Z.testbit (uval w (bitand a b)) i = Z.testbit (uval w a) i && Z.testbit (uval w b) i.
Proof.
  intros Hw Ha Hb. unfold bitand, u_and.
  assert (Hok : forall x y, digit_ok w x -> digit_ok w y -> digit_ok w (Z.land x y))
    by (intros; apply digit_ok_land; auto; lia).
  assert (Hb' : forall i, 0 <= i -> Z.testbit (uval w (map2 Z.land a b)) i =
                 Z.testbit (uval w a) i && Z.testbit (uval w b) i).
  { intros i Hi. apply (map2_testbit Z.land andb eq_refl Z.land_spec w Hw Hok n); auto. }
  split; [apply map2_wf; auto|]. split; [|exact Hb'].
  apply Z.bits_inj'. intros i Hi. rewrite Hb', Z.land_spec by lia. reflexivity.
Qed.

Lemma bitor_ok w n a b : 0 < w -> wf w n a -> wf w n b ->
  wf w n (bitor a b) /\ uval w (bitor a b) = Z.lor (uval w a) (uval w b) /\
  forall i, 0 <= i -> Z.testbit (uval w (bitor a b)) i = Z.testbit (uval w a) i || Z.testbit (uval w b) i.
Proof.
  intros Hw Ha Hb. unfold bitor, u_or.
  assert (Hok : forall x y, digit_ok w x -> digit_ok w y -> digit_ok w (Z.lor x y))
    by (intros; apply digit_ok_lor; auto; lia).
  assert (Hb' : forall i, 0 <= i -> Z.testbit (uval w (map2 Z.lor a b)) i =
                 Z.testbit (uval w a) i || Z.testbit (uval w b) i).
  { intros i Hi. apply (map2_testbit Z.lor orb eq_refl Z.lor_spec w Hw Hok n); auto. }
  split; [apply map2_wf; auto|]. split; [|exact Hb'].
  apply Z.bits_inj'. intros i Hi. rewrite Hb', Z.lor_spec by lia. reflexivity.
Qed.

Lemma bitxor_ok w n a b : 0 < w -> wf w n a -> wf w n b ->
  wf w n (bitxor a b) /\ uval w (bitxor a b) = Z.lxor (uval w a) (uval w b) /\
  forall i, 0 <= i -> Z.testbit (uval w (bitxor a b)) i = xorb (Z.testbit (uval w a) i) (Z.testbit (uval w b) i).
Proof.
  intros Hw Ha Hb. unfold bitxor, u_xor.
  assert (Hok : forall x y, digit_ok w x -> digit_ok w y -> digit_ok w (Z.lxor x y))
    by (intros; apply digit_ok_lxor; auto; lia).
  assert (Hb' : forall i, 0 <= i -> Z.testbit (uval w (map2 Z.lxor a b)) i =
                 xorb (Z.testbit (uval w a) i) (Z.testbit (uval w b) i)).
  { intros i Hi. apply (map2_testbit Z.lxor xorb eq_refl Z.lxor_spec w Hw Hok n); auto. }
  split; [apply map2_wf; auto|]. split; [|exact Hb'].
  apply Z.bits_inj'. intros i Hi. rewrite Hb', Z.lxor_spec by lia. reflexivity.
Qed.

Lemma bitnot_wf w n a : 0 <= w -> wf w n a -> wf w n (bitnot w a).
Proof.
  intros Hw. revert a. induction n as [|n IH]; intros a Ha.
  - apply wf_inv_0 in Ha; subst. apply wf_nil.
  - destruct (wf_inv_S _ _ _ Ha) as (x & a' & -> & Hx & Ha'). unfold bitnot. cbn [map].
    apply wf_cons. split; [apply digit_ok_not; auto | apply IH; auto].
Qed.

Lemma bitnot_uval w n a : 0 <= w -> wf w n a -> uval w (bitnot w a) = Mod w n - 1 - uval w a.
Proof.
  intros Hw. revert a. induction n as [|n IH]; intros a Ha.
  - apply wf_inv_0 in Ha; subst. rewrite Mod_0. reflexivity.
  - destruct (wf_inv_S _ _ _ Ha) as (x & a' & -> & Hx & Ha'). unfold bitnot in *. cbn [map uval].
    rewrite (IH a' Ha'), Mod_S by lia. unfold u_not. ring.
Qed.

Lemma bitnot_testbit w n a i : 0 < w -> wf w n a -> 0 <= i < w * Z.of_nat n ->
  Z.testbit (uval w (bitnot w a)) i = negb (Z.testbit (uval w a) i).
Proof.
  intros Hw Ha Hi. pose proof (bitnot_wf w n a ltac:(lia) Ha) as Hr.
  rewrite !(testbit_uval w n) by (auto; lia). unfold bitnot.
  assert (Hk : (Z.to_nat (i / w) < length a)%nat).
  { rewrite (wf_length _ _ _ Ha). apply Nat.ltb_lt. apply (proj2 (idx_nat_lt w n i Hw ltac:(lia))). lia. }
  rewrite (nth_indep _ 0 (u_not w 0)) by (rewrite map_length; exact Hk).
  rewrite map_nth. apply u_not_bits; [lia | apply (nth_digit_ok w n); auto; lia |].
  apply Z.mod_pos_bound; lia.
Qed.

Lemma bitnot_ok w n a : 0 < w -> wf w n a ->
  wf w n (bitnot w a) /\ uval w (bitnot w a) = Mod w n - 1 - uval w a /\
  forall i, 0 <= i < w * Z.of_nat n -> Z.testbit (uval w (bitnot w a)) i = negb (Z.testbit (uval w a) i).
Proof.
  intros Hw Ha. split; [apply bitnot_wf; auto; lia|]. split; [apply bitnot_uval; auto; lia|].
  intros; apply (bitnot_testbit w n); auto.
Qed.

(* ================= is_zero / is_one ================= *)

Lemma is_one_ok w n a : 0 < w -> wf w n a -> is_one a = (uval w a =? 1).
Proof.
  intros Hw Ha. destruct n as [|n].
  - apply wf_inv_0 in Ha; subst. reflexivity.
  - destruct (wf_inv_S _ _ _ Ha) as (d & r & -> & Hd & Hr). cbn [is_one uval].
    rewrite (is_zero_ok w n r ltac:(lia) Hr).
    pose proof (uval_bounds w n r ltac:(lia) Hr) as Hb. pose proof (B_ge_2 w Hw) as HB.
    unfold digit_ok in Hd.
    destruct (Z.eqb_spec d 1) as [->|Hne].
    + destruct (Z.eqb_spec (uval w r) 0) as [->|Hr0].
      * symmetry. apply Z.eqb_eq. lia.
      * symmetry. apply Z.eqb_neq. nia.
    + symmetry. apply Z.eqb_neq. destruct (Z.eq_dec (uval w r) 0) as [E|E]; [rewrite E; lia | nia].
Qed.

(* ================= counts ================= *)

Definition nbits (w : Z) (n : nat) : nat := Z.to_nat (bits w n).

Lemma nbits_S w n : 0 <= w -> nbits w (S n) = (Z.to_nat w + nbits w n)%nat.
Proof. intros Hw. unfold nbits, bits. rewrite <- Z2Nat.inj_add by nia. f_equal. lia. Qed.

Lemma count_ones_ok w n a : 0 < w -> wf w n a ->
  count_ones a = popcount (nbits w n) (uval w a).
Proof.
  intros Hw. revert a. induction n as [|n IH]; intros a Ha.
  - apply wf_inv_0 in Ha; subst. unfold nbits, bits. rewrite Z.mul_0_r. reflexivity.
  - destruct (wf_inv_S _ _ _ Ha) as (d & r & -> & Hd & Hr). cbn [count_ones uval].
    rewrite nbits_S, popcount_add by lia. rewrite Z2Nat.id by lia.
    unfold digit_ok, B in Hd. unfold B. rewrite split_div by lia.
    rewrite <- (IH r Hr). f_equal.
    rewrite (u_count_ones_spec (Z.to_nat w)) by (rewrite Z2Nat.id; lia).
    apply popcount_ext. intros i Hi. rewrite testbit_low by lia. reflexivity.
Qed.

Lemma count_ones_whole w n a : 0 < w -> wf w n a -> count_ones a = u_count_ones (uval w a).
Proof.
  intros Hw Ha. rewrite (count_ones_ok w n) by auto.
  symmetry. apply u_count_ones_spec. unfold nbits, bits.
  pose proof (uval_bounds w n a ltac:(lia) Ha) as Hb. unfold Mod in Hb.
  rewrite Z2Nat.id by nia. exact Hb.
Qed.

Lemma count_zeros_ones w a : count_zeros w a = w * Z.of_nat (length a) - count_ones a.
Proof.
  induction a as [|d r IH]; cbn [count_zeros count_ones length]; [lia|].
  rewrite IH. lia.
Qed.

Lemma count_zeros_ok w n a : 0 < w -> wf w n a ->
  count_zeros w a = bits w n - popcount (nbits w n) (uval w a).
Proof.
  intros Hw Ha. rewrite count_zeros_ones, (wf_length _ _ _ Ha), (count_ones_ok w n) by auto.
  reflexivity.
Qed.

(* ---- leading zeros ---- *)

Lemma leading_zeros_snoc w lo x :
  leading_zeros w (lo ++ [x]) =
  if x =? 0 then u_leading_zeros w x + leading_zeros w lo else u_leading_zeros w x.
Proof. unfold leading_zeros. rewrite rev_app_distr. reflexivity. Qed.

Lemma Mod_pow w k : Mod w k = 2 ^ (w * Z.of_nat k).
Proof. reflexivity. Qed.

Lemma leading_zeros_ok w n a : 0 < w -> wf w n a ->
  leading_zeros w a = bits w n - bitlen (uval w a).
Proof.
  intros Hw. revert a. induction n as [|k IH]; intros a Ha.
  - apply wf_inv_0 in Ha; subst. unfold bits, leading_zeros. cbn [rev leading_zeros_rev uval].
    rewrite bitlen_0. lia.
  - destruct (wf_snoc_inv _ _ _ Ha) as (lo & x & -> & Hlo & Hx).
    rewrite leading_zeros_snoc, (uval_snoc w k) by (auto; lia).
    pose proof (uval_bounds w k lo ltac:(lia) Hlo) as Hb. rewrite Mod_pow in *.
    unfold u_leading_zeros, bits. unfold digit_ok in Hx.
    destruct (Z.eqb_spec x 0) as [->|Hne].
    + rewrite (IH lo Hlo). unfold bits. rewrite Z.mul_0_r, Z.add_0_r, bitlen_0. lia.
    + rewrite bitlen_top by nia. lia.
Qed.

Lemma bits_of_ok w n a : 0 < w -> wf w n a -> bits_of w a = bitlen (uval w a).
Proof.
  intros Hw Ha. unfold bits_of. rewrite (wf_length _ _ _ Ha), (leading_zeros_ok w n) by auto. lia.
Qed.

(* ---- trailing zeros ---- *)

Lemma trailing_zeros_ZERO w n : trailing_zeros w (ZERO n) = bits w n.
Proof.
  unfold ZERO, bits. induction n as [|n IH]; cbn [repeat trailing_zeros]; [lia|].
  rewrite Z.eqb_refl, IH. cbn [u_trailing_zeros]. lia.
Qed.

Lemma uval_0_ZERO w n a : 0 <= w -> wf w n a -> uval w a = 0 -> a = ZERO n.
Proof.
  intros Hw Ha H0. apply (uval_inj w n); auto; [apply wf_ZERO; auto|].
  rewrite uval_ZERO. exact H0.
Qed.

Lemma trailing_zeros_nz w n a : 0 < w -> wf w n a -> uval w a <> 0 ->
  0 <= trailing_zeros w a < bits w n /\
  exists q, 0 <= q /\ uval w a = 2 ^ trailing_zeros w a * (2 * q + 1).
Proof.
  intros Hw. revert a. induction n as [|n IH]; intros a Ha Hnz.
  - apply wf_inv_0 in Ha; subst. cbn [uval] in Hnz. lia.
  - destruct (wf_inv_S _ _ _ Ha) as (d & r & -> & Hd & Hr). cbn [trailing_zeros uval] in *.
    unfold bits. rewrite Nat2Z.inj_succ.
    pose proof (uval_bounds w n r ltac:(lia) Hr) as Hb.
    destruct (Z.eqb_spec d 0) as [->|Hne].
    + assert (Hr0 : uval w r <> 0) by (intros E; rewrite E in Hnz; lia).
      destruct (IH r Hr Hr0) as [Ht (q & Hq & He)]. unfold bits in Ht.
      cbn [u_trailing_zeros]. split; [lia|]. exists q. split; [lia|].
      rewrite pow2_split by lia. unfold B. rewrite He at 1. ring.
    + unfold digit_ok in Hd. assert (Hd0 : 0 < d) by lia.
      destruct (u_trailing_zeros_spec w d Hd0) as [Ht (q & Hq & He)].
      pose proof (u_trailing_zeros_lt w d ltac:(lia) Hd Hd0) as Hlt.
      set (t := u_trailing_zeros w d) in *. split; [nia|].
      exists (q + 2 ^ (w - t - 1) * uval w r). split.
      * pose proof (pow2_pos (w - t - 1) ltac:(lia)). nia.
      * unfold B. replace w with (t + (1 + (w - t - 1))) at 1 by lia.
        rewrite !pow2_split by lia. change (2 ^ 1) with 2. rewrite He at 1. ring.
Qed.

Lemma trailing_zeros_ok w n a : 0 < w -> wf w n a ->
  (uval w a = 0 -> trailing_zeros w a = bits w n) /\
  (uval w a <> 0 -> 0 <= trailing_zeros w a < bits w n /\
     uval w a mod 2 ^ trailing_zeros w a = 0 /\ Z.testbit (uval w a) (trailing_zeros w a) = true).
Proof.
  intros Hw Ha. split.
  - intros H0. rewrite (uval_0_ZERO w n a ltac:(lia) Ha H0). apply trailing_zeros_ZERO.
  - intros Hnz. destruct (trailing_zeros_nz w n a Hw Ha Hnz) as [Ht (q & Hq & He)].
    split; [exact Ht|]. apply (odd_part_spec _ _ q); [lia | exact He].
Qed.

(* k is the greatest exponent with 2^k | A *)
Lemma trailing_zeros_greatest w n a j : 0 < w -> wf w n a -> uval w a <> 0 ->
  0 <= j -> (uval w a mod 2 ^ j = 0 <-> j <= trailing_zeros w a).
Proof.
  intros Hw Ha Hnz Hj. destruct (trailing_zeros_nz w n a Hw Ha Hnz) as [Ht (q & Hq & He)].
  set (t := trailing_zeros w a) in *. split.
  - intros Hm. destruct (Z_le_gt_dec j t) as [|Hgt]; [assumption|exfalso].
    apply Z.mod_divide in Hm; [|pose proof (pow2_pos j Hj); lia]. destruct Hm as [c Hc].
    assert (Hbit : Z.testbit (uval w a) t = true) by (apply (odd_part_spec _ _ q); [lia | exact He]).
    rewrite Hc, Z.mul_pow2_bits in Hbit by lia. rewrite Z.testbit_neg_r in Hbit by lia. discriminate.
  - intros Hle. rewrite He. replace t with (j + (t - j)) by lia. rewrite pow2_split by lia.
    rewrite <- Z.mul_assoc, Z.mul_comm. apply Z.mod_mul. pose proof (pow2_pos j Hj). lia.
Qed.

(* ---- leading / trailing ones: the same counts on the complement ---- *)

Lemma u_not_eq0 w d : (u_not w d =? 0) = (d =? u_max w).
Proof.
  unfold u_not, u_max. destruct (Z.eqb_spec (B w - 1 - d) 0), (Z.eqb_spec d (B w - 1)); try reflexivity; lia.
Qed.

Lemma leading_ones_rev_not w l : leading_ones_rev w l = leading_zeros_rev w (map (u_not w) l).
Proof.
  induction l as [|d r IH]; cbn [leading_ones_rev leading_zeros_rev map]; [reflexivity|].
  rewrite u_not_eq0, IH. reflexivity.
Qed.

Lemma leading_ones_not w a : leading_ones w a = leading_zeros w (bitnot w a).
Proof.
  unfold leading_ones, leading_zeros, bitnot. rewrite <- map_rev. apply leading_ones_rev_not.
Qed.

Lemma trailing_ones_not w a : trailing_ones w a = trailing_zeros w (bitnot w a).
Proof.
  unfold bitnot. induction a as [|d r IH]; cbn [trailing_ones trailing_zeros map]; [reflexivity|].
  rewrite u_not_eq0, IH. reflexivity.
Qed.

Lemma leading_ones_ok w n a : 0 < w -> wf w n a ->
  leading_ones w a = bits w n - bitlen (Mod w n - 1 - uval w a).
Proof.
  intros Hw Ha. rewrite leading_ones_not, (leading_zeros_ok w n) by (auto; apply bitnot_wf; auto; lia).
  rewrite (bitnot_uval w n) by (auto; lia). reflexivity.
Qed.

Lemma trailing_ones_ok w n a : 0 < w -> wf w n a ->
  let c := Mod w n - 1 - uval w a in
  (c = 0 -> trailing_ones w a = bits w n) /\
  (c <> 0 -> 0 <= trailing_ones w a < bits w n /\
     c mod 2 ^ trailing_ones w a = 0 /\ Z.testbit c (trailing_ones w a) = true).
Proof.
  intros Hw Ha c. subst c. rewrite trailing_ones_not, <- (bitnot_uval w n) by (auto; lia).
  apply (trailing_zeros_ok w n); auto. apply bitnot_wf; auto; lia.
Qed.

(* Proofs/LoopsTieDiv.v — division helpers: src/buint/checked.rs div_rem_digit, src/buint/mod.rs last_digit_index.
   Part of the tie between the loop functions GENERATED from /repo/src/buint/*.rs on every run
   (Generated/Loops.v, by tools/rs2v_loops.py) and the hand-written model: for every digit width, every
   digit count and all well-formed operands, with fuel >= N the generated function neither panics nor
   runs out of fuel and returns exactly what the model function returns. *)
From Bnum Require Import Base Prim.
From Bnum.Model Require Import DigitPrims LoopPrims Digit Core Shift AddSub Mul Bits Imp.
From Bnum.Model Require Div.
From Bnum.Generated Require Import DigitGen Loops.
From Bnum.Proofs Require Import DigitTie ImpLemmas.

(* ================= (f) division helpers ================= *)

Lemma div_rem_wide_ok w lo hi rhs : 0 < w ->
  digit_ok w (fst (div_rem_wide w lo hi rhs)) /\ digit_ok w (snd (div_rem_wide w lo hi rhs)).
Proof.
  intros Hw. unfold div_rem_wide, digit_ok. cbn [fst snd]. pose proof (B_pos w ltac:(lia)).
  split; apply Z.mod_pos_bound; lia.
Qed.

(* no hypothesis on rhs is needed for the equality; the call sites pass a non-zero digit
   (Rust panics on division by zero inside div_rem_wide otherwise) *)
Lemma loops_div_rem_digit w n a rhs : 0 < w -> wf w n a ->
  forall fuel, (n <= fuel)%nat ->
  Loops.div_rem_digit w (Z.of_nat n) fuel a rhs = Done (Div.div_rem_digit w a rhs).
Proof.
  intros Hw [Ha Fa] fuel Hf. unfold Loops.div_rem_digit, Div.div_rem_digit. rewrite Nat2Z.id.
  apply while_count_bind with (n := n) (k := 0%nat)
    (Inv := fun k '(out, rem, i) =>
       i = Z.of_nat (n - k) /\ (k <= n)%nat /\ length out = n /\ digit_ok w rem /\
       Div.div_rem_digit_loop w (rev a) rhs 0 =
       (rev (skipn (n - k) out) ++ fst (Div.div_rem_digit_loop w (skipn k (rev a)) rhs rem),
        snd (Div.div_rem_digit_loop w (skipn k (rev a)) rhs rem))).
  - intros k [[out rem] i] (-> & Hk & Hlen & Hrem & Heq) Hc.
    pos_cond_in Hc. apply Nat.ltb_lt in Hc. split; [lia|].
    rewrite (usub_ok (Z.of_nat (n - k)) 1) by lia. cbn [bind].
    replace (Z.of_nat (n - k) - 1) with (Z.of_nat (n - S k)) by lia.
    rewrite arr_get_nat by lia. cbn [bind].
    rewrite tie_div_rem_wide; try assumption; [|apply Forall_nth_Z; [assumption | lia]].
    rewrite (skipn_nth_cons (rev a) k) in Heq by (rewrite rev_length; lia). cbn [Div.div_rem_digit_loop] in Heq.
    rewrite rev_nth in Heq by lia. rewrite Ha in Heq.
    pose proof (div_rem_wide_ok w (nth (n - S k) a 0) rem rhs Hw) as [_ Hr'].
    destruct (div_rem_wide w (nth (n - S k) a 0) rem rhs) as [q r1]. cbn [fst snd] in Hr' |- *.
    rewrite arr_set_nat by lia. cbn [bind].
    split; [reflexivity|]. split; [lia|]. split; [rewrite list_set_length; exact Hlen|]. split; [exact Hr'|].
    rewrite Heq. rewrite skipn_list_set_same by lia. replace (S (n - S k)) with (n - k)%nat by lia.
    destruct (Div.div_rem_digit_loop w (skipn (S k) (rev a)) rhs r1) as [qs rf].
    cbn [fst snd rev]. rewrite <- app_assoc. reflexivity.
  - intros k [[out rem] i] (-> & Hk & Hlen & Hrem & Heq) Hc.
    pos_cond_in Hc. apply Nat.ltb_ge in Hc. assert (k = n) by lia. subst k.
    rewrite Heq. rewrite (skipn_all2 (rev a)) by (rewrite rev_length; lia). cbn [Div.div_rem_digit_loop fst snd].
    rewrite Nat.sub_diag. cbn [skipn]. rewrite app_nil_r, rev_involutive. reflexivity.
  - split; [f_equal; lia|]. split; [lia|]. split; [apply repeat_length|].
    split; [unfold digit_ok; pose proof (B_pos w ltac:(lia)); lia|].
    rewrite Nat.sub_0_r. rewrite skipn_all2 by (unfold ZERO; rewrite repeat_length; lia).
    cbn [rev app skipn]. destruct (Div.div_rem_digit_loop w (rev a) rhs 0). reflexivity.
  - lia.
Qed.

Lemma loops_last_digit_index w n a : 0 < w -> wf w n a ->
  forall fuel, (n <= fuel)%nat ->
  Loops.last_digit_index w (Z.of_nat n) fuel a = Done (Z.of_nat (Div.last_digit_index a)).
Proof.
  intros Hw [Ha _] fuel Hf. unfold Loops.last_digit_index.
  destruct a as [|d r].
  { cbn [length] in Ha. subst n. destruct fuel; reflexivity. }
  cbn [length] in Ha. cbn [Div.last_digit_index].
  apply while_count_bind with (n := n) (k := 1%nat)
    (Inv := fun k '(index, i) => i = Z.of_nat k /\ (1 <= k <= n)%nat /\ exists ix : nat, index = Z.of_nat ix /\
       Div.last_digit_index_from 1 r 0 = Div.last_digit_index_from k (skipn k (d :: r)) ix).
  - intros k [index i] (-> & Hk & ix & -> & Heq) Hc. cond_true_in Hc.
    split; [exact Hc|]. rewrite arr_get_nat by (cbn [length]; lia). cbn [bind].
    rewrite (skipn_nth_cons (d :: r) k) in Heq by (cbn [length]; lia). cbn [Div.last_digit_index_from] in Heq.
    destruct (nth k (d :: r) 0 =? 0); cbn [negb].
    + split; [lia|]. split; [lia|]. exists ix. split; [reflexivity | exact Heq].
    + split; [lia|]. split; [lia|]. exists k. split; [reflexivity | exact Heq].
  - intros k [index i] (-> & Hk & ix & -> & Heq) Hc. cond_false_in Hc.
    rewrite Heq. rewrite skipn_all2 by (cbn [length]; lia). reflexivity.
  - split; [reflexivity|]. split; [lia|]. exists 0%nat. split; reflexivity.
  - lia.
Qed.

(* ---- both obligations in one statement ---- *)
Theorem loops_Div_match_model w : 0 < w ->
  (forall n a rhs fuel, wf w n a -> (n <= fuel)%nat ->
     Loops.div_rem_digit w (Z.of_nat n) fuel a rhs = Done (Div.div_rem_digit w a rhs)) /\
  (forall n a fuel, wf w n a -> (n <= fuel)%nat ->
     Loops.last_digit_index w (Z.of_nat n) fuel a = Done (Z.of_nat (Div.last_digit_index a))).
Proof.
  intros Hw. split; intros.
  - apply loops_div_rem_digit; assumption.
  - apply loops_last_digit_index; assumption.
Qed.

(* Proofs/GlueTie.v — the "glue" layer GENERATED from /repo/src on every run (Generated/Glue.v, by
   tools/rs2v_glue.py: the one-line projection functions checked_* / wrapping_* / saturating_* / strict_* /
   inherent add sub mul shl shr / max min clamp lt le gt ge / carrying_add borrowing_sub / the non-loop
   overflowing_* forms) equals the hand-written model, function by function, for EVERY digit width w, every
   digit count (the lists are arbitrary: no well-formedness hypothesis is needed anywhere), both build modes
   and all operands.  The statements are fixed here by hand; only Generated/Glue.v changes with the source.
   An edit of the Rust source that changes what a glue function delegates to (checked_sub calling
   overflowing_add, saturating_add clamping to MIN, `lt` returning true for Equal ...) changes the generated
   definition and breaks the obligation of that function; a behaviour-preserving rewrite inside the
   translator's subset still goes through: every proof is `glue_tac` = reflexivity (the generated term is
   convertible with the hand-written one), else unfold both heads, case on every stuck scrutinee
   (outcome / pair / bool / option / comparison), reflexivity.
   Where the model has no function of the same name the right-hand side is the model expression the run
   tables (Run/RunC0x.v) use for that operation: strict_div_euclid = U_div_euclid, lt = cmp_lt (ucmp a b),
   max = cmp_max (ucmp a b) a b, clamp = clamp ucmp, strict_add_signed = option_expect (U_checked_add_signed ..). *)
(* Round 2 (GlueTieC04, C06, C07, C08, C18 and the `round 2` blocks of GlueTieC01, C02, C03, C05; boiler-plate by
   tools/mk_gluetie.py from tools/gluetie_spec.py, statements fixed by committing the files): the other non-loop
   functions - mod.rs, const_trait_fillers.rs, the checked / overflowing functions with nested early returns or
   `let mut`, int/unchecked.rs, the operator trait impls, the num_traits forwarders.  Still no well-formedness hypothesis. *)
From Bnum.Proofs Require Export GlueTieCommon GlueTieC01 GlueTieC02 GlueTieC03 GlueTieC04 GlueTieC05 GlueTieC06 GlueTieC07 GlueTieC08 GlueTieC18.

Theorem glue_matches_model :
  glue_addsub_statement /\ glue_mul_statement /\ glue_div_statement /\ glue_shift_statement.
Proof.
  exact (conj glue_addsub_matches_model (conj glue_mul_matches_model
           (conj glue_div_matches_model glue_shift_matches_model))).
Qed.

(* second round (the non-loop functions of buint/mod.rs, bint/mod.rs, const_trait_fillers.rs, int/unchecked.rs and the
   functions of checked.rs / overflowing.rs with nested early returns or `let mut`): one family statement per property *)
Theorem glue2_matches_model :
  glue_addsub2_statement /\ glue_mul2_statement /\ glue_div2_statement /\ glue_ops_statement /\ glue_rotate_statement /\ glue_bits_statement /\
  glue_sign_statement /\ glue_pow_statement /\ glue_numtraits_statement.
Proof.
  exact (conj glue_addsub2_matches_model (conj glue_mul2_matches_model (conj glue_div2_matches_model (conj glue_ops_matches_model
           (conj glue_rotate_matches_model (conj glue_bits_matches_model (conj glue_sign_matches_model
           (conj glue_pow_matches_model glue_numtraits_matches_model)))))))).
Qed.

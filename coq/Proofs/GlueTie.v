(* Proofs/GlueTie.v — the "glue" layer GENERATED from /repo/src on every run (Generated/Glue.v, by
   tools/rs2v_glue.py: the one-line projection functions checked_* / wrapping_* / saturating_* / strict_* /
   inherent add sub mul shl shr / max min clamp lt le gt ge / carrying_add borrowing_sub / the non-loop
   overflowing_* forms) equals the hand-written model, function by function, for EVERY digit width w, every
   digit count (the lists are arbitrary: no well-formedness hypothesis is needed anywhere), both build modes
   and all operands.  The statements are fixed here by hand; only Generated/Glue.v changes with the source.
   An edit of the Rust source that changes what a glue function delegates to (checked_sub calling
   overflowing_add, saturating_add clamping to MIN, `lt` returning true for Equal ...) changes the generated
   definition and breaks the obligation of that function; a behaviour-preserving rewrite inside the
   translator's subset still goes through: every proof is `glue_tac` = reflexivity (the generated term is
   convertible with the hand-written one), else unfold both heads, case on every stuck scrutinee
   (outcome / pair / bool / option / comparison), reflexivity.
   Where the model has no function of the same name the right-hand side is the model expression the run
   tables (Run/RunC0x.v) use for that operation: strict_div_euclid = U_div_euclid, lt = cmp_lt (ucmp a b),
   max = cmp_max (ucmp a b) a b, clamp = clamp ucmp, strict_add_signed = option_expect (U_checked_add_signed ..). *)
From Bnum Require Import Base Prim.
From Bnum.Model Require Import Digit Core Shift AddSub Mul Div Bits Pow.
From Bnum.Generated Require Import Glue.

Ltac glue_head t := lazymatch t with ?f _ => glue_head f | _ => t end.
(* destruct the innermost stuck scrutinee (a `match` / `if` / `let '(_, _)` on something that is not itself a match) *)
Ltac glue_cases :=
  repeat match goal with
         | |- context [match ?x with _ => _ end] =>
             lazymatch x with
             | context [match _ with _ => _ end] => fail
             | _ => destruct x; cbv beta iota zeta delta [fst snd negb andb orb xorb Bool.eqb]
             end
         end.
Ltac glue_tac :=
  intros;
  first [ reflexivity
        | lazymatch goal with
          | |- ?l = ?r => let hl := glue_head l in let hr := glue_head r in try unfold hl; try unfold hr
          end;
          unfold omap, obind, ocheck, tuple_to_option, option_expect, saturate_up, saturate_down, sat_by_sign,
                 cmp_max, cmp_min, clamp, cmp_lt, cmp_le, cmp_gt, cmp_ge, mask_amount;
          cbv beta iota zeta delta [fst snd negb andb orb xorb Bool.eqb]; glue_cases; reflexivity ].

(* `exp & 1 != 0` (bint saturating_pow) is the model's Z.odd *)
Lemma land1_odd e : negb (Z.land e 1 =? 0) = Z.odd e.
Proof.
  destruct e as [|p|p]; try reflexivity; destruct p as [q|q|]; try reflexivity; destruct q; reflexivity.
Qed.

(* ---------- add / sub / neg / abs families, comparisons, carrying_add / borrowing_sub ---------- *)
Lemma glue_U_checked_add : forall w a b, Glue.U_checked_add w a b = U_checked_add w a b.
Proof. glue_tac. Qed.
Lemma glue_U_checked_add_signed : forall w a b, Glue.U_checked_add_signed w a b = U_checked_add_signed w a b.
Proof. glue_tac. Qed.
Lemma glue_U_checked_sub : forall w a b, Glue.U_checked_sub w a b = U_checked_sub w a b.
Proof. glue_tac. Qed.
Lemma glue_U_checked_neg : forall w a, Glue.U_checked_neg w a = U_checked_neg a.
Proof. glue_tac. Qed.
Lemma glue_U_wrapping_add : forall w a b, Glue.U_wrapping_add w a b = U_wrapping_add w a b.
Proof. glue_tac. Qed.
Lemma glue_U_wrapping_add_signed : forall w a b, Glue.U_wrapping_add_signed w a b = U_wrapping_add_signed w a b.
Proof. glue_tac. Qed.
Lemma glue_U_wrapping_sub : forall w a b, Glue.U_wrapping_sub w a b = U_wrapping_sub w a b.
Proof. glue_tac. Qed.
Lemma glue_U_wrapping_neg : forall w a, Glue.U_wrapping_neg w a = U_wrapping_neg w a.
Proof. glue_tac. Qed.
Lemma glue_U_saturate_up : forall w p, Glue.U_saturate_up w p = saturate_up w p.
Proof. intros w [r f]. reflexivity. Qed.
Lemma glue_U_saturate_down : forall w p, Glue.U_saturate_down w p = saturate_down p.
Proof. intros w [r f]. reflexivity. Qed.
Lemma glue_U_saturating_add : forall w a b, Glue.U_saturating_add w a b = U_saturating_add w a b.
Proof. glue_tac. Qed.
Lemma glue_U_saturating_add_signed : forall w a b, Glue.U_saturating_add_signed w a b = U_saturating_add_signed w a b.
Proof. glue_tac. Qed.
Lemma glue_U_saturating_sub : forall w a b, Glue.U_saturating_sub w a b = U_saturating_sub w a b.
Proof. glue_tac. Qed.
Lemma glue_U_strict_add : forall w a b, Glue.U_strict_add w a b = U_strict_add w a b.
Proof. glue_tac. Qed.
Lemma glue_U_strict_sub : forall w a b, Glue.U_strict_sub w a b = U_strict_sub w a b.
Proof. glue_tac. Qed.
Lemma glue_U_strict_neg : forall w a, Glue.U_strict_neg w a = U_strict_neg a.
Proof. glue_tac. Qed.
Lemma glue_I_strict_add : forall w a b, Glue.I_strict_add w a b = I_strict_add w a b.
Proof. glue_tac. Qed.
Lemma glue_I_strict_sub : forall w a b, Glue.I_strict_sub w a b = I_strict_sub w a b.
Proof. glue_tac. Qed.
Lemma glue_I_strict_neg : forall w a, Glue.I_strict_neg w a = I_strict_neg w a.
Proof. glue_tac. Qed.
Lemma glue_U_strict_add_signed : forall w a b, Glue.U_strict_add_signed w a b = option_expect (U_checked_add_signed w a b).
Proof. glue_tac. Qed.
Lemma glue_I_strict_abs : forall w a, Glue.I_strict_abs w a = I_strict_abs w a.
Proof. glue_tac. Qed.
Lemma glue_I_strict_add_unsigned : forall w a b, Glue.I_strict_add_unsigned w a b = option_expect (I_checked_add_unsigned w a b).
Proof. glue_tac. Qed.
Lemma glue_I_strict_sub_unsigned : forall w a b, Glue.I_strict_sub_unsigned w a b = option_expect (I_checked_sub_unsigned w a b).
Proof. glue_tac. Qed.
Lemma glue_U_add : forall dbg w a b, Glue.U_add dbg w a b = U_add dbg w a b.
Proof. glue_tac. Qed.
Lemma glue_U_sub : forall dbg w a b, Glue.U_sub dbg w a b = U_sub dbg w a b.
Proof. glue_tac. Qed.
Lemma glue_I_add : forall dbg w a b, Glue.I_add dbg w a b = I_add dbg w a b.
Proof. glue_tac. Qed.
Lemma glue_I_sub : forall dbg w a b, Glue.I_sub dbg w a b = I_sub dbg w a b.
Proof. glue_tac. Qed.
Lemma glue_U_max : forall w a b, Glue.U_max w a b = cmp_max (ucmp a b) a b.
Proof. glue_tac. Qed.
Lemma glue_U_min : forall w a b, Glue.U_min w a b = cmp_min (ucmp a b) a b.
Proof. glue_tac. Qed.
Lemma glue_U_clamp : forall w a lo hi, Glue.U_clamp w a lo hi = clamp ucmp a lo hi.
Proof. glue_tac. Qed.
Lemma glue_U_lt : forall w a b, Glue.U_lt w a b = cmp_lt (ucmp a b).
Proof. glue_tac. Qed.
Lemma glue_U_le : forall w a b, Glue.U_le w a b = cmp_le (ucmp a b).
Proof. glue_tac. Qed.
Lemma glue_U_gt : forall w a b, Glue.U_gt w a b = cmp_gt (ucmp a b).
Proof. glue_tac. Qed.
Lemma glue_U_ge : forall w a b, Glue.U_ge w a b = cmp_ge (ucmp a b).
Proof. glue_tac. Qed.
Lemma glue_I_max : forall w a b, Glue.I_max w a b = cmp_max (icmp w a b) a b.
Proof. glue_tac. Qed.
Lemma glue_I_min : forall w a b, Glue.I_min w a b = cmp_min (icmp w a b) a b.
Proof. glue_tac. Qed.
Lemma glue_I_clamp : forall w a lo hi, Glue.I_clamp w a lo hi = clamp (icmp w) a lo hi.
Proof. glue_tac. Qed.
Lemma glue_I_lt : forall w a b, Glue.I_lt w a b = cmp_lt (icmp w a b).
Proof. glue_tac. Qed.
Lemma glue_I_le : forall w a b, Glue.I_le w a b = cmp_le (icmp w a b).
Proof. glue_tac. Qed.
Lemma glue_I_gt : forall w a b, Glue.I_gt w a b = cmp_gt (icmp w a b).
Proof. glue_tac. Qed.
Lemma glue_I_ge : forall w a b, Glue.I_ge w a b = cmp_ge (icmp w a b).
Proof. glue_tac. Qed.
Lemma glue_U_carrying_add : forall w a b c, Glue.U_carrying_add w a b c = U_carrying_add w a b c.
Proof. glue_tac. Qed.
Lemma glue_U_borrowing_sub : forall w a b c, Glue.U_borrowing_sub w a b c = U_borrowing_sub w a b c.
Proof. glue_tac. Qed.
Lemma glue_I_carrying_add : forall w a b c, Glue.I_carrying_add w a b c = I_carrying_add w a b c.
Proof. glue_tac. Qed.
Lemma glue_I_borrowing_sub : forall w a b c, Glue.I_borrowing_sub w a b c = I_borrowing_sub w a b c.
Proof. glue_tac. Qed.
Lemma glue_I_checked_add : forall w a b, Glue.I_checked_add w a b = I_checked_add w a b.
Proof. glue_tac. Qed.
Lemma glue_I_checked_add_unsigned : forall w a b, Glue.I_checked_add_unsigned w a b = I_checked_add_unsigned w a b.
Proof. glue_tac. Qed.
Lemma glue_I_checked_sub : forall w a b, Glue.I_checked_sub w a b = I_checked_sub w a b.
Proof. glue_tac. Qed.
Lemma glue_I_checked_sub_unsigned : forall w a b, Glue.I_checked_sub_unsigned w a b = I_checked_sub_unsigned w a b.
Proof. glue_tac. Qed.
Lemma glue_I_checked_neg : forall w a, Glue.I_checked_neg w a = I_checked_neg w a.
Proof. glue_tac. Qed.
Lemma glue_I_checked_abs : forall w a, Glue.I_checked_abs w a = I_checked_abs w a.
Proof. glue_tac. Qed.
Lemma glue_I_wrapping_add : forall w a b, Glue.I_wrapping_add w a b = I_wrapping_add w a b.
Proof. glue_tac. Qed.
Lemma glue_I_wrapping_add_unsigned : forall w a b, Glue.I_wrapping_add_unsigned w a b = I_wrapping_add_unsigned w a b.
Proof. glue_tac. Qed.
Lemma glue_I_wrapping_sub : forall w a b, Glue.I_wrapping_sub w a b = I_wrapping_sub w a b.
Proof. glue_tac. Qed.
Lemma glue_I_wrapping_sub_unsigned : forall w a b, Glue.I_wrapping_sub_unsigned w a b = I_wrapping_sub_unsigned w a b.
Proof. glue_tac. Qed.
Lemma glue_I_wrapping_neg : forall w a, Glue.I_wrapping_neg w a = I_wrapping_neg w a.
Proof. glue_tac. Qed.
Lemma glue_I_wrapping_abs : forall w a, Glue.I_wrapping_abs w a = I_wrapping_abs w a.
Proof. glue_tac. Qed.
Lemma glue_I_saturating_add : forall w a b, Glue.I_saturating_add w a b = I_saturating_add w a b.
Proof. glue_tac. Qed.
Lemma glue_I_saturating_add_unsigned : forall w a b, Glue.I_saturating_add_unsigned w a b = I_saturating_add_unsigned w a b.
Proof. glue_tac. Qed.
Lemma glue_I_saturating_sub : forall w a b, Glue.I_saturating_sub w a b = I_saturating_sub w a b.
Proof. glue_tac. Qed.
Lemma glue_I_saturating_sub_unsigned : forall w a b, Glue.I_saturating_sub_unsigned w a b = I_saturating_sub_unsigned w a b.
Proof. glue_tac. Qed.
Lemma glue_I_saturating_neg : forall w a, Glue.I_saturating_neg w a = I_saturating_neg w a.
Proof. glue_tac. Qed.
Lemma glue_I_saturating_abs : forall w a, Glue.I_saturating_abs w a = I_saturating_abs w a.
Proof. glue_tac. Qed.
Lemma glue_U_overflowing_add_signed : forall w a b, Glue.U_overflowing_add_signed w a b = U_overflowing_add_signed w a b.
Proof. glue_tac. Qed.
Lemma glue_U_overflowing_neg : forall w a, Glue.U_overflowing_neg w a = U_overflowing_neg w a.
Proof. glue_tac. Qed.
Lemma glue_I_overflowing_add_unsigned : forall w a b, Glue.I_overflowing_add_unsigned w a b = I_overflowing_add_unsigned w a b.
Proof. glue_tac. Qed.
Lemma glue_I_overflowing_sub_unsigned : forall w a b, Glue.I_overflowing_sub_unsigned w a b = I_overflowing_sub_unsigned w a b.
Proof. glue_tac. Qed.
Lemma glue_I_overflowing_abs : forall w a, Glue.I_overflowing_abs w a = I_overflowing_abs w a.
Proof. glue_tac. Qed.

(* ---------- mul and pow projections ---------- *)
Lemma glue_U_checked_mul : forall w a b, Glue.U_checked_mul w a b = U_checked_mul w a b.
Proof. glue_tac. Qed.
Lemma glue_U_wrapping_mul : forall w a b, Glue.U_wrapping_mul w a b = U_wrapping_mul w a b.
Proof. glue_tac. Qed.
Lemma glue_U_saturating_mul : forall w a b, Glue.U_saturating_mul w a b = U_saturating_mul w a b.
Proof. glue_tac. Qed.
Lemma glue_U_saturating_pow : forall w a e, Glue.U_saturating_pow w a e = U_saturating_pow w a e.
Proof. glue_tac. Qed.
Lemma glue_U_strict_mul : forall w a b, Glue.U_strict_mul w a b = U_strict_mul w a b.
Proof. glue_tac. Qed.
Lemma glue_U_strict_pow : forall w a e, Glue.U_strict_pow w a e = U_strict_pow w a e.
Proof. glue_tac. Qed.
Lemma glue_I_strict_mul : forall w a b, Glue.I_strict_mul w a b = I_strict_mul w a b.
Proof. glue_tac. Qed.
Lemma glue_I_strict_pow : forall w a e, Glue.I_strict_pow w a e = I_strict_pow w a e.
Proof. glue_tac. Qed.
Lemma glue_U_mul : forall dbg w a b, Glue.U_mul dbg w a b = U_mul dbg w a b.
Proof. glue_tac. Qed.
Lemma glue_I_mul : forall dbg w a b, Glue.I_mul dbg w a b = I_mul dbg w a b.
Proof. glue_tac. Qed.
Lemma glue_I_checked_mul : forall w a b, Glue.I_checked_mul w a b = I_checked_mul w a b.
Proof. glue_tac. Qed.
Lemma glue_I_wrapping_mul : forall w a b, Glue.I_wrapping_mul w a b = I_wrapping_mul w a b.
Proof. glue_tac. Qed.
Lemma glue_I_wrapping_pow : forall w a e, Glue.I_wrapping_pow w a e = I_wrapping_pow w a e.
Proof. glue_tac. Qed.
Lemma glue_I_saturating_mul : forall w a b, Glue.I_saturating_mul w a b = I_saturating_mul w a b.
Proof. glue_tac. Qed.
Lemma glue_I_saturating_pow : forall w a e, Glue.I_saturating_pow w a e = I_saturating_pow w a e.
Proof. intros. unfold Glue.I_saturating_pow, I_saturating_pow. rewrite land1_odd. reflexivity. Qed.
Lemma glue_U_overflowing_mul : forall w a b, Glue.U_overflowing_mul w a b = U_overflowing_mul w a b.
Proof. glue_tac. Qed.
Lemma glue_I_overflowing_mul : forall w a b, Glue.I_overflowing_mul w a b = I_overflowing_mul w a b.
Proof. glue_tac. Qed.

(* ---------- div / rem families ---------- *)
Lemma glue_U_div_rem : forall w a b, Glue.U_div_rem w a b = U_div_rem w a b.
Proof. glue_tac. Qed.
Lemma glue_U_checked_div : forall w a b, Glue.U_checked_div w a b = U_checked_div w a b.
Proof. glue_tac. Qed.
Lemma glue_U_checked_div_euclid : forall w a b, Glue.U_checked_div_euclid w a b = U_checked_div_euclid w a b.
Proof. glue_tac. Qed.
Lemma glue_U_checked_rem : forall w a b, Glue.U_checked_rem w a b = U_checked_rem w a b.
Proof. glue_tac. Qed.
Lemma glue_U_checked_rem_euclid : forall w a b, Glue.U_checked_rem_euclid w a b = U_checked_rem_euclid w a b.
Proof. glue_tac. Qed.
Lemma glue_U_wrapping_div : forall w a b, Glue.U_wrapping_div w a b = U_wrapping_div w a b.
Proof. glue_tac. Qed.
Lemma glue_U_wrapping_div_euclid : forall w a b, Glue.U_wrapping_div_euclid w a b = U_wrapping_div_euclid w a b.
Proof. glue_tac. Qed.
Lemma glue_U_wrapping_rem : forall w a b, Glue.U_wrapping_rem w a b = U_wrapping_rem w a b.
Proof. glue_tac. Qed.
Lemma glue_U_wrapping_rem_euclid : forall w a b, Glue.U_wrapping_rem_euclid w a b = U_wrapping_rem_euclid w a b.
Proof. glue_tac. Qed.
Lemma glue_U_saturating_div : forall w a b, Glue.U_saturating_div w a b = U_saturating_div w a b.
Proof. glue_tac. Qed.
Lemma glue_U_strict_div : forall w a b, Glue.U_strict_div w a b = U_strict_div w a b.
Proof. glue_tac. Qed.
Lemma glue_U_strict_div_euclid : forall w a b, Glue.U_strict_div_euclid w a b = U_div_euclid w a b.
Proof. glue_tac. Qed.
Lemma glue_U_strict_rem : forall w a b, Glue.U_strict_rem w a b = U_strict_rem w a b.
Proof. glue_tac. Qed.
Lemma glue_U_strict_rem_euclid : forall w a b, Glue.U_strict_rem_euclid w a b = U_rem_euclid w a b.
Proof. glue_tac. Qed.
Lemma glue_I_strict_div : forall dbg w a b, Glue.I_strict_div dbg w a b = I_strict_div dbg w a b.
Proof. glue_tac. Qed.
Lemma glue_I_strict_div_euclid : forall dbg w a b, Glue.I_strict_div_euclid dbg w a b = I_div_euclid dbg w a b.
Proof. glue_tac. Qed.
Lemma glue_I_strict_rem : forall dbg w a b, Glue.I_strict_rem dbg w a b = I_strict_rem dbg w a b.
Proof. glue_tac. Qed.
Lemma glue_I_strict_rem_euclid : forall dbg w a b, Glue.I_strict_rem_euclid dbg w a b = I_rem_euclid dbg w a b.
Proof. glue_tac. Qed.
Lemma glue_I_checked_div : forall dbg w a b, Glue.I_checked_div dbg w a b = I_checked_div dbg w a b.
Proof. glue_tac. Qed.
Lemma glue_I_checked_div_euclid : forall dbg w a b, Glue.I_checked_div_euclid dbg w a b = I_checked_div_euclid dbg w a b.
Proof. glue_tac. Qed.
Lemma glue_I_checked_rem : forall dbg w a b, Glue.I_checked_rem dbg w a b = I_checked_rem dbg w a b.
Proof. glue_tac. Qed.
Lemma glue_I_checked_rem_euclid : forall dbg w a b, Glue.I_checked_rem_euclid dbg w a b = I_checked_rem_euclid dbg w a b.
Proof. glue_tac. Qed.
Lemma glue_I_wrapping_div : forall dbg w a b, Glue.I_wrapping_div dbg w a b = I_wrapping_div dbg w a b.
Proof. glue_tac. Qed.
Lemma glue_I_wrapping_div_euclid : forall dbg w a b, Glue.I_wrapping_div_euclid dbg w a b = I_wrapping_div_euclid dbg w a b.
Proof. glue_tac. Qed.
Lemma glue_I_wrapping_rem : forall dbg w a b, Glue.I_wrapping_rem dbg w a b = I_wrapping_rem dbg w a b.
Proof. glue_tac. Qed.
Lemma glue_I_wrapping_rem_euclid : forall dbg w a b, Glue.I_wrapping_rem_euclid dbg w a b = I_wrapping_rem_euclid dbg w a b.
Proof. glue_tac. Qed.
Lemma glue_I_saturating_div : forall dbg w a b, Glue.I_saturating_div dbg w a b = I_saturating_div dbg w a b.
Proof. glue_tac. Qed.
Lemma glue_U_overflowing_div : forall w a b, Glue.U_overflowing_div w a b = U_overflowing_div w a b.
Proof. glue_tac. Qed.
Lemma glue_U_overflowing_div_euclid : forall w a b, Glue.U_overflowing_div_euclid w a b = U_overflowing_div_euclid w a b.
Proof. glue_tac. Qed.
Lemma glue_U_overflowing_rem : forall w a b, Glue.U_overflowing_rem w a b = U_overflowing_rem w a b.
Proof. glue_tac. Qed.
Lemma glue_U_overflowing_rem_euclid : forall w a b, Glue.U_overflowing_rem_euclid w a b = U_overflowing_rem_euclid w a b.
Proof. glue_tac. Qed.
Lemma glue_I_overflowing_rem : forall dbg w a b, Glue.I_overflowing_rem dbg w a b = I_overflowing_rem dbg w a b.
Proof. glue_tac. Qed.

(* ---------- shifts (and wrapping_next_power_of_two) ---------- *)
Lemma glue_U_checked_shl : forall w a r, Glue.U_checked_shl w a r = U_checked_shl w a r.
Proof. glue_tac. Qed.
Lemma glue_U_checked_shr : forall w a r, Glue.U_checked_shr w a r = U_checked_shr w a r.
Proof. glue_tac. Qed.
Lemma glue_U_wrapping_shl : forall w a r, Glue.U_wrapping_shl w a r = U_wrapping_shl w a r.
Proof. glue_tac. Qed.
Lemma glue_U_wrapping_shr : forall w a r, Glue.U_wrapping_shr w a r = U_wrapping_shr w a r.
Proof. glue_tac. Qed.
Lemma glue_U_wrapping_next_power_of_two : forall w a, Glue.U_wrapping_next_power_of_two w a = U_wrapping_next_power_of_two w a.
Proof. glue_tac. Qed.
Lemma glue_U_strict_shl : forall w a r, Glue.U_strict_shl w a r = U_strict_shl w a r.
Proof. glue_tac. Qed.
Lemma glue_U_strict_shr : forall w a r, Glue.U_strict_shr w a r = U_strict_shr w a r.
Proof. glue_tac. Qed.
Lemma glue_I_strict_shl : forall w a r, Glue.I_strict_shl w a r = I_strict_shl w a r.
Proof. glue_tac. Qed.
Lemma glue_I_strict_shr : forall w a r, Glue.I_strict_shr w a r = I_strict_shr w a r.
Proof. glue_tac. Qed.
Lemma glue_U_shl : forall dbg w a r, Glue.U_shl dbg w a r = U_shl dbg w a r.
Proof. glue_tac. Qed.
Lemma glue_U_shr : forall dbg w a r, Glue.U_shr dbg w a r = U_shr dbg w a r.
Proof. glue_tac. Qed.
Lemma glue_I_shl : forall dbg w a r, Glue.I_shl dbg w a r = I_shl dbg w a r.
Proof. glue_tac. Qed.
Lemma glue_I_shr : forall dbg w a r, Glue.I_shr dbg w a r = I_shr dbg w a r.
Proof. glue_tac. Qed.
Lemma glue_I_checked_shl : forall w a r, Glue.I_checked_shl w a r = I_checked_shl w a r.
Proof. glue_tac. Qed.
Lemma glue_I_checked_shr : forall w a r, Glue.I_checked_shr w a r = I_checked_shr w a r.
Proof. glue_tac. Qed.
Lemma glue_I_wrapping_shl : forall w a r, Glue.I_wrapping_shl w a r = I_wrapping_shl w a r.
Proof. glue_tac. Qed.
Lemma glue_I_wrapping_shr : forall w a r, Glue.I_wrapping_shr w a r = I_wrapping_shr w a r.
Proof. glue_tac. Qed.
Lemma glue_U_overflowing_shl : forall w a r, Glue.U_overflowing_shl w a r = U_overflowing_shl w a r.
Proof. glue_tac. Qed.
Lemma glue_U_overflowing_shr : forall w a r, Glue.U_overflowing_shr w a r = U_overflowing_shr w a r.
Proof. glue_tac. Qed.
Lemma glue_I_overflowing_shl : forall w a r, Glue.I_overflowing_shl w a r = I_overflowing_shl w a r.
Proof. glue_tac. Qed.
Lemma glue_I_overflowing_shr : forall w a r, Glue.I_overflowing_shr w a r = I_overflowing_shr w a r.
Proof. glue_tac. Qed.
Lemma glue_U_unchecked_shr_internal : forall w a r, Glue.U_unchecked_shr_internal w a r = shr_pad_internal w false a r.
Proof. glue_tac. Qed.

(* ---------- summaries ---------- *)
Definition glue_addsub_statement : Prop :=
  (forall w a b, Glue.U_checked_add w a b = U_checked_add w a b) /\
  (forall w a b, Glue.U_checked_add_signed w a b = U_checked_add_signed w a b) /\
  (forall w a b, Glue.U_checked_sub w a b = U_checked_sub w a b) /\
  (forall w a, Glue.U_checked_neg w a = U_checked_neg a) /\
  (forall w a b, Glue.U_wrapping_add w a b = U_wrapping_add w a b) /\
  (forall w a b, Glue.U_wrapping_add_signed w a b = U_wrapping_add_signed w a b) /\
  (forall w a b, Glue.U_wrapping_sub w a b = U_wrapping_sub w a b) /\
  (forall w a, Glue.U_wrapping_neg w a = U_wrapping_neg w a) /\
  (forall w p, Glue.U_saturate_up w p = saturate_up w p) /\
  (forall w p, Glue.U_saturate_down w p = saturate_down p) /\
  (forall w a b, Glue.U_saturating_add w a b = U_saturating_add w a b) /\
  (forall w a b, Glue.U_saturating_add_signed w a b = U_saturating_add_signed w a b) /\
  (forall w a b, Glue.U_saturating_sub w a b = U_saturating_sub w a b) /\
  (forall w a b, Glue.U_strict_add w a b = U_strict_add w a b) /\
  (forall w a b, Glue.U_strict_sub w a b = U_strict_sub w a b) /\
  (forall w a, Glue.U_strict_neg w a = U_strict_neg a) /\
  (forall w a b, Glue.I_strict_add w a b = I_strict_add w a b) /\
  (forall w a b, Glue.I_strict_sub w a b = I_strict_sub w a b) /\
  (forall w a, Glue.I_strict_neg w a = I_strict_neg w a) /\
  (forall w a b, Glue.U_strict_add_signed w a b = option_expect (U_checked_add_signed w a b)) /\
  (forall w a, Glue.I_strict_abs w a = I_strict_abs w a) /\
  (forall w a b, Glue.I_strict_add_unsigned w a b = option_expect (I_checked_add_unsigned w a b)) /\
  (forall w a b, Glue.I_strict_sub_unsigned w a b = option_expect (I_checked_sub_unsigned w a b)) /\
  (forall dbg w a b, Glue.U_add dbg w a b = U_add dbg w a b) /\
  (forall dbg w a b, Glue.U_sub dbg w a b = U_sub dbg w a b) /\
  (forall dbg w a b, Glue.I_add dbg w a b = I_add dbg w a b) /\
  (forall dbg w a b, Glue.I_sub dbg w a b = I_sub dbg w a b) /\
  (forall w a b, Glue.U_max w a b = cmp_max (ucmp a b) a b) /\
  (forall w a b, Glue.U_min w a b = cmp_min (ucmp a b) a b) /\
  (forall w a lo hi, Glue.U_clamp w a lo hi = clamp ucmp a lo hi) /\
  (forall w a b, Glue.U_lt w a b = cmp_lt (ucmp a b)) /\
  (forall w a b, Glue.U_le w a b = cmp_le (ucmp a b)) /\
  (forall w a b, Glue.U_gt w a b = cmp_gt (ucmp a b)) /\
  (forall w a b, Glue.U_ge w a b = cmp_ge (ucmp a b)) /\
  (forall w a b, Glue.I_max w a b = cmp_max (icmp w a b) a b) /\
  (forall w a b, Glue.I_min w a b = cmp_min (icmp w a b) a b) /\
  (forall w a lo hi, Glue.I_clamp w a lo hi = clamp (icmp w) a lo hi) /\
  (forall w a b, Glue.I_lt w a b = cmp_lt (icmp w a b)) /\
  (forall w a b, Glue.I_le w a b = cmp_le (icmp w a b)) /\
  (forall w a b, Glue.I_gt w a b = cmp_gt (icmp w a b)) /\
  (forall w a b, Glue.I_ge w a b = cmp_ge (icmp w a b)) /\
  (forall w a b c, Glue.U_carrying_add w a b c = U_carrying_add w a b c) /\
  (forall w a b c, Glue.U_borrowing_sub w a b c = U_borrowing_sub w a b c) /\
  (forall w a b c, Glue.I_carrying_add w a b c = I_carrying_add w a b c) /\
  (forall w a b c, Glue.I_borrowing_sub w a b c = I_borrowing_sub w a b c) /\
  (forall w a b, Glue.I_checked_add w a b = I_checked_add w a b) /\
  (forall w a b, Glue.I_checked_add_unsigned w a b = I_checked_add_unsigned w a b) /\
  (forall w a b, Glue.I_checked_sub w a b = I_checked_sub w a b) /\
  (forall w a b, Glue.I_checked_sub_unsigned w a b = I_checked_sub_unsigned w a b) /\
  (forall w a, Glue.I_checked_neg w a = I_checked_neg w a) /\
  (forall w a, Glue.I_checked_abs w a = I_checked_abs w a) /\
  (forall w a b, Glue.I_wrapping_add w a b = I_wrapping_add w a b) /\
  (forall w a b, Glue.I_wrapping_add_unsigned w a b = I_wrapping_add_unsigned w a b) /\
  (forall w a b, Glue.I_wrapping_sub w a b = I_wrapping_sub w a b) /\
  (forall w a b, Glue.I_wrapping_sub_unsigned w a b = I_wrapping_sub_unsigned w a b) /\
  (forall w a, Glue.I_wrapping_neg w a = I_wrapping_neg w a) /\
  (forall w a, Glue.I_wrapping_abs w a = I_wrapping_abs w a) /\
  (forall w a b, Glue.I_saturating_add w a b = I_saturating_add w a b) /\
  (forall w a b, Glue.I_saturating_add_unsigned w a b = I_saturating_add_unsigned w a b) /\
  (forall w a b, Glue.I_saturating_sub w a b = I_saturating_sub w a b) /\
  (forall w a b, Glue.I_saturating_sub_unsigned w a b = I_saturating_sub_unsigned w a b) /\
  (forall w a, Glue.I_saturating_neg w a = I_saturating_neg w a) /\
  (forall w a, Glue.I_saturating_abs w a = I_saturating_abs w a) /\
  (forall w a b, Glue.U_overflowing_add_signed w a b = U_overflowing_add_signed w a b) /\
  (forall w a, Glue.U_overflowing_neg w a = U_overflowing_neg w a) /\
  (forall w a b, Glue.I_overflowing_add_unsigned w a b = I_overflowing_add_unsigned w a b) /\
  (forall w a b, Glue.I_overflowing_sub_unsigned w a b = I_overflowing_sub_unsigned w a b) /\
  (forall w a, Glue.I_overflowing_abs w a = I_overflowing_abs w a).
Theorem glue_addsub_matches_model : glue_addsub_statement.
Proof.
  unfold glue_addsub_statement. repeat apply conj.
  - exact glue_U_checked_add.
  - exact glue_U_checked_add_signed.
  - exact glue_U_checked_sub.
  - exact glue_U_checked_neg.
  - exact glue_U_wrapping_add.
  - exact glue_U_wrapping_add_signed.
  - exact glue_U_wrapping_sub.
  - exact glue_U_wrapping_neg.
  - exact glue_U_saturate_up.
  - exact glue_U_saturate_down.
  - exact glue_U_saturating_add.
  - exact glue_U_saturating_add_signed.
  - exact glue_U_saturating_sub.
  - exact glue_U_strict_add.
  - exact glue_U_strict_sub.
  - exact glue_U_strict_neg.
  - exact glue_I_strict_add.
  - exact glue_I_strict_sub.
  - exact glue_I_strict_neg.
  - exact glue_U_strict_add_signed.
  - exact glue_I_strict_abs.
  - exact glue_I_strict_add_unsigned.
  - exact glue_I_strict_sub_unsigned.
  - exact glue_U_add.
  - exact glue_U_sub.
  - exact glue_I_add.
  - exact glue_I_sub.
  - exact glue_U_max.
  - exact glue_U_min.
  - exact glue_U_clamp.
  - exact glue_U_lt.
  - exact glue_U_le.
  - exact glue_U_gt.
  - exact glue_U_ge.
  - exact glue_I_max.
  - exact glue_I_min.
  - exact glue_I_clamp.
  - exact glue_I_lt.
  - exact glue_I_le.
  - exact glue_I_gt.
  - exact glue_I_ge.
  - exact glue_U_carrying_add.
  - exact glue_U_borrowing_sub.
  - exact glue_I_carrying_add.
  - exact glue_I_borrowing_sub.
  - exact glue_I_checked_add.
  - exact glue_I_checked_add_unsigned.
  - exact glue_I_checked_sub.
  - exact glue_I_checked_sub_unsigned.
  - exact glue_I_checked_neg.
  - exact glue_I_checked_abs.
  - exact glue_I_wrapping_add.
  - exact glue_I_wrapping_add_unsigned.
  - exact glue_I_wrapping_sub.
  - exact glue_I_wrapping_sub_unsigned.
  - exact glue_I_wrapping_neg.
  - exact glue_I_wrapping_abs.
  - exact glue_I_saturating_add.
  - exact glue_I_saturating_add_unsigned.
  - exact glue_I_saturating_sub.
  - exact glue_I_saturating_sub_unsigned.
  - exact glue_I_saturating_neg.
  - exact glue_I_saturating_abs.
  - exact glue_U_overflowing_add_signed.
  - exact glue_U_overflowing_neg.
  - exact glue_I_overflowing_add_unsigned.
  - exact glue_I_overflowing_sub_unsigned.
  - exact glue_I_overflowing_abs.
Qed.

Definition glue_mul_statement : Prop :=
  (forall w a b, Glue.U_checked_mul w a b = U_checked_mul w a b) /\
  (forall w a b, Glue.U_wrapping_mul w a b = U_wrapping_mul w a b) /\
  (forall w a b, Glue.U_saturating_mul w a b = U_saturating_mul w a b) /\
  (forall w a e, Glue.U_saturating_pow w a e = U_saturating_pow w a e) /\
  (forall w a b, Glue.U_strict_mul w a b = U_strict_mul w a b) /\
  (forall w a e, Glue.U_strict_pow w a e = U_strict_pow w a e) /\
  (forall w a b, Glue.I_strict_mul w a b = I_strict_mul w a b) /\
  (forall w a e, Glue.I_strict_pow w a e = I_strict_pow w a e) /\
  (forall dbg w a b, Glue.U_mul dbg w a b = U_mul dbg w a b) /\
  (forall dbg w a b, Glue.I_mul dbg w a b = I_mul dbg w a b) /\
  (forall w a b, Glue.I_checked_mul w a b = I_checked_mul w a b) /\
  (forall w a b, Glue.I_wrapping_mul w a b = I_wrapping_mul w a b) /\
  (forall w a e, Glue.I_wrapping_pow w a e = I_wrapping_pow w a e) /\
  (forall w a b, Glue.I_saturating_mul w a b = I_saturating_mul w a b) /\
  (forall w a e, Glue.I_saturating_pow w a e = I_saturating_pow w a e) /\
  (forall w a b, Glue.U_overflowing_mul w a b = U_overflowing_mul w a b) /\
  (forall w a b, Glue.I_overflowing_mul w a b = I_overflowing_mul w a b).
Theorem glue_mul_matches_model : glue_mul_statement.
Proof.
  unfold glue_mul_statement. repeat apply conj.
  - exact glue_U_checked_mul.
  - exact glue_U_wrapping_mul.
  - exact glue_U_saturating_mul.
  - exact glue_U_saturating_pow.
  - exact glue_U_strict_mul.
  - exact glue_U_strict_pow.
  - exact glue_I_strict_mul.
  - exact glue_I_strict_pow.
  - exact glue_U_mul.
  - exact glue_I_mul.
  - exact glue_I_checked_mul.
  - exact glue_I_wrapping_mul.
  - exact glue_I_wrapping_pow.
  - exact glue_I_saturating_mul.
  - exact glue_I_saturating_pow.
  - exact glue_U_overflowing_mul.
  - exact glue_I_overflowing_mul.
Qed.

Definition glue_div_statement : Prop :=
  (forall w a b, Glue.U_div_rem w a b = U_div_rem w a b) /\
  (forall w a b, Glue.U_checked_div w a b = U_checked_div w a b) /\
  (forall w a b, Glue.U_checked_div_euclid w a b = U_checked_div_euclid w a b) /\
  (forall w a b, Glue.U_checked_rem w a b = U_checked_rem w a b) /\
  (forall w a b, Glue.U_checked_rem_euclid w a b = U_checked_rem_euclid w a b) /\
  (forall w a b, Glue.U_wrapping_div w a b = U_wrapping_div w a b) /\
  (forall w a b, Glue.U_wrapping_div_euclid w a b = U_wrapping_div_euclid w a b) /\
  (forall w a b, Glue.U_wrapping_rem w a b = U_wrapping_rem w a b) /\
  (forall w a b, Glue.U_wrapping_rem_euclid w a b = U_wrapping_rem_euclid w a b) /\
  (forall w a b, Glue.U_saturating_div w a b = U_saturating_div w a b) /\
  (forall w a b, Glue.U_strict_div w a b = U_strict_div w a b) /\
  (forall w a b, Glue.U_strict_div_euclid w a b = U_div_euclid w a b) /\
  (forall w a b, Glue.U_strict_rem w a b = U_strict_rem w a b) /\
  (forall w a b, Glue.U_strict_rem_euclid w a b = U_rem_euclid w a b) /\
  (forall dbg w a b, Glue.I_strict_div dbg w a b = I_strict_div dbg w a b) /\
  (forall dbg w a b, Glue.I_strict_div_euclid dbg w a b = I_div_euclid dbg w a b) /\
  (forall dbg w a b, Glue.I_strict_rem dbg w a b = I_strict_rem dbg w a b) /\
  (forall dbg w a b, Glue.I_strict_rem_euclid dbg w a b = I_rem_euclid dbg w a b) /\
  (forall dbg w a b, Glue.I_checked_div dbg w a b = I_checked_div dbg w a b) /\
  (forall dbg w a b, Glue.I_checked_div_euclid dbg w a b = I_checked_div_euclid dbg w a b) /\
  (forall dbg w a b, Glue.I_checked_rem dbg w a b = I_checked_rem dbg w a b) /\
  (forall dbg w a b, Glue.I_checked_rem_euclid dbg w a b = I_checked_rem_euclid dbg w a b) /\
  (forall dbg w a b, Glue.I_wrapping_div dbg w a b = I_wrapping_div dbg w a b) /\
  (forall dbg w a b, Glue.I_wrapping_div_euclid dbg w a b = I_wrapping_div_euclid dbg w a b) /\
  (forall dbg w a b, Glue.I_wrapping_rem dbg w a b = I_wrapping_rem dbg w a b) /\
  (forall dbg w a b, Glue.I_wrapping_rem_euclid dbg w a b = I_wrapping_rem_euclid dbg w a b) /\
  (forall dbg w a b, Glue.I_saturating_div dbg w a b = I_saturating_div dbg w a b) /\
  (forall w a b, Glue.U_overflowing_div w a b = U_overflowing_div w a b) /\
  (forall w a b, Glue.U_overflowing_div_euclid w a b = U_overflowing_div_euclid w a b) /\
  (forall w a b, Glue.U_overflowing_rem w a b = U_overflowing_rem w a b) /\
  (forall w a b, Glue.U_overflowing_rem_euclid w a b = U_overflowing_rem_euclid w a b) /\
  (forall dbg w a b, Glue.I_overflowing_rem dbg w a b = I_overflowing_rem dbg w a b).
Theorem glue_div_matches_model : glue_div_statement.
Proof.
  unfold glue_div_statement. repeat apply conj.
  - exact glue_U_div_rem.
  - exact glue_U_checked_div.
  - exact glue_U_checked_div_euclid.
  - exact glue_U_checked_rem.
  - exact glue_U_checked_rem_euclid.
  - exact glue_U_wrapping_div.
  - exact glue_U_wrapping_div_euclid.
  - exact glue_U_wrapping_rem.
  - exact glue_U_wrapping_rem_euclid.
  - exact glue_U_saturating_div.
  - exact glue_U_strict_div.
  - exact glue_U_strict_div_euclid.
  - exact glue_U_strict_rem.
  - exact glue_U_strict_rem_euclid.
  - exact glue_I_strict_div.
  - exact glue_I_strict_div_euclid.
  - exact glue_I_strict_rem.
  - exact glue_I_strict_rem_euclid.
  - exact glue_I_checked_div.
  - exact glue_I_checked_div_euclid.
  - exact glue_I_checked_rem.
  - exact glue_I_checked_rem_euclid.
  - exact glue_I_wrapping_div.
  - exact glue_I_wrapping_div_euclid.
  - exact glue_I_wrapping_rem.
  - exact glue_I_wrapping_rem_euclid.
  - exact glue_I_saturating_div.
  - exact glue_U_overflowing_div.
  - exact glue_U_overflowing_div_euclid.
  - exact glue_U_overflowing_rem.
  - exact glue_U_overflowing_rem_euclid.
  - exact glue_I_overflowing_rem.
Qed.

Definition glue_shift_statement : Prop :=
  (forall w a r, Glue.U_checked_shl w a r = U_checked_shl w a r) /\
  (forall w a r, Glue.U_checked_shr w a r = U_checked_shr w a r) /\
  (forall w a r, Glue.U_wrapping_shl w a r = U_wrapping_shl w a r) /\
  (forall w a r, Glue.U_wrapping_shr w a r = U_wrapping_shr w a r) /\
  (forall w a, Glue.U_wrapping_next_power_of_two w a = U_wrapping_next_power_of_two w a) /\
  (forall w a r, Glue.U_strict_shl w a r = U_strict_shl w a r) /\
  (forall w a r, Glue.U_strict_shr w a r = U_strict_shr w a r) /\
  (forall w a r, Glue.I_strict_shl w a r = I_strict_shl w a r) /\
  (forall w a r, Glue.I_strict_shr w a r = I_strict_shr w a r) /\
  (forall dbg w a r, Glue.U_shl dbg w a r = U_shl dbg w a r) /\
  (forall dbg w a r, Glue.U_shr dbg w a r = U_shr dbg w a r) /\
  (forall dbg w a r, Glue.I_shl dbg w a r = I_shl dbg w a r) /\
  (forall dbg w a r, Glue.I_shr dbg w a r = I_shr dbg w a r) /\
  (forall w a r, Glue.I_checked_shl w a r = I_checked_shl w a r) /\
  (forall w a r, Glue.I_checked_shr w a r = I_checked_shr w a r) /\
  (forall w a r, Glue.I_wrapping_shl w a r = I_wrapping_shl w a r) /\
  (forall w a r, Glue.I_wrapping_shr w a r = I_wrapping_shr w a r) /\
  (forall w a r, Glue.U_overflowing_shl w a r = U_overflowing_shl w a r) /\
  (forall w a r, Glue.U_overflowing_shr w a r = U_overflowing_shr w a r) /\
  (forall w a r, Glue.I_overflowing_shl w a r = I_overflowing_shl w a r) /\
  (forall w a r, Glue.I_overflowing_shr w a r = I_overflowing_shr w a r) /\
  (forall w a r, Glue.U_unchecked_shr_internal w a r = shr_pad_internal w false a r).
Theorem glue_shift_matches_model : glue_shift_statement.
Proof.
  unfold glue_shift_statement. repeat apply conj.
  - exact glue_U_checked_shl.
  - exact glue_U_checked_shr.
  - exact glue_U_wrapping_shl.
  - exact glue_U_wrapping_shr.
  - exact glue_U_wrapping_next_power_of_two.
  - exact glue_U_strict_shl.
  - exact glue_U_strict_shr.
  - exact glue_I_strict_shl.
  - exact glue_I_strict_shr.
  - exact glue_U_shl.
  - exact glue_U_shr.
  - exact glue_I_shl.
  - exact glue_I_shr.
  - exact glue_I_checked_shl.
  - exact glue_I_checked_shr.
  - exact glue_I_wrapping_shl.
  - exact glue_I_wrapping_shr.
  - exact glue_U_overflowing_shl.
  - exact glue_U_overflowing_shr.
  - exact glue_I_overflowing_shl.
  - exact glue_I_overflowing_shr.
  - exact glue_U_unchecked_shr_internal.
Qed.

Theorem glue_matches_model :
  glue_addsub_statement /\ glue_mul_statement /\ glue_div_statement /\ glue_shift_statement.
Proof.
  exact (conj glue_addsub_matches_model (conj glue_mul_matches_model
           (conj glue_div_matches_model glue_shift_matches_model))).
Qed.

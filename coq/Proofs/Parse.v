(* Proofs/Parse.v — C10: the parsing entry points of Model/Parse.v against the reference
   grammar and Horner value of Proofs/ParseSpec.v. *)
From Bnum Require Import Base Prim.
From Bnum.Model Require Import Digit Core Shift AddSub Bits Parse.
From Bnum.Proofs Require Import ParseSpec ParseLoops ParseArith ParsePow2 ParseGen ParseDeps ParseSlice.

(* ---------- from_buf_radix_internal, both branches ---------- *)
Lemma mod8_mod w lg : w mod 8 = 0 -> (lg = 1 \/ lg = 2 \/ lg = 4) -> w mod lg = 0.
Proof.
  intros H8 Hlg. assert (E : w = 8 * (w / 8)) by (apply Z_div_exact_full_2; lia).
  destruct Hlg as [-> | [-> | ->]].
  - apply Z.mod_1_r.
  - replace w with (4 * (w / 8) * 2) by lia. apply Z_mod_mult.
  - replace w with (2 * (w / 8) * 4) by lia. apply Z_mod_mult.
Qed.

Lemma w8_B w : 0 < w -> w mod 8 = 0 -> 256 <= B w.
Proof.
  intros Hw H8. assert (E : w = 8 * (w / 8)) by (apply Z_div_exact_full_2; lia).
  unfold B. change 256 with (2 ^ 8). apply Z.pow_le_mono_r; lia.
Qed.

Definition parse_value (w : Z) (n : nat) (v : Z) : pout (list Z) :=
  if v <? Mod w n then POk (digits_of w n v) else PErr PosOverflow.

Theorem from_buf_spec (Hadd : U_overflowing_add_spec) fs be dbg w n buf radix (sign : bool) :
  (be = true \/ sign = false) -> 0 < w -> w mod 8 = 0 -> (0 < n)%nat -> 2 <= radix < 256 ->
  let s := if sign then 1%nat else 0%nat in
  (s < length buf)%nat ->
  let D := skipn s (Lm be buf) in
  Forall (fun b => 0 <= dig fs b) D ->
  if forallb (okd fs radix) D then
    from_buf_radix_internal fs be dbg w n buf radix sign = parse_value w n (horner radix (map (dig fs) D))
  else
    exists k, from_buf_radix_internal fs be dbg w n buf radix sign = PErr k /\
              (k = InvalidDigit \/ k = PosOverflow) /\
              (radix ^ Z.of_nat (length D) <= Mod w n -> k = InvalidDigit).
Proof.
  intros Hc Hw H8 Hn Hr s Hs D HD.
  pose proof (w8_B w Hw H8) as HB.
  destruct (is_pow2_radix radix) eqn:Ep.
  - (* radix 2, 4, 16 *)
    assert (Hlg : exists lg, (lg = 1 \/ lg = 2 \/ lg = 4) /\ radix = 2 ^ lg).
    { unfold is_pow2_radix in Ep. apply orb_true_iff in Ep. destruct Ep as [Ep|Ep].
      - apply orb_true_iff in Ep. destruct Ep as [Ep|Ep].
        + apply orb_true_iff in Ep. destruct Ep as [Ep|Ep]; apply Z.eqb_eq in Ep.
          * exists 1. split; [tauto | subst; reflexivity].
          * exists 2. split; [tauto | subst; reflexivity].
        + apply Z.eqb_eq in Ep. exists 4. split; [tauto | subst; reflexivity].
      - apply Z.eqb_eq in Ep. lia. }
    destruct Hlg as (lg & Hlg & Hrl).
    assert (Hlg0 : 0 < lg) by lia.
    pose proof (mod8_mod w lg H8 Hlg) as Hdiv.
    destruct (pow2_setting w lg radix Hlg0 Hrl Hw Hdiv) as (Hlog & Hbd & _ & _).
    rewrite (from_buf_pow2_view fs be dbg w n buf radix sign Hc Ep ltac:(rewrite Hlog; exact Hbd) Hs).
    fold s D.
    destruct (forallb (okd fs radix) D) eqn:Eok.
    + apply (pow2_list_valid fs be w n radix lg D Hlg0 Hrl ltac:(lia) Hw Hdiv HD Eok).
    + apply (pow2_list_invalid fs be w n radix lg D Hlg0 Hrl ltac:(lia) Hw Hdiv HD Eok).
  - rewrite (from_buf_gen_view fs be dbg w n buf radix sign Ep Hs). fold s D.
    assert (HD0 : D <> []).
    { intros E. assert (length D = (length buf - s)%nat) by (unfold D; rewrite skipn_length, Lm_length; reflexivity).
      rewrite E in H. cbn [length] in H. lia. }
    assert (Hfu : (length D <= length buf)%nat) by (unfold D; rewrite skipn_length, Lm_length; lia).
    apply (gen_list_spec Hadd fs dbg w n radix D (length buf) Hw Hn ltac:(lia) ltac:(lia) ltac:(lia) HD0 Hfu HD).
Qed.

(* ---------- characters ---------- *)
Lemma dig_char b : dig true b = match char_digit b with Some d => d | None => 255 end.
Proof.
  unfold dig, byte_to_digit, char_digit.
  destruct ((48 <=? b) && (b <=? 57)); [reflexivity|].
  destruct ((97 <=? b) && (b <=? 122)); [lia|].
  destruct ((65 <=? b) && (b <=? 90)); [lia | reflexivity].
Qed.

Lemma char_digit_range b d : char_digit b = Some d -> 0 <= d < 36.
Proof.
  unfold char_digit.
  destruct ((48 <=? b) && (b <=? 57)) eqn:E1.
  { apply andb_true_iff in E1. destruct E1 as [H1 H2]. apply Z.leb_le in H1, H2. intros [= <-]. lia. }
  destruct ((97 <=? b) && (b <=? 122)) eqn:E2.
  { apply andb_true_iff in E2. destruct E2 as [H1 H2]. apply Z.leb_le in H1, H2. intros [= <-]. lia. }
  destruct ((65 <=? b) && (b <=? 90)) eqn:E3.
  { apply andb_true_iff in E3. destruct E3 as [H1 H2]. apply Z.leb_le in H1, H2. intros [= <-]. lia. }
  discriminate.
Qed.

Lemma dig_true_nonneg b : 0 <= dig true b.
Proof.
  rewrite dig_char. destruct (char_digit b) as [d|] eqn:E; [|lia]. apply char_digit_range in E. lia.
Qed.

Lemma dig_true_nonneg_all l : Forall (fun b => 0 <= dig true b) l.
Proof. apply Forall_forall. intros b _. apply dig_true_nonneg. Qed.

Lemma okd_char r b : r <= 255 -> okd true r b = is_digit_char r b.
Proof.
  intros Hr. unfold okd, is_digit_char. rewrite dig_char. destruct (char_digit b); [reflexivity|].
  apply Z.ltb_ge. lia.
Qed.

Lemma okd_char_all r l : r <= 255 -> forallb (okd true r) l = forallb (is_digit_char r) l.
Proof. intros Hr. induction l as [|b l IH]; [reflexivity|]. cbn [forallb]. rewrite IH, okd_char by lia. reflexivity. Qed.

Lemma dig_dval_all r l : forallb (is_digit_char r) l = true -> map (dig true) l = map dval l.
Proof.
  intros H. apply map_ext_in. intros b Hb. rewrite forallb_forall in H. specialize (H b Hb).
  unfold is_digit_char in H. rewrite dig_char. unfold dval. destruct (char_digit b); [reflexivity | discriminate].
Qed.

Lemma is_digit_char_not_sign r b : r <= 36 -> is_digit_char r b = true -> b <> 43 /\ b <> 45.
Proof.
  intros Hr H. split; intros ->; discriminate H.
Qed.

(* ---------- BUint::from_str_radix ---------- *)
Lemma grammar_shape signed r s : grammarb signed r s = true ->
  body signed s <> [] /\ forallb (is_digit_char r) (body signed s) = true.
Proof.
  unfold grammarb. destruct (body signed s) as [|b t]; [discriminate|]. intros H. split; [discriminate | exact H].
Qed.

Lemma body_length signed s : length (body signed s) = (length s - sign_len signed s)%nat.
Proof. unfold body. apply skipn_length. Qed.

Theorem U_from_str_radix_ok (Hadd : U_overflowing_add_spec) dbg w n s r :
  0 < w -> w mod 8 = 0 -> (0 < n)%nat -> 2 <= r <= 36 -> grammarb false r s = true ->
  U_from_str_radix dbg w n s r =
    let v := denote false r s in
    if v <? Mod w n then POk (enc w n v) else PErr PosOverflow.
Proof.
  intros Hw H8 Hn Hr Hg. destruct (grammar_shape _ _ _ Hg) as (Hb0 & Hbok).
  unfold U_from_str_radix, radix_in_range.
  destruct (Z.leb_spec 2 r); [|lia]. destruct (Z.leb_spec r 36); [|lia]. cbn [andb].
  destruct s as [|b0 t]; [exfalso; apply Hb0; reflexivity|].
  set (s := b0 :: t) in *.
  assert (Hsl : sign_len false s = if b0 =? 43 then 1%nat else 0%nat).
  { unfold s, sign_len. cbn [andb]. rewrite orb_false_r. reflexivity. }
  pose proof (body_length false s) as Hbl.
  assert (Hlt : ((if (b0 =? 43)%Z then 1 else 0) < length s)%nat).
  { rewrite <- Hsl. destruct (body false s); [contradiction | cbn [length] in Hbl; lia]. }
  pose proof (from_buf_spec Hadd true true dbg w n s r (b0 =? 43) (or_introl eq_refl) Hw H8 Hn ltac:(lia) Hlt) as Hfb.
  cbv zeta in Hfb. unfold Lm in Hfb. rewrite <- Hsl in Hfb. fold (body false s) in Hfb.
  specialize (Hfb (dig_true_nonneg_all _)).
  rewrite okd_char_all, Hbok in Hfb by lia. rewrite Hfb.
  rewrite (dig_dval_all r _ Hbok).
  unfold parse_value, denote. replace (is_neg false s) with false by reflexivity. cbv zeta.
  set (v := horner r (map dval (body false s))).
  destruct (Z.ltb_spec v (Mod w n)); [|reflexivity].
  unfold enc. rewrite Z.mod_small; [reflexivity|]. split; [|lia].
  apply (horner_bounds r). lia.
  apply Forall_forall. intros d Hd. apply in_map_iff in Hd. destruct Hd as (b & <- & Hb).
  rewrite forallb_forall in Hbok. specialize (Hbok b Hb). unfold is_digit_char in Hbok. unfold dval.
  destruct (char_digit b) as [d|] eqn:E; [|discriminate]. apply char_digit_range in E. apply Z.ltb_lt in Hbok. lia.
Qed.

Theorem U_from_str_radix_empty dbg w n r : 2 <= r <= 36 -> U_from_str_radix dbg w n [] r = PErr Empty.
Proof.
  intros Hr. unfold U_from_str_radix, radix_in_range.
  destruct (Z.leb_spec 2 r); [|lia]. destruct (Z.leb_spec r 36); [|lia]. reflexivity.
Qed.

Theorem U_from_str_radix_lone_sign dbg w n r : 2 <= r <= 36 -> U_from_str_radix dbg w n [43] r = PErr InvalidDigit.
Proof.
  intros Hr. unfold U_from_str_radix, radix_in_range.
  destruct (Z.leb_spec 2 r); [|lia]. destruct (Z.leb_spec r 36); [|lia]. reflexivity.
Qed.

(* a string that is not `'+'? digit+` is rejected; with InvalidDigit when its digit positions
   cannot overflow the type *)
Theorem U_from_str_radix_reject (Hadd : U_overflowing_add_spec) dbg w n s r :
  0 < w -> w mod 8 = 0 -> (0 < n)%nat -> 2 <= r <= 36 -> s <> [] -> grammarb false r s = false ->
  exists k, U_from_str_radix dbg w n s r = PErr k /\ (k = InvalidDigit \/ k = PosOverflow) /\
            (r ^ Z.of_nat (length (body false s)) <= Mod w n -> k = InvalidDigit).
Proof.
  intros Hw H8 Hn Hr Hs0 Hg.
  unfold U_from_str_radix, radix_in_range.
  destruct (Z.leb_spec 2 r); [|lia]. destruct (Z.leb_spec r 36); [|lia]. cbn [andb].
  destruct s as [|b0 t]; [contradiction|].
  set (s := b0 :: t) in *.
  assert (Hsl : sign_len false s = if b0 =? 43 then 1%nat else 0%nat).
  { unfold s, sign_len. cbn [andb]. rewrite orb_false_r. reflexivity. }
  pose proof (body_length false s) as Hbl.
  destruct (body false s) as [|x bt] eqn:Eb.
  - (* a lone sign *)
    assert (E43 : b0 = 43 /\ t = []).
    { cbn [length] in Hbl. rewrite Hsl in Hbl. unfold s in Hbl. cbn [length] in Hbl.
      destruct (Z.eqb_spec b0 43); [|lia]. split; [assumption|]. destruct t; [reflexivity | cbn [length] in Hbl; lia]. }
    destruct E43 as [-> ->]. exists InvalidDigit. split; [reflexivity|]. split; [left; reflexivity | reflexivity].
  - assert (Hlt : ((if (b0 =? 43)%Z then 1 else 0) < length s)%nat).
    { rewrite <- Hsl. cbn [length] in Hbl. lia. }
    pose proof (from_buf_spec Hadd true true dbg w n s r (b0 =? 43) (or_introl eq_refl) Hw H8 Hn ltac:(lia) Hlt) as Hfb.
    cbv zeta in Hfb. unfold Lm in Hfb. rewrite <- Hsl in Hfb. fold (body false s) in Hfb. rewrite Eb in Hfb.
    specialize (Hfb (dig_true_nonneg_all _)).
    unfold grammarb in Hg. rewrite Eb in Hg.
    rewrite okd_char_all, Hg in Hfb by lia. exact Hfb.
Qed.

(* ---------- BInt::from_str_radix ---------- *)
Lemma sign_len_true b0 t :
  sign_len true (b0 :: t) = if (b0 =? 45) || (b0 =? 43) then 1%nat else 0%nat.
Proof. unfold sign_len. cbn [andb]. rewrite orb_comm. reflexivity. Qed.

Lemma testbit_top m k : 0 <= k -> 0 <= m < 2 ^ (k + 1) -> Z.testbit m k = (2 ^ k <=? m).
Proof.
  intros Hk Hm. rewrite Z.pow_add_r, Z.pow_1_r in Hm by lia.
  assert (Hp : 0 < 2 ^ k) by (apply Z.pow_pos_nonneg; lia).
  destruct (Z.leb_spec (2 ^ k) m).
  - apply Z.testbit_true; [lia|]. assert (E : m / 2 ^ k = 1) by (symmetry; apply Z.div_unique with (m - 2 ^ k); lia).
    rewrite E. reflexivity.
  - apply Z.testbit_false; [lia|]. rewrite Z.div_small by lia. reflexivity.
Qed.

(* the odd-part decomposition of a power of two *)
Lemma odd_part_pow2 q a b : 0 <= a -> 0 <= b -> 0 <= q -> (2 * q + 1) * 2 ^ a = 2 ^ b -> a = b.
Proof.
  intros Ha Hb Hq H.
  destruct (Z.lt_trichotomy a b) as [Hlt|[E|Hgt]]; [|exact E|].
  - exfalso. replace b with (a + (b - a)) in H by lia. rewrite Z.pow_add_r in H by lia.
    assert (Hp : 0 < 2 ^ a) by (apply Z.pow_pos_nonneg; lia).
    assert (E : 2 * q + 1 = 2 ^ (b - a)) by nia.
    replace (b - a) with (1 + (b - a - 1)) in E by lia. rewrite Z.pow_add_r in E by lia. lia.
  - exfalso. replace a with (b + (a - b)) in H by lia. rewrite Z.pow_add_r in H by lia.
    assert (Hp : 0 < 2 ^ b) by (apply Z.pow_pos_nonneg; lia).
    assert (E : (2 * q + 1) * 2 ^ (a - b) = 1) by nia.
    replace (a - b) with (1 + (a - b - 1)) in E by lia. rewrite Z.pow_add_r in E by lia.
    assert (0 < 2 ^ (a - b - 1)) by (apply Z.pow_pos_nonneg; lia). nia.
Qed.

Definition signed_value (w : Z) (n : nat) (neg : bool) (v : Z) : pout (list Z) :=
  if (- (Mod w n / 2) <=? v) && (v <? Mod w n / 2) then POk (enc w n v)
  else PErr (if neg then NegOverflow else PosOverflow).

Theorem I_from_str_radix_ok
  (Hadd : U_overflowing_add_spec) (Hbit : bit_spec) (Htz : trailing_zeros_spec)
  (Hneg : I_wrapping_neg_spec) (Hisneg : is_negative_spec) dbg w n s r :
  0 < w -> w mod 8 = 0 -> (0 < n)%nat -> 2 <= r <= 36 -> grammarb true r s = true ->
  I_from_str_radix dbg w n s r = signed_value w n (is_neg true s) (denote true r s).
Proof.
  intros Hw H8 Hn Hr Hg. destruct (grammar_shape _ _ _ Hg) as (Hb0 & Hbok).
  unfold I_from_str_radix, radix_in_range.
  destruct (Z.leb_spec 2 r) as [Hr2|Hr2]; [|lia]. destruct (Z.leb_spec r 36) as [Hr36|Hr36]; [|lia]. cbn [andb].
  destruct s as [|b0 t]; [exfalso; apply Hb0; reflexivity|].
  set (s := b0 :: t) in *.
  pose proof (sign_len_true b0 t) as Hsl. fold s in Hsl.
  pose proof (body_length true s) as Hbl.
  set (sg := (b0 =? 45) || (b0 =? 43)) in *.
  assert (Hlt : ((if sg then 1 else 0) < length s)%nat).
  { rewrite <- Hsl. destruct (body true s); [contradiction | cbn [length] in Hbl; lia]. }
  pose proof (from_buf_spec Hadd true true dbg w n s r sg (or_introl eq_refl) Hw H8 Hn ltac:(lia) Hlt) as Hfb.
  cbv zeta in Hfb. unfold Lm in Hfb. rewrite <- Hsl in Hfb. fold (body true s) in Hfb.
  specialize (Hfb (dig_true_nonneg_all _)).
  rewrite okd_char_all, Hbok in Hfb by lia. rewrite Hfb. clear Hfb.
  rewrite (dig_dval_all r _ Hbok).
  unfold signed_value, denote. replace (is_neg true s) with (b0 =? 45) by reflexivity.
  set (m := horner r (map dval (body true s))).
  assert (Hm0 : 0 <= m).
  { apply (horner_bounds r); [lia|].
    apply Forall_forall. intros d Hd. apply in_map_iff in Hd. destruct Hd as (b & <- & Hb).
    rewrite forallb_forall in Hbok. specialize (Hbok b Hb). unfold is_digit_char in Hbok. unfold dval.
    destruct (char_digit b) as [d|] eqn:E; [|discriminate]. apply char_digit_range in E. apply Z.ltb_lt in Hbok. lia. }
  pose proof (Mod_pos w n ltac:(lia)) as HM.
  pose proof (Mod_even w n Hw Hn) as HMe.
  set (M := Mod w n) in *. set (H := M / 2) in *.
  unfold parse_value. fold M.
  destruct (Z.ltb_spec m M) as [HmM|HmM].
  - destruct (digits_of_small w n m Hw ltac:(fold M; lia)) as (Hwu & Huu).
    set (uint := digits_of w n m) in *.
    destruct (b0 =? 45) eqn:E45.
    + (* negative *)
      assert (Hbits : 0 < bits w n) by (unfold bits; nia).
      rewrite (Hbit w n uint (bits w n - 1) Hw Hwu ltac:(lia)). cbn [of_outcome pbind]. rewrite Huu.
      assert (HH : H = 2 ^ (bits w n - 1)).
      { unfold H, M, Mod, bits. replace (w * Z.of_nat n) with (1 + (w * Z.of_nat n - 1)) at 1 by lia.
        rewrite Z.pow_add_r by (unfold bits in Hbits; lia). rewrite Z.pow_1_r, Z.mul_comm, Z.div_mul by lia. reflexivity. }
      rewrite (testbit_top m (bits w n - 1)) by
        (try lia; replace (bits w n - 1 + 1) with (w * Z.of_nat n) by (unfold bits; lia); fold (Mod w n); fold M; lia).
      rewrite <- HH.
      destruct (Htz w n uint Hw Hwu) as (Htz0 & Htz1). rewrite Huu in Htz0, Htz1.
      destruct (Z.leb_spec H m) as [Htop|Htop]; cbn [andb].
      * (* magnitude >= 2^(BITS-1): only MIN itself is representable *)
        assert (Hmnz : m <> 0) by lia.
        destruct (Htz1 Hmnz) as (Htzn & q & Hq).
        destruct (Z.eqb_spec (trailing_zeros w uint) (bits w n - 1)) as [Et|Et]; cbn [negb].
        -- (* m = (2q+1) * H and m < 2H, so m = H *)
           rewrite Et, <- HH in Hq. assert (Hq0 : q = 0) by nia. subst q.
           assert (HmH : m = H) by lia.
           destruct (Z.leb_spec (- H) (- m)); [|lia]. destruct (Z.ltb_spec (- m) H); [|lia]. cbn [andb].
           f_equal. unfold enc. fold M. symmetry. apply digits_of_unique; [lia| |].
           ++ apply (Hneg w n uint Hw Hn Hwu).
           ++ destruct (Hneg w n uint Hw Hn Hwu) as (_ & Hu). rewrite Hu, Huu. reflexivity.
        -- assert (HmH : m <> H).
           { intros EmH. apply Et. rewrite EmH, HH in Hq.
             assert (0 <= q). { assert (0 < 2 ^ trailing_zeros w uint) by (apply Z.pow_pos_nonneg; lia). nia. }
             symmetry in Hq. apply odd_part_pow2 in Hq; lia. }
           destruct (Z.leb_spec (- H) (- m)); [lia|]. reflexivity.
      * destruct (Z.leb_spec (- H) (- m)); [|lia]. destruct (Z.ltb_spec (- m) H); [|lia]. cbn [andb].
        f_equal. unfold enc. fold M. symmetry. apply digits_of_unique; [lia| |].
        -- apply (Hneg w n uint Hw Hn Hwu).
        -- destruct (Hneg w n uint Hw Hn Hwu) as (_ & Hu). rewrite Hu, Huu. reflexivity.
    + (* non-negative *)
      rewrite (Hisneg w n uint Hw Hn Hwu), Huu. fold M H.
      destruct (Z.leb_spec H m).
      * destruct (Z.ltb_spec m H); [lia|]. rewrite andb_false_r. reflexivity.
      * destruct (Z.leb_spec (- H) m); [|lia]. destruct (Z.ltb_spec m H); [|lia]. cbn [andb].
        unfold enc. fold M. rewrite Z.mod_small by lia. reflexivity.
  - (* the magnitude does not even fit the unsigned type *)
    replace (PosOverflow =? PosOverflow) with true by reflexivity. cbn [andb].
    destruct (b0 =? 45).
    + destruct (Z.leb_spec (- H) (- m)); [lia|]. reflexivity.
    + destruct (Z.ltb_spec m H); [lia|]. rewrite andb_false_r. reflexivity.
Qed.

Theorem I_from_str_radix_empty dbg w n r : 2 <= r <= 36 -> I_from_str_radix dbg w n [] r = PErr Empty.
Proof.
  intros Hr. unfold I_from_str_radix, radix_in_range.
  destruct (Z.leb_spec 2 r); [|lia]. destruct (Z.leb_spec r 36); [|lia]. reflexivity.
Qed.

Theorem I_from_str_radix_lone_sign dbg w n r b : 2 <= r <= 36 -> b = 43 \/ b = 45 ->
  I_from_str_radix dbg w n [b] r = PErr InvalidDigit.
Proof.
  intros Hr Hb. unfold I_from_str_radix, radix_in_range.
  destruct (Z.leb_spec 2 r); [|lia]. destruct (Z.leb_spec r 36); [|lia].
  destruct Hb as [-> | ->]; reflexivity.
Qed.

Theorem I_from_str_radix_reject (Hadd : U_overflowing_add_spec) dbg w n s r :
  0 < w -> w mod 8 = 0 -> (0 < n)%nat -> 2 <= r <= 36 -> s <> [] -> grammarb true r s = false ->
  exists k, I_from_str_radix dbg w n s r = PErr k /\
            (k = InvalidDigit \/ k = PosOverflow \/ k = NegOverflow) /\
            (r ^ Z.of_nat (length (body true s)) <= Mod w n -> k = InvalidDigit).
Proof.
  intros Hw H8 Hn Hr Hs0 Hg.
  unfold I_from_str_radix, radix_in_range.
  destruct (Z.leb_spec 2 r) as [Hr2|Hr2]; [|lia]. destruct (Z.leb_spec r 36) as [Hr36|Hr36]; [|lia]. cbn [andb].
  destruct s as [|b0 t]; [contradiction|].
  set (s := b0 :: t) in *.
  pose proof (sign_len_true b0 t) as Hsl. fold s in Hsl.
  pose proof (body_length true s) as Hbl.
  set (sg := (b0 =? 45) || (b0 =? 43)) in *.
  destruct (body true s) as [|x bt] eqn:Eb.
  - (* a lone sign *)
    assert (E : sg = true /\ t = []).
    { cbn [length] in Hbl. rewrite Hsl in Hbl. unfold s in Hbl. cbn [length] in Hbl.
      destruct sg; [|lia]. split; [reflexivity|]. destruct t; [reflexivity | cbn [length] in Hbl; lia]. }
    destruct E as [Esg ->]. exists InvalidDigit. split; [|split; [left; reflexivity | reflexivity]].
    unfold from_buf_radix_internal. rewrite Esg. reflexivity.
  - assert (Hlt : ((if sg then 1 else 0) < length s)%nat).
    { rewrite <- Hsl. cbn [length] in Hbl. lia. }
    pose proof (from_buf_spec Hadd true true dbg w n s r sg (or_introl eq_refl) Hw H8 Hn ltac:(lia) Hlt) as Hfb.
    cbv zeta in Hfb. unfold Lm in Hfb. rewrite <- Hsl in Hfb. fold (body true s) in Hfb. rewrite Eb in Hfb.
    specialize (Hfb (dig_true_nonneg_all _)).
    unfold grammarb in Hg. rewrite Eb in Hg.
    rewrite okd_char_all, Hg in Hfb by lia.
    destruct Hfb as (k & Ek & Hk1 & Hk2). rewrite Ek.
    destruct Hk1 as [-> | ->].
    + exists InvalidDigit. split; [reflexivity|]. split; [left; reflexivity | reflexivity].
    + replace (PosOverflow =? PosOverflow) with true by reflexivity. cbn [andb].
      destruct (b0 =? 45).
      * exists NegOverflow. split; [reflexivity|]. split; [right; right; reflexivity|].
        intros Hb. specialize (Hk2 Hb). discriminate.
      * exists PosOverflow. split; [reflexivity|]. split; [right; left; reflexivity|].
        intros Hb. specialize (Hk2 Hb). discriminate.
Qed.

(* ---------- from_radix_be / from_radix_le (radix 2..255; 256 is the byte-slice decoder) ---------- *)
Lemma digits_of_zero w n : 0 < w -> digits_of w n 0 = ZERO n.
Proof.
  intros Hw. apply digits_of_unique; [lia | apply wf_repeat0; lia | apply uval_repeat0].
Qed.

Lemma dig_false_all ds : bytes ds -> Forall (fun b => 0 <= dig false b) ds.
Proof. intros H. eapply Forall_impl; [|exact H]. cbv beta. intros b Hb. unfold dig, byte_to_digit. lia. Qed.

Lemma map_dig_false ds : map (dig false) ds = ds.
Proof. induction ds as [|d ds IH]; [reflexivity|]. cbn [map]. rewrite IH. reflexivity. Qed.

Lemma okd_false r ds : forallb (okd false r) ds = digits_below r ds.
Proof. reflexivity. Qed.

Definition slice_value (w : Z) (n : nat) (r : Z) (msd_first : list Z) : option (list Z) :=
  if digits_below r msd_first && (horner r msd_first <? Mod w n) then Some (digits_of w n (horner r msd_first))
  else None.

Lemma from_buf_slice (Hadd : U_overflowing_add_spec) be dbg w n ds r :
  0 < w -> w mod 8 = 0 -> (0 < n)%nat -> 2 <= r < 256 -> ds <> [] -> bytes ds ->
  pok (from_buf_radix_internal false be dbg w n ds r false) = POk (slice_value w n r (Lm be ds)).
Proof.
  intros Hw H8 Hn Hr Hd0 Hb.
  assert (Hlt : (0 < length ds)%nat) by (destruct ds; [contradiction | cbn [length]; lia]).
  pose proof (from_buf_spec Hadd false be dbg w n ds r false (or_intror eq_refl) Hw H8 Hn Hr Hlt) as Hfb.
  cbv zeta in Hfb. cbn [skipn] in Hfb.
  assert (HbL : bytes (Lm be ds)).
  { unfold Lm. destruct be; [exact Hb | apply Forall_rev'; exact Hb]. }
  specialize (Hfb (dig_false_all _ HbL)).
  rewrite okd_false, map_dig_false in Hfb. unfold slice_value.
  destruct (digits_below r (Lm be ds)); cbn [andb].
  - rewrite Hfb. unfold parse_value. destruct (horner r (Lm be ds) <? Mod w n); reflexivity.
  - destruct Hfb as (k & Ek & _). rewrite Ek. reflexivity.
Qed.

Theorem U_from_radix_be_spec (Hadd : U_overflowing_add_spec) dbg w n ds r :
  0 < w -> w mod 8 = 0 -> (0 < n)%nat -> 2 <= r < 256 -> bytes ds ->
  U_from_radix_be dbg w n ds r = POk (slice_value w n r ds).
Proof.
  intros Hw H8 Hn Hr Hb. unfold U_from_radix_be, radix_in_range.
  destruct (Z.leb_spec 2 r); [|lia]. destruct (Z.leb_spec r 256); [|lia]. cbn [andb].
  destruct ds as [|d ds].
  - unfold slice_value. cbn [digits_below forallb andb]. rewrite horner_nil.
    pose proof (Mod_pos w n ltac:(lia)). destruct (Z.ltb_spec 0 (Mod w n)); [|lia].
    rewrite digits_of_zero by lia. reflexivity.
  - destruct (Z.eqb_spec r 256); [lia|].
    apply (from_buf_slice Hadd true dbg w n (d :: ds) r Hw H8 Hn Hr ltac:(discriminate) Hb).
Qed.

Theorem U_from_radix_le_spec (Hadd : U_overflowing_add_spec) dbg w n ds r :
  0 < w -> w mod 8 = 0 -> (0 < n)%nat -> 2 <= r < 256 -> bytes ds ->
  U_from_radix_le dbg w n ds r = POk (slice_value w n r (rev ds)).
Proof.
  intros Hw H8 Hn Hr Hb. unfold U_from_radix_le, radix_in_range.
  destruct (Z.leb_spec 2 r); [|lia]. destruct (Z.leb_spec r 256); [|lia]. cbn [andb].
  destruct ds as [|d ds].
  - unfold slice_value. cbn [rev digits_below forallb andb]. rewrite horner_nil.
    pose proof (Mod_pos w n ltac:(lia)). destruct (Z.ltb_spec 0 (Mod w n)); [|lia].
    rewrite digits_of_zero by lia. reflexivity.
  - destruct (Z.eqb_spec r 256); [lia|].
    apply (from_buf_slice Hadd false dbg w n (d :: ds) r Hw H8 Hn Hr ltac:(discriminate) Hb).
Qed.

(* ---------- parse_bytes, FromStr, parse_str_radix ---------- *)
Lemma ascii_utf8_fuel bs : Forall (fun b => 0 <= b < 128) bs ->
  forall fuel, (length bs <= fuel)%nat -> utf8_valid_fuel fuel bs = true.
Proof.
  intros H. induction H as [|b bs Hb _ IH]; intros fuel Hf.
  - destruct fuel; reflexivity.
  - destruct fuel as [|f]; [cbn [length] in Hf; lia|]. cbn [utf8_valid_fuel]. unfold inr at 1.
    destruct (Z.leb_spec 0 b); [|lia]. destruct (Z.leb_spec b 127); [|lia]. cbn [andb].
    apply IH. cbn [length] in Hf. lia.
Qed.

Lemma ascii_utf8_valid bs : Forall (fun b => 0 <= b < 128) bs -> utf8_valid bs = true.
Proof. intros H. unfold utf8_valid. apply ascii_utf8_fuel; [exact H | lia]. Qed.

Lemma is_digit_char_ascii r b : is_digit_char r b = true -> 0 <= b < 128.
Proof.
  unfold is_digit_char, char_digit.
  destruct ((48 <=? b) && (b <=? 57)) eqn:E1.
  { apply andb_true_iff in E1. destruct E1 as [H1 H2]. apply Z.leb_le in H1, H2. lia. }
  destruct ((97 <=? b) && (b <=? 122)) eqn:E2.
  { apply andb_true_iff in E2. destruct E2 as [H1 H2]. apply Z.leb_le in H1, H2. lia. }
  destruct ((65 <=? b) && (b <=? 90)) eqn:E3.
  { apply andb_true_iff in E3. destruct E3 as [H1 H2]. apply Z.leb_le in H1, H2. lia. }
  discriminate.
Qed.

Lemma grammar_ascii signed r s : grammarb signed r s = true -> Forall (fun b => 0 <= b < 128) s.
Proof.
  intros Hg. destruct (grammar_shape _ _ _ Hg) as (_ & Hok).
  assert (Hbody : Forall (fun b => 0 <= b < 128) (body signed s)).
  { apply Forall_forall. intros b Hb. rewrite forallb_forall in Hok. apply (is_digit_char_ascii r). auto. }
  unfold body in Hbody. destruct s as [|b0 t]; [constructor|].
  unfold sign_len in Hbody.
  destruct ((b0 =? 43) || (signed && (b0 =? 45))) eqn:E; cbn [skipn] in Hbody; [|exact Hbody].
  constructor; [|exact Hbody].
  apply orb_true_iff in E. destruct E as [E|E].
  - apply Z.eqb_eq in E. lia.
  - apply andb_true_iff in E. destruct E as [_ E]. apply Z.eqb_eq in E. lia.
Qed.

Theorem U_parse_bytes_projection dbg w n buf r :
  U_parse_bytes dbg w n buf r = if utf8_valid buf then pok (U_from_str_radix dbg w n buf r) else POk None.
Proof. reflexivity. Qed.
Theorem I_parse_bytes_projection dbg w n buf r :
  I_parse_bytes dbg w n buf r = if utf8_valid buf then pok (I_from_str_radix dbg w n buf r) else POk None.
Proof. reflexivity. Qed.

Theorem U_parse_bytes_ok (Hadd : U_overflowing_add_spec) dbg w n s r :
  0 < w -> w mod 8 = 0 -> (0 < n)%nat -> 2 <= r <= 36 -> grammarb false r s = true ->
  U_parse_bytes dbg w n s r =
    let v := denote false r s in POk (if v <? Mod w n then Some (enc w n v) else None).
Proof.
  intros Hw H8 Hn Hr Hg. unfold U_parse_bytes.
  rewrite (ascii_utf8_valid s (grammar_ascii _ _ _ Hg)).
  rewrite (U_from_str_radix_ok Hadd dbg w n s r Hw H8 Hn Hr Hg). cbv zeta.
  destruct (denote false r s <? Mod w n); reflexivity.
Qed.

Theorem U_parse_bytes_reject (Hadd : U_overflowing_add_spec) dbg w n s r :
  0 < w -> w mod 8 = 0 -> (0 < n)%nat -> 2 <= r <= 36 -> grammarb false r s = false ->
  U_parse_bytes dbg w n s r = POk None.
Proof.
  intros Hw H8 Hn Hr Hg. unfold U_parse_bytes. destruct (utf8_valid s); [|reflexivity].
  destruct s as [|b0 t].
  - rewrite U_from_str_radix_empty by lia. reflexivity.
  - destruct (U_from_str_radix_reject Hadd dbg w n (b0 :: t) r Hw H8 Hn Hr ltac:(discriminate) Hg) as (k & Ek & _).
    rewrite Ek. reflexivity.
Qed.

Theorem I_parse_bytes_ok
  (Hadd : U_overflowing_add_spec) (Hbit : bit_spec) (Htz : trailing_zeros_spec)
  (Hneg : I_wrapping_neg_spec) (Hisneg : is_negative_spec) dbg w n s r :
  0 < w -> w mod 8 = 0 -> (0 < n)%nat -> 2 <= r <= 36 -> grammarb true r s = true ->
  I_parse_bytes dbg w n s r = pok (signed_value w n (is_neg true s) (denote true r s)).
Proof.
  intros Hw H8 Hn Hr Hg. unfold I_parse_bytes.
  rewrite (ascii_utf8_valid s (grammar_ascii _ _ _ Hg)).
  rewrite (I_from_str_radix_ok Hadd Hbit Htz Hneg Hisneg dbg w n s r Hw H8 Hn Hr Hg). reflexivity.
Qed.

Theorem I_parse_bytes_reject (Hadd : U_overflowing_add_spec) dbg w n s r :
  0 < w -> w mod 8 = 0 -> (0 < n)%nat -> 2 <= r <= 36 -> grammarb true r s = false ->
  I_parse_bytes dbg w n s r = POk None.
Proof.
  intros Hw H8 Hn Hr Hg. unfold I_parse_bytes. destruct (utf8_valid s); [|reflexivity].
  destruct s as [|b0 t].
  - rewrite I_from_str_radix_empty by lia. reflexivity.
  - destruct (I_from_str_radix_reject Hadd dbg w n (b0 :: t) r Hw H8 Hn Hr ltac:(discriminate) Hg) as (k & Ek & _).
    rewrite Ek. reflexivity.
Qed.

Theorem U_from_str_is_radix_10 dbg w n s : U_from_str dbg w n s = U_from_str_radix dbg w n s 10.
Proof. reflexivity. Qed.
Theorem I_from_str_is_radix_10 dbg w n s : I_from_str dbg w n s = I_from_str_radix dbg w n s 10.
Proof. reflexivity. Qed.

(* ---------- panics exactly for an out-of-range radix ---------- *)
Theorem U_from_str_radix_panic (Hadd : U_overflowing_add_spec) dbg w n s r :
  0 < w -> w mod 8 = 0 -> (0 < n)%nat ->
  (U_from_str_radix dbg w n s r = PPanic <-> ~ (2 <= r <= 36)) /\ U_from_str_radix dbg w n s r <> PFuel.
Proof.
  intros Hw H8 Hn.
  destruct (Z_le_dec 2 r) as [H2|H2]; [destruct (Z_le_dec r 36) as [H36|H36]|].
  - (* in range: Ok or Err *)
    assert (Hres : exists x, U_from_str_radix dbg w n s r = POk x \/ exists k, U_from_str_radix dbg w n s r = PErr k).
    { destruct s as [|b0 t].
      - exists []. right. exists Empty. apply U_from_str_radix_empty. lia.
      - destruct (grammarb false r (b0 :: t)) eqn:Eg.
        + rewrite (U_from_str_radix_ok Hadd dbg w n _ r Hw H8 Hn ltac:(lia) Eg). cbv zeta.
          destruct (denote false r (b0 :: t) <? Mod w n); [eexists; left; reflexivity | exists []; right; eexists; reflexivity].
        + destruct (U_from_str_radix_reject Hadd dbg w n (b0 :: t) r Hw H8 Hn ltac:(lia) ltac:(discriminate) Eg) as (k & Ek & _).
          exists []. right. exists k. exact Ek. }
    destruct Hres as (x & [E|(k & E)]); rewrite E; (split; [split; [discriminate | lia] | discriminate]).
  - assert (E : U_from_str_radix dbg w n s r = PPanic).
    { unfold U_from_str_radix, radix_in_range. destruct (Z.leb_spec r 36); [lia|]. rewrite andb_false_r. reflexivity. }
    rewrite E. split; [split; [lia | reflexivity] | discriminate].
  - assert (E : U_from_str_radix dbg w n s r = PPanic).
    { unfold U_from_str_radix, radix_in_range. destruct (Z.leb_spec 2 r); [lia|]. reflexivity. }
    rewrite E. split; [split; [lia | reflexivity] | discriminate].
Qed.

Theorem I_from_str_radix_panic
  (Hadd : U_overflowing_add_spec) (Hbit : bit_spec) (Htz : trailing_zeros_spec)
  (Hneg : I_wrapping_neg_spec) (Hisneg : is_negative_spec) dbg w n s r :
  0 < w -> w mod 8 = 0 -> (0 < n)%nat ->
  (I_from_str_radix dbg w n s r = PPanic <-> ~ (2 <= r <= 36)) /\ I_from_str_radix dbg w n s r <> PFuel.
Proof.
  intros Hw H8 Hn.
  destruct (Z_le_dec 2 r) as [H2|H2]; [destruct (Z_le_dec r 36) as [H36|H36]|].
  - assert (Hres : exists x, I_from_str_radix dbg w n s r = POk x \/ exists k, I_from_str_radix dbg w n s r = PErr k).
    { destruct s as [|b0 t].
      - exists []. right. exists Empty. apply I_from_str_radix_empty. lia.
      - destruct (grammarb true r (b0 :: t)) eqn:Eg.
        + rewrite (I_from_str_radix_ok Hadd Hbit Htz Hneg Hisneg dbg w n _ r Hw H8 Hn ltac:(lia) Eg).
          unfold signed_value. destruct (_ && _); [eexists; left; reflexivity | exists []; right; eexists; reflexivity].
        + destruct (I_from_str_radix_reject Hadd dbg w n (b0 :: t) r Hw H8 Hn ltac:(lia) ltac:(discriminate) Eg) as (k & Ek & _).
          exists []. right. exists k. exact Ek. }
    destruct Hres as (x & [E|(k & E)]); rewrite E; (split; [split; [discriminate | lia] | discriminate]).
  - assert (E : I_from_str_radix dbg w n s r = PPanic).
    { unfold I_from_str_radix, radix_in_range. destruct (Z.leb_spec r 36); [lia|]. rewrite andb_false_r. reflexivity. }
    rewrite E. split; [split; [lia | reflexivity] | discriminate].
  - assert (E : I_from_str_radix dbg w n s r = PPanic).
    { unfold I_from_str_radix, radix_in_range. destruct (Z.leb_spec 2 r); [lia|]. reflexivity. }
    rewrite E. split; [split; [lia | reflexivity] | discriminate].
Qed.

(* parse_bytes: a panic can only come from the radix assertion *)
Theorem U_parse_bytes_panic (Hadd : U_overflowing_add_spec) dbg w n s r :
  0 < w -> w mod 8 = 0 -> (0 < n)%nat -> U_parse_bytes dbg w n s r = PPanic -> ~ (2 <= r <= 36).
Proof.
  intros Hw H8 Hn. unfold U_parse_bytes. destruct (utf8_valid s); [|discriminate].
  destruct (U_from_str_radix_panic Hadd dbg w n s r Hw H8 Hn) as ((Hp & _) & _).
  destruct (U_from_str_radix dbg w n s r); cbn [pok]; try discriminate. intros _. apply Hp. reflexivity.
Qed.

Theorem U_from_radix_be_panic (Hadd : U_overflowing_add_spec) dbg w n ds r :
  0 < w -> w mod 8 = 0 -> (0 < n)%nat -> bytes ds ->
  (U_from_radix_be dbg w n ds r = PPanic <-> ~ (2 <= r <= 256)).
Proof.
  intros Hw H8 Hn Hb.
  destruct (Z_le_dec 2 r) as [H2|H2]; [destruct (Z_le_dec r 256) as [H256|H256]|].
  - destruct (Z.eq_dec r 256) as [->|Hne].
    + unfold U_from_radix_be. cbn [radix_in_range]. destruct ds; split; try discriminate; lia.
    + rewrite (U_from_radix_be_spec Hadd dbg w n ds r Hw H8 Hn ltac:(lia) Hb). split; [discriminate | lia].
  - assert (E : U_from_radix_be dbg w n ds r = PPanic).
    { unfold U_from_radix_be, radix_in_range. destruct (Z.leb_spec r 256); [lia|]. rewrite andb_false_r. reflexivity. }
    rewrite E. split; [lia | reflexivity].
  - assert (E : U_from_radix_be dbg w n ds r = PPanic).
    { unfold U_from_radix_be, radix_in_range. destruct (Z.leb_spec 2 r); [lia|]. reflexivity. }
    rewrite E. split; [lia | reflexivity].
Qed.

Theorem U_from_radix_le_panic (Hadd : U_overflowing_add_spec) dbg w n ds r :
  0 < w -> w mod 8 = 0 -> (0 < n)%nat -> bytes ds ->
  (U_from_radix_le dbg w n ds r = PPanic <-> ~ (2 <= r <= 256)).
Proof.
  intros Hw H8 Hn Hb.
  destruct (Z_le_dec 2 r) as [H2|H2]; [destruct (Z_le_dec r 256) as [H256|H256]|].
  - destruct (Z.eq_dec r 256) as [->|Hne].
    + unfold U_from_radix_le. cbn [radix_in_range]. destruct ds; split; try discriminate; lia.
    + rewrite (U_from_radix_le_spec Hadd dbg w n ds r Hw H8 Hn ltac:(lia) Hb). split; [discriminate | lia].
  - assert (E : U_from_radix_le dbg w n ds r = PPanic).
    { unfold U_from_radix_le, radix_in_range. destruct (Z.leb_spec r 256); [lia|]. rewrite andb_false_r. reflexivity. }
    rewrite E. split; [lia | reflexivity].
  - assert (E : U_from_radix_le dbg w n ds r = PPanic).
    { unfold U_from_radix_le, radix_in_range. destruct (Z.leb_spec 2 r); [lia|]. reflexivity. }
    rewrite E. split; [lia | reflexivity].
Qed.

(* ---------- from_radix_be / from_radix_le for the whole range 2..256 ---------- *)
Lemma slice_256 w n ds : 0 < w -> w mod 8 = 0 -> bytes ds ->
  from_le_slice w n (rev ds) = slice_value w n 256 ds.
Proof.
  intros Hw H8 Hb. rewrite from_le_slice_spec by (auto; apply Forall_rev'; exact Hb).
  rewrite horner256. unfold slice_value. rewrite (bytes_below_256 ds Hb). reflexivity.
Qed.

Theorem U_from_radix_be_full (Hadd : U_overflowing_add_spec) dbg w n ds r :
  0 < w -> w mod 8 = 0 -> (0 < n)%nat -> 2 <= r <= 256 -> bytes ds ->
  U_from_radix_be dbg w n ds r = POk (slice_value w n r ds).
Proof.
  intros Hw H8 Hn Hr Hb. destruct (Z.eq_dec r 256) as [->|Hne].
  - unfold U_from_radix_be. cbn [radix_in_range]. replace (radix_in_range 256 256) with true by reflexivity.
    destruct ds as [|d ds].
    + unfold slice_value. cbn [digits_below forallb andb]. rewrite horner_nil.
      pose proof (Mod_pos w n ltac:(lia)). destruct (Z.ltb_spec 0 (Mod w n)); [|lia].
      rewrite digits_of_zero by lia. reflexivity.
    + replace (256 =? 256) with true by reflexivity. unfold from_be_slice. f_equal. apply slice_256; auto.
  - apply U_from_radix_be_spec; auto. lia.
Qed.

Theorem U_from_radix_le_full (Hadd : U_overflowing_add_spec) dbg w n ds r :
  0 < w -> w mod 8 = 0 -> (0 < n)%nat -> 2 <= r <= 256 -> bytes ds ->
  U_from_radix_le dbg w n ds r = POk (slice_value w n r (rev ds)).
Proof.
  intros Hw H8 Hn Hr Hb. destruct (Z.eq_dec r 256) as [->|Hne].
  - unfold U_from_radix_le. replace (radix_in_range 256 256) with true by reflexivity.
    destruct ds as [|d ds].
    + unfold slice_value. cbn [rev digits_below forallb andb]. rewrite horner_nil.
      pose proof (Mod_pos w n ltac:(lia)). destruct (Z.ltb_spec 0 (Mod w n)); [|lia].
      rewrite digits_of_zero by lia. reflexivity.
    + replace (256 =? 256) with true by reflexivity. f_equal.
      rewrite <- (rev_involutive (d :: ds)) at 1. apply slice_256; auto. apply Forall_rev'. exact Hb.
  - apply U_from_radix_le_spec; auto. lia.
Qed.

Theorem I_parse_bytes_panic
  (Hadd : U_overflowing_add_spec) (Hbit : bit_spec) (Htz : trailing_zeros_spec)
  (Hneg : I_wrapping_neg_spec) (Hisneg : is_negative_spec) dbg w n s r :
  0 < w -> w mod 8 = 0 -> (0 < n)%nat -> I_parse_bytes dbg w n s r = PPanic -> ~ (2 <= r <= 36).
Proof.
  intros Hw H8 Hn. unfold I_parse_bytes. destruct (utf8_valid s); [|discriminate].
  destruct (I_from_str_radix_panic Hadd Hbit Htz Hneg Hisneg dbg w n s r Hw H8 Hn) as ((Hp & _) & _).
  destruct (I_from_str_radix dbg w n s r); cbn [pok]; try discriminate. intros _. apply Hp. reflexivity.
Qed.

(* parse_str_radix unwraps from_str_radix and panics on Err *)
Theorem U_parse_str_radix_def dbg w n s r :
  U_parse_str_radix dbg w n s r = match U_from_str_radix dbg w n s r with PErr _ => PPanic | x => x end.
Proof. reflexivity. Qed.
Theorem I_parse_str_radix_def dbg w n s r :
  I_parse_str_radix dbg w n s r = match I_from_str_radix dbg w n s r with PErr _ => PPanic | x => x end.
Proof. reflexivity. Qed.

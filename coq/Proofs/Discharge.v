(* Proofs/Discharge.v — the premises that property developments took as explicit `_spec`
   Definitions (because the facts were being proved in parallel) discharged by the real theorems. *)
From Bnum Require Import Base Prim.
From Bnum.Model Require Import Digit Core Shift AddSub Mul Div Bits Pow.
From Bnum.Proofs Require Import Mul PowDeps.

Lemma mul_spec_holds : mul_spec.
Proof. exact long_mul_ok. Qed.

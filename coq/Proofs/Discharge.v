(* Proofs/Discharge.v — the premises that property developments took as explicit `_spec`
   Definitions (because the facts were being proved in parallel) discharged by the real theorems. *)
From Bnum Require Import Base Prim.
From Bnum.Model Require Import Digit Core Shift AddSub Mul Div Bits Pow.
From Bnum.Proofs Require Import Mul PowDeps DivSpec DivDigit Div.

Lemma mul_spec_holds : mul_spec.
Proof. exact long_mul_ok. Qed.

Lemma div_spec_holds : div_spec.
Proof.
  intros w n a b Hw Ha Hb Hnz. pose proof (U_div_rem_unchecked_ok w Hw n a b Ha Hb Hnz) as H.
  destruct (U_div_rem_unchecked w a b) as [q r]. exact H.
Qed.

Lemma div_digit_spec_holds : div_digit_spec.
Proof.
  intros w n a d Hw Ha Hd. pose proof (div_rem_digit_ok w n a d Hw Ha Hd) as H.
  destruct (div_rem_digit w a d) as [q r]. exact H.
Qed.

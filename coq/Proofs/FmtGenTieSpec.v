(* Proofs/FmtGenTieSpec.v — the tie of Proofs/FmtGenTie.v composed with the C12 theorems of Proofs/Fmt.v: the formatting code
   GENERATED from /repo/src/buint/fmt.rs and /repo/src/bint/fmt.rs returns `Done` of the triple the specification prescribes
   (canonical numeral of the value / of the two's complement pattern / sign + canonical numeral of the magnitude), for every
   well-formed operand, every budget and (signed sign+magnitude forms) every std padder that is the identity without flags.
   Side conditions as in Properties/C12.v: hex needs w a positive multiple of 4, binary w > 0, the forms through to_str_radix
   w >= 8; the signed decimal forms 0 < n. *)
From Bnum Require Import Base Prim.
From Bnum.Model Require Import Digit Core Imp ImpFmt RadixOut Fmt.
From Bnum.Generated Require Import FmtGen.
From Bnum.Proofs Require Import RadixSpec Fmt FmtGenTie.

Lemma of_oo_done {A} (x : option (outcome A)) t : x = Some (Ret t) -> of_oo x = Done t.
Proof. intros ->. reflexivity. Qed.

Section Spec.
Context (w : Z) (n : nat) (N : Z) (fuel : nat) (a : list Z).

Lemma gen_U_LowerHex_spec : 0 < w -> w mod 4 = 0 -> wf w n a -> forall ds, canonical_le 16 (uval w a) ds ->
  FmtGen.U_fmt_LowerHex w N fuel a = Done (true, str_0x, map ascii_lower (rev ds)).
Proof. intros Hw Hm Ha ds C. rewrite gen_U_fmt_LowerHex. apply of_oo_done. exact (U_fmt_LowerHex_ok w n a Hw Hm Ha ds C). Qed.

Lemma gen_U_UpperHex_spec : 0 < w -> w mod 4 = 0 -> wf w n a -> forall ds, canonical_le 16 (uval w a) ds ->
  FmtGen.U_fmt_UpperHex w N fuel a = Done (true, str_0x, map ascii_upper (rev ds)).
Proof. intros Hw Hm Ha ds C. rewrite gen_U_fmt_UpperHex. apply of_oo_done. exact (U_fmt_UpperHex_ok w n a Hw Hm Ha ds C). Qed.

Lemma gen_U_Binary_spec : 0 < w -> wf w n a -> forall ds, canonical_le 2 (uval w a) ds ->
  FmtGen.U_fmt_Binary w N fuel a = Done (true, str_0b, map ascii_lower (rev ds)).
Proof. intros Hw Ha ds C. rewrite gen_U_fmt_Binary. apply of_oo_done. exact (U_fmt_Binary_ok w n a Hw Ha ds C). Qed.

Lemma gen_U_Octal_spec : 8 <= w -> wf w n a -> forall ds, canonical_le 8 (uval w a) ds ->
  FmtGen.U_fmt_Octal w N fuel a = Done (true, str_0o, map ascii_lower (rev ds)).
Proof. intros Hw Ha ds C. rewrite gen_U_fmt_Octal. apply of_oo_done. exact (U_fmt_Octal_ok w n a Hw Ha ds C). Qed.

Lemma gen_U_Display_spec : 8 <= w -> wf w n a -> forall ds, canonical_le 10 (uval w a) ds ->
  FmtGen.U_fmt_Display w N fuel a = Done (true, [], map ascii_lower (rev ds)).
Proof. intros Hw Ha ds C. rewrite gen_U_fmt_Display. apply of_oo_done. exact (U_fmt_Display_ok w n a Hw Ha ds C). Qed.

Lemma gen_U_Debug_spec : 8 <= w -> wf w n a -> forall ds, canonical_le 10 (uval w a) ds ->
  FmtGen.U_fmt_Debug w N fuel a = Done (true, [], map ascii_lower (rev ds)).
Proof. intros Hw Ha ds C. rewrite gen_U_fmt_Debug. apply of_oo_done. exact (U_fmt_Display_ok w n a Hw Ha ds C). Qed.

Lemma gen_U_LowerExp_spec : 8 <= w -> wf w n a ->
  exists body, FmtGen.U_fmt_LowerExp w N fuel a = Done (true, [], body) /\ exp_body_spec 101 (uval w a) body.
Proof.
  intros Hw Ha. destruct (exp_fmt_ok 101 w n a Hw Ha) as (body & E & S). exists body. split; [|exact S].
  rewrite gen_U_fmt_LowerExp. apply of_oo_done. exact E.
Qed.

Lemma gen_U_UpperExp_spec : 8 <= w -> wf w n a ->
  exists body, FmtGen.U_fmt_UpperExp w N fuel a = Done (true, [], body) /\ exp_body_spec 69 (uval w a) body.
Proof.
  intros Hw Ha. destruct (exp_fmt_ok 69 w n a Hw Ha) as (body & E & S). exists body. split; [|exact S].
  rewrite gen_U_fmt_UpperExp. apply of_oo_done. exact E.
Qed.

Lemma gen_I_LowerHex_spec : 0 < w -> w mod 4 = 0 -> wf w n a -> forall ds, canonical_le 16 (sval w a mod Mod w n) ds ->
  FmtGen.I_fmt_LowerHex w N fuel a = Done (true, str_0x, map ascii_lower (rev ds)).
Proof. intros Hw Hm Ha ds C. rewrite gen_I_fmt_LowerHex. apply of_oo_done. exact (I_fmt_LowerHex_ok w n a Hw Hm Ha ds C). Qed.

Lemma gen_I_UpperHex_spec : 0 < w -> w mod 4 = 0 -> wf w n a -> forall ds, canonical_le 16 (sval w a mod Mod w n) ds ->
  FmtGen.I_fmt_UpperHex w N fuel a = Done (true, str_0x, map ascii_upper (rev ds)).
Proof. intros Hw Hm Ha ds C. rewrite gen_I_fmt_UpperHex. apply of_oo_done. exact (I_fmt_UpperHex_ok w n a Hw Hm Ha ds C). Qed.

Lemma gen_I_Binary_spec : 0 < w -> wf w n a -> forall ds, canonical_le 2 (sval w a mod Mod w n) ds ->
  FmtGen.I_fmt_Binary w N fuel a = Done (true, str_0b, map ascii_lower (rev ds)).
Proof. intros Hw Ha ds C. rewrite gen_I_fmt_Binary. apply of_oo_done. exact (I_fmt_Binary_ok w n a Hw Ha ds C). Qed.

Lemma gen_I_Octal_spec : 8 <= w -> wf w n a -> forall ds, canonical_le 8 (sval w a mod Mod w n) ds ->
  FmtGen.I_fmt_Octal w N fuel a = Done (true, str_0o, map ascii_lower (rev ds)).
Proof. intros Hw Ha ds C. rewrite gen_I_fmt_Octal. apply of_oo_done. exact (I_fmt_Octal_ok w n a Hw Ha ds C). Qed.

Lemma gen_I_Display_spec pad : pad_noflags_id pad -> 8 <= w -> (0 < n)%nat -> wf w n a ->
  forall ds, canonical_le 10 (Z.abs (sval w a)) ds ->
  FmtGen.I_fmt_Display w N fuel pad a = Done (0 <=? sval w a, [], map ascii_lower (rev ds)).
Proof.
  intros Hp Hw Hn Ha ds C. rewrite gen_I_fmt_Display. apply of_oo_done. exact (I_fmt_Display_ok pad w n a Hp Hw Hn Ha ds C).
Qed.

Lemma gen_I_Debug_spec pad : pad_noflags_id pad -> 8 <= w -> (0 < n)%nat -> wf w n a ->
  forall ds, canonical_le 10 (Z.abs (sval w a)) ds ->
  FmtGen.I_fmt_Debug w N fuel pad a = Done (0 <=? sval w a, [], map ascii_lower (rev ds)).
Proof.
  intros Hp Hw Hn Ha ds C. rewrite gen_I_fmt_Debug. apply of_oo_done. exact (I_fmt_Display_ok pad w n a Hp Hw Hn Ha ds C).
Qed.

Lemma gen_I_LowerExp_spec pad : pad_noflags_id pad -> 8 <= w -> (0 < n)%nat -> wf w n a ->
  exists body, FmtGen.I_fmt_LowerExp w N fuel pad a = Done (0 <=? sval w a, [], body) /\
               exp_body_spec 101 (Z.abs (sval w a)) body.
Proof.
  intros Hp Hw Hn Ha. destruct (I_exp_fmt_ok pad 101 w n a Hp Hw Hn Ha) as (body & E & S). exists body. split; [|exact S].
  rewrite gen_I_fmt_LowerExp. apply of_oo_done. exact E.
Qed.

Lemma gen_I_UpperExp_spec pad : pad_noflags_id pad -> 8 <= w -> (0 < n)%nat -> wf w n a ->
  exists body, FmtGen.I_fmt_UpperExp w N fuel pad a = Done (0 <=? sval w a, [], body) /\
               exp_body_spec 69 (Z.abs (sval w a)) body.
Proof.
  intros Hp Hw Hn Ha. destruct (I_exp_fmt_ok pad 69 w n a Hp Hw Hn Ha) as (body & E & S). exists body. split; [|exact S].
  rewrite gen_I_fmt_UpperExp. apply of_oo_done. exact E.
Qed.

End Spec.

(* the generated code meets the C12 specification: one statement *)
Theorem fmt_C12_generated_meets_spec : forall (w : Z) (n : nat) (N : Z) (fuel : nat) (a : list Z), wf w n a ->
  (0 < w -> forall ds, canonical_le 2 (uval w a) ds ->
     FmtGen.U_fmt_Binary w N fuel a = Done (true, str_0b, map ascii_lower (rev ds))) /\
  (0 < w -> w mod 4 = 0 -> forall ds, canonical_le 16 (uval w a) ds ->
     FmtGen.U_fmt_LowerHex w N fuel a = Done (true, str_0x, map ascii_lower (rev ds)) /\
     FmtGen.U_fmt_UpperHex w N fuel a = Done (true, str_0x, map ascii_upper (rev ds))) /\
  (8 <= w -> forall ds, canonical_le 8 (uval w a) ds ->
     FmtGen.U_fmt_Octal w N fuel a = Done (true, str_0o, map ascii_lower (rev ds))) /\
  (8 <= w -> forall ds, canonical_le 10 (uval w a) ds ->
     FmtGen.U_fmt_Display w N fuel a = Done (true, [], map ascii_lower (rev ds)) /\
     FmtGen.U_fmt_Debug w N fuel a = Done (true, [], map ascii_lower (rev ds))) /\
  (8 <= w ->
     (exists body, FmtGen.U_fmt_LowerExp w N fuel a = Done (true, [], body) /\ exp_body_spec 101 (uval w a) body) /\
     (exists body, FmtGen.U_fmt_UpperExp w N fuel a = Done (true, [], body) /\ exp_body_spec 69 (uval w a) body)) /\
  (0 < w -> forall ds, canonical_le 2 (sval w a mod Mod w n) ds ->
     FmtGen.I_fmt_Binary w N fuel a = Done (true, str_0b, map ascii_lower (rev ds))) /\
  (0 < w -> w mod 4 = 0 -> forall ds, canonical_le 16 (sval w a mod Mod w n) ds ->
     FmtGen.I_fmt_LowerHex w N fuel a = Done (true, str_0x, map ascii_lower (rev ds)) /\
     FmtGen.I_fmt_UpperHex w N fuel a = Done (true, str_0x, map ascii_upper (rev ds))) /\
  (8 <= w -> forall ds, canonical_le 8 (sval w a mod Mod w n) ds ->
     FmtGen.I_fmt_Octal w N fuel a = Done (true, str_0o, map ascii_lower (rev ds))) /\
  (forall pad, pad_noflags_id pad -> 8 <= w -> (0 < n)%nat ->
     (forall ds, canonical_le 10 (Z.abs (sval w a)) ds ->
        FmtGen.I_fmt_Display w N fuel pad a = Done (0 <=? sval w a, [], map ascii_lower (rev ds)) /\
        FmtGen.I_fmt_Debug w N fuel pad a = Done (0 <=? sval w a, [], map ascii_lower (rev ds))) /\
     (exists body, FmtGen.I_fmt_LowerExp w N fuel pad a = Done (0 <=? sval w a, [], body) /\
                   exp_body_spec 101 (Z.abs (sval w a)) body) /\
     (exists body, FmtGen.I_fmt_UpperExp w N fuel pad a = Done (0 <=? sval w a, [], body) /\
                   exp_body_spec 69 (Z.abs (sval w a)) body)).
Proof.
  intros w n N fuel a Ha.
  split; [intros Hw ds C; exact (gen_U_Binary_spec w n N fuel a Hw Ha ds C)|].
  split; [intros Hw Hm ds C; split;
          [exact (gen_U_LowerHex_spec w n N fuel a Hw Hm Ha ds C) | exact (gen_U_UpperHex_spec w n N fuel a Hw Hm Ha ds C)]|].
  split; [intros Hw ds C; exact (gen_U_Octal_spec w n N fuel a Hw Ha ds C)|].
  split; [intros Hw ds C; split;
          [exact (gen_U_Display_spec w n N fuel a Hw Ha ds C) | exact (gen_U_Debug_spec w n N fuel a Hw Ha ds C)]|].
  split; [intros Hw; split;
          [exact (gen_U_LowerExp_spec w n N fuel a Hw Ha) | exact (gen_U_UpperExp_spec w n N fuel a Hw Ha)]|].
  split; [intros Hw ds C; exact (gen_I_Binary_spec w n N fuel a Hw Ha ds C)|].
  split; [intros Hw Hm ds C; split;
          [exact (gen_I_LowerHex_spec w n N fuel a Hw Hm Ha ds C) | exact (gen_I_UpperHex_spec w n N fuel a Hw Hm Ha ds C)]|].
  split; [intros Hw ds C; exact (gen_I_Octal_spec w n N fuel a Hw Ha ds C)|].
  intros pad Hp Hw Hn.
  split; [intros ds C; split;
          [exact (gen_I_Display_spec w n N fuel a pad Hp Hw Hn Ha ds C) | exact (gen_I_Debug_spec w n N fuel a pad Hp Hw Hn Ha ds C)]|].
  split; [exact (gen_I_LowerExp_spec w n N fuel a pad Hp Hw Hn Ha) | exact (gen_I_UpperExp_spec w n N fuel a pad Hp Hw Hn Ha)].
Qed.

(* Proofs/ParseGenTieC.v — tie of the generated parsing code (Generated/ParseGen.v), part C: the general arm of
   from_buf_radix_internal (radix_base-chunked Horner evaluation) equals the hand-written model Model/Parse.v, and the
   tie of the whole function. *)
From Bnum Require Import Base Prim.
From Bnum.Model Require Import Digit DigitPrims LoopPrims Core AddSub Imp ImpParse Parse.
From Bnum.Generated Require Import DigitGen ParseGen.
From Bnum.Proofs Require Import ImpLemmas ImpLemmas2 ParseGenTieA ParseGenTieB.
From Bnum.Proofs Require Import ParseSpec.
From Bnum.Proofs Require DigitTie AddSub ParseArith.

(* ---------- digit `*` and `+` ---------- *)

Lemma dmul_d_mul dbg w a b : dmul dbg w a b = match d_mul dbg w a b with POk x => Done x | _ => Panicked end.
Proof. unfold dmul, d_mul. destruct (a * b <? B w); [reflexivity|]. destruct dbg; reflexivity. Qed.

Lemma dadd_d_add dbg w a b : dadd dbg w a b = match d_add dbg w a b with POk x => Done x | _ => Panicked end.
Proof. unfold dadd, d_add. destruct (a + b <? B w); [reflexivity|]. destruct dbg; reflexivity. Qed.

Lemma d_mul_res dbg w a b : 0 < w -> 0 <= a -> 0 <= b ->
  (exists m, d_mul dbg w a b = POk m /\ 0 <= m < B w) \/ d_mul dbg w a b = PPanic.
Proof.
  intros Hw Ha Hb. unfold d_mul. pose proof (B_pos w ltac:(lia)).
  destruct (Z.ltb_spec (a * b) (B w)); [left; eexists; split; [reflexivity | nia]|].
  destruct dbg; [right; reflexivity | left; eexists; split; [reflexivity | apply Z.mod_pos_bound; lia]].
Qed.

Lemma d_add_res dbg w a b : 0 < w -> 0 <= a -> 0 <= b ->
  (exists m, d_add dbg w a b = POk m /\ 0 <= m < B w) \/ d_add dbg w a b = PPanic.
Proof.
  intros Hw Ha Hb. unfold d_add. pose proof (B_pos w ltac:(lia)).
  destruct (Z.ltb_spec (a + b) (B w)); [left; eexists; split; [reflexivity | lia]|].
  destruct dbg; [right; reflexivity | left; eexists; split; [reflexivity | apply Z.mod_pos_bound; lia]].
Qed.

(* ---------- acc_digits: `acc = acc * (radix as Digit) + d as Digit` over a run of input digits ---------- *)

Lemma acc_digits_res fs be dbg w radix ru8 buf : 0 < w -> bytes buf ->
  forall count i acc, 0 <= acc < B w ->
  match acc_digits fs be dbg w radix ru8 buf i count acc with
  | POk a => 0 <= a < B w
  | PErr k => k = InvalidDigit
  | PPanic => True
  | PFuel => False
  end.
Proof.
  intros Hw Hbuf. pose proof (B_pos w ltac:(lia)) as HB.
  induction count as [|c IH]; intros i acc Hacc; cbn [acc_digits]; [exact Hacc|].
  destruct (rd_cases buf (msd_idx be buf i)) as [[b E]|E]; rewrite E; cbn [pbind]; [|exact I]. cbv zeta.
  destruct (ru8 <=? Parse.byte_to_digit fs b); [reflexivity|].
  pose proof (byte_to_digit_range fs b (rd_bytes _ _ _ Hbuf E)) as Hd.
  destruct (d_mul_res dbg w acc (radix mod B w) Hw ltac:(lia) ltac:(apply Z.mod_pos_bound; lia)) as [(m & Em & Hm)|Em];
    rewrite Em; cbn [pbind]; [|exact I].
  destruct (d_add_res dbg w m (Parse.byte_to_digit fs b) Hw ltac:(lia) ltac:(lia)) as [(a & Ea & Ha)|Ea];
    rewrite Ea; cbn [pbind]; [|exact I].
  apply IH. exact Ha.
Qed.

Lemma sim_acc_digits {A} (fs be dbg : bool) w radix ru8 buf
      (cond : Z * Z -> bool) (body : Z * Z -> res (flow (Z * Z) (result A))) ilo iend :
  (forall acc i, ilo <= i < iend -> cond (acc, i) = true) ->
  (forall acc, cond (acc, iend) = false) ->
  (forall acc i, ilo <= i < iend ->
     body (acc, i) =
     match rd buf (msd_idx be buf i) with
     | POk b => let d := Parse.byte_to_digit fs b in
                if ru8 <=? d then Done (Return (RErr KInvalidDigit))
                else match d_mul dbg w acc (radix mod B w) with
                     | POk m => match d_add dbg w m d with
                                | POk a => Done (Continue (a, i + 1))
                                | _ => Panicked
                                end
                     | _ => Panicked
                     end
     | _ => Panicked
     end) ->
  forall count i0 acc fuel, ilo <= i0 -> i0 + Z.of_nat count = iend -> (count <= fuel)%nat ->
  while_loop fuel cond body (acc, i0) =
  match acc_digits fs be dbg w radix ru8 buf i0 count acc with
  | POk a => Done (Exited (a, iend))
  | PErr _ => Done (Returned (RErr KInvalidDigit))
  | _ => Panicked
  end.
Proof.
  intros Hct Hcf Hb. induction count as [|c IH]; intros i0 acc fuel Hlo Hend Hf.
  - replace i0 with iend by lia. rewrite while_loop_cond_false by apply Hcf. reflexivity.
  - destruct fuel as [|fuel]; [lia|]. rewrite while_loop_S, Hct by lia. rewrite Hb by lia.
    cbn [acc_digits]. destruct (rd_cases buf (msd_idx be buf i0)) as [[b E]|E]; rewrite E; cbn [pbind]; [|reflexivity].
    cbv zeta. destruct (ru8 <=? Parse.byte_to_digit fs b); [reflexivity|].
    destruct (d_mul dbg w acc (radix mod B w)) as [m|k| |] eqn:Em; cbn [pbind]; try reflexivity;
      [|unfold d_mul in Em; destruct (_ <? _); [discriminate | destruct dbg; discriminate]].
    destruct (d_add dbg w m (Parse.byte_to_digit fs b)) as [a|k| |] eqn:Ea; cbn [pbind]; try reflexivity;
      [|unfold d_add in Ea; destruct (_ <? _); [discriminate | destruct dbg; discriminate]].
    apply IH; lia.
Qed.

(* ---------- mul_small: `while j < N { (low, high) = carrying_mul(out[j], base, carry, 0); carry = high; out[j] = low }` ---------- *)

Lemma carrying_mul_ok w a b c d : 0 < w ->
  digit_ok w (fst (carrying_mul w a b c d)) /\ digit_ok w (snd (carrying_mul w a b c d)).
Proof.
  intros Hw. pose proof (B_pos w ltac:(lia)). unfold carrying_mul, digit_ok. cbn [fst snd].
  split; apply Z.mod_pos_bound; lia.
Qed.

Lemma sim_mul_small {R} w base (cond : list Z * Z * Z -> bool)
      (body : list Z * Z * Z -> res (flow (list Z * Z * Z) R)) (n : nat) : 0 < w ->
  (forall out c j, cond (out, c, j) = (j <? Z.of_nat n)) ->
  (forall out c (j : nat), (j < n)%nat -> length out = n -> digit_ok w c -> Forall (digit_ok w) out ->
     body (out, c, Z.of_nat j) =
     Done (Continue (list_set out j (fst (carrying_mul w (nth j out 0) base c 0)),
                     snd (carrying_mul w (nth j out 0) base c 0), Z.of_nat j + 1))) ->
  forall rest pre c fuel, length (pre ++ rest) = n -> (length rest <= fuel)%nat -> digit_ok w c ->
  Forall (digit_ok w) (pre ++ rest) ->
  while_loop fuel cond body (pre ++ rest, c, Z.of_nat (length pre)) =
  Done (Exited (pre ++ fst (mul_small w rest base c), snd (mul_small w rest base c), Z.of_nat n)).
Proof.
  intros Hw Hc Hb. induction rest as [|d rest IH]; intros pre c fuel Hlen Hf Hcok Hall.
  - rewrite app_nil_r in *. rewrite while_loop_cond_false by (rewrite Hc; apply Z.ltb_ge; lia).
    cbn [mul_small fst snd]. rewrite app_nil_r. rewrite Hlen. reflexivity.
  - cbn [length] in Hf. destruct fuel as [|fuel]; [lia|]. rewrite while_loop_S, Hc.
    rewrite app_length in Hlen. cbn [length] in Hlen.
    destruct (Z.ltb_spec (Z.of_nat (length pre)) (Z.of_nat n)); [|lia].
    rewrite Hb by (try rewrite app_length; cbn [length]; try lia; assumption).
    rewrite app_nth2 by lia. rewrite Nat.sub_diag. cbn [nth].
    pose proof (carrying_mul_ok w d base c 0 Hw) as [Hlo Hhi].
    cbn [mul_small]. destruct (carrying_mul w d base c 0) as [low high]. cbn [fst snd] in *.
    assert (Hset : list_set (pre ++ d :: rest) (length pre) low = (pre ++ [low]) ++ rest).
    { rewrite list_set_split by (rewrite app_length; cbn [length]; lia).
      rewrite firstn_app, Nat.sub_diag, firstn_all. cbn [firstn]. rewrite app_nil_r.
      rewrite skipn_app, skipn_all2 by lia. replace (S (length pre) - length pre)%nat with 1%nat by lia.
      cbn [skipn]. rewrite <- app_assoc. reflexivity. }
    rewrite Hset. replace (Z.of_nat (length pre) + 1) with (Z.of_nat (length (pre ++ [low])))
      by (rewrite app_length; cbn [length]; lia).
    rewrite IH.
    + destruct (mul_small w rest base high) as [r' c']. cbn [fst snd]. rewrite <- app_assoc. reflexivity.
    + rewrite !app_length. cbn [length]. lia.
    + lia.
    + exact Hhi.
    + apply Forall_app in Hall. destruct Hall as [Hp Hr]. inversion Hr; subst.
      apply Forall_app. split; [apply Forall_app; split; [exact Hp | constructor; [exact Hlo | constructor]] | assumption].
Qed.

(* `buf[if BE { i } else { buf.len() - 1 - i }]` in the shape the translator emits *)
Lemma msd_arr_get_rd {A} (be : bool) buf i (k : Z -> res A) : 0 <= i ->
  bind (if be then Done i else bind (usub (blen buf) 1) (fun t => bind (usub t i) (fun t2 => Done t2)))
       (fun t3 => bind (arr_get buf t3) k)
  = match rd buf (msd_idx be buf i) with POk x => k x | _ => Panicked end.
Proof.
  intros Hi. unfold msd_idx. destruct be; [rewrite bind_Done; apply arr_get_rd | apply usub2_arr_get_rd'; exact Hi].
Qed.

(* ---------- the chunk loop: `while start < buf.len() { out *= base; out += next chunk; start = end }` ---------- *)

Lemma sim_chunk_loop (fs be dbg : bool) w (n : nat) radix ru8 base power buf
      (cond : list Z * Z -> bool) (body : list Z * Z -> res (flow (list Z * Z) (result (list Z))))
      (after : loop_exit (list Z * Z) (result (list Z)) -> res (result (list Z))) :
  0 < w -> (0 < n)%nat -> 0 <= base < B w -> bytes buf -> 1 <= power ->
  (forall out start, cond (out, start) = (start <? blen buf)) ->
  (forall out start, wf w n out -> 0 <= start < blen buf ->
     body (out, start) =
     if negb (snd (mul_small w out base 0) =? 0) then
       match check_digits fs (msd_idx be buf) ru8 buf start (Z.to_nat (Z.min (blen buf) (start + power) - start)) with
       | POk _ => Done (Return (RErr KPosOverflow))
       | PErr _ => Done (Return (RErr KInvalidDigit))
       | _ => Panicked
       end
     else
       match acc_digits fs be dbg w radix ru8 buf start (Z.to_nat (Z.min (start + power) (blen buf) - start)) 0 with
       | POk nn => match U_checked_add w (fst (mul_small w out base 0)) (from_digit n nn) with
                   | Some out2 => Done (Continue (out2, start + power))
                   | None => Done (Return (RErr KPosOverflow))
                   end
       | PErr _ => Done (Return (RErr KInvalidDigit))
       | _ => Panicked
       end) ->
  (forall o s, after (Exited (o, s)) = Done (ROk o)) ->
  (forall r, after (Returned r) = Done r) ->
  forall f fuel out start, wf w n out -> 0 <= start -> blen buf - start <= Z.of_nat f -> (f <= fuel)%nat ->
  pout_of (bind (while_loop fuel cond body (out, start)) after)
  = chunk_loop f fs be dbg w n radix ru8 base power buf out start.
Proof.
  intros Hw Hn Hbase Hbuf Hpow Hc Hb Ha1 Ha2. pose proof (B_pos w ltac:(lia)) as HB.
  induction f as [|f IH]; intros fuel out start Hwf Hs Hlen Hf.
  - cbn [chunk_loop]. destruct (Z.ltb_spec start (blen buf)); [lia|].
    rewrite while_loop_cond_false by (rewrite Hc; apply Z.ltb_ge; lia). rewrite bind_Done, Ha1. reflexivity.
  - cbn [chunk_loop]. destruct (Z.ltb_spec start (blen buf)) as [Hlt|Hge].
    2:{ rewrite while_loop_cond_false by (rewrite Hc; apply Z.ltb_ge; lia). rewrite bind_Done, Ha1. reflexivity. }
    destruct fuel as [|fuel]; [lia|]. rewrite while_loop_S, Hc.
    destruct (Z.ltb_spec start (blen buf)); [|lia]. rewrite Hb by (assumption || lia).
    pose proof (ParseArith.mul_small_spec w base Hw Hbase n out 0 Hwf ltac:(lia)) as Hms.
    destruct (mul_small w out base 0) as [out1 carry]. destruct Hms as (Hwf1 & _ & _). cbn [fst snd].
    destruct (negb (carry =? 0)).
    + pose proof (check_digits_inv fs (msd_idx be buf) ru8 buf (Z.to_nat (Z.min (blen buf) (start + power) - start)) start) as Hinv.
      destruct (check_digits _ _ _ _ _ _) as [u|k| |]; cbn [inv_only] in Hinv; try subst k; try contradiction;
        cbn [pbind bind]; rewrite ?Ha2; reflexivity.
    + pose proof (acc_digits_res fs be dbg w radix ru8 buf Hw Hbuf (Z.to_nat (Z.min (start + power) (blen buf) - start)) start 0 ltac:(lia)) as Hres.
      destruct (acc_digits _ _ _ _ _ _ _ _ _ _) as [nn|k| |]; try subst k; try contradiction;
        cbn [pbind bind]; rewrite ?Ha2; try reflexivity.
      pose proof (AddSub.U_overflowing_add_ok w n out1 (from_digit n nn) Hw Hwf1
                    (proj1 (ParseArith.from_digit_wf w n nn ltac:(lia) Hn Hres))) as Hadd.
      unfold U_checked_add, tuple_to_option. destruct (U_overflowing_add w out1 (from_digit n nn)) as [r fl].
      destruct Hadd as (Hwf2 & _ & _). cbn [fst snd]. destruct fl; [cbn [bind]; rewrite Ha2; reflexivity|].
      apply IH; try assumption; lia.
Qed.

(* ---------- the general arm ---------- *)
Lemma gen_internal_general (fs be dbg : bool) w n buf radix (sign : bool) fuel :
  8 <= w -> 2 <= radix < 256 -> ~ pow2_radix radix -> bytes buf -> (sign = true -> (1 <= length buf)%nat) ->
  (length buf + n + Z.to_nat w + 2 <= fuel)%nat ->
  pout_of (ParseGen.from_buf_radix_internal dbg w (Z.of_nat n) fuel fs be buf radix sign)
  = Parse.from_buf_radix_internal fs be dbg w n buf radix sign.
Proof.
  intros Hw Hrad Hnp Hbytes Hsign Hfuel.
  assert (Ht : (radix =? 2) || (radix =? 4) || (radix =? 16) || (radix =? 256) = false).
  { unfold pow2_radix in Hnp. destruct (Z.eqb_spec radix 2), (Z.eqb_spec radix 4), (Z.eqb_spec radix 16), (Z.eqb_spec radix 256);
      try reflexivity; exfalso; apply Hnp; auto. }
  assert (Ht2 : orb (radix =? 2) (orb (radix =? 4) (orb (radix =? 16) (radix =? 256))) = false).
  { rewrite <- Ht. rewrite !orb_assoc. reflexivity. }
  unfold ParseGen.from_buf_radix_internal, Parse.from_buf_radix_internal.
  change (Z.of_nat (length buf)) with (blen buf). cbv zeta.
  rewrite Ht, Ht2. destruct (Z.eqb_spec radix 0) as [|_]; [lia|].
  destruct (sign && (blen buf =? 1)) eqn:E1; [reflexivity|].
  set (idl0 := if sign then blen buf - 1 else blen buf).
  assert (Hidl0 : 0 <= idl0 <= blen buf).
  { unfold idl0, blen. destruct sign; [specialize (Hsign eq_refl)|]; lia. }
  assert (E2 : (if sign then bind (usub (blen buf) 1) (fun t1' => Done t1') else Done (blen buf)) = Done idl0).
  { unfold idl0. destruct sign; [|reflexivity]. rewrite usub_ok by (specialize (Hsign eq_refl); unfold blen; lia). reflexivity. }
  rewrite E2. rewrite bind_Done. clear E2.
  assert (HB : 256 <= B w). { unfold B. change 256 with (2 ^ 8). apply Z.pow_le_mono_r; lia. }
  destruct (ParseArith.radix_base_spec w radix ltac:(lia) ltac:(lia)) as (base & power & Erb & Hp1 & Hbase & Hblt & Hbge).
  rewrite Erb. rewrite (gen_radix_base w _ fuel radix (base, power)) by (lia || exact Erb). rewrite bind_Done. cbv beta iota.
  assert (Hpw : power < w).
  { apply (Z.pow_lt_mono_r_iff 2); [lia | lia|]. fold (B w).
    assert (2 ^ power <= radix ^ power) by (apply Z.pow_le_mono_l; lia). lia. }
  unfold urem. destruct (Z.eqb_spec power 0) as [|_]; [lia|]. rewrite bind_Done.
  set (r := idl0 mod power). set (split := if r =? 0 then power else r).
  assert (Hr : 0 <= r < power) by (apply Z.mod_pos_bound; lia).
  assert (Hsplit : 1 <= split <= power) by (unfold split; destruct (Z.eqb_spec r 0); lia).
  set (i00 := if sign then 1 else 0). assert (Hi00 : 0 <= i00 <= 1) by (unfold i00; destruct sign; lia).
  assert (Hru8 : to_u8 radix = radix mod 256) by reflexivity. rewrite Hru8. set (ru8 := radix mod 256).
  assert (Hud : ud w radix = radix mod B w) by reflexivity. rewrite Hud.
  (* one iteration of the two accumulating loops *)
  assert (Hacc : forall (acc i : Z), 0 <= i ->
    (t69' <- (if be then Done i else (t67' <- usub (blen buf) 1 ;; t68' <- usub t67' i ;; Done t68')) ;;
     t70' <- arr_get buf t69' ;;
     t71' <- ParseGen.byte_to_digit w (Z.of_nat n) fuel fs t70' ;;
     if t71' >=? ru8 then Done (Return (RErr KInvalidDigit))
     else (t72' <- dmul dbg w acc (radix mod B w) ;;
           first0 <- dadd dbg w t72' (ud w t71') ;;
           Done (Continue (first0, i + 1)))) =
    match rd buf (msd_idx be buf i) with
    | POk b => let d := Parse.byte_to_digit fs b in
               if ru8 <=? d then Done (Return (RErr (A := list Z) KInvalidDigit))
               else match d_mul dbg w acc (radix mod B w) with
                    | POk m => match d_add dbg w m d with
                               | POk a => Done (Continue (a, i + 1))
                               | _ => Panicked
                               end
                    | _ => Panicked
                    end
    | _ => Panicked
    end).
  { intros acc i Hi. rewrite msd_arr_get_rd by exact Hi.
    destruct (rd buf (msd_idx be buf i)) as [b| | |] eqn:Erd; try reflexivity.
    rewrite gen_byte_to_digit, bind_Done. cbv zeta. rewrite Z.geb_leb.
    destruct (ru8 <=? Parse.byte_to_digit fs b); [reflexivity|].
    pose proof (byte_to_digit_range fs b (rd_bytes _ _ _ Hbytes Erd)) as Hd.
    rewrite dmul_d_mul. destruct (d_mul dbg w acc (radix mod B w)) as [m| | |]; try reflexivity.
    rewrite bind_Done, dadd_d_add. unfold ud. rewrite (Z.mod_small (Parse.byte_to_digit fs b)) by lia.
    destruct (d_add dbg w m (Parse.byte_to_digit fs b)); reflexivity. }
  (* the first chunk *)
  match goal with |- context [while_loop fuel ?c ?b (0, i00)] =>
    assert (HF : while_loop fuel c b (0, i00) =
                 match acc_digits fs be dbg w radix ru8 buf i00 (Z.to_nat split) 0 with
                 | POk a => Done (Exited (a, i00 + split))
                 | PErr _ => Done (Returned (RErr KInvalidDigit))
                 | _ => Panicked end) end.
  { apply (sim_acc_digits fs be dbg w radix ru8 buf _ _ i00 (i00 + split)).
    - intros acc i Hi. cbv beta iota. unfold i00 in *. destruct sign; lia.
    - intros acc. cbv beta iota. unfold i00 in *. destruct sign; lia.
    - intros acc i Hi. cbv beta iota. apply Hacc. lia.
    - lia.
    - lia.
    - lia. }
  rewrite HF. clear HF.
  pose proof (acc_digits_res fs be dbg w radix ru8 buf ltac:(lia) Hbytes (Z.to_nat split) i00 0 ltac:(lia)) as Hres.
  destruct (acc_digits fs be dbg w radix ru8 buf i00 (Z.to_nat split) 0) as [first|k| |]; try subst k; try contradiction;
    try reflexivity.
  rewrite bind_Done. cbv beta iota. cbn [pbind]. rewrite Nat2Z.id.
  destruct n as [|k]; [reflexivity|].
  unfold ZERO. rewrite arr_set_ok by (cbn [repeat length]; lia). rewrite bind_Done. cbn [Z.to_nat repeat list_set].
  apply (sim_chunk_loop fs be dbg w (S k) radix ru8 base power buf); try lia; try assumption.
  - intros out start Hwf Hst. cbv beta iota. destruct Hwf as [Hlen Hall].
    (* out *= base *)
    match goal with |- context [while_loop fuel ?c ?b (out, 0, 0)] =>
      assert (HM : while_loop fuel c b (out, 0, 0) =
                   Done (Exited (fst (mul_small w out base 0), snd (mul_small w out base 0), Z.of_nat (S k)))) end.
    { apply (sim_mul_small w base _ _ (S k) ltac:(lia)) with (pre := @nil Z); try assumption; try lia.
      - intros o c j Hj Ho Hc Ho2. cbv beta iota. rewrite arr_get_nat by lia. rewrite bind_Done.
        rewrite DigitTie.tie_carrying_mul; try assumption; try lia;
          [| apply Forall_nth_Z; [assumption | lia] | unfold digit_ok; lia | unfold digit_ok; lia].
        destruct (carrying_mul w (nth j o 0) base c 0) as [low high]. cbn [fst snd].
        rewrite arr_set_nat by lia. rewrite bind_Done. reflexivity.
      - unfold digit_ok. lia. }
    rewrite HM, bind_Done. cbv beta iota. clear HM.
    destruct (negb (snd (mul_small w out base 0) =? 0)).
    + (* the product overflows: validate the rest of the chunk, then PosOverflow *)
      set (iend := Z.min (blen buf) (start + power)).
      match goal with |- context [while_loop fuel ?c ?b start] =>
        assert (HC : while_loop fuel c b start =
                     match check_digits fs (msd_idx be buf) ru8 buf start (Z.to_nat (iend - start)) with
                     | POk _ => Done (Exited iend)
                     | PErr _ => Done (Returned (RErr KInvalidDigit))
                     | _ => Panicked end) end.
      { apply (sim_check_digits fs (msd_idx be buf) ru8 buf _ _ start iend).
        - intros i Hi. apply andb_true_intro. split; apply Z.ltb_lt; lia.
        - apply andb_false_iff. destruct (Z.min_spec (blen buf) (start + power)) as [[_ E]|[_ E]]; fold iend in E; rewrite E;
            [left | right]; apply Z.ltb_irrefl.
        - intros i Hi. cbv beta. rewrite msd_arr_get_rd by lia.
          destruct (rd buf (msd_idx be buf i)) as [b| | |]; try reflexivity.
          rewrite gen_byte_to_digit, bind_Done. rewrite Z.geb_leb. reflexivity.
        - lia.
        - lia.
        - unfold blen in *. lia. }
      rewrite HC. clear HC. fold iend.
      destruct (check_digits _ _ _ _ _ _) as [u|k0| |]; reflexivity.
    + set (iend := Z.min (start + power) (blen buf)).
      match goal with |- context [while_loop fuel ?c ?b (0, start)] =>
        assert (HA : while_loop fuel c b (0, start) =
                     match acc_digits fs be dbg w radix ru8 buf start (Z.to_nat (iend - start)) 0 with
                     | POk a => Done (Exited (a, iend))
                     | PErr _ => Done (Returned (RErr KInvalidDigit))
                     | _ => Panicked end) end.
      { apply (sim_acc_digits fs be dbg w radix ru8 buf _ _ start iend).
        - intros acc i Hi. cbv beta iota. apply andb_true_intro. split; apply Z.ltb_lt; lia.
        - intros acc. cbv beta iota. apply andb_false_iff.
          destruct (Z.min_spec (start + power) (blen buf)) as [[_ E]|[_ E]]; fold iend in E; rewrite E;
            [left | right]; apply Z.ltb_irrefl.
        - intros acc i Hi. cbv beta iota. apply Hacc. lia.
        - lia.
        - lia.
        - unfold blen in *. lia. }
      rewrite HA. clear HA. fold iend.
      destruct (acc_digits _ _ _ _ _ _ _ _ _ _) as [nn|k0| |]; reflexivity.
  - intros o s0. reflexivity.
  - intros r0. reflexivity.
  - split; [cbn [length]; rewrite repeat_length; reflexivity|].
    constructor; [exact Hres|]. apply Forall_forall. intros x Hx. apply repeat_spec in Hx. subst x.
    unfold digit_ok. lia.
  - unfold blen. lia.
Qed.

(* ---------- the whole function ---------- *)

(* a budget that suffices for every loop: at most buf.len() input positions, N digits, w + 1 steps of radix_base *)
Definition parse_fuel (w : Z) (n : nat) (buf : list Z) : nat := (length buf + n + Z.to_nat w + 2)%nat.

(* preconditions = what every call site guarantees: a digit width of at least 8 bits, `assert_range!(radix, 36 | 256)`,
   input bytes are bytes, and `leading_sign` is only passed as true when buf[0] was read (a non-empty buffer) *)
Theorem gen_from_buf_radix_internal (fs be dbg : bool) w n buf radix (sign : bool) fuel :
  8 <= w -> 2 <= radix <= 256 -> bytes buf -> (sign = true -> (1 <= length buf)%nat) ->
  (parse_fuel w n buf <= fuel)%nat ->
  pout_of (ParseGen.from_buf_radix_internal dbg w (Z.of_nat n) fuel fs be buf radix sign)
  = Parse.from_buf_radix_internal fs be dbg w n buf radix sign.
Proof.
  intros Hw Hrad Hbytes Hsign Hfuel. unfold parse_fuel in Hfuel.
  destruct (Z.eq_dec radix 2) as [E2|N2]; [apply gen_internal_pow2; try assumption; left; exact E2|].
  destruct (Z.eq_dec radix 4) as [E4|N4]; [apply gen_internal_pow2; try assumption; right; left; exact E4|].
  destruct (Z.eq_dec radix 16) as [E16|N16]; [apply gen_internal_pow2; try assumption; right; right; left; exact E16|].
  destruct (Z.eq_dec radix 256) as [E256|N256]; [apply gen_internal_pow2; try assumption; right; right; right; exact E256|].
  apply gen_internal_general; try assumption; [lia|]. unfold pow2_radix. lia.
Qed.

(* Proofs/LoopsTieC13.v — src/buint/convert.rs from_uint! (`impl From<$uint> for $BUint<N>`, $uint = u8 .. u128, usize):
   the loop GENERATED from /repo/src on every run (Generated/Loops.v, by tools/rs2v_loops.py; the width of the primitive
   type is the parameter pb) equals the hand-written model (Model/Convert.v U_from_uint, an `outcome` running on its own
   `while_` with budget pb), for both values of the model's debug flag: the only panic is the index panic of
   `out.digits[i] = d` (a non-zero digit beyond N), which both have. *)
From Bnum Require Import Base Prim.
From Bnum.Model Require Import DigitPrims LoopPrims Core Imp.
From Bnum.Model Require Cast Convert.
From Bnum.Generated Require Import DigitGen Loops.
From Bnum.Proofs Require Import ImpLemmas ImpLemmas2.

(* the loop of from_uint! from any iteration i on: the model's budget f suffices when i + f steps exhaust the pb bits *)
Lemma from_uint_loop dbg w lg pb int : 0 <= lg -> w = 2 ^ lg -> 0 < pb ->
  forall f fuel i out, pb <= Z.of_nat (i + f) * w -> (f <= fuel)%nat ->
  bind (while_loop (R := list Z) fuel
          (fun '(out, i) => ((ix_shl i (digit_BIT_SHIFT w)) <? pb))
          (fun '(out, i) =>
             t1' <- pshr pb int (ix_shl i (digit_BIT_SHIFT w)) ;;
             let d := (ud w t1') in
             if (negb (d =? 0)) then (
               out <- arr_set out i d ;;
               let i := (i + 1) in
               Done (Continue (out, i))
             ) else (
               let i := (i + 1) in
               Done (Continue (out, i))
             ))
          (out, Z.of_nat i))
       (fun t2' => match t2' with Exited (out, i) => Done out | Returned t3' => Done t3' end)
  = match Cast.while_ f (fun i _ => Z.of_nat i * w <? pb)
            (fun i out =>
               obind (Cast.shr_chk dbg pb int (Z.of_nat i * w)) (fun t =>
               let d := ud w t in
               if negb (d =? 0) then Cast.wr out i d else Ret out))
            i out
    with Ret r => Done r | Panic => Panicked end.
Proof.
  intros Hlg Hw Hpb. assert (Hw0 : 0 < w) by (subst w; apply Z.pow_pos_nonneg; lia).
  induction f as [|f IH]; intros fuel i out Hend Hf.
  - cbn [Cast.while_]. rewrite while_loop_cond_false; [reflexivity|].
    rewrite (ix_shl_BIT_SHIFT w lg) by assumption. rewrite Nat.add_0_r in Hend. apply Z.ltb_ge. exact Hend.
  - cbn [Cast.while_]. destruct (Z.ltb_spec (Z.of_nat i * w) pb) as [Hlt|Hge].
    + destruct fuel as [|fuel]; [lia|]. rewrite while_loop_S. cbv beta iota.
      rewrite (ix_shl_BIT_SHIFT w lg) by assumption.
      destruct (Z.ltb_spec (Z.of_nat i * w) pb) as [_|?]; [|lia].
      unfold pshr, Cast.shr_chk. destruct (Z.leb_spec 0 (Z.of_nat i * w)) as [_|?]; [|nia].
      destruct (Z.ltb_spec (Z.of_nat i * w) pb) as [_|?]; [|lia]. cbn [andb bind obind]. unfold u_shr. cbv zeta.
      replace (Z.of_nat i + 1) with (Z.of_nat (S i)) by lia.
      destruct (negb (ud w (int / 2 ^ (Z.of_nat i * w)) =? 0)).
      * rewrite <- wr_as_arr_set. destruct (Cast.wr out i _) as [out'|]; [|reflexivity]. cbn [bind].
        apply IH; [|lia]. replace (S i + f)%nat with (i + S f)%nat by lia. exact Hend.
      * apply IH; [|lia]. replace (S i + f)%nat with (i + S f)%nat by lia. exact Hend.
    + rewrite while_loop_cond_false; [reflexivity|].
      rewrite (ix_shl_BIT_SHIFT w lg) by assumption. apply Z.ltb_ge. exact Hge.
Qed.

Lemma loops_from_uint dbg w lg n pb int : 0 <= lg -> w = 2 ^ lg -> 0 < pb ->
  forall fuel, (Z.to_nat pb <= fuel)%nat ->
  Loops.from_uint w (Z.of_nat n) fuel pb int =
  match Convert.U_from_uint dbg pb w n int with Ret r => Done r | Panic => Panicked end.
Proof.
  intros Hlg Hw Hpb fuel Hf. assert (Hw0 : 0 < w) by (subst w; apply Z.pow_pos_nonneg; lia).
  unfold Loops.from_uint, Convert.U_from_uint. rewrite Nat2Z.id.
  apply (from_uint_loop dbg w lg pb int Hlg Hw Hpb (Z.to_nat pb) fuel 0%nat (ZERO n)); [|exact Hf].
  cbn [Nat.add]. nia.
Qed.

Theorem loops_C13_match_model dbg w lg : 0 <= lg -> w = 2 ^ lg ->
  forall n pb int fuel, 0 < pb -> (Z.to_nat pb <= fuel)%nat ->
  Loops.from_uint w (Z.of_nat n) fuel pb int =
  match Convert.U_from_uint dbg pb w n int with Ret r => Done r | Panic => Panicked end.
Proof. intros Hlg Hw n pb int fuel Hpb Hf. apply (loops_from_uint dbg w lg); assumption. Qed.

(* Proofs/ParseGenTieA.v — tie between the parsing code GENERATED from /repo/src on every run (Generated/ParseGen.v, by
   tools/rs2v_parse.py) and the hand-written model Model/Parse.v, part A: the result relation, the small helpers
   (ilog2, byte_to_digit, radix_base) and the simulation lemmas for the loops of from_buf_radix_internal (each relates a
   `while_loop` whose body satisfies a one-step equation to the corresponding Fixpoint of the hand model). *)
From Bnum Require Import Base Prim.
From Bnum.Model Require Import Digit DigitPrims LoopPrims Core Imp ImpParse Parse.
From Bnum.Generated Require Import DigitGen ParseGen.
From Bnum.Proofs Require Import ImpLemmas ImpLemmas2.

(* ---------- the result relation ---------- *)

Definition kcode (k : int_error_kind) : Z :=
  match k with KEmpty => Empty | KInvalidDigit => InvalidDigit | KPosOverflow => PosOverflow | KNegOverflow => NegOverflow end.

(* Done (Ok a) <-> POk a, Done (Err k) <-> PErr (code of k), Panicked <-> PPanic, NoFuel <-> PFuel *)
Definition pout_of {A : Type} (r : res (result A)) : pout A :=
  match r with
  | Done (ROk a) => POk a
  | Done (RErr k) => PErr (kcode k)
  | Panicked => PPanic
  | NoFuel => PFuel
  end.

(* for functions that return a plain value / an Option (parse_bytes, from_radix_be, parse_str_radix) *)
Definition pout_val {A : Type} (r : res A) : pout A :=
  match r with Done a => POk a | Panicked => PPanic | NoFuel => PFuel end.

(* ---------- ilog2 ---------- *)

Lemma gen_ilog2 w N fuel a : 0 < a < 2 ^ 32 -> ParseGen.ilog2 w N fuel a = Done (Z.log2 a).
Proof.
  intros Ha. unfold ParseGen.ilog2, to_u8, u_leading_zeros, bitlen.
  destruct (Z.eqb_spec a 0) as [->|_]; [lia|].
  assert (H0 : 0 <= Z.log2 a) by apply Z.log2_nonneg.
  assert (H1 : Z.log2 a < 32) by (apply Z.log2_lt_pow2; lia).
  rewrite Z.mod_small by lia. rewrite usub_ok by lia. cbn [bind]. f_equal. lia.
Qed.

(* ---------- byte_to_digit ---------- *)

Lemma gen_byte_to_digit w N fuel fs b :
  ParseGen.byte_to_digit w N fuel fs b = Done (Parse.byte_to_digit fs b).
Proof.
  unfold ParseGen.byte_to_digit, Parse.byte_to_digit, badd. destruct fs; [|reflexivity].
  destruct (Z.leb_spec 48 b), (Z.leb_spec b 57); cbn [andb];
    try (rewrite usub_ok by lia; reflexivity);
  (destruct (Z.leb_spec 97 b), (Z.leb_spec b 122); cbn [andb];
    try (rewrite usub_ok by lia; cbn [bind]; destruct (Z.ltb_spec (b - 97 + 10) 256); [reflexivity | lia]);
   (destruct (Z.leb_spec 65 b), (Z.leb_spec b 90); cbn [andb];
    try (rewrite usub_ok by lia; cbn [bind]; destruct (Z.ltb_spec (b - 65 + 10) 256); [reflexivity | lia]);
    reflexivity)).
Qed.

(* ---------- radix_base ---------- *)

(* the generated loop and the model's recursion consume their budgets in lock step *)
Lemma gen_radix_base_loop w r : forall fuel base power,
  bind (while_loop (R := Z * Z) fuel (fun '(base, power) => true)
          (fun '(base, power) =>
             match dg_checked_mul w base r with
             | Some n => let base := n in let power := power + 1 in Done (Continue (base, power))
             | None => Done (Return (base, power))
             end) (base, power))
       (fun t => match t with Exited (base, power) => Panicked | Returned v => Done v end)
  = match radix_base_loop fuel w r base power with Some x => Done x | None => NoFuel end.
Proof.
  induction fuel as [|fuel IH]; intros base power; [reflexivity|].
  rewrite while_loop_S. cbv beta iota. cbn [radix_base_loop].
  change (dg_checked_mul w base r) with (d_checked_mul w base r).
  destruct (d_checked_mul w base r) as [n|]; [apply IH | reflexivity].
Qed.

Lemma gen_radix_base_fuel w N fuel radix :
  ParseGen.radix_base w N fuel radix =
  match radix_base_loop fuel w (radix mod B w) (radix mod B w) 1 with Some x => Done x | None => NoFuel end.
Proof. unfold ParseGen.radix_base, ud. apply (gen_radix_base_loop w (radix mod B w) fuel). Qed.

Lemma radix_base_loop_mono w r : forall f f' base power x, (f <= f')%nat ->
  radix_base_loop f w r base power = Some x -> radix_base_loop f' w r base power = Some x.
Proof.
  induction f as [|f IH]; intros f' base power x Hf H; [discriminate|].
  destruct f' as [|f']; [lia|]. cbn [radix_base_loop] in *.
  destruct (d_checked_mul w base r); [apply (IH f'); [lia | exact H] | exact H].
Qed.

Lemma gen_radix_base w N fuel radix x : (S (Z.to_nat w) <= fuel)%nat ->
  Parse.radix_base w radix = Some x -> ParseGen.radix_base w N fuel radix = Done x.
Proof.
  intros Hf H. rewrite gen_radix_base_fuel. unfold Parse.radix_base in H.
  rewrite (radix_base_loop_mono w _ _ fuel _ _ x Hf H). reflexivity.
Qed.

(* ---------- reading the buffer ---------- *)

Lemma arr_get_rd {A} buf i (k : Z -> res A) :
  bind (arr_get buf i) k = match rd buf i with POk b => k b | _ => Panicked end.
Proof. unfold arr_get, in_bounds, rd, blen. destruct ((0 <=? i) && (i <? Z.of_nat (length buf))); reflexivity. Qed.

(* `buf[a - b]` *)
Lemma usub_arr_get_rd {A} buf a b (k : Z -> res A) :
  bind (usub a b) (fun t => bind (arr_get buf t) k) = match rd buf (a - b) with POk x => k x | _ => Panicked end.
Proof.
  unfold usub. destruct (Z.ltb_spec a b) as [Hlt|Hge]; cbn [bind]; [|apply arr_get_rd].
  unfold rd. destruct (Z.leb_spec 0 (a - b)); [lia|]. reflexivity.
Qed.

(* `buf[buf.len() - 1 - k]` *)
Lemma usub2_arr_get_rd {A} buf k1 (k : Z -> res A) : 0 <= k1 ->
  bind (usub (blen buf) 1) (fun t => bind (usub t k1) (fun t2 => bind (arr_get buf t2) k))
  = match rd buf (blen buf - 1 - k1) with POk x => k x | _ => Panicked end.
Proof.
  intros Hk. unfold usub at 1. destruct (Z.ltb_spec (blen buf) 1) as [Hlt|Hge]; cbn [bind].
  - unfold rd. destruct (Z.leb_spec 0 (blen buf - 1 - k1)); [lia|]. reflexivity.
  - apply usub_arr_get_rd.
Qed.

Lemma rd_bytes buf i b : Forall (fun b => 0 <= b < 256) buf -> rd buf i = POk b -> 0 <= b < 256.
Proof.
  intros Hb. unfold rd, blen. destruct (Z.leb_spec 0 i); cbn [andb]; [|discriminate].
  destruct (Z.ltb_spec i (Z.of_nat (length buf))); [|discriminate]. intros E. injection E as <-.
  apply (Forall_nth_Z _ _ _ Hb). lia.
Qed.

Lemma byte_to_digit_range fs b : 0 <= b < 256 -> 0 <= Parse.byte_to_digit fs b < 256.
Proof.
  intros Hb. unfold Parse.byte_to_digit. destruct fs; [|exact Hb].
  destruct (Z.leb_spec 48 b), (Z.leb_spec b 57); cbn [andb]; try lia;
  destruct (Z.leb_spec 97 b), (Z.leb_spec b 122); cbn [andb]; try lia;
  destruct (Z.leb_spec 65 b), (Z.leb_spec b 90); cbn [andb]; lia.
Qed.

Lemma rd_cases buf i : (exists b, rd buf i = POk b) \/ rd buf i = PPanic.
Proof. unfold rd. destruct ((0 <=? i) && (i <? blen buf)); [left; eexists; reflexivity | right; reflexivity]. Qed.

(* ---------- monad bookkeeping ---------- *)

Lemma bind_assoc {A B C} (m : res A) (f : A -> res B) (g : B -> res C) :
  bind (bind m f) g = bind m (fun x => bind (f x) g).
Proof. destruct m; reflexivity. Qed.

Lemma bind_Done {A B} (a : A) (f : A -> res B) : bind (Done a) f = f a.
Proof. reflexivity. Qed.

Lemma bind_ret_r {A} (m : res A) : bind m (fun t => Done t) = m.
Proof. destruct m; reflexivity. Qed.

Lemma bind_if {A B} (c : bool) (x y : res A) (k : A -> res B) :
  bind (if c then x else y) k = if c then bind x k else bind y k.
Proof. destruct c; reflexivity. Qed.

Lemma usub_bind {A} a b (k : Z -> res A) : bind (usub a b) k = if a <? b then Panicked else k (a - b).
Proof. unfold usub. destruct (a <? b); reflexivity. Qed.

Lemma list_set_nth_same (l : list Z) i : list_set l i (nth i l 0) = l.
Proof.
  revert i. induction l as [|x l IH]; intros i; [destruct i; reflexivity|].
  destruct i; cbn [list_set nth]; [reflexivity | rewrite IH; reflexivity].
Qed.

Lemma list_set_twice (l : list Z) i u v : list_set (list_set l i u) i v = list_set l i v.
Proof.
  revert i. induction l as [|x l IH]; intros i; [destruct i; reflexivity|].
  destruct i; cbn [list_set]; [reflexivity | rewrite IH; reflexivity].
Qed.

(* ---------- simulation lemmas: one per loop shape of from_buf_radix_internal ---------- *)

(* `while input_digits_len > 0 { if byte_to_digit(buf[idx]) != 0 { break } input_digits_len -= 1 }` *)
Lemma sim_strip_zeros {R} (fs be sign : bool) buf (cond : Z -> bool) (body : Z -> res (flow Z R)) :
  (forall l, cond l = (l >? 0)) ->
  (forall l, 0 < l ->
     body l = match rd buf (if be then blen buf - l else l - 1 + (if sign then 1 else 0)) with
              | POk b => if Parse.byte_to_digit fs b =? 0 then Done (Continue (l - 1)) else Done (Break l)
              | _ => Panicked
              end) ->
  forall idl fuel, (idl <= fuel)%nat ->
  while_loop fuel cond body (Z.of_nat idl) =
  match strip_zeros fs be sign buf idl with POk l => Done (Exited l) | _ => Panicked end.
Proof.
  intros Hc Hb. induction idl as [|k IH]; intros fuel Hf.
  - rewrite while_loop_cond_false by (rewrite Hc; reflexivity). reflexivity.
  - destruct fuel as [|fuel]; [lia|]. rewrite while_loop_S, Hc.
    destruct (Z.gtb_spec (Z.of_nat (S k)) 0) as [_|]; [|lia].
    rewrite Hb by lia. cbn [strip_zeros]. cbv zeta.
    destruct (rd buf _) as [b| | |]; cbn [pbind]; try reflexivity.
    destruct (Parse.byte_to_digit fs b =? 0); [|reflexivity].
    replace (Z.of_nat (S k) - 1) with (Z.of_nat k) by lia. apply IH. lia.
Qed.

(* `while i < bound { if byte_to_digit(buf[idxf i]) >= radix_u8 { return Err(InvalidDigit) } i += 1 }` *)
Lemma sim_check_digits {A} fs idxf ru8 buf (cond : Z -> bool) (body : Z -> res (flow Z (result A))) ilo iend :
  (forall i, ilo <= i < iend -> cond i = true) ->
  cond iend = false ->
  (forall i, ilo <= i < iend ->
     body i = match rd buf (idxf i) with
              | POk b => if ru8 <=? Parse.byte_to_digit fs b then Done (Return (RErr KInvalidDigit)) else Done (Continue (i + 1))
              | _ => Panicked
              end) ->
  forall count i0 fuel, ilo <= i0 -> i0 + Z.of_nat count = iend -> (count <= fuel)%nat ->
  while_loop fuel cond body i0 =
  match check_digits fs idxf ru8 buf i0 count with
  | POk _ => Done (Exited iend)
  | PErr _ => Done (Returned (RErr KInvalidDigit))
  | _ => Panicked
  end.
Proof.
  intros Hct Hcf Hb. induction count as [|c IH]; intros i0 fuel Hlo Hend Hf.
  - replace i0 with iend by lia. rewrite while_loop_cond_false by exact Hcf. reflexivity.
  - destruct fuel as [|fuel]; [lia|]. rewrite while_loop_S, Hct by lia. rewrite Hb by lia.
    cbn [check_digits]. destruct (rd_cases buf (idxf i0)) as [[b E]|E]; rewrite E; cbn [pbind]; try reflexivity.
    destruct (ru8 <=? Parse.byte_to_digit fs b); [reflexivity|]. apply IH; lia.
Qed.

(* the inner loop of the power-of-two arm: `out.digits[i] |= (d as Digit) << (j * log2r)` *)
Lemma sim_pack_digit {A} (fs be : bool) w ru8 log2r buf k0 (i : nat)
      (cond : list Z * Z -> bool) (body : list Z * Z -> res (flow (list Z * Z) (result A))) jlo jend :
  (forall out j, jlo <= j < jend -> cond (out, j) = true) ->
  (forall out, cond (out, jend) = false) ->
  (forall out j, jlo <= j < jend -> (i < length out)%nat ->
     body (out, j) = match rd buf (if be then blen buf - 1 - (k0 + j) else k0 + j) with
                     | POk b => let d := Parse.byte_to_digit fs b in
                                if ru8 <=? d then Done (Return (RErr KInvalidDigit))
                                else Done (Continue (list_set out i (u_or (nth i out 0) (u_shl w d (j * log2r))), j + 1))
                     | _ => Panicked
                     end) ->
  forall count j0 out fuel, jlo <= j0 -> j0 + Z.of_nat count = jend -> (count <= fuel)%nat -> (i < length out)%nat ->
  while_loop fuel cond body (out, j0) =
  match pack_digit fs be w ru8 log2r buf k0 j0 count (nth i out 0) with
  | POk acc => Done (Exited (list_set out i acc, jend))
  | PErr _ => Done (Returned (RErr KInvalidDigit))
  | _ => Panicked
  end.
Proof.
  intros Hct Hcf Hb. induction count as [|c IH]; intros j0 out fuel Hlo Hend Hf Hi.
  - replace j0 with jend by lia. rewrite while_loop_cond_false by apply Hcf.
    cbn [pack_digit]. rewrite list_set_nth_same. reflexivity.
  - destruct fuel as [|fuel]; [lia|]. rewrite while_loop_S, Hct by lia. rewrite Hb by (lia || assumption).
    cbn [pack_digit]. destruct (rd_cases buf (if be then blen buf - 1 - (k0 + j0) else k0 + j0)) as [[b E]|E]; rewrite E;
      cbn [pbind]; try reflexivity. cbv zeta.
    destruct (ru8 <=? Parse.byte_to_digit fs b); [reflexivity|].
    rewrite IH by (rewrite ?list_set_length; lia).
    rewrite nth_list_set_same by exact Hi.
    destruct (pack_digit _ _ _ _ _ _ _ _ c _) as [acc| | |]; try reflexivity. rewrite list_set_twice. reflexivity.
Qed.

Lemma pack_full_length fs be w ru8 log2r bdpd buf : forall count i ds,
  pack_full fs be w ru8 log2r bdpd buf i count = POk ds -> length ds = count.
Proof.
  induction count as [|c IH]; intros i ds H; cbn [pack_full] in H; [injection H as <-; reflexivity|].
  destruct (pack_digit _ _ _ _ _ _ _ _ _ _) as [d| | |]; cbn [pbind] in H; try discriminate.
  destruct (pack_full _ _ _ _ _ _ _ _ c) as [r| | |] eqn:E; cbn [pbind] in H; try discriminate.
  injection H as <-. cbn [length]. rewrite (IH _ _ E). reflexivity.
Qed.

(* the outer loop of the power-of-two arm: digit i of `out` (all zero from position i on) receives pack_digit *)
Lemma sim_pack_full {A} (fs be : bool) w ru8 log2r bdpd buf
      (cond : list Z * Z -> bool) (body : list Z * Z -> res (flow (list Z * Z) (result A))) ilo iend :
  (forall out i, ilo <= i < iend -> cond (out, i) = true) ->
  (forall out, cond (out, iend) = false) ->
  (forall out (i : nat), ilo <= Z.of_nat i < iend -> (i < length out)%nat -> nth i out 0 = 0 ->
     body (out, Z.of_nat i) = match pack_digit fs be w ru8 log2r buf (Z.of_nat i * bdpd) 0 (Z.to_nat bdpd) 0 with
                              | POk d => Done (Continue (list_set out i d, Z.of_nat i + 1))
                              | PErr _ => Done (Return (RErr KInvalidDigit))
                              | _ => Panicked
                              end) ->
  forall count pre m fuel, ilo <= Z.of_nat (length pre) -> Z.of_nat (length pre) + Z.of_nat count = iend ->
  (count <= fuel)%nat -> (count <= m)%nat ->
  while_loop fuel cond body (pre ++ repeat 0 m, Z.of_nat (length pre)) =
  match pack_full fs be w ru8 log2r bdpd buf (Z.of_nat (length pre)) count with
  | POk ds => Done (Exited (pre ++ ds ++ repeat 0 (m - count), iend))
  | PErr _ => Done (Returned (RErr KInvalidDigit))
  | _ => Panicked
  end.
Proof.
  intros Hct Hcf Hb. induction count as [|c IH]; intros pre m fuel Hlo Hend Hf Hm.
  - replace (Z.of_nat (length pre)) with iend by lia. rewrite while_loop_cond_false by apply Hcf.
    cbn [pack_full app]. rewrite Nat.sub_0_r. reflexivity.
  - destruct fuel as [|fuel]; [lia|]. rewrite while_loop_S, Hct by lia.
    destruct m as [|m]; [lia|].
    rewrite Hb; [| lia | rewrite app_length; cbn [repeat length]; lia
                 | rewrite app_nth2 by lia; rewrite Nat.sub_diag; reflexivity].
    cbn [pack_full]. destruct (pack_digit _ _ _ _ _ _ _ _ _ _) as [d| | |]; cbn [pbind]; try reflexivity.
    assert (Hset : list_set (pre ++ repeat 0 (S m)) (length pre) d = (pre ++ [d]) ++ repeat 0 m).
    { rewrite list_set_split by (rewrite app_length; cbn [repeat length]; lia).
      rewrite firstn_app, Nat.sub_diag, firstn_all. cbn [firstn]. rewrite app_nil_r.
      rewrite skipn_app, skipn_all2 by lia. replace (S (length pre) - length pre)%nat with 1%nat by lia.
      cbn [repeat skipn app]. rewrite <- app_assoc. reflexivity. }
    rewrite Hset. replace (Z.of_nat (length pre) + 1) with (Z.of_nat (length (pre ++ [d])))
      by (rewrite app_length; cbn [length]; lia).
    rewrite IH by (rewrite ?app_length; cbn [length]; lia).
    destruct (pack_full _ _ _ _ _ _ _ _ c) as [r| | |]; cbn [pbind]; try reflexivity.
    rewrite <- !app_assoc. cbn [app Nat.sub]. reflexivity.
Qed.

(* `buf[buf.len() - 1 - k]` in the shape the translator emits for `if BE { buf.len() - 1 - k } else { .. }` *)
Lemma usub2_arr_get_rd' {A} buf k1 (k : Z -> res A) : 0 <= k1 ->
  bind (bind (usub (blen buf) 1) (fun t => bind (usub t k1) (fun t2 => Done t2))) (fun t3 => bind (arr_get buf t3) k)
  = match rd buf (blen buf - 1 - k1) with POk x => k x | _ => Panicked end.
Proof.
  intros Hk. rewrite bind_assoc. rewrite <- (usub2_arr_get_rd buf k1 k Hk).
  unfold usub at 1 3. destruct (blen buf <? 1); cbn [bind]; [reflexivity|].
  rewrite bind_ret_r. reflexivity.
Qed.

(* Proofs/ImpLemmas.v — reasoning principles for the control-flow vocabulary of Model/Imp.v:
   the checked primitives succeed in range, the loop-invariant rule for while_loop, an
   iteration-counting form of it, and PATTERN lemmas (index loops that fill / scan an output array,
   counting loops with early exit) that turn the usual tie proof into a few lines. *)
From Bnum Require Import Base Prim.
From Bnum.Model Require Import Imp.

(* ---------- lists ---------- *)

Lemma list_set_length l i v : length (list_set l i v) = length l.
Proof.
  revert i. induction l as [|x l IH]; intros i; [reflexivity|].
  destruct i; cbn [list_set length]; [reflexivity | rewrite IH; reflexivity].
Qed.

Lemma list_set_split l k v : (k < length l)%nat ->
  list_set l k v = firstn k l ++ v :: skipn (S k) l.
Proof.
  revert k. induction l as [|x l IH]; intros k Hk; cbn [length] in Hk; [lia|].
  destruct k; cbn [list_set firstn skipn app]; [reflexivity|].
  rewrite IH by lia. reflexivity.
Qed.

Lemma skipn_nth_cons (l : list Z) k : (k < length l)%nat -> skipn k l = nth k l 0 :: skipn (S k) l.
Proof.
  revert k. induction l as [|x l IH]; intros k Hk; cbn [length] in Hk; [lia|].
  destruct k; [reflexivity|]. cbn [skipn nth]. apply IH. lia.
Qed.

Lemma firstn_S_snoc (l : list Z) k : (k < length l)%nat -> firstn (S k) l = firstn k l ++ [nth k l 0].
Proof.
  revert k. induction l as [|x l IH]; intros k Hk; cbn [length] in Hk; [lia|].
  destruct k; [reflexivity|]. cbn [firstn nth app]. f_equal. apply IH. lia.
Qed.

Lemma firstn_list_set l k v : firstn k (list_set l k v) = firstn k l.
Proof.
  revert k. induction l as [|x l IH]; intros k; [destruct k; reflexivity|].
  destruct k; cbn [list_set firstn]; [reflexivity | rewrite IH; reflexivity].
Qed.

Lemma firstn_S_list_set l k v : (k < length l)%nat -> firstn (S k) (list_set l k v) = firstn k l ++ [v].
Proof.
  intros Hk. rewrite firstn_S_snoc by (rewrite list_set_length; exact Hk).
  rewrite firstn_list_set. f_equal. f_equal.
  rewrite list_set_split by exact Hk. rewrite app_nth2 by (rewrite firstn_length; lia).
  rewrite firstn_length. replace (k - Nat.min k (length l))%nat with 0%nat by lia. reflexivity.
Qed.

Lemma skipn_S_list_set l k v : skipn (S k) (list_set l k v) = skipn (S k) l.
Proof.
  revert k. induction l as [|x l IH]; intros k; [destruct k; reflexivity|].
  destruct k; cbn [list_set skipn]; [reflexivity | apply IH].
Qed.

Lemma nth_list_set_same l k v : (k < length l)%nat -> nth k (list_set l k v) 0 = v.
Proof.
  revert k. induction l as [|x l IH]; intros k Hk; cbn [length] in Hk; [lia|].
  destruct k; cbn [list_set nth]; [reflexivity | apply IH; lia].
Qed.

Lemma nth_list_set_other l k j v : j <> k -> nth j (list_set l k v) 0 = nth j l 0.
Proof.
  revert k j. induction l as [|x l IH]; intros k j Hjk; [destruct k, j; reflexivity|].
  destruct k, j; cbn [list_set nth]; try reflexivity; [lia | apply IH; lia].
Qed.

Lemma skipn_repeat {A} (x : A) n k : skipn k (repeat x n) = repeat x (n - k).
Proof.
  revert k. induction n as [|n IH]; intros k; [destruct k; reflexivity|].
  destruct k; [reflexivity|]. cbn [repeat skipn]. rewrite IH. reflexivity.
Qed.

Lemma firstn_repeat {A} (x : A) n k : firstn k (repeat x n) = repeat x (Nat.min k n).
Proof.
  revert k. induction n as [|n IH]; intros k; [destruct k; reflexivity|].
  destruct k; [reflexivity|]. cbn [repeat firstn Nat.min]. rewrite IH. reflexivity.
Qed.

(* ---------- the checked primitives succeed in range ---------- *)

Lemma arr_get_ok a i : 0 <= i < Z.of_nat (length a) -> arr_get a i = Done (nth (Z.to_nat i) a 0).
Proof.
  intros Hi. unfold arr_get, in_bounds.
  destruct (Z.leb_spec 0 i); [|lia]. destruct (Z.ltb_spec i (Z.of_nat (length a))); [|lia]. reflexivity.
Qed.

Lemma arr_get_nat a k : (k < length a)%nat -> arr_get a (Z.of_nat k) = Done (nth k a 0).
Proof. intros Hk. rewrite arr_get_ok by lia. rewrite Nat2Z.id. reflexivity. Qed.

Lemma arr_set_ok a i v : 0 <= i < Z.of_nat (length a) -> arr_set a i v = Done (list_set a (Z.to_nat i) v).
Proof.
  intros Hi. unfold arr_set, in_bounds.
  destruct (Z.leb_spec 0 i); [|lia]. destruct (Z.ltb_spec i (Z.of_nat (length a))); [|lia]. reflexivity.
Qed.

Lemma arr_set_nat a k v : (k < length a)%nat -> arr_set a (Z.of_nat k) v = Done (list_set a k v).
Proof. intros Hk. rewrite arr_set_ok by lia. rewrite Nat2Z.id. reflexivity. Qed.

Lemma usub_ok a b : b <= a -> usub a b = Done (a - b).
Proof. intros H. unfold usub. destruct (Z.ltb_spec a b); [lia | reflexivity]. Qed.

Lemma usub_nat a b : (b <= a)%nat -> usub (Z.of_nat a) (Z.of_nat b) = Done (Z.of_nat (a - b)).
Proof. intros H. rewrite usub_ok by lia. f_equal. lia. Qed.

Lemma dshl_ok w x s : 0 <= s < w -> dshl w x s = Done (u_shl w x s).
Proof.
  intros H. unfold dshl. destruct (Z.leb_spec 0 s); [|lia]. destruct (Z.ltb_spec s w); [|lia]. reflexivity.
Qed.

Lemma dshr_ok w x s : 0 <= s < w -> dshr w x s = Done (u_shr x s).
Proof.
  intros H. unfold dshr. destruct (Z.leb_spec 0 s); [|lia]. destruct (Z.ltb_spec s w); [|lia]. reflexivity.
Qed.

Lemma ltb_of_nat a b : (Z.of_nat a <? Z.of_nat b) = (a <? b)%nat.
Proof. destruct (Z.ltb_spec (Z.of_nat a) (Z.of_nat b)), (Nat.ltb_spec a b); try reflexivity; lia. Qed.

Lemma gtb_of_nat_0 a : (Z.of_nat a >? 0) = (0 <? a)%nat.
Proof. rewrite Z.gtb_ltb. change 0 with (Z.of_nat 0). apply ltb_of_nat. Qed.

(* ---------- the loop-invariant rule ---------- *)

(* If Inv holds initially, every iteration started in a state satisfying Inv and cond either
   continues in a state satisfying Inv with a smaller variant, or breaks / returns establishing Q,
   and Inv with ~cond establishes Q, then with fuel >= the variant the loop terminates normally
   (no Panicked, no NoFuel) with an exit satisfying Q. *)
Lemma while_loop_inv {St R : Type} (Inv : St -> Prop) (m : St -> nat) (Q : loop_exit St R -> Prop)
      (cond : St -> bool) (body : St -> res (flow St R)) :
  (forall s, Inv s -> cond s = true ->
     (0 < m s)%nat /\
     match body s with
     | Done (Continue s') => Inv s' /\ (m s' < m s)%nat
     | Done (Break s') => Q (Exited s')
     | Done (Return r) => Q (Returned r)
     | Panicked | NoFuel => False
     end) ->
  (forall s, Inv s -> cond s = false -> Q (Exited s)) ->
  forall fuel s, Inv s -> (m s <= fuel)%nat ->
  exists e, while_loop fuel cond body s = Done e /\ Q e.
Proof.
  intros Hstep Hexit fuel. induction fuel as [|fuel IH]; intros s HI Hm.
  - cbn [while_loop]. destruct (cond s) eqn:Hc.
    + destruct (Hstep s HI Hc) as [Hpos _]. lia.
    + eexists; split; [reflexivity | apply Hexit; assumption].
  - cbn [while_loop]. destruct (cond s) eqn:Hc.
    + destruct (Hstep s HI Hc) as [Hpos Hb].
      destruct (body s) as [[s'|s'|r]| |]; try contradiction.
      * destruct Hb as [HI' Hlt]. apply IH; [assumption | lia].
      * eexists; split; [reflexivity | assumption].
      * eexists; split; [reflexivity | assumption].
    + eexists; split; [reflexivity | apply Hexit; assumption].
Qed.

(* The same rule with the invariant indexed by the number k of iterations done; at most n iterations. *)
Lemma while_count {St R : Type} (n : nat) (Inv : nat -> St -> Prop) (Q : loop_exit St R -> Prop)
      (cond : St -> bool) (body : St -> res (flow St R)) :
  (forall k s, Inv k s -> cond s = true ->
     (k < n)%nat /\
     match body s with
     | Done (Continue s') => Inv (S k) s'
     | Done (Break s') => Q (Exited s')
     | Done (Return r) => Q (Returned r)
     | Panicked | NoFuel => False
     end) ->
  (forall k s, Inv k s -> cond s = false -> Q (Exited s)) ->
  forall fuel k s, Inv k s -> (n - k <= fuel)%nat ->
  exists e, while_loop fuel cond body s = Done e /\ Q e.
Proof.
  intros Hstep Hexit fuel. induction fuel as [|fuel IH]; intros k s HI Hf.
  - cbn [while_loop]. destruct (cond s) eqn:Hc.
    + destruct (Hstep k s HI Hc) as [Hlt _]. lia.
    + eexists; split; [reflexivity | apply (Hexit k); assumption].
  - cbn [while_loop]. destruct (cond s) eqn:Hc.
    + destruct (Hstep k s HI Hc) as [Hlt Hb].
      destruct (body s) as [[s'|s'|r]| |]; try contradiction.
      * apply (IH (S k)); [assumption | lia].
      * eexists; split; [reflexivity | assumption].
      * eexists; split; [reflexivity | assumption].
    + eexists; split; [reflexivity | apply (Hexit k); assumption].
Qed.

(* ... and composed with the code that follows the loop *)
Lemma while_count_bind {St R A : Type} (n : nat) (Inv : nat -> St -> Prop)
      (cond : St -> bool) (body : St -> res (flow St R)) (after : loop_exit St R -> res A) (v : A) :
  (forall k s, Inv k s -> cond s = true ->
     (k < n)%nat /\
     match body s with
     | Done (Continue s') => Inv (S k) s'
     | Done (Break s') => after (Exited s') = Done v
     | Done (Return r) => after (Returned r) = Done v
     | Panicked | NoFuel => False
     end) ->
  (forall k s, Inv k s -> cond s = false -> after (Exited s) = Done v) ->
  forall fuel k s, Inv k s -> (n - k <= fuel)%nat ->
  bind (while_loop fuel cond body s) after = Done v.
Proof.
  intros Hstep Hexit fuel k s HI Hf.
  destruct (while_count n Inv (fun e => after e = Done v) cond body Hstep Hexit fuel k s HI Hf) as (e & He & HQ).
  rewrite He. exact HQ.
Qed.

(* ---------- more list facts used by the pattern lemmas ---------- *)

Lemma skipn_list_set_gt l p q v : (p < q)%nat -> skipn q (list_set l p v) = skipn q l.
Proof.
  revert p q. induction l as [|x l IH]; intros p q Hpq; [destruct p, q; reflexivity|].
  destruct q; [lia|]. destruct p; cbn [list_set skipn]; [reflexivity | apply IH; lia].
Qed.

Lemma firstn_list_set_le l p q v : (q <= p)%nat -> firstn q (list_set l p v) = firstn q l.
Proof.
  revert p q. induction l as [|x l IH]; intros p q Hpq; [destruct p, q; reflexivity|].
  destruct q; [reflexivity|]. destruct p; [lia|]. cbn [list_set firstn]. rewrite IH by lia. reflexivity.
Qed.

Lemma skipn_list_set_same l p v : (p < length l)%nat -> skipn p (list_set l p v) = v :: skipn (S p) l.
Proof.
  intros Hp. rewrite list_set_split by exact Hp.
  rewrite skipn_app, firstn_length. replace (p - Nat.min p (length l))%nat with 0%nat by lia.
  rewrite skipn_all2 by (rewrite firstn_length; lia). reflexivity.
Qed.

(* ---------- PATTERN: a loop whose iteration j writes one digit of an output array ---------- *)

Section Writes.
Context {C : Type}.

(* iterations j, j+1, ..., j+cnt-1: iteration j writes fst (f j c) at position pos j and
   continues with the threaded value snd (f j c) *)
Fixpoint run_writes (pos : nat -> nat) (f : nat -> C -> Z * C) (j cnt : nat) (out : list Z) (c : C)
  : list Z * C :=
  match cnt with
  | O => (out, c)
  | S cnt' => run_writes pos f (S j) cnt' (list_set out (pos j) (fst (f j c))) (snd (f j c))
  end.

(* the values written, in iteration order, and the final threaded value *)
Fixpoint scan_idx (f : nat -> C -> Z * C) (j cnt : nat) (c : C) : list Z * C :=
  match cnt with
  | O => ([], c)
  | S cnt' => let r := scan_idx f (S j) cnt' (snd (f j c)) in (fst (f j c) :: fst r, snd r)
  end.

(* `mk out c j` is the loop state at the start of iteration j (it contains the loop counter). *)
Lemma loop_writes {St R : Type} (mk : list Z -> C -> nat -> St) (pos : nat -> nat) (f : nat -> C -> Z * C)
      (cond : St -> bool) (body : St -> res (flow St R)) (cnt n : nat) :
  (forall out c j, (j < cnt)%nat -> cond (mk out c j) = true) ->
  (forall out c, cond (mk out c cnt) = false) ->
  (forall out c j, (j < cnt)%nat -> length out = n ->
     body (mk out c j) = Done (Continue (mk (list_set out (pos j) (fst (f j c))) (snd (f j c)) (S j)))) ->
  forall fuel j out c, (j <= cnt)%nat -> (cnt - j <= fuel)%nat -> length out = n ->
  while_loop fuel cond body (mk out c j) =
  Done (Exited (mk (fst (run_writes pos f j (cnt - j) out c)) (snd (run_writes pos f j (cnt - j) out c)) cnt)).
Proof.
  intros Hct Hcf Hb fuel. induction fuel as [|fuel IH]; intros j out c Hj Hf Hlen.
  - assert (j = cnt) by lia. subst j. cbn [while_loop]. rewrite Hcf.
    rewrite Nat.sub_diag. reflexivity.
  - destruct (Nat.eq_dec j cnt) as [->|Hne].
    + cbn [while_loop]. rewrite Hcf. rewrite Nat.sub_diag. reflexivity.
    + cbn [while_loop]. rewrite Hct by lia. rewrite Hb by first [lia | assumption].
      rewrite IH by first [lia | rewrite list_set_length; assumption].
      replace (cnt - j)%nat with (S (cnt - S j)) by lia. reflexivity.
Qed.

Lemma run_writes_up k0 f j cnt out c : (k0 + j + cnt <= length out)%nat ->
  run_writes (fun j => (k0 + j)%nat) f j cnt out c =
  (firstn (k0 + j) out ++ fst (scan_idx f j cnt c) ++ skipn (k0 + j + cnt) out, snd (scan_idx f j cnt c)).
Proof.
  revert j out c. induction cnt as [|cnt IH]; intros j out c Hlen.
  - cbn [run_writes scan_idx fst snd app]. rewrite Nat.add_0_r, firstn_skipn. reflexivity.
  - cbn [run_writes scan_idx fst snd]. rewrite IH by (rewrite list_set_length; lia).
    f_equal. replace (k0 + S j)%nat with (S (k0 + j)) by lia.
    rewrite firstn_S_list_set by lia. rewrite skipn_list_set_gt by lia.
    rewrite <- app_assoc. cbn [app].
    replace (S (k0 + j) + cnt)%nat with (k0 + j + S cnt)%nat by lia. reflexivity.
Qed.

Lemma run_writes_down hi f j cnt out c : (hi <= length out)%nat -> (j + cnt <= hi)%nat ->
  run_writes (fun j => (hi - 1 - j)%nat) f j cnt out c =
  (firstn (hi - j - cnt) out ++ rev (fst (scan_idx f j cnt c)) ++ skipn (hi - j) out, snd (scan_idx f j cnt c)).
Proof.
  revert j out c. induction cnt as [|cnt IH]; intros j out c Hhi Hj.
  - cbn [run_writes scan_idx fst snd rev app]. rewrite Nat.sub_0_r, firstn_skipn. reflexivity.
  - cbn [run_writes scan_idx fst snd rev]. rewrite IH by (try rewrite list_set_length; lia).
    f_equal. rewrite firstn_list_set_le by lia.
    replace (hi - S j)%nat with (hi - 1 - j)%nat by lia.
    rewrite skipn_list_set_same by lia.
    rewrite <- !app_assoc. cbn [app]. f_equal; [f_equal; lia|]. do 3 f_equal. lia.
Qed.

Lemma scan_idx_length f j cnt c : length (fst (scan_idx f j cnt c)) = cnt.
Proof.
  revert j c. induction cnt as [|cnt IH]; intros j c; cbn [scan_idx fst length]; [reflexivity|].
  rewrite IH. reflexivity.
Qed.

End Writes.

(* the list recursions the hand models use, and the index form computed by the loops *)
Fixpoint scan1 {C : Type} (g : Z -> C -> Z * C) (a : list Z) (c : C) : list Z * C :=
  match a with
  | [] => ([], c)
  | x :: a' => let r := scan1 g a' (snd (g x c)) in (fst (g x c) :: fst r, snd r)
  end.

Fixpoint scan2 {C : Type} (g : Z -> Z -> C -> Z * C) (a b : list Z) (c : C) : list Z * C :=
  match a, b with
  | x :: a', y :: b' => let r := scan2 g a' b' (snd (g x y c)) in (fst (g x y c) :: fst r, snd r)
  | _, _ => ([], c)
  end.

Lemma scan_idx_scan1 {C} (g : Z -> C -> Z * C) a (f : nat -> C -> Z * C) j0 c :
  (forall i c, (i < length a)%nat -> f (j0 + i)%nat c = g (nth i a 0) c) ->
  scan_idx f j0 (length a) c = scan1 g a c.
Proof.
  revert j0 c. induction a as [|x a IH]; intros j0 c Hf; [reflexivity|].
  cbn [length scan_idx scan1].
  pose proof (Hf 0%nat c ltac:(cbn [length]; lia)) as H0. rewrite Nat.add_0_r in H0. cbn [nth] in H0.
  rewrite H0. rewrite (IH (S j0)); [reflexivity|].
  intros i c' Hi. replace (S j0 + i)%nat with (j0 + S i)%nat by lia.
  rewrite Hf by (cbn [length]; lia). reflexivity.
Qed.

Lemma scan_idx_scan2 {C} (g : Z -> Z -> C -> Z * C) a b (f : nat -> C -> Z * C) j0 c :
  length a = length b ->
  (forall i c, (i < length a)%nat -> f (j0 + i)%nat c = g (nth i a 0) (nth i b 0) c) ->
  scan_idx f j0 (length a) c = scan2 g a b c.
Proof.
  revert b j0 c. induction a as [|x a IH]; intros b j0 c Hl Hf; [reflexivity|].
  destruct b as [|y b]; [discriminate|]. cbn [length scan_idx scan2].
  pose proof (Hf 0%nat c ltac:(cbn [length]; lia)) as H0. rewrite Nat.add_0_r in H0. cbn [nth] in H0.
  rewrite H0. rewrite (IH b (S j0)); [reflexivity | cbn [length] in Hl; lia |].
  intros i c' Hi. replace (S j0 + i)%nat with (j0 + S i)%nat by lia.
  rewrite Hf by (cbn [length]; lia). reflexivity.
Qed.

(* no threaded value: the writes are a map *)
Lemma scan1_map (h : Z -> Z) a : scan1 (fun x (_ : unit) => (h x, tt)) a tt = (map h a, tt).
Proof. induction a as [|x a IH]; [reflexivity|]. cbn [scan1 map fst snd]. rewrite IH. reflexivity. Qed.

(* ---------- PATTERN: a counting loop that accumulates and may stop early ---------- *)

(* visit the elements of l in order: acc := step x acc; stop after the first x with stop x *)
Fixpoint fold_stop {A : Type} (step : Z -> A -> A) (stop : Z -> bool) (l : list Z) (acc : A) : A :=
  match l with
  | [] => acc
  | x :: r => if stop x then step x acc else fold_stop step stop r (step x acc)
  end.

(* `mk acc j`: the state at the start of iteration j; l: the digits in the order the loop visits them;
   when the loop breaks, the counter component of the state may be anything (mk' acc j) *)
Lemma loop_fold_stop {St R A : Type} (mk mk' : A -> nat -> St) (step : Z -> A -> A) (stop : Z -> bool)
      (l : list Z) (cond : St -> bool) (body : St -> res (flow St R)) :
  (forall acc j, (j < length l)%nat -> cond (mk acc j) = true) ->
  (forall acc, cond (mk acc (length l)) = false) ->
  (forall acc j, (j < length l)%nat ->
     body (mk acc j) = if stop (nth j l 0) then Done (Break (mk' (step (nth j l 0) acc) j))
                       else Done (Continue (mk (step (nth j l 0) acc) (S j)))) ->
  forall fuel j acc, (j <= length l)%nat -> (length l - j <= fuel)%nat ->
  exists j', (j' <= length l)%nat /\
  (while_loop fuel cond body (mk acc j) = Done (Exited (mk (fold_stop step stop (skipn j l) acc) j')) \/
   while_loop fuel cond body (mk acc j) = Done (Exited (mk' (fold_stop step stop (skipn j l) acc) j'))).
Proof.
  intros Hct Hcf Hb fuel. induction fuel as [|fuel IH]; intros j acc Hj Hf.
  - assert (j = length l) by lia. subst j. exists (length l). split; [lia|]. left.
    cbn [while_loop]. rewrite Hcf. rewrite skipn_all. reflexivity.
  - destruct (Nat.eq_dec j (length l)) as [->|Hne].
    + exists (length l). split; [lia|]. left. cbn [while_loop]. rewrite Hcf. rewrite skipn_all. reflexivity.
    + cbn [while_loop]. rewrite Hct by lia. rewrite Hb by lia.
      rewrite (skipn_nth_cons l j) by lia. cbn [fold_stop].
      destruct (stop (nth j l 0)).
      * exists j. split; [lia|]. right. reflexivity.
      * apply IH; lia.
Qed.

(* ---------- the common special cases, ready to use ---------- *)

(* loop_writes started at iteration 0 from any state convertible to `mk out c 0` *)
Lemma loop_writes0 {C St R : Type} (mk : list Z -> C -> nat -> St) (pos : nat -> nat) (f : nat -> C -> Z * C)
      (cond : St -> bool) (body : St -> res (flow St R)) (cnt n : nat) fuel out c s0 :
  s0 = mk out c 0%nat -> (cnt <= fuel)%nat -> length out = n ->
  (forall out c j, (j < cnt)%nat -> cond (mk out c j) = true) ->
  (forall out c, cond (mk out c cnt) = false) ->
  (forall out c j, (j < cnt)%nat -> length out = n ->
     body (mk out c j) = Done (Continue (mk (list_set out (pos j) (fst (f j c))) (snd (f j c)) (S j)))) ->
  while_loop fuel cond body s0 =
  Done (Exited (mk (fst (run_writes pos f 0 cnt out c)) (snd (run_writes pos f 0 cnt out c)) cnt)).
Proof.
  intros -> Hf Hlen Hct Hcf Hb.
  rewrite (loop_writes mk pos f cond body cnt n Hct Hcf Hb fuel 0%nat out c) by first [lia | assumption].
  rewrite Nat.sub_0_r. reflexivity.
Qed.

(* `i` from 0 to N:  out[i] := fst (g a[i] b[i] s);  s := snd (g a[i] b[i] s)   — state (out, s, i) *)
Lemma loop_scan2_all {C R : Type} (g : Z -> Z -> C -> Z * C) (a b : list Z)
      (cond : list Z * C * Z -> bool) (body : list Z * C * Z -> res (flow (list Z * C * Z) R))
      fuel c0 out0 :
  length b = length a -> length out0 = length a -> (length a <= fuel)%nat ->
  (forall out c i, cond (out, c, i) = (i <? Z.of_nat (length a))) ->
  (forall out c j, (j < length a)%nat -> length out = length a ->
     body (out, c, Z.of_nat j) =
     Done (Continue (list_set out j (fst (g (nth j a 0) (nth j b 0) c)),
                     snd (g (nth j a 0) (nth j b 0) c), Z.of_nat j + 1))) ->
  while_loop fuel cond body (out0, c0, 0) =
  Done (Exited (fst (scan2 g a b c0), snd (scan2 g a b c0), Z.of_nat (length a))).
Proof.
  intros Hb Ho Hf Hc Hbody.
  rewrite (loop_writes0 (fun out c j => (out, c, Z.of_nat j)) (fun j => (0 + j)%nat)
             (fun j c => g (nth j a 0) (nth j b 0) c) cond body (length a) (length a) fuel out0 c0);
    try first [reflexivity | assumption].
  - rewrite run_writes_up by (rewrite Ho; lia). cbn [fst snd Nat.add firstn app].
    rewrite skipn_all2 by lia. rewrite app_nil_r.
    rewrite (scan_idx_scan2 g a b) by (intros; reflexivity || (symmetry; assumption)).
    reflexivity.
  - intros out c j Hj. rewrite Hc, ltb_of_nat. apply Nat.ltb_lt. exact Hj.
  - intros out c. rewrite Hc, ltb_of_nat. apply Nat.ltb_irrefl.
  - intros out c j Hj Hl. rewrite Hbody by assumption. cbn [Nat.add].
    rewrite Nat2Z.inj_succ. reflexivity.
Qed.

(* `i` from 0 to N:  out[i] := h a[i] b[i]   — state (out, i) *)
Lemma loop_map2_all {R : Type} (h : Z -> Z -> Z) (a b : list Z)
      (cond : list Z * Z -> bool) (body : list Z * Z -> res (flow (list Z * Z) R)) fuel out0 :
  length b = length a -> length out0 = length a -> (length a <= fuel)%nat ->
  (forall out i, cond (out, i) = (i <? Z.of_nat (length a))) ->
  (forall out j, (j < length a)%nat -> length out = length a ->
     body (out, Z.of_nat j) = Done (Continue (list_set out j (h (nth j a 0) (nth j b 0)), Z.of_nat j + 1))) ->
  while_loop fuel cond body (out0, 0) =
  Done (Exited (fst (scan2 (fun x y (_ : unit) => (h x y, tt)) a b tt), Z.of_nat (length a))).
Proof.
  intros Hb Ho Hf Hc Hbody.
  rewrite (loop_writes0 (fun out (_ : unit) j => (out, Z.of_nat j)) (fun j => (0 + j)%nat)
             (fun j c => (h (nth j a 0) (nth j b 0), tt)) cond body (length a) (length a) fuel out0 tt);
    try first [reflexivity | assumption].
  - rewrite run_writes_up by (rewrite Ho; lia). cbn [fst snd Nat.add firstn app].
    rewrite skipn_all2 by lia. rewrite app_nil_r.
    rewrite (scan_idx_scan2 (fun x y (_ : unit) => (h x y, tt)) a b) by (intros; reflexivity || (symmetry; assumption)).
    reflexivity.
  - intros out c j Hj. rewrite Hc, ltb_of_nat. apply Nat.ltb_lt. exact Hj.
  - intros out c. rewrite Hc, ltb_of_nat. apply Nat.ltb_irrefl.
  - intros out c j Hj Hl. rewrite Hbody by assumption. cbn [Nat.add fst snd].
    rewrite Nat2Z.inj_succ. reflexivity.
Qed.

(* `i` from 0 to N:  out[i] := h (src[i'])  where the loop reads the digits of some list in the order l — state (out, i) *)
Lemma loop_map1_all {R : Type} (h : Z -> Z) (l : list Z)
      (cond : list Z * Z -> bool) (body : list Z * Z -> res (flow (list Z * Z) R)) fuel out0 :
  length out0 = length l -> (length l <= fuel)%nat ->
  (forall out i, cond (out, i) = (i <? Z.of_nat (length l))) ->
  (forall out j, (j < length l)%nat -> length out = length l ->
     body (out, Z.of_nat j) = Done (Continue (list_set out j (h (nth j l 0)), Z.of_nat j + 1))) ->
  while_loop fuel cond body (out0, 0) = Done (Exited (map h l, Z.of_nat (length l))).
Proof.
  intros Ho Hf Hc Hbody.
  rewrite (loop_writes0 (fun out (_ : unit) j => (out, Z.of_nat j)) (fun j => (0 + j)%nat)
             (fun j c => (h (nth j l 0), tt)) cond body (length l) (length l) fuel out0 tt);
    try first [reflexivity | assumption].
  - rewrite run_writes_up by (rewrite Ho; lia). cbn [fst snd Nat.add firstn app].
    rewrite skipn_all2 by lia. rewrite app_nil_r.
    rewrite (scan_idx_scan1 (fun x (_ : unit) => (h x, tt)) l) by (intros; reflexivity).
    rewrite scan1_map. reflexivity.
  - intros out c j Hj. rewrite Hc, ltb_of_nat. apply Nat.ltb_lt. exact Hj.
  - intros out c. rewrite Hc, ltb_of_nat. apply Nat.ltb_irrefl.
  - intros out c j Hj Hl. rewrite Hbody by assumption. cbn [Nat.add fst snd].
    rewrite Nat2Z.inj_succ. reflexivity.
Qed.

(* ---------- more list facts (nested loops, windows) ---------- *)

Lemma skipn_list_set_ge l i k v : skipn i (list_set l (i + k) v) = list_set (skipn i l) k v.
Proof.
  revert l. induction i as [|i IH]; intros l; [reflexivity|].
  destruct l as [|x l]; [destruct k; reflexivity|]. cbn [Nat.add list_set skipn]. apply IH.
Qed.

Lemma Forall_list_set (P : Z -> Prop) l k v : Forall P l -> P v -> Forall P (list_set l k v).
Proof.
  intros Hl Hv. revert k. induction Hl as [|x l Hx Hl IH]; intros k; [destruct k; constructor|].
  destruct k; cbn [list_set]; constructor; auto.
Qed.

Lemma Forall_nth_Z (P : Z -> Prop) l k : Forall P l -> (k < length l)%nat -> P (nth k l 0).
Proof. intros Hl Hk. apply Forall_nth; assumption. Qed.

(* loop_fold_stop composed with the code after the loop, when that code does not look at the counter *)
Lemma loop_fold_stop_bind {St R A V : Type} (mk mk' : A -> nat -> St) (step : Z -> A -> A) (stop : Z -> bool)
      (l : list Z) (cond : St -> bool) (body : St -> res (flow St R)) (after : loop_exit St R -> res V)
      (v : A -> V) fuel acc0 s0 :
  s0 = mk acc0 0%nat -> (length l <= fuel)%nat ->
  (forall acc j, (j < length l)%nat -> cond (mk acc j) = true) ->
  (forall acc, cond (mk acc (length l)) = false) ->
  (forall acc j, (j < length l)%nat ->
     body (mk acc j) = if stop (nth j l 0) then Done (Break (mk' (step (nth j l 0) acc) j))
                       else Done (Continue (mk (step (nth j l 0) acc) (S j)))) ->
  (forall acc j, after (Exited (mk acc j)) = Done (v acc)) ->
  (forall acc j, after (Exited (mk' acc j)) = Done (v acc)) ->
  bind (while_loop fuel cond body s0) after = Done (v (fold_stop step stop l acc0)).
Proof.
  intros -> Hf Hct Hcf Hb Ha Ha'.
  destruct (loop_fold_stop mk mk' step stop l cond body Hct Hcf Hb fuel 0%nat acc0 ltac:(lia) ltac:(lia))
    as (j' & _ & [He|He]); rewrite He; cbn [bind skipn]; [apply Ha | apply Ha'].
Qed.

(* the shape of the hand-written counting functions: h d summed over the digits up to the first stop *)
Fixpoint sum_stop (h : Z -> Z) (stop : Z -> bool) (l : list Z) : Z :=
  match l with
  | [] => 0
  | d :: r => if stop d then h d else h d + sum_stop h stop r
  end.

Lemma fold_stop_sum h stop l acc :
  fold_stop (fun d acc => acc + h d) stop l acc = acc + sum_stop h stop l.
Proof.
  revert acc. induction l as [|d r IH]; intros acc; cbn [fold_stop sum_stop]; [lia|].
  destruct (stop d); [reflexivity|]. rewrite IH. lia.
Qed.

Lemma nth_firstn_lt (l : list Z) i k : (i < k)%nat -> nth i (firstn k l) 0 = nth i l 0.
Proof.
  revert i k. induction l as [|x l IH]; intros i k Hik; [destruct i, k; reflexivity|].
  destruct k; [lia|]. destruct i; [reflexivity|]. cbn [firstn nth]. apply IH. lia.
Qed.

Lemma nth_skipn_add (l : list Z) m i : nth i (skipn m l) 0 = nth (m + i) l 0.
Proof.
  revert l. induction m as [|m IH]; intros l; [reflexivity|].
  destruct l as [|x l]; [destruct i; reflexivity|]. cbn [skipn Nat.add nth]. apply IH.
Qed.

Lemma list_set_app_l l t k v : (k < length l)%nat -> list_set (l ++ t) k v = list_set l k v ++ t.
Proof.
  revert k. induction l as [|x l IH]; intros k Hk; cbn [length] in Hk; [lia|].
  destruct k; cbn [app list_set]; [reflexivity|]. rewrite IH by lia. reflexivity.
Qed.

Lemma skipn_S_tl {A} (l : list A) k : skipn (S k) l = tl (skipn k l).
Proof.
  revert l. induction k as [|k IH]; intros l; [destruct l; reflexivity|].
  destruct l as [|x l]; [reflexivity|]. cbn [skipn] in *. apply IH.
Qed.

(* simplify the application of a generated loop body / condition to a state tuple *)
Ltac body_red := cbv beta iota.

(* ---------- hardening of the tie scripts against harmless rewrites of the source (tools/LOOPS_TRANSLATOR.md, "Hardening") ----------
   tools/rs2v_loops.py emits comparisons in one direction (`a > b` as `b <? a`, `a >= b` as `b <=? a`) and a two-component
   tuple pattern `let (x, y) = e` as `let pr' := e in let x := fst pr' in let y := snd pr'` (convertible with
   `let r = e; .. r.0 .. r.1`).  The lemmas / tactics below let a step proof be written once for either source shape. *)
Lemma ltb_0_of_nat a : (0 <? Z.of_nat a) = (0 <? a)%nat.
Proof. change 0 with (Z.of_nat 0) at 1. apply ltb_of_nat. Qed.

(* comparisons: whatever is left of `>?` / `>=?` (an operand that can panic keeps the source direction) becomes `<?` / `<=?` *)
Ltac canon_cmp := rewrite ?Z.gtb_ltb, ?Z.geb_leb.
Ltac canon_cmp_in H := rewrite ?Z.gtb_ltb, ?Z.geb_leb in H.

(* pairs: a remaining `match e with (x, y) => _ end` (a pattern the translator does not canonicalise) is the body at
   `fst e`, `snd e`; destructing the scrutinee is then never needed to make progress *)
Lemma pair_match_eta {A B C} (e : A * B) (f : A -> B -> C) : (let '(x, y) := e in f x y) = f (fst e) (snd e).
Proof. destruct e; reflexivity. Qed.
Ltac step_pairs_eta := rewrite ?pair_match_eta; cbv zeta; cbn [fst snd].

(* the condition "i is positive" of a downward loop, in any of its source spellings (`i > 0`, `0 < i`, `i >= 1`, `1 <= i`) *)
Lemma leb_1_of_nat a : (1 <=? Z.of_nat a) = (0 <? a)%nat.
Proof. destruct (Z.leb_spec 1 (Z.of_nat a)), (Nat.ltb_spec 0 a); try reflexivity; lia. Qed.
Ltac pos_cond := rewrite ?Z.gtb_ltb, ?Z.geb_leb; first [rewrite ltb_0_of_nat | rewrite leb_1_of_nat].
Ltac pos_cond_in H := rewrite ?Z.gtb_ltb, ?Z.geb_leb in H; first [rewrite ltb_0_of_nat in H | rewrite leb_1_of_nat in H].

(* a goal `cond = true / false` about integer comparisons, whatever the spelling of the condition in the source
   (`i < N`, `N > i`, `i != N`, `i > 0`, `i >= 1`, ..): case analysis on every comparison, the rest is linear arithmetic *)
Ltac zbool_lia :=
  cbv beta iota; rewrite ?Z.gtb_ltb, ?Z.geb_leb;
  repeat match goal with
         | |- context [?a <? ?b] => destruct (Z.ltb_spec a b)
         | |- context [?a <=? ?b] => destruct (Z.leb_spec a b)
         | |- context [?a =? ?b] => destruct (Z.eqb_spec a b)
         end;
  cbn [negb andb orb]; first [reflexivity | lia].

(* loop_scan2_all / loop_map2_all / loop_map1_all with the loop condition given by its truth values instead of its text
   (`i < N`, `N > i`, `i != N` all qualify; the two premises are closed by `intros; zbool_lia`) *)
Lemma loop_scan2_all_c {C R : Type} (g : Z -> Z -> C -> Z * C) (a b : list Z)
      (cond : list Z * C * Z -> bool) (body : list Z * C * Z -> res (flow (list Z * C * Z) R))
      fuel c0 out0 :
  length b = length a -> length out0 = length a -> (length a <= fuel)%nat ->
  (forall out c j, (j < length a)%nat -> cond (out, c, Z.of_nat j) = true) ->
  (forall out c, cond (out, c, Z.of_nat (length a)) = false) ->
  (forall out c j, (j < length a)%nat -> length out = length a ->
     body (out, c, Z.of_nat j) =
     Done (Continue (list_set out j (fst (g (nth j a 0) (nth j b 0) c)),
                     snd (g (nth j a 0) (nth j b 0) c), Z.of_nat j + 1))) ->
  while_loop fuel cond body (out0, c0, 0) =
  Done (Exited (fst (scan2 g a b c0), snd (scan2 g a b c0), Z.of_nat (length a))).
Proof.
  intros Hb Ho Hf Hct Hcf Hbody.
  rewrite (loop_writes0 (fun out c j => (out, c, Z.of_nat j)) (fun j => (0 + j)%nat)
             (fun j c => g (nth j a 0) (nth j b 0) c) cond body (length a) (length a) fuel out0 c0);
    try first [reflexivity | assumption].
  - rewrite run_writes_up by (rewrite Ho; lia). cbn [fst snd Nat.add firstn app].
    rewrite skipn_all2 by lia. rewrite app_nil_r.
    rewrite (scan_idx_scan2 g a b) by (intros; reflexivity || (symmetry; assumption)).
    reflexivity.
  - intros out c j Hj Hl. rewrite Hbody by assumption. cbn [Nat.add].
    rewrite Nat2Z.inj_succ. reflexivity.
Qed.

Lemma loop_map2_all_c {R : Type} (h : Z -> Z -> Z) (a b : list Z)
      (cond : list Z * Z -> bool) (body : list Z * Z -> res (flow (list Z * Z) R)) fuel out0 :
  length b = length a -> length out0 = length a -> (length a <= fuel)%nat ->
  (forall out j, (j < length a)%nat -> cond (out, Z.of_nat j) = true) ->
  (forall out, cond (out, Z.of_nat (length a)) = false) ->
  (forall out j, (j < length a)%nat -> length out = length a ->
     body (out, Z.of_nat j) = Done (Continue (list_set out j (h (nth j a 0) (nth j b 0)), Z.of_nat j + 1))) ->
  while_loop fuel cond body (out0, 0) =
  Done (Exited (fst (scan2 (fun x y (_ : unit) => (h x y, tt)) a b tt), Z.of_nat (length a))).
Proof.
  intros Hb Ho Hf Hct Hcf Hbody.
  rewrite (loop_writes0 (fun out (_ : unit) j => (out, Z.of_nat j)) (fun j => (0 + j)%nat)
             (fun j c => (h (nth j a 0) (nth j b 0), tt)) cond body (length a) (length a) fuel out0 tt);
    try first [reflexivity | assumption].
  - rewrite run_writes_up by (rewrite Ho; lia). cbn [fst snd Nat.add firstn app].
    rewrite skipn_all2 by lia. rewrite app_nil_r.
    rewrite (scan_idx_scan2 (fun x y (_ : unit) => (h x y, tt)) a b) by (intros; reflexivity || (symmetry; assumption)).
    reflexivity.
  - intros out c j Hj. apply Hct. exact Hj.
  - intros out c. apply Hcf.
  - intros out c j Hj Hl. rewrite Hbody by assumption. cbn [Nat.add fst snd].
    rewrite Nat2Z.inj_succ. reflexivity.
Qed.

Lemma loop_map1_all_c {R : Type} (h : Z -> Z) (l : list Z)
      (cond : list Z * Z -> bool) (body : list Z * Z -> res (flow (list Z * Z) R)) fuel out0 :
  length out0 = length l -> (length l <= fuel)%nat ->
  (forall out j, (j < length l)%nat -> cond (out, Z.of_nat j) = true) ->
  (forall out, cond (out, Z.of_nat (length l)) = false) ->
  (forall out j, (j < length l)%nat -> length out = length l ->
     body (out, Z.of_nat j) = Done (Continue (list_set out j (h (nth j l 0)), Z.of_nat j + 1))) ->
  while_loop fuel cond body (out0, 0) = Done (Exited (map h l, Z.of_nat (length l))).
Proof.
  intros Ho Hf Hct Hcf Hbody.
  rewrite (loop_writes0 (fun out (_ : unit) j => (out, Z.of_nat j)) (fun j => (0 + j)%nat)
             (fun j c => (h (nth j l 0), tt)) cond body (length l) (length l) fuel out0 tt);
    try first [reflexivity | assumption].
  - rewrite run_writes_up by (rewrite Ho; lia). cbn [fst snd Nat.add firstn app].
    rewrite skipn_all2 by lia. rewrite app_nil_r.
    rewrite (scan_idx_scan1 (fun x (_ : unit) => (h x, tt)) l) by (intros; reflexivity).
    rewrite scan1_map. reflexivity.
  - intros out c j Hj. apply Hct. exact Hj.
  - intros out c. apply Hcf.
  - intros out c j Hj Hl. rewrite Hbody by assumption. cbn [Nat.add fst snd].
    rewrite Nat2Z.inj_succ. reflexivity.
Qed.

(* the same for a hypothesis `H : cond = true / false`: case analysis on the comparisons in H (contradictory cases closed) *)
Ltac zbool_hyp H :=
  cbv beta iota in H; rewrite ?Z.gtb_ltb, ?Z.geb_leb in H;
  repeat match type of H with
         | context [?a <? ?b] => destruct (Z.ltb_spec a b)
         | context [?a <=? ?b] => destruct (Z.leb_spec a b)
         | context [?a =? ?b] => destruct (Z.eqb_spec a b)
         end;
  cbn [negb andb orb] in H; try discriminate H.

(* H : <condition of an upward loop at counter a, bound b> = true  becomes  H : (a < b)%nat, for the spellings `a < b`
   (`b > a`) and `a != b` (the latter needs the invariant a <= b in the context); cond_false_in: H : (b <= a)%nat, resp. H : a = b *)
Ltac cond_true_in H :=
  match type of H with
  | (Z.of_nat ?a <? Z.of_nat ?b) = true => rewrite ltb_of_nat in H; apply Nat.ltb_lt in H
  | negb (Z.of_nat ?a =? Z.of_nat ?b) = true =>
      let H' := fresh in assert (H' : (a < b)%nat) by (zbool_hyp H; lia); clear H; rename H' into H
  | negb (Z.of_nat ?b =? Z.of_nat ?a) = true =>
      let H' := fresh in assert (H' : (a < b)%nat) by (zbool_hyp H; lia); clear H; rename H' into H
  end.
Ltac cond_false_in H :=
  match type of H with
  | (Z.of_nat ?a <? Z.of_nat ?b) = false => rewrite ltb_of_nat in H; apply Nat.ltb_ge in H
  | negb (Z.of_nat ?a =? Z.of_nat ?b) = false =>       (* `a != b` is false: the counter has reached the bound *)
      let H' := fresh in assert (H' : a = b) by (zbool_hyp H; lia); clear H; rename H' into H
  end.

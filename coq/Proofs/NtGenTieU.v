(* Proofs/NtGenTieU.v — tie, part 2: `impl Integer for $BUint<N>` (div_floor, mod_floor, gcd, lcm, is_multiple_of, divides,
   is_even, is_odd, div_rem) and the four `PrimInt` shifts of src/buint/numtraits.rs.
   Shape: `NtGen.f .. fuel args = Done / of_outcome (<hand model> args)`; for gcd / lcm, whose model runs the loop on its own
   budget gcd_fuel, `fo_matches (TU_f ..) (NtGen.f .. fuel ..)` for every fuel >= gcd_fuel (and the exact equation, NoFuel <->
   None, when both run on the same budget). *)
From Bnum Require Import Base Prim.
From Bnum.Model Require Import Digit DigitPrims Core Shift AddSub Mul Div Bits Pow Imp ImpParse NumTraits.
From Bnum.Model Require Ops.
From Bnum.Generated Require Import NtGen.
From Bnum.Proofs Require Import ImpLemmas ImpLemmas2 NtGenTieBase.

Lemma nt_U_div_floor w N fuel a b : NtGen.U_div_floor w N fuel a b = of_outcome (TU_div_floor w a b).
Proof. unfold NtGen.U_div_floor, TU_div_floor. apply bind_done_r. Qed.

Lemma nt_U_mod_floor w N fuel a b : NtGen.U_mod_floor w N fuel a b = of_outcome (TU_mod_floor w a b).
Proof. unfold NtGen.U_mod_floor, TU_mod_floor. apply bind_done_r. Qed.

Lemma nt_U_div_rem w N fuel a b : NtGen.U_div_rem w N fuel a b = of_outcome (TU_div_rem w a b).
Proof. unfold NtGen.U_div_rem, TU_div_rem. apply bind_done_r. Qed.

Lemma nt_U_is_multiple_of w N fuel a b : NtGen.U_is_multiple_of w N fuel a b = of_outcome (TU_is_multiple_of w a b).
Proof.
  unfold NtGen.U_is_multiple_of, TU_is_multiple_of. rewrite nt_U_mod_floor.
  destruct (TU_mod_floor w a b); reflexivity.
Qed.

Lemma nt_U_divides w N fuel a b : NtGen.U_divides w N fuel a b = of_outcome (TU_divides w a b).
Proof. unfold NtGen.U_divides, TU_divides. rewrite bind_done_r. apply nt_U_is_multiple_of. Qed.

(* `self.digits[0]`: the code needs a digit 0 (N = 0: index panic; the model's `hd 0` gives 0 there) *)
Lemma nt_U_is_even w N fuel a : (0 < length a)%nat -> NtGen.U_is_even w N fuel a = Done (TU_is_even a).
Proof. destruct a as [|d r]; cbn [length]; [lia|]. intros _. unfold NtGen.U_is_even. rewrite arr_get_head. reflexivity. Qed.

Lemma nt_U_is_odd w N fuel a : (0 < length a)%nat -> NtGen.U_is_odd w N fuel a = Done (TU_is_odd a).
Proof. destruct a as [|d r]; cbn [length]; [lia|]. intros _. unfold NtGen.U_is_odd. rewrite arr_get_head. reflexivity. Qed.

Lemma nt_U_is_even_nil w N fuel : NtGen.U_is_even w N fuel [] = Panicked.
Proof. reflexivity. Qed.

(* the PrimInt shifts: `self << n` with n : u32 is `impl Shl<u32>` *)
Lemma nt_U_signed_shl dbg w N fuel a k : NtGen.U_signed_shl dbg w N fuel a k = of_outcome (TU_signed_shl dbg w a k).
Proof. unfold NtGen.U_signed_shl. apply bind_done_r. Qed.
Lemma nt_U_signed_shr dbg w N fuel a k : NtGen.U_signed_shr dbg w N fuel a k = of_outcome (TU_signed_shr dbg w a k).
Proof. unfold NtGen.U_signed_shr. apply bind_done_r. Qed.
Lemma nt_U_unsigned_shl dbg w N fuel a k : NtGen.U_unsigned_shl dbg w N fuel a k = of_outcome (TU_unsigned_shl dbg w a k).
Proof. unfold NtGen.U_unsigned_shl. apply bind_done_r. Qed.
Lemma nt_U_unsigned_shr dbg w N fuel a k : NtGen.U_unsigned_shr dbg w N fuel a k = of_outcome (TU_unsigned_shr dbg w a k).
Proof. unfold NtGen.U_unsigned_shr. apply bind_done_r. Qed.

(* ---------- gcd ---------- *)

(* TU_gcd with the budget of its loop as a parameter: TU_gcd is this at gcd_fuel (by definition) *)
Definition TU_gcd_at (fuel : nat) (dbg : bool) (w : Z) (a b : list Z) : fo (list Z) :=
  if is_zero a then fret b
  else if is_zero b then fret a
  else
    let a_tz := trailing_zeros w a in
    let b_tz := trailing_zeros w b in
    let a1 := shr_pad_internal w false a a_tz in
    let b1 := shr_pad_internal w false b b_tz in
    let '(a_tz, b_tz) := if a_tz <? b_tz then (b_tz, a_tz) else (a_tz, b_tz) in
    gcd_loop fuel dbg w a1 b1 b_tz.

Lemma TU_gcd_at_fuel dbg w a b : TU_gcd dbg w a b = TU_gcd_at (gcd_fuel w (length a)) dbg w a b.
Proof. reflexivity. Qed.

(* the generated gcd equals the model's on EVERY budget (NoFuel <-> None, Panicked <-> Some Panic) *)
Lemma nt_U_gcd_at dbg w N fuel a b : NtGen.U_gcd dbg w N fuel a b = res_of_fo (TU_gcd_at fuel dbg w a b).
Proof.
  unfold NtGen.U_gcd, TU_gcd_at. cbv zeta.
  destruct (is_zero a); [reflexivity|]. destruct (is_zero b); [reflexivity|].
  rewrite Z.gtb_ltb.
  destruct (trailing_zeros w a <? trailing_zeros w b).
  - erewrite (gcd_loop_tie dbg w (trailing_zeros w a)).
    + destruct (gcd_loop fuel dbg w _ _ _) as [[r|]|]; reflexivity.
    + intros [x y]. reflexivity.
    + intros x y. cbv beta iota. destruct (cmp_lt (ucmp x y)); cbv beta iota zeta.
      * destruct (U_sub dbg w y x) as [a1|]; cbn [of_outcome bind]; [|reflexivity]. destruct (is_zero a1); reflexivity.
      * destruct (U_sub dbg w x y) as [a1|]; cbn [of_outcome bind]; [|reflexivity]. destruct (is_zero a1); reflexivity.
  - erewrite (gcd_loop_tie dbg w (trailing_zeros w b)).
    + destruct (gcd_loop fuel dbg w _ _ _) as [[r|]|]; reflexivity.
    + intros [x y]. reflexivity.
    + intros x y. cbv beta iota. destruct (cmp_lt (ucmp x y)); cbv beta iota zeta.
      * destruct (U_sub dbg w y x) as [a1|]; cbn [of_outcome bind]; [|reflexivity]. destruct (is_zero a1); reflexivity.
      * destruct (U_sub dbg w x y) as [a1|]; cbn [of_outcome bind]; [|reflexivity]. destruct (is_zero a1); reflexivity.
Qed.

Lemma TU_gcd_at_mono dbg w a b f f' o : (f <= f')%nat -> TU_gcd_at f dbg w a b = Some o -> TU_gcd_at f' dbg w a b = Some o.
Proof.
  intros Hle. unfold TU_gcd_at. cbv zeta.
  destruct (is_zero a); [exact (fun E => E)|]. destruct (is_zero b); [exact (fun E => E)|].
  destruct (trailing_zeros w a <? trailing_zeros w b); apply gcd_loop_mono; exact Hle.
Qed.

Lemma nt_U_gcd_exact dbg w N a b :
  NtGen.U_gcd dbg w N (gcd_fuel w (length a)) a b = res_of_fo (TU_gcd dbg w a b).
Proof. rewrite TU_gcd_at_fuel. apply nt_U_gcd_at. Qed.

Lemma nt_U_gcd dbg w N a b fuel : (gcd_fuel w (length a) <= fuel)%nat ->
  fo_matches (TU_gcd dbg w a b) (NtGen.U_gcd dbg w N fuel a b).
Proof.
  intros Hf. rewrite nt_U_gcd_at, TU_gcd_at_fuel.
  destruct (TU_gcd_at (gcd_fuel w (length a)) dbg w a b) as [o|] eqn:E; [|exact I].
  rewrite (TU_gcd_at_mono dbg w a b _ fuel o Hf E). destruct o; reflexivity.
Qed.

(* ---------- lcm ---------- *)
Lemma nt_U_lcm dbg w a b fuel : (gcd_fuel w (length a) <= fuel)%nat ->
  fo_matches (TU_lcm dbg w a b) (NtGen.U_lcm dbg w (Z.of_nat (length a)) fuel a b).
Proof.
  intros Hf. unfold NtGen.U_lcm, TU_lcm.
  destruct (is_zero a || is_zero b)%bool; [rewrite Nat2Z.id; reflexivity|].
  apply fo_matches_fbind; [apply (nt_U_gcd dbg w _ a b fuel Hf)|].
  intros g. rewrite nt_U_div_floor.
  destruct (TU_div_floor w a g) as [q|]; cbn [of_outcome bind obind flift fo_matches]; [|reflexivity].
  destruct (U_mul dbg w q b); reflexivity.
Qed.

(* ---------- summary ---------- *)
Theorem nt_U_integer_matches_model :
  (forall w N fuel a b, NtGen.U_div_floor w N fuel a b = of_outcome (TU_div_floor w a b)) /\
  (forall w N fuel a b, NtGen.U_mod_floor w N fuel a b = of_outcome (TU_mod_floor w a b)) /\
  (forall dbg w N a b fuel, (gcd_fuel w (length a) <= fuel)%nat ->
     match TU_gcd dbg w a b with
     | Some (Ret r) => NtGen.U_gcd dbg w N fuel a b = Done r
     | Some Panic => NtGen.U_gcd dbg w N fuel a b = Panicked
     | None => True
     end) /\
  (forall dbg w N a b, NtGen.U_gcd dbg w N (gcd_fuel w (length a)) a b =
     match TU_gcd dbg w a b with Some (Ret r) => Done r | Some Panic => Panicked | None => NoFuel end) /\
  (forall dbg w a b fuel, (gcd_fuel w (length a) <= fuel)%nat ->
     match TU_lcm dbg w a b with
     | Some (Ret r) => NtGen.U_lcm dbg w (Z.of_nat (length a)) fuel a b = Done r
     | Some Panic => NtGen.U_lcm dbg w (Z.of_nat (length a)) fuel a b = Panicked
     | None => True
     end) /\
  (forall w N fuel a b, NtGen.U_is_multiple_of w N fuel a b = of_outcome (TU_is_multiple_of w a b)) /\
  (forall w N fuel a b, NtGen.U_divides w N fuel a b = of_outcome (TU_divides w a b)) /\
  (forall w N fuel a, (0 < length a)%nat -> NtGen.U_is_even w N fuel a = Done (TU_is_even a)) /\
  (forall w N fuel a, (0 < length a)%nat -> NtGen.U_is_odd w N fuel a = Done (TU_is_odd a)) /\
  (forall w N fuel a b, NtGen.U_div_rem w N fuel a b = of_outcome (TU_div_rem w a b)) /\
  (forall dbg w N fuel a k, NtGen.U_signed_shl dbg w N fuel a k = of_outcome (TU_signed_shl dbg w a k)) /\
  (forall dbg w N fuel a k, NtGen.U_signed_shr dbg w N fuel a k = of_outcome (TU_signed_shr dbg w a k)) /\
  (forall dbg w N fuel a k, NtGen.U_unsigned_shl dbg w N fuel a k = of_outcome (TU_unsigned_shl dbg w a k)) /\
  (forall dbg w N fuel a k, NtGen.U_unsigned_shr dbg w N fuel a k = of_outcome (TU_unsigned_shr dbg w a k)).
Proof.
  repeat split.
  - exact nt_U_div_floor.
  - exact nt_U_mod_floor.
  - intros. apply (nt_U_gcd dbg w N a b fuel). assumption.
  - exact nt_U_gcd_exact.
  - intros. apply (nt_U_lcm dbg w a b fuel). assumption.
  - exact nt_U_is_multiple_of.
  - exact nt_U_divides.
  - exact nt_U_is_even.
  - exact nt_U_is_odd.
  - exact nt_U_div_rem.
  - exact nt_U_signed_shl.
  - exact nt_U_signed_shr.
  - exact nt_U_unsigned_shl.
  - exact nt_U_unsigned_shr.
Qed.

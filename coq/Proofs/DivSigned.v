(* Proofs/DivSigned.v *)
From Bnum Require Import Base Prim.

(* Proofs/DivSigned.v — the signed division API of Model/Div.v (everything built on
   I_div_rem_unchecked), relative to the functional spec `U_div_rem_spec w` of the unsigned
   core (Proofs/DivSpec.v).  Notation in comments: M = Mod w n, SA = sval w a, SB = sval w b,
   MIN = -(M/2), MAX = M/2 - 1. *)
From Bnum Require Import Base Prim.
From Bnum.Model Require Import Digit Core Shift AddSub Mul Div.
From Bnum.Proofs Require Import DivAux DivSpec SignedAux DivUnsignedWrap.

(* the one overflowing input of signed division *)
Definition min_neg_one (w : Z) (n : nat) (a b : list Z) : Prop :=
  sval w a = - (Mod w n / 2) /\ sval w b = -1.

(* ---------- pure Z: truncated division through magnitudes ---------- *)

Lemma quot_rem_abs SA SB : SB <> 0 ->
  Z.quot SA SB = (if xorb (SA <? 0) (SB <? 0) then - (Z.abs SA / Z.abs SB) else Z.abs SA / Z.abs SB) /\
  Z.rem SA SB = (if SA <? 0 then - (Z.abs SA mod Z.abs SB) else Z.abs SA mod Z.abs SB).
Proof.
  intros Hnz. destruct (Z.ltb_spec SA 0) as [HA|HA]; destruct (Z.ltb_spec SB 0) as [HB|HB]; cbn [xorb].
  - rewrite (Z.abs_neq SA), (Z.abs_neq SB) by lia.
    rewrite <- (Z.opp_involutive SA) at 1 3. rewrite <- (Z.opp_involutive SB) at 1 3.
    rewrite Z.quot_opp_opp, Z.rem_opp_opp by lia.
    rewrite Z.quot_div_nonneg, Z.rem_mod_nonneg by lia. split; reflexivity.
  - rewrite (Z.abs_neq SA), (Z.abs_eq SB) by lia.
    rewrite <- (Z.opp_involutive SA) at 1 3.
    rewrite Z.quot_opp_l, Z.rem_opp_l by lia.
    rewrite Z.quot_div_nonneg, Z.rem_mod_nonneg by lia. split; reflexivity.
  - rewrite (Z.abs_eq SA), (Z.abs_neq SB) by lia.
    rewrite <- (Z.opp_involutive SB) at 1 3.
    rewrite Z.quot_opp_r, Z.rem_opp_r by lia.
    rewrite Z.quot_div_nonneg, Z.rem_mod_nonneg by lia. split; reflexivity.
  - rewrite (Z.abs_eq SA), (Z.abs_eq SB) by lia.
    rewrite Z.quot_div_nonneg, Z.rem_mod_nonneg by lia. split; reflexivity.
Qed.

Lemma abs_div_bounds X Y h : 1 <= h -> 0 <= X <= h -> 1 <= Y ->
  0 <= X / Y <= h /\ (X / Y = h -> X = h /\ Y = 1) /\ 0 <= X mod Y < Y.
Proof.
  intros Hh HX HY. pose proof (Z.div_mod X Y ltac:(lia)) as E.
  pose proof (Z.mod_pos_bound X Y ltac:(lia)) as Hr.
  assert (0 <= X / Y) by (apply Z.div_pos; lia).
  assert (X / Y <= X) by nia.
  split; [lia|]. split; [|lia]. intros Eq. assert (X = h) by lia. split; [assumption|]. rewrite Eq in E. nia.
Qed.

(* truncated quotient / remainder: the defining equation with the sign and size of the remainder *)
Lemma quot_rem_facts SA SB : SB <> 0 ->
  SA = Z.quot SA SB * SB + Z.rem SA SB /\ Z.abs (Z.rem SA SB) < Z.abs SB /\
  (0 <= SA -> 0 <= Z.rem SA SB) /\ (SA <= 0 -> Z.rem SA SB <= 0).
Proof.
  intros Hnz. pose proof (Z.quot_rem' SA SB) as E. pose proof (Z.rem_bound_abs SA SB Hnz).
  split; [lia|]. split; [assumption|]. split; intros HS.
  - apply Z.rem_nonneg; auto.
  - apply Z.rem_nonpos; auto.
Qed.

Lemma rem_neg_one x : Z.rem x (-1) = 0.
Proof. pose proof (Z.rem_bound_abs x (-1) ltac:(lia)). lia. Qed.

Lemma quot_neg_one x : Z.quot x (-1) = - x.
Proof. pose proof (Z.quot_rem' x (-1)) as E. rewrite rem_neg_one in E. lia. Qed.

(* ---------- small reading lemmas ---------- *)

Lemma sval_small w n a : 0 < w -> (0 < n)%nat -> wf w n a -> uval w a < Mod w n / 2 ->
  sval w a = uval w a.
Proof.
  intros Hw Hn Ha Hlt. pose proof (uval_bounds w n a ltac:(lia) Ha).
  apply (sval_intro_k w n _ _ 0); auto; lia.
Qed.

Lemma sval_half w n a : 0 < w -> (0 < n)%nat -> wf w n a -> uval w a = Mod w n / 2 ->
  sval w a = - (Mod w n / 2).
Proof.
  intros Hw Hn Ha He. pose proof (Mod_even w n Hw Hn). pose proof (Mod_half_pos w n Hw Hn).
  apply (sval_intro_k w n _ _ 1); auto; lia.
Qed.

Lemma uval_one_sval w n b : 0 < w -> (0 < n)%nat -> wf w n b -> uval w b = 1 ->
  sval w b = 1 \/ (Mod w n = 2 /\ sval w b = -1).
Proof.
  intros Hw Hn Hb H1. pose proof (uval_sval w n b Hw Hn Hb) as E.
  pose proof (sval_range w n b Hw Hn Hb). pose proof (Mod_even w n Hw Hn).
  destruct (Z.ltb_spec (sval w b) 0); lia.
Qed.

Lemma sval_one_uval w n b : 0 < w -> (0 < n)%nat -> wf w n b -> sval w b = 1 -> uval w b = 1.
Proof.
  intros Hw Hn Hb H1. pose proof (uval_sval w n b Hw Hn Hb) as E.
  destruct (Z.ltb_spec (sval w b) 0); lia.
Qed.

(* ---------- div_rem_unchecked ---------- *)

(* every nonzero divisor: never a panic, in either build mode; the remainder is always exact and the
   quotient is exact except for MIN / -1, where it is the bit pattern of MIN *)
Lemma I_div_rem_unchecked_core dbg w n a b :
  0 < w -> U_div_rem_spec w -> (0 < n)%nat -> wf w n a -> wf w n b -> sval w b <> 0 ->
  exists q r, I_div_rem_unchecked dbg w a b = Ret (q, r) /\ wf w n q /\ wf w n r /\
    sval w r = Z.rem (sval w a) (sval w b) /\
    (min_neg_one w n a b -> sval w q = - (Mod w n / 2)) /\
    (~ min_neg_one w n a b -> sval w q = Z.quot (sval w a) (sval w b)).
Proof.
  intros Hw HS Hn Ha Hb Hnz.
  pose proof (Mod_pos w n ltac:(lia)) as HM. pose proof (Mod_even w n Hw Hn) as HMe.
  pose proof (Mod_half_pos w n Hw Hn) as Hh.
  pose proof (sval_range w n a Hw Hn Ha) as RA. pose proof (sval_range w n b Hw Hn Hb) as RB.
  unfold min_neg_one.
  unfold I_div_rem_unchecked. rewrite (wf_length _ _ _ Ha).
  rewrite (eq_IMIN_spec w n a), (is_one_spec w n b) by auto.
  destruct ((sval w a =? - (Mod w n / 2)) && (uval w b =? 1)) eqn:Esc.
  { apply andb_true_iff in Esc. destruct Esc as [E1 E2]. apply Z.eqb_eq in E1, E2.
    exists a, (ZERO n). split; [reflexivity|]. split; [exact Ha|]. split; [apply wf_ZERO; lia|].
    rewrite sval_ZERO by auto.
    destruct (uval_one_sval w n b Hw Hn Hb E2) as [S1 | [M2 S1]].
    - rewrite S1, Z.rem_1_r, Z.quot_1_r. split; [reflexivity|]. split; intros _; [exact E1 | reflexivity].
    - rewrite E1, S1, M2. split; [reflexivity|]. split; [intros _; reflexivity|].
      intros Hc. exfalso. apply Hc. split; reflexivity. }
  assert (Hns : ~ (sval w a = - (Mod w n / 2) /\ sval w b = 1)).
  { intros [E1 E2]. apply andb_false_iff in Esc. destruct Esc as [Esc|Esc]; apply Z.eqb_neq in Esc.
    - contradiction.
    - apply Esc. apply (sval_one_uval w n); auto. }
  clear Esc.
  destruct (I_unsigned_abs_spec w n a Hw Hn Ha) as [Hua Hva].
  destruct (I_unsigned_abs_spec w n b Hw Hn Hb) as [Hub Hvb].
  assert (Hbnz : uval w (I_unsigned_abs w b) <> 0) by lia.
  destruct (U_div_rem_unchecked_val w n _ _ Hw HS Hua Hub Hbnz) as (Hd & Hr & Hdv & Hrv).
  rewrite Hva, Hvb in Hdv, Hrv.
  destruct (U_div_rem_unchecked w (I_unsigned_abs w a) (I_unsigned_abs w b)) as [d r].
  cbn [fst snd] in *.
  destruct (abs_div_bounds (Z.abs (sval w a)) (Z.abs (sval w b)) (Mod w n / 2))
    as (D1 & D2 & D3); [lia | lia | lia |].
  rewrite <- Hdv in D1, D2. rewrite <- Hrv in D3.
  assert (Hsr : sval w r = uval w r) by (apply (sval_small w n); auto; lia).
  pose proof (quot_rem_abs (sval w a) (sval w b) Hnz) as QR.
  rewrite <- Hdv, <- Hrv in QR. destruct QR as [Q R].
  rewrite (is_negative_spec w n a), (is_negative_spec w n b) by auto.
  assert (Hnegr : SRet w n (I_neg dbg w r) (- sval w r)).
  { apply I_neg_spec; auto. lia. }
  destruct Hnegr as (r' & Er' & Hr' & Hvr').
  assert (Hdec : (sval w a = - (Mod w n / 2) /\ sval w b = -1) \/
                 ~ (sval w a = - (Mod w n / 2) /\ sval w b = -1)) by lia.
  destruct Hdec as [[E1 E2] | Hno].
  - (* MIN / -1 *)
    replace (sval w a <? 0) with true in * by (symmetry; apply Z.ltb_lt; lia).
    replace (sval w b <? 0) with true in * by (symmetry; apply Z.ltb_lt; lia).
    rewrite Er'. cbn [omap]. exists d, r'.
    split; [reflexivity|]. split; [exact Hd|]. split; [exact Hr'|].
    split; [rewrite Hvr', Hsr; exact (eq_sym R)|].
    split; [intros _ | intros Hc; exfalso; apply Hc; auto].
    apply (sval_half w n); auto. rewrite Hdv, E1, E2.
    change (Z.abs (-1)) with 1. rewrite Z.div_1_r. lia.
  - assert (Hdlt : uval w d < Mod w n / 2).
    { destruct (Z.eq_dec (uval w d) (Mod w n / 2)) as [Eq|Ne]; [|lia].
      destruct (D2 Eq) as [X1 X2]. exfalso.
      assert (sval w a = - (Mod w n / 2)) by lia.
      assert (sval w b = 1 \/ sval w b = -1) by lia. intuition. }
    assert (Hsd : sval w d = uval w d) by (apply (sval_small w n); auto).
    assert (Hnegd : SRet w n (I_neg dbg w d) (- sval w d)).
    { apply I_neg_spec; auto. lia. }
    destruct Hnegd as (d' & Ed' & Hd' & Hvd').
    revert Q R.
    destruct (Z.ltb_spec (sval w a) 0) as [SA|SA]; destruct (Z.ltb_spec (sval w b) 0) as [SB|SB];
      cbn [xorb]; intros Q R.
    + rewrite Er'. cbn [omap]. exists d, r'.
      split; [reflexivity|]. split; [exact Hd|]. split; [exact Hr'|].
      split; [rewrite Hvr', Hsr; exact (eq_sym R)|].
      split; [intros Hc; exfalso; apply Hno; exact Hc | intros _; rewrite Hsd; exact (eq_sym Q)].
    + rewrite Ed'. cbn [obind]. rewrite Er'. cbn [omap]. exists d', r'.
      split; [reflexivity|]. split; [exact Hd'|]. split; [exact Hr'|].
      split; [rewrite Hvr', Hsr; exact (eq_sym R)|].
      split; [intros Hc; exfalso; apply Hno; exact Hc | intros _; rewrite Hvd', Hsd; exact (eq_sym Q)].
    + rewrite Ed'. cbn [omap]. exists d', r.
      split; [reflexivity|]. split; [exact Hd'|]. split; [exact Hr|].
      split; [rewrite Hsr; exact (eq_sym R)|].
      split; [intros Hc; exfalso; apply Hno; exact Hc | intros _; rewrite Hvd', Hsd; exact (eq_sym Q)].
    + exists d, r.
      split; [reflexivity|]. split; [exact Hd|]. split; [exact Hr|].
      split; [rewrite Hsr; exact (eq_sym R)|].
      split; [intros Hc; exfalso; apply Hno; exact Hc | intros _; rewrite Hsd; exact (eq_sym Q)].
Qed.

Theorem I_div_rem_unchecked_ok dbg w n a b :
  0 < w -> U_div_rem_spec w -> (0 < n)%nat -> wf w n a -> wf w n b ->
  sval w b <> 0 -> ~ min_neg_one w n a b ->
  exists q r, I_div_rem_unchecked dbg w a b = Ret (q, r) /\ wf w n q /\ wf w n r /\
    sval w q = Z.quot (sval w a) (sval w b) /\ sval w r = Z.rem (sval w a) (sval w b).
Proof.
  intros Hw HS Hn Ha Hb Hnz Hno.
  destruct (I_div_rem_unchecked_core dbg w n a b Hw HS Hn Ha Hb Hnz)
    as (q & r & E & Hq & Hr & Hrv & _ & Hqv).
  exists q, r. split; [exact E|]. split; [exact Hq|]. split; [exact Hr|].
  split; [apply Hqv; exact Hno | exact Hrv].
Qed.

(* MIN / -1 through div_rem_unchecked: no panic in either mode, the pair (MIN, 0) *)
Theorem I_div_rem_unchecked_min_neg_one dbg w n a b :
  0 < w -> U_div_rem_spec w -> (0 < n)%nat -> wf w n a -> wf w n b -> min_neg_one w n a b ->
  exists q r, I_div_rem_unchecked dbg w a b = Ret (q, r) /\ wf w n q /\ wf w n r /\
    sval w q = - (Mod w n / 2) /\ sval w r = 0.
Proof.
  intros Hw HS Hn Ha Hb Hmno. assert (Hnz : sval w b <> 0) by (destruct Hmno; lia).
  destruct (I_div_rem_unchecked_core dbg w n a b Hw HS Hn Ha Hb Hnz)
    as (q & r & E & Hq & Hr & Hrv & Hqv & _).
  exists q, r. repeat (split; [assumption|]). split; [auto|].
  rewrite Hrv. destruct Hmno as [_ ->]. apply rem_neg_one.
Qed.

(* ---------- the tests at the head of every wrapper ---------- *)

Lemma mno_test_true w n a b : 0 < w -> (0 < n)%nat -> wf w n a -> wf w n b ->
  min_neg_one w n a b -> eq_digits a (IMIN w n) && eq_digits b (NEG_ONE w n) = true.
Proof.
  intros Hw Hn Ha Hb [E1 E2]. rewrite (eq_IMIN_spec w n a), (eq_NEG_ONE_spec w n b) by auto.
  rewrite E1, E2, !Z.eqb_refl. reflexivity.
Qed.

Lemma mno_test_false w n a b : 0 < w -> (0 < n)%nat -> wf w n a -> wf w n b ->
  ~ min_neg_one w n a b -> eq_digits a (IMIN w n) && eq_digits b (NEG_ONE w n) = false.
Proof.
  intros Hw Hn Ha Hb Hno. rewrite (eq_IMIN_spec w n a), (eq_NEG_ONE_spec w n b) by auto.
  apply andb_false_iff. unfold min_neg_one in Hno.
  destruct (Z.eqb_spec (sval w a) (- (Mod w n / 2))); [|left; reflexivity].
  destruct (Z.eqb_spec (sval w b) (-1)); [|right; reflexivity]. tauto.
Qed.

Lemma zero_test_true w n b : 0 < w -> (0 < n)%nat -> wf w n b -> sval w b = 0 -> is_zero b = true.
Proof. intros Hw Hn Hb E. rewrite (is_zero_sval w n) by auto. apply Z.eqb_eq. exact E. Qed.

Lemma zero_test_false w n b : 0 < w -> (0 < n)%nat -> wf w n b -> sval w b <> 0 -> is_zero b = false.
Proof. intros Hw Hn Hb E. rewrite (is_zero_sval w n) by auto. apply Z.eqb_neq. exact E. Qed.

(* the MIN / 1 shortcut of the overflowing forms, reached only when MIN / -1 has been excluded *)
Lemma shortcut_test w n a b : 0 < w -> (0 < n)%nat -> wf w n a -> wf w n b ->
  ~ min_neg_one w n a b -> eq_digits a (IMIN w n) && is_one b = true ->
  sval w a = - (Mod w n / 2) /\ sval w b = 1.
Proof.
  intros Hw Hn Ha Hb Hno E. apply andb_true_iff in E. destruct E as [E1 E2].
  rewrite (eq_IMIN_spec w n a) in E1 by auto. rewrite (is_one_spec w n b) in E2 by auto.
  apply Z.eqb_eq in E1, E2. split; [exact E1|].
  destruct (uval_one_sval w n b Hw Hn Hb E2) as [S1 | [_ S1]]; [exact S1|].
  exfalso. apply Hno. split; assumption.
Qed.

Lemma mno_dec w n a b : min_neg_one w n a b \/ ~ min_neg_one w n a b.
Proof. unfold min_neg_one. lia. Qed.

Lemma mno_nz w n a b : min_neg_one w n a b -> sval w b <> 0.
Proof. intros [_ E]. lia. Qed.

(* ---------- overflowing_div / overflowing_rem, div / rem ---------- *)

Theorem I_overflowing_div_ok dbg w n a b :
  0 < w -> U_div_rem_spec w -> (0 < n)%nat -> wf w n a -> wf w n b ->
  (sval w b = 0 -> I_overflowing_div dbg w a b = Panic) /\
  (min_neg_one w n a b -> I_overflowing_div dbg w a b = Ret (a, true)) /\
  (sval w b <> 0 -> ~ min_neg_one w n a b ->
     exists q, I_overflowing_div dbg w a b = Ret (q, false) /\ wf w n q /\
       sval w q = Z.quot (sval w a) (sval w b)).
Proof.
  intros Hw HS Hn Ha Hb. unfold I_overflowing_div. cbv zeta. rewrite (wf_length _ _ _ Ha).
  split; [|split].
  - intros Hz. rewrite (zero_test_true w n b) by auto. reflexivity.
  - intros Hm. rewrite (zero_test_false w n b) by (auto; eapply mno_nz; eauto).
    rewrite (mno_test_true w n a b) by auto. reflexivity.
  - intros Hnz Hno. rewrite (zero_test_false w n b), (mno_test_false w n a b) by auto.
    destruct (eq_digits a (IMIN w n) && is_one b) eqn:Esc.
    + destruct (shortcut_test w n a b Hw Hn Ha Hb Hno Esc) as [E1 E2].
      exists a. split; [reflexivity|]. split; [exact Ha|]. rewrite E2, Z.quot_1_r. reflexivity.
    + destruct (I_div_rem_unchecked_ok dbg w n a b Hw HS Hn Ha Hb Hnz Hno)
        as (q & r & -> & Hq & Hr & Hqv & Hrv).
      cbn [omap fst]. exists q. auto.
Qed.

Theorem I_overflowing_rem_ok dbg w n a b :
  0 < w -> U_div_rem_spec w -> (0 < n)%nat -> wf w n a -> wf w n b ->
  (sval w b = 0 -> I_overflowing_rem dbg w a b = Panic) /\
  (min_neg_one w n a b -> I_overflowing_rem dbg w a b = Ret (ZERO n, true)) /\
  (sval w b <> 0 -> ~ min_neg_one w n a b ->
     exists r, I_overflowing_rem dbg w a b = Ret (r, false) /\ wf w n r /\
       sval w r = Z.rem (sval w a) (sval w b)).
Proof.
  intros Hw HS Hn Ha Hb. unfold I_overflowing_rem. cbv zeta. rewrite (wf_length _ _ _ Ha).
  split; [|split].
  - intros Hz. rewrite (zero_test_true w n b) by auto. reflexivity.
  - intros Hm. rewrite (zero_test_false w n b) by (auto; eapply mno_nz; eauto).
    rewrite (mno_test_true w n a b) by auto. reflexivity.
  - intros Hnz Hno. rewrite (zero_test_false w n b), (mno_test_false w n a b) by auto.
    destruct (I_div_rem_unchecked_ok dbg w n a b Hw HS Hn Ha Hb Hnz Hno)
      as (q & r & -> & Hq & Hr & Hqv & Hrv).
    cbn [omap snd]. exists r. auto.
Qed.

(* inherent div / rem (and strict_div / strict_rem): panic exactly on a zero divisor or MIN / -1,
   in both build modes *)
Theorem I_div_ok dbg w n a b :
  0 < w -> U_div_rem_spec w -> (0 < n)%nat -> wf w n a -> wf w n b ->
  (sval w b = 0 \/ min_neg_one w n a b -> I_div dbg w a b = Panic) /\
  (sval w b <> 0 -> ~ min_neg_one w n a b ->
     SRet w n (I_div dbg w a b) (Z.quot (sval w a) (sval w b))).
Proof.
  intros Hw HS Hn Ha Hb. unfold I_div. cbv zeta. rewrite (wf_length _ _ _ Ha). split.
  - intros [Hz | Hm].
    + rewrite (zero_test_true w n b) by auto. destruct (_ && _); reflexivity.
    + rewrite (mno_test_true w n a b) by auto. reflexivity.
  - intros Hnz Hno. rewrite (zero_test_false w n b), (mno_test_false w n a b) by auto.
    destruct (I_div_rem_unchecked_ok dbg w n a b Hw HS Hn Ha Hb Hnz Hno)
      as (q & r & -> & Hq & Hr & Hqv & Hrv).
    cbn [omap fst]. exists q. auto.
Qed.

Theorem I_rem_ok dbg w n a b :
  0 < w -> U_div_rem_spec w -> (0 < n)%nat -> wf w n a -> wf w n b ->
  (sval w b = 0 \/ min_neg_one w n a b -> I_rem dbg w a b = Panic) /\
  (sval w b <> 0 -> ~ min_neg_one w n a b ->
     SRet w n (I_rem dbg w a b) (Z.rem (sval w a) (sval w b))).
Proof.
  intros Hw HS Hn Ha Hb. unfold I_rem. cbv zeta. rewrite (wf_length _ _ _ Ha). split.
  - intros [Hz | Hm].
    + rewrite (zero_test_true w n b) by auto. destruct (_ && _); reflexivity.
    + rewrite (mno_test_true w n a b) by auto. reflexivity.
  - intros Hnz Hno. rewrite (zero_test_false w n b), (mno_test_false w n a b) by auto.
    destruct (I_div_rem_unchecked_ok dbg w n a b Hw HS Hn Ha Hb Hnz Hno)
      as (q & r & -> & Hq & Hr & Hqv & Hrv).
    cbn [omap snd]. exists r. auto.
Qed.

Theorem I_strict_div_ok dbg w n a b :
  0 < w -> U_div_rem_spec w -> (0 < n)%nat -> wf w n a -> wf w n b ->
  (sval w b = 0 \/ min_neg_one w n a b -> I_strict_div dbg w a b = Panic) /\
  (sval w b <> 0 -> ~ min_neg_one w n a b ->
     SRet w n (I_strict_div dbg w a b) (Z.quot (sval w a) (sval w b))).
Proof. exact (I_div_ok dbg w n a b). Qed.

Theorem I_strict_rem_ok dbg w n a b :
  0 < w -> U_div_rem_spec w -> (0 < n)%nat -> wf w n a -> wf w n b ->
  (sval w b = 0 \/ min_neg_one w n a b -> I_strict_rem dbg w a b = Panic) /\
  (sval w b <> 0 -> ~ min_neg_one w n a b ->
     SRet w n (I_strict_rem dbg w a b) (Z.rem (sval w a) (sval w b))).
Proof. exact (I_rem_ok dbg w n a b). Qed.

(* ---------- pure Z: Euclidean division ---------- *)

(* remainder in [0, |SB|), quotient determined by q * SB + r = SA *)
Definition erem (SA SB : Z) : Z := SA mod Z.abs SB.
Definition ediv (SA SB : Z) : Z := (SA - erem SA SB) / SB.

Lemma euclid_unique SA SB q r : SB <> 0 -> SA = q * SB + r -> 0 <= r < Z.abs SB ->
  q = ediv SA SB /\ r = erem SA SB.
Proof.
  intros Hnz E Hr. assert (Hrem : r = erem SA SB).
  { unfold erem. destruct (Z.abs_spec SB) as [[Hs Ha] | [Hs Ha]]; rewrite Ha in *.
    - apply Z.mod_unique_pos with (q := q); lia.
    - apply Z.mod_unique_pos with (q := - q); lia. }
  split; [|exact Hrem]. unfold ediv. rewrite <- Hrem.
  replace (SA - r) with (q * SB) by lia. symmetry. apply Z.div_mul. exact Hnz.
Qed.

Lemma euclid_spec SA SB : SB <> 0 ->
  ediv SA SB * SB + erem SA SB = SA /\ 0 <= erem SA SB < Z.abs SB.
Proof.
  intros Hnz. assert (Hb : 0 <= erem SA SB < Z.abs SB) by (apply Z.mod_pos_bound; lia).
  split; [|exact Hb]. unfold ediv.
  assert (Hd : (SB | SA - erem SA SB)).
  { unfold erem. apply Z.divide_abs_l. apply Z.mod_divide; [lia|].
    rewrite Zminus_mod, Z.mod_mod, Z.sub_diag by lia. apply Z.mod_0_l. lia. }
  destruct Hd as [k Hk]. rewrite Hk, Z.div_mul by exact Hnz. lia.
Qed.

(* the adjustment of the truncated pair that the model performs *)
Lemma euclid_from_trunc SA SB : SB <> 0 ->
  ediv SA SB =
    (if (SA <? 0) && negb (Z.rem SA SB =? 0)
     then if SB <? 0 then Z.quot SA SB + 1 else Z.quot SA SB - 1
     else Z.quot SA SB) /\
  erem SA SB =
    (if Z.rem SA SB <? 0 then if SB <? 0 then Z.rem SA SB - SB else Z.rem SA SB + SB
     else Z.rem SA SB).
Proof.
  intros Hnz. destruct (quot_rem_facts SA SB Hnz) as (E & Hab & Hpos & Hneg).
  set (q := Z.quot SA SB) in *. set (r := Z.rem SA SB) in *.
  destruct (Z.ltb_spec SA 0) as [HA|HA]; destruct (Z.eqb_spec r 0) as [Hr|Hr]; cbn [andb negb];
    destruct (Z.ltb_spec r 0) as [Hr0|Hr0]; try lia;
    try (destruct (euclid_unique SA SB q r Hnz E ltac:(lia)) as [<- <-]; split; reflexivity).
  - destruct (Z.ltb_spec SB 0) as [HB|HB].
    + destruct (euclid_unique SA SB (q + 1) (r - SB) Hnz ltac:(lia) ltac:(lia)) as [<- <-].
      split; reflexivity.
    + destruct (euclid_unique SA SB (q - 1) (r + SB) Hnz ltac:(lia) ltac:(lia)) as [<- <-].
      split; reflexivity.
Qed.

(* magnitude of the truncated quotient when the remainder is not zero *)
Lemma quot_small SA SB h : SB <> 0 -> - h <= SA < h -> - h <= SB < h -> Z.rem SA SB <> 0 ->
  2 <= h /\ 2 * Z.abs (Z.quot SA SB) + 1 <= h.
Proof.
  intros Hnz RA RB Hr. destruct (quot_rem_abs SA SB Hnz) as [Q R].
  assert (Hm : Z.abs SA mod Z.abs SB <> 0) by (destruct (SA <? 0); lia).
  assert (HY : 2 <= Z.abs SB).
  { destruct (Z.eq_dec (Z.abs SB) 1) as [E1|]; [|lia]. rewrite E1, Z.mod_1_r in Hm. lia. }
  pose proof (Z.div_mod (Z.abs SA) (Z.abs SB) ltac:(lia)) as E.
  pose proof (Z.mod_pos_bound (Z.abs SA) (Z.abs SB) ltac:(lia)).
  assert (0 <= Z.abs SA / Z.abs SB) by (apply Z.div_pos; lia).
  assert (Z.abs (Z.quot SA SB) = Z.abs SA / Z.abs SB) by (destruct (xorb _ _); lia).
  split; [lia|]. nia.
Qed.

Lemma quot_sign SA SB : SB <> 0 ->
  (((SA <? 0) = (SB <? 0)) -> 0 <= Z.quot SA SB) /\ (((SA <? 0) <> (SB <? 0)) -> Z.quot SA SB <= 0).
Proof.
  intros Hnz. destruct (quot_rem_abs SA SB Hnz) as [Q _].
  assert (0 <= Z.abs SA / Z.abs SB) by (apply Z.div_pos; lia).
  destruct (SA <? 0); destruct (SB <? 0); cbn [xorb] in Q; split; intros; try congruence; lia.
Qed.

(* ---------- overflowing_div_euclid / overflowing_rem_euclid ---------- *)

Lemma four_le_Mod w n h : 0 < w -> (0 < n)%nat -> h = Mod w n / 2 -> 2 <= h -> 4 <= Mod w n.
Proof. intros Hw Hn -> Hh. pose proof (Mod_even w n Hw Hn). lia. Qed.

(* the +-1 adjustment of the truncated quotient never overflows: it is only made when the
   remainder is nonzero, i.e. |SB| >= 2, so |quotient| <= (M/2 - 1) / 2 *)
Theorem I_overflowing_div_euclid_ok dbg w n a b :
  0 < w -> U_div_rem_spec w -> (0 < n)%nat -> wf w n a -> wf w n b ->
  (sval w b = 0 -> I_overflowing_div_euclid dbg w a b = Panic) /\
  (min_neg_one w n a b -> I_overflowing_div_euclid dbg w a b = Ret (a, true)) /\
  (sval w b <> 0 -> ~ min_neg_one w n a b ->
     exists q, I_overflowing_div_euclid dbg w a b = Ret (q, false) /\ wf w n q /\
       sval w q = ediv (sval w a) (sval w b)).
Proof.
  intros Hw HS Hn Ha Hb. unfold I_overflowing_div_euclid. cbv zeta. rewrite (wf_length _ _ _ Ha).
  split; [|split].
  - intros Hz. rewrite (zero_test_true w n b) by auto. reflexivity.
  - intros Hm. rewrite (zero_test_false w n b) by (auto; eapply mno_nz; eauto).
    rewrite (mno_test_true w n a b) by auto. reflexivity.
  - intros Hnz Hno. rewrite (zero_test_false w n b), (mno_test_false w n a b) by auto.
    destruct (eq_digits a (IMIN w n) && is_one b) eqn:Esc.
    + destruct (shortcut_test w n a b Hw Hn Ha Hb Hno Esc) as [E1 E2].
      exists a. split; [reflexivity|]. split; [exact Ha|]. rewrite E2.
      apply (euclid_unique (sval w a) 1 (sval w a) 0); lia.
    + destruct (I_div_rem_unchecked_ok dbg w n a b Hw HS Hn Ha Hb Hnz Hno)
        as (q & r & -> & Hq & Hr & Hqv & Hrv).
      cbn [obind]. rewrite (is_negative_spec w n a), (is_negative_spec w n b) by auto.
      rewrite (is_zero_sval w n r) by auto. rewrite Hrv.
      destruct (euclid_from_trunc (sval w a) (sval w b) Hnz) as [ED _]. rewrite ED, <- Hqv.
      pose proof (sval_range w n a Hw Hn Ha) as RA. pose proof (sval_range w n b Hw Hn Hb) as RB.
      destruct ((sval w a <? 0) && negb (Z.rem (sval w a) (sval w b) =? 0)) eqn:Ec.
      * apply andb_true_iff in Ec. destruct Ec as [_ Ec]. apply negb_true_iff, Z.eqb_neq in Ec.
        destruct (quot_small (sval w a) (sval w b) (Mod w n / 2) Hnz RA RB Ec) as [H2 Hq2].
        rewrite <- Hqv in Hq2.
        pose proof (four_le_Mod w n _ Hw Hn eq_refl H2) as H4.
        pose proof (sval_ONE w n Hw Hn H4) as S1.
        destruct (sval w b <? 0).
        -- destruct (I_add_ok dbg w n q (ONE n) Hw Hn Hq (wf_ONE w n Hw)) as (x & -> & Hx & Hxv);
             [rewrite S1; lia|].
           cbn [omap]. exists x. rewrite Hxv, S1. auto.
        -- destruct (I_sub_ok dbg w n q (ONE n) Hw Hn Hq (wf_ONE w n Hw)) as (x & -> & Hx & Hxv);
             [rewrite S1; lia|].
           cbn [omap]. exists x. rewrite Hxv, S1. auto.
      * exists q. auto.
Qed.

Theorem I_overflowing_rem_euclid_ok dbg w n a b :
  0 < w -> U_div_rem_spec w -> (0 < n)%nat -> wf w n a -> wf w n b ->
  (sval w b = 0 -> I_overflowing_rem_euclid dbg w a b = Panic) /\
  (min_neg_one w n a b -> I_overflowing_rem_euclid dbg w a b = Ret (ZERO n, true)) /\
  (sval w b <> 0 -> ~ min_neg_one w n a b ->
     exists r, I_overflowing_rem_euclid dbg w a b = Ret (r, false) /\ wf w n r /\
       sval w r = erem (sval w a) (sval w b)).
Proof.
  intros Hw HS Hn Ha Hb. unfold I_overflowing_rem_euclid. cbv zeta. rewrite (wf_length _ _ _ Ha).
  split; [|split].
  - intros Hz. rewrite (zero_test_true w n b) by auto. reflexivity.
  - intros Hm. rewrite (zero_test_false w n b) by (auto; eapply mno_nz; eauto).
    rewrite (mno_test_true w n a b) by auto. reflexivity.
  - intros Hnz Hno. rewrite (zero_test_false w n b), (mno_test_false w n a b) by auto.
    destruct (I_div_rem_unchecked_ok dbg w n a b Hw HS Hn Ha Hb Hnz Hno)
      as (q & r & -> & Hq & Hr & Hqv & Hrv).
    cbn [omap snd]. rewrite (is_negative_spec w n r), (is_negative_spec w n b) by auto.
    destruct (euclid_from_trunc (sval w a) (sval w b) Hnz) as [_ ER]. rewrite ER, <- Hrv.
    destruct (quot_rem_facts (sval w a) (sval w b) Hnz) as (_ & Hab & _ & _). rewrite <- Hrv in Hab.
    pose proof (sval_range w n b Hw Hn Hb) as RB.
    pose proof (Mod_pos w n ltac:(lia)) as HM. pose proof (Mod_even w n Hw Hn) as HMe.
    destruct (Z.ltb_spec (sval w r) 0) as [Hr0|Hr0]; [|exists r; auto].
    destruct (Z.ltb_spec (sval w b) 0) as [Hb0|Hb0].
    + destruct (I_wrapping_sub_spec w n r b Hw Hn Hr Hb) as (W1 & _ & W3).
      eexists. split; [reflexivity|]. split; [exact W1|]. rewrite W3. apply wrapS_id; lia.
    + destruct (I_wrapping_add_spec w n r b Hw Hn Hr Hb) as (W1 & _ & W3).
      eexists. split; [reflexivity|]. split; [exact W1|]. rewrite W3. apply wrapS_id; lia.
Qed.

(* ---------- generic projections of an overflowing form ---------- *)

Definition ovf_spec (w : Z) (n : nat) (a b : list Z) (o : outcome (list Z * bool)) (vm v : Z) : Prop :=
  (sval w b = 0 -> o = Panic) /\
  (min_neg_one w n a b -> exists x, o = Ret (x, true) /\ wf w n x /\ sval w x = vm) /\
  (sval w b <> 0 -> ~ min_neg_one w n a b ->
     exists x, o = Ret (x, false) /\ wf w n x /\ sval w x = v).

Lemma ocheck_of_ovf w n a b o vm v : 0 < w -> (0 < n)%nat -> wf w n b -> ovf_spec w n a b o vm v ->
  (sval w b = 0 \/ min_neg_one w n a b -> ocheck (is_zero b) o = Ret None) /\
  (sval w b <> 0 -> ~ min_neg_one w n a b ->
     exists x, ocheck (is_zero b) o = Ret (Some x) /\ wf w n x /\ sval w x = v).
Proof.
  intros Hw Hn Hb (Hz & Hm & Hok). unfold ocheck. split.
  - intros [E|E].
    + rewrite (zero_test_true w n b) by auto. reflexivity.
    + rewrite (zero_test_false w n b) by (auto; eapply mno_nz; eauto).
      destruct (Hm E) as (x & -> & _). reflexivity.
  - intros Hnz Hno. rewrite (zero_test_false w n b) by auto.
    destruct (Hok Hnz Hno) as (x & -> & Hx & Hv). exists x. cbn [omap tuple_to_option snd fst]. auto.
Qed.

Lemma wrap_of_ovf w n a b o vm v : ovf_spec w n a b o vm v ->
  (sval w b = 0 -> omap fst o = Panic) /\
  (min_neg_one w n a b -> SRet w n (omap fst o) vm) /\
  (sval w b <> 0 -> ~ min_neg_one w n a b -> SRet w n (omap fst o) v).
Proof.
  intros (Hz & Hm & Hok). split; [|split].
  - intros E. rewrite (Hz E). reflexivity.
  - intros E. destruct (Hm E) as (x & -> & Hx & Hv). exists x. cbn [omap fst]. auto.
  - intros Hnz Hno. destruct (Hok Hnz Hno) as (x & -> & Hx & Hv). exists x. cbn [omap fst]. auto.
Qed.

Lemma I_overflowing_div_ovf dbg w n a b :
  0 < w -> U_div_rem_spec w -> (0 < n)%nat -> wf w n a -> wf w n b ->
  ovf_spec w n a b (I_overflowing_div dbg w a b) (- (Mod w n / 2)) (Z.quot (sval w a) (sval w b)).
Proof.
  intros Hw HS Hn Ha Hb. destruct (I_overflowing_div_ok dbg w n a b Hw HS Hn Ha Hb) as (H1 & H2 & H3).
  split; [exact H1|]. split; [|exact H3]. intros Hm. exists a. rewrite (H2 Hm). destruct Hm. auto.
Qed.

Lemma I_overflowing_div_euclid_ovf dbg w n a b :
  0 < w -> U_div_rem_spec w -> (0 < n)%nat -> wf w n a -> wf w n b ->
  ovf_spec w n a b (I_overflowing_div_euclid dbg w a b) (- (Mod w n / 2)) (ediv (sval w a) (sval w b)).
Proof.
  intros Hw HS Hn Ha Hb.
  destruct (I_overflowing_div_euclid_ok dbg w n a b Hw HS Hn Ha Hb) as (H1 & H2 & H3).
  split; [exact H1|]. split; [|exact H3]. intros Hm. exists a. rewrite (H2 Hm). destruct Hm. auto.
Qed.

Lemma I_overflowing_rem_ovf dbg w n a b :
  0 < w -> U_div_rem_spec w -> (0 < n)%nat -> wf w n a -> wf w n b ->
  ovf_spec w n a b (I_overflowing_rem dbg w a b) 0 (Z.rem (sval w a) (sval w b)).
Proof.
  intros Hw HS Hn Ha Hb. destruct (I_overflowing_rem_ok dbg w n a b Hw HS Hn Ha Hb) as (H1 & H2 & H3).
  split; [exact H1|]. split; [|exact H3]. intros Hm. exists (ZERO n). rewrite (H2 Hm).
  split; [reflexivity|]. split; [apply wf_ZERO; lia | apply sval_ZERO; auto].
Qed.

Lemma I_overflowing_rem_euclid_ovf dbg w n a b :
  0 < w -> U_div_rem_spec w -> (0 < n)%nat -> wf w n a -> wf w n b ->
  ovf_spec w n a b (I_overflowing_rem_euclid dbg w a b) 0 (erem (sval w a) (sval w b)).
Proof.
  intros Hw HS Hn Ha Hb.
  destruct (I_overflowing_rem_euclid_ok dbg w n a b Hw HS Hn Ha Hb) as (H1 & H2 & H3).
  split; [exact H1|]. split; [|exact H3]. intros Hm. exists (ZERO n). rewrite (H2 Hm).
  split; [reflexivity|]. split; [apply wf_ZERO; lia | apply sval_ZERO; auto].
Qed.

(* ---------- checked forms: never a panic ---------- *)

Theorem I_checked_div_ok dbg w n a b :
  0 < w -> U_div_rem_spec w -> (0 < n)%nat -> wf w n a -> wf w n b ->
  (sval w b = 0 \/ min_neg_one w n a b -> I_checked_div dbg w a b = Ret None) /\
  (sval w b <> 0 -> ~ min_neg_one w n a b ->
     exists x, I_checked_div dbg w a b = Ret (Some x) /\ wf w n x /\
       sval w x = Z.quot (sval w a) (sval w b)).
Proof.
  intros Hw HS Hn Ha Hb. unfold I_checked_div.
  eapply ocheck_of_ovf; eauto. apply I_overflowing_div_ovf; auto.
Qed.

Theorem I_checked_rem_ok dbg w n a b :
  0 < w -> U_div_rem_spec w -> (0 < n)%nat -> wf w n a -> wf w n b ->
  (sval w b = 0 \/ min_neg_one w n a b -> I_checked_rem dbg w a b = Ret None) /\
  (sval w b <> 0 -> ~ min_neg_one w n a b ->
     exists x, I_checked_rem dbg w a b = Ret (Some x) /\ wf w n x /\
       sval w x = Z.rem (sval w a) (sval w b)).
Proof.
  intros Hw HS Hn Ha Hb. unfold I_checked_rem.
  eapply ocheck_of_ovf; eauto. apply I_overflowing_rem_ovf; auto.
Qed.

Theorem I_checked_div_euclid_ok dbg w n a b :
  0 < w -> U_div_rem_spec w -> (0 < n)%nat -> wf w n a -> wf w n b ->
  (sval w b = 0 \/ min_neg_one w n a b -> I_checked_div_euclid dbg w a b = Ret None) /\
  (sval w b <> 0 -> ~ min_neg_one w n a b ->
     exists x, I_checked_div_euclid dbg w a b = Ret (Some x) /\ wf w n x /\
       sval w x = ediv (sval w a) (sval w b)).
Proof.
  intros Hw HS Hn Ha Hb. unfold I_checked_div_euclid.
  eapply ocheck_of_ovf; eauto. apply I_overflowing_div_euclid_ovf; auto.
Qed.

Theorem I_checked_rem_euclid_ok dbg w n a b :
  0 < w -> U_div_rem_spec w -> (0 < n)%nat -> wf w n a -> wf w n b ->
  (sval w b = 0 \/ min_neg_one w n a b -> I_checked_rem_euclid dbg w a b = Ret None) /\
  (sval w b <> 0 -> ~ min_neg_one w n a b ->
     exists x, I_checked_rem_euclid dbg w a b = Ret (Some x) /\ wf w n x /\
       sval w x = erem (sval w a) (sval w b)).
Proof.
  intros Hw HS Hn Ha Hb. unfold I_checked_rem_euclid.
  eapply ocheck_of_ovf; eauto. apply I_overflowing_rem_euclid_ovf; auto.
Qed.

(* ---------- wrapping forms ---------- *)

Theorem I_wrapping_div_ok dbg w n a b :
  0 < w -> U_div_rem_spec w -> (0 < n)%nat -> wf w n a -> wf w n b ->
  (sval w b = 0 -> I_wrapping_div dbg w a b = Panic) /\
  (min_neg_one w n a b -> SRet w n (I_wrapping_div dbg w a b) (- (Mod w n / 2))) /\
  (sval w b <> 0 -> ~ min_neg_one w n a b ->
     SRet w n (I_wrapping_div dbg w a b) (Z.quot (sval w a) (sval w b))).
Proof.
  intros Hw HS Hn Ha Hb. unfold I_wrapping_div.
  eapply wrap_of_ovf. apply I_overflowing_div_ovf; auto.
Qed.

Theorem I_wrapping_rem_ok dbg w n a b :
  0 < w -> U_div_rem_spec w -> (0 < n)%nat -> wf w n a -> wf w n b ->
  (sval w b = 0 -> I_wrapping_rem dbg w a b = Panic) /\
  (min_neg_one w n a b -> SRet w n (I_wrapping_rem dbg w a b) 0) /\
  (sval w b <> 0 -> ~ min_neg_one w n a b ->
     SRet w n (I_wrapping_rem dbg w a b) (Z.rem (sval w a) (sval w b))).
Proof.
  intros Hw HS Hn Ha Hb. unfold I_wrapping_rem.
  eapply wrap_of_ovf. apply I_overflowing_rem_ovf; auto.
Qed.

Theorem I_wrapping_div_euclid_ok dbg w n a b :
  0 < w -> U_div_rem_spec w -> (0 < n)%nat -> wf w n a -> wf w n b ->
  (sval w b = 0 -> I_wrapping_div_euclid dbg w a b = Panic) /\
  (min_neg_one w n a b -> SRet w n (I_wrapping_div_euclid dbg w a b) (- (Mod w n / 2))) /\
  (sval w b <> 0 -> ~ min_neg_one w n a b ->
     SRet w n (I_wrapping_div_euclid dbg w a b) (ediv (sval w a) (sval w b))).
Proof.
  intros Hw HS Hn Ha Hb. unfold I_wrapping_div_euclid.
  eapply wrap_of_ovf. apply I_overflowing_div_euclid_ovf; auto.
Qed.

Theorem I_wrapping_rem_euclid_ok dbg w n a b :
  0 < w -> U_div_rem_spec w -> (0 < n)%nat -> wf w n a -> wf w n b ->
  (sval w b = 0 -> I_wrapping_rem_euclid dbg w a b = Panic) /\
  (min_neg_one w n a b -> SRet w n (I_wrapping_rem_euclid dbg w a b) 0) /\
  (sval w b <> 0 -> ~ min_neg_one w n a b ->
     SRet w n (I_wrapping_rem_euclid dbg w a b) (erem (sval w a) (sval w b))).
Proof.
  intros Hw HS Hn Ha Hb. unfold I_wrapping_rem_euclid.
  eapply wrap_of_ovf. apply I_overflowing_rem_euclid_ovf; auto.
Qed.

(* MIN mod 1 = 0: the wrapping Euclidean remainder is SA mod |SB| for every nonzero divisor *)
Lemma erem_min_neg_one x : erem x (-1) = 0.
Proof. unfold erem. change (Z.abs (-1)) with 1. apply Z.mod_1_r. Qed.

Corollary I_wrapping_rem_euclid_total dbg w n a b :
  0 < w -> U_div_rem_spec w -> (0 < n)%nat -> wf w n a -> wf w n b -> sval w b <> 0 ->
  SRet w n (I_wrapping_rem_euclid dbg w a b) (erem (sval w a) (sval w b)).
Proof.
  intros Hw HS Hn Ha Hb Hnz.
  destruct (I_wrapping_rem_euclid_ok dbg w n a b Hw HS Hn Ha Hb) as (_ & Hm & Hok).
  destruct (mno_dec w n a b) as [E|E]; [|auto].
  destruct E as [E1 E2]. rewrite E2, erem_min_neg_one. apply Hm. split; assumption.
Qed.

(* ---------- saturating_div ---------- *)

Theorem I_saturating_div_ok dbg w n a b :
  0 < w -> U_div_rem_spec w -> (0 < n)%nat -> wf w n a -> wf w n b ->
  (sval w b = 0 -> I_saturating_div dbg w a b = Panic) /\
  (min_neg_one w n a b -> I_saturating_div dbg w a b = Ret (IMAX w n)) /\
  (sval w b <> 0 -> ~ min_neg_one w n a b ->
     SRet w n (I_saturating_div dbg w a b) (Z.quot (sval w a) (sval w b))).
Proof.
  intros Hw HS Hn Ha Hb. unfold I_saturating_div. rewrite (wf_length _ _ _ Ha).
  destruct (I_overflowing_div_ok dbg w n a b Hw HS Hn Ha Hb) as (H1 & H2 & H3).
  split; [|split].
  - intros E. rewrite (H1 E). reflexivity.
  - intros E. rewrite (H2 E). reflexivity.
  - intros Hnz Hno. destruct (H3 Hnz Hno) as (q & -> & Hq & Hv). exists q. cbn [omap snd fst]. auto.
Qed.

(* ---------- div_euclid / rem_euclid: panic exactly on a zero divisor or MIN / -1 ---------- *)

Theorem I_div_euclid_ok dbg w n a b :
  0 < w -> U_div_rem_spec w -> (0 < n)%nat -> wf w n a -> wf w n b ->
  (sval w b = 0 \/ min_neg_one w n a b -> I_div_euclid dbg w a b = Panic) /\
  (sval w b <> 0 -> ~ min_neg_one w n a b ->
     SRet w n (I_div_euclid dbg w a b) (ediv (sval w a) (sval w b))).
Proof.
  intros Hw HS Hn Ha Hb. unfold I_div_euclid. cbv zeta. rewrite (wf_length _ _ _ Ha).
  destruct (I_wrapping_div_euclid_ok dbg w n a b Hw HS Hn Ha Hb) as (H1 & _ & H3). split.
  - intros [Hz | Hm].
    + rewrite (H1 Hz). destruct (_ && _); reflexivity.
    + rewrite (mno_test_true w n a b) by auto. reflexivity.
  - intros Hnz Hno. rewrite (mno_test_false w n a b) by auto. auto.
Qed.

Theorem I_rem_euclid_ok dbg w n a b :
  0 < w -> U_div_rem_spec w -> (0 < n)%nat -> wf w n a -> wf w n b ->
  (sval w b = 0 \/ min_neg_one w n a b -> I_rem_euclid dbg w a b = Panic) /\
  (sval w b <> 0 -> ~ min_neg_one w n a b ->
     SRet w n (I_rem_euclid dbg w a b) (erem (sval w a) (sval w b))).
Proof.
  intros Hw HS Hn Ha Hb. unfold I_rem_euclid. cbv zeta. rewrite (wf_length _ _ _ Ha).
  destruct (I_wrapping_rem_euclid_ok dbg w n a b Hw HS Hn Ha Hb) as (H1 & _ & H3). split.
  - intros [Hz | Hm].
    + rewrite (H1 Hz). destruct (_ && _); reflexivity.
    + rewrite (mno_test_true w n a b) by auto. reflexivity.
  - intros Hnz Hno. rewrite (mno_test_false w n a b) by auto. auto.
Qed.

(* the Euclidean pair, combined: q * SB + r = SA with 0 <= r < |SB| *)
Corollary I_euclid_pair dbg w n a b :
  0 < w -> U_div_rem_spec w -> (0 < n)%nat -> wf w n a -> wf w n b ->
  sval w b <> 0 -> ~ min_neg_one w n a b ->
  exists q r, I_div_euclid dbg w a b = Ret q /\ I_rem_euclid dbg w a b = Ret r /\
    wf w n q /\ wf w n r /\
    sval w q * sval w b + sval w r = sval w a /\ 0 <= sval w r < Z.abs (sval w b).
Proof.
  intros Hw HS Hn Ha Hb Hnz Hno.
  destruct (I_div_euclid_ok dbg w n a b Hw HS Hn Ha Hb) as (_ & Hq).
  destruct (I_rem_euclid_ok dbg w n a b Hw HS Hn Ha Hb) as (_ & Hr).
  destruct (Hq Hnz Hno) as (q & Eq & Hwq & Hvq). destruct (Hr Hnz Hno) as (r & Er & Hwr & Hvr).
  exists q, r. rewrite Hvq, Hvr. pose proof (euclid_spec (sval w a) (sval w b) Hnz) as [E1 E2].
  repeat (split; [assumption|]). exact E2.
Qed.

(* ---------- div_floor / div_ceil ---------- *)

Lemma floor_from_trunc SA SB : SB <> 0 ->
  SA / SB = if (Z.rem SA SB =? 0) || Bool.eqb (SA <? 0) (SB <? 0)
            then Z.quot SA SB else Z.quot SA SB - 1.
Proof.
  intros Hnz. destruct (quot_rem_facts SA SB Hnz) as (E & Hab & Hpos & Hneg).
  set (q := Z.quot SA SB) in *. set (r := Z.rem SA SB) in *. symmetry.
  destruct (Z.eqb_spec r 0) as [Hr|Hr]; cbn [orb].
  - apply (Z.div_unique SA SB q 0); lia.
  - destruct (Z.ltb_spec SA 0); destruct (Z.ltb_spec SB 0); cbn [Bool.eqb].
    + apply (Z.div_unique SA SB q r); lia.
    + apply (Z.div_unique SA SB (q - 1) (r + SB)); lia.
    + apply (Z.div_unique SA SB (q - 1) (r + SB)); lia.
    + apply (Z.div_unique SA SB q r); lia.
Qed.

Lemma ceil_from_trunc SA SB : SB <> 0 ->
  - ((- SA) / SB) = if (Z.rem SA SB =? 0) || negb (Bool.eqb (SA <? 0) (SB <? 0))
                    then Z.quot SA SB else Z.quot SA SB + 1.
Proof.
  intros Hnz. destruct (quot_rem_facts SA SB Hnz) as (E & Hab & Hpos & Hneg).
  set (q := Z.quot SA SB) in *. set (r := Z.rem SA SB) in *.
  destruct (Z.eqb_spec r 0) as [Hr|Hr]; cbn [orb].
  - rewrite <- (Z.div_unique (- SA) SB (- q) 0); lia.
  - destruct (Z.ltb_spec SA 0); destruct (Z.ltb_spec SB 0); cbn [Bool.eqb negb].
    + rewrite <- (Z.div_unique (- SA) SB (- (q + 1)) (SB - r)); lia.
    + rewrite <- (Z.div_unique (- SA) SB (- q) (- r)); lia.
    + rewrite <- (Z.div_unique (- SA) SB (- q) (- r)); lia.
    + rewrite <- (Z.div_unique (- SA) SB (- (q + 1)) (SB - r)); lia.
Qed.

(* -((-SA)/SB) is the ceiling: the least integer c with c * SB >= SA (SB > 0) resp. <= SA (SB < 0) *)
Lemma ceil_char SA SB : SB <> 0 ->
  let c := - ((- SA) / SB) in
  (0 < SB -> (c - 1) * SB < SA <= c * SB) /\ (SB < 0 -> c * SB <= SA < (c - 1) * SB).
Proof.
  intros Hnz c. unfold c. pose proof (Z.div_mod (- SA) SB Hnz) as E. split; intros Hs.
  - pose proof (Z.mod_pos_bound (- SA) SB Hs). nia.
  - pose proof (Z.mod_neg_bound (- SA) SB Hs). nia.
Qed.

(* div_floor: the floor quotient; the `- 1` cannot overflow; MIN / -1 is NOT trapped: the model
   returns MIN in both build modes (the remainder is 0, so no adjustment is made) *)
Theorem I_div_floor_ok dbg w n a b :
  0 < w -> U_div_rem_spec w -> (0 < n)%nat -> wf w n a -> wf w n b ->
  (sval w b = 0 -> I_div_floor dbg w a b = Panic) /\
  (min_neg_one w n a b -> SRet w n (I_div_floor dbg w a b) (- (Mod w n / 2))) /\
  (sval w b <> 0 -> ~ min_neg_one w n a b ->
     SRet w n (I_div_floor dbg w a b) (sval w a / sval w b)).
Proof.
  intros Hw HS Hn Ha Hb. unfold I_div_floor.
  split; [intros Hz; rewrite (zero_test_true w n b) by auto; reflexivity|].
  assert (Hcore : sval w b <> 0 ->
    exists q, I_div_floor dbg w a b =
      (if (Z.rem (sval w a) (sval w b) =? 0) || Bool.eqb (sval w a <? 0) (sval w b <? 0)
       then Ret q else I_sub dbg w q (ONE n)) /\ wf w n q /\
      (min_neg_one w n a b -> sval w q = - (Mod w n / 2)) /\
      (~ min_neg_one w n a b -> sval w q = Z.quot (sval w a) (sval w b))).
  { intros Hnz. unfold I_div_floor. rewrite (zero_test_false w n b) by auto.
    destruct (I_div_rem_unchecked_core dbg w n a b Hw HS Hn Ha Hb Hnz)
      as (q & r & -> & Hq & Hr & Hrv & Hm & Hok).
    cbn [obind]. rewrite (is_negative_spec w n a), (is_negative_spec w n b) by auto.
    rewrite (is_zero_sval w n r) by auto. rewrite Hrv, (wf_length _ _ _ Ha).
    exists q. auto. }
  fold (I_div_floor dbg w a b). split.
  - intros Hm. destruct (Hcore (mno_nz _ _ _ _ Hm)) as (q & -> & Hq & Hqm & _).
    destruct Hm as [E1 E2]. rewrite E2, rem_neg_one, Z.eqb_refl. cbn [orb].
    exists q. split; [reflexivity|]. split; [exact Hq|]. apply Hqm. split; assumption.
  - intros Hnz Hno. destruct (Hcore Hnz) as (q & -> & Hq & _ & Hqv). specialize (Hqv Hno).
    rewrite floor_from_trunc by exact Hnz. rewrite <- Hqv.
    destruct (Z.eqb_spec (Z.rem (sval w a) (sval w b)) 0) as [Hr0|Hr0]; cbn [orb].
    + exists q. auto.
    + destruct (Bool.eqb _ _); [exists q; auto|].
      pose proof (sval_range w n a Hw Hn Ha) as RA. pose proof (sval_range w n b Hw Hn Hb) as RB.
      destruct (quot_small (sval w a) (sval w b) (Mod w n / 2) Hnz RA RB Hr0) as [H2 Hq2].
      rewrite <- Hqv in Hq2.
      pose proof (sval_ONE w n Hw Hn (four_le_Mod w n _ Hw Hn eq_refl H2)) as S1.
      replace (sval w q - 1) with (sval w q - sval w (ONE n)) by (rewrite S1; reflexivity).
      apply I_sub_ok; auto using wf_ONE. rewrite S1. lia.
Qed.

(* div_ceil: the ceiling quotient -((-SA)/SB); the `+ 1` cannot overflow; MIN / -1 as for div_floor *)
Theorem I_div_ceil_ok dbg w n a b :
  0 < w -> U_div_rem_spec w -> (0 < n)%nat -> wf w n a -> wf w n b ->
  (sval w b = 0 -> I_div_ceil dbg w a b = Panic) /\
  (min_neg_one w n a b -> SRet w n (I_div_ceil dbg w a b) (- (Mod w n / 2))) /\
  (sval w b <> 0 -> ~ min_neg_one w n a b ->
     SRet w n (I_div_ceil dbg w a b) (- ((- sval w a) / sval w b))).
Proof.
  intros Hw HS Hn Ha Hb. unfold I_div_ceil.
  split; [intros Hz; rewrite (zero_test_true w n b) by auto; reflexivity|].
  assert (Hcore : sval w b <> 0 ->
    exists q, I_div_ceil dbg w a b =
      (if (Z.rem (sval w a) (sval w b) =? 0) || negb (Bool.eqb (sval w a <? 0) (sval w b <? 0))
       then Ret q else I_add dbg w q (ONE n)) /\ wf w n q /\
      (min_neg_one w n a b -> sval w q = - (Mod w n / 2)) /\
      (~ min_neg_one w n a b -> sval w q = Z.quot (sval w a) (sval w b))).
  { intros Hnz. unfold I_div_ceil. rewrite (zero_test_false w n b) by auto.
    destruct (I_div_rem_unchecked_core dbg w n a b Hw HS Hn Ha Hb Hnz)
      as (q & r & -> & Hq & Hr & Hrv & Hm & Hok).
    cbn [obind]. rewrite (is_negative_spec w n a), (is_negative_spec w n b) by auto.
    rewrite (is_zero_sval w n r) by auto. rewrite Hrv, (wf_length _ _ _ Ha).
    exists q. auto. }
  fold (I_div_ceil dbg w a b). split.
  - intros Hm. destruct (Hcore (mno_nz _ _ _ _ Hm)) as (q & -> & Hq & Hqm & _).
    destruct Hm as [E1 E2]. rewrite E2, rem_neg_one, Z.eqb_refl. cbn [orb].
    exists q. split; [reflexivity|]. split; [exact Hq|]. apply Hqm. split; assumption.
  - intros Hnz Hno. destruct (Hcore Hnz) as (q & -> & Hq & _ & Hqv). specialize (Hqv Hno).
    rewrite ceil_from_trunc by exact Hnz. rewrite <- Hqv.
    destruct (Z.eqb_spec (Z.rem (sval w a) (sval w b)) 0) as [Hr0|Hr0]; cbn [orb].
    + exists q. auto.
    + destruct (negb _); [exists q; auto|].
      pose proof (sval_range w n a Hw Hn Ha) as RA. pose proof (sval_range w n b Hw Hn Hb) as RB.
      destruct (quot_small (sval w a) (sval w b) (Mod w n / 2) Hnz RA RB Hr0) as [H2 Hq2].
      rewrite <- Hqv in Hq2.
      pose proof (sval_ONE w n Hw Hn (four_le_Mod w n _ Hw Hn eq_refl H2)) as S1.
      replace (sval w q + 1) with (sval w q + sval w (ONE n)) by (rewrite S1; reflexivity).
      apply I_add_ok; auto using wf_ONE. rewrite S1. lia.
Qed.

(* ---------- next_multiple_of ---------- *)

(* the target: for SB > 0 the least multiple of SB that is >= SA, for SB < 0 the greatest multiple
   of SB that is <= SA (both: SA moved to a multiple of SB in the direction of the sign of SB) *)
Definition snext (SA SB : Z) : Z :=
  if erem SA SB =? 0 then SA else if 0 <? SB then SA + (SB - erem SA SB) else SA - erem SA SB.

Lemma snext_char_pos SA SB : 0 < SB ->
  (exists k, snext SA SB = k * SB) /\ SA <= snext SA SB /\
  (forall k, SA <= k * SB -> snext SA SB <= k * SB).
Proof.
  intros Hs. destruct (euclid_spec SA SB ltac:(lia)) as [E Hr]. unfold snext.
  set (q := ediv SA SB) in *. set (r := erem SA SB) in *.
  replace (0 <? SB) with true by (symmetry; apply Z.ltb_lt; lia).
  destruct (Z.eqb_spec r 0) as [Hz|Hz].
  - split; [exists q; lia|]. split; [lia|]. intros; lia.
  - split; [exists (q + 1); lia|]. split; [lia|]. intros k Hk.
    assert (q < k) by nia. nia.
Qed.

Lemma snext_char_neg SA SB : SB < 0 ->
  (exists k, snext SA SB = k * SB) /\ snext SA SB <= SA /\
  (forall k, k * SB <= SA -> k * SB <= snext SA SB).
Proof.
  intros Hs. destruct (euclid_spec SA SB ltac:(lia)) as [E Hr]. unfold snext.
  set (q := ediv SA SB) in *. set (r := erem SA SB) in *.
  replace (0 <? SB) with false by (symmetry; apply Z.ltb_ge; lia).
  destruct (Z.eqb_spec r 0) as [Hz|Hz].
  - split; [exists q; lia|]. split; [lia|]. intros; lia.
  - split; [exists q; lia|]. split; [lia|]. intros k Hk.
    assert (q <= k) by nia. nia.
Qed.

(* closed forms *)
Lemma snext_closed_pos SA SB : 0 < SB -> snext SA SB = - ((- SA) / SB) * SB.
Proof.
  intros Hs. destruct (euclid_spec SA SB ltac:(lia)) as [E Hr]. unfold snext.
  set (q := ediv SA SB) in *. set (r := erem SA SB) in *.
  replace (0 <? SB) with true by (symmetry; apply Z.ltb_lt; lia).
  destruct (Z.eqb_spec r 0) as [Hz|Hz].
  - rewrite <- (Z.div_unique (- SA) SB (- q) 0); lia.
  - rewrite <- (Z.div_unique (- SA) SB (- (q + 1)) (SB - r)); lia.
Qed.

Lemma snext_closed_neg SA SB : SB < 0 -> snext SA SB = SA / (- SB) * (- SB).
Proof.
  intros Hs. unfold snext, erem. rewrite (Z.abs_neq SB) by lia.
  replace (0 <? SB) with false by (symmetry; apply Z.ltb_ge; lia).
  pose proof (Z.div_mod SA (- SB) ltac:(lia)).
  destruct (Z.eqb_spec (SA mod - SB) 0); lia.
Qed.

(* the unsuffixed form: the intermediate `rhs - rem` is exact (0 < rhs - rem < rhs), so the only
   possible overflow is the final add / sub, i.e. an unrepresentable target *)
Theorem I_next_multiple_of_ok dbg w n a b :
  0 < w -> U_div_rem_spec w -> (0 < n)%nat -> wf w n a -> wf w n b ->
  (sval w b = 0 -> I_next_multiple_of dbg w a b = Panic) /\
  (sval w b <> 0 -> inS (Mod w n) (snext (sval w a) (sval w b)) = true ->
     SRet w n (I_next_multiple_of dbg w a b) (snext (sval w a) (sval w b))) /\
  (sval w b <> 0 -> inS (Mod w n) (snext (sval w a) (sval w b)) = false ->
     if dbg then I_next_multiple_of dbg w a b = Panic
     else SRet w n (I_next_multiple_of dbg w a b)
            (wrapS (Mod w n) (snext (sval w a) (sval w b)))).
Proof.
  intros Hw HS Hn Ha Hb. unfold I_next_multiple_of.
  split.
  { intros Hz. destruct (I_wrapping_rem_euclid_ok dbg w n a b Hw HS Hn Ha Hb) as (H1 & _).
    rewrite (H1 Hz). reflexivity. }
  pose proof (sval_range w n a Hw Hn Ha) as RA. pose proof (sval_range w n b Hw Hn Hb) as RB.
  assert (Hcore : sval w b <> 0 ->
    exists rem, I_wrapping_rem_euclid dbg w a b = Ret rem /\ wf w n rem /\
      sval w rem = erem (sval w a) (sval w b) /\ is_negative w rem = false /\
      (0 < sval w b -> sval w rem <> 0 ->
         SRet w n (I_sub dbg w b rem) (sval w b - sval w rem))).
  { intros Hnz. destruct (I_wrapping_rem_euclid_total dbg w n a b Hw HS Hn Ha Hb Hnz)
      as (rem & E & Hrem & Hv).
    destruct (euclid_spec (sval w a) (sval w b) Hnz) as [_ Hr]. rewrite <- Hv in Hr.
    exists rem. split; [exact E|]. split; [exact Hrem|]. split; [exact Hv|]. split.
    - rewrite (is_negative_spec w n) by auto. apply Z.ltb_ge. lia.
    - intros Hpos Hrnz. apply I_sub_ok; auto. lia. }
  split; intros Hnz Ht; destruct (Hcore Hnz) as (rem & -> & Hrem & Hv & Hneg & Hsub);
    cbn [obind]; rewrite (is_zero_sval w n rem), Hneg, (is_negative_spec w n b) by auto;
    unfold snext in *; rewrite <- Hv in *;
    destruct (Z.eqb_spec (sval w rem) 0) as [Hz|Hz].
  - exists a. auto.
  - destruct (Z.ltb_spec (sval w b) 0) as [Hs|Hs]; cbn [Bool.eqb].
    + replace (0 <? sval w b) with false in Ht |- * by (symmetry; apply Z.ltb_ge; lia).
      apply I_sub_spec; auto.
    + replace (0 <? sval w b) with true in Ht |- * by (symmetry; apply Z.ltb_lt; lia).
      destruct (Hsub ltac:(lia) Hz) as (d & -> & Hd & Hdv). cbn [obind]. rewrite <- Hdv in Ht |- *.
      apply I_add_spec; auto.
  - apply inS_false in Ht. lia.
  - destruct (Z.ltb_spec (sval w b) 0) as [Hs|Hs]; cbn [Bool.eqb].
    + replace (0 <? sval w b) with false in Ht |- * by (symmetry; apply Z.ltb_ge; lia).
      apply I_sub_spec; auto.
    + replace (0 <? sval w b) with true in Ht |- * by (symmetry; apply Z.ltb_lt; lia).
      destruct (Hsub ltac:(lia) Hz) as (d & -> & Hd & Hdv). cbn [obind]. rewrite <- Hdv in Ht |- *.
      apply I_add_spec; auto.
Qed.

Theorem I_checked_next_multiple_of_ok dbg w n a b :
  0 < w -> U_div_rem_spec w -> (0 < n)%nat -> wf w n a -> wf w n b ->
  (sval w b = 0 -> I_checked_next_multiple_of dbg w a b = Ret None) /\
  (sval w b <> 0 -> inS (Mod w n) (snext (sval w a) (sval w b)) = true ->
     exists r, I_checked_next_multiple_of dbg w a b = Ret (Some r) /\ wf w n r /\
       sval w r = snext (sval w a) (sval w b)) /\
  (sval w b <> 0 -> inS (Mod w n) (snext (sval w a) (sval w b)) = false ->
     I_checked_next_multiple_of dbg w a b = Ret None).
Proof.
  intros Hw HS Hn Ha Hb. unfold I_checked_next_multiple_of.
  split; [intros Hz; rewrite (zero_test_true w n b) by auto; reflexivity|].
  pose proof (sval_range w n a Hw Hn Ha) as RA. pose proof (sval_range w n b Hw Hn Hb) as RB.
  pose proof (Mod_pos w n ltac:(lia)) as HM. pose proof (Mod_even w n Hw Hn) as HMe.
  assert (Hcore : sval w b <> 0 ->
    exists rem, I_wrapping_rem_euclid dbg w a b = Ret rem /\ wf w n rem /\
      sval w rem = erem (sval w a) (sval w b) /\ is_negative w rem = false /\
      wf w n (I_wrapping_sub w b rem) /\
      (0 < sval w b -> sval w (I_wrapping_sub w b rem) = sval w b - sval w rem)).
  { intros Hnz. destruct (I_wrapping_rem_euclid_total dbg w n a b Hw HS Hn Ha Hb Hnz)
      as (rem & E & Hrem & Hv).
    destruct (euclid_spec (sval w a) (sval w b) Hnz) as [_ Hr]. rewrite <- Hv in Hr.
    destruct (I_wrapping_sub_spec w n b rem Hw Hn Hb Hrem) as (W1 & _ & W3).
    exists rem. split; [exact E|]. split; [exact Hrem|]. split; [exact Hv|]. split; [|split].
    - rewrite (is_negative_spec w n) by auto. apply Z.ltb_ge. lia.
    - exact W1.
    - intros Hpos. rewrite W3. apply wrapS_id; lia. }
  split; intros Hnz Ht; rewrite (zero_test_false w n b) by auto;
    destruct (Hcore Hnz) as (rem & -> & Hrem & Hv & Hneg & Hwd & Hdv);
    cbn [obind]; rewrite (is_zero_sval w n rem), Hneg, (is_negative_spec w n b) by auto;
    unfold snext in *; rewrite <- Hv in *;
    destruct (Z.eqb_spec (sval w rem) 0) as [Hz|Hz].
  - exists a. auto.
  - destruct (Z.ltb_spec (sval w b) 0) as [Hs|Hs]; cbn [Bool.eqb].
    + replace (0 <? sval w b) with false in Ht |- * by (symmetry; apply Z.ltb_ge; lia).
      destruct (I_checked_sub_spec w n a rem Hw Hn Ha Hrem) as [Hin _].
      destruct (Hin Ht) as (r & -> & Hr & Hrv). exists r. auto.
    + replace (0 <? sval w b) with true in Ht |- * by (symmetry; apply Z.ltb_lt; lia).
      rewrite <- (Hdv ltac:(lia)) in Ht |- *.
      destruct (I_checked_add_spec w n a _ Hw Hn Ha Hwd) as [Hin _].
      destruct (Hin Ht) as (r & -> & Hr & Hrv). exists r. auto.
  - apply inS_false in Ht. lia.
  - destruct (Z.ltb_spec (sval w b) 0) as [Hs|Hs]; cbn [Bool.eqb].
    + replace (0 <? sval w b) with false in Ht by (symmetry; apply Z.ltb_ge; lia).
      destruct (I_checked_sub_spec w n a rem Hw Hn Ha Hrem) as [_ Hout].
      rewrite (Hout Ht). reflexivity.
    + replace (0 <? sval w b) with true in Ht by (symmetry; apply Z.ltb_lt; lia).
      rewrite <- (Hdv ltac:(lia)) in Ht.
      destruct (I_checked_add_spec w n a _ Hw Hn Ha Hwd) as [_ Hout].
      rewrite (Hout Ht). reflexivity.
Qed.

(* ---------- collected corollaries ---------- *)

(* zero divisor: every checked form answers None, in both build modes *)
Theorem I_checked_zero_divisor dbg w n a b :
  0 < w -> U_div_rem_spec w -> (0 < n)%nat -> wf w n a -> wf w n b -> sval w b = 0 ->
  I_checked_div dbg w a b = Ret None /\
  I_checked_rem dbg w a b = Ret None /\
  I_checked_div_euclid dbg w a b = Ret None /\
  I_checked_rem_euclid dbg w a b = Ret None /\
  I_checked_next_multiple_of dbg w a b = Ret None.
Proof.
  intros Hw HS Hn Ha Hb Hz.
  split; [apply (I_checked_div_ok dbg w n a b); auto|].
  split; [apply (I_checked_rem_ok dbg w n a b); auto|].
  split; [apply (I_checked_div_euclid_ok dbg w n a b); auto|].
  split; [apply (I_checked_rem_euclid_ok dbg w n a b); auto|].
  destruct (I_checked_next_multiple_of_ok dbg w n a b Hw HS Hn Ha Hb) as (H & _). exact (H Hz).
Qed.

(* zero divisor: every other form panics, in both build modes *)
Theorem I_zero_divisor_panics dbg w n a b :
  0 < w -> U_div_rem_spec w -> (0 < n)%nat -> wf w n a -> wf w n b -> sval w b = 0 ->
  I_div dbg w a b = Panic /\ I_rem dbg w a b = Panic /\
  I_div_euclid dbg w a b = Panic /\ I_rem_euclid dbg w a b = Panic /\
  I_overflowing_div dbg w a b = Panic /\ I_overflowing_rem dbg w a b = Panic /\
  I_overflowing_div_euclid dbg w a b = Panic /\ I_overflowing_rem_euclid dbg w a b = Panic /\
  I_wrapping_div dbg w a b = Panic /\ I_wrapping_rem dbg w a b = Panic /\
  I_wrapping_div_euclid dbg w a b = Panic /\ I_wrapping_rem_euclid dbg w a b = Panic /\
  I_saturating_div dbg w a b = Panic /\
  I_div_floor dbg w a b = Panic /\ I_div_ceil dbg w a b = Panic /\
  I_next_multiple_of dbg w a b = Panic.
Proof.
  intros Hw HS Hn Ha Hb Hz.
  split; [apply (I_div_ok dbg w n a b); auto|].
  split; [apply (I_rem_ok dbg w n a b); auto|].
  split; [apply (I_div_euclid_ok dbg w n a b); auto|].
  split; [apply (I_rem_euclid_ok dbg w n a b); auto|].
  split; [apply (I_overflowing_div_ok dbg w n a b); auto|].
  split; [apply (I_overflowing_rem_ok dbg w n a b); auto|].
  split; [apply (I_overflowing_div_euclid_ok dbg w n a b); auto|].
  split; [apply (I_overflowing_rem_euclid_ok dbg w n a b); auto|].
  split; [apply (I_wrapping_div_ok dbg w n a b); auto|].
  split; [apply (I_wrapping_rem_ok dbg w n a b); auto|].
  split; [apply (I_wrapping_div_euclid_ok dbg w n a b); auto|].
  split; [apply (I_wrapping_rem_euclid_ok dbg w n a b); auto|].
  split; [apply (I_saturating_div_ok dbg w n a b); auto|].
  split; [apply (I_div_floor_ok dbg w n a b); auto|].
  split; [apply (I_div_ceil_ok dbg w n a b); auto|].
  destruct (I_next_multiple_of_ok dbg w n a b Hw HS Hn Ha Hb) as (H & _). exact (H Hz).
Qed.

(* MIN / -1, in both build modes *)
Theorem I_min_neg_one dbg w n a b :
  0 < w -> U_div_rem_spec w -> (0 < n)%nat -> wf w n a -> wf w n b -> min_neg_one w n a b ->
  I_checked_div dbg w a b = Ret None /\
  I_checked_rem dbg w a b = Ret None /\
  I_checked_div_euclid dbg w a b = Ret None /\
  I_checked_rem_euclid dbg w a b = Ret None /\
  I_overflowing_div dbg w a b = Ret (a, true) /\
  I_overflowing_div_euclid dbg w a b = Ret (a, true) /\
  I_overflowing_rem dbg w a b = Ret (ZERO n, true) /\
  I_overflowing_rem_euclid dbg w a b = Ret (ZERO n, true) /\
  sval w a = - (Mod w n / 2) /\ sval w (ZERO n) = 0 /\
  I_wrapping_div dbg w a b = Ret a /\
  I_wrapping_div_euclid dbg w a b = Ret a /\
  I_wrapping_rem dbg w a b = Ret (ZERO n) /\
  I_wrapping_rem_euclid dbg w a b = Ret (ZERO n) /\
  I_saturating_div dbg w a b = Ret (IMAX w n) /\ sval w (IMAX w n) = Mod w n / 2 - 1 /\
  I_div dbg w a b = Panic /\ I_rem dbg w a b = Panic /\
  I_div_euclid dbg w a b = Panic /\ I_rem_euclid dbg w a b = Panic /\
  SRet w n (I_div_floor dbg w a b) (- (Mod w n / 2)) /\
  SRet w n (I_div_ceil dbg w a b) (- (Mod w n / 2)) /\
  I_next_multiple_of dbg w a b = Ret a /\
  I_checked_next_multiple_of dbg w a b = Ret (Some a).
Proof.
  intros Hw HS Hn Ha Hb Hm.
  destruct (I_overflowing_div_ok dbg w n a b Hw HS Hn Ha Hb) as (_ & D & _).
  destruct (I_overflowing_div_euclid_ok dbg w n a b Hw HS Hn Ha Hb) as (_ & DE & _).
  destruct (I_overflowing_rem_ok dbg w n a b Hw HS Hn Ha Hb) as (_ & R & _).
  destruct (I_overflowing_rem_euclid_ok dbg w n a b Hw HS Hn Ha Hb) as (_ & RE & _).
  specialize (D Hm). specialize (DE Hm). specialize (R Hm). specialize (RE Hm).
  split; [apply (I_checked_div_ok dbg w n a b); auto|].
  split; [apply (I_checked_rem_ok dbg w n a b); auto|].
  split; [apply (I_checked_div_euclid_ok dbg w n a b); auto|].
  split; [apply (I_checked_rem_euclid_ok dbg w n a b); auto|].
  split; [exact D|]. split; [exact DE|]. split; [exact R|]. split; [exact RE|].
  split; [destruct Hm; assumption|]. split; [apply sval_ZERO; auto|].
  split; [unfold I_wrapping_div; rewrite D; reflexivity|].
  split; [unfold I_wrapping_div_euclid; rewrite DE; reflexivity|].
  split; [unfold I_wrapping_rem; rewrite R; reflexivity|].
  split; [unfold I_wrapping_rem_euclid; rewrite RE; reflexivity|].
  split; [apply (I_saturating_div_ok dbg w n a b); auto|].
  split; [apply sval_IMAX; auto|].
  split; [apply (I_div_ok dbg w n a b); auto|].
  split; [apply (I_rem_ok dbg w n a b); auto|].
  split; [apply (I_div_euclid_ok dbg w n a b); auto|].
  split; [apply (I_rem_euclid_ok dbg w n a b); auto|].
  split; [apply (I_div_floor_ok dbg w n a b); auto|].
  split; [apply (I_div_ceil_ok dbg w n a b); auto|].
  assert (Ez : is_zero (ZERO n) = true).
  { rewrite (is_zero_spec w n) by (lia || apply wf_ZERO; lia). rewrite uval_ZERO. reflexivity. }
  split.
  - unfold I_next_multiple_of, I_wrapping_rem_euclid. rewrite RE. cbn [omap fst obind].
    rewrite Ez. reflexivity.
  - unfold I_checked_next_multiple_of, I_wrapping_rem_euclid.
    rewrite (zero_test_false w n b) by (auto; eapply mno_nz; eauto).
    rewrite RE. cbn [omap fst obind]. rewrite Ez. reflexivity.
Qed.

(* ---------- concrete witnesses (w = 8, n = 1) for the notes in the report ---------- *)

(* div_floor / div_ceil do not trap MIN / -1: MIN comes back, with and without debug assertions *)
Example div_floor_min_neg_one_w8 :
  I_div_floor true 8 [128] [255] = Ret [128] /\ I_div_floor false 8 [128] [255] = Ret [128] /\
  I_div_ceil true 8 [128] [255] = Ret [128] /\ I_div_ceil false 8 [128] [255] = Ret [128].
Proof. vm_compute. repeat split. Qed.

(* next_multiple_of with an unrepresentable target: 127 -> next multiple of 2 is 128;
   -128 -> the multiple of -3 below it is -129 *)
Example next_multiple_of_overflow_w8 :
  I_next_multiple_of true 8 [127] [2] = Panic /\ I_next_multiple_of false 8 [127] [2] = Ret [128] /\
  I_checked_next_multiple_of true 8 [127] [2] = Ret None /\
  I_next_multiple_of true 8 [128] [253] = Panic /\ I_next_multiple_of false 8 [128] [253] = Ret [127] /\
  I_checked_next_multiple_of false 8 [128] [253] = Ret None.
Proof. vm_compute. repeat split. Qed.

(* in the 1-bit type (w = 1, n = 1) ONE = [1] reads -1, so is_one tests for -1 there *)
Example is_one_one_bit : is_one [1] = true /\ sval 1 [1] = -1.
Proof. vm_compute. split; reflexivity. Qed.

Print Assumptions I_div_rem_unchecked_ok.
Print Assumptions I_div_ok.
Print Assumptions I_rem_ok.
Print Assumptions I_overflowing_div_ok.
Print Assumptions I_overflowing_rem_ok.
Print Assumptions I_overflowing_div_euclid_ok.
Print Assumptions I_overflowing_rem_euclid_ok.
Print Assumptions I_euclid_pair.
Print Assumptions I_div_floor_ok.
Print Assumptions I_div_ceil_ok.
Print Assumptions I_next_multiple_of_ok.
Print Assumptions I_checked_next_multiple_of_ok.
Print Assumptions I_checked_zero_divisor.
Print Assumptions I_zero_divisor_panics.
Print Assumptions I_min_neg_one.

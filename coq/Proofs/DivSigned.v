(* Proofs/DivSigned.v — the signed division API of Model/Div.v (everything built on
   I_div_rem_unchecked), relative to the functional spec `U_div_rem_spec w` of the unsigned
   core (Proofs/DivSpec.v).  Notation in comments: M = Mod w n, SA = sval w a, SB = sval w b,
   MIN = -(M/2), MAX = M/2 - 1. *)
From Bnum Require Import Base Prim.
From Bnum.Model Require Import Digit Core Shift AddSub Mul Div.
From Bnum.Proofs Require Import DivAux DivSpec SignedAux DivUnsignedWrap.

(* the one overflowing input of signed division *)
Definition min_neg_one (w : Z) (n : nat) (a b : list Z) : Prop :=
  sval w a = - (Mod w n / 2) /\ sval w b = -1.

(* ---------- pure Z: truncated division through magnitudes ---------- *)

Lemma quot_rem_abs SA SB : SB <> 0 ->
  Z.quot SA SB = (if xorb (SA <? 0) (SB <? 0) then - (Z.abs SA / Z.abs SB) else Z.abs SA / Z.abs SB) /\
  Z.rem SA SB = (if SA <? 0 then - (Z.abs SA mod Z.abs SB) else Z.abs SA mod Z.abs SB).
Proof.
  intros Hnz. destruct (Z.ltb_spec SA 0) as [HA|HA]; destruct (Z.ltb_spec SB 0) as [HB|HB]; cbn [xorb].
  - rewrite (Z.abs_neq SA), (Z.abs_neq SB) by lia.
    rewrite <- (Z.opp_involutive SA) at 1 3. rewrite <- (Z.opp_involutive SB) at 1 3.
    rewrite Z.quot_opp_opp, Z.rem_opp_opp by lia.
    rewrite Z.quot_div_nonneg, Z.rem_mod_nonneg by lia. split; reflexivity.
  - rewrite (Z.abs_neq SA), (Z.abs_eq SB) by lia.
    rewrite <- (Z.opp_involutive SA) at 1 3.
    rewrite Z.quot_opp_l, Z.rem_opp_l by lia.
    rewrite Z.quot_div_nonneg, Z.rem_mod_nonneg by lia. split; reflexivity.
  - rewrite (Z.abs_eq SA), (Z.abs_neq SB) by lia.
    rewrite <- (Z.opp_involutive SB) at 1 3.
    rewrite Z.quot_opp_r, Z.rem_opp_r by lia.
    rewrite Z.quot_div_nonneg, Z.rem_mod_nonneg by lia. split; reflexivity.
  - rewrite (Z.abs_eq SA), (Z.abs_eq SB) by lia.
    rewrite Z.quot_div_nonneg, Z.rem_mod_nonneg by lia. split; reflexivity.
Qed.

Lemma abs_div_bounds X Y h : 1 <= h -> 0 <= X <= h -> 1 <= Y ->
  0 <= X / Y <= h /\ (X / Y = h -> X = h /\ Y = 1) /\ 0 <= X mod Y < Y.
Proof.
  intros Hh HX HY. pose proof (Z.div_mod X Y ltac:(lia)) as E.
  pose proof (Z.mod_pos_bound X Y ltac:(lia)) as Hr.
  assert (0 <= X / Y) by (apply Z.div_pos; lia).
  assert (X / Y <= X) by nia.
  split; [lia|]. split; [|lia]. intros Eq. assert (X = h) by lia. split; [assumption|]. rewrite Eq in E. nia.
Qed.

(* truncated quotient / remainder: the defining equation with the sign and size of the remainder *)
Lemma quot_rem_facts SA SB : SB <> 0 ->
  SA = Z.quot SA SB * SB + Z.rem SA SB /\ Z.abs (Z.rem SA SB) < Z.abs SB /\
  (0 <= SA -> 0 <= Z.rem SA SB) /\ (SA <= 0 -> Z.rem SA SB <= 0).
Proof.
  intros Hnz. pose proof (Z.quot_rem' SA SB) as E. pose proof (Z.rem_bound_abs SA SB Hnz).
  split; [lia|]. split; [assumption|]. split; intros HS.
  - apply Z.rem_nonneg; auto.
  - apply Z.rem_nonpos; auto.
Qed.

Lemma rem_neg_one x : Z.rem x (-1) = 0.
Proof. pose proof (Z.rem_bound_abs x (-1) ltac:(lia)). lia. Qed.

Lemma quot_neg_one x : Z.quot x (-1) = - x.
Proof. pose proof (Z.quot_rem' x (-1)) as E. rewrite rem_neg_one in E. lia. Qed.

(* ---------- small reading lemmas ---------- *)

Lemma sval_small w n a : 0 < w -> (0 < n)%nat -> wf w n a -> uval w a < Mod w n / 2 ->
  sval w a = uval w a.
Proof.
  intros Hw Hn Ha Hlt. pose proof (uval_bounds w n a ltac:(lia) Ha).
  apply (sval_intro_k w n _ _ 0); auto; lia.
Qed.

Lemma sval_half w n a : 0 < w -> (0 < n)%nat -> wf w n a -> uval w a = Mod w n / 2 ->
  sval w a = - (Mod w n / 2).
Proof.
  intros Hw Hn Ha He. pose proof (Mod_even w n Hw Hn). pose proof (Mod_half_pos w n Hw Hn).
  apply (sval_intro_k w n _ _ 1); auto; lia.
Qed.

Lemma uval_one_sval w n b : 0 < w -> (0 < n)%nat -> wf w n b -> uval w b = 1 ->
  sval w b = 1 \/ (Mod w n = 2 /\ sval w b = -1).
Proof.
  intros Hw Hn Hb H1. pose proof (uval_sval w n b Hw Hn Hb) as E.
  pose proof (sval_range w n b Hw Hn Hb). pose proof (Mod_even w n Hw Hn).
  destruct (Z.ltb_spec (sval w b) 0); lia.
Qed.

Lemma sval_one_uval w n b : 0 < w -> (0 < n)%nat -> wf w n b -> sval w b = 1 -> uval w b = 1.
Proof.
  intros Hw Hn Hb H1. pose proof (uval_sval w n b Hw Hn Hb) as E.
  destruct (Z.ltb_spec (sval w b) 0); lia.
Qed.

(* ---------- div_rem_unchecked ---------- *)

(* every nonzero divisor: never a panic, in either build mode; the remainder is always exact and the
   quotient is exact except for MIN / -1, where it is the bit pattern of MIN *)
Lemma I_div_rem_unchecked_core dbg w n a b :
  0 < w -> U_div_rem_spec w -> (0 < n)%nat -> wf w n a -> wf w n b -> sval w b <> 0 ->
  exists q r, I_div_rem_unchecked dbg w a b = Ret (q, r) /\ wf w n q /\ wf w n r /\
    sval w r = Z.rem (sval w a) (sval w b) /\
    (min_neg_one w n a b -> sval w q = - (Mod w n / 2)) /\
    (~ min_neg_one w n a b -> sval w q = Z.quot (sval w a) (sval w b)).
Proof.
  intros Hw HS Hn Ha Hb Hnz.
  pose proof (Mod_pos w n ltac:(lia)) as HM. pose proof (Mod_even w n Hw Hn) as HMe.
  pose proof (Mod_half_pos w n Hw Hn) as Hh.
  pose proof (sval_range w n a Hw Hn Ha) as RA. pose proof (sval_range w n b Hw Hn Hb) as RB.
  unfold min_neg_one.
  unfold I_div_rem_unchecked. rewrite (wf_length _ _ _ Ha).
  rewrite (eq_IMIN_spec w n a), (is_one_spec w n b) by auto.
  destruct ((sval w a =? - (Mod w n / 2)) && (uval w b =? 1)) eqn:Esc.
  { apply andb_true_iff in Esc. destruct Esc as [E1 E2]. apply Z.eqb_eq in E1, E2.
    exists a, (ZERO n). split; [reflexivity|]. split; [exact Ha|]. split; [apply wf_ZERO; lia|].
    rewrite sval_ZERO by auto.
    destruct (uval_one_sval w n b Hw Hn Hb E2) as [S1 | [M2 S1]].
    - rewrite S1, Z.rem_1_r, Z.quot_1_r. split; [reflexivity|]. split; intros _; [exact E1 | reflexivity].
    - rewrite E1, S1, M2. split; [reflexivity|]. split; [intros _; reflexivity|].
      intros Hc. exfalso. apply Hc. split; reflexivity. }
  assert (Hns : ~ (sval w a = - (Mod w n / 2) /\ sval w b = 1)).
  { intros [E1 E2]. apply andb_false_iff in Esc. destruct Esc as [Esc|Esc]; apply Z.eqb_neq in Esc.
    - contradiction.
    - apply Esc. apply (sval_one_uval w n); auto. }
  clear Esc.
  destruct (I_unsigned_abs_spec w n a Hw Hn Ha) as [Hua Hva].
  destruct (I_unsigned_abs_spec w n b Hw Hn Hb) as [Hub Hvb].
  assert (Hbnz : uval w (I_unsigned_abs w b) <> 0) by lia.
  destruct (U_div_rem_unchecked_val w n _ _ Hw HS Hua Hub Hbnz) as (Hd & Hr & Hdv & Hrv).
  rewrite Hva, Hvb in Hdv, Hrv.
  destruct (U_div_rem_unchecked w (I_unsigned_abs w a) (I_unsigned_abs w b)) as [d r].
  cbn [fst snd] in *.
  destruct (abs_div_bounds (Z.abs (sval w a)) (Z.abs (sval w b)) (Mod w n / 2))
    as (D1 & D2 & D3); [lia | lia | lia |].
  rewrite <- Hdv in D1, D2. rewrite <- Hrv in D3.
  assert (Hsr : sval w r = uval w r) by (apply (sval_small w n); auto; lia).
  pose proof (quot_rem_abs (sval w a) (sval w b) Hnz) as QR.
  rewrite <- Hdv, <- Hrv in QR. destruct QR as [Q R].
  rewrite (is_negative_spec w n a), (is_negative_spec w n b) by auto.
  assert (Hnegr : SRet w n (I_neg dbg w r) (- sval w r)).
  { apply I_neg_spec; auto. lia. }
  destruct Hnegr as (r' & Er' & Hr' & Hvr').
  assert (Hdec : (sval w a = - (Mod w n / 2) /\ sval w b = -1) \/
                 ~ (sval w a = - (Mod w n / 2) /\ sval w b = -1)) by lia.
  destruct Hdec as [[E1 E2] | Hno].
  - (* MIN / -1 *)
    replace (sval w a <? 0) with true in * by (symmetry; apply Z.ltb_lt; lia).
    replace (sval w b <? 0) with true in * by (symmetry; apply Z.ltb_lt; lia).
    rewrite Er'. cbn [omap]. exists d, r'.
    split; [reflexivity|]. split; [exact Hd|]. split; [exact Hr'|].
    split; [rewrite Hvr', Hsr; exact (eq_sym R)|].
    split; [intros _ | intros Hc; exfalso; apply Hc; auto].
    apply (sval_half w n); auto. rewrite Hdv, E1, E2.
    change (Z.abs (-1)) with 1. rewrite Z.div_1_r. lia.
  - assert (Hdlt : uval w d < Mod w n / 2).
    { destruct (Z.eq_dec (uval w d) (Mod w n / 2)) as [Eq|Ne]; [|lia].
      destruct (D2 Eq) as [X1 X2]. exfalso.
      assert (sval w a = - (Mod w n / 2)) by lia.
      assert (sval w b = 1 \/ sval w b = -1) by lia. intuition. }
    assert (Hsd : sval w d = uval w d) by (apply (sval_small w n); auto).
    assert (Hnegd : SRet w n (I_neg dbg w d) (- sval w d)).
    { apply I_neg_spec; auto. lia. }
    destruct Hnegd as (d' & Ed' & Hd' & Hvd').
    revert Q R.
    destruct (Z.ltb_spec (sval w a) 0) as [SA|SA]; destruct (Z.ltb_spec (sval w b) 0) as [SB|SB];
      cbn [xorb]; intros Q R.
    + rewrite Er'. cbn [omap]. exists d, r'.
      split; [reflexivity|]. split; [exact Hd|]. split; [exact Hr'|].
      split; [rewrite Hvr', Hsr; exact (eq_sym R)|].
      split; [intros Hc; exfalso; apply Hno; exact Hc | intros _; rewrite Hsd; exact (eq_sym Q)].
    + rewrite Ed'. cbn [obind]. rewrite Er'. cbn [omap]. exists d', r'.
      split; [reflexivity|]. split; [exact Hd'|]. split; [exact Hr'|].
      split; [rewrite Hvr', Hsr; exact (eq_sym R)|].
      split; [intros Hc; exfalso; apply Hno; exact Hc | intros _; rewrite Hvd', Hsd; exact (eq_sym Q)].
    + rewrite Ed'. cbn [omap]. exists d', r.
      split; [reflexivity|]. split; [exact Hd'|]. split; [exact Hr|].
      split; [rewrite Hsr; exact (eq_sym R)|].
      split; [intros Hc; exfalso; apply Hno; exact Hc | intros _; rewrite Hvd', Hsd; exact (eq_sym Q)].
    + exists d, r.
      split; [reflexivity|]. split; [exact Hd|]. split; [exact Hr|].
      split; [rewrite Hsr; exact (eq_sym R)|].
      split; [intros Hc; exfalso; apply Hno; exact Hc | intros _; rewrite Hsd; exact (eq_sym Q)].
Qed.

Theorem I_div_rem_unchecked_ok dbg w n a b :
  0 < w -> U_div_rem_spec w -> (0 < n)%nat -> wf w n a -> wf w n b ->
  sval w b <> 0 -> ~ min_neg_one w n a b ->
  exists q r, I_div_rem_unchecked dbg w a b = Ret (q, r) /\ wf w n q /\ wf w n r /\
    sval w q = Z.quot (sval w a) (sval w b) /\ sval w r = Z.rem (sval w a) (sval w b).
Proof.
  intros Hw HS Hn Ha Hb Hnz Hno.
  destruct (I_div_rem_unchecked_core dbg w n a b Hw HS Hn Ha Hb Hnz)
    as (q & r & E & Hq & Hr & Hrv & _ & Hqv).
  exists q, r. split; [exact E|]. split; [exact Hq|]. split; [exact Hr|].
  split; [apply Hqv; exact Hno | exact Hrv].
Qed.

(* MIN / -1 through div_rem_unchecked: no panic in either mode, the pair (MIN, 0) *)
Theorem I_div_rem_unchecked_min_neg_one dbg w n a b :
  0 < w -> U_div_rem_spec w -> (0 < n)%nat -> wf w n a -> wf w n b -> min_neg_one w n a b ->
  exists q r, I_div_rem_unchecked dbg w a b = Ret (q, r) /\ wf w n q /\ wf w n r /\
    sval w q = - (Mod w n / 2) /\ sval w r = 0.
Proof.
  intros Hw HS Hn Ha Hb Hmno. assert (Hnz : sval w b <> 0) by (destruct Hmno; lia).
  destruct (I_div_rem_unchecked_core dbg w n a b Hw HS Hn Ha Hb Hnz)
    as (q & r & E & Hq & Hr & Hrv & Hqv & _).
  exists q, r. repeat (split; [assumption|]). split; [auto|].
  rewrite Hrv. destruct Hmno as [_ ->]. apply rem_neg_one.
Qed.

(* Proofs/DischargeRadix.v — the premises of the C11 development (Proofs/RadixOutDeps.v) discharged by
   the theorems of the owners of the other models: Proofs/DivDigit.v (C03), Proofs/Cmp.v (C07),
   Proofs/AddSub.v (C01).  Names are qualified: RadixOutDeps.div_digit_spec (quotient = `/`,
   remainder = `mod`) is a different statement from PowDeps.div_digit_spec (Euclidean equation),
   and RadixOutDeps.is_negative_spec from ParseDeps.is_negative_spec. *)
From Bnum Require Import Base Prim.
From Bnum.Model Require Import Digit Core Shift AddSub Mul Div Bits.
From Bnum.Proofs Require AddSub Cmp DivDigit RadixOutDeps.

Lemma div_digit_spec_holds : RadixOutDeps.div_digit_spec.
Proof.
  intros w n a d Hw Ha Hd.
  destruct (DivDigit.div_rem_digit_ok w n a d Hw Ha Hd) as (Hq & Hv & Hr).
  split; [exact Hq|]. split.
  - apply (Z.div_unique _ _ _ (snd (div_rem_digit w a d))); [left; exact Hr | lia].
  - apply (Z.mod_unique _ _ (uval w (fst (div_rem_digit w a d)))); [left; exact Hr | lia].
Qed.

Lemma is_negative_spec_holds : RadixOutDeps.is_negative_spec.
Proof. intros w n a Hw Hn Ha. exact (Cmp.is_negative_ok w n a Hw Hn Ha). Qed.

Lemma unsigned_abs_spec_holds : RadixOutDeps.unsigned_abs_spec.
Proof. intros w n a Hw Hn Ha. exact (AddSub.I_unsigned_abs_ok w n a Hw Hn Ha). Qed.

(* Proofs/PrintGenTieD.v — tie of the generated radix OUTPUT code (Generated/PrintGen.v) to Model/RadixOut.v, part D:
   the dispatcher to_radix_le (assert_range! panic, zero, byte copy, the three digit loops), to_radix_be, to_str_radix and the
   signed wrappers of src/bint/radix.rs.

   Result relation oo_res: the hand model returns `option (outcome _)`: Some (Ret l) <-> Done l, Some Panic <-> Panicked,
   None (the model's own budget ran out; excluded by a hypothesis / impossible for well-formed operands) <-> NoFuel.

   Two layers: `*_struct` lemmas need no well-formedness (only "the model does not run out of its own budget") and use no
   arithmetic fact about the digits; the final `gen_*` theorems are stated for well-formed operands, where the model is total
   (Proofs/RadixOut.v: to_radix_le_ok) and its digits are below the radix - needed for to_str_radix only: `*byte += b'a' - 10`
   is a checked u8 addition. *)
From Bnum Require Import Base Prim.
From Bnum.Model Require Import Digit DigitPrims LoopPrims Core Imp ImpParse ImpDiv ImpPrint.
From Bnum.Model Require Div Bits AddSub RadixOut.
From Bnum.Generated Require Import DigitGen PrintGen.
From Bnum.Proofs Require Import ImpLemmas ImpLemmas2 PrintGenTieA PrintGenTieB PrintGenTieC.
From Bnum.Proofs Require RadixSpec RadixOut RadixOutDeps DischargeRadix.

Definition oo_res {A : Type} (x : option (outcome A)) : res A :=
  match x with Some (Ret a) => Done a | Some Panic => Panicked | None => NoFuel end.

(* an iteration budget that suffices for every loop of the printing code on n digits of width w *)
Definition print_fuel (w : Z) (n : nat) : nat := (Z.to_nat (2 * w) * S n + 1)%nat.

Lemma print_fuel_ge w n fuel : 0 < w -> (print_fuel w n <= fuel)%nat ->
  (Z.to_nat w <= fuel)%nat /\ (Z.to_nat (2 * w) * S n <= fuel)%nat /\ (S (Z.to_nat (bits w n)) <= fuel)%nat.
Proof. unfold print_fuel, bits. intros Hw H. nia. Qed.

(* ---------- facts about ilog2 of a radix in [2, 256] ---------- *)

Lemma ilog2_radix_facts radix : 2 <= radix <= 256 ->
  1 <= RadixOut.ilog2_u32 radix <= 8 /\ (RadixOut.ilog2_u32 radix = 8 -> radix = 256).
Proof.
  intros Hr. rewrite ilog2_u32_log2 by lia.
  pose proof (Z.log2_le_mono 2 radix ltac:(lia)) as H1. change (Z.log2 2) with 1 in H1.
  pose proof (Z.log2_le_mono radix 256 ltac:(lia)) as H2. change (Z.log2 256) with 8 in H2.
  split; [lia|]. intros E. pose proof (Z.log2_spec radix ltac:(lia)) as [H3 _]. rewrite E in H3. change (2 ^ 8) with 256 in H3. lia.
Qed.

Lemma is_zero_nil_ne (a : list Z) : is_zero a = false -> a <> [].
Proof. intros H ->. discriminate. Qed.

(* ---------- to_radix_le ---------- *)

Theorem gen_to_radix_le_struct w N fuel self radix :
  8 <= w <= 248 -> (print_fuel w (length self) <= fuel)%nat ->
  RadixOut.U_to_radix_le w self radix <> None ->
  PrintGen.to_radix_le w N fuel self radix = oo_res (RadixOut.U_to_radix_le w self radix).
Proof.
  intros Hw Hf Hn. destruct (print_fuel_ge w (length self) fuel ltac:(lia) Hf) as (Hf1 & Hf2 & Hf3).
  unfold PrintGen.to_radix_le, RadixOut.U_to_radix_le, RadixOut.radix_in_range in *. rewrite Z.geb_leb.
  destruct ((2 <=? radix) && (radix <=? 256)) eqn:Er; cbn [negb] in *; [|reflexivity].
  apply andb_true_iff in Er. destruct Er as [Er1 Er2]. apply Z.leb_le in Er1, Er2.
  destruct (is_zero self) eqn:Ez; [reflexivity|]. pose proof (is_zero_nil_ne self Ez) as Hne.
  change (u32_is_power_of_two radix) with (RadixOut.u32_is_power_of_two radix).
  destruct (ilog2_radix_facts radix ltac:(lia)) as [Hb Hb8].
  pose proof (RadixOut.B_ge_256 w ltac:(lia)) as HB.
  destruct (RadixOut.u32_is_power_of_two radix) eqn:Ep.
  - destruct ((w =? 8) && (radix =? 256)) eqn:Ec.
    + destruct (RadixOut.ldi_spec self Hne) as (Hlt & _). cbv zeta in Hlt.
      unfold slice_incl. cbn [length].
      destruct (Z.leb_spec 0 (Z.of_nat (Div.last_digit_index self) + 1)); [|lia].
      destruct (Z.ltb_spec (Z.of_nat (Div.last_digit_index self)) (Z.of_nat (length self))); [|lia].
      cbn [Z.leb andb bind oo_res]. f_equal.
      replace (Z.to_nat (Z.of_nat (Div.last_digit_index self) + 1 - 0)) with (S (Div.last_digit_index self)) by lia.
      reflexivity.
    + rewrite gen_ilog2 by (change (2 ^ 32) with 4294967296; lia). rewrite bind_Done.
      assert (Hbw : RadixOut.ilog2_u32 radix < w).
      { apply andb_false_iff in Ec. destruct Ec as [Ec|Ec]; [apply Z.eqb_neq in Ec; lia|].
        apply Z.eqb_neq in Ec. destruct (Z.eq_dec (RadixOut.ilog2_u32 radix) 8) as [E8|]; [specialize (Hb8 E8); lia | lia]. }
      unfold urem at 1. destruct (Z.eqb_spec (RadixOut.ilog2_u32 radix) 0) as [|_]; [lia|]. rewrite bind_Done.
      destruct (w mod RadixOut.ilog2_u32 radix =? 0).
      * destruct (RadixOut.to_bitwise_digits_le w self (RadixOut.ilog2_u32 radix)) as [out|] eqn:E; [|contradiction Hn; reflexivity].
        rewrite (gen_to_bitwise_digits_le w N fuel self _ out) by (assumption || lia). reflexivity.
      * destruct (RadixOut.to_inexact_bitwise_digits_le w self (RadixOut.ilog2_u32 radix)) as [out|] eqn:E; [|contradiction Hn; reflexivity].
        rewrite (gen_to_inexact_bitwise_digits_le w N fuel self _ out) by (assumption || lia). reflexivity.
  - assert (Hr256 : radix <> 256) by (intros ->; vm_compute in Ep; discriminate).
    assert (Hm : radix mod B w <> 0) by (rewrite Z.mod_small by lia; lia).
    destruct (radix =? 10) eqn:E10.
    + apply Z.eqb_eq in E10. subst radix.
      destruct (RadixOut.to_radix_digits_le w self 10) as [out|] eqn:E; [|contradiction Hn; reflexivity].
      rewrite (gen_to_radix_digits_le w N fuel self 10 out) by (assumption || (change (2 ^ 32) with 4294967296; lia) || lia). reflexivity.
    + destruct (RadixOut.to_radix_digits_le w self radix) as [out|] eqn:E; [|contradiction Hn; reflexivity].
      rewrite (gen_to_radix_digits_le w N fuel self radix out) by (assumption || (change (2 ^ 32) with 4294967296; lia) || lia). reflexivity.
Qed.

Lemma oo_res_oomap {A C} (f : A -> C) (x : option (outcome A)) :
  oo_res (RadixOut.oomap f x) = bind (oo_res x) (fun a => Done (f a)).
Proof. destruct x as [[a|]|]; reflexivity. Qed.

Lemma oomap_none {A C} (f : A -> C) (x : option (outcome A)) : RadixOut.oomap f x <> None -> x <> None.
Proof. destruct x; [congruence | intros H; contradiction H; reflexivity]. Qed.

Theorem gen_to_radix_be_struct w N fuel self radix :
  8 <= w <= 248 -> (print_fuel w (length self) <= fuel)%nat ->
  RadixOut.U_to_radix_be w self radix <> None ->
  PrintGen.to_radix_be w N fuel self radix = oo_res (RadixOut.U_to_radix_be w self radix).
Proof.
  intros Hw Hf Hn. unfold PrintGen.to_radix_be, RadixOut.U_to_radix_be in *.
  rewrite gen_to_radix_le_struct by (assumption || exact (oomap_none _ _ Hn)).
  rewrite oo_res_oomap. reflexivity.
Qed.

(* ---------- to_str_radix ---------- *)

(* for byte in out.iter_mut() { if *byte < 10 { *byte += b'0' } else { *byte += b'a' - 10 } } *)
Lemma sim_ascii (body : Z -> res Z) :
  (forall b, 0 <= b < 169 -> body b = Done (RadixOut.ascii_lower b)) ->
  forall l, Forall (fun b => 0 <= b < 169) l -> for_each_mut l body = Done (map RadixOut.ascii_lower l).
Proof.
  intros Hb. induction l as [|x l IH]; intros Hl; [reflexivity|].
  inversion Hl as [|? ? Hx Hl']; subst. cbn [for_each_mut map]. rewrite Hb by exact Hx. rewrite bind_Done.
  rewrite IH by exact Hl'. reflexivity.
Qed.

Theorem gen_to_str_radix_struct w N fuel self radix :
  8 <= w <= 248 -> (print_fuel w (length self) <= fuel)%nat ->
  RadixOut.U_to_str_radix w self radix <> None ->
  (forall l, RadixOut.U_to_radix_be w self radix = Some (Ret l) -> Forall (fun b => 0 <= b < 169) l) ->
  PrintGen.to_str_radix w N fuel self radix = oo_res (RadixOut.U_to_str_radix w self radix).
Proof.
  intros Hw Hf Hn Hd. unfold PrintGen.to_str_radix, RadixOut.U_to_str_radix, RadixOut.radix_in_range in *. rewrite Z.geb_leb.
  destruct ((2 <=? radix) && (radix <=? 36)) eqn:Er; cbn [negb] in *; [|reflexivity].
  rewrite gen_to_radix_be_struct by (assumption || exact (oomap_none _ _ Hn)).
  destruct (RadixOut.U_to_radix_be w self radix) as [[l|]|] eqn:E; [ | reflexivity | reflexivity].
  cbn [oo_res RadixOut.oomap option_map omap]. rewrite bind_Done.
  rewrite sim_ascii; [reflexivity | | exact (Hd l eq_refl)].
  intros b Hb. unfold RadixOut.ascii_lower, badd, usub. destruct (Z.ltb_spec b 10).
  - destruct (Z.ltb_spec (b + 48) 256); [reflexivity | lia].
  - change (97 <? 10) with false. change (97 - 10) with 87. cbv iota. rewrite bind_Done.
    destruct (Z.ltb_spec (b + 87) 256); [reflexivity | lia].
Qed.

(* ---------- well-formed operands: the model is total and its digits are below the radix ---------- *)

Theorem gen_to_radix_le w n fuel a radix :
  8 <= w <= 248 -> wf w n a -> (print_fuel w n <= fuel)%nat ->
  PrintGen.to_radix_le w (Z.of_nat n) fuel a radix = oo_res (RadixOut.U_to_radix_le w a radix).
Proof.
  intros Hw Ha Hf. destruct (Z_le_dec 2 radix) as [H2|H2]; [destruct (Z_le_dec radix 256) as [H256|H256]|].
  - apply gen_to_radix_le_struct; [exact Hw | rewrite (proj1 Ha); exact Hf|].
    destruct (RadixOut.to_radix_le_ok DischargeRadix.div_digit_spec_holds w n a radix ltac:(lia) Ha ltac:(lia)) as (ds & E & _).
    rewrite E. discriminate.
  - apply gen_to_radix_le_struct; [exact Hw | rewrite (proj1 Ha); exact Hf|].
    rewrite (proj2 (RadixOut.U_to_radix_le_panic w a radix)) by lia. discriminate.
  - apply gen_to_radix_le_struct; [exact Hw | rewrite (proj1 Ha); exact Hf|].
    rewrite (proj2 (RadixOut.U_to_radix_le_panic w a radix)) by lia. discriminate.
Qed.

Theorem gen_to_radix_be w n fuel a radix :
  8 <= w <= 248 -> wf w n a -> (print_fuel w n <= fuel)%nat ->
  PrintGen.to_radix_be w (Z.of_nat n) fuel a radix = oo_res (RadixOut.U_to_radix_be w a radix).
Proof.
  intros Hw Ha Hf. unfold PrintGen.to_radix_be, RadixOut.U_to_radix_be.
  rewrite gen_to_radix_le by assumption. rewrite oo_res_oomap. reflexivity.
Qed.

Theorem gen_to_str_radix w n fuel a radix :
  8 <= w <= 248 -> wf w n a -> (print_fuel w n <= fuel)%nat ->
  PrintGen.to_str_radix w (Z.of_nat n) fuel a radix = oo_res (RadixOut.U_to_str_radix w a radix).
Proof.
  intros Hw Ha Hf. destruct (Z_le_dec 2 radix) as [H2|H2]; [destruct (Z_le_dec radix 36) as [H36|H36]|].
  - destruct (RadixOut.to_radix_be_ok DischargeRadix.div_digit_spec_holds w n a radix ltac:(lia) Ha ltac:(lia)) as (ds & E & C).
    apply gen_to_str_radix_struct; [exact Hw | rewrite (proj1 Ha); exact Hf | |].
    + unfold RadixOut.U_to_str_radix. rewrite (proj2 (RadixOut.radix_in_range_true radix 36)) by lia. rewrite E. discriminate.
    + intros l El. rewrite E in El. injection El as <-. destruct C as [D _]. unfold RadixSpec.digits_in in D.
      apply Forall_rev. eapply Forall_impl; [|exact D]. cbv beta. intros; lia.
  - unfold PrintGen.to_str_radix. rewrite (proj2 (RadixOut.U_to_str_radix_panic w a radix)) by lia.
    destruct (Z.leb_spec radix 36); [lia|]. rewrite andb_false_r. reflexivity.
  - unfold PrintGen.to_str_radix. rewrite (proj2 (RadixOut.U_to_str_radix_panic w a radix)) by lia.
    rewrite Z.geb_leb. destruct (Z.leb_spec 2 radix); [lia|]. reflexivity.
Qed.

(* ---------- src/bint/radix.rs ---------- *)

Theorem gen_I_to_radix_le w n fuel a radix :
  8 <= w <= 248 -> wf w n a -> (print_fuel w n <= fuel)%nat ->
  PrintGen.I_to_radix_le w (Z.of_nat n) fuel a radix = oo_res (RadixOut.I_to_radix_le w a radix).
Proof.
  intros Hw Ha Hf. unfold PrintGen.I_to_radix_le, RadixOut.I_to_radix_le. rewrite gen_to_radix_le by assumption.
  destruct (oo_res (RadixOut.U_to_radix_le w a radix)); reflexivity.
Qed.

Theorem gen_I_to_radix_be w n fuel a radix :
  8 <= w <= 248 -> wf w n a -> (print_fuel w n <= fuel)%nat ->
  PrintGen.I_to_radix_be w (Z.of_nat n) fuel a radix = oo_res (RadixOut.I_to_radix_be w a radix).
Proof.
  intros Hw Ha Hf. unfold PrintGen.I_to_radix_be, RadixOut.I_to_radix_be. rewrite gen_to_radix_be by assumption.
  destruct (oo_res (RadixOut.U_to_radix_be w a radix)); reflexivity.
Qed.

Theorem gen_I_to_str_radix w n fuel a radix :
  8 <= w <= 248 -> (0 < n)%nat -> wf w n a -> (print_fuel w n <= fuel)%nat ->
  PrintGen.I_to_str_radix w (Z.of_nat n) fuel a radix = oo_res (RadixOut.I_to_str_radix w a radix).
Proof.
  intros Hw Hn Ha Hf. unfold PrintGen.I_to_str_radix, RadixOut.I_to_str_radix.
  destruct (is_negative w a).
  - destruct (DischargeRadix.unsigned_abs_spec_holds w n a ltac:(lia) Hn Ha) as [Ha' _].
    rewrite gen_to_str_radix by assumption. rewrite oo_res_oomap.
    destruct (oo_res (RadixOut.U_to_str_radix w (AddSub.I_unsigned_abs w a) radix)); reflexivity.
  - rewrite gen_to_str_radix by assumption.
    destruct (oo_res (RadixOut.U_to_str_radix w a radix)); reflexivity.
Qed.

(* Proofs/AddSubLemmas.v — value-level arithmetic facts, digit-level specs of
   src/digit.rs, loop invariants of the add/sub/neg loops, constants, comparison. *)
From Bnum Require Import Base Prim.
From Bnum.Model Require Import Digit Core Shift AddSub.

Definition b2z (b : bool) : Z := if b then 1 else 0.

(* ================= value level (Z only) ================= *)

Lemma half_mul K M : 0 < K -> M = 2 * (M / 2) -> (K * M) / 2 = K * (M / 2).
Proof.
  intros HK HM. rewrite HM at 1. replace (K * (2 * (M / 2))) with (K * (M / 2) * 2) by ring.
  apply Z.div_mul. lia.
Qed.

Lemma even_mul K M : 0 < K -> M = 2 * (M / 2) -> K * M = 2 * ((K * M) / 2).
Proof. intros HK HM. rewrite half_mul by assumption. rewrite HM at 1. ring. Qed.

Lemma mod_low K M s T : 0 < K -> 0 < M -> 0 <= s < K ->
  (s + K * T) mod (K * M) = s + K * (T mod M).
Proof.
  intros HK HM Hs.
  rewrite Z.rem_mul_r by lia.
  replace (s + K * T) with (s + T * K) by ring.
  rewrite Z_mod_plus_full, Z.mod_small by lia.
  rewrite Z.div_add, Z.div_small by lia. rewrite Z.add_0_l. reflexivity.
Qed.

Lemma wrapS_low K M s T : 0 < K -> 0 < M -> M = 2 * (M / 2) -> 0 <= s < K ->
  wrapS (K * M) (s + K * T) = s + K * wrapS M T.
Proof.
  intros HK HM He Hs. unfold wrapS. rewrite half_mul by assumption.
  replace (s + K * T + K * (M / 2)) with (s + K * (T + M / 2)) by ring.
  rewrite mod_low by assumption. ring.
Qed.

Lemma inS_low K M s T : 0 < K -> 0 < M -> M = 2 * (M / 2) -> 0 <= s < K ->
  inS (K * M) (s + K * T) = inS M T.
Proof.
  intros HK HM He Hs. unfold inS. rewrite half_mul by assumption.
  set (h := M / 2).
  apply eq_true_iff_eq. rewrite !andb_true_iff, !Z.leb_le, !Z.ltb_lt. nia.
Qed.

Lemma to_signed_low K M s u : 0 < K -> 0 < M -> M = 2 * (M / 2) -> 0 <= s < K ->
  to_signed (K * M) (s + K * u) = s + K * to_signed M u.
Proof.
  intros HK HM He Hs. unfold to_signed. rewrite half_mul by assumption.
  set (h := M / 2).
  destruct (Z.ltb_spec (s + K * u) (K * h)), (Z.ltb_spec u h); nia.
Qed.

(* carry-out characterisation: r + M*c = X with r a residue *)
Lemma carry_out M r c X : 0 < M -> 0 <= r < M -> r + M * b2z c = X ->
  r = X mod M /\ c = (M <=? X).
Proof.
  intros HM Hr He. destruct c; cbn [b2z] in He.
  - split.
    + subst X. replace (r + M * 1) with (r + 1 * M) by ring. rewrite Z_mod_plus_full, Z.mod_small; lia.
    + symmetry. apply Z.leb_le. lia.
  - split.
    + rewrite Z.mod_small; lia.
    + symmetry. apply Z.leb_gt. lia.
Qed.

Lemma borrow_out M r c X : 0 < M -> 0 <= r < M -> r - M * b2z c = X ->
  r = X mod M /\ c = (X <? 0).
Proof.
  intros HM Hr He. destruct c; cbn [b2z] in He.
  - split.
    + subst X. replace (r - M * 1) with (r + (-1) * M) by ring. rewrite Z_mod_plus_full, Z.mod_small; lia.
    + symmetry. apply Z.ltb_lt. lia.
  - split.
    + rewrite Z.mod_small; lia.
    + symmetry. apply Z.ltb_ge. lia.
Qed.

Lemma wrapS_congr M x y : 0 < M -> x mod M = y mod M -> wrapS M x = wrapS M y.
Proof.
  intros HM H. unfold wrapS. f_equal.
  rewrite (Z.add_mod x), (Z.add_mod y), H by lia. reflexivity.
Qed.

Lemma wrapS_shift M x k : 0 < M -> wrapS M (x + k * M) = wrapS M x.
Proof. intros. apply wrapS_congr; auto. apply Z_mod_plus_full. Qed.

Lemma negb_inS_false M x : M = 2 * (M / 2) -> - (M / 2) <= x < M / 2 -> negb (inS M x) = false.
Proof. intros He H. apply negb_false_iff. apply inS_true. exact H. Qed.

Lemma inS_false M x : inS M x = false <-> (x < - (M / 2) \/ M / 2 <= x).
Proof.
  unfold inS. rewrite andb_false_iff, Z.leb_gt, Z.ltb_ge. tauto.
Qed.

(* ================= digit level ================= *)

Lemma Bw_even w : 0 < w -> B w = 2 * (B w / 2).
Proof.
  intros Hw. unfold B. replace w with (1 + (w - 1)) at 1 by lia.
  rewrite Z.pow_add_r by lia. change (2 ^ 1) with 2.
  replace w with (1 + (w - 1)) at 2 by lia.
  rewrite Z.pow_add_r by lia. change (2 ^ 1) with 2.
  rewrite (Z.mul_comm 2 (2 ^ (w - 1))), Z.div_mul by lia. ring.
Qed.

Lemma Mod_1 w : 0 <= w -> Mod w 1 = B w.
Proof. intros. rewrite Mod_S, Mod_0 by lia. ring. Qed.

Lemma mod_up M x : 0 < M -> M <= x < 2 * M -> x mod M = x - M.
Proof.
  intros. replace x with ((x - M) + 1 * M) at 1 by ring. rewrite Z_mod_plus_full, Z.mod_small; lia.
Qed.

Lemma mod_down M x : 0 < M -> - M <= x < 0 -> x mod M = x + M.
Proof.
  intros. replace x with ((x + M) + (-1) * M) at 1 by ring. rewrite Z_mod_plus_full, Z.mod_small; lia.
Qed.

Lemma carrying_add_spec w a b c : 0 <= w -> digit_ok w a -> digit_ok w b ->
  let '(s, o) := carrying_add w a b c in
  digit_ok w s /\ s + B w * b2z o = a + b + b2z c.
Proof.
  intros Hw Ha Hb. unfold carrying_add, u_ovf_add, digit_ok in *.
  pose proof (B_pos w Hw) as HB.
  destruct (Z.leb_spec (B w) (a + b)) as [L1|L1].
  - rewrite (mod_up (B w) (a + b)) by lia.
    destruct c; cbn [b2z orb]; [|lia].
    rewrite Z.mod_small by lia. lia.
  - rewrite (Z.mod_small (a + b)) by lia.
    destruct c; cbn [b2z orb]; [|lia].
    destruct (Z.leb_spec (B w) (a + b + 1)) as [L2|L2].
    + rewrite mod_up by lia. cbn [b2z]. lia.
    + rewrite Z.mod_small by lia. cbn [b2z]. lia.
Qed.

Lemma borrowing_sub_spec w a b c : 0 <= w -> digit_ok w a -> digit_ok w b ->
  let '(s, o) := borrowing_sub w a b c in
  digit_ok w s /\ s - B w * b2z o = a - b - b2z c.
Proof.
  intros Hw Ha Hb. unfold borrowing_sub, u_ovf_sub, digit_ok in *.
  pose proof (B_pos w Hw) as HB.
  destruct (Z.ltb_spec a b) as [L1|L1].
  - rewrite (mod_down (B w) (a - b)) by lia.
    destruct c; cbn [b2z orb]; [|lia].
    rewrite Z.mod_small by lia. lia.
  - rewrite (Z.mod_small (a - b)) by lia.
    destruct c; cbn [b2z orb]; [|lia].
    destruct (Z.ltb_spec (a - b) 1) as [L2|L2].
    + rewrite mod_down by lia. cbn [b2z]. lia.
    + rewrite Z.mod_small by lia. cbn [b2z]. lia.
Qed.

(* signed wrap of a value known to lie within one modulus of the range *)
Lemma wrapS_cases M x : 0 < M -> M = 2 * (M / 2) -> - M - M / 2 <= x < M + M / 2 ->
  wrapS M x = if x <? - (M / 2) then x + M else if x <? M / 2 then x else x - M.
Proof.
  intros HM He Hx.
  destruct (Z.ltb_spec x (- (M / 2))); [|destruct (Z.ltb_spec x (M / 2))].
  - replace x with ((x + M) + (-1) * M) at 1 by ring. rewrite wrapS_shift by lia. apply wrapS_id; lia.
  - apply wrapS_id; lia.
  - replace x with ((x - M) + 1 * M) at 1 by ring. rewrite wrapS_shift by lia. apply wrapS_id; lia.
Qed.

Ltac split_ifs :=
  repeat match goal with
  | |- context [?x <? ?y] => destruct (Z.ltb_spec x y)
  | |- context [?x <=? ?y] => destruct (Z.leb_spec x y)
  end; cbn [negb andb orb xorb]; try reflexivity; try lia.

Lemma signed_step_add Bw a b (c : bool) : 0 < Bw -> Bw = 2 * (Bw / 2) ->
  - (Bw / 2) <= a < Bw / 2 -> - (Bw / 2) <= b < Bw / 2 ->
  (if c then (wrapS Bw (wrapS Bw (a + b) + 1),
              xorb (negb (inS Bw (a + b))) (negb (inS Bw (wrapS Bw (a + b) + 1))))
   else (wrapS Bw (a + b), negb (inS Bw (a + b))))
  = (wrapS Bw (a + b + b2z c), negb (inS Bw (a + b + b2z c))).
Proof.
  intros HB He Ha Hb.
  destruct c; cbn [b2z]; [|rewrite Z.add_0_r; reflexivity].
  assert (HW : wrapS Bw (a + b + 1) = if a + b + 1 <? - (Bw / 2) then a + b + 1 + Bw
               else if a + b + 1 <? Bw / 2 then a + b + 1 else a + b + 1 - Bw)
    by (apply wrapS_cases; lia).
  rewrite HW. rewrite (wrapS_cases Bw (a + b)) by lia.
  unfold inS. set (h := Bw / 2) in *.
  destruct (Z.ltb_spec (a + b) (- h)) as [L1|L1]; [|destruct (Z.ltb_spec (a + b) h) as [L2|L2]].
  - rewrite (wrapS_cases Bw (a + b + Bw + 1)) by (fold h; lia). fold h.
    f_equal; split_ifs.
  - rewrite HW.
    f_equal; split_ifs.
  - rewrite (wrapS_cases Bw (a + b - Bw + 1)) by (fold h; lia). fold h.
    f_equal; split_ifs.
Qed.

Lemma signed_step_sub Bw a b (c : bool) : 0 < Bw -> Bw = 2 * (Bw / 2) ->
  - (Bw / 2) <= a < Bw / 2 -> - (Bw / 2) <= b < Bw / 2 ->
  (if c then (wrapS Bw (wrapS Bw (a - b) - 1),
              xorb (negb (inS Bw (a - b))) (negb (inS Bw (wrapS Bw (a - b) - 1))))
   else (wrapS Bw (a - b), negb (inS Bw (a - b))))
  = (wrapS Bw (a - b - b2z c), negb (inS Bw (a - b - b2z c))).
Proof.
  intros HB He Ha Hb.
  destruct c; cbn [b2z]; [|rewrite Z.sub_0_r; reflexivity].
  assert (HW : wrapS Bw (a - b - 1) = if a - b - 1 <? - (Bw / 2) then a - b - 1 + Bw
               else if a - b - 1 <? Bw / 2 then a - b - 1 else a - b - 1 - Bw)
    by (apply wrapS_cases; lia).
  rewrite HW. rewrite (wrapS_cases Bw (a - b)) by lia.
  unfold inS. set (h := Bw / 2) in *.
  destruct (Z.ltb_spec (a - b) (- h)) as [L1|L1]; [|destruct (Z.ltb_spec (a - b) h) as [L2|L2]].
  - rewrite (wrapS_cases Bw (a - b + Bw - 1)) by (fold h; lia). fold h.
    f_equal; split_ifs.
  - rewrite HW.
    f_equal; split_ifs.
  - rewrite (wrapS_cases Bw (a - b - Bw - 1)) by (fold h; lia). fold h.
    f_equal; split_ifs.
Qed.

Lemma carrying_add_signed_spec w a b c : 0 < w ->
  - (B w / 2) <= a < B w / 2 -> - (B w / 2) <= b < B w / 2 ->
  carrying_add_signed w a b c =
    (wrapS (B w) (a + b + b2z c), negb (inS (B w) (a + b + b2z c))).
Proof.
  intros Hw Ha Hb. rewrite <- (signed_step_add (B w) a b c (B_pos w ltac:(lia)) (Bw_even w Hw) Ha Hb).
  unfold carrying_add_signed, s_ovf_add. destruct c; reflexivity.
Qed.

Lemma borrowing_sub_signed_spec w a b c : 0 < w ->
  - (B w / 2) <= a < B w / 2 -> - (B w / 2) <= b < B w / 2 ->
  borrowing_sub_signed w a b c =
    (wrapS (B w) (a - b - b2z c), negb (inS (B w) (a - b - b2z c))).
Proof.
  intros Hw Ha Hb. rewrite <- (signed_step_sub (B w) a b c (B_pos w ltac:(lia)) (Bw_even w Hw) Ha Hb).
  unfold borrowing_sub_signed, s_ovf_sub. destruct c; reflexivity.
Qed.

Lemma sd_range w d : 0 < w -> digit_ok w d -> - (B w / 2) <= sd w d < B w / 2.
Proof.
  intros Hw Hd. unfold sd. apply to_signed_range; [apply B_pos; lia | apply Bw_even; auto | exact Hd].
Qed.

(* ================= list level: denotation ================= *)

Lemma Mod_even' w n : 0 < w -> Mod w (S n) = 2 * (Mod w (S n) / 2).
Proof. intros. apply Mod_even; lia. Qed.

Lemma sval_single w d : 0 <= w -> sval w [d] = sd w d.
Proof.
  intros Hw. unfold sval, sd. cbn [uval length]. rewrite Mod_1 by lia. f_equal. lia.
Qed.

Lemma sval_single_ud w s : 0 < w -> sval w [ud w s] = wrapS (B w) s.
Proof.
  intros Hw. unfold sval, ud. cbn [uval length]. rewrite Mod_1 by lia.
  rewrite Z.mul_0_r, Z.add_0_r. apply to_signed_of_mod; [apply B_pos; lia | apply Bw_even; auto].
Qed.

Lemma sval_cons w k d r : 0 < w -> digit_ok w d -> wf w (S k) r ->
  sval w (d :: r) = d + B w * sval w r.
Proof.
  intros Hw Hd Hr. unfold sval. cbn [uval length]. rewrite (wf_length _ _ _ Hr).
  rewrite (Mod_S w (S k)) by lia.
  apply to_signed_low; [apply B_pos; lia | apply Mod_pos; lia | apply Mod_even'; auto | exact Hd].
Qed.

Lemma sval_as_uval w n ds : wf w n ds ->
  sval w ds = uval w ds - Mod w n * b2z (Mod w n / 2 <=? uval w ds).
Proof.
  intros H. unfold sval, to_signed. rewrite (wf_length _ _ _ H).
  destruct (Z.ltb_spec (uval w ds) (Mod w n / 2)), (Z.leb_spec (Mod w n / 2) (uval w ds)); cbn [b2z]; lia.
Qed.

Lemma top_digit_cons d d' r : top_digit (d :: d' :: r) = top_digit (d' :: r).
Proof. reflexivity. Qed.

Lemma top_decomp w : 0 < w -> forall k ds, wf w (S k) ds ->
  exists lo, 0 <= lo < Mod w k /\ digit_ok w (top_digit ds) /\
             uval w ds = lo + Mod w k * top_digit ds /\
             sval w ds = lo + Mod w k * signed_digit w ds.
Proof.
  intros Hw. induction k as [|k IH]; intros ds H.
  - destruct (wf_inv_S _ _ _ H) as (d & r & -> & Hd & Hr). apply wf_inv_0 in Hr; subst r.
    exists 0. rewrite Mod_0. unfold signed_digit, top_digit. cbn [last uval].
    rewrite sval_single by lia. split; [lia|]. split; [exact Hd|]. split; lia.
  - destruct (wf_inv_S _ _ _ H) as (d & r & -> & Hd & Hr).
    destruct (IH r Hr) as (lo & Hlo & Htop & Hu & Hs).
    destruct (wf_inv_S _ _ _ Hr) as (d' & r' & -> & _ & _).
    exists (d + B w * lo). unfold signed_digit in *. rewrite top_digit_cons.
    rewrite (sval_cons w k) by assumption. cbn [uval] in *.
    rewrite Hs, Hu. rewrite (Mod_S w k) by lia.
    pose proof (B_pos w ltac:(lia)). unfold digit_ok in Hd.
    split; [nia|]. split; [exact Htop|]. split; ring.
Qed.

Lemma is_negative_spec w k ds : 0 < w -> wf w (S k) ds ->
  is_negative w ds = (sval w ds <? 0).
Proof.
  intros Hw H. destruct (top_decomp w Hw k ds H) as (lo & Hlo & _ & _ & Hs).
  unfold is_negative. rewrite Hs. set (t := signed_digit w ds).
  destruct (Z.ltb_spec t 0), (Z.ltb_spec (lo + Mod w k * t) 0); try reflexivity; nia.
Qed.

Lemma is_negative_uval w k ds : 0 < w -> wf w (S k) ds ->
  is_negative w ds = (Mod w (S k) / 2 <=? uval w ds).
Proof.
  intros Hw H. rewrite (is_negative_spec w k) by assumption.
  rewrite (sval_as_uval w (S k)) by assumption.
  pose proof (uval_bounds w _ _ ltac:(lia) H). pose proof (Mod_even' w k Hw).
  destruct (Z.leb_spec (Mod w (S k) / 2) (uval w ds)); cbn [b2z];
  [apply Z.ltb_lt | apply Z.ltb_ge]; lia.
Qed.

(* ================= constants ================= *)

Lemma repeat_wf w n d : digit_ok w d -> wf w n (repeat d n).
Proof.
  intros Hd. split; [apply repeat_length|]. apply Forall_forall. intros x Hx.
  apply repeat_spec in Hx. subst; exact Hd.
Qed.

Lemma uval_repeat_0 w n : uval w (repeat 0 n) = 0.
Proof. induction n; cbn [repeat uval]; [reflexivity | rewrite IHn; lia]. Qed.

Lemma uval_repeat_max w n : 0 <= w -> uval w (repeat (u_max w) n) = Mod w n - 1.
Proof.
  intros Hw. induction n; cbn [repeat uval].
  - rewrite Mod_0. reflexivity.
  - rewrite IHn, Mod_S by lia. unfold u_max. ring.
Qed.

Lemma digit_ok_0 w : 0 <= w -> digit_ok w 0.
Proof. intros. unfold digit_ok. pose proof (B_pos w); lia. Qed.
Lemma digit_ok_max w : 0 <= w -> digit_ok w (u_max w).
Proof. intros. unfold digit_ok, u_max. pose proof (B_pos w); lia. Qed.
Lemma digit_ok_1 w : 0 < w -> digit_ok w 1.
Proof. intros. unfold digit_ok. pose proof (B_ge_2 w); lia. Qed.
Lemma digit_ok_half w : 0 < w -> digit_ok w (B w / 2).
Proof. intros. unfold digit_ok. pose proof (B_ge_2 w ltac:(lia)). pose proof (Bw_even w ltac:(lia)). lia. Qed.
Lemma digit_ok_half1 w : 0 < w -> digit_ok w (B w / 2 - 1).
Proof. intros. unfold digit_ok. pose proof (B_ge_2 w ltac:(lia)). pose proof (Bw_even w ltac:(lia)). lia. Qed.

Lemma ZERO_wf w n : 0 <= w -> wf w n (ZERO n).
Proof. intros. apply repeat_wf, digit_ok_0; auto. Qed.
Lemma ZERO_uval w n : uval w (ZERO n) = 0.
Proof. apply uval_repeat_0. Qed.
Lemma UMAX_wf w n : 0 <= w -> wf w n (UMAX w n).
Proof. intros. apply repeat_wf, digit_ok_max; auto. Qed.
Lemma UMAX_uval w n : 0 <= w -> uval w (UMAX w n) = Mod w n - 1.
Proof. apply uval_repeat_max. Qed.

Lemma ONE_wf w n : 0 < w -> wf w n (ONE n).
Proof.
  intros Hw. destruct n; [apply wf_nil|]. unfold ONE, from_digit.
  apply wf_cons. split; [apply digit_ok_1; auto | apply repeat_wf, digit_ok_0; lia].
Qed.
Lemma ONE_uval w n : uval w (ONE (S n)) = 1.
Proof. unfold ONE, from_digit. cbn [uval]. rewrite uval_repeat_0. lia. Qed.

Lemma Mod_half_S w k : 0 < w -> Mod w (S k) / 2 = Mod w k * (B w / 2).
Proof.
  intros Hw. rewrite Mod_S by lia. rewrite (Z.mul_comm (B w)).
  apply half_mul; [apply Mod_pos; lia | apply Bw_even; auto].
Qed.

Lemma IMIN_wf w k : 0 < w -> wf w (S k) (IMIN w (S k)).
Proof.
  intros Hw. unfold IMIN. replace (S k) with (k + 1)%nat at 1 by lia.
  apply wf_app; [apply repeat_wf, digit_ok_0; lia|].
  apply wf_cons; split; [apply digit_ok_half; auto | apply wf_nil].
Qed.
Lemma IMIN_uval w k : 0 < w -> uval w (IMIN w (S k)) = Mod w (S k) / 2.
Proof.
  intros Hw. unfold IMIN. rewrite uval_app, repeat_length, uval_repeat_0 by lia.
  cbn [uval]. rewrite Mod_half_S by auto. ring.
Qed.
Lemma IMAX_wf w k : 0 < w -> wf w (S k) (IMAX w (S k)).
Proof.
  intros Hw. unfold IMAX. replace (S k) with (k + 1)%nat at 1 by lia.
  apply wf_app; [apply repeat_wf, digit_ok_max; lia|].
  apply wf_cons; split; [apply digit_ok_half1; auto | apply wf_nil].
Qed.
Lemma IMAX_uval w k : 0 < w -> uval w (IMAX w (S k)) = Mod w (S k) / 2 - 1.
Proof.
  intros Hw. unfold IMAX. rewrite uval_app, repeat_length, uval_repeat_max by lia.
  cbn [uval]. rewrite Mod_half_S by auto. ring.
Qed.

Lemma sval_of_uval_small w n ds : wf w n ds -> uval w ds < Mod w n / 2 -> sval w ds = uval w ds.
Proof.
  intros H Hs. unfold sval, to_signed. rewrite (wf_length _ _ _ H).
  destruct (Z.ltb_spec (uval w ds) (Mod w n / 2)); lia.
Qed.
Lemma sval_of_uval_big w n ds : wf w n ds -> Mod w n / 2 <= uval w ds -> sval w ds = uval w ds - Mod w n.
Proof.
  intros H Hs. unfold sval, to_signed. rewrite (wf_length _ _ _ H).
  destruct (Z.ltb_spec (uval w ds) (Mod w n / 2)); lia.
Qed.

Lemma IMIN_sval w k : 0 < w -> sval w (IMIN w (S k)) = - (Mod w (S k) / 2).
Proof.
  intros Hw. rewrite (sval_of_uval_big w (S k)); [| apply IMIN_wf; auto | rewrite IMIN_uval by auto; lia].
  rewrite IMIN_uval by auto. pose proof (Mod_even' w k Hw). lia.
Qed.
Lemma IMAX_sval w k : 0 < w -> sval w (IMAX w (S k)) = Mod w (S k) / 2 - 1.
Proof.
  intros Hw. rewrite (sval_of_uval_small w (S k)); [| apply IMAX_wf; auto | rewrite IMAX_uval by auto; lia].
  apply IMAX_uval; auto.
Qed.

Lemma Mod_ge_4 w n : 0 < w -> 1 < bits w n -> 4 <= Mod w n.
Proof.
  intros Hw Hb. unfold Mod, bits in *. change 4 with (2 ^ 2).
  apply Z.pow_le_mono_r; lia.
Qed.

Lemma ONE_sval w k : 0 < w -> 1 < bits w (S k) -> sval w (ONE (S k)) = 1.
Proof.
  intros Hw Hb. rewrite (sval_of_uval_small w (S k)); [apply ONE_uval | apply ONE_wf; auto|].
  rewrite ONE_uval. pose proof (Mod_ge_4 w (S k) Hw Hb). pose proof (Mod_even' w k Hw). lia.
Qed.

(* ================= bitnot ================= *)

Lemma bitnot_wf w n a : 0 <= w -> wf w n a -> wf w n (bitnot w a).
Proof.
  intros Hw [Hl Hf]. split; [unfold bitnot; rewrite map_length; exact Hl|].
  unfold bitnot. apply Forall_map. eapply Forall_impl; [|exact Hf].
  intros d Hd. unfold digit_ok, u_not in *. lia.
Qed.

Lemma bitnot_uval w n a : 0 <= w -> wf w n a -> uval w (bitnot w a) = Mod w n - 1 - uval w a.
Proof.
  intros Hw. revert a. induction n as [|n IH]; intros a H.
  - apply wf_inv_0 in H; subst. rewrite Mod_0. reflexivity.
  - destruct (wf_inv_S _ _ _ H) as (d & r & -> & Hd & Hr).
    unfold bitnot in *. cbn [map uval]. rewrite IH, Mod_S by auto. unfold u_not. ring.
Qed.

Lemma bitnot_sval w k a : 0 < w -> wf w (S k) a -> sval w (bitnot w a) = -1 - sval w a.
Proof.
  intros Hw H.
  pose proof (bitnot_wf w _ a ltac:(lia) H) as Hn.
  rewrite (sval_as_uval w (S k) _ Hn), (sval_as_uval w (S k) _ H).
  rewrite (bitnot_uval w (S k)) by (auto; lia).
  pose proof (uval_bounds w _ _ ltac:(lia) H). pose proof (Mod_even' w k Hw).
  destruct (Z.leb_spec (Mod w (S k) / 2) (Mod w (S k) - 1 - uval w a)),
           (Z.leb_spec (Mod w (S k) / 2) (uval w a)); cbn [b2z]; lia.
Qed.

(* ================= loops ================= *)

Lemma add_loop_spec w : 0 <= w -> forall n a b c, wf w n a -> wf w n b ->
  let '(r, f) := add_loop w a b c in
  wf w n r /\ uval w r + Mod w n * b2z f = uval w a + uval w b + b2z c.
Proof.
  intros Hw. induction n as [|n IH]; intros a b c Ha Hb.
  - apply wf_inv_0 in Ha, Hb; subst. cbn [add_loop uval]. rewrite Mod_0.
    split; [apply wf_nil | lia].
  - destruct (wf_inv_S _ _ _ Ha) as (x & a' & -> & Hx & Ha').
    destruct (wf_inv_S _ _ _ Hb) as (y & b' & -> & Hy & Hb').
    cbn [add_loop].
    pose proof (carrying_add_spec w x y c Hw Hx Hy) as Hc.
    destruct (carrying_add w x y c) as [s c']. destruct Hc as [Hs He].
    specialize (IH a' b' c' Ha' Hb').
    destruct (add_loop w a' b' c') as [r cf]. destruct IH as [Hr Hv].
    split; [apply wf_cons; auto|].
    cbn [uval]. rewrite Mod_S by lia.
    assert (B w * (uval w r + Mod w n * b2z cf) = B w * (uval w a' + uval w b' + b2z c')) by (f_equal; exact Hv).
    lia.
Qed.

Lemma sub_loop_spec w : 0 <= w -> forall n a b c, wf w n a -> wf w n b ->
  let '(r, f) := sub_loop w a b c in
  wf w n r /\ uval w r - Mod w n * b2z f = uval w a - uval w b - b2z c.
Proof.
  intros Hw. induction n as [|n IH]; intros a b c Ha Hb.
  - apply wf_inv_0 in Ha, Hb; subst. cbn [sub_loop uval]. rewrite Mod_0.
    split; [apply wf_nil | lia].
  - destruct (wf_inv_S _ _ _ Ha) as (x & a' & -> & Hx & Ha').
    destruct (wf_inv_S _ _ _ Hb) as (y & b' & -> & Hy & Hb').
    cbn [sub_loop].
    pose proof (borrowing_sub_spec w x y c Hw Hx Hy) as Hc.
    destruct (borrowing_sub w x y c) as [s c']. destruct Hc as [Hs He].
    specialize (IH a' b' c' Ha' Hb').
    destruct (sub_loop w a' b' c') as [r cf]. destruct IH as [Hr Hv].
    split; [apply wf_cons; auto|].
    cbn [uval]. rewrite Mod_S by lia.
    assert (B w * (uval w r - Mod w n * b2z cf) = B w * (uval w a' - uval w b' - b2z c')) by (f_equal; exact Hv).
    lia.
Qed.

Lemma b2z_range c : 0 <= b2z c <= 1.
Proof. destruct c; cbn; lia. Qed.

(* residue form *)
Lemma add_loop_mod w n a b c : 0 <= w -> wf w n a -> wf w n b ->
  let '(r, f) := add_loop w a b c in
  wf w n r /\ uval w r = (uval w a + uval w b + b2z c) mod Mod w n /\
  f = (Mod w n <=? uval w a + uval w b + b2z c).
Proof.
  intros Hw Ha Hb. pose proof (add_loop_spec w Hw n a b c Ha Hb) as H.
  destruct (add_loop w a b c) as [r f]. destruct H as [Hr He].
  split; [exact Hr|].
  apply carry_out; [apply Mod_pos; auto | apply uval_bounds; auto | exact He].
Qed.

Lemma sub_loop_mod w n a b c : 0 <= w -> wf w n a -> wf w n b ->
  let '(r, f) := sub_loop w a b c in
  wf w n r /\ uval w r = (uval w a - uval w b - b2z c) mod Mod w n /\
  f = (uval w a - uval w b - b2z c <? 0).
Proof.
  intros Hw Ha Hb. pose proof (sub_loop_spec w Hw n a b c Ha Hb) as H.
  destruct (sub_loop w a b c) as [r f]. destruct H as [Hr He].
  split; [exact Hr|].
  apply borrow_out; [apply Mod_pos; auto | apply uval_bounds; auto | exact He].
Qed.

Lemma iadd_loop_cons2 w x x' a y y' b c :
  iadd_loop w (x :: x' :: a) (y :: y' :: b) c =
  let '(s, c') := carrying_add w x y c in
  let '(r, o) := iadd_loop w (x' :: a) (y' :: b) c' in (s :: r, o).
Proof. reflexivity. Qed.

Lemma isub_loop_cons2 w x x' a y y' b c :
  isub_loop w (x :: x' :: a) (y :: y' :: b) c =
  let '(s, c') := borrowing_sub w x y c in
  let '(r, o) := isub_loop w (x' :: a) (y' :: b) c' in (s :: r, o).
Proof. reflexivity. Qed.

Lemma iadd_loop_spec w : 0 < w -> forall k a b c, wf w (S k) a -> wf w (S k) b ->
  let '(r, o) := iadd_loop w a b c in
  wf w (S k) r /\
  sval w r = wrapS (Mod w (S k)) (sval w a + sval w b + b2z c) /\
  o = negb (inS (Mod w (S k)) (sval w a + sval w b + b2z c)).
Proof.
  intros Hw. induction k as [|k IH]; intros a b c Ha Hb.
  - destruct (wf_inv_S _ _ _ Ha) as (x & a' & -> & Hx & Ha').
    destruct (wf_inv_S _ _ _ Hb) as (y & b' & -> & Hy & Hb').
    apply wf_inv_0 in Ha', Hb'; subst. cbn [iadd_loop].
    rewrite carrying_add_signed_spec by (auto using sd_range).
    rewrite (sval_single w x), (sval_single w y), Mod_1 by lia.
    split; [|split; [|reflexivity]].
    + apply wf_cons; split; [|apply wf_nil]. unfold ud, digit_ok. apply Z.mod_pos_bound, B_pos; lia.
    + rewrite sval_single_ud by auto. apply wrapS_id; [apply B_pos; lia | apply Bw_even; auto|].
      apply wrapS_range; [apply B_pos; lia | apply Bw_even; auto].
  - destruct (wf_inv_S _ _ _ Ha) as (x & a' & -> & Hx & Ha').
    destruct (wf_inv_S _ _ _ Hb) as (y & b' & -> & Hy & Hb').
    destruct (wf_inv_S _ _ _ Ha') as (x' & a'' & -> & _ & _).
    destruct (wf_inv_S _ _ _ Hb') as (y' & b'' & -> & _ & _).
    rewrite iadd_loop_cons2.
    pose proof (carrying_add_spec w x y c ltac:(lia) Hx Hy) as Hc.
    destruct (carrying_add w x y c) as [s c']. destruct Hc as [Hs He].
    specialize (IH _ _ c' Ha' Hb').
    destruct (iadd_loop w (x' :: a'') (y' :: b'') c') as [r o]. destruct IH as (Hr & Hv & Ho).
    rewrite (sval_cons w k x), (sval_cons w k y) by assumption.
    rewrite (Mod_S w (S k)) by lia.
    set (SA := sval w (x' :: a'')) in *. set (SB := sval w (y' :: b'')) in *.
    replace (x + B w * SA + (y + B w * SB) + b2z c) with (s + B w * (SA + SB + b2z c')) by lia.
    pose proof (B_pos w ltac:(lia)). pose proof (Mod_pos w (S k) ltac:(lia)). pose proof (Mod_even' w k Hw).
    rewrite wrapS_low, inS_low by (assumption || exact Hs).
    split; [apply wf_cons; auto|]. split; [|exact Ho].
    rewrite (sval_cons w k s) by assumption. rewrite Hv. reflexivity.
Qed.

Lemma isub_loop_spec w : 0 < w -> forall k a b c, wf w (S k) a -> wf w (S k) b ->
  let '(r, o) := isub_loop w a b c in
  wf w (S k) r /\
  sval w r = wrapS (Mod w (S k)) (sval w a - sval w b - b2z c) /\
  o = negb (inS (Mod w (S k)) (sval w a - sval w b - b2z c)).
Proof.
  intros Hw. induction k as [|k IH]; intros a b c Ha Hb.
  - destruct (wf_inv_S _ _ _ Ha) as (x & a' & -> & Hx & Ha').
    destruct (wf_inv_S _ _ _ Hb) as (y & b' & -> & Hy & Hb').
    apply wf_inv_0 in Ha', Hb'; subst. cbn [isub_loop].
    rewrite borrowing_sub_signed_spec by (auto using sd_range).
    rewrite (sval_single w x), (sval_single w y), Mod_1 by lia.
    split; [|split; [|reflexivity]].
    + apply wf_cons; split; [|apply wf_nil]. unfold ud, digit_ok. apply Z.mod_pos_bound, B_pos; lia.
    + rewrite sval_single_ud by auto. apply wrapS_id; [apply B_pos; lia | apply Bw_even; auto|].
      apply wrapS_range; [apply B_pos; lia | apply Bw_even; auto].
  - destruct (wf_inv_S _ _ _ Ha) as (x & a' & -> & Hx & Ha').
    destruct (wf_inv_S _ _ _ Hb) as (y & b' & -> & Hy & Hb').
    destruct (wf_inv_S _ _ _ Ha') as (x' & a'' & -> & _ & _).
    destruct (wf_inv_S _ _ _ Hb') as (y' & b'' & -> & _ & _).
    rewrite isub_loop_cons2.
    pose proof (borrowing_sub_spec w x y c ltac:(lia) Hx Hy) as Hc.
    destruct (borrowing_sub w x y c) as [s c']. destruct Hc as [Hs He].
    specialize (IH _ _ c' Ha' Hb').
    destruct (isub_loop w (x' :: a'') (y' :: b'') c') as [r o]. destruct IH as (Hr & Hv & Ho).
    rewrite (sval_cons w k x), (sval_cons w k y) by assumption.
    rewrite (Mod_S w (S k)) by lia.
    set (SA := sval w (x' :: a'')) in *. set (SB := sval w (y' :: b'')) in *.
    replace (x + B w * SA - (y + B w * SB) - b2z c) with (s + B w * (SA - SB - b2z c')) by lia.
    pose proof (B_pos w ltac:(lia)). pose proof (Mod_pos w (S k) ltac:(lia)). pose proof (Mod_even' w k Hw).
    rewrite wrapS_low, inS_low by (assumption || exact Hs).
    split; [apply wf_cons; auto|]. split; [|exact Ho].
    rewrite (sval_cons w k s) by assumption. rewrite Hv. reflexivity.
Qed.

Lemma sd_not w d : 0 < w -> digit_ok w d -> sd w (u_not w d) = -1 - sd w d.
Proof.
  intros Hw Hd. unfold sd, u_not, to_signed, digit_ok in *. pose proof (Bw_even w Hw).
  destruct (Z.ltb_spec (B w - 1 - d) (B w / 2)), (Z.ltb_spec d (B w / 2)); lia.
Qed.

Lemma ineg_loop_cons2 w d d' r :
  ineg_loop w (d :: d' :: r) =
  let '(s, o) := u_ovf_add w (u_not w d) 1 in
  if o then let '(r', f) := ineg_loop w (d' :: r) in (s :: r', f)
  else (s :: bitnot w (d' :: r), false).
Proof. reflexivity. Qed.

Lemma ineg_loop_spec w : 0 < w -> forall k a, wf w (S k) a ->
  let '(r, o) := ineg_loop w a in
  wf w (S k) r /\
  sval w r = wrapS (Mod w (S k)) (- sval w a) /\
  o = negb (inS (Mod w (S k)) (- sval w a)).
Proof.
  intros Hw. induction k as [|k IH]; intros a Ha.
  - destruct (wf_inv_S _ _ _ Ha) as (x & a' & -> & Hx & Ha').
    apply wf_inv_0 in Ha'; subst. cbn [ineg_loop]. unfold s_ovf_add.
    rewrite sd_not by assumption. rewrite (sval_single w x), Mod_1 by lia.
    replace (-1 - sd w x + 1) with (- sd w x) by ring.
    split; [|split; [|reflexivity]].
    + apply wf_cons; split; [|apply wf_nil]. unfold ud, digit_ok. apply Z.mod_pos_bound, B_pos; lia.
    + rewrite sval_single_ud by auto. apply wrapS_id; [apply B_pos; lia | apply Bw_even; auto|].
      apply wrapS_range; [apply B_pos; lia | apply Bw_even; auto].
  - destruct (wf_inv_S _ _ _ Ha) as (x & a' & -> & Hx & Ha').
    destruct (wf_inv_S _ _ _ Ha') as (x' & a'' & -> & _ & _).
    rewrite ineg_loop_cons2. unfold u_ovf_add, u_not.
    rewrite (sval_cons w k x) by assumption. rewrite (Mod_S w (S k)) by lia.
    pose proof (B_pos w ltac:(lia)) as HB. pose proof (Mod_pos w (S k) ltac:(lia)) as HM.
    pose proof (Mod_even' w k Hw) as HE.
    set (SA := sval w (x' :: a'')) in *.
    unfold digit_ok in Hx.
    destruct (Z.leb_spec (B w) (B w - 1 - x + 1)) as [L|L].
    + assert (x = 0) by lia. subst x.
      replace (B w - 1 - 0 + 1) with (B w) by ring. rewrite Z.mod_same by lia.
      specialize (IH _ Ha'). destruct (ineg_loop w (x' :: a'')) as [r' f]. destruct IH as (Hr & Hv & Ho).
      replace (- (0 + B w * SA)) with (0 + B w * (- SA)) by ring.
      rewrite wrapS_low, inS_low by (assumption || lia).
      split; [apply wf_cons; split; [unfold digit_ok; lia | exact Hr]|]. split; [|exact Ho].
      rewrite (sval_cons w k 0) by (assumption || unfold digit_ok; lia). rewrite Hv. reflexivity.
    + rewrite Z.mod_small by lia.
      pose proof (bitnot_wf w _ _ ltac:(lia) Ha') as Hn.
      pose proof (sval_range w (S k) _ Hw ltac:(lia) Ha') as HR. fold SA in HR.
      replace (- (x + B w * SA)) with ((B w - 1 - x + 1) + B w * (-1 - SA)) by ring.
      rewrite wrapS_low, inS_low by (assumption || lia).
      split; [apply wf_cons; split; [unfold digit_ok; lia | exact Hn]|]. split.
      * rewrite (sval_cons w k) by (assumption || unfold digit_ok; lia).
        rewrite (bitnot_sval w k) by assumption. fold SA.
        rewrite wrapS_id by (assumption || lia). reflexivity.
      * symmetry. apply negb_inS_false; [assumption | lia].
Qed.

(* ================= comparison ================= *)

Lemma ucmp_spec w : 0 <= w -> forall n a b, wf w n a -> wf w n b ->
  ucmp a b = (uval w a ?= uval w b).
Proof.
  intros Hw. induction n as [|n IH]; intros a b Ha Hb.
  - apply wf_inv_0 in Ha, Hb; subst. reflexivity.
  - destruct (wf_inv_S _ _ _ Ha) as (x & a' & -> & Hx & Ha').
    destruct (wf_inv_S _ _ _ Hb) as (y & b' & -> & Hy & Hb').
    cbn [ucmp uval]. rewrite (IH _ _ Ha' Hb').
    pose proof (B_pos w Hw). unfold digit_ok in *.
    destruct (Z.compare_spec (uval w a') (uval w b')) as [E|L|G].
    + rewrite E. destruct (Z.ltb_spec y x); [|destruct (Z.ltb_spec x y)]; symmetry.
      * apply Z.compare_gt_iff; lia.
      * apply Z.compare_lt_iff; lia.
      * apply Z.compare_eq_iff; lia.
    + symmetry. apply Z.compare_lt_iff. nia.
    + symmetry. apply Z.compare_gt_iff. nia.
Qed.

Lemma sd_inj w x y : 0 < w -> digit_ok w x -> digit_ok w y -> sd w x = sd w y -> x = y.
Proof.
  intros Hw Hx Hy. unfold sd, to_signed, digit_ok in *. pose proof (Bw_even w Hw).
  destruct (Z.ltb_spec x (B w / 2)), (Z.ltb_spec y (B w / 2)); lia.
Qed.

Lemma icmp_spec w k a b : 0 < w -> wf w (S k) a -> wf w (S k) b ->
  icmp w a b = (sval w a ?= sval w b).
Proof.
  intros Hw Ha Hb.
  destruct (top_decomp w Hw k a Ha) as (la & Hla & Hta & Hua & Hsa).
  destruct (top_decomp w Hw k b Hb) as (lb & Hlb & Htb & Hub & Hsb).
  unfold icmp. rewrite Hsa, Hsb.
  pose proof (Mod_pos w k ltac:(lia)).
  destruct (Z.eqb_spec (signed_digit w a) (signed_digit w b)) as [E|NE].
  - rewrite (ucmp_spec w ltac:(lia) (S k) a b Ha Hb). rewrite Hua, Hub.
    unfold signed_digit in E. apply sd_inj in E; try assumption. rewrite E.
    unfold signed_digit. rewrite E.
    rewrite !(Z.add_comm _ (Mod w k * _)). rewrite !Z.add_compare_mono_l. reflexivity.
  - set (s1 := signed_digit w a) in *. set (s2 := signed_digit w b) in *.
    destruct (Z.ltb_spec s2 s1); symmetry.
    + apply Z.compare_gt_iff. nia.
    + apply Z.compare_lt_iff. nia.
Qed.

Lemma is_zero_spec w : 0 <= w -> forall n a, wf w n a -> is_zero a = (uval w a =? 0).
Proof.
  intros Hw. induction n as [|n IH]; intros a Ha.
  - apply wf_inv_0 in Ha; subst. reflexivity.
  - destruct (wf_inv_S _ _ _ Ha) as (x & a' & -> & Hx & Ha').
    cbn [is_zero uval]. pose proof (uval_bounds w _ _ Hw Ha'). pose proof (B_pos w Hw).
    unfold digit_ok in Hx.
    destruct (Z.eqb_spec x 0).
    + rewrite (IH _ Ha'). subst x.
      destruct (Z.eqb_spec (uval w a') 0), (Z.eqb_spec (0 + B w * uval w a') 0); try reflexivity; nia.
    + symmetry. apply Z.eqb_neq. nia.
Qed.

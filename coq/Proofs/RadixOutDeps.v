(* Proofs/RadixOutDeps.v — facts about functions modelled in other files (Div, AddSub, Core) that the
   C11 theorems take as explicit premises.  These are Definitions of propositions, not axioms: every
   theorem that needs one has it as a hypothesis `<x>_spec -> ...`. *)
From Bnum Require Import Base Prim.
From Bnum.Model Require Import Digit Core Shift AddSub Mul Div Bits.

(* BUint::div_rem_digit (Model/Div.v): quotient and remainder by a single non-zero digit *)
Definition div_digit_spec : Prop :=
  forall w n a rhs, 0 < w -> wf w n a -> 0 < rhs < B w ->
    wf w n (fst (div_rem_digit w a rhs)) /\
    uval w (fst (div_rem_digit w a rhs)) = uval w a / rhs /\
    snd (div_rem_digit w a rhs) = uval w a mod rhs.

(* BInt::is_negative (Model/Core.v): the sign bit is the sign of the two's complement value *)
Definition is_negative_spec : Prop :=
  forall w n a, 0 < w -> (0 < n)%nat -> wf w n a -> is_negative w a = (sval w a <? 0).

(* BInt::unsigned_abs (Model/AddSub.v) *)
Definition unsigned_abs_spec : Prop :=
  forall w n a, 0 < w -> (0 < n)%nat -> wf w n a ->
    wf w n (I_unsigned_abs w a) /\ uval w (I_unsigned_abs w a) = Z.abs (sval w a).

(* Proofs/XcastGenTieC09.v — casts BETWEEN bnum integer types (property C09): the tie between the functions GENERATED from
   /repo/src/buint/cast.rs and /repo/src/bint/cast.rs on every run (Generated/XcastGen.v, by tools/rs2v_xcast.py) and the hand-written
   model (Model/Cast.v, an `outcome`).
     buint_as_different_digit_bigint! / bint_as_different_digit_bigint!  (source digit width ow, target digit width w; both macro
       bodies translated once, for all pairs of widths)                   Cast.U_castd_U, I_castd_U, U_castd_I, I_castd_I
     CastFrom<$BUint<M>|$BInt<M>> for $BUint<N>|$BInt<N> (same digit)     Cast.U_cast_U, U_cast_I, I_cast_U, I_cast_I
     CastFrom<bool|char> for $BUint<N>, as_bint! at bool / char           Cast.U_from_bool, U_from_char, I_from_bool, I_from_char
     trait resolution between the two families                            Cast.cast
   The generated code panics on an out-of-range shift; the hand model does so only with dbg = true: the ties hold for BOTH values
   of dbg (every shift amount is proved in range).  Digit widths: powers of two (the code writes `mini_shift << BIT_SHIFT`). *)
From Bnum Require Import Base Prim.
From Bnum.Model Require Import DigitPrims LoopPrims Core Imp ImpXcast.
From Bnum.Model Require Bits Cast Convert.
From Bnum.Generated Require Import DigitGen XcastGen.
From Bnum.Proofs Require Import ImpLemmas ImpLemmas2 ConvGenTieBase XcastGenTieBase.

Lemma pow2_pos' lg : 0 <= lg -> 0 < 2 ^ lg.
Proof. intros H. apply Z.pow_pos_nonneg; lia. Qed.

Lemma of_outcome_of_out {A} (o : outcome A) : of_outcome o = of_out o.
Proof. reflexivity. Qed.

Lemma bind_of_out_done {A} (o : outcome A) : bind (of_out o) (fun t => Done t) = of_out o.
Proof. apply bind_done_r. Qed.

Lemma bind_of_out_from_bits (o : outcome (list Z)) :
  bind (of_out o) (fun t => Done (Cast.from_bits t)) = of_out (omap Cast.from_bits o).
Proof. destruct o; reflexivity. Qed.

(* stop_index of the two branches, as computed by the generated code (on Z) and by the model (on nat) *)
Lemma split_stop_Z w ow (n m dc : nat) :
  (if (ow * Z.of_nat m >? w * Z.of_nat n) then Z.of_nat n else (Z.of_nat m * Z.of_nat dc)) = Z.of_nat (Cast.split_stop ow m w n dc).
Proof.
  unfold Cast.split_stop, bits. rewrite Z.gtb_ltb. destruct (w * Z.of_nat n <? ow * Z.of_nat m); [reflexivity|lia].
Qed.

Lemma pack_stop_Z w ow (n m dc : nat) :
  (if (ow * Z.of_nat m >? w * Z.of_nat n) then (Z.of_nat n * Z.of_nat dc) else Z.of_nat m) = Z.of_nat (Cast.pack_stop ow m w n dc).
Proof.
  unfold Cast.pack_stop, bits. rewrite Z.gtb_ltb. destruct (w * Z.of_nat n <? ow * Z.of_nat m); [lia|reflexivity].
Qed.

(* ---- buint_as_different_digit_bigint!: CastFrom<$OtherBUint<M>> for $BUint<N> ---- *)
Lemma xcast_U_castd_U dbg w lg ow lg' n m from : 0 <= lg -> w = 2 ^ lg -> 0 <= lg' -> ow = 2 ^ lg' -> length from = m ->
  forall fuel, (n <= fuel)%nat -> (m <= fuel)%nat ->
  XcastGen.U_castd_U w (Z.of_nat n) fuel ow (Z.of_nat m) from = of_out (Cast.U_castd_U dbg ow from w n).
Proof.
  intros Hlg Hw Hlg' How Hm fuel Hn Hmf.
  assert (Hw0 : 0 < w) by (subst w; apply pow2_pos'; assumption).
  assert (How0 : 0 < ow) by (subst ow; apply pow2_pos'; assumption).
  unfold XcastGen.U_castd_U, Cast.U_castd_U. rewrite Nat2Z.id.
  destruct (Z.ltb_spec w ow) as [Hlt|Hge].
  - (* the target digit is narrower: split *)
    rewrite udiv_pos by exact Hw0. cbn [bind]. cbv zeta.
    destruct (divide_count_fit ow w Hw0 ltac:(lia)) as (Hdc & Hfit & Hq).
    unfold Cast.split_loop. rewrite Hm. set (dc := Z.to_nat (ow / w)) in *. rewrite <- Hq.
    rewrite split_stop_Z.
    pose proof (split_stop_le w ow n m Hw0 ltac:(lia)) as Hstop. fold dc in Hstop.
    apply (split_loop_tie dbg w lg ow dc _ from Hlg Hw Hdc Hfit _ fuel 0%nat); lia.
  - (* the target digit is at least as wide: pack *)
    rewrite udiv_pos by exact How0. cbn [bind]. cbv zeta.
    destruct (divide_count_fit w ow How0 ltac:(lia)) as (Hdc & Hfit & Hq).
    unfold Cast.pack_loop. rewrite Hm. set (dc := Z.to_nat (w / ow)) in *. rewrite <- Hq.
    rewrite pack_stop_Z. rewrite pack_or_comb.
    pose proof (pack_stop_le w ow n m How0 ltac:(lia)) as Hstop. fold dc in Hstop.
    apply (pack_loop_tie dbg w ow lg' dc _ from (fun x => x) (dg_or w) 0 Hlg' How Hdc Hfit _ fuel 0%nat); lia.
Qed.

Lemma xcast_I_castd_U dbg w lg ow lg' n m from : 0 <= lg -> w = 2 ^ lg -> 0 <= lg' -> ow = 2 ^ lg' -> length from = m ->
  forall fuel, (n <= fuel)%nat -> (m <= fuel)%nat ->
  XcastGen.I_castd_U w (Z.of_nat n) fuel ow (Z.of_nat m) from = of_out (Cast.I_castd_U dbg ow from w n).
Proof.
  intros Hlg Hw Hlg' How Hm fuel Hn Hmf. unfold XcastGen.I_castd_U, Cast.I_castd_U.
  rewrite (xcast_U_castd_U dbg w lg ow lg' n m from) by assumption. apply bind_of_out_from_bits.
Qed.

(* ---- bint_as_different_digit_bigint!: CastFrom<$OtherBInt<M>> for $BUint<N> ---- *)
Lemma xcast_U_castd_I dbg w lg ow lg' n m from : 0 <= lg -> w = 2 ^ lg -> 0 <= lg' -> ow = 2 ^ lg' -> length from = m ->
  forall fuel, (n <= fuel)%nat -> (m <= fuel)%nat ->
  XcastGen.U_castd_I w (Z.of_nat n) fuel ow (Z.of_nat m) from = of_out (Cast.U_castd_I dbg ow from w n).
Proof.
  intros Hlg Hw Hlg' How Hm fuel Hn Hmf.
  assert (Hw0 : 0 < w) by (subst w; apply pow2_pos'; assumption).
  assert (How0 : 0 < ow) by (subst ow; apply pow2_pos'; assumption).
  unfold XcastGen.U_castd_I, Cast.U_castd_I. rewrite Hm. unfold bits.
  replace (Z.of_nat m * ow >=? Z.of_nat n * w) with (w * Z.of_nat n <=? ow * Z.of_nat m)
    by (rewrite Z.geb_leb; f_equal; lia).
  destruct (negb (is_negative ow from) || (w * Z.of_nat n <=? ow * Z.of_nat m)).
  - rewrite (xcast_U_castd_U dbg w lg ow lg' n m (Cast.to_bits from)) by assumption. apply bind_of_out_done.
  - rewrite Nat2Z.id. destruct (Z.ltb_spec w ow) as [Hlt|Hge].
    + rewrite udiv_pos by exact Hw0. cbn [bind]. cbv zeta.
      destruct (divide_count_fit ow w Hw0 ltac:(lia)) as (Hdc & Hfit & Hq).
      unfold Cast.split_loop. rewrite Hm. set (dc := Z.to_nat (ow / w)) in *. rewrite <- Hq.
      rewrite split_stop_Z.
      pose proof (split_stop_le w ow n m Hw0 ltac:(lia)) as Hstop. fold dc in Hstop.
      apply (split_loop_tie dbg w lg ow dc _ from Hlg Hw Hdc Hfit _ fuel 0%nat); lia.
    + rewrite udiv_pos by exact How0. cbn [bind]. cbv zeta.
      destruct (divide_count_fit w ow How0 ltac:(lia)) as (Hdc & Hfit & Hq).
      unfold Cast.pack_loop. rewrite Hm. set (dc := Z.to_nat (w / ow)) in *. rewrite <- Hq.
      rewrite pack_stop_Z. rewrite pack_and_comb.
      pose proof (pack_stop_le w ow n m How0 ltac:(lia)) as Hstop. fold dc in Hstop.
      apply (pack_loop_tie dbg w ow lg' dc _ from (u_not ow) (fun cur t => dg_and w cur (u_not w t)) (u_max w)
               Hlg' How Hdc Hfit _ fuel 0%nat); lia.
Qed.

Lemma xcast_I_castd_I dbg w lg ow lg' n m from : 0 <= lg -> w = 2 ^ lg -> 0 <= lg' -> ow = 2 ^ lg' -> length from = m ->
  forall fuel, (n <= fuel)%nat -> (m <= fuel)%nat ->
  XcastGen.I_castd_I w (Z.of_nat n) fuel ow (Z.of_nat m) from = of_out (Cast.I_castd_I dbg ow from w n).
Proof.
  intros Hlg Hw Hlg' How Hm fuel Hn Hmf. unfold XcastGen.I_castd_I, Cast.I_castd_I.
  rewrite (xcast_U_castd_I dbg w lg ow lg' n m from) by assumption. apply bind_of_out_from_bits.
Qed.

(* ---- same digit type: the wrappers around cast_up / cast_down (whose own loops are tied in LoopsTieC09.v) ---- *)
Lemma xcast_U_cast_U w n m from fuel : length from = m ->
  XcastGen.U_cast_U w (Z.of_nat n) fuel (Z.of_nat m) from = of_out (Cast.U_cast_U from n).
Proof.
  intros Hm. unfold XcastGen.U_cast_U, Cast.U_cast_U. rewrite Nat2Z.id, Hm, ltb_of_nat.
  destruct (m <? n)%nat; rewrite of_outcome_of_out; apply bind_of_out_done.
Qed.

Lemma xcast_U_cast_I w n m from fuel : length from = m ->
  XcastGen.U_cast_I w (Z.of_nat n) fuel (Z.of_nat m) from = of_out (Cast.U_cast_I w from n).
Proof.
  intros Hm. unfold XcastGen.U_cast_I, Cast.U_cast_I. rewrite Nat2Z.id, Hm, ltb_of_nat.
  destruct (m <? n)%nat; cbv zeta; rewrite of_outcome_of_out; apply bind_of_out_done.
Qed.

Lemma xcast_I_cast_U w n m from fuel : length from = m ->
  XcastGen.I_cast_U w (Z.of_nat n) fuel (Z.of_nat m) from = of_out (Cast.I_cast_U from n).
Proof.
  intros Hm. unfold XcastGen.I_cast_U, Cast.I_cast_U. rewrite (xcast_U_cast_U w n m from fuel Hm). apply bind_of_out_from_bits.
Qed.

Lemma xcast_I_cast_I w n m from fuel : length from = m ->
  XcastGen.I_cast_I w (Z.of_nat n) fuel (Z.of_nat m) from = of_out (Cast.I_cast_I w from n).
Proof.
  intros Hm. unfold XcastGen.I_cast_I, Cast.I_cast_I. rewrite (xcast_U_cast_I w n m from fuel Hm). apply bind_of_out_from_bits.
Qed.

(* ---- bool, char ---- *)
Lemma xcast_U_from_bool w n b fuel : XcastGen.U_from_bool w (Z.of_nat n) fuel b = Done (Cast.U_from_bool n b).
Proof. unfold XcastGen.U_from_bool, Cast.U_from_bool. rewrite Nat2Z.id. destruct b; reflexivity. Qed.

Lemma xcast_I_from_bool w n b fuel : XcastGen.I_from_bool w (Z.of_nat n) fuel b = Done (Cast.I_from_bool n b).
Proof. unfold XcastGen.I_from_bool, Cast.I_from_bool. rewrite xcast_U_from_bool. reflexivity. Qed.

Lemma xcast_U_from_char w n c fuel : XcastGen.U_from_char w (Z.of_nat n) fuel c = of_out (Cast.U_from_char w n c).
Proof. unfold XcastGen.U_from_char, Cast.U_from_char. rewrite Nat2Z.id, of_outcome_of_out. apply bind_of_out_done. Qed.

Lemma xcast_I_from_char w n c fuel : XcastGen.I_from_char w (Z.of_nat n) fuel c = of_out (Cast.I_from_char w n c).
Proof. unfold XcastGen.I_from_char, Cast.I_from_char. rewrite xcast_U_from_char. apply bind_of_out_from_bits. Qed.

(* ---- trait resolution: the impl `<Target<N> as CastFrom<Source<M>>>::cast_from` selects is what Cast.cast selects ---- *)
Definition xcast_resolved (ss ds : bool) : Z -> Z -> nat -> Z -> Z -> list Z -> res (list Z) :=
  match ss, ds with
  | false, false => XcastGen.cast_UU
  | true, false => XcastGen.cast_UI
  | false, true => XcastGen.cast_IU
  | true, true => XcastGen.cast_II
  end.

Lemma xcast_cast dbg ss ds w lg ow lg' n m from : 0 <= lg -> w = 2 ^ lg -> 0 <= lg' -> ow = 2 ^ lg' -> length from = m ->
  forall fuel, (n <= fuel)%nat -> (m <= fuel)%nat ->
  xcast_resolved ss ds w (Z.of_nat n) fuel ow (Z.of_nat m) from = of_out (Cast.cast dbg ow w n ss ds from).
Proof.
  intros Hlg Hw Hlg' How Hm fuel Hn Hmf. unfold Cast.cast.
  destruct ss, ds; cbn [xcast_resolved];
    unfold XcastGen.cast_UU, XcastGen.cast_UI, XcastGen.cast_IU, XcastGen.cast_II;
    (destruct (Z.eqb_spec ow w) as [E|_];
     [ rewrite ?E;
       first [ apply xcast_U_cast_U | apply xcast_U_cast_I | apply xcast_I_cast_U | apply xcast_I_cast_I ]; exact Hm
     | first [ apply (xcast_U_castd_U dbg w lg ow lg') | apply (xcast_U_castd_I dbg w lg ow lg')
             | apply (xcast_I_castd_U dbg w lg ow lg') | apply (xcast_I_castd_I dbg w lg ow lg') ]; assumption ]).
Qed.

(* ---------- all obligations of the group in one statement ---------- *)
Theorem xcast_C09_match_model w lg ow lg' : 0 <= lg -> w = 2 ^ lg -> 0 <= lg' -> ow = 2 ^ lg' ->
  (* different digit types (source: digit width ow, m digits; target: digit width w, n digits) *)
  (forall dbg n m from fuel, length from = m -> (n <= fuel)%nat -> (m <= fuel)%nat ->
     XcastGen.U_castd_U w (Z.of_nat n) fuel ow (Z.of_nat m) from =
     match Cast.U_castd_U dbg ow from w n with Ret r => Done r | Panic => Panicked end) /\
  (forall dbg n m from fuel, length from = m -> (n <= fuel)%nat -> (m <= fuel)%nat ->
     XcastGen.I_castd_U w (Z.of_nat n) fuel ow (Z.of_nat m) from =
     match Cast.I_castd_U dbg ow from w n with Ret r => Done r | Panic => Panicked end) /\
  (forall dbg n m from fuel, length from = m -> (n <= fuel)%nat -> (m <= fuel)%nat ->
     XcastGen.U_castd_I w (Z.of_nat n) fuel ow (Z.of_nat m) from =
     match Cast.U_castd_I dbg ow from w n with Ret r => Done r | Panic => Panicked end) /\
  (forall dbg n m from fuel, length from = m -> (n <= fuel)%nat -> (m <= fuel)%nat ->
     XcastGen.I_castd_I w (Z.of_nat n) fuel ow (Z.of_nat m) from =
     match Cast.I_castd_I dbg ow from w n with Ret r => Done r | Panic => Panicked end) /\
  (* same digit type *)
  (forall n m from fuel, length from = m ->
     XcastGen.U_cast_U w (Z.of_nat n) fuel (Z.of_nat m) from =
     match Cast.U_cast_U from n with Ret r => Done r | Panic => Panicked end) /\
  (forall n m from fuel, length from = m ->
     XcastGen.U_cast_I w (Z.of_nat n) fuel (Z.of_nat m) from =
     match Cast.U_cast_I w from n with Ret r => Done r | Panic => Panicked end) /\
  (forall n m from fuel, length from = m ->
     XcastGen.I_cast_U w (Z.of_nat n) fuel (Z.of_nat m) from =
     match Cast.I_cast_U from n with Ret r => Done r | Panic => Panicked end) /\
  (forall n m from fuel, length from = m ->
     XcastGen.I_cast_I w (Z.of_nat n) fuel (Z.of_nat m) from =
     match Cast.I_cast_I w from n with Ret r => Done r | Panic => Panicked end) /\
  (* bool, char *)
  (forall n b fuel, XcastGen.U_from_bool w (Z.of_nat n) fuel b = Done (Cast.U_from_bool n b)) /\
  (forall n b fuel, XcastGen.I_from_bool w (Z.of_nat n) fuel b = Done (Cast.I_from_bool n b)) /\
  (forall n c fuel, XcastGen.U_from_char w (Z.of_nat n) fuel c =
     match Cast.U_from_char w n c with Ret r => Done r | Panic => Panicked end) /\
  (forall n c fuel, XcastGen.I_from_char w (Z.of_nat n) fuel c =
     match Cast.I_from_char w n c with Ret r => Done r | Panic => Panicked end) /\
  (* trait resolution: the dispatcher of the hand model, Cast.cast (what the operation `cast` of the C09 table runs) *)
  (forall dbg (ss ds : bool) n m from fuel, length from = m -> (n <= fuel)%nat -> (m <= fuel)%nat ->
     (match ss, ds with
      | false, false => XcastGen.cast_UU
      | true, false => XcastGen.cast_UI
      | false, true => XcastGen.cast_IU
      | true, true => XcastGen.cast_II
      end) w (Z.of_nat n) fuel ow (Z.of_nat m) from =
     match Cast.cast dbg ow w n ss ds from with Ret r => Done r | Panic => Panicked end).
Proof.
  intros Hlg Hw Hlg' How.
  repeat split; intros.
  - apply (xcast_U_castd_U dbg w lg ow lg'); assumption.
  - apply (xcast_I_castd_U dbg w lg ow lg'); assumption.
  - apply (xcast_U_castd_I dbg w lg ow lg'); assumption.
  - apply (xcast_I_castd_I dbg w lg ow lg'); assumption.
  - apply xcast_U_cast_U; assumption.
  - apply xcast_U_cast_I; assumption.
  - apply xcast_I_cast_U; assumption.
  - apply xcast_I_cast_I; assumption.
  - apply xcast_U_from_bool.
  - apply xcast_I_from_bool.
  - apply xcast_U_from_char.
  - apply xcast_I_from_char.
  - apply (xcast_cast dbg ss ds w lg ow lg'); assumption.
Qed.

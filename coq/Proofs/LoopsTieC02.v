(* Proofs/LoopsTieC02.v — mul: src/buint/mul.rs long_mul (nested loop with break).
   Part of the tie between the loop functions GENERATED from /repo/src/buint/*.rs on every run
   (Generated/Loops.v, by tools/rs2v_loops.py) and the hand-written model: for every digit width, every
   digit count and all well-formed operands, with fuel >= N the generated function neither panics nor
   runs out of fuel and returns exactly what the model function returns. *)
From Bnum Require Import Base Prim.
From Bnum.Model Require Import DigitPrims LoopPrims Digit Core Shift AddSub Mul Bits Imp.
From Bnum.Generated Require Import DigitGen Loops.
From Bnum.Proofs Require Import DigitTie ImpLemmas.

(* ================= (c) src/buint/mul.rs ================= *)

Lemma carrying_mul_ok w a b c d : 0 < w ->
  digit_ok w (fst (carrying_mul w a b c d)) /\ digit_ok w (snd (carrying_mul w a b c d)).
Proof.
  intros Hw. unfold carrying_mul, digit_ok. cbn [fst snd]. pose proof (B_pos w ltac:(lia)).
  split; apply Z.mod_pos_bound; lia.
Qed.

(* one row: the state of the inner loop after k iterations, in terms of what mul_row still has to do *)
Definition mul_inner_inv (w : Z) (n : nat) (b : list Z) (i : nat) (ai : Z) (ov0 : bool) (pre sfx0 : list Z)
           (k : nat) (s : list Z * bool * Z * Z) : Prop :=
  let '(out, ov, carry, j) := s in
  j = Z.of_nat k /\ (k <= n)%nat /\ ov = ov0 /\ length out = n /\ Forall (digit_ok w) out /\ digit_ok w carry /\
  firstn i out = pre /\
  mul_row w ai b sfx0 0 =
  (firstn k (skipn i out) ++ fst (fst (mul_row w ai (skipn k b) (skipn (i + k) out) carry)),
   snd (fst (mul_row w ai (skipn k b) (skipn (i + k) out) carry)),
   snd (mul_row w ai (skipn k b) (skipn (i + k) out) carry)).

Definition mul_inner_post (w : Z) (n : nat) (b : list Z) (i : nat) (ai : Z) (ov0 : bool) (pre sfx0 : list Z)
           (e : loop_exit (list Z * bool * Z * Z) (list Z * bool)) : Prop :=
  match e with
  | Exited (out, ov, carry, j) =>
      length out = n /\ Forall (digit_ok w) out /\ firstn i out = pre /\
      exists o, mul_row w ai b sfx0 0 = (skipn i out, carry, o) /\ ov = ov0 || o
  | Returned _ => False
  end.

Lemma loops_long_mul w n a b : 0 < w -> wf w n a -> wf w n b ->
  forall fuel, (n <= fuel)%nat -> Loops.long_mul w (Z.of_nat n) fuel a b = Done (long_mul w a b).
Proof.
  intros Hw [Ha Fa] [Hb Fb] fuel Hf. unfold Loops.long_mul. rewrite Nat2Z.id.
  apply while_count_bind with (n := n) (k := 0%nat)
    (Inv := fun k '(out, ov, carry, i) =>
       i = Z.of_nat k /\ (k <= n)%nat /\ length out = n /\ Forall (digit_ok w) out /\
       long_mul w a b = (firstn k out ++ fst (long_mul_loop w (skipn k a) b (skipn k out) ov),
                         snd (long_mul_loop w (skipn k a) b (skipn k out) ov))).
  - intros k [[[out ov] carry] i] (-> & Hk & Hlen & Fout & Heq) Hc.
    cond_true_in Hc. split; [exact Hc|].
    match goal with |- context [while_loop fuel ?c ?bd ?s0] =>
      assert (W : exists e, while_loop fuel c bd s0 = Done e /\
                            mul_inner_post w n b k (nth k a 0) ov (firstn k out) (skipn k out) e)
    end.
    { apply (while_count n (mul_inner_inv w n b k (nth k a 0) ov (firstn k out) (skipn k out))) with (k := 0%nat).
    + (* one inner iteration *)
      intros j [[[out' ov'] carry'] jz] (-> & Hj & -> & Hlen' & Fout' & Hcar & Hpre & Hrow) Hcj.
      cond_true_in Hcj. split; [exact Hcj|].
      rewrite ?(Z.add_comm (Z.of_nat j) (Z.of_nat k)). rewrite <- Nat2Z.inj_add, ltb_of_nat.
      rewrite (skipn_nth_cons b j) in Hrow by lia.
      destruct (Nat.ltb_spec (k + j) n) as [Hin|Hout].
      * rewrite !arr_get_nat by lia. cbn [bind].
        rewrite tie_carrying_mul; try assumption;
          try (apply Forall_nth_Z; [assumption | lia]).
        rewrite (skipn_nth_cons out' (k + j)) in Hrow by lia. cbn [mul_row] in Hrow.
        pose proof (carrying_mul_ok w (nth k a 0) (nth j b 0) carry' (nth (k + j) out' 0) Hw) as [Hp Hc'].
        destruct (carrying_mul w (nth k a 0) (nth j b 0) carry' (nth (k + j) out' 0)) as [p c1].
        cbn [fst snd] in Hp, Hc' |- *.
        rewrite arr_set_nat by lia. cbn [bind].
        unfold mul_inner_inv.
        split; [lia|]. split; [lia|]. split; [reflexivity|]. split; [rewrite list_set_length; exact Hlen'|].
        split; [apply Forall_list_set; assumption|]. split; [exact Hc'|].
        split; [rewrite firstn_list_set_le by lia; exact Hpre|].
        rewrite Hrow. rewrite skipn_list_set_ge. rewrite firstn_S_list_set by (rewrite skipn_length; lia).
        replace (k + S j)%nat with (S (k + j)) by lia. rewrite skipn_list_set_gt by lia.
        destruct (mul_row w (nth k a 0) (skipn (S j) b) (skipn (S (k + j)) out') c1) as [[r cf] o].
        cbn [fst snd]. rewrite <- app_assoc. reflexivity.
      * rewrite (skipn_all2 out' (n := (k + j)%nat)) in Hrow by lia. cbn [mul_row] in Hrow.
        rewrite arr_get_nat by lia. cbn [bind].
        destruct (nth k a 0 =? 0) eqn:Ea; cbn [negb andb] in Hrow |- *.
        -- cbn [bind]. unfold mul_inner_inv.
           split; [lia|]. split; [lia|]. split; [reflexivity|]. split; [exact Hlen'|].
           split; [exact Fout'|]. split; [exact Hcar|]. split; [exact Hpre|].
           rewrite Hrow. rewrite (skipn_all2 out' (n := (k + S j)%nat)) by lia.
           rewrite !(firstn_all2 (skipn k out')) by (rewrite skipn_length; lia). reflexivity.
        -- rewrite arr_get_nat by lia. cbn [bind].
           destruct (nth j b 0 =? 0) eqn:Eb; cbn [negb] in Hrow |- *.
           ++ unfold mul_inner_inv.
              split; [lia|]. split; [lia|]. split; [reflexivity|]. split; [exact Hlen'|].
              split; [exact Fout'|]. split; [exact Hcar|]. split; [exact Hpre|].
              rewrite Hrow. rewrite (skipn_all2 out' (n := (k + S j)%nat)) by lia.
              rewrite !(firstn_all2 (skipn k out')) by (rewrite skipn_length; lia). reflexivity.
           ++ unfold mul_inner_post.
              split; [exact Hlen'|]. split; [exact Fout'|]. split; [exact Hpre|].
              exists true. split; [|rewrite orb_true_r; reflexivity].
              rewrite Hrow. cbn [fst snd]. rewrite app_nil_r.
              rewrite firstn_all2 by (rewrite skipn_length; lia). reflexivity.
    + (* inner loop exit: j = n *)
      intros j [[[out' ov'] carry'] jz] (-> & Hj & -> & Hlen' & Fout' & Hcar & Hpre & Hrow) Hcj.
      cond_false_in Hcj. assert (j = n) by lia. subst j.
      unfold mul_inner_post.
      split; [exact Hlen'|]. split; [exact Fout'|]. split; [exact Hpre|].
      exists false. split; [|rewrite orb_false_r; reflexivity].
      rewrite Hrow. rewrite (skipn_all2 b) by lia. rewrite (skipn_all2 out' (n := (k + n)%nat)) by lia.
      cbn [mul_row fst snd]. rewrite app_nil_r.
      rewrite firstn_all2 by (rewrite skipn_length; lia). reflexivity.
    + (* inner invariant initially *)
      unfold mul_inner_inv.
      split; [reflexivity|]. split; [lia|]. split; [reflexivity|]. split; [exact Hlen|].
      split; [exact Fout|]. split; [unfold digit_ok; pose proof (B_pos w ltac:(lia)); lia|].
      split; [reflexivity|]. rewrite Nat.add_0_r. cbn [skipn firstn app].
      destruct (mul_row w (nth k a 0) b (skipn k out) 0) as [[r cf] o]. reflexivity.
    + lia. }
    destruct W as (e & He & HQ).
    (* after the inner loop *)
      rewrite He. cbn [bind]. destruct e as [[[[out' ov'] carry'] jz]|r]; [|contradiction].
      destruct HQ as (Hlen' & Fout' & Hpre & o & Hrow & ->).
      rewrite Heq. rewrite (skipn_nth_cons a k) by lia. cbn [long_mul_loop]. rewrite Hrow.
      assert (Hs : skipn k out' = nth k out' 0 :: skipn (S k) out') by (apply skipn_nth_cons; lia).
      rewrite Hs.
      assert (Hpre' : firstn (S k) out' = firstn k out ++ [nth k out' 0])
        by (rewrite firstn_S_snoc by lia; rewrite Hpre; reflexivity).
      destruct (carry' =? 0) eqn:Ec; cbn [negb].
      * split; [lia|]. split; [lia|]. split; [exact Hlen'|]. split; [exact Fout'|].
        rewrite Hpre'. rewrite orb_false_r.
        destruct (long_mul_loop w (skipn (S k) a) b (skipn (S k) out') (ov || o)) as [r o2].
        cbn [fst snd]. rewrite <- app_assoc. reflexivity.
      * split; [lia|]. split; [lia|]. split; [exact Hlen'|]. split; [exact Fout'|].
        rewrite Hpre'. rewrite orb_true_r.
        destruct (long_mul_loop w (skipn (S k) a) b (skipn (S k) out') true) as [r o2].
        cbn [fst snd]. rewrite <- app_assoc. reflexivity.
  - intros k [[[out ov] carry] i] (-> & Hk & Hlen & Fout & Heq) Hc.
    cond_false_in Hc. assert (k = n) by lia. subst k.
    rewrite Heq. rewrite (skipn_all2 a) by lia. cbn [long_mul_loop fst snd].
    rewrite firstn_all2 by lia. rewrite app_nil_r. reflexivity.
  - split; [reflexivity|]. split; [lia|]. split; [apply repeat_length|].
    split; [apply Forall_forall; intros x Hx; apply repeat_spec in Hx; subst x; unfold digit_ok;
            pose proof (B_pos w ltac:(lia)); lia|].
    unfold long_mul. cbn [skipn firstn app]. rewrite Ha.
    destruct (long_mul_loop w a b (ZERO n) false). reflexivity.
  - lia.
Qed.

(* ---- the obligation of the group as one statement ---- *)
Theorem loops_C02_match_model w : 0 < w ->
  (forall n a b fuel, wf w n a -> wf w n b -> (n <= fuel)%nat ->
     Loops.long_mul w (Z.of_nat n) fuel a b = Done (long_mul w a b)).
Proof. intros Hw n a b fuel Ha Hb Hf. apply loops_long_mul; assumption. Qed.

(* Proofs/GlueTieC18.v — glue functions of C18 (the num_traits forwarders of src/int/numtraits.rs: Bounded, Zero, One, Checked* / Wrapping* / Saturating* / Overflowing* (the 13 num_trait_impl! expansions included), CheckedEuclid, Euclid, Pow, MulAdd): generated (Generated/Glue.v) = hand-written model.
   One file per property so that an edit of one family's source breaks only that property's check.
   Boiler-plate written by tools/mk_gluetie.py from its SPEC table; the statements are fixed by committing this file. *)
From Bnum Require Import Base Prim.
From Bnum.Model Require Import Digit Core Shift AddSub Mul Div Bits Pow.
From Bnum.Generated Require Import Glue.
From Bnum.Proofs Require Import GlueTieCommon.

From Bnum.Model Require NumTraits.

Lemma glue_U_CheckedNeg_checked_neg : forall w a, Glue.U_CheckedNeg_checked_neg w a = NumTraits.TU_checked_neg a.
Proof. glue_tac. Qed.
Lemma glue_U_CheckedShl_checked_shl : forall w a k, Glue.U_CheckedShl_checked_shl w a k = NumTraits.TU_checked_shl w a k.
Proof. glue_tac. Qed.
Lemma glue_U_CheckedShr_checked_shr : forall w a k, Glue.U_CheckedShr_checked_shr w a k = NumTraits.TU_checked_shr w a k.
Proof. glue_tac. Qed.
Lemma glue_U_CheckedEuclid_checked_div_euclid : forall w a b, Glue.U_CheckedEuclid_checked_div_euclid w a b = NumTraits.TU_checked_div_euclid w a b.
Proof. glue_tac. Qed.
Lemma glue_U_CheckedEuclid_checked_rem_euclid : forall w a b, Glue.U_CheckedEuclid_checked_rem_euclid w a b = NumTraits.TU_checked_rem_euclid w a b.
Proof. glue_tac. Qed.
Lemma glue_U_Euclid_div_euclid : forall w a b, Glue.U_Euclid_div_euclid w a b = NumTraits.TU_div_euclid w a b.
Proof. glue_tac. Qed.
Lemma glue_U_Euclid_rem_euclid : forall w a b, Glue.U_Euclid_rem_euclid w a b = NumTraits.TU_rem_euclid w a b.
Proof. glue_tac. Qed.
Lemma glue_U_WrappingNeg_wrapping_neg : forall w a, Glue.U_WrappingNeg_wrapping_neg w a = NumTraits.TU_wrapping_neg w a.
Proof. glue_tac. Qed.
Lemma glue_U_WrappingShl_wrapping_shl : forall w a k, Glue.U_WrappingShl_wrapping_shl w a k = NumTraits.TU_wrapping_shl w a k.
Proof. glue_tac. Qed.
Lemma glue_U_WrappingShr_wrapping_shr : forall w a k, Glue.U_WrappingShr_wrapping_shr w a k = NumTraits.TU_wrapping_shr w a k.
Proof. glue_tac. Qed.
Lemma glue_U_Pow_pow : forall dbg w a k, Glue.U_Pow_pow dbg w a k = NumTraits.TU_pow dbg w a k.
Proof. glue_tac. Qed.
Lemma glue_U_Saturating_saturating_add : forall w a b, Glue.U_Saturating_saturating_add w a b = NumTraits.TU_saturating_add w a b.
Proof. glue_tac. Qed.
Lemma glue_U_Saturating_saturating_sub : forall w a b, Glue.U_Saturating_saturating_sub w a b = NumTraits.TU_saturating_sub w a b.
Proof. glue_tac. Qed.
Lemma glue_U_MulAdd_mul_add : forall dbg w a b c, Glue.U_MulAdd_mul_add dbg w a b c = NumTraits.TU_mul_add dbg w a b c.
Proof. glue_tac. Qed.
Lemma glue_U_CheckedAdd_checked_add : forall w a b, Glue.U_CheckedAdd_checked_add w a b = NumTraits.TU_checked_add w a b.
Proof. glue_tac. Qed.
Lemma glue_U_CheckedDiv_checked_div : forall w a b, Glue.U_CheckedDiv_checked_div w a b = NumTraits.TU_checked_div w a b.
Proof. glue_tac. Qed.
Lemma glue_U_CheckedMul_checked_mul : forall w a b, Glue.U_CheckedMul_checked_mul w a b = NumTraits.TU_checked_mul w a b.
Proof. glue_tac. Qed.
Lemma glue_U_CheckedRem_checked_rem : forall w a b, Glue.U_CheckedRem_checked_rem w a b = NumTraits.TU_checked_rem w a b.
Proof. glue_tac. Qed.
Lemma glue_U_CheckedSub_checked_sub : forall w a b, Glue.U_CheckedSub_checked_sub w a b = NumTraits.TU_checked_sub w a b.
Proof. glue_tac. Qed.
Lemma glue_U_SaturatingAdd_saturating_add : forall w a b, Glue.U_SaturatingAdd_saturating_add w a b = NumTraits.TU_saturating_add w a b.
Proof. glue_tac. Qed.
Lemma glue_U_SaturatingMul_saturating_mul : forall w a b, Glue.U_SaturatingMul_saturating_mul w a b = NumTraits.TU_saturating_mul w a b.
Proof. glue_tac. Qed.
Lemma glue_U_SaturatingSub_saturating_sub : forall w a b, Glue.U_SaturatingSub_saturating_sub w a b = NumTraits.TU_saturating_sub w a b.
Proof. glue_tac. Qed.
Lemma glue_U_WrappingAdd_wrapping_add : forall w a b, Glue.U_WrappingAdd_wrapping_add w a b = NumTraits.TU_wrapping_add w a b.
Proof. glue_tac. Qed.
Lemma glue_U_WrappingMul_wrapping_mul : forall w a b, Glue.U_WrappingMul_wrapping_mul w a b = NumTraits.TU_wrapping_mul w a b.
Proof. glue_tac. Qed.
Lemma glue_U_WrappingSub_wrapping_sub : forall w a b, Glue.U_WrappingSub_wrapping_sub w a b = NumTraits.TU_wrapping_sub w a b.
Proof. glue_tac. Qed.
Lemma glue_U_OverflowingAdd_overflowing_add : forall w a b, Glue.U_OverflowingAdd_overflowing_add w a b = NumTraits.TU_overflowing_add w a b.
Proof. glue_tac. Qed.
Lemma glue_U_OverflowingSub_overflowing_sub : forall w a b, Glue.U_OverflowingSub_overflowing_sub w a b = NumTraits.TU_overflowing_sub w a b.
Proof. glue_tac. Qed.
Lemma glue_I_CheckedNeg_checked_neg : forall w a, Glue.I_CheckedNeg_checked_neg w a = NumTraits.TI_checked_neg w a.
Proof. glue_tac. Qed.
Lemma glue_I_CheckedShl_checked_shl : forall w a k, Glue.I_CheckedShl_checked_shl w a k = NumTraits.TI_checked_shl w a k.
Proof. glue_tac. Qed.
Lemma glue_I_CheckedShr_checked_shr : forall w a k, Glue.I_CheckedShr_checked_shr w a k = NumTraits.TI_checked_shr w a k.
Proof. glue_tac. Qed.
Lemma glue_I_CheckedEuclid_checked_div_euclid : forall dbg w a b, Glue.I_CheckedEuclid_checked_div_euclid dbg w a b = NumTraits.TI_checked_div_euclid dbg w a b.
Proof. glue_tac. Qed.
Lemma glue_I_CheckedEuclid_checked_rem_euclid : forall dbg w a b, Glue.I_CheckedEuclid_checked_rem_euclid dbg w a b = NumTraits.TI_checked_rem_euclid dbg w a b.
Proof. glue_tac. Qed.
Lemma glue_I_Euclid_div_euclid : forall dbg w a b, Glue.I_Euclid_div_euclid dbg w a b = NumTraits.TI_div_euclid dbg w a b.
Proof. glue_tac. Qed.
Lemma glue_I_Euclid_rem_euclid : forall dbg w a b, Glue.I_Euclid_rem_euclid dbg w a b = NumTraits.TI_rem_euclid dbg w a b.
Proof. glue_tac. Qed.
Lemma glue_I_WrappingNeg_wrapping_neg : forall w a, Glue.I_WrappingNeg_wrapping_neg w a = NumTraits.TI_wrapping_neg w a.
Proof. glue_tac. Qed.
Lemma glue_I_WrappingShl_wrapping_shl : forall w a k, Glue.I_WrappingShl_wrapping_shl w a k = NumTraits.TI_wrapping_shl w a k.
Proof. glue_tac. Qed.
Lemma glue_I_WrappingShr_wrapping_shr : forall w a k, Glue.I_WrappingShr_wrapping_shr w a k = NumTraits.TI_wrapping_shr w a k.
Proof. glue_tac. Qed.
Lemma glue_I_Pow_pow : forall dbg w a k, Glue.I_Pow_pow dbg w a k = NumTraits.TI_pow dbg w a k.
Proof. glue_tac. Qed.
Lemma glue_I_Saturating_saturating_add : forall w a b, Glue.I_Saturating_saturating_add w a b = NumTraits.TI_saturating_add w a b.
Proof. glue_tac. Qed.
Lemma glue_I_Saturating_saturating_sub : forall w a b, Glue.I_Saturating_saturating_sub w a b = NumTraits.TI_saturating_sub w a b.
Proof. glue_tac. Qed.
Lemma glue_I_MulAdd_mul_add : forall dbg w a b c, Glue.I_MulAdd_mul_add dbg w a b c = NumTraits.TI_mul_add dbg w a b c.
Proof. glue_tac. Qed.
Lemma glue_I_CheckedAdd_checked_add : forall w a b, Glue.I_CheckedAdd_checked_add w a b = NumTraits.TI_checked_add w a b.
Proof. glue_tac. Qed.
Lemma glue_I_CheckedDiv_checked_div : forall dbg w a b, Glue.I_CheckedDiv_checked_div dbg w a b = NumTraits.TI_checked_div dbg w a b.
Proof. glue_tac. Qed.
Lemma glue_I_CheckedMul_checked_mul : forall w a b, Glue.I_CheckedMul_checked_mul w a b = NumTraits.TI_checked_mul w a b.
Proof. glue_tac. Qed.
Lemma glue_I_CheckedRem_checked_rem : forall dbg w a b, Glue.I_CheckedRem_checked_rem dbg w a b = NumTraits.TI_checked_rem dbg w a b.
Proof. glue_tac. Qed.
Lemma glue_I_CheckedSub_checked_sub : forall w a b, Glue.I_CheckedSub_checked_sub w a b = NumTraits.TI_checked_sub w a b.
Proof. glue_tac. Qed.
Lemma glue_I_SaturatingAdd_saturating_add : forall w a b, Glue.I_SaturatingAdd_saturating_add w a b = NumTraits.TI_saturating_add w a b.
Proof. glue_tac. Qed.
Lemma glue_I_SaturatingMul_saturating_mul : forall w a b, Glue.I_SaturatingMul_saturating_mul w a b = NumTraits.TI_saturating_mul w a b.
Proof. glue_tac. Qed.
Lemma glue_I_SaturatingSub_saturating_sub : forall w a b, Glue.I_SaturatingSub_saturating_sub w a b = NumTraits.TI_saturating_sub w a b.
Proof. glue_tac. Qed.
Lemma glue_I_WrappingAdd_wrapping_add : forall w a b, Glue.I_WrappingAdd_wrapping_add w a b = NumTraits.TI_wrapping_add w a b.
Proof. glue_tac. Qed.
Lemma glue_I_WrappingMul_wrapping_mul : forall w a b, Glue.I_WrappingMul_wrapping_mul w a b = NumTraits.TI_wrapping_mul w a b.
Proof. glue_tac. Qed.
Lemma glue_I_WrappingSub_wrapping_sub : forall w a b, Glue.I_WrappingSub_wrapping_sub w a b = NumTraits.TI_wrapping_sub w a b.
Proof. glue_tac. Qed.
Lemma glue_I_OverflowingAdd_overflowing_add : forall w a b, Glue.I_OverflowingAdd_overflowing_add w a b = NumTraits.TI_overflowing_add w a b.
Proof. glue_tac. Qed.
Lemma glue_I_OverflowingSub_overflowing_sub : forall w a b, Glue.I_OverflowingSub_overflowing_sub w a b = NumTraits.TI_overflowing_sub w a b.
Proof. glue_tac. Qed.
Lemma glue_U_Bounded_min_value : forall w n, Glue.U_Bounded_min_value w n = NumTraits.TU_min_value n.
Proof. glue_tac. Qed.
Lemma glue_U_Bounded_max_value : forall w n, Glue.U_Bounded_max_value w n = NumTraits.TU_max_value w n.
Proof. glue_tac. Qed.
Lemma glue_I_Bounded_min_value : forall w n, Glue.I_Bounded_min_value w n = NumTraits.TI_min_value w n.
Proof. glue_tac. Qed.
Lemma glue_I_Bounded_max_value : forall w n, Glue.I_Bounded_max_value w n = NumTraits.TI_max_value w n.
Proof. glue_tac. Qed.
Lemma glue_U_One_one : forall w n, Glue.U_One_one w n = NumTraits.T_one n.
Proof. glue_tac. Qed.
Lemma glue_I_One_one : forall w n, Glue.I_One_one w n = NumTraits.T_one n.
Proof. glue_tac. Qed.
Lemma glue_U_Zero_zero : forall w n, Glue.U_Zero_zero w n = NumTraits.T_zero n.
Proof. glue_tac. Qed.
Lemma glue_I_Zero_zero : forall w n, Glue.I_Zero_zero w n = NumTraits.T_zero n.
Proof. glue_tac. Qed.
Lemma glue_U_One_is_one : forall w a, Glue.U_One_is_one w a = NumTraits.T_is_one a.
Proof. glue_tac. Qed.
Lemma glue_I_One_is_one : forall w a, Glue.I_One_is_one w a = NumTraits.T_is_one a.
Proof. glue_tac. Qed.
Lemma glue_U_Zero_is_zero : forall w a, Glue.U_Zero_is_zero w a = NumTraits.T_is_zero a.
Proof. glue_tac. Qed.
Lemma glue_I_Zero_is_zero : forall w a, Glue.I_Zero_is_zero w a = NumTraits.T_is_zero a.
Proof. glue_tac. Qed.

Definition glue_numtraits_statement : Prop :=
  (forall w a, Glue.U_CheckedNeg_checked_neg w a = NumTraits.TU_checked_neg a) /\
  (forall w a k, Glue.U_CheckedShl_checked_shl w a k = NumTraits.TU_checked_shl w a k) /\
  (forall w a k, Glue.U_CheckedShr_checked_shr w a k = NumTraits.TU_checked_shr w a k) /\
  (forall w a b, Glue.U_CheckedEuclid_checked_div_euclid w a b = NumTraits.TU_checked_div_euclid w a b) /\
  (forall w a b, Glue.U_CheckedEuclid_checked_rem_euclid w a b = NumTraits.TU_checked_rem_euclid w a b) /\
  (forall w a b, Glue.U_Euclid_div_euclid w a b = NumTraits.TU_div_euclid w a b) /\
  (forall w a b, Glue.U_Euclid_rem_euclid w a b = NumTraits.TU_rem_euclid w a b) /\
  (forall w a, Glue.U_WrappingNeg_wrapping_neg w a = NumTraits.TU_wrapping_neg w a) /\
  (forall w a k, Glue.U_WrappingShl_wrapping_shl w a k = NumTraits.TU_wrapping_shl w a k) /\
  (forall w a k, Glue.U_WrappingShr_wrapping_shr w a k = NumTraits.TU_wrapping_shr w a k) /\
  (forall dbg w a k, Glue.U_Pow_pow dbg w a k = NumTraits.TU_pow dbg w a k) /\
  (forall w a b, Glue.U_Saturating_saturating_add w a b = NumTraits.TU_saturating_add w a b) /\
  (forall w a b, Glue.U_Saturating_saturating_sub w a b = NumTraits.TU_saturating_sub w a b) /\
  (forall dbg w a b c, Glue.U_MulAdd_mul_add dbg w a b c = NumTraits.TU_mul_add dbg w a b c) /\
  (forall w a b, Glue.U_CheckedAdd_checked_add w a b = NumTraits.TU_checked_add w a b) /\
  (forall w a b, Glue.U_CheckedDiv_checked_div w a b = NumTraits.TU_checked_div w a b) /\
  (forall w a b, Glue.U_CheckedMul_checked_mul w a b = NumTraits.TU_checked_mul w a b) /\
  (forall w a b, Glue.U_CheckedRem_checked_rem w a b = NumTraits.TU_checked_rem w a b) /\
  (forall w a b, Glue.U_CheckedSub_checked_sub w a b = NumTraits.TU_checked_sub w a b) /\
  (forall w a b, Glue.U_SaturatingAdd_saturating_add w a b = NumTraits.TU_saturating_add w a b) /\
  (forall w a b, Glue.U_SaturatingMul_saturating_mul w a b = NumTraits.TU_saturating_mul w a b) /\
  (forall w a b, Glue.U_SaturatingSub_saturating_sub w a b = NumTraits.TU_saturating_sub w a b) /\
  (forall w a b, Glue.U_WrappingAdd_wrapping_add w a b = NumTraits.TU_wrapping_add w a b) /\
  (forall w a b, Glue.U_WrappingMul_wrapping_mul w a b = NumTraits.TU_wrapping_mul w a b) /\
  (forall w a b, Glue.U_WrappingSub_wrapping_sub w a b = NumTraits.TU_wrapping_sub w a b) /\
  (forall w a b, Glue.U_OverflowingAdd_overflowing_add w a b = NumTraits.TU_overflowing_add w a b) /\
  (forall w a b, Glue.U_OverflowingSub_overflowing_sub w a b = NumTraits.TU_overflowing_sub w a b) /\
  (forall w a, Glue.I_CheckedNeg_checked_neg w a = NumTraits.TI_checked_neg w a) /\
  (forall w a k, Glue.I_CheckedShl_checked_shl w a k = NumTraits.TI_checked_shl w a k) /\
  (forall w a k, Glue.I_CheckedShr_checked_shr w a k = NumTraits.TI_checked_shr w a k) /\
  (forall dbg w a b, Glue.I_CheckedEuclid_checked_div_euclid dbg w a b = NumTraits.TI_checked_div_euclid dbg w a b) /\
  (forall dbg w a b, Glue.I_CheckedEuclid_checked_rem_euclid dbg w a b = NumTraits.TI_checked_rem_euclid dbg w a b) /\
  (forall dbg w a b, Glue.I_Euclid_div_euclid dbg w a b = NumTraits.TI_div_euclid dbg w a b) /\
  (forall dbg w a b, Glue.I_Euclid_rem_euclid dbg w a b = NumTraits.TI_rem_euclid dbg w a b) /\
  (forall w a, Glue.I_WrappingNeg_wrapping_neg w a = NumTraits.TI_wrapping_neg w a) /\
  (forall w a k, Glue.I_WrappingShl_wrapping_shl w a k = NumTraits.TI_wrapping_shl w a k) /\
  (forall w a k, Glue.I_WrappingShr_wrapping_shr w a k = NumTraits.TI_wrapping_shr w a k) /\
  (forall dbg w a k, Glue.I_Pow_pow dbg w a k = NumTraits.TI_pow dbg w a k) /\
  (forall w a b, Glue.I_Saturating_saturating_add w a b = NumTraits.TI_saturating_add w a b) /\
  (forall w a b, Glue.I_Saturating_saturating_sub w a b = NumTraits.TI_saturating_sub w a b) /\
  (forall dbg w a b c, Glue.I_MulAdd_mul_add dbg w a b c = NumTraits.TI_mul_add dbg w a b c) /\
  (forall w a b, Glue.I_CheckedAdd_checked_add w a b = NumTraits.TI_checked_add w a b) /\
  (forall dbg w a b, Glue.I_CheckedDiv_checked_div dbg w a b = NumTraits.TI_checked_div dbg w a b) /\
  (forall w a b, Glue.I_CheckedMul_checked_mul w a b = NumTraits.TI_checked_mul w a b) /\
  (forall dbg w a b, Glue.I_CheckedRem_checked_rem dbg w a b = NumTraits.TI_checked_rem dbg w a b) /\
  (forall w a b, Glue.I_CheckedSub_checked_sub w a b = NumTraits.TI_checked_sub w a b) /\
  (forall w a b, Glue.I_SaturatingAdd_saturating_add w a b = NumTraits.TI_saturating_add w a b) /\
  (forall w a b, Glue.I_SaturatingMul_saturating_mul w a b = NumTraits.TI_saturating_mul w a b) /\
  (forall w a b, Glue.I_SaturatingSub_saturating_sub w a b = NumTraits.TI_saturating_sub w a b) /\
  (forall w a b, Glue.I_WrappingAdd_wrapping_add w a b = NumTraits.TI_wrapping_add w a b) /\
  (forall w a b, Glue.I_WrappingMul_wrapping_mul w a b = NumTraits.TI_wrapping_mul w a b) /\
  (forall w a b, Glue.I_WrappingSub_wrapping_sub w a b = NumTraits.TI_wrapping_sub w a b) /\
  (forall w a b, Glue.I_OverflowingAdd_overflowing_add w a b = NumTraits.TI_overflowing_add w a b) /\
  (forall w a b, Glue.I_OverflowingSub_overflowing_sub w a b = NumTraits.TI_overflowing_sub w a b) /\
  (forall w n, Glue.U_Bounded_min_value w n = NumTraits.TU_min_value n) /\
  (forall w n, Glue.U_Bounded_max_value w n = NumTraits.TU_max_value w n) /\
  (forall w n, Glue.I_Bounded_min_value w n = NumTraits.TI_min_value w n) /\
  (forall w n, Glue.I_Bounded_max_value w n = NumTraits.TI_max_value w n) /\
  (forall w n, Glue.U_One_one w n = NumTraits.T_one n) /\
  (forall w n, Glue.I_One_one w n = NumTraits.T_one n) /\
  (forall w n, Glue.U_Zero_zero w n = NumTraits.T_zero n) /\
  (forall w n, Glue.I_Zero_zero w n = NumTraits.T_zero n) /\
  (forall w a, Glue.U_One_is_one w a = NumTraits.T_is_one a) /\
  (forall w a, Glue.I_One_is_one w a = NumTraits.T_is_one a) /\
  (forall w a, Glue.U_Zero_is_zero w a = NumTraits.T_is_zero a) /\
  (forall w a, Glue.I_Zero_is_zero w a = NumTraits.T_is_zero a).
Theorem glue_numtraits_matches_model : glue_numtraits_statement.
Proof.
  unfold glue_numtraits_statement. repeat apply conj.
  - exact glue_U_CheckedNeg_checked_neg.
  - exact glue_U_CheckedShl_checked_shl.
  - exact glue_U_CheckedShr_checked_shr.
  - exact glue_U_CheckedEuclid_checked_div_euclid.
  - exact glue_U_CheckedEuclid_checked_rem_euclid.
  - exact glue_U_Euclid_div_euclid.
  - exact glue_U_Euclid_rem_euclid.
  - exact glue_U_WrappingNeg_wrapping_neg.
  - exact glue_U_WrappingShl_wrapping_shl.
  - exact glue_U_WrappingShr_wrapping_shr.
  - exact glue_U_Pow_pow.
  - exact glue_U_Saturating_saturating_add.
  - exact glue_U_Saturating_saturating_sub.
  - exact glue_U_MulAdd_mul_add.
  - exact glue_U_CheckedAdd_checked_add.
  - exact glue_U_CheckedDiv_checked_div.
  - exact glue_U_CheckedMul_checked_mul.
  - exact glue_U_CheckedRem_checked_rem.
  - exact glue_U_CheckedSub_checked_sub.
  - exact glue_U_SaturatingAdd_saturating_add.
  - exact glue_U_SaturatingMul_saturating_mul.
  - exact glue_U_SaturatingSub_saturating_sub.
  - exact glue_U_WrappingAdd_wrapping_add.
  - exact glue_U_WrappingMul_wrapping_mul.
  - exact glue_U_WrappingSub_wrapping_sub.
  - exact glue_U_OverflowingAdd_overflowing_add.
  - exact glue_U_OverflowingSub_overflowing_sub.
  - exact glue_I_CheckedNeg_checked_neg.
  - exact glue_I_CheckedShl_checked_shl.
  - exact glue_I_CheckedShr_checked_shr.
  - exact glue_I_CheckedEuclid_checked_div_euclid.
  - exact glue_I_CheckedEuclid_checked_rem_euclid.
  - exact glue_I_Euclid_div_euclid.
  - exact glue_I_Euclid_rem_euclid.
  - exact glue_I_WrappingNeg_wrapping_neg.
  - exact glue_I_WrappingShl_wrapping_shl.
  - exact glue_I_WrappingShr_wrapping_shr.
  - exact glue_I_Pow_pow.
  - exact glue_I_Saturating_saturating_add.
  - exact glue_I_Saturating_saturating_sub.
  - exact glue_I_MulAdd_mul_add.
  - exact glue_I_CheckedAdd_checked_add.
  - exact glue_I_CheckedDiv_checked_div.
  - exact glue_I_CheckedMul_checked_mul.
  - exact glue_I_CheckedRem_checked_rem.
  - exact glue_I_CheckedSub_checked_sub.
  - exact glue_I_SaturatingAdd_saturating_add.
  - exact glue_I_SaturatingMul_saturating_mul.
  - exact glue_I_SaturatingSub_saturating_sub.
  - exact glue_I_WrappingAdd_wrapping_add.
  - exact glue_I_WrappingMul_wrapping_mul.
  - exact glue_I_WrappingSub_wrapping_sub.
  - exact glue_I_OverflowingAdd_overflowing_add.
  - exact glue_I_OverflowingSub_overflowing_sub.
  - exact glue_U_Bounded_min_value.
  - exact glue_U_Bounded_max_value.
  - exact glue_I_Bounded_min_value.
  - exact glue_I_Bounded_max_value.
  - exact glue_U_One_one.
  - exact glue_I_One_one.
  - exact glue_U_Zero_zero.
  - exact glue_I_Zero_zero.
  - exact glue_U_One_is_one.
  - exact glue_I_One_is_one.
  - exact glue_U_Zero_is_zero.
  - exact glue_I_Zero_is_zero.
Qed.

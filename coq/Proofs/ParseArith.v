(* Proofs/ParseArith.v — step B of the C10 proofs, value-level facts: Horner values, the
   list-level loops (acc_list, pack_list, pack_full_list, mul_small) compute them, radix_base. *)
From Bnum Require Import Base Prim.
From Bnum.Model Require Import Digit Core Shift AddSub Bits Parse.
From Bnum.Proofs Require Import ParseSpec ParseLoops.

(* ---------- Horner ---------- *)
Lemma horner_fold r ds a :
  fold_left (fun a d => a * r + d) ds a = a * r ^ Z.of_nat (length ds) + horner r ds.
Proof.
  unfold horner. revert a. induction ds as [|d ds IH]; intros a; cbn [fold_left length].
  - rewrite Z.pow_0_r. lia.
  - rewrite IH, (IH (0 * r + d)). rewrite Nat2Z.inj_succ, Z.pow_succ_r by lia. ring.
Qed.

Lemma horner_nil r : horner r [] = 0.
Proof. reflexivity. Qed.

Lemma horner_cons r d ds : horner r (d :: ds) = d * r ^ Z.of_nat (length ds) + horner r ds.
Proof. unfold horner at 1. cbn [fold_left]. rewrite horner_fold. lia. Qed.

Lemma horner_app r a b : horner r (a ++ b) = horner r a * r ^ Z.of_nat (length b) + horner r b.
Proof. unfold horner at 1. rewrite fold_left_app. fold (horner r a). apply horner_fold. Qed.

Lemma horner_bounds r ds : 0 < r -> Forall (fun d => 0 <= d < r) ds ->
  0 <= horner r ds < r ^ Z.of_nat (length ds).
Proof.
  intros Hr H. induction H as [|d ds Hd _ IH].
  - cbn. lia.
  - rewrite horner_cons. cbn [length]. rewrite Nat2Z.inj_succ, Z.pow_succ_r by lia.
    assert (0 < r ^ Z.of_nat (length ds)) by (apply Z.pow_pos_nonneg; lia). nia.
Qed.

Lemma horner_zeros r z ds : Forall (fun d => d = 0) z -> horner r (z ++ ds) = horner r ds.
Proof.
  intros H. induction H as [|d z Hd _ IH]; [reflexivity|].
  cbn [app]. rewrite horner_cons, IH. subst d. lia.
Qed.

Lemma horner_lead r d ds : 0 < r -> 1 <= d -> Forall (fun d => 0 <= d < r) ds ->
  r ^ Z.of_nat (length ds) <= horner r (d :: ds).
Proof.
  intros Hr Hd H. rewrite horner_cons. pose proof (horner_bounds r ds Hr H).
  assert (0 < r ^ Z.of_nat (length ds)) by (apply Z.pow_pos_nonneg; lia). nia.
Qed.

(* little-endian value in base 2^k is Horner on the reversed list *)
Lemma uval_rev_horner k ds : 0 <= k -> uval k (rev ds) = horner (2 ^ k) ds.
Proof.
  intros Hk. induction ds as [|d ds IH]; [reflexivity|].
  cbn [rev]. rewrite uval_app by lia. cbn [uval]. rewrite IH, horner_cons, rev_length.
  unfold Mod. rewrite <- Z.pow_mul_r by lia. lia.
Qed.

(* ---------- small helpers ---------- *)
Lemma digits_of_unique w n ds v : 0 < w -> wf w n ds -> uval w ds = v -> digits_of w n v = ds.
Proof.
  intros Hw Hwf Hv. apply uval_inj with w n; try lia; auto using digits_of_wf.
  rewrite digits_of_uval by lia. subst v. apply Z.mod_small. apply uval_bounds; auto; lia.
Qed.

Lemma uval_repeat0 w k : uval w (repeat 0 k) = 0.
Proof. induction k; cbn [repeat uval]; [reflexivity | rewrite IHk; lia]. Qed.

Lemma wf_repeat0 w k : 0 <= w -> wf w k (repeat 0 k).
Proof.
  intros Hw. split; [apply repeat_length|]. apply Forall_forall. intros x Hx. apply repeat_spec in Hx. subst x.
  unfold digit_ok. pose proof (B_pos w Hw). lia.
Qed.

Lemma from_digit_wf w n d : 0 <= w -> (0 < n)%nat -> 0 <= d < B w -> wf w n (from_digit n d) /\ uval w (from_digit n d) = d.
Proof.
  intros Hw Hn Hd. destruct n as [|k]; [lia|]. cbn [from_digit]. split.
  - apply wf_cons. split; [exact Hd | apply wf_repeat0; lia].
  - cbn [uval]. rewrite uval_repeat0. lia.
Qed.

Lemma pow_le_B r p w : 0 <= p -> 0 < r -> r ^ p < B w -> forall q, 0 <= q <= p -> r ^ q < B w.
Proof.
  intros Hp Hr H q Hq. apply Z.le_lt_trans with (r ^ p); [|exact H].
  apply Z.pow_le_mono_r; lia.
Qed.

(* ---------- acc_list ---------- *)
Lemma d_mul_small dbg w a b : 0 <= a * b < B w -> d_mul dbg w a b = POk (a * b).
Proof. intros H. unfold d_mul. destruct (Z.ltb_spec (a * b) (B w)); [reflexivity | lia]. Qed.
Lemma d_add_small dbg w a b : 0 <= a + b < B w -> d_add dbg w a b = POk (a + b).
Proof. intros H. unfold d_add. destruct (Z.ltb_spec (a + b) (B w)); [reflexivity | lia]. Qed.

Lemma acc_list_spec fs dbg w radix v : 0 < w -> 2 <= radix < B w ->
  Forall (fun b => 0 <= dig fs b) v ->
  forall acc, 0 <= acc -> (acc + 1) * radix ^ Z.of_nat (length v) <= B w ->
  acc_list fs dbg w radix radix v acc =
    if forallb (okd fs radix) v then POk (acc * radix ^ Z.of_nat (length v) + horner radix (map (dig fs) v))
    else PErr InvalidDigit.
Proof.
  intros Hw Hr Hv. induction Hv as [|x v Hx _ IH]; intros acc Ha Hb.
  - cbn [acc_list forallb length map]. rewrite horner_nil, Z.pow_0_r. f_equal. lia.
  - cbn [acc_list forallb length map]. unfold okd at 1.
    cbn [length] in Hb. rewrite Nat2Z.inj_succ, Z.pow_succ_r in Hb by lia.
    assert (Hp : 0 < radix ^ Z.of_nat (length v)) by (apply Z.pow_pos_nonneg; lia).
    destruct (Z.leb_spec radix (dig fs x)) as [Hbad|Hok]; destruct (Z.ltb_spec (dig fs x) radix); try lia.
    + reflexivity.
    + cbn [andb]. rewrite Z.mod_small by lia.
      rewrite d_mul_small by nia. cbn [pbind]. rewrite d_add_small by nia. cbn [pbind].
      rewrite IH by nia. destruct (forallb (okd fs radix) v); [|reflexivity].
      f_equal. rewrite horner_cons, map_length, Nat2Z.inj_succ, Z.pow_succ_r by lia. ring.
Qed.

(* ---------- radix_base ---------- *)
Lemma radix_base_loop_spec w radix : 0 < w -> 2 <= radix < B w ->
  forall fuel base power, 1 <= power -> base = radix ^ power -> base < B w -> w - power < Z.of_nat fuel ->
  exists b p, radix_base_loop fuel w radix base power = Some (b, p) /\
              1 <= p /\ b = radix ^ p /\ b < B w /\ B w <= b * radix.
Proof.
  intros Hw Hr. induction fuel as [|f IH]; intros base power Hp Hb Hlt Hf.
  - (* 2^power <= radix^power < 2^w, so power < w *)
    exfalso. assert (2 ^ power <= radix ^ power) by (apply Z.pow_le_mono_l; lia).
    assert (power < w). { apply (Z.pow_lt_mono_r_iff 2); unfold B in *; lia. }
    lia.
  - cbn [radix_base_loop]. unfold d_checked_mul.
    destruct (Z.ltb_spec (base * radix) (B w)) as [Hs|Hs].
    + assert (Hb' : base * radix = radix ^ (power + 1)).
      { subst base. rewrite Z.pow_add_r, Z.pow_1_r by lia. reflexivity. }
      destruct (IH (base * radix) (power + 1) ltac:(lia) Hb' Hs ltac:(lia)) as (b & p & E & H1 & H2 & H3 & H4).
      exists b, p. repeat split; auto; lia.
    + exists base, power. repeat split; auto.
Qed.

Lemma radix_base_spec w radix : 0 < w -> 2 <= radix < B w ->
  exists b p, radix_base w radix = Some (b, p) /\ 1 <= p /\ b = radix ^ p /\ b < B w /\ B w <= b * radix.
Proof.
  intros Hw Hr. unfold radix_base. rewrite Z.mod_small by lia.
  apply radix_base_loop_spec; try lia; try (rewrite Z.pow_1_r; reflexivity).
Qed.

(* ---------- mul_small ---------- *)
Lemma mul_small_spec w base : 0 < w -> 0 <= base < B w ->
  forall k ds carry, wf w k ds -> 0 <= carry < B w ->
  let '(r, c) := mul_small w ds base carry in
  wf w k r /\ uval w r + Mod w k * c = uval w ds * base + carry /\ 0 <= c < B w.
Proof.
  intros Hw Hb. pose proof (B_pos w ltac:(lia)) as HB.
  induction k as [|k IH]; intros ds carry Hwf Hc.
  - apply wf_inv_0 in Hwf. subst ds. cbn [mul_small uval]. rewrite Mod_0. split; [apply wf_nil|]. lia.
  - destruct (wf_inv_S _ _ _ Hwf) as (d & r & -> & Hd & Hr). cbn [mul_small]. unfold carrying_mul.
    unfold digit_ok in Hd.
    set (prod := carry + 0 + d * base).
    assert (Hprod : 0 <= prod < B w * B w) by (unfold prod; nia).
    assert (Hq : 0 <= prod / B w < B w).
    { split; [apply Z.div_pos; lia | apply Z.div_lt_upper_bound; lia]. }
    rewrite (Z.mod_small (prod / B w)) by lia.
    specialize (IH r (prod / B w) Hr Hq).
    destruct (mul_small w r base (prod / B w)) as [r' c]. destruct IH as (IH1 & IH2 & IH3).
    split; [|split].
    + apply wf_cons. split; [|exact IH1]. unfold digit_ok. apply Z.mod_pos_bound. lia.
    + cbn [uval]. rewrite Mod_S by lia. pose proof (Z.div_mod prod (B w) ltac:(lia)). unfold prod in *. nia.
    + exact IH3.
Qed.

(* ---------- pack_list / pack_full_list: the power-of-two branch ---------- *)
Lemma land_disjoint a d k : 0 <= k -> 0 <= a < 2 ^ k -> Z.land a (d * 2 ^ k) = 0.
Proof.
  intros Hk Ha. apply Z.bits_inj'. intros i Hi. rewrite Z.land_spec, Z.bits_0.
  destruct (Z.lt_ge_cases i k) as [Hlt|Hge].
  - rewrite Z.mul_pow2_bits_low by lia. apply andb_false_r.
  - replace (Z.testbit a i) with false; [reflexivity|]. symmetry.
    destruct (Z.eq_dec a 0) as [->|Hnz]; [apply Z.bits_0|].
    apply Z.bits_above_log2; [lia|]. assert (Z.log2 a < k) by (apply Z.log2_lt_pow2; lia). lia.
Qed.

Lemma lor_disjoint a d k : 0 <= k -> 0 <= a < 2 ^ k -> Z.lor a (d * 2 ^ k) = a + d * 2 ^ k.
Proof.
  intros Hk Ha. pose proof (land_disjoint a d k Hk Ha) as H.
  rewrite <- (Z.lxor_lor _ _ H). symmetry. apply Z.add_nocarry_lxor. exact H.
Qed.

Lemma pack_list_spec fs w lg v : 0 < lg ->
  Forall (fun b => 0 <= dig fs b) v ->
  forall j acc, 0 <= j -> (j + Z.of_nat (length v)) * lg <= w -> 0 <= acc < 2 ^ (j * lg) ->
  pack_list fs w (2 ^ lg) lg v j acc =
    if forallb (okd fs (2 ^ lg)) v then POk (acc + 2 ^ (j * lg) * uval lg (map (dig fs) v)) else PErr InvalidDigit.
Proof.
  intros Hlg Hv. induction Hv as [|x v Hx _ IH]; intros j acc Hj Hw Ha.
  - cbn [pack_list forallb map uval]. f_equal. lia.
  - cbn [pack_list forallb map uval length]. unfold okd at 1.
    cbn [length] in Hw.
    destruct (Z.leb_spec (2 ^ lg) (dig fs x)) as [Hbad|Hok]; destruct (Z.ltb_spec (dig fs x) (2 ^ lg)); try lia.
    + reflexivity.
    + cbn [andb].
      assert (Hp1 : 0 < 2 ^ (j * lg)) by (apply Z.pow_pos_nonneg; nia).
      assert (Hp2 : 2 ^ ((j + 1) * lg) = 2 ^ lg * 2 ^ (j * lg)).
      { rewrite <- Z.pow_add_r by nia. f_equal. lia. }
      assert (Hp3 : 2 ^ ((j + 1) * lg) <= B w). { unfold B. apply Z.pow_le_mono_r; nia. }
      assert (Hsh : u_shl w (dig fs x) (j * lg) = dig fs x * 2 ^ (j * lg)).
      { unfold u_shl. apply Z.mod_small. nia. }
      assert (Hor : u_or acc (u_shl w (dig fs x) (j * lg)) = acc + dig fs x * 2 ^ (j * lg)).
      { rewrite Hsh. unfold u_or. apply lor_disjoint; nia. }
      rewrite Hor. rewrite IH; try nia.
      destruct (forallb (okd fs (2 ^ lg)) v); [|reflexivity].
      f_equal. unfold B. rewrite Hp2. ring.
Qed.

Lemma forallb_firstn_skipn {A} (f : A -> bool) k l :
  forallb f l = forallb f (firstn k l) && forallb f (skipn k l).
Proof. rewrite <- forallb_app, firstn_skipn. reflexivity. Qed.

Lemma Forall_firstn {A} (P : A -> Prop) k l : Forall P l -> Forall P (firstn k l).
Proof.
  intros H. apply Forall_forall. intros x Hx. rewrite Forall_forall in H. apply H.
  rewrite <- (firstn_skipn k l). apply in_or_app. left. exact Hx.
Qed.
Lemma Forall_skipn {A} (P : A -> Prop) k l : Forall P l -> Forall P (skipn k l).
Proof.
  intros H. apply Forall_forall. intros x Hx. rewrite Forall_forall in H. apply H.
  rewrite <- (firstn_skipn k l). apply in_or_app. right. exact Hx.
Qed.

Lemma okd_digits_wf fs lg v : 0 < lg -> Forall (fun b => 0 <= dig fs b) v ->
  forallb (okd fs (2 ^ lg)) v = true -> wf lg (length v) (map (dig fs) v).
Proof.
  intros Hlg Hv Hok. split; [apply map_length|].
  apply Forall_forall. intros d Hd. apply in_map_iff in Hd. destruct Hd as (b & <- & Hb).
  rewrite Forall_forall in Hv. rewrite forallb_forall in Hok.
  specialize (Hv b Hb). specialize (Hok b Hb). unfold okd in Hok. apply Z.ltb_lt in Hok.
  unfold digit_ok, B. lia.
Qed.

Lemma pack_full_list_spec fs w lg bd : 0 < lg -> w = lg * Z.of_nat bd ->
  forall count v, length v = (count * bd)%nat -> Forall (fun b => 0 <= dig fs b) v ->
  if forallb (okd fs (2 ^ lg)) v then
    exists ds, pack_full_list fs w (2 ^ lg) lg bd v count = POk ds /\ wf w count ds /\
               uval w ds = uval lg (map (dig fs) v)
  else pack_full_list fs w (2 ^ lg) lg bd v count = PErr InvalidDigit.
Proof.
  intros Hlg Hw. induction count as [|c IH]; intros v Hl Hv.
  - destruct v; [|discriminate]. cbn [forallb pack_full_list map uval]. exists []. repeat split. constructor.
  - cbn [pack_full_list].
    assert (Hl1 : length (firstn bd v) = bd) by (rewrite firstn_length; lia).
    assert (Hl2 : length (skipn bd v) = (c * bd)%nat) by (rewrite skipn_length; lia).
    rewrite (forallb_firstn_skipn _ bd v).
    assert (Hq1 : (0 + Z.of_nat (length (firstn bd v))) * lg <= w) by (rewrite Hl1; lia).
    assert (Hq2 : 0 <= 0 < 2 ^ (0 * lg)) by (rewrite Z.mul_0_l, Z.pow_0_r; lia).
    rewrite (pack_list_spec fs w lg (firstn bd v) Hlg (Forall_firstn _ _ _ Hv) 0 0 ltac:(lia) Hq1 Hq2).
    specialize (IH (skipn bd v) Hl2 (Forall_skipn _ _ _ Hv)).
    destruct (forallb (okd fs (2 ^ lg)) (firstn bd v)) eqn:E1; cbn [andb pbind]; [|reflexivity].
    destruct (forallb (okd fs (2 ^ lg)) (skipn bd v)) eqn:E2.
    + destruct IH as (ds & -> & Hwf & Hu). cbn [pbind].
      set (d := 0 + 2 ^ (0 * lg) * uval lg (map (dig fs) (firstn bd v))).
      pose proof (okd_digits_wf fs lg _ Hlg (Forall_firstn _ bd _ Hv) E1) as Hwd. rewrite Hl1 in Hwd.
      pose proof (uval_bounds lg bd _ ltac:(lia) Hwd) as Hbd.
      assert (HM : Mod lg bd = B w) by (unfold Mod, B; f_equal; lia).
      assert (Hd : d = uval lg (map (dig fs) (firstn bd v))).
      { unfold d. rewrite Z.mul_0_l, Z.pow_0_r. lia. }
      exists (d :: ds). split; [reflexivity|]. split.
      * apply wf_cons. split; [|exact Hwf]. unfold digit_ok. rewrite Hd, <- HM. exact Hbd.
      * cbn [uval]. rewrite Hu, Hd. rewrite <- (firstn_skipn bd v) at 3.
        rewrite map_app, uval_app by lia. rewrite map_length, Hl1, HM. reflexivity.
    + rewrite IH. reflexivity.
Qed.

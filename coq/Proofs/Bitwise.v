(* Proofs/Bitwise.v — digit-wise logic and shift-right-by-one on digit lists, at the value level. *)
From Bnum Require Import Base Prim.
From Bnum.Model Require Import Digit Core Shift.

(* ---------- 1. bit-level helpers ---------- *)

Lemma pow2_pos k : 0 <= k -> 0 < 2 ^ k.
Proof. intros; apply Z.pow_pos_nonneg; lia. Qed.

Lemma pow2_half w : 1 <= w -> 2 ^ w = 2 * 2 ^ (w - 1).
Proof.
  intros. replace w with (1 + (w - 1)) at 1 by lia.
  rewrite Z.pow_add_r by lia. reflexivity.
Qed.

Lemma testbit_split w x p i : 0 <= w -> 0 <= x < 2 ^ w -> 0 <= i ->
  Z.testbit (x + 2 ^ w * p) i = if i <? w then Z.testbit x i else Z.testbit p (i - w).
Proof.
  intros Hw Hx Hi. pose proof (pow2_pos w Hw) as Hp. destruct (Z.ltb_spec i w).
  - rewrite <- (Z.mod_pow2_bits_low (x + 2 ^ w * p) w i) by lia.
    rewrite (Z.mul_comm (2 ^ w)), Z_mod_plus_full, Z.mod_small by lia. reflexivity.
  - replace i with ((i - w) + w) at 1 by lia.
    rewrite <- Z.div_pow2_bits by lia.
    rewrite (Z.mul_comm (2 ^ w)), Z.div_add, Z.div_small by lia.
    rewrite Z.add_0_l. reflexivity.
Qed.

Lemma bits_small w z : 0 <= w -> 0 <= z -> (forall i, w <= i -> Z.testbit z i = false) -> z < 2 ^ w.
Proof.
  intros Hw Hz H.
  assert (E : z mod 2 ^ w = z).
  { apply Z.bits_inj'. intros i Hi. destruct (Z.lt_ge_cases i w).
    - apply Z.mod_pow2_bits_low; lia.
    - rewrite Z.mod_pow2_bits_high by lia. symmetry; apply H; lia. }
  pose proof (Z.mod_pos_bound z (2 ^ w) (pow2_pos w Hw)). lia.
Qed.

Lemma bits_high_false w z i : 0 <= w -> 0 <= z < 2 ^ w -> w <= i -> Z.testbit z i = false.
Proof.
  intros Hw Hz Hi. rewrite <- (Z.mod_small z (2 ^ w)) by lia.
  apply Z.mod_pow2_bits_high; lia.
Qed.

Lemma land_digit_ok w x y : 0 <= w -> digit_ok w x -> digit_ok w y -> digit_ok w (Z.land x y).
Proof.
  unfold digit_ok, B. intros Hw Hx Hy.
  assert (H0 : 0 <= Z.land x y) by (apply Z.land_nonneg; lia).
  split; [exact H0|]. apply bits_small; auto.
  intros i Hi. rewrite Z.land_spec, (bits_high_false w x i) by lia. reflexivity.
Qed.

Lemma lxor_digit_ok w x y : 0 <= w -> digit_ok w x -> digit_ok w y -> digit_ok w (Z.lxor x y).
Proof.
  unfold digit_ok, B. intros Hw Hx Hy.
  assert (H0 : 0 <= Z.lxor x y) by (apply Z.lxor_nonneg; lia).
  split; [exact H0|]. apply bits_small; auto.
  intros i Hi.
  rewrite Z.lxor_spec, (bits_high_false w x i), (bits_high_false w y i) by lia. reflexivity.
Qed.

Local Ltac bitwise :=
  apply Z.bits_inj'; intros ?i ?Hi;
  repeat first [ rewrite Z.land_spec | rewrite Z.lxor_spec | rewrite Z.lor_spec
               | rewrite Z.ldiff_spec | rewrite Z.bits_0 ];
  repeat match goal with |- context [Z.testbit ?a ?i] => destruct (Z.testbit a i) end;
  reflexivity.

(* holds for ALL integers (two's complement semantics of Z.land / Z.lxor) *)
Lemma add_land_lor a b : a + b = Z.land a b + Z.lor a b.
Proof.
  assert (E1 : Z.land a b + Z.ldiff a b = a).
  { rewrite Z.add_nocarry_lxor by bitwise. bitwise. }
  assert (E2 : Z.ldiff a b + b = Z.lor a b).
  { rewrite Z.add_nocarry_lxor by bitwise. bitwise. }
  lia.
Qed.

Lemma lxor_plus_land a b : Z.lxor a b + Z.land a b = Z.lor a b.
Proof. rewrite Z.add_nocarry_lxor by bitwise. bitwise. Qed.

Lemma add_land_lxor a b : a + b = 2 * Z.land a b + Z.lxor a b.
Proof. pose proof (add_land_lor a b). pose proof (lxor_plus_land a b). lia. Qed.

Lemma testbit_top k A : 0 < k -> 0 <= A < 2 ^ k -> Z.testbit A (k - 1) = (2 ^ (k - 1) <=? A).
Proof.
  intros Hk HA. pose proof (pow2_half k ltac:(lia)) as Hh.
  pose proof (pow2_pos (k - 1) ltac:(lia)) as Hp.
  replace (k - 1) with (0 + (k - 1)) at 1 by lia.
  rewrite <- Z.div_pow2_bits by lia. rewrite Z.bit0_odd.
  destruct (Z.leb_spec (2 ^ (k - 1)) A).
  - replace (A / 2 ^ (k - 1)) with 1; [reflexivity|].
    apply Z.div_unique with (A - 2 ^ (k - 1)); lia.
  - rewrite Z.div_small by lia. reflexivity.
Qed.

(* ---------- 2. digit lists ---------- *)

Lemma map2_wf f w n a b :
  (forall x y, digit_ok w x -> digit_ok w y -> digit_ok w (f x y)) ->
  wf w n a -> wf w n b -> wf w n (map2 f a b).
Proof.
  intros Hf. revert a b. induction n as [|n IH]; intros a b Ha Hb.
  - apply wf_inv_0 in Ha, Hb; subst. apply wf_nil.
  - destruct (wf_inv_S _ _ _ Ha) as (x & a' & -> & Hx & Ha').
    destruct (wf_inv_S _ _ _ Hb) as (y & b' & -> & Hy & Hb').
    cbn [map2]. apply wf_cons. split; auto.
Qed.

Lemma bitand_wf w n a b : 0 <= w -> wf w n a -> wf w n b -> wf w n (bitand a b).
Proof. intros Hw. apply map2_wf. intros; apply land_digit_ok; auto. Qed.

Lemma bitxor_wf w n a b : 0 <= w -> wf w n a -> wf w n b -> wf w n (bitxor a b).
Proof. intros Hw. apply map2_wf. intros; apply lxor_digit_ok; auto. Qed.

Lemma land_split w x y p q : 0 <= w -> 0 <= x < 2 ^ w -> 0 <= y < 2 ^ w ->
  Z.land (x + 2 ^ w * p) (y + 2 ^ w * q) = Z.land x y + 2 ^ w * Z.land p q.
Proof.
  intros Hw Hx Hy.
  pose proof (land_digit_ok w x y Hw Hx Hy) as Hl. unfold digit_ok, B in Hl.
  apply Z.bits_inj'. intros i Hi.
  rewrite Z.land_spec, !testbit_split by lia.
  destruct (i <? w); rewrite Z.land_spec; reflexivity.
Qed.

Lemma lxor_split w x y p q : 0 <= w -> 0 <= x < 2 ^ w -> 0 <= y < 2 ^ w ->
  Z.lxor (x + 2 ^ w * p) (y + 2 ^ w * q) = Z.lxor x y + 2 ^ w * Z.lxor p q.
Proof.
  intros Hw Hx Hy.
  pose proof (lxor_digit_ok w x y Hw Hx Hy) as Hl. unfold digit_ok, B in Hl.
  apply Z.bits_inj'. intros i Hi.
  rewrite Z.lxor_spec, !testbit_split by lia.
  destruct (i <? w); rewrite Z.lxor_spec; reflexivity.
Qed.

Lemma uval_bitand w n a b : 0 <= w -> wf w n a -> wf w n b ->
  uval w (bitand a b) = Z.land (uval w a) (uval w b).
Proof.
  intros Hw. revert a b. induction n as [|n IH]; intros a b Ha Hb.
  - apply wf_inv_0 in Ha, Hb; subst. reflexivity.
  - destruct (wf_inv_S _ _ _ Ha) as (x & a' & -> & Hx & Ha').
    destruct (wf_inv_S _ _ _ Hb) as (y & b' & -> & Hy & Hb').
    unfold bitand in *. cbn [map2 uval]. rewrite (IH a' b' Ha' Hb').
    unfold u_and, B. symmetry. apply land_split; auto.
Qed.

Lemma uval_bitxor w n a b : 0 <= w -> wf w n a -> wf w n b ->
  uval w (bitxor a b) = Z.lxor (uval w a) (uval w b).
Proof.
  intros Hw. revert a b. induction n as [|n IH]; intros a b Ha Hb.
  - apply wf_inv_0 in Ha, Hb; subst. reflexivity.
  - destruct (wf_inv_S _ _ _ Ha) as (x & a' & -> & Hx & Ha').
    destruct (wf_inv_S _ _ _ Hb) as (y & b' & -> & Hy & Hb').
    unfold bitxor in *. cbn [map2 uval]. rewrite (IH a' b' Ha' Hb').
    unfold u_xor, B. symmetry. apply lxor_split; auto.
Qed.

(* parity test used by BInt::midpoint *)
Lemma hd_odd w n ds : 0 < w -> wf w n ds -> (Z.land (hd 0 ds) 1 =? 1) = Z.odd (uval w ds).
Proof.
  intros Hw _. destruct ds as [|d r]; [reflexivity|].
  cbn [hd uval]. unfold B. rewrite (pow2_half w) by lia.
  rewrite <- Z.mul_assoc, Z.odd_add_mul_2.
  change 1 with (Z.ones 1) at 1. rewrite Z.land_ones by lia.
  change (2 ^ 1) with 2. rewrite Zmod_odd. destruct (Z.odd d); reflexivity.
Qed.

(* ---------- 3. shift right by one bit ---------- *)

Lemma shl_top w d : 1 <= w -> u_shl w d (w - 1) = (d mod 2) * 2 ^ (w - 1).
Proof.
  intros Hw. unfold u_shl, B. rewrite (pow2_half w) by lia.
  pose proof (pow2_pos (w - 1) ltac:(lia)).
  rewrite Z.mul_mod_distr_r by lia. reflexivity.
Qed.

Lemma shl_top_max w : 1 <= w -> u_shl w (u_max w) (w - 1) = 1 * 2 ^ (w - 1).
Proof.
  intros Hw. rewrite shl_top by lia. f_equal.
  unfold u_max, B. rewrite (pow2_half w) by lia.
  symmetry. apply Z.mod_unique with (2 ^ (w - 1) - 1); lia.
Qed.

Lemma lor_disjoint k x c : 0 <= k -> 0 <= x < 2 ^ k -> Z.lor x (c * 2 ^ k) = x + c * 2 ^ k.
Proof.
  intros Hk Hx. pose proof (pow2_pos k Hk). apply Z.bits_inj'. intros i Hi.
  rewrite Z.lor_spec, (Z.mul_comm c).
  rewrite (testbit_split k x c i) by lia.
  replace (2 ^ k * c) with (0 + 2 ^ k * c) by lia.
  rewrite (testbit_split k 0 c i) by lia.
  destruct (Z.ltb_spec i k).
  - rewrite Z.bits_0, orb_false_r. reflexivity.
  - rewrite (bits_high_false k x i) by lia. reflexivity.
Qed.

Lemma shr_bits_length w bs rds c : length (shr_bits w bs rds c) = length rds.
Proof. revert c. induction rds as [|d r IH]; intros c; cbn [shr_bits length]; [|rewrite IH]; reflexivity. Qed.

Lemma shr_bits1_spec w rds : 2 <= w -> Forall (digit_ok w) rds -> forall cb, 0 <= cb <= 1 ->
  Forall (digit_ok w) (shr_bits w 1 rds (cb * 2 ^ (w - 1))) /\
  uval w (rev (shr_bits w 1 rds (cb * 2 ^ (w - 1)))) =
    (cb * Mod w (length rds) + uval w (rev rds)) / 2.
Proof.
  intros Hw HF. induction HF as [|d r Hd Hr IH]; intros cb Hcb.
  - cbn [shr_bits length rev uval]. rewrite Mod_0. split; [constructor|].
    symmetry. apply Z.div_small. lia.
  - cbn [shr_bits length rev].
    rewrite shl_top by lia.
    assert (Hd2 : 0 <= d mod 2 <= 1) by (pose proof (Z.mod_pos_bound d 2); lia).
    destruct (IH (d mod 2) Hd2) as (IHf & IHv).
    pose proof (shr_bits_length w 1 r (d mod 2 * 2 ^ (w - 1))) as IHl.
    set (out := shr_bits w 1 r (d mod 2 * 2 ^ (w - 1))) in *.
    unfold u_shr, u_or. change (2 ^ 1) with 2.
    unfold digit_ok, B in Hd.
    pose proof (pow2_half w ltac:(lia)) as Hh.
    pose proof (pow2_pos (w - 1) ltac:(lia)) as Hhp.
    assert (Hq : 0 <= d / 2 < 2 ^ (w - 1)).
    { split; [apply Z.div_pos; lia | apply Z.div_lt_upper_bound; lia]. }
    rewrite lor_disjoint by lia.
    split.
    + constructor; [|exact IHf]. unfold digit_ok, B. nia.
    + rewrite !uval_app by lia. rewrite !rev_length, IHl, IHv. cbn [uval length].
      rewrite Mod_S by lia. unfold B. rewrite Hh.
      pose proof (Z.div_mod d 2 ltac:(lia)) as E.
      set (q := d / 2) in *. set (m := d mod 2) in *. clearbody q m.
      set (M := Mod w (length r)). set (U := uval w (rev r)). set (h := 2 ^ (w - 1)).
      match goal with |- _ = ?X / 2 =>
        replace X with ((m * M + U) + (M * (q + cb * h)) * 2) by (rewrite E; ring) end.
      rewrite Z.div_add by lia. ring.
Qed.

Lemma set_nth_app_last k f l x : length l = k -> set_nth k f (l ++ [x]) = l ++ [f x].
Proof.
  intros <-. unfold set_nth.
  rewrite firstn_app, skipn_app, Nat.sub_diag, firstn_all, skipn_all.
  cbn [firstn skipn app]. rewrite app_nil_r. reflexivity.
Qed.

Lemma shr_pad1_false_eq w ds : 2 <= w ->
  shr_pad_internal w false ds 1 = rev (shr_bits w 1 (rev ds) (0 * 2 ^ (w - 1))).
Proof.
  intros Hw. unfold shr_pad_internal.
  rewrite Z.div_small, Z.mod_small by lia.
  change (Z.to_nat 0) with 0%nat. change (1 =? 0) with false. cbv beta zeta iota.
  cbn [skipn repeat]. rewrite app_nil_r.
  change (0 * 2 ^ (w - 1)) with 0.
  apply firstn_all2. rewrite rev_length, shr_bits_length, rev_length. lia.
Qed.

Lemma shr_pad1_true_eq w ds : 2 <= w -> (0 < length ds)%nat ->
  shr_pad_internal w true ds 1 = rev (shr_bits w 1 (rev ds) (1 * 2 ^ (w - 1))).
Proof.
  intros Hw Hn. unfold shr_pad_internal.
  rewrite Z.div_small, Z.mod_small by lia.
  change (Z.to_nat 0) with 0%nat. change (1 =? 0) with false. cbv beta zeta iota.
  cbn [skipn repeat]. rewrite app_nil_r.
  rewrite shl_top_max by lia.
  assert (Hlen : length (rev ds) = length ds) by apply rev_length.
  destruct (rev ds) as [|t r]; [cbn [length] in Hlen; lia|].
  cbn [shr_bits rev]. cbn [length] in Hlen.
  rewrite set_nth_app_last by (rewrite rev_length, shr_bits_length; lia).
  unfold u_or at 1 3. rewrite Z.lor_0_r.
  apply firstn_all2. rewrite app_length, rev_length, shr_bits_length. cbn [length]. lia.
Qed.

Lemma shr1_false w n ds : 2 <= w -> wf w n ds ->
  wf w n (shr_pad_internal w false ds 1) /\ uval w (shr_pad_internal w false ds 1) = uval w ds / 2.
Proof.
  intros Hw [Hl HF]. rewrite shr_pad1_false_eq by lia.
  destruct (shr_bits1_spec w (rev ds) Hw (Forall_rev HF) 0 ltac:(lia)) as (Hf & Hv).
  split.
  - split; [rewrite rev_length, shr_bits_length, rev_length; exact Hl | apply Forall_rev; exact Hf].
  - rewrite Hv, rev_involutive. f_equal; lia.
Qed.

Lemma shr1_true w n ds : 2 <= w -> (0 < n)%nat -> wf w n ds ->
  wf w n (shr_pad_internal w true ds 1) /\
  uval w (shr_pad_internal w true ds 1) = uval w ds / 2 + Mod w n / 2.
Proof.
  intros Hw Hn [Hl HF]. rewrite shr_pad1_true_eq by lia.
  destruct (shr_bits1_spec w (rev ds) Hw (Forall_rev HF) 1 ltac:(lia)) as (Hf & Hv).
  split.
  - split; [rewrite rev_length, shr_bits_length, rev_length; exact Hl | apply Forall_rev; exact Hf].
  - rewrite Hv, rev_involutive, rev_length, Hl.
    pose proof (Mod_even w n ltac:(lia) Hn) as E.
    set (K := Mod w n / 2) in *. rewrite E.
    replace (1 * (2 * K) + uval w ds) with (uval w ds + K * 2) by ring.
    rewrite Z.div_add by lia. reflexivity.
Qed.

(* Proofs/FloatCastTo.v — C14, integer -> float: cast_float_from_uint returns the round-to-nearest,
   ties-to-even float of the value; integer-only specification with a uniqueness lemma. *)
From Bnum Require Import Base Prim.
From Bnum.Model Require Import Digit Core Shift AddSub Bits FloatCast.
From Bnum.Proofs Require Import FloatCastDeps FloatCast.

(* ================= specification ================= *)

(* every finite float is an integer multiple of 2^(-fmin) (the smallest subnormal);
   f_num is that multiple for a non-negative finite pattern:  value = f_num * 2^(-fmin) *)
Definition fmin (F : ffmt) : Z := EXP_BIAS F + fp F - 2.
Definition f_num (F : ffmt) (y : Z) : Z := f_mant F y * 2 ^ (f_exp F y + fmin F).

Definition f_finite_nonneg (F : ffmt) (y : Z) : Prop := 0 <= y < F_INFINITY F.

(* y is the finite non-negative float nearest to X * 2^(-fmin), ties to the even mantissa *)
Definition rne_nearest (F : ffmt) (X y : Z) : Prop :=
  f_finite_nonneg F y /\
  (forall z, f_finite_nonneg F z -> Z.abs (f_num F y - X) <= Z.abs (f_num F z - X)) /\
  (forall z, f_finite_nonneg F z -> z <> y -> Z.abs (f_num F z - X) = Z.abs (f_num F y - X) ->
             Z.even (f_mant F y) = true).

(* first integer that rounds to infinity: max finite + half an ulp *)
Definition inf_threshold (F : ffmt) : Z := 2 ^ MAX_EXP F - 2 ^ (MAX_EXP F - fp F - 1).

Definition int_to_float_spec (F : ffmt) (X r : Z) : Prop :=
  (X = 0 -> r = 0) /\
  (0 < X < inf_threshold F -> rne_nearest F (X * 2 ^ fmin F) r) /\
  (inf_threshold F <= X -> r = F_INFINITY F) /\
  (0 < X -> bitlen X <= fp F -> f_finite_nonneg F r /\ f_num F r = X * 2 ^ fmin F).

(* ================= f_num in closed form, monotone, parity ================= *)

Lemma f_num_closed F E m : fmt_ok F -> 0 <= E < 2 ^ ebits F -> 0 <= m < 2 ^ (fp F - 1) ->
  f_num F (E * 2 ^ (fp F - 1) + m) =
  if E =? 0 then m else (2 ^ (fp F - 1) + m) * 2 ^ (E - 1).
Proof.
  intros Hok HE Hm.
  destruct (f_fields_of F 0 E m Hok ltac:(auto) HE Hm) as (R & E1 & E2 & E3).
  rewrite Z.mul_0_l, Z.add_0_l in *.
  unfold f_num, f_mant, f_exp, fmin. rewrite E1, E2.
  destruct (Z.eqb_spec E 0) as [->|HE0].
  - replace (1 - EXP_BIAS F - (fp F - 1) + (EXP_BIAS F + fp F - 2)) with 0 by lia.
    change (2 ^ 0) with 1. lia.
  - f_equal. f_equal. lia.
Qed.

Lemma pattern_decomp F y : fmt_ok F -> 0 <= y < 2 ^ (fbits F - 1) ->
  exists E m, y = E * 2 ^ (fp F - 1) + m /\ 0 <= E < 2 ^ ebits F /\ 0 <= m < 2 ^ (fp F - 1).
Proof.
  intros Hok Hy. destruct (fmt_pows F Hok) as (HP & HQ & HQP & _).
  rewrite HQP in Hy. set (P := 2 ^ (fp F - 1)) in *. set (Q := 2 ^ ebits F) in *.
  exists (y / P), (y mod P).
  pose proof (Z.div_mod y P ltac:(lia)). pose proof (Z.mod_pos_bound y P ltac:(lia)).
  split; [lia|]. split; [|lia]. split; [apply Z.div_pos; lia | apply Z.div_lt_upper_bound; lia].
Qed.

Lemma f_num_mono F y1 y2 : fmt_ok F -> 0 <= y1 -> y1 < y2 -> y2 < 2 ^ (fbits F - 1) ->
  f_num F y1 < f_num F y2.
Proof.
  intros Hok H1 H12 H2.
  destruct (pattern_decomp F y1 Hok ltac:(lia)) as (E1 & m1 & -> & HE1 & Hm1).
  destruct (pattern_decomp F y2 Hok ltac:(lia)) as (E2 & m2 & -> & HE2 & Hm2).
  rewrite !f_num_closed by assumption.
  destruct (fmt_pows F Hok) as (HP & _). set (P := 2 ^ (fp F - 1)) in *.
  assert (Hlex : E1 < E2 \/ (E1 = E2 /\ m1 < m2)) by nia.
  destruct Hlex as [Hlt | [-> Hlt]].
  - destruct (Z.eqb_spec E2 0) as [|_]; [lia|].
    pose proof (pow2_pos (E2 - 1) ltac:(lia)) as Hp2.
    destruct (Z.eqb_spec E1 0) as [|HE10].
    + nia.
    + assert (A : 2 ^ (E2 - 1) = 2 ^ (E1 - 1) * 2 ^ (E2 - E1)) by (rewrite <- pow2_split by lia; f_equal; lia).
      assert (A' : 2 ^ 1 <= 2 ^ (E2 - E1)) by (apply pow2_le; lia). change (2 ^ 1) with 2 in A'.
      pose proof (pow2_pos (E1 - 1) ltac:(lia)) as Hp1. rewrite A.
      set (u := 2 ^ (E1 - 1)) in *. set (v := 2 ^ (E2 - E1)) in *. nia.
  - destruct (Z.eqb_spec E2 0); [lia|]. pose proof (pow2_pos (E2 - 1) ltac:(lia)). nia.
Qed.

Lemma f_num_inj F y1 y2 : fmt_ok F -> 0 <= y1 < 2 ^ (fbits F - 1) -> 0 <= y2 < 2 ^ (fbits F - 1) ->
  f_num F y1 = f_num F y2 -> y1 = y2.
Proof.
  intros Hok H1 H2 He. destruct (Z.lt_trichotomy y1 y2) as [H|[H|H]]; [|assumption|].
  - pose proof (f_num_mono F y1 y2 Hok ltac:(lia) H ltac:(lia)). lia.
  - pose proof (f_num_mono F y2 y1 Hok ltac:(lia) H ltac:(lia)). lia.
Qed.

Lemma F_INFINITY_lt F : fmt_ok F -> 0 < F_INFINITY F < 2 ^ (fbits F - 1).
Proof.
  intros Hok. destruct (fmt_pows F Hok) as (HP & HQ & HQP & _ & _ & _ & Hinf & _).
  rewrite Hinf, HQP. nia.
Qed.

Lemma f_mant_parity F y : fmt_ok F -> 0 <= y < 2 ^ (fbits F - 1) -> Z.even (f_mant F y) = Z.even y.
Proof.
  intros Hok Hy. destruct (pattern_decomp F y Hok Hy) as (E & m & -> & HE & Hm).
  destruct (f_fields_of F 0 E m Hok ltac:(auto) HE Hm) as (R & E1 & E2 & E3).
  rewrite Z.mul_0_l, Z.add_0_l in *. unfold f_mant. rewrite E1, E2.
  pose proof Hok as (Hp & _).
  assert (HPe : 2 ^ (fp F - 1) = 2 * 2 ^ (fp F - 2)).
  { replace (fp F - 1) with (1 + (fp F - 2)) by lia. rewrite pow2_split by lia. reflexivity. }
  rewrite HPe.
  replace (E * (2 * 2 ^ (fp F - 2)) + m) with (m + 2 * (E * 2 ^ (fp F - 2))) by lia.
  rewrite Z.even_add_mul_2.
  destruct (E =? 0); [reflexivity|].
  replace (2 * 2 ^ (fp F - 2) + m) with (m + 2 * 2 ^ (fp F - 2)) by lia.
  apply Z.even_add_mul_2.
Qed.

(* ================= uniqueness of the nearest-even float ================= *)

Theorem rne_nearest_unique F X y1 y2 : fmt_ok F ->
  rne_nearest F X y1 -> rne_nearest F X y2 -> y1 = y2.
Proof.
  intros Hok (F1 & N1 & T1) (F2 & N2 & T2).
  pose proof (F_INFINITY_lt F Hok) as Hinf. unfold f_finite_nonneg in *.
  destruct (Z.eq_dec y1 y2) as [|Hne]; [assumption|exfalso].
  pose proof (N1 y2 F2) as A1. pose proof (N2 y1 F1) as A2.
  assert (Heq : Z.abs (f_num F y2 - X) = Z.abs (f_num F y1 - X)) by lia.
  pose proof (T1 y2 F2 ltac:(auto) Heq) as Ev1.
  pose proof (T2 y1 F1 ltac:(auto) (eq_sym Heq)) as Ev2.
  rewrite f_mant_parity in Ev1, Ev2 by (try assumption; lia).
  (* wlog on the order, by hand *)
  assert (Hgen : forall a b, 0 <= a -> a < b -> b < F_INFINITY F -> Z.even a = true -> Z.even b = true ->
             Z.abs (f_num F b - X) = Z.abs (f_num F a - X) ->
             (forall z, 0 <= z < F_INFINITY F -> Z.abs (f_num F a - X) <= Z.abs (f_num F z - X)) -> False).
  { intros a b Ha Hab Hb Ea Eb Habs Hmin.
    assert (Hb1 : a + 1 < b).
    { destruct (Z.eq_dec (a + 1) b) as [<-|]; [|lia].
      rewrite Z.even_add in Eb. rewrite Ea in Eb. discriminate. }
    pose proof (f_num_mono F a (a + 1) Hok ltac:(lia) ltac:(lia) ltac:(lia)).
    pose proof (f_num_mono F (a + 1) b Hok ltac:(lia) ltac:(lia) ltac:(lia)).
    pose proof (Hmin (a + 1) ltac:(lia)). lia. }
  destruct (Z.lt_trichotomy y1 y2) as [H|[H|H]]; [|contradiction|].
  - apply (Hgen y1 y2); auto; lia.
  - apply (Hgen y2 y1); auto; try lia.
Qed.

(* ================= buint_as_int (BUint -> u32/u64) ================= *)

Lemma buint_as_int_loop_spec mb w : 0 < w -> 0 < mb ->
  forall ds i out, Forall (digit_ok w) ds -> 0 <= i -> 0 <= out < 2 ^ (i * w) -> out < 2 ^ mb ->
  buint_as_int_loop mb w ds i out = (out + 2 ^ (i * w) * uval w ds) mod 2 ^ mb.
Proof.
  intros Hw Hmb. induction ds as [|d r IH]; intros i out Hds Hi Hout Hout2.
  - cbn [buint_as_int_loop uval]. rewrite Z.mul_0_r, Z.add_0_r. symmetry. apply Z.mod_small. lia.
  - inversion Hds as [|? ? Hd Hr]; subst. cbn [buint_as_int_loop uval].
    assert (Hiw : 0 <= i * w) by nia.
    pose proof (pow2_pos (i * w) Hiw) as HK. pose proof (pow2_pos mb ltac:(lia)) as HMB.
    destruct (Z.ltb_spec (i * w) mb) as [Hlt|Hge].
    + (* 2^mb = K * Km *)
      assert (Hsplit : 2 ^ mb = 2 ^ (mb - i * w) * 2 ^ (i * w)) by (rewrite <- pow2_split by lia; f_equal; lia).
      pose proof (pow2_pos (mb - i * w) ltac:(lia)) as HKm.
      set (K := 2 ^ (i * w)) in *. set (Km := 2 ^ (mb - i * w)) in *.
      assert (Ht : u_shl mb (d mod B mb) (i * w) = (d mod Km) * K).
      { unfold u_shl, B. fold K. rewrite Hsplit. rewrite Z.mul_mod_distr_r by lia. f_equal.
        rewrite Z.rem_mul_r by lia.
        rewrite (Z.mul_comm Km), Z.mod_add by lia. apply Z.mod_mod. lia. }
      rewrite Ht. unfold u_or.
      assert (Hl : Z.lor out (d mod Km * K) = d mod Km * K + out).
      { rewrite Z.lor_comm. unfold K. apply lor_mul_pow2_add; [lia | fold K; lia]. }
      rewrite Hl.
      unfold digit_ok, B in Hd.
      pose proof (Z.mod_pos_bound d Km HKm) as Hdm.
      assert (Hdle : d mod Km <= d) by (apply Z.mod_le; lia).
      assert (HK1 : 2 ^ ((i + 1) * w) = 2 ^ w * K).
      { unfold K. rewrite <- pow2_split by lia. f_equal. lia. }
      rewrite IH; try assumption; try lia.
      * rewrite HK1. fold K.
        (* out + (d mod Km) K + 2^w K U  ==  out + K (d + 2^w U)   (mod Km K) *)
        rewrite Hsplit.
        pose proof (Z.div_mod d Km ltac:(lia)) as Hdd.
        replace (out + K * (d + B w * uval w r)) with
          (d mod Km * K + out + 2 ^ w * K * uval w r + (d / Km) * (Km * K)) by (unfold B; nia).
        rewrite Z.mod_add by lia. reflexivity.
      * rewrite HK1. fold K. pose proof (pow2_pos w ltac:(lia)). nia.
      * rewrite Hsplit. nia.
    + (* the loop stops: the remaining digits are multiples of 2^mb *)
      assert (Hsplit : 2 ^ (i * w) = 2 ^ (i * w - mb) * 2 ^ mb) by (rewrite <- pow2_split by lia; f_equal; lia).
      rewrite Hsplit.
      replace (out + 2 ^ (i * w - mb) * 2 ^ mb * (d + B w * uval w r)) with
        (out + (2 ^ (i * w - mb) * (d + B w * uval w r)) * 2 ^ mb) by lia.
      rewrite Z.mod_add by lia. symmetry. apply Z.mod_small. lia.
Qed.

Lemma buint_as_int_spec mb w n ds : 0 < w -> 0 < mb -> wf w n ds ->
  buint_as_int mb w ds = uval w ds mod 2 ^ mb.
Proof.
  intros Hw Hmb [_ Hds]. unfold buint_as_int.
  assert (H0 : 2 ^ (0 * w) = 1) by (rewrite Z.mul_0_l; reflexivity).
  pose proof (pow2_pos mb ltac:(lia)).
  rewrite (buint_as_int_loop_spec mb w Hw Hmb ds 0 0 Hds ltac:(lia) ltac:(lia) ltac:(lia)).
  rewrite H0. f_equal. lia.
Qed.

(* ================= encoding: from_signed_parts on a normalised mantissa ================= *)

Lemma m_bit_testbit mb x i : 0 <= i < mb -> m_bit mb x i = Z.testbit x i.
Proof.
  intros Hi. unfold m_bit, u_and. rewrite u_shl_one by lia. rewrite land_pow2 by lia.
  pose proof (pow2_pos i ltac:(lia)).
  destruct (Z.testbit x i); [destruct (Z.eqb_spec (2 ^ i) 0); [lia | reflexivity] | reflexivity].
Qed.

Lemma from_signed_parts_ok dbg F e Mt : fmt_ok F ->
  2 ^ (fp F - 1) <= Mt < 2 ^ fp F -> 1 <= e + EXP_BIAS F < 2 ^ ebits F ->
  from_signed_parts dbg F false e Mt = Ret ((e + EXP_BIAS F) * 2 ^ (fp F - 1) + (Mt - 2 ^ (fp F - 1))).
Proof.
  intros Hok HMt HE.
  destruct (fmt_pows F Hok) as (HP & HQ & HQP & Hfb & HME & HME2 & Hinf & H2P).
  pose proof Hok as (Hp & He & Hmx). pose proof He as He'. unfold ebits in He'.
  set (E := e + EXP_BIAS F) in *.
  unfold from_signed_parts, from_signed_biased_parts. fold E.
  destruct (Z.ltb_spec E 0) as [|_]; [lia|]. rewrite andb_false_r.
  assert (HE32 : ud 32 E = E).
  { unfold ud, B. apply Z.mod_small. split; [lia|].
    eapply Z.lt_le_trans; [apply HE|]. apply pow2_le; lia. }
  rewrite HE32. unfold from_biased_parts.
  destruct (Z.eqb_spec E 0) as [|_]; [lia|]. rewrite andb_false_r.
  rewrite m_bit_testbit by lia.
  assert (Htb : Z.testbit Mt (fp F - 1) = true).
  { rewrite testbit_top by (try lia; replace (fp F - 1 + 1) with (fp F) by lia; lia).
    apply Z.leb_le. lia. }
  rewrite Htb. rewrite u_shl_one by lia. unfold u_xor. rewrite lxor_pow2_clear by (auto; lia).
  unfold from_raw_parts.
  assert (Hbl : bitlen (Mt - 2 ^ (fp F - 1)) <= fp F - 1) by (apply bitlen_le; lia).
  destruct (Z.leb_spec (bitlen (Mt - 2 ^ (fp F - 1))) (fp F - 1)) as [_|]; [|lia].
  cbn [negb]. rewrite andb_false_r.
  assert (Hsh : u_shl (fbits F) E (fp F - 1) = E * 2 ^ (fp F - 1)).
  { unfold u_shl, B. apply Z.mod_small. rewrite Hfb. nia. }
  rewrite Hsh. unfold u_or, f_from_bits. rewrite lor_mul_pow2_add by lia. reflexivity.
Qed.

(* ================= the dropped bits: half bit and sticky via trailing_zeros ================= *)

Lemma mod_pow2_split X s : 1 <= s ->
  X mod 2 ^ s = X mod 2 ^ (s - 1) + 2 ^ (s - 1) * ((X / 2 ^ (s - 1)) mod 2).
Proof.
  intros Hs. replace (2 ^ s) with (2 ^ (s - 1) * 2).
  - apply Z.rem_mul_r; [pose proof (pow2_pos (s - 1) ltac:(lia)); lia | lia].
  - replace s with ((s - 1) + 1) at 2 by lia. rewrite pow2_split by lia. reflexivity.
Qed.

Lemma half_bit_spec X s : 1 <= s -> Z.testbit X (s - 1) = (2 ^ (s - 1) <=? X mod 2 ^ s).
Proof.
  intros Hs. rewrite testbit_div_mod by lia. rewrite (mod_pow2_split X s Hs).
  pose proof (pow2_pos (s - 1) ltac:(lia)) as Hh.
  pose proof (Z.mod_pos_bound X (2 ^ (s - 1)) Hh) as Hlo.
  pose proof (Z.mod_pos_bound (X / 2 ^ (s - 1)) 2 ltac:(lia)) as Hb.
  destruct (Z.eqb_spec ((X / 2 ^ (s - 1)) mod 2) 1) as [H1|H1].
  - rewrite H1. symmetry. apply Z.leb_le. lia.
  - assert (H0 : (X / 2 ^ (s - 1)) mod 2 = 0) by lia. rewrite H0. symmetry. apply Z.leb_gt. lia.
Qed.

(* the count of trailing zeros is determined by its two defining facts *)
Lemma tz_unique X a b : 0 <= a -> 0 <= b ->
  X mod 2 ^ a = 0 -> (X / 2 ^ a) mod 2 = 1 -> X mod 2 ^ b = 0 -> (X / 2 ^ b) mod 2 = 1 -> a = b.
Proof.
  assert (Hgen : forall a b, 0 <= a -> a < b -> X mod 2 ^ b = 0 -> (X / 2 ^ a) mod 2 = 1 -> False).
  { clear a b. intros a b Ha Hab Hb Hodd.
    pose proof (pow2_pos a Ha) as Hpa. pose proof (pow2_pos b ltac:(lia)) as Hpb.
    apply Z.mod_divide in Hb; [|lia]. destruct Hb as [k Hk].
    assert (Hs : 2 ^ b = 2 ^ (b - a - 1) * 2 * 2 ^ a).
    { replace b with ((b - a - 1) + 1 + a) at 1 by lia. rewrite !pow2_split by lia. reflexivity. }
    assert (Hq : X / 2 ^ a = k * 2 ^ (b - a - 1) * 2).
    { rewrite Hk, Hs. replace (k * (2 ^ (b - a - 1) * 2 * 2 ^ a)) with (k * 2 ^ (b - a - 1) * 2 * 2 ^ a) by lia.
      apply Z.div_mul. lia. }
    rewrite Hq, Z.mod_mul in Hodd by lia. lia. }
  intros Ha Hb A1 A2 B1 B2. destruct (Z.lt_trichotomy a b) as [H|[H|H]]; [|assumption|].
  - exfalso. apply (Hgen a b); auto.
  - exfalso. apply (Hgen b a); auto.
Qed.

(* given the half bit is set: trailing_zeros = s-1  <->  the dropped part is exactly one half *)
Lemma sticky_spec X s t : 1 <= s -> 0 <= t -> X mod 2 ^ t = 0 -> (X / 2 ^ t) mod 2 = 1 ->
  2 ^ (s - 1) <= X mod 2 ^ s ->
  (t =? s - 1) = (X mod 2 ^ s =? 2 ^ (s - 1)).
Proof.
  intros Hs Ht T1 T2 Hhalf.
  pose proof (half_bit_spec X s Hs) as Hb. rewrite testbit_div_mod in Hb by lia.
  assert (Hbit : (X / 2 ^ (s - 1)) mod 2 = 1).
  { apply Z.eqb_eq. rewrite Hb. apply Z.leb_le. assumption. }
  pose proof (mod_pow2_split X s Hs) as Hsp. rewrite Hbit in Hsp.
  pose proof (pow2_pos (s - 1) ltac:(lia)) as Hh.
  pose proof (Z.mod_pos_bound X (2 ^ (s - 1)) Hh) as Hlo.
  destruct (Z.eqb_spec t (s - 1)) as [->|Hne]; destruct (Z.eqb_spec (X mod 2 ^ s) (2 ^ (s - 1))) as [He|He];
    try reflexivity.
  - lia.
  - exfalso. apply Hne. apply (tz_unique X t (s - 1)); try assumption; lia.
Qed.

(* ================= nearest-even from the two neighbouring floats ================= *)

Lemma f_num_mono_le F y1 y2 : fmt_ok F -> 0 <= y1 -> y1 <= y2 -> y2 < 2 ^ (fbits F - 1) ->
  f_num F y1 <= f_num F y2.
Proof.
  intros Hok H1 H12 H2. destruct (Z.eq_dec y1 y2) as [->|]; [lia|].
  pose proof (f_num_mono F y1 y2 Hok H1 ltac:(lia) H2). lia.
Qed.

Lemma rne_exact F X y : fmt_ok F -> f_finite_nonneg F y -> f_num F y = X -> rne_nearest F X y.
Proof.
  intros Hok Hy He. pose proof (F_INFINITY_lt F Hok) as Hinf. unfold f_finite_nonneg in *.
  split; [assumption|]. split.
  - intros z Hz. lia.
  - intros z Hz Hne Habs. unfold f_finite_nonneg in Hz. exfalso. apply Hne. apply (f_num_inj F z y Hok); lia.
Qed.

Lemma rne_between F X lo c : fmt_ok F -> 0 <= lo -> lo + 1 <= F_INFINITY F ->
  f_num F lo <= X <= f_num F (lo + 1) ->
  (c = 0 /\ (2 * (X - f_num F lo) < f_num F (lo + 1) - f_num F lo \/
             (2 * (X - f_num F lo) = f_num F (lo + 1) - f_num F lo /\ Z.even lo = true)))
  \/ (c = 1 /\ lo + 1 < F_INFINITY F /\
      (2 * (X - f_num F lo) > f_num F (lo + 1) - f_num F lo \/
       (2 * (X - f_num F lo) = f_num F (lo + 1) - f_num F lo /\ Z.even lo = false))) ->
  rne_nearest F X (lo + c).
Proof.
  intros Hok Hlo Hhi HX Hc. pose proof (F_INFINITY_lt F Hok) as Hinf.
  assert (Hbelow : forall z, 0 <= z -> z <= lo -> f_num F z <= f_num F lo)
    by (intros; apply f_num_mono_le; auto; lia).
  assert (Hbelow' : forall z, 0 <= z -> z < lo -> f_num F z < f_num F lo)
    by (intros; apply f_num_mono; auto; lia).
  assert (Habove : forall z, lo + 1 <= z -> z < F_INFINITY F -> f_num F (lo + 1) <= f_num F z)
    by (intros; apply f_num_mono_le; auto; lia).
  assert (Habove' : forall z, lo + 1 < z -> z < F_INFINITY F -> f_num F (lo + 1) < f_num F z)
    by (intros; apply f_num_mono; auto; lia).
  set (A := f_num F lo) in *. set (Bv := f_num F (lo + 1)) in *.
  unfold rne_nearest, f_finite_nonneg.
  destruct Hc as [(-> & Hd) | (-> & Hfin & Hd)].
  - rewrite Z.add_0_r. fold A. split; [lia|]. split.
    + intros z Hz. destruct (Z.le_gt_cases z lo) as [Hzl|Hzl].
      * pose proof (Hbelow z ltac:(lia) Hzl). lia.
      * pose proof (Habove z ltac:(lia) ltac:(lia)). lia.
    + intros z Hz Hne Habs. rewrite f_mant_parity by (auto; lia).
      destruct (Z.le_gt_cases z lo) as [Hzl|Hzl].
      * pose proof (Hbelow' z ltac:(lia) ltac:(lia)). lia.
      * pose proof (Habove z ltac:(lia) ltac:(lia)). destruct Hd as [Hd | [_ Hd]]; [lia | assumption].
  - fold Bv. split; [lia|]. split.
    + intros z Hz. destruct (Z.le_gt_cases z lo) as [Hzl|Hzl].
      * pose proof (Hbelow z ltac:(lia) Hzl). lia.
      * pose proof (Habove z ltac:(lia) ltac:(lia)). lia.
    + intros z Hz Hne Habs. rewrite f_mant_parity by (auto; lia).
      rewrite Z.even_add. change (Z.even 1) with false.
      destruct (Z.le_gt_cases z lo) as [Hzl|Hzl].
      * pose proof (Hbelow z ltac:(lia) Hzl). destruct Hd as [Hd | [_ Hd]]; [lia | rewrite Hd; reflexivity].
      * pose proof (Habove' z ltac:(lia) ltac:(lia)). lia.
Qed.

(* the float just below / at a p-bit quotient q with biased exponent E, and its successor *)
Lemma f_num_neighbours F E q : fmt_ok F -> 1 <= E -> E + 1 < 2 ^ ebits F ->
  2 ^ (fp F - 1) <= q < 2 ^ fp F ->
  let lo := E * 2 ^ (fp F - 1) + (q - 2 ^ (fp F - 1)) in
  f_num F lo = q * 2 ^ (E - 1) /\ f_num F (lo + 1) = (q + 1) * 2 ^ (E - 1) /\
  0 <= lo /\ lo + 1 <= F_INFINITY F /\
  (lo + 1 = F_INFINITY F <-> (E = 2 ^ ebits F - 2 /\ q = 2 ^ fp F - 1)) /\
  Z.even lo = Z.even q.
Proof.
  intros Hok HE1 HE2 Hq lo.
  destruct (fmt_pows F Hok) as (HP & HQ & HQP & Hfb & HME & HME2 & Hinf & H2P).
  pose proof Hok as (Hp & _).
  pose proof (f_num_closed F E (q - 2 ^ (fp F - 1)) Hok ltac:(lia) ltac:(lia)) as C1.
  fold lo in C1. destruct (Z.eqb_spec E 0) as [|_]; [lia|].
  replace (2 ^ (fp F - 1) + (q - 2 ^ (fp F - 1))) with q in C1 by lia.
  assert (C2 : f_num F (lo + 1) = (q + 1) * 2 ^ (E - 1)).
  { destruct (Z.eq_dec q (2 ^ fp F - 1)) as [Hqm|Hqm].
    - replace (lo + 1) with ((E + 1) * 2 ^ (fp F - 1) + 0) by (unfold lo; lia).
      rewrite f_num_closed by (auto; lia). destruct (Z.eqb_spec (E + 1) 0); [lia|].
      replace (E + 1 - 1) with (1 + (E - 1)) by lia. rewrite pow2_split by lia. change (2 ^ 1) with 2. lia.
    - replace (lo + 1) with (E * 2 ^ (fp F - 1) + (q + 1 - 2 ^ (fp F - 1))) by (unfold lo; lia).
      rewrite f_num_closed by (auto; lia). destruct (Z.eqb_spec E 0); [lia|]. f_equal. lia. }
  assert (HPe : 2 ^ (fp F - 1) = 2 * 2 ^ (fp F - 2)).
  { replace (fp F - 1) with (1 + (fp F - 2)) by lia. rewrite pow2_split by lia. reflexivity. }
  split; [assumption|]. split; [assumption|]. rewrite Hinf.
  set (P := 2 ^ (fp F - 1)) in *. set (Q := 2 ^ ebits F) in *.
  split; [unfold lo; nia|]. split; [unfold lo; nia|]. split.
  - unfold lo. split; [intros H; split; nia | intros [-> ->]; nia].
  - unfold lo. replace (E * P + (q - P)) with (q + 2 * ((E - 1) * 2 ^ (fp F - 2))) by (rewrite HPe; lia).
    apply Z.even_add_mul_2.
Qed.

(* ================= the threshold and the rounding step, over Z ================= *)

Lemma inf_threshold_facts F : fmt_ok F ->
  2 ^ (MAX_EXP F - 1) <= inf_threshold F < 2 ^ MAX_EXP F /\
  inf_threshold F = (2 ^ fp F - 1) * 2 ^ (MAX_EXP F - fp F) + 2 ^ (MAX_EXP F - fp F - 1) /\
  0 < 2 ^ (MAX_EXP F - 1).
Proof.
  intros (Hp & He & Hm). unfold inf_threshold.
  set (h := 2 ^ (MAX_EXP F - fp F - 1)).
  assert (Hh : 0 < h) by (apply pow2_pos; lia).
  assert (A1 : 2 ^ (MAX_EXP F - fp F) = 2 * h).
  { unfold h. change 2 with (2 ^ 1) at 2. rewrite <- pow2_split by lia. f_equal. lia. }
  assert (A2 : 2 ^ (MAX_EXP F - 1) = 2 ^ fp F * h).
  { unfold h. rewrite <- pow2_split by lia. f_equal. lia. }
  assert (A3 : 2 ^ MAX_EXP F = 2 ^ fp F * (2 * h)).
  { rewrite <- A1. rewrite <- pow2_split by lia. f_equal. lia. }
  pose proof (pow2_pos (fp F) ltac:(lia)) as Hpp.
  rewrite A1, A2, A3. set (pp := 2 ^ fp F) in *. clearbody pp h.
  assert (K : 1 * h <= pp * h) by (apply Z.mul_le_mono_nonneg_r; lia). lia.
Qed.

Lemma round_core q rem half s : 0 < s -> 0 < half -> 0 <= rem < 2 * half ->
  q * (2 * half * s) <= (q * (2 * half) + rem) * s <= (q + 1) * (2 * half * s) /\
  (rem < half -> 2 * ((q * (2 * half) + rem) * s - q * (2 * half * s)) < (q + 1) * (2 * half * s) - q * (2 * half * s)) /\
  (rem = half -> 2 * ((q * (2 * half) + rem) * s - q * (2 * half * s)) = (q + 1) * (2 * half * s) - q * (2 * half * s)) /\
  (half < rem -> 2 * ((q * (2 * half) + rem) * s - q * (2 * half * s)) > (q + 1) * (2 * half * s) - q * (2 * half * s)).
Proof.
  intros Hs Hh Hr.
  assert (R0 : 0 <= rem * s) by (apply Z.mul_nonneg_nonneg; lia).
  assert (R1 : rem * s < (2 * half) * s) by (apply Z.mul_lt_mono_pos_r; lia).
  split; [lia|]. split; [|split]; intros Hc.
  - assert (rem * s < half * s) by (apply Z.mul_lt_mono_pos_r; lia). lia.
  - subst rem. lia.
  - assert (half * s < rem * s) by (apply Z.mul_lt_mono_pos_r; lia). lia.
Qed.

Lemma quotient_bounds X L p : 1 <= p -> p <= L -> 2 ^ (L - 1) <= X < 2 ^ L ->
  2 ^ (p - 1) <= X / 2 ^ (L - p) < 2 ^ p.
Proof.
  intros Hp HL HX. pose proof (scaled_bounds_down X L (p - 1) ltac:(lia) HX ltac:(lia)) as H.
  replace (L - 1 - (p - 1)) with (L - p) in H by lia. replace (p - 1 + 1) with p in H by lia. exact H.
Qed.

(* ================= the rounding case, over Z ================= *)

(* X = q * 2 half + rem against the threshold (2^p - 1) * 2 half + half, all atoms *)
Lemma threshold_core X q rem half pp T c lo INF :
  0 < half -> 0 <= rem < 2 * half -> X = q * (2 * half) + rem -> q <= pp - 1 ->
  T = (pp - 1) * (2 * half) + half ->
  (lo + 1 = INF <-> q = pp - 1) -> lo + 1 <= INF ->
  (c = 1 <-> (half < rem \/ (rem = half /\ Z.odd q = true))) ->
  Z.odd (pp - 1) = true ->
  (T <= X /\ c = 1 /\ lo + 1 = INF) \/ (X < T /\ (c = 1 -> lo + 1 < INF)).
Proof.
  intros Hh Hr HX Hq HT Hiff Hle Hc Hodd.
  destruct (Z.eq_dec q (pp - 1)) as [Hqm|Hqm].
  - destruct (Z.le_gt_cases half rem) as [Hge|Hlt].
    + left. split; [rewrite HT, HX, Hqm; lia|]. split; [|apply Hiff; assumption].
      apply Hc. destruct (Z.eq_dec rem half) as [He|He]; [right; split; [assumption|rewrite Hqm; assumption] | left; lia].
    + right. split; [rewrite HT, HX, Hqm; lia|]. intros Hc1. apply Hc in Hc1. lia.
  - right. split.
    + rewrite HT, HX. assert (q + 1 <= pp - 1) by lia.
      assert ((q + 1) * (2 * half) <= (pp - 1) * (2 * half)) by (apply Z.mul_le_mono_nonneg_r; lia). lia.
    + intros _. assert (lo + 1 <> INF) by (intros Hx; apply Hiff in Hx; lia). lia.
Qed.

Lemma round_case_spec F X L c : fmt_ok F -> fp F < L -> L - 1 < MAX_EXP F -> 2 ^ (L - 1) <= X < 2 ^ L ->
  (c = 0 \/ c = 1) ->
  (c = 1 <-> (2 ^ (L - fp F - 1) < X mod 2 ^ (L - fp F) \/
              (X mod 2 ^ (L - fp F) = 2 ^ (L - fp F - 1) /\ Z.odd (X / 2 ^ (L - fp F)) = true))) ->
  int_to_float_spec F X
    ((L - 1 + EXP_BIAS F) * 2 ^ (fp F - 1) + (X / 2 ^ (L - fp F) - 2 ^ (fp F - 1)) + c).
Proof.
  intros Hok HpL HLe HX Hc01 Hc.
  destruct (fmt_pows F Hok) as (HP & HQ & _ & _ & HME & HME2 & _ & H2P).
  pose proof Hok as (Hp & He & Hmx).
  destruct (inf_threshold_facts F Hok) as (HT1 & HT3 & HT4).
  pose proof (quotient_bounds X L (fp F) ltac:(lia) ltac:(lia) HX) as Hq.
  assert (HbX : bitlen X = L) by (apply bitlen_unique; lia).
  assert (Hpos : 0 < X) by (pose proof (pow2_pos (L - 1) ltac:(lia)); lia).
  assert (HLpow : L < MAX_EXP F -> 2 ^ L <= 2 ^ (MAX_EXP F - 1)) by (intros; apply pow2_le; lia).
  assert (Hsh2 : 2 ^ (L - fp F) = 2 * 2 ^ (L - fp F - 1)).
  { change 2 with (2 ^ 1) at 2. rewrite <- pow2_split by lia. f_equal. lia. }
  assert (Hhalf : 0 < 2 ^ (L - fp F - 1)) by (apply pow2_pos; lia).
  pose proof (Z.div_mod X (2 ^ (L - fp F)) ltac:(lia)) as HXd.
  pose proof (Z.mod_pos_bound X (2 ^ (L - fp F)) ltac:(lia)) as Hrem.
  assert (HE : 1 <= L - 1 + EXP_BIAS F /\ L - 1 + EXP_BIAS F + 1 < 2 ^ ebits F) by (unfold EXP_BIAS; lia).
  destruct (f_num_neighbours F (L - 1 + EXP_BIAS F) (X / 2 ^ (L - fp F)) Hok ltac:(lia) ltac:(lia) Hq)
    as (N1 & N2 & Nlo & Nhi & Niff & Npar).
  assert (Hs : 0 < 2 ^ fmin F) by (apply pow2_pos; unfold fmin, EXP_BIAS; lia).
  assert (HD : 2 ^ (L - 1 + EXP_BIAS F - 1) = 2 * 2 ^ (L - fp F - 1) * 2 ^ fmin F).
  { rewrite <- Hsh2. rewrite <- pow2_split by (unfold fmin, EXP_BIAS; lia). f_equal. unfold fmin. lia. }
  rewrite HD in N1, N2.
  assert (Hodd : Z.odd (2 ^ fp F - 1) = true).
  { rewrite <- H2P. replace (2 * 2 ^ (fp F - 1) - 1) with (1 + 2 * (2 ^ (fp F - 1) - 1)) by lia.
    rewrite Z.odd_add_mul_2. reflexivity. }
  assert (HT3' : L = MAX_EXP F ->
             inf_threshold F = (2 ^ fp F - 1) * (2 * 2 ^ (L - fp F - 1)) + 2 ^ (L - fp F - 1)).
  { intros HLm. rewrite <- Hsh2. rewrite HLm. exact HT3. }
  assert (HNiff' : L = MAX_EXP F ->
     ((L - 1 + EXP_BIAS F) * 2 ^ (fp F - 1) + (X / 2 ^ (L - fp F) - 2 ^ (fp F - 1)) + 1 = F_INFINITY F
      <-> X / 2 ^ (L - fp F) = 2 ^ fp F - 1)).
  { intros HLm. rewrite Niff. unfold EXP_BIAS. split; [intros [_ H]; exact H | intros H; split; [clear - HLm HME; lia | exact H]]. }
  assert (HNfin : L <> MAX_EXP F ->
     (L - 1 + EXP_BIAS F) * 2 ^ (fp F - 1) + (X / 2 ^ (L - fp F) - 2 ^ (fp F - 1)) + 1 <> F_INFINITY F).
  { intros HLm Hx. apply Niff in Hx. unfold EXP_BIAS in Hx. clear - HLm Hx HME HLe. lia. }
  unfold int_to_float_spec.
  (* make everything atomic *)
  set (lo := (L - 1 + EXP_BIAS F) * 2 ^ (fp F - 1) + (X / 2 ^ (L - fp F) - 2 ^ (fp F - 1))) in *.
  set (q := X / 2 ^ (L - fp F)) in *. set (rem := X mod 2 ^ (L - fp F)) in *.
  set (tw := 2 ^ (L - fp F)) in *.
  set (half := 2 ^ (L - fp F - 1)) in *. set (s := 2 ^ fmin F) in *.
  set (T := inf_threshold F) in *. set (INF := F_INFINITY F) in *. set (pp := 2 ^ fp F) in *.
  set (A := f_num F lo) in *. set (Bv := f_num F (lo + 1)) in *.
  clear Niff HD HT3 HE.
  pose proof (rne_between F (X * s) lo c Hok Nlo Nhi) as Hrne. fold A Bv INF in Hrne.
  clearbody lo q rem tw half s T INF pp A Bv.
  assert (HXd' : X = q * (2 * half) + rem) by (rewrite <- Hsh2; lia).
  clear HXd. rewrite Hsh2 in Hrem.
  destruct (round_core q rem half s Hs Hhalf Hrem) as (R0 & R1 & R2 & R3).
  rewrite <- HXd' in R0, R1, R2, R3. rewrite <- N1, <- N2 in R0, R1, R2, R3.
  assert (Hthr : (T <= X /\ c = 1 /\ lo + 1 = INF) \/ (X < T /\ (c = 1 -> lo + 1 < INF))).
  { destruct (Z.eq_dec L (MAX_EXP F)) as [HLm|HLm].
    - apply (threshold_core X q rem half pp T c lo INF); auto; lia.
    - right. specialize (HNfin HLm). specialize (HLpow ltac:(lia)). clear - HNfin HLpow HX HT1 Nhi. split; lia. }
  clear HT3' HNiff' HNfin HLpow HT1 HT4 HME HME2 Hmx He HQ HP H2P Hodd N1 N2.
  split; [lia|]. split; [|split].
  - intros HXT. destruct Hthr as [(Hge & _)|(Hlt & Hfin)]; [lia|].
    apply Hrne; [exact R0|].
    destruct Hc01 as [Hc0|Hc1].
    + left. split; [assumption|].
      destruct (Z.lt_trichotomy rem half) as [Hl|[Heq|Hg]].
      * left. apply R1. assumption.
      * right. split; [apply R2; assumption|]. rewrite Npar.
        destruct (Z.odd q) eqn:Ho.
        { assert (c = 1) by (apply Hc; right; auto). lia. }
        rewrite <- Z.negb_odd, Ho. reflexivity.
      * assert (c = 1) by (apply Hc; left; lia). lia.
    + right. split; [assumption|]. split; [apply Hfin; assumption|].
      apply Hc in Hc1. destruct Hc1 as [Hg | [Heq Ho]].
      * left. apply R3. assumption.
      * right. split; [apply R2; assumption|]. rewrite Npar, <- Z.negb_odd, Ho. reflexivity.
  - intros HXT. destruct Hthr as [(_ & -> & Hinf)|(Hlt & _)]; [assumption | lia].
  - intros _ Hbl. lia.
Qed.

(* ================= the other two cases, over Z ================= *)

Lemma big_exponent_spec F X L : fmt_ok F -> 2 ^ (L - 1) <= X -> bitlen X = L -> MAX_EXP F <= L - 1 ->
  int_to_float_spec F X (F_INFINITY F).
Proof.
  intros Hok HX HbX HL. destruct (inf_threshold_facts F Hok) as ((HT1a & HT1b) & _ & HT4).
  pose proof Hok as (Hp & He & Hmx).
  assert (2 ^ MAX_EXP F <= 2 ^ (L - 1)) by (apply pow2_le; lia).
  unfold int_to_float_spec.
  split; [intros; lia|]. split; [intros; lia|]. split; [intros; reflexivity|]. intros _ Hbl. lia.
Qed.

Lemma exact_case_spec F X L : fmt_ok F -> 1 <= L <= fp F -> 2 ^ (L - 1) <= X < 2 ^ L ->
  2 ^ (fp F - 1) <= X * 2 ^ (fp F - L) < 2 ^ fp F /\
  int_to_float_spec F X
    ((L - 1 + EXP_BIAS F) * 2 ^ (fp F - 1) + (X * 2 ^ (fp F - L) - 2 ^ (fp F - 1))).
Proof.
  intros Hok HL HX.
  destruct (fmt_pows F Hok) as (HP & HQ & _ & _ & HME & HME2 & Hinf & H2P).
  pose proof Hok as (Hp & He & Hmx).
  destruct (inf_threshold_facts F Hok) as ((HT1a & HT1b) & _ & HT4).
  assert (A1 : 2 ^ (fp F - 1) = 2 ^ (L - 1) * 2 ^ (fp F - L)) by (rewrite <- pow2_split by lia; f_equal; lia).
  assert (A2 : 2 ^ fp F = 2 ^ L * 2 ^ (fp F - L)) by (rewrite <- pow2_split by lia; f_equal; lia).
  pose proof (pow2_pos (fp F - L) ltac:(lia)) as Hk.
  assert (HMt : 2 ^ (fp F - 1) <= X * 2 ^ (fp F - L) < 2 ^ fp F).
  { rewrite A1, A2. split; [apply Z.mul_le_mono_nonneg_r; lia | apply Z.mul_lt_mono_pos_r; lia]. }
  split; [exact HMt|].
  assert (HE : 1 <= L - 1 + EXP_BIAS F /\ L - 1 + EXP_BIAS F + 2 < 2 ^ ebits F) by (unfold EXP_BIAS; lia).
  pose proof (f_num_closed F (L - 1 + EXP_BIAS F) (X * 2 ^ (fp F - L) - 2 ^ (fp F - 1)) Hok ltac:(lia) ltac:(lia)) as C.
  destruct (Z.eqb_spec (L - 1 + EXP_BIAS F) 0) as [|_]; [lia|].
  replace (2 ^ (fp F - 1) + (X * 2 ^ (fp F - L) - 2 ^ (fp F - 1))) with (X * 2 ^ (fp F - L)) in C by lia.
  assert (HD : 2 ^ (fp F - L) * 2 ^ (L - 1 + EXP_BIAS F - 1) = 2 ^ fmin F).
  { rewrite <- pow2_split by (unfold EXP_BIAS; lia). f_equal. unfold fmin. lia. }
  rewrite <- Z.mul_assoc, HD in C.
  assert (Hpos : 0 < X) by (pose proof (pow2_pos (L - 1) ltac:(lia)); lia).
  assert (HXT : X < inf_threshold F).
  { assert (2 ^ L <= 2 ^ (MAX_EXP F - 1)) by (apply pow2_le; lia). lia. }
  set (r := (L - 1 + EXP_BIAS F) * 2 ^ (fp F - 1) + (X * 2 ^ (fp F - L) - 2 ^ (fp F - 1))) in *.
  assert (Hfin : f_finite_nonneg F r).
  { unfold f_finite_nonneg. rewrite Hinf. unfold r.
    set (P := 2 ^ (fp F - 1)) in *. set (Q := 2 ^ ebits F) in *. set (E := L - 1 + EXP_BIAS F) in *.
    clearbody P Q E. clear - HMt HE HP H2P. split; nia. }
  unfold int_to_float_spec.
  split; [intros; lia|]. split; [intros _; apply rne_exact; assumption|]. split; [intros; lia|].
  intros _ _. split; assumption.
Qed.

(* ================= integer -> float: the model meets the specification ================= *)

Theorem cast_float_from_uint_ok dbg F w n a :
  shr_pad_internal_spec -> bits_of_spec -> trailing_zeros_spec -> bit_spec ->
  fmt_ok F -> 0 < w -> wf w n a ->
  exists r, cast_float_from_uint dbg F w a = Ret r /\ int_to_float_spec F (uval w a) r.
Proof.
  intros Hshr Hbits Htz Hbit Hok Hw Ha.
  pose proof (uval_bounds w n a ltac:(lia) Ha) as HX.
  pose proof Hok as (Hp & He & Hmx). pose proof He as He'. unfold ebits in He'.
  destruct (fmt_pows F Hok) as (HPP & _ & _ & _ & HME & HME2 & _ & H2P).
  unfold cast_float_from_uint. rewrite (Hbits w n a Hw Ha).
  pose proof (Htz w n a Hw Ha) as Htz'. pose proof (Hbit w n a) as Hbit'. pose proof (Hshr w n a) as Hshr'.
  pose proof (buint_as_int_spec (fbits F) w n a Hw ltac:(lia) Ha) as Hcast.
  set (X := uval w a) in *.
  destruct (Z.eq_dec X 0) as [HX0|HX0].
  - rewrite HX0. change (bitlen 0) with 0. rewrite Z.eqb_refl. exists F_ZERO. split; [reflexivity|].
    destruct (inf_threshold_facts F Hok) as ((HT1a & HT1b) & _ & HT4).
    unfold int_to_float_spec, F_ZERO. split; [intros; reflexivity|]. split; [intros; lia|]. split; intros; lia.
  - assert (Hpos : 0 < X) by lia.
    pose proof (bitlen_bounds X Hpos) as HLb. pose proof (bitlen_pos X Hpos) as HL1.
    assert (HLbits : bitlen X <= bits w n).
    { apply bitlen_le; [unfold bits; nia | exact HX]. }
    remember (bitlen X) as L eqn:HbX. symmetry in HbX.
    destruct (Z.eqb_spec L 0) as [|_]; [lia|].
    destruct (Z.ltb_spec i32_max (L - 1)) as [Hbig|Hsmall].
    { exists (F_INFINITY F). split; [reflexivity|]. apply (big_exponent_spec F X L Hok); try lia.
      assert (MAX_EXP F <= 2 ^ 30) by (unfold MAX_EXP; apply pow2_le; lia).
      unfold i32_max in Hbig. lia. }
    destruct (Z.leb_spec (MAX_EXP F) (L - 1)) as [Hbig|HLe].
    { exists (F_INFINITY F). split; [reflexivity|]. apply (big_exponent_spec F X L Hok); lia. }
    assert (Hmbp : 2 * 2 ^ fp F <= 2 ^ fbits F).
    { change 2 with (2 ^ 1) at 1. rewrite <- pow2_split by lia. apply pow2_le; lia. }
    pose proof (pow2_pos (fp F) ltac:(lia)) as Hpp0.
    assert (Hp1 : 2 ^ (fp F + 1) = 2 * 2 ^ fp F) by (rewrite pow2_split by lia; change (2 ^ 1) with 2; lia).
    destruct (Z.leb_spec L (fp F)) as [HLp|HLp].
    + (* exact *)
      destruct (exact_case_spec F X L Hok ltac:(lia) HLb) as (HMt & Hspec).
      assert (HXp : X < 2 ^ fp F).
      { eapply Z.lt_le_trans; [apply HLb|]. apply pow2_le; lia. }
      rewrite Hcast, (Z.mod_small X) by lia.
      assert (Hsh : u_shl (fbits F) X (fp F - L) = X * 2 ^ (fp F - L)).
      { unfold u_shl, B. apply Z.mod_small. pose proof (pow2_pos (fp F - 1) ltac:(lia)). lia. }
      rewrite Hsh.
      rewrite from_signed_parts_ok by (auto; unfold EXP_BIAS; lia).
      eexists. split; [reflexivity|]. exact Hspec.
    + (* rounding *)
      pose proof (quotient_bounds X L (fp F) ltac:(lia) ltac:(lia) HLb) as Hq.
      rewrite (Hbit' (L - fp F - 1) Hw Ha ltac:(lia)). cbn [obind].
      destruct (U_shr_ok dbg w n a (L - fp F) Hshr Hw Ha ltac:(lia)) as (sd & Hsd & Swf & Su).
      rewrite Hsd. cbn [obind].
      rewrite (buint_as_int_spec (fbits F) w n sd Hw ltac:(lia) Swf), Su. fold X.
      rewrite (Z.mod_small (X / 2 ^ (L - fp F))) by lia.
      rewrite m_bit_testbit by lia. rewrite Z.bit0_odd.
      rewrite (half_bit_spec X (L - fp F)) by lia.
      destruct (Htz' HX0) as (T0 & T1 & T2).
      pose proof (sticky_spec X (L - fp F) (trailing_zeros w a) ltac:(lia) T0 T1 T2) as Hst.
      clear Hbit' Hshr' Htz' Hcast T1 T2 Hsd Su Swf.
      set (q := X / 2 ^ (L - fp F)) in *. set (rem := X mod 2 ^ (L - fp F)) in *.
      set (tzv := trailing_zeros w a) in *.
      (* the decision *)
      set (up := (2 ^ (L - fp F - 1) <=? rem) && (Z.odd q || negb (tzv =? L - fp F - 1))).
      assert (Hup : up = true <-> (2 ^ (L - fp F - 1) < rem \/ (rem = 2 ^ (L - fp F - 1) /\ Z.odd q = true))).
      { unfold up. destruct (Z.leb_spec (2 ^ (L - fp F - 1)) rem) as [Hge|Hlt]; cbn [andb].
        - specialize (Hst Hge). rewrite Hst.
          destruct (Z.eqb_spec rem (2 ^ (L - fp F - 1))) as [Heq|Hne]; cbn [negb]; rewrite ?orb_false_r, ?orb_true_r.
          + split; [intros Ho; right; auto | intros [Hc | [_ Hc]]; [lia | exact Hc]].
          + split; [intros _; left; lia | reflexivity].
        - split; [discriminate | intros [Hc | [Hc _]]; lia]. }
      fold up.
      set (lo := (L - 1 + EXP_BIAS F) * 2 ^ (fp F - 1) + (q - 2 ^ (fp F - 1))).
      assert (Hres : exists c, (c = 0 \/ c = 1) /\ (c = 1 <-> up = true) /\
                (if up then
                   obind (m_add dbg (fbits F) q 1) (fun sm =>
                     if m_bit (fbits F) sm (fp F) then from_signed_parts dbg F false (L - 1 + 1) (u_shr sm 1)
                     else from_signed_parts dbg F false (L - 1) sm)
                 else from_signed_parts dbg F false (L - 1) q) = Ret (lo + c)).
      { destruct up.
        - exists 1. split; [auto|]. split; [tauto|].
          unfold m_add. destruct (Z.leb_spec (B (fbits F)) (q + 1)) as [Hov|_]; [unfold B in Hov; lia|].
          rewrite andb_false_r. unfold B. rewrite Z.mod_small by lia. cbn [obind].
          rewrite m_bit_testbit by lia. rewrite testbit_top by lia.
          destruct (Z.leb_spec (2 ^ fp F) (q + 1)) as [Hcarry|Hnc].
          + assert (Hq1 : q + 1 = 2 ^ fp F) by lia.
            assert (Hsr : u_shr (q + 1) 1 = 2 ^ (fp F - 1)).
            { unfold u_shr. rewrite Hq1. change (2 ^ 1) with 2.
              replace (2 ^ fp F) with (2 ^ (fp F - 1) * 2) by (rewrite Z.mul_comm; change 2 with (2 ^ 1) at 1; rewrite <- pow2_split by lia; f_equal; lia).
              apply Z.div_mul. lia. }
            rewrite Hsr. rewrite from_signed_parts_ok; auto.
            * f_equal. unfold lo. assert (Hqe : q = 2 * 2 ^ (fp F - 1) - 1).
              { assert (2 * 2 ^ (fp F - 1) = 2 ^ fp F) by (change 2 with (2 ^ 1) at 1; rewrite <- pow2_split by lia; f_equal; lia). lia. }
              rewrite Hqe. ring.
            * assert (2 * 2 ^ (fp F - 1) = 2 ^ fp F) by (change 2 with (2 ^ 1) at 1; rewrite <- pow2_split by lia; f_equal; lia).
              pose proof (pow2_pos (fp F - 1) ltac:(lia)). lia.
            * unfold EXP_BIAS. lia.
          + rewrite from_signed_parts_ok; auto.
            * f_equal. unfold lo. ring.
            * lia.
            * unfold EXP_BIAS. lia.
        - exists 0. split; [auto|]. split; [split; [lia | discriminate]|].
          rewrite from_signed_parts_ok; auto.
          + f_equal. unfold lo. ring.
          + unfold EXP_BIAS. lia. }
      destruct Hres as (c & Hc01 & Hcup & Hret).
      exists (lo + c). split; [exact Hret|].
      apply (round_case_spec F X L c Hok HLp ltac:(lia) HLb Hc01).
      rewrite Hcup. exact Hup.
Qed.

(* ================= signed integer -> float ================= *)

Lemma int_to_float_spec_range F X r : fmt_ok F -> 0 <= X -> int_to_float_spec F X r ->
  0 <= r <= F_INFINITY F.
Proof.
  intros Hok HX (S1 & S2 & S3 & _). pose proof (F_INFINITY_lt F Hok) as Hinf.
  destruct (Z.eq_dec X 0) as [H0|H0]; [rewrite (S1 H0); lia|].
  destruct (Z.lt_ge_cases X (inf_threshold F)) as [Hlt|Hge].
  - destruct (S2 ltac:(lia)) as (Hfin & _). unfold f_finite_nonneg in Hfin. lia.
  - rewrite (S3 Hge). lia.
Qed.

Theorem I_to_float_ok dbg F w n a :
  shr_pad_internal_spec -> bits_of_spec -> trailing_zeros_spec -> bit_spec ->
  I_overflowing_neg_spec -> is_negative_spec ->
  fmt_ok F -> 0 < w -> (0 < n)%nat -> wf w n a ->
  exists f, I_to_float dbg F w a = Ret (if sval w a <? 0 then f + 2 ^ (fbits F - 1) else f) /\
            int_to_float_spec F (Z.abs (sval w a)) f.
Proof.
  intros Hshr Hbits Htz Hbit Hneg Hisneg Hok Hw Hn Ha.
  pose proof (uval_bounds w n a ltac:(lia) Ha) as HU.
  pose proof (Mod_pos w n ltac:(lia)) as HM. pose proof (Mod_even w n Hw Hn) as HMe.
  pose proof (F_INFINITY_lt F Hok) as Hinf.
  unfold I_to_float, U_to_float, I_unsigned_abs. rewrite (Hisneg w n a Hw Hn Ha).
  unfold sval. rewrite (wf_length _ _ _ Ha). unfold to_signed.
  destruct (Z.leb_spec (Mod w n / 2) (uval w a)) as [Hge|Hlt].
  - destruct (Z.ltb_spec (uval w a) (Mod w n / 2)) as [|_]; [lia|].
    destruct (Hneg w n a Hw Hn Ha) as (Rwf & Ru & _). unfold I_wrapping_neg.
    destruct (cast_float_from_uint_ok dbg F w n _ Hshr Hbits Htz Hbit Hok Hw Rwf) as (r & Hr & Hspec).
    rewrite Hr. cbn [obind].
    assert (Hval : uval w (fst (I_overflowing_neg w a)) = Z.abs (uval w a - Mod w n)).
    { rewrite Ru. replace (- uval w a) with (Mod w n - uval w a + (-1) * Mod w n) by lia.
      rewrite Z.mod_add by lia. rewrite Z.mod_small by lia. lia. }
    rewrite Hval in Hspec.
    pose proof (int_to_float_spec_range F _ r Hok (Z.abs_nonneg _) Hspec) as Hrr.
    destruct (Z.ltb_spec (uval w a - Mod w n) 0) as [_|]; [|lia].
    exists r. split; [|exact Hspec]. f_equal.
    pose proof Hok as (Hp & He & _). unfold ebits in He.
    assert (Hrb : 0 <= r < 2 ^ fbits F).
    { split; [lia|]. assert (2 ^ (fbits F - 1) < 2 ^ fbits F) by (apply pow2_lt; lia). lia. }
    destruct (f_neg_fields F r Hok Hrb) as (_ & _ & _ & _ & Hn').
    unfold f_sign in Hn'. destruct (Z.leb_spec (2 ^ (fbits F - 1)) r); [lia | exact Hn'].
  - destruct (Z.ltb_spec (uval w a) (Mod w n / 2)) as [_|]; [|lia].
    destruct (cast_float_from_uint_ok dbg F w n a Hshr Hbits Htz Hbit Hok Hw Ha) as (r & Hr & Hspec).
    rewrite Hr. cbn [obind].
    destruct (Z.ltb_spec (uval w a) 0) as [|_]; [lia|].
    exists r. split; [reflexivity|]. rewrite Z.abs_eq by lia. exact Hspec.
Qed.

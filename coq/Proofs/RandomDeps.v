(* Proofs/RandomDeps.v — facts about functions modelled in OTHER files (Mul, Div, Shift, Bits, AddSub,
   Core) that the C20 theorems use.  They are being proved by the owners of C01/C02/C03/C05/C06/C07 and
   are taken here as EXPLICIT PREMISES: each is a closed `Definition .._spec : Prop`, and every theorem
   that needs one has it as a hypothesis (`x_spec -> ...`).  Nothing here is assumed globally. *)
From Bnum Require Import Base Prim.
From Bnum.Model Require Import Digit Core Shift AddSub Mul Div Bits.

(* C02: widening_mul returns the low and the high half of the exact product *)
Definition widening_mul_spec : Prop :=
  forall w n a b, 0 < w -> wf w n a -> wf w n b ->
    wf w n (fst (U_widening_mul w a b)) /\ wf w n (snd (U_widening_mul w a b)) /\
    uval w (fst (U_widening_mul w a b)) + Mod w n * uval w (snd (U_widening_mul w a b)) = uval w a * uval w b.

(* C01: wrapping add / sub on the bit pattern *)
Definition wrapping_add_spec : Prop :=
  forall w n a b, 0 < w -> wf w n a -> wf w n b ->
    wf w n (U_wrapping_add w a b) /\ uval w (U_wrapping_add w a b) = (uval w a + uval w b) mod Mod w n.
Definition wrapping_sub_spec : Prop :=
  forall w n a b, 0 < w -> wf w n a -> wf w n b ->
    wf w n (U_wrapping_sub w a b) /\ uval w (U_wrapping_sub w a b) = (uval w a - uval w b) mod Mod w n.
(* C01: the digits produced by the signed subtraction loop are those of the wrapping difference *)
Definition I_overflowing_sub_spec : Prop :=
  forall w n a b, 0 < w -> wf w n a -> wf w n b ->
    wf w n (fst (I_overflowing_sub w a b)) /\
    uval w (fst (I_overflowing_sub w a b)) = (uval w a - uval w b) mod Mod w n.

(* C07: comparisons *)
Definition ucmp_spec : Prop :=
  forall w n a b, 0 < w -> wf w n a -> wf w n b -> ucmp a b = (uval w a ?= uval w b).
Definition icmp_spec : Prop :=
  forall w n a b, 0 < w -> (0 < n)%nat -> wf w n a -> wf w n b -> icmp w a b = (sval w a ?= sval w b).

(* C03: remainder *)
Definition rem_spec : Prop :=
  forall w n a b, 0 < w -> wf w n a -> wf w n b -> uval w b <> 0 ->
    exists r, U_rem w a b = Ret r /\ wf w n r /\ uval w r = uval w a mod uval w b.

(* C05: left shift by less than BITS *)
Definition shl_spec : Prop :=
  forall w n a k, 0 < w -> wf w n a -> 0 <= k < bits w n ->
    wf w n (shl_internal w a k) /\ uval w (shl_internal w a k) = (uval w a * 2 ^ k) mod Mod w n.

(* C06: leading_zeros *)
Definition leading_zeros_spec : Prop :=
  forall w n a, 0 < w -> wf w n a -> leading_zeros w a = bits w n - bitlen (uval w a).

(* C01: the borrow / overflow flags of subtraction (used only for panic-freedom in debug builds) *)
Definition U_overflowing_sub_flag_spec : Prop :=
  forall w n a b, 0 < w -> wf w n a -> wf w n b ->
    snd (U_overflowing_sub w a b) = (uval w a <? uval w b).
Definition I_overflowing_sub_flag_spec : Prop :=
  forall w n a b, 0 < w -> (0 < n)%nat -> wf w n a -> wf w n b ->
    snd (I_overflowing_sub w a b) = negb (inS (Mod w n) (sval w a - sval w b)).

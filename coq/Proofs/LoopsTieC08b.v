(* Proofs/LoopsTieC08b.v — integer logarithms: src/buint/checked.rs checked_ilog2, iilog (recursive), checked_ilog10,
   checked_ilog.  Part of the tie between the functions GENERATED from /repo/src on every run (Generated/Loops.v, by
   tools/rs2v_loops.py) and the hand-written model (Model/Pow.v).  The recursion of iilog is on the explicit budget in
   both (one unit per nested call), so Loops.iilog and Pow.iilog agree for EVERY budget, budget exhaustion included;
   the callers are related for every budget that covers the loops (N) and the model's own ilog_fuel.
   b.mul(b), q.div(b), k.div_rem_unchecked(b), b.gt(&k) are calls of the model's U_mul, U_div, U_div_rem_unchecked, ucmp;
   a panic of the model function (`outcome`: strict multiplication overflow in debug builds) is the caller's Panicked. *)
From Bnum Require Import Base Prim.
From Bnum.Model Require Import DigitPrims LoopPrims Digit Core Shift AddSub Mul Div Bits Pow Imp.
From Bnum.Generated Require Import DigitGen Loops.
From Bnum.Proofs Require Import DivAux ImpLemmas ImpLemmas2 LoopsTieC06 LoopsTieDiv LoopsTieC06b.

Lemma loops_checked_ilog2 w n a : 0 < w -> wf w n a ->
  forall fuel, (n <= fuel)%nat -> Loops.checked_ilog2 w (Z.of_nat n) fuel a = Done (U_checked_ilog2 w a).
Proof.
  intros Hw Ha fuel Hf. unfold Loops.checked_ilog2. rewrite loops_bits by assumption. reflexivity.
Qed.

Lemma eshl_1 m : eshl m 1 = Done (m * 2 mod 2 ^ 32).
Proof. reflexivity. Qed.

(* the generated recursion and the model's recursion consume the budget in the same way *)
Lemma loops_iilog dbg w N : forall fuel m b k,
  Loops.iilog dbg w N fuel m b k =
  match Pow.iilog fuel dbg w m b k with
  | None => NoFuel
  | Some Panic => Panicked
  | Some (Ret r) => Done r
  end.
Proof.
  induction fuel as [|f IH]; intros m b k; [reflexivity|].
  cbn [Loops.iilog Pow.iilog]. destruct (cmp_gt (ucmp b k)); [reflexivity|].
  rewrite eshl_1. cbn [bind].
  destruct (U_mul dbg w b b) as [bb|]; [|reflexivity]. cbn [of_outcome bind].
  rewrite IH. destruct (Pow.iilog f dbg w (m * 2 mod 2 ^ 32) bb (fst (U_div_rem_unchecked w k b))) as [[[new q]|]|];
    try reflexivity. cbn [bind fst snd].
  destruct (cmp_gt (ucmp b q)); [reflexivity|].
  destruct (U_div w q b); reflexivity.
Qed.

(* more budget does not change a result *)
Lemma iilog_mono dbg w : forall f f' m b k r, (f <= f')%nat ->
  Pow.iilog f dbg w m b k = Some r -> Pow.iilog f' dbg w m b k = Some r.
Proof.
  induction f as [|f IH]; intros f' m b k r Hle H; [discriminate|].
  destruct f' as [|f']; [lia|]. cbn [Pow.iilog] in *.
  destruct (cmp_gt (ucmp b k)); [exact H|].
  destruct (U_mul dbg w b b) as [bb|]; [|exact H].
  destruct (Pow.iilog f dbg w (m * 2 mod 2 ^ 32) bb (fst (U_div_rem_unchecked w k b))) as [r1|] eqn:E; [|discriminate].
  rewrite (IH f' _ _ _ r1 ltac:(lia) E). exact H.
Qed.

Lemma loops_iilog_enough dbg w N f fuel m b k r : (f <= fuel)%nat -> Pow.iilog f dbg w m b k = Some r ->
  Loops.iilog dbg w N fuel m b k = match r with Panic => Panicked | Ret x => Done x end.
Proof. intros Hle H. rewrite loops_iilog, (iilog_mono dbg w f fuel m b k r Hle H). reflexivity. Qed.

(* what a caller's result means: Some (Ret o) - returns o; Some Panic - panics; None - the model's own budget was too
   small (excluded for all well-formed operands by Properties/C08.v) *)
Definition ilog_rel {A : Type} (model : option (outcome A)) (code : res A) : Prop :=
  match model with
  | Some (Ret o) => code = Done o
  | Some Panic => code = Panicked
  | None => True
  end.

Lemma loops_checked_ilog10 dbg w n a : 0 < w -> 10 < B w -> (0 < n)%nat -> wf w n a ->
  forall fuel, (n <= fuel)%nat -> (ilog_fuel w n <= fuel)%nat ->
  ilog_rel (U_checked_ilog10 dbg w a) (Loops.checked_ilog10 dbg w (Z.of_nat n) fuel a).
Proof.
  intros Hw H10 Hn Ha fuel Hf Hf2. unfold Loops.checked_ilog10, U_checked_ilog10. rewrite (proj1 Ha).
  rewrite loops_is_zero by assumption. cbn [bind]. destruct (is_zero a); [reflexivity|].
  rewrite !loops_from_digit by assumption. cbn [bind]. fold (TEN n).
  destruct (cmp_gt (ucmp (TEN n) a)); [reflexivity|].
  rewrite loops_div_rem_digit by assumption. cbn [bind].
  destruct (Pow.iilog (ilog_fuel w n) dbg w 1 (TEN n) (fst (div_rem_digit w a 10))) as [r|] eqn:E; [|exact I].
  rewrite (loops_iilog_enough dbg w _ _ fuel _ _ _ r Hf2 E). destruct r as [[x q]|]; reflexivity.
Qed.

Lemma wf_TWO w n : 1 < w -> wf w n (TWO n).
Proof.
  intros Hw. apply wf_from_digit; [lia|]. unfold digit_ok, B. split; [lia|].
  change 2 with (2 ^ 1) at 1. apply Z.pow_lt_mono_r; lia.
Qed.

Lemma loops_checked_ilog dbg w n a base : 1 < w -> (0 < n)%nat -> wf w n a -> wf w n base ->
  forall fuel, (n <= fuel)%nat -> (ilog_fuel w n <= fuel)%nat ->
  ilog_rel (U_checked_ilog dbg w a base) (Loops.checked_ilog dbg w (Z.of_nat n) fuel a base).
Proof.
  intros Hw Hn Ha Hb fuel Hf Hf2. unfold Loops.checked_ilog, U_checked_ilog. rewrite (proj1 Ha).
  rewrite loops_from_digit by assumption. cbn [bind]. fold (TWO n).
  rewrite loops_cmp by first [lia | assumption | apply wf_TWO; assumption]. cbn [bind].
  destruct (ucmp base (TWO n)).
  - rewrite loops_checked_ilog2 by first [lia | assumption]. reflexivity.
  - reflexivity.
  - rewrite loops_is_zero by first [lia | assumption]. cbn [bind]. destruct (is_zero a); [reflexivity|].
    destruct (cmp_gt (ucmp base a)); [reflexivity|].
    destruct (U_div w a base) as [q|]; [|reflexivity]. cbn [of_outcome bind].
    destruct (Pow.iilog (ilog_fuel w n) dbg w 1 base q) as [r|] eqn:E; [|exact I].
    rewrite (loops_iilog_enough dbg w _ _ fuel _ _ _ r Hf2 E). destruct r as [[x q']|]; reflexivity.
Qed.

(* ---- all obligations of this batch in one statement ---- *)
Theorem loops_C08b_match_model dbg w : 1 < w ->
  (forall n a fuel, wf w n a -> (n <= fuel)%nat ->
     Loops.checked_ilog2 w (Z.of_nat n) fuel a = Done (U_checked_ilog2 w a)) /\
  (forall N fuel m b k,
     Loops.iilog dbg w N fuel m b k =
     match Pow.iilog fuel dbg w m b k with None => NoFuel | Some Panic => Panicked | Some (Ret r) => Done r end) /\
  (forall n a fuel, 10 < B w -> (0 < n)%nat -> wf w n a -> (n <= fuel)%nat -> (ilog_fuel w n <= fuel)%nat ->
     match U_checked_ilog10 dbg w a with
     | Some (Ret o) => Loops.checked_ilog10 dbg w (Z.of_nat n) fuel a = Done o
     | Some Panic => Loops.checked_ilog10 dbg w (Z.of_nat n) fuel a = Panicked
     | None => True
     end) /\
  (forall n a base fuel, (0 < n)%nat -> wf w n a -> wf w n base -> (n <= fuel)%nat -> (ilog_fuel w n <= fuel)%nat ->
     match U_checked_ilog dbg w a base with
     | Some (Ret o) => Loops.checked_ilog dbg w (Z.of_nat n) fuel a base = Done o
     | Some Panic => Loops.checked_ilog dbg w (Z.of_nat n) fuel a base = Panicked
     | None => True
     end).
Proof.
  intros Hw. split; [|split; [|split]]; intros.
  - apply loops_checked_ilog2; first [lia | assumption].
  - apply loops_iilog.
  - apply (loops_checked_ilog10 dbg w n a); first [lia | assumption].
  - apply (loops_checked_ilog dbg w n a base); assumption.
Qed.

(* Proofs/DivDigit.v — div_rem_wide and div_rem_digit (division by a single digit). *)
From Bnum Require Import Base Prim.
From Bnum.Model Require Import Digit Core Shift AddSub Mul Div.
From Bnum.Proofs Require Import DivAux.

Lemma div_rem_wide_spec w low high rhs : 0 <= w -> 0 <= low < B w -> 0 <= high < rhs -> rhs <= B w ->
  div_rem_wide w low high rhs = ((low + B w * high) / rhs, (low + B w * high) mod rhs).
Proof.
  intros Hw Hl Hh Hr. unfold div_rem_wide. rewrite to_double_digit_val by auto.
  set (a := low + B w * high).
  assert (Ha : 0 <= a < rhs * B w) by (unfold a; nia).
  pose proof (Z.mod_pos_bound a rhs ltac:(lia)).
  f_equal; apply Z.mod_small.
  - split; [apply Z.div_pos; lia | apply Z.div_lt_upper_bound; lia].
  - lia.
Qed.

(* the Z content of one step: low + B*high = q*rhs + r, 0 <= r < rhs, 0 <= q < B *)
Lemma div_rem_wide_ok w low high rhs q r : 0 <= w -> 0 <= low < B w -> 0 <= high < rhs -> rhs <= B w ->
  div_rem_wide w low high rhs = (q, r) ->
  low + B w * high = q * rhs + r /\ 0 <= r < rhs /\ 0 <= q < B w.
Proof.
  intros Hw Hl Hh Hr E. rewrite div_rem_wide_spec in E by auto. inversion E; subst; clear E.
  set (a := low + B w * high).
  assert (Ha : 0 <= a < rhs * B w) by (unfold a; nia).
  pose proof (Z.mod_pos_bound a rhs ltac:(lia)).
  pose proof (Z.div_mod a rhs ltac:(lia)).
  split; [lia|]. split; [lia|].
  split; [apply Z.div_pos; lia | apply Z.div_lt_upper_bound; lia].
Qed.

Lemma div_rem_digit_loop_ok w rhs : 0 <= w -> 0 < rhs <= B w ->
  forall rds rem qs rf, Forall (digit_ok w) rds -> 0 <= rem < rhs ->
  div_rem_digit_loop w rds rhs rem = (qs, rf) ->
  length qs = length rds /\ Forall (digit_ok w) qs /\
  rem * Mod w (length rds) + uval w (rev rds) = uval w (rev qs) * rhs + rf /\ 0 <= rf < rhs.
Proof.
  intros Hw Hrhs. induction rds as [|d r IH]; intros rem qs rf Hf Hrem E.
  - cbn in E. inversion E; subst. cbn [length rev uval]. rewrite Mod_0.
    split; [reflexivity|]. split; [constructor|]. split; lia.
  - cbn [div_rem_digit_loop] in E. inversion Hf as [|? ? Hd Hf']; subst.
    destruct (div_rem_wide w d rem rhs) as [q r1] eqn:E1.
    destruct (div_rem_digit_loop w r rhs r1) as [qs' rf'] eqn:E2.
    inversion E; subst; clear E.
    destruct (div_rem_wide_ok _ _ _ _ _ _ Hw Hd Hrem ltac:(lia) E1) as (Hv1 & Hr1 & Hq).
    destruct (IH _ _ _ Hf' Hr1 E2) as (Hlen & Hqf & Hv2 & Hrf).
    cbn [length rev]. rewrite !uval_app by auto. rewrite !rev_length. cbn [uval].
    rewrite Mod_S by auto. rewrite Hlen in *.
    split; [lia|]. split; [constructor; auto|]. split; [|lia].
    pose proof (Mod_pos w (length r) Hw). nia.
Qed.

Theorem div_rem_digit_ok w n a d : 0 < w -> wf w n a -> 0 < d < B w ->
  wf w n (fst (div_rem_digit w a d)) /\
  uval w a = uval w (fst (div_rem_digit w a d)) * d + snd (div_rem_digit w a d) /\
  0 <= snd (div_rem_digit w a d) < d.
Proof.
  intros Hw0 Ha Hd. assert (Hw : 0 <= w) by lia. unfold div_rem_digit.
  destruct (div_rem_digit_loop w (rev a) d 0) as [qs r] eqn:E. cbn [fst snd].
  destruct Ha as [Hl Hf].
  destruct (div_rem_digit_loop_ok w d Hw ltac:(lia) (rev a) 0 qs r) as (Hlen & Hqf & Hv & Hr); auto.
  { apply Forall_rev; auto. } { lia. }
  rewrite rev_involutive in Hv. rewrite rev_length in Hlen.
  split; [|split; [lia | auto]].
  split; [rewrite rev_length; lia | apply Forall_rev; auto].
Qed.

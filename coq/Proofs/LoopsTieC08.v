(* Proofs/LoopsTieC08.v — pow: src/buint/overflowing.rs overflowing_pow, src/buint/checked.rs checked_pow,
   src/buint/wrapping.rs wrapping_pow (exponentiation by squaring: `while pow > 1 { if pow & 1 == 1 {..} self = self*self;
   pow >>= 1 }`).  Part of the tie between the loop functions GENERATED from /repo/src on every run
   (Generated/Loops.v, by tools/rs2v_loops.py) and the hand-written model (Model/Pow.v, which recurses over the
   binary numeral of the exponent): for every digit width, every digit count N > 0 (`Self::ONE = from_digit(1)`
   indexes digit 0), every exponent >= 0 (a u32) and fuel >= log2(exponent), the generated function neither panics
   nor runs out of fuel and returns exactly what the model function returns.  The multiplications inside the loop
   are calls of the model's U_overflowing_mul / U_checked_mul / U_wrapping_mul (tied to their source by C02). *)
From Bnum Require Import Base Prim.
From Bnum.Model Require Import DigitPrims LoopPrims Digit Core Shift AddSub Mul Div Bits Pow Imp.
From Bnum.Generated Require Import DigitGen Loops.
From Bnum.Proofs Require Import ImpLemmas ImpLemmas2 LoopsTieC06b.

Lemma loops_overflowing_pow w n a e : (0 < n)%nat -> wf w n a -> 0 <= e ->
  forall fuel, (Z.to_nat (Z.log2 e) <= fuel)%nat ->
  Loops.overflowing_pow w (Z.of_nat n) fuel a e = Done (U_overflowing_pow w a e).
Proof.
  intros Hn [Ha _] He fuel Hf. unfold Loops.overflowing_pow, U_overflowing_pow.
  destruct e as [|p0|p0]; [| |lia].
  - cbn [Z.eqb]. rewrite loops_from_digit by assumption. cbn [bind]. rewrite Ha. reflexivity.
  - cbn [Z.eqb]. rewrite loops_from_digit by assumption. cbn [bind]. rewrite Ha.
    apply while_inv_bind with
      (Inv := fun '(self, y, ovf, pow) => exists p, pow = Zpos p /\
                ovf_pow_loop w p0 a (ONE n) false = ovf_pow_loop w p self y ovf)
      (m := fun '(self, y, ovf, pow) => pow_iters pow).
    + intros [[[self y] ovf] pow] (p & -> & Heq) Hc. destruct p as [p|p|]; [| |discriminate Hc].
      * destruct (pow_step_xI p) as (_ & H1 & H2). rewrite H1, H2, pow_iters_xI. split; [lia|].
        rewrite Heq. cbn [ovf_pow_loop].
        destruct (U_overflowing_mul w y self) as [y' o1]. destruct (U_overflowing_mul w self self) as [b2 o2].
        split; [|lia]. exists p. split; reflexivity.
      * destruct (pow_step_xO p) as (_ & H1 & H2). rewrite H1, H2, pow_iters_xO. split; [lia|].
        rewrite Heq. cbn [ovf_pow_loop].
        destruct (U_overflowing_mul w self self) as [b2 o2].
        split; [|lia]. exists p. split; reflexivity.
    + intros [[[self y] ovf] pow] (p & -> & Heq) Hc. destruct p as [p|p|]; try discriminate Hc.
      rewrite Heq. cbn [ovf_pow_loop]. destruct (U_overflowing_mul w self y). reflexivity.
    + exists p0. split; reflexivity.
    + rewrite pow_iters_log2. exact Hf.
Qed.

Lemma loops_checked_pow w n a e : (0 < n)%nat -> wf w n a -> 0 <= e ->
  forall fuel, (Z.to_nat (Z.log2 e) <= fuel)%nat ->
  Loops.checked_pow w (Z.of_nat n) fuel a e = Done (U_checked_pow w a e).
Proof.
  intros Hn [Ha _] He fuel Hf. unfold Loops.checked_pow, U_checked_pow.
  destruct e as [|p0|p0]; [| |lia].
  - cbn [Z.eqb]. rewrite loops_from_digit by assumption. cbn [bind]. rewrite Ha. reflexivity.
  - cbn [Z.eqb]. rewrite loops_from_digit by assumption. cbn [bind]. rewrite Ha.
    apply while_inv_bind with
      (Inv := fun '(self, y, pow) => exists p, pow = Zpos p /\
                checked_pow_loop w p0 a (ONE n) = checked_pow_loop w p self y)
      (m := fun '(self, y, pow) => pow_iters pow).
    + intros [[self y] pow] (p & -> & Heq) Hc. destruct p as [p|p|]; [| |discriminate Hc].
      * destruct (pow_step_xI p) as (_ & H1 & H2). rewrite H1, H2, pow_iters_xI. split; [lia|].
        rewrite Heq. cbn [checked_pow_loop].
        destruct (U_checked_mul w self y) as [y'|]; [|reflexivity].
        destruct (U_checked_mul w self self) as [b2|]; [|reflexivity].
        split; [|lia]. exists p. split; reflexivity.
      * destruct (pow_step_xO p) as (_ & H1 & H2). rewrite H1, H2, pow_iters_xO. split; [lia|].
        rewrite Heq. cbn [checked_pow_loop].
        destruct (U_checked_mul w self self) as [b2|]; [|reflexivity].
        split; [|lia]. exists p. split; reflexivity.
    + intros [[self y] pow] (p & -> & Heq) Hc. destruct p as [p|p|]; try discriminate Hc.
      rewrite Heq. reflexivity.
    + exists p0. split; reflexivity.
    + rewrite pow_iters_log2. exact Hf.
Qed.

Lemma loops_wrapping_pow w n a e : (0 < n)%nat -> wf w n a -> 0 <= e ->
  forall fuel, (Z.to_nat (Z.log2 e) <= fuel)%nat ->
  Loops.wrapping_pow w (Z.of_nat n) fuel a e = Done (U_wrapping_pow w a e).
Proof.
  intros Hn [Ha _] He fuel Hf. unfold Loops.wrapping_pow, U_wrapping_pow.
  destruct e as [|p0|p0]; [| |lia].
  - cbn [Z.eqb]. rewrite loops_from_digit by assumption. cbn [bind]. rewrite Ha. reflexivity.
  - cbn [Z.eqb]. rewrite loops_from_digit by assumption. cbn [bind]. rewrite Ha.
    apply while_inv_bind with
      (Inv := fun '(self, y, pow) => exists p, pow = Zpos p /\
                wrapping_pow_loop w p0 a (ONE n) = wrapping_pow_loop w p self y)
      (m := fun '(self, y, pow) => pow_iters pow).
    + intros [[self y] pow] (p & -> & Heq) Hc. destruct p as [p|p|]; [| |discriminate Hc].
      * destruct (pow_step_xI p) as (_ & H1 & H2). rewrite H1, H2, pow_iters_xI. split; [lia|].
        rewrite Heq. cbn [wrapping_pow_loop].
        split; [|lia]. exists p. split; reflexivity.
      * destruct (pow_step_xO p) as (_ & H1 & H2). rewrite H1, H2, pow_iters_xO. split; [lia|].
        rewrite Heq. cbn [wrapping_pow_loop].
        split; [|lia]. exists p. split; reflexivity.
    + intros [[self y] pow] (p & -> & Heq) Hc. destruct p as [p|p|]; try discriminate Hc.
      rewrite Heq. reflexivity.
    + exists p0. split; reflexivity.
    + rewrite pow_iters_log2. exact Hf.
Qed.

(* ---- all obligations of the group in one statement ---- *)
Theorem loops_C08_match_model w :
  (forall n a e fuel, (0 < n)%nat -> wf w n a -> 0 <= e -> (Z.to_nat (Z.log2 e) <= fuel)%nat ->
     Loops.overflowing_pow w (Z.of_nat n) fuel a e = Done (U_overflowing_pow w a e)) /\
  (forall n a e fuel, (0 < n)%nat -> wf w n a -> 0 <= e -> (Z.to_nat (Z.log2 e) <= fuel)%nat ->
     Loops.checked_pow w (Z.of_nat n) fuel a e = Done (U_checked_pow w a e)) /\
  (forall n a e fuel, (0 < n)%nat -> wf w n a -> 0 <= e -> (Z.to_nat (Z.log2 e) <= fuel)%nat ->
     Loops.wrapping_pow w (Z.of_nat n) fuel a e = Done (U_wrapping_pow w a e)).
Proof.
  split; [|split]; intros.
  - apply loops_overflowing_pow; assumption.
  - apply loops_checked_pow; assumption.
  - apply loops_wrapping_pow; assumption.
Qed.
